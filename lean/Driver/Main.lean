import Lean.Data.Json
import Jasm.Model.Rx
import Jasm.Model.Yaml
import Jasm.Model.Compile
import Jasm.Model.Stream
import Jasm.Model.Parser
import Jasm.Model.Macro
import Jasm.Model.Pipeline
import Jasm.Spec.Den
import Jasm.Spec.Objdump
import Jasm.Model.Cli
/-!
# Line-protocol driver: one JSON request per line on stdin, one JSON reply per line on stdout.

YAML dictionaries travel as `{"d": [[k, v], …]}` (ordered), floats as `{"f": "text"}`.
-/
open Lean Jasm

def strOf (s : Str) : String := String.ofList s

partial def yOfJson : Json → Except String Y
  | .null => pure .null
  | .bool b => pure (.bool b)
  | .str s => pure (.str s.toList)
  | .num n =>
    if n.exponent = 0 then pure (.int n.mantissa) else throw "non-integer number"
  | .arr a => do
    let l ← a.toList.mapM yOfJson
    pure (.list l)
  | j@(.obj _) => do
    match j.getObjVal? "d" with
    | .ok (.arr items) => do
      let l ← items.toList.mapM fun it => do
        match it with
        | .arr #[k, v] => do
          let k' ← yOfJson k
          let v' ← yOfJson v
          pure (k', v')
        | _ => throw "bad dict item"
      pure (.dict l)
    | _ =>
      match j.getObjVal? "f" with
      | .ok (.str s) => pure (.float s.toList)
      | _ => throw "bad object"

partial def jsonOfY : Y → Json
  | .null => .null
  | .bool b => .bool b
  | .str s => .str (strOf s)
  | .int n => .num (JsonNumber.fromInt n)
  | .float s => Json.mkObj [("f", .str (strOf s))]
  | .list l => .arr (l.map jsonOfY).toArray
  | .dict l => Json.mkObj [("d", .arr (l.map fun (k, v) => .arr #[jsonOfY k, jsonOfY v]).toArray)]

def replyM {α} (r : M α) (f : α → Json) : Json :=
  match r with
  | .ok a => Json.mkObj [("ok", f a)]
  | .error (.error m) => Json.mkObj [("err", .str m)]
  | .error (.unsupported m) => Json.mkObj [("unsup", .str m)]

def getFlags (j : Json) : Except String Flags := do
  let a ← j.getObjValAs? (Array Bool) "fl"
  match a with
  | #[m, o] => pure ⟨m, o⟩
  | _ => throw "fl must be [bool, bool]"

def jsonOfInst (i : Inst) : Json :=
  .arr #[.str (strOf i.addr), .str (strOf i.mnem), .arr (i.ops.map fun o => Json.str (strOf o)).toArray]

def instOfJson (j : Json) : Except String Inst := do
  match j with
  | .arr #[.str a, .str m, .arr ops] => do
    let os ← ops.toList.mapM fun o => match o with
      | .str s => pure s.toList
      | _ => throw "bad operand"
    pure ⟨a.toList, m.toList, os⟩
  | _ => throw "bad instruction"

def getRange (j : Json) : Except String (Option AddrRange) :=
  match j.getObjVal? "range" with
  | .ok (.arr #[lo, hi]) => do
    let lo ← lo.getNat?
    let hi ← hi.getNat?
    pure (some ⟨lo, hi⟩)
  | _ => pure none

def jsonOfResult : Result → Json
  | .bool b => .bool b
  | .list l => .arr (l.map fun s => Json.str (strOf s)).toArray
  | .stream s => .str (strOf s)

def strField (j : Json) (k : String) : Except String Str := do
  let s ← j.getObjValAs? String k
  pure s.toList

def optStrField (j : Json) (k : String) : Option Str :=
  match j.getObjVal? k with
  | .ok (.str s) => some s.toList
  | _ => none

def pairsOf : Str → List (Char × Char)
  | a :: b :: t => (a, b) :: pairsOf t
  | _ => []

def operandOfJson (j : Json) : Except String Operand := do
  let k ← j.getObjValAs? String "k"
  match k with
  | "imm" => pure (.imm (← strField j "v"))
  | "reg" => pure (.reg (← strField j "r"))
  | "target" => pure (.target (← strField j "h"))
  | "star" => pure (.star (← strField j "r"))
  | "mem" =>
    let bc := match optStrField j "b", optStrField j "c" with
      | some b, some c => some (b, c)
      | _, _ => none
    pure (.mem ((optStrField j "disp").getD []) (optStrField j "a") bc)
  | _ => throw "bad operand kind"

def lineSpecOfJson (j : Json) : Except String LineSpec := do
  let k ← j.getObjValAs? String "k"
  match k with
  | "inst" => do
    let ops ← (← j.getObjValAs? (Array Json) "ops").toList.mapM operandOfJson
    pure (.inst {
      indent := ← j.getObjValAs? Nat "indent", addr := ← strField j "addr",
      bytes := pairsOf (← strField j "bytes"), pad := ← j.getObjValAs? Nat "pad",
      mnem := ← strField j "mnem", gap := ← j.getObjValAs? Nat "gap", ops := ops,
      annot := optStrField j "annot", comment := optStrField j "comment",
      trail := (j.getObjValAs? Nat "trail").toOption.getD 0 })
  | "cont" => pure (.cont (← j.getObjValAs? Nat "indent") (← strField j "addr") (pairsOf (← strField j "bytes")))
  | "label" => pure (.label (← strField j "addr") (← strField j "name"))
  | "blank" => pure .blank
  | "header" => pure (.header (← strField j "name") (← strField j "format"))
  | "sect" => pure (.sect (← strField j "name"))
  | "dots" => pure .dots
  | _ => throw "bad line kind"

def getInsts (j : Json) : Except String (M (List Inst)) :=
  match j.getObjVal? "insts" with
  | .ok (.arr a) => do
    let l ← a.toList.mapM instOfJson
    pure (pure l)
  | _ => do
    let t ← j.getObjValAs? String "text"
    -- the text is the content of a listing FILE: it reaches the parser through Python's text layer
    pure (parseListing (universalNewlines t.toList))

/-- a document field: `{"err": _}` = the file could not be read / parsed, otherwise the YAML value -/
def getDoc (j : Json) : Except String (M Y) :=
  match j with
  | .obj _ =>
    match j.getObjVal? "err" with
    | .ok _ => pure (fail "rule/macro file cannot be loaded")
    | .error _ => do let y ← yOfJson j; pure (pure y)
  | _ => do let y ← yOfJson j; pure (pure y)

def jsonOfConfig (c : Config) : Json :=
  let ob (o : Option Bool) : Json := match o with | some b => .bool b | none => .null
  Json.mkObj [
    ("mnemFull", ob c.mnemFull), ("opsFull", ob c.opsFull),
    ("style", match c.style with | some .att => .str "att" | some .intel => .str "intel" | none => .null),
    ("range", match c.range with
      | some (some r) => .arr #[.num (JsonNumber.fromNat r.min), .num (JsonNumber.fromNat r.max)]
      | some none => .str "None" | none => .null),
    ("sections", match c.sections with
      | some l => .arr (l.map fun s => Json.str (strOf s)).toArray | none => .null)]

/-- a regex AST sent by the engine tie: `{"t": "seq", "a": …, "b": …}` etc. -/
partial def rxOfJson (j : Json) : Except String Rx := do
  let t ← j.getObjValAs? String "t"
  let ch (k : String) : Except String Char := do
    let s ← j.getObjValAs? String k
    match s.toList with
    | [c] => pure c
    | _ => throw "one character expected"
  let sub (k : String) : Except String Rx := do rxOfJson (← j.getObjVal? k)
  match t with
  | "eps" => pure .eps
  | "chr" => pure (.chr (← ch "c"))
  | "esc" => pure (.esc (← ch "c"))
  | "any" => pure .any
  | "cls" => do
    let neg ← j.getObjValAs? Bool "neg"
    let items ← j.getObjValAs? (Array String) "items"
    let its ← items.toList.mapM fun s => match s.toList with
      | [c] => pure (CI.ch c)
      | ['\\', 'd'] => pure CI.digit
      | _ => throw "bad class item"
    pure (.cls neg its)
  | "seq" => pure (.seq (← sub "a") (← sub "b"))
  | "alt" => pure (.alt (← sub "a") (← sub "b"))
  | "grp" => pure (.grp (← sub "r"))
  | "rep" => pure (.rep (← sub "r") (← j.getObjValAs? Nat "lo") (← j.getObjValAs? Nat "hi"))
  | "opt" => pure (.opt (← sub "r"))
  | "plus" => pure (.plus (← sub "r"))
  | "cap" => pure (.cap (← j.getObjValAs? Nat "n") (← sub "r"))
  | "bref" => pure (.bref (← j.getObjValAs? Nat "n"))
  | "nla" => pure (.nla (← sub "r"))
  | _ => throw s!"unknown regex node {t}"

def handle (st : Config) (j : Json) : Except String (Config × Json) := do
  let op ← j.getObjValAs? String "op"
  match op with
  | "reset" => pure ({}, Json.mkObj [("ok", .str "reset")])
  | "state" => pure (st, Json.mkObj [("ok", jsonOfConfig st)])
  | "rule" => do
    let doc ← getDoc (← j.getObjVal? "doc")
    let mds ← match j.getObjVal? "macroDocs" with
      | .ok (.arr a) => a.toList.mapM getDoc
      | _ => pure []
    match doc with
    | .error _ => pure (st, Json.mkObj [("err", .str "rule file cannot be loaded")])
    | .ok d =>
      let (st', r) := compileRule d mds st
      pure (st', match r with
        | .ok rx => Json.mkObj [("ok", .str (strOf rx.render)), ("wf", .bool rx.wf)]
        | e => replyM e fun _ => Json.null)
  | "run" => do
    let doc ← getDoc (← j.getObjVal? "doc")
    let mds ← match j.getObjVal? "macroDocs" with
      | .ok (.arr a) => a.toList.mapM getDoc
      | _ => pure []
    let kind ← j.getObjValAs? String "kind"
    let mode ← j.getObjValAs? String "mode"
    let addrOnly ← j.getObjValAs? Bool "addrOnly"
    let ret ← j.getObjValAs? String "ret"
    -- the world: the listing text (or objdump output for the arguments the model asks for)
    let input : M Str := match j.getObjVal? "text" with
      | .ok (.str t) => pure t.toList
      | _ => fail "input cannot be read / disassembled"
    let expectArgs : Option (List Str) := match j.getObjVal? "objdumpArgs" with
      | .ok (.arr a) => some (a.toList.filterMap fun x => match x with | .str s => some s.toList | _ => none)
      | _ => none
    let w : World := World.ofRaw (fun _ => input)
      (fun args _ => match expectArgs with
        | some ea => if ea = args then input else unsup "objdump output supplied for other arguments"
        | none => input)
    let o : Op := {
      doc := doc, macroDocs := mds,
      kind := if kind == "binary" then .binary else .assembly,
      path := [], mode := if mode == "all" then .all else .first, addrOnly := addrOnly,
      ret := if ret == "bool" then .bool else if ret == "list" then .list else .stream }
    let (st', r) := runOp w st o
    pure (st', replyM r jsonOfResult)
  | "judge" => do
    -- everything about one (rule, listing) pair in one reply: model regex, stream, the results in
    -- all modes, and the specification's verdict computed from `den` (no regex involved)
    let doc ← getDoc (← j.getObjVal? "doc")
    let mds ← match j.getObjVal? "macroDocs" with
      | .ok (.arr a) => a.toList.mapM getDoc
      | _ => pure []
    let insts ← getInsts j
    match doc with
    | .error _ => pure (st, Json.mkObj [("err", .str "rule file cannot be loaded")])
    | .ok d =>
      let (st', r) := compileRule d mds st
      let body : M Json := do
        let rx ← r
        let l ← insts
        let kept ← processAll (st'.range.getD none) l
        let stream := encAll kept
        let strs (l : List Str) : Json := .arr (l.map fun s => Json.str (strOf s)).toArray
        let first := reported rx .first false stream
        let all := reported rx .all false stream
        let firstA := reported rx .first true stream
        let allA := reported rx .all true stream
        -- the typed tree for the specification
        let spec : Json ← (do
          let pattern := (match d with | .dict dd => (dictGet dd "pattern").getD .null | _ => .null)
          let macros := (match d with | .dict dd => (match dictGet dd "macros" with | some (.list l) => l | _ => []) | _ => [])
          let extra ← mds.foldlM (fun acc md => do
            match (← md) with
            | .dict m => match dictGet m "macros" with
              | some (.list l) => pure (acc ++ l)
              | _ => fail "bad macro file"
            | _ => fail "bad macro file") []
          let tree ← if !macros.isEmpty || !mds.isEmpty then resolveAllMacros (extra ++ macros) (topTree pattern)
                     else pure (topTree pattern)
          let (p, _) ← typeTree tree
          let fl := st'.flags
          let scan := scanSpec fl p kept (kept.length + 2) 0
          pure (Json.mkObj [
            ("found", .bool (foundSpec fl p kept)),
            ("scan", .arr (scan.map fun (i, n) => Json.arr #[.num (JsonNumber.fromNat i), .num (JsonNumber.fromNat n)]).toArray)]))
        pure (Json.mkObj [
          ("regex", .str (strOf rx.render)), ("wf", .bool rx.wf), ("stream", .str (strOf stream)),
          ("kept", .arr (kept.map jsonOfInst).toArray),
          ("first", strs first), ("all", strs all), ("firstAddr", strs firstA), ("allAddr", strs allA),
          ("spec", spec)])
      pure (st', replyM body id)
  | "linespec" => do
    let ls ← (← j.getObjValAs? (Array Json) "lines").toList.mapM lineSpecOfJson
    pure (st, Json.mkObj [("ok", Json.mkObj [
      ("text", .str (strOf (renderListing ls))),
      ("lines", .arr (ls.map fun l => Json.str (strOf (renderLine l))).toArray),
      ("expected", .arr ((expectedInsts ls).map jsonOfInst).toArray)])])
  | "cli" => do
    let argv ← j.getObjValAs? (Array String) "argv"
    let r := (parseArgs (argv.toList.map String.toList)).bind toMatchConfig
    pure (st, match r with
      | .ok c => Json.mkObj [("ok", Json.mkObj [
          ("pattern", .str (strOf c.pattern)), ("input", .str (strOf c.input)),
          ("kind", .str (match c.kind with | .binary => "binary" | .assembly => "assembly")),
          ("mode", .str (match c.mode with | .all => "all" | .first => "first")),
          ("addrOnly", .bool c.addrOnly),
          ("macros", .arr (c.macros.map fun m => Json.str (strOf m)).toArray)])]
      | .error (.usage m) => Json.mkObj [("err", .str m)]
      | .error (.unsupported m) => Json.mkObj [("unsup", .str m)])
  | "objdumpArgs" => do
    pure (st, Json.mkObj [("ok", .arr ((objdumpArgs (st.style.getD .att) (st.sections.getD [])).map
      fun s => Json.str (strOf s)).toArray)])
  | "expand" => do
    let macros ← yOfJson (← j.getObjVal? "macros")
    let tree ← yOfJson (← j.getObjVal? "tree")
    match macros with
    | .list ms => pure (st, replyM (resolveAllMacros ms tree) jsonOfY)
    | _ => throw "macros must be a list"
  | _ => do let r ← handlePure j op; pure (st, r)
where handlePure (j : Json) (op : String) : Except String Json := do
  match op with
  | "ping" => pure (Json.mkObj [("ok", .str "pong")])
  | "engine" => do
    -- engine tie: the model of the regex engine alone, on an arbitrary AST of the emitted operator set
    let rx ← rxOfJson (← j.getObjVal? "rx")
    let t ← j.getObjValAs? String "text"
    let s := t.toList
    let first : Json := match search rx s with
      | some (k, m, _) => .arr #[.num (JsonNumber.fromNat k), .str (strOf m)]
      | none => .null
    pure (Json.mkObj [("ok", Json.mkObj [("render", .str (strOf rx.render)), ("wf", .bool rx.wf), ("first", first),
      ("all", .arr ((findAll rx s).map fun m => Json.str (strOf m)).toArray)])])
  | "compile" => do
    let fl ← getFlags j
    let tree ← yOfJson (← j.getObjVal? "tree")
    let r := compileTree fl tree
    pure (match r with
      | .ok rx => Json.mkObj [("ok", .str (strOf rx.render)), ("wf", .bool rx.wf)]
      | e => replyM e fun _ => Json.null)
  | "parse" => do
    let t ← j.getObjValAs? String "text"
    pure (replyM (parseListing t.toList) fun l => .arr (l.map jsonOfInst).toArray)
  | "parseline" => do
    let t ← j.getObjValAs? String "text"
    pure (replyM (parseLine t.toList) fun o => match o with
      | some i => jsonOfInst i
      | none => .null)
  | "stream" => do
    let insts ← getInsts j
    let rng ← getRange j
    pure (replyM (do let l ← insts; let k ← processAll rng l; pure (encAll k)) fun s => .str (strOf s))
  | "match" => do
    let fl ← getFlags j
    let tree ← yOfJson (← j.getObjVal? "tree")
    let insts ← getInsts j
    let rng ← getRange j
    let mode ← j.getObjValAs? String "mode"
    let addrOnly ← j.getObjValAs? Bool "addrOnly"
    let ret ← j.getObjValAs? String "ret"
    let mode := if mode == "all" then SearchMode.all else .first
    let ret := if ret == "bool" then ReturnMode.bool else if ret == "list" then .list else .stream
    pure (replyM (do
        let rx ← compileTree fl tree
        let l ← insts
        matchInsts rx rng mode addrOnly ret l) jsonOfResult)
  | _ => throw s!"unknown op {op}"

partial def loop (hin : IO.FS.Stream) (hout : IO.FS.Stream) (st : Config) : IO Unit := do
  let line ← hin.getLine
  if line.isEmpty then return ()
  let (st', reply) : Config × Json :=
    match Json.parse line with
    | .error e => (st, Json.mkObj [("bad", .str e)])
    | .ok j => match handle st j with
      | .ok r => r
      | .error e => (st, Json.mkObj [("bad", .str e)])
  hout.putStrLn reply.compress
  hout.flush
  loop hin hout st'

def main : IO Unit := do
  loop (← IO.getStdin) (← IO.getStdout) {}

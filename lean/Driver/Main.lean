import Lean.Data.Json
import Jasm.Model.Rx
import Jasm.Model.Yaml
import Jasm.Model.Compile
import Jasm.Model.Stream
import Jasm.Model.Parser
/-!
# Line-protocol driver: one JSON request per line on stdin, one JSON reply per line on stdout.

YAML dictionaries travel as `{"d": [[k, v], …]}` (ordered), floats as `{"f": "text"}`.
-/
open Lean Jasm

def strOf (s : Str) : String := String.ofList s

partial def yOfJson : Json → Except String Y
  | .null => pure .null
  | .bool b => pure (.bool b)
  | .str s => pure (.str s.toList)
  | .num n =>
    if n.exponent = 0 then pure (.int n.mantissa) else throw "non-integer number"
  | .arr a => do
    let l ← a.toList.mapM yOfJson
    pure (.list l)
  | j@(.obj _) => do
    match j.getObjVal? "d" with
    | .ok (.arr items) => do
      let l ← items.toList.mapM fun it => do
        match it with
        | .arr #[k, v] => do
          let k' ← yOfJson k
          let v' ← yOfJson v
          pure (k', v')
        | _ => throw "bad dict item"
      pure (.dict l)
    | _ =>
      match j.getObjVal? "f" with
      | .ok (.str s) => pure (.float s.toList)
      | _ => throw "bad object"

partial def jsonOfY : Y → Json
  | .null => .null
  | .bool b => .bool b
  | .str s => .str (strOf s)
  | .int n => .num (JsonNumber.fromInt n)
  | .float s => Json.mkObj [("f", .str (strOf s))]
  | .list l => .arr (l.map jsonOfY).toArray
  | .dict l => Json.mkObj [("d", .arr (l.map fun (k, v) => .arr #[jsonOfY k, jsonOfY v]).toArray)]

def replyM {α} (r : M α) (f : α → Json) : Json :=
  match r with
  | .ok a => Json.mkObj [("ok", f a)]
  | .error (.error m) => Json.mkObj [("err", .str m)]
  | .error (.unsupported m) => Json.mkObj [("unsup", .str m)]

def getFlags (j : Json) : Except String Flags := do
  let a ← j.getObjValAs? (Array Bool) "fl"
  match a with
  | #[m, o] => pure ⟨m, o⟩
  | _ => throw "fl must be [bool, bool]"

def jsonOfInst (i : Inst) : Json :=
  .arr #[.str (strOf i.addr), .str (strOf i.mnem), .arr (i.ops.map fun o => Json.str (strOf o)).toArray]

def instOfJson (j : Json) : Except String Inst := do
  match j with
  | .arr #[.str a, .str m, .arr ops] => do
    let os ← ops.toList.mapM fun o => match o with
      | .str s => pure s.toList
      | _ => throw "bad operand"
    pure ⟨a.toList, m.toList, os⟩
  | _ => throw "bad instruction"

def getRange (j : Json) : Except String (Option AddrRange) :=
  match j.getObjVal? "range" with
  | .ok (.arr #[lo, hi]) => do
    let lo ← lo.getNat?
    let hi ← hi.getNat?
    pure (some ⟨lo, hi⟩)
  | _ => pure none

def jsonOfResult : Result → Json
  | .bool b => .bool b
  | .list l => .arr (l.map fun s => Json.str (strOf s)).toArray
  | .stream s => .str (strOf s)

def getInsts (j : Json) : Except String (M (List Inst)) :=
  match j.getObjVal? "insts" with
  | .ok (.arr a) => do
    let l ← a.toList.mapM instOfJson
    pure (pure l)
  | _ => do
    let t ← j.getObjValAs? String "text"
    pure (parseListing t.toList)

def handle (j : Json) : Except String Json := do
  let op ← j.getObjValAs? String "op"
  match op with
  | "ping" => pure (Json.mkObj [("ok", .str "pong")])
  | "compile" => do
    let fl ← getFlags j
    let tree ← yOfJson (← j.getObjVal? "tree")
    let r := compileTree fl tree
    pure (match r with
      | .ok rx => Json.mkObj [("ok", .str (strOf rx.render)), ("wf", .bool rx.wf)]
      | e => replyM e fun _ => Json.null)
  | "parse" => do
    let t ← j.getObjValAs? String "text"
    pure (replyM (parseListing t.toList) fun l => .arr (l.map jsonOfInst).toArray)
  | "parseline" => do
    let t ← j.getObjValAs? String "text"
    pure (replyM (parseLine t.toList) fun o => match o with
      | some i => jsonOfInst i
      | none => .null)
  | "stream" => do
    let insts ← getInsts j
    let rng ← getRange j
    pure (replyM (do let l ← insts; let k ← processAll rng l; pure (encAll k)) fun s => .str (strOf s))
  | "match" => do
    let fl ← getFlags j
    let tree ← yOfJson (← j.getObjVal? "tree")
    let insts ← getInsts j
    let rng ← getRange j
    let mode ← j.getObjValAs? String "mode"
    let addrOnly ← j.getObjValAs? Bool "addrOnly"
    let ret ← j.getObjValAs? String "ret"
    let mode := if mode == "all" then SearchMode.all else .first
    let ret := if ret == "bool" then ReturnMode.bool else if ret == "list" then .list else .stream
    pure (replyM (do
        let rx ← compileTree fl tree
        let l ← insts
        matchInsts rx rng mode addrOnly ret l) jsonOfResult)
  | _ => throw s!"unknown op {op}"

partial def loop (hin : IO.FS.Stream) (hout : IO.FS.Stream) : IO Unit := do
  let line ← hin.getLine
  if line.isEmpty then return ()
  let reply : Json :=
    match Json.parse line with
    | .error e => Json.mkObj [("bad", .str e)]
    | .ok j => match handle j with
      | .ok r => r
      | .error e => Json.mkObj [("bad", .str e)]
  hout.putStrLn reply.compress
  hout.flush
  loop hin hout

def main : IO Unit := do
  loop (← IO.getStdin) (← IO.getStdout)

import Jasm.Model.Compile
import Jasm.Model.Stream
/-!
# Decoding the stream (specification side of C10)
-/
namespace Jasm

/-- one record without its terminating `|`: `addr::mnem,op,…,` -/
def decodeRec (r : Str) : Option Inst :=
  let addr := firstAddr r
  let rest := r.drop addr.length
  if [':', ':'].isPrefixOf rest then
    match (splitOnChar ',' (rest.drop 2)).dropLast with
    | m :: ops => some ⟨addr, m, if ops = [[]] then [] else ops⟩
    | [] => none
  else none

def decodeRecs : List Str → Option (List Inst)
  | [] => some []
  | r :: rs => match decodeRec r, decodeRecs rs with
    | some i, some is => some (i :: is)
    | _, _ => none

/-- split on `|` (every record is terminated by one), then decode each record -/
def decode (s : Str) : Option (List Inst) :=
  let recs := splitOnChar '|' s
  if recs.getLast? = some [] then decodeRecs recs.dropLast else none

/-- the hypotheses under which the encoding is unambiguous -/
def cleanField (f : Str) : Prop := ',' ∉ f ∧ '|' ∉ f

structure Inst.WF (i : Inst) : Prop where
  addr_colon : ':' ∉ i.addr
  addr_bar : '|' ∉ i.addr
  mnem_clean : cleanField i.mnem
  ops_clean : ∀ o ∈ i.ops, cleanField o ∧ o ≠ []

end Jasm

import Jasm.Model.Compile
import Jasm.Model.Stream
/-!
# Specification of the pattern language (what a pattern *means*)

`denI fl p σ L` lists, for every way pattern `p` can match at the front of the instruction list `L`
under capture bindings `σ`, the number of instructions it consumes and the resulting bindings.
`denO` does the same over the operand fields of one instruction.  This is the readable
specification the properties C01–C07/C11 are stated against; it never mentions regular
expressions or the character stream.
-/
namespace Jasm

/-- capture bindings by *name* -/
abbrev Sigma := List (Str × Str)

/-- the comma-terminated fields of a record after the address: mnemonic, then the operands
(an instruction without operands has one empty operand field) -/
def Inst.fields (i : Inst) : List Str := i.mnem :: (if i.ops.isEmpty then [[]] else i.ops)

/-- what the instruction-level capture binds: `mnem,op,…` (never the address) -/
def Inst.body (i : Inst) : Str := joinSep [','] i.fields

/-- name relation: equality under full match, "occurs in" otherwise -/
def rel (full : Bool) (name f : Str) : Bool := if full then name == f else isInfix name f

/-- sequential composition over a list of denotations -/
def seqDen {α} (ds : List (Sigma → List α → List (Nat × Sigma))) (σ : Sigma) (w : List α) : List (Nat × Sigma) :=
  match ds with
  | [] => [(0, σ)]
  | d :: ds => (d σ w).flatMap fun (k, σ') => (seqDen ds σ' (w.drop k)).map fun (k', σ'') => (k + k', σ'')

/-- `r`-fold repetition for `lo ≤ r ≤ hi`, longest first -/
def iterDen {α} (d : Sigma → List α → List (Nat × Sigma)) : Nat → Nat → Sigma → List α → List (Nat × Sigma)
  | lo, 0, σ, _ => if lo = 0 then [(0, σ)] else []
  | lo, hi+1, σ, w =>
    ((d σ w).flatMap fun (k, σ') => (iterDen d (lo - 1) hi σ' (w.drop k)).map fun (k', σ'') => (k + k', σ''))
      ++ (if lo = 0 then [(0, σ)] else [])

def timesDen {α} (d : Sigma → List α → List (Nat × Sigma)) (t : Times) : Sigma → List α → List (Nat × Sigma) :=
  if t = Times.one then d else iterDen d t.lo t.hi

/-- spellings of one deref component: registers optionally without `%`, constants optionally
without `0x` -/
def withOpt (pre : Str) (x : Str) : List Str := [pre ++ x, x]

/-- architectural register names of the four capture families -/
def regName (family : Str) (letter : Str) (suffix : Str) : Option Str :=
  let s (x : String) := x.toList
  if family = s "&genreg" then
    if suffix = s "64" then some ('r' :: letter ++ s "x") else if suffix = s "32" then some ('e' :: letter ++ s "x")
    else if suffix = s "16" then some (letter ++ s "x") else if suffix = s "8h" then some (letter ++ s "h")
    else if suffix = s "8l" then some (letter ++ s "l") else none
  else if family = s "&indreg" then
    if suffix = s "64" then some ('r' :: letter ++ s "i") else if suffix = s "32" then some ('e' :: letter ++ s "i")
    else if suffix = s "16" then some (letter ++ s "i") else if suffix = s "8l" then some (letter ++ s "il") else none
  else if family = s "&stackreg" ∨ family = s "&basereg" then
    if suffix = s "64" then some ('r' :: letter) else if suffix = s "32" then some ('e' :: letter)
    else if suffix = s "16" then some letter else if suffix = s "8l" then some (letter ++ s "l") else none
  else none

/-- the literal texts a deref component may stand for: a plain name, or an `$or` of plain names -/
def componentTexts : Pat → List Str
  | .derefProp name 0 => [name]
  | .or l _ => l.filterMap fun q => match q with | .derefProp n 0 => some n | _ => none
  | _ => []

def fieldTexts (fields : List Pat) (fname : String) : Option (List Str) :=
  match fields.find? (fun f => match f with | .derefField n _ => n == fname.toList | _ => false) with
  | some (.derefField _ [k]) => some (componentTexts k)
  | _ => none

/-- every text `[a+b*c+k]` a `$deref` with literal components accepts -/
def derefTexts (fields : List Pat) : List Str :=
  match fieldTexts fields "main_reg" with
  | none => []
  | some as =>
    let opt (o : Option (List Str)) : Option (List Str) := o.bind fun l => if l.all (·.isEmpty) then none else some l
    let bs := opt (fieldTexts fields "register_multiplier")
    let cs := opt (fieldTexts fields "constant_multiplier")
    let ks := opt (fieldTexts fields "constant_offset")
    let sp (pre : String) (l : List Str) : List Str := l.map (pre.toList ++ ·) ++ l     -- with the optional prefix, without it
    let mids : List Str := match bs, cs with
      | some b, some c => (sp "%" b).flatMap fun b' => (sp "0x" c).map fun c' => '+' :: b' ++ '*' :: c'
      | some b, none => (sp "%" b).map fun b' => '+' :: b'
      | none, some c => (sp "0x" c).map fun c' => '+' :: c'
      | none, none => [[]]
    let offs : List Str := match ks with
      | some k => (sp "0x" k).map fun k' => '+' :: k'
      | none => [[]]
    (sp "%" as).flatMap fun a' => mids.flatMap fun m => offs.map fun o => '[' :: a' ++ m ++ o ++ [']']

mutual
/-- operand level: `w` = the operand fields still ahead in the current instruction -/
def denO (fl : Flags) : Pat → Sigma → List Str → List (Nat × Sigma)
  | .operand name _, σ, w =>
    match w with
    | f :: _ => if rel fl.opsFull name f then [(1, σ)] else []
    | [] => []
  | .timesMarker, σ, _ => [(0, σ)]
  | .and l t, σ, w => timesDen (seqDen (denOL fl l)) t σ w
  | .or l t, σ, w => timesDen (fun σ w => (denOL fl l).flatMap fun d => d σ w) t σ w
  | .anyOrder l t, σ, w =>
    timesDen (fun σ w => (perms (denOL fl l)).flatMap fun ds => seqDen ds σ w) t σ w
  | .not p _ t, σ, w =>
    timesDen (fun σ w => if !w.isEmpty && (denO fl p σ w).isEmpty then [(1, σ)] else []) t σ w
  | .deref fields t, σ, w =>
    timesDen (fun σ w => match w with
      | f :: _ => if (derefTexts fields).contains f then [(1, σ)] else []
      | [] => []) t σ w
  | .capOpDef name, σ, w =>
    match w with
    | f :: _ => if f.isEmpty then [] else [(1, (name, f) :: σ)]
    | [] => []
  | .capOpRef name, σ, w =>
    match w with
    | f :: _ => if σ.lookup name = some f then [(1, σ)] else []
    | [] => []
  | _, _, _ => []      -- not an operand-level pattern of the specified fragment
def denOL (fl : Flags) : List Pat → List (Sigma → List Str → List (Nat × Sigma))
  | [] => []
  | p :: ps => denO fl p :: denOL fl ps
end

mutual
/-- instruction level: `L` = the instructions still ahead -/
def denI (fl : Flags) : Pat → Sigma → List Inst → List (Nat × Sigma)
  | .mnem name ops t, σ, L =>
    timesDen (fun σ L =>
      match L with
      | i :: _ =>
        if rel fl.mnemFull name i.mnem then
          (seqDen (denOL fl ops) σ i.fields.tail).map fun (_, σ') => (1, σ')
        else []
      | [] => []) t σ L
  | .timesMarker, σ, _ => [(0, σ)]
  | .and l t, σ, L => timesDen (seqDen (denIL fl l)) t σ L
  | .or l t, σ, L => timesDen (fun σ L => (denIL fl l).flatMap fun d => d σ L) t σ L
  | .anyOrder l t, σ, L =>
    timesDen (fun σ L => (perms (denIL fl l)).flatMap fun ds => seqDen ds σ L) t σ L
  | .not p _ t, σ, L =>
    timesDen (fun σ L => if !L.isEmpty && (denI fl p σ L).isEmpty then [(1, σ)] else []) t σ L
  | .capInstDef name, σ, L =>
    match L with
    | i :: _ => [(1, (name, i.body) :: σ)]
    | [] => []
  | .capInstRef name, σ, L =>
    match L with
    | i :: _ => if σ.lookup name = some i.body then [(1, σ)] else []
    | [] => []
  | _, _, _ => []
def denIL (fl : Flags) : List Pat → List (Sigma → List Inst → List (Nat × Sigma))
  | [] => []
  | p :: ps => denI fl p :: denIL fl ps
end

/-- the pattern occurs at position `i` of the listing (consuming `n` instructions) -/
def occursAt (fl : Flags) (p : Pat) (L : List Inst) (i : Nat) : Option Nat :=
  ((denI fl p [] (L.drop i)).head?).map (·.1)

/-- specification of the boolean verdict: the pattern occurs somewhere -/
def foundSpec (fl : Flags) (p : Pat) (L : List Inst) : Bool :=
  (List.range (L.length + 1)).any fun i => (occursAt fl p L i).isSome

/-- specification of the all-matches scan: leftmost occurrence, most-preferred length, restart
after it -/
def scanSpec (fl : Flags) (p : Pat) (L : List Inst) : Nat → Nat → List (Nat × Nat)
  | 0, _ => []
  | fuel+1, i =>
    if i > L.length then [] else
    match occursAt fl p L i with
    | some n => (i, n) :: scanSpec fl p L fuel (if n = 0 then i + 1 else i + n)
    | none => scanSpec fl p L fuel (i + 1)

end Jasm

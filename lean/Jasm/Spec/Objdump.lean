import Jasm.Model.Parser
/-!
# Environment grammar: the lines `objdump -d -M att` prints (GNU binutils 2.40)

`LineSpec` describes one line of a listing, `renderLine` prints it, `instOf` says which stream
instruction (if any) the line stands for and `normalForm` is the operand normal form of C09.
This grammar is an *assumption about a third-party program*; tie T5 validates it against the real
objdump on every thorough run.  The theorems of C08/C09/C16 quantify over it.
-/
namespace Jasm

/-- AT&T operand forms of the property C09 -/
inductive Operand where
  | imm (v : Str)                                   -- `$v`
  | reg (r : Str)                                   -- `%r`
  | mem (k : Str) (a : Option Str) (bc : Option (Str × Str))
      -- `k(a,b,c)`, `(a,b,c)`, `k(,b,c)`, `k(a)`, `(a)`   (`k` may be empty; `a`,`b` carry their `%`)
  | target (hex : Str)                              -- direct branch / call target (annotation is separate)
  | star (rest : Str)                               -- `*%rax`-style indirect register operand, kept verbatim
  deriving Repr, DecidableEq, Inhabited

def Operand.print : Operand → Str
  | .imm v => '$' :: v
  | .reg r => '%' :: r
  | .mem k a bc =>
    k ++ '(' :: (a.getD []) ++ (match bc with | some (b, c) => ',' :: b ++ ',' :: c | none => []) ++ [')']
  | .target h => h
  | .star r => '*' :: '%' :: r

/-- the normal form in which the operand reaches patterns (C09) -/
def Operand.normalForm : Operand → Str
  | .imm v => v
  | .reg r => '%' :: r
  | .mem k a bc =>
    let inner := (a.getD []) ++ (match bc with | some (b, c) => '+' :: b ++ '*' :: c | none => [])
    '[' :: inner ++ (if k.isEmpty then [] else '+' :: k) ++ [']']
  | .target h => h
  | .star r => '*' :: '%' :: r

structure InstLine where
  indent : Nat
  addr : Str
  /-- raw bytes as pairs of hex digits, at least one -/
  bytes : List (Char × Char)
  /-- blanks after the last byte's own blank, before the tab -/
  pad : Nat
  mnem : Str
  /-- blanks between mnemonic and operands (at least one when there are operands) -/
  gap : Nat
  ops : List Operand
  /-- ` <symbol+off>` after the operands -/
  annot : Option Str
  /-- `        # comment` -/
  comment : Option Str
  /-- blanks at the very end of the line (binutils up to 2.38 pad every mnemonic to a fixed column,
  also when no operand follows) -/
  trail : Nat := 0
  deriving Repr, Inhabited

inductive LineSpec where
  | inst (l : InstLine)
  | cont (indent : Nat) (addr : Str) (bytes : List (Char × Char))     -- byte-continuation line
  | label (addr : Str) (name : Str)
  | blank
  | header (name : Str) (format : Str)           -- `name:     file format elf64-x86-64`
  | sect (name : Str)                            -- `Disassembly of section name:`
  | dots                                         -- `\t...`
  deriving Repr, Inhabited

def blanks (n : Nat) : Str := List.replicate n ' '

def renderBytes (bs : List (Char × Char)) : Str := bs.flatMap fun (a, b) => [a, b, ' ']

/-- what follows the operand text: the `<symbol+off>` annotation and the `# comment` -/
def afterOps (l : InstLine) : Str :=
  (match l.annot with | some a => ' ' :: '<' :: a ++ ['>'] | none => []) ++
    (match l.comment with | some c => blanks 8 ++ '#' :: ' ' :: c | none => []) ++ blanks l.trail

/-- the text after the mnemonic -/
def tailText (l : InstLine) : Str :=
  (if l.ops.isEmpty then [] else blanks l.gap ++ joinSep [','] (l.ops.map Operand.print)) ++ afterOps l

def renderLine : LineSpec → Str
  | .inst l =>
    blanks l.indent ++ l.addr ++ ':' :: '\t' :: (renderBytes l.bytes ++ blanks l.pad ++ '\t' :: (l.mnem ++ tailText l))
  | .cont indent addr bs => blanks indent ++ addr ++ ':' :: '\t' :: renderBytes bs
  | .label addr name => addr ++ ' ' :: '<' :: name ++ ['>', ':']
  | .blank => []
  | .header name fmt => name ++ ":     file format ".toList ++ fmt
  | .sect name => "Disassembly of section ".toList ++ name ++ [':']
  | .dots => ['\t', '.', '.', '.']

def renderListing (ls : List LineSpec) : Str := joinSep ['\n'] (ls.map renderLine)

/-- the stream instruction a line stands for -/
def instOf : LineSpec → Option Inst
  | .inst l =>
    some ⟨l.addr, if l.ops.isEmpty && l.mnem = "(bad)".toList then "bad".toList else l.mnem,
      l.ops.map Operand.normalForm⟩
  | _ => none

def expectedInsts (ls : List LineSpec) : List Inst := ls.filterMap instOf

end Jasm

import Jasm.Proofs.Search
import Jasm.Proofs.DenLemmas
/-!
# Alignment: where in the stream an address-led regex can start matching (helper lemmas)
-/
namespace Jasm

/-- the text begins with a non-empty lower-case hexadecimal run followed by `::` -/
def StartsAddr (s : Str) : Prop := ∃ h rest, h ≠ [] ∧ HexStr h ∧ s = h ++ ':' :: ':' :: rest

/-- listing hypotheses for alignment: `WFm` plus "no `::` inside the record body" -/
structure WFa (i : Inst) : Prop where
  wfm : WFm i
  no_colons : isInfix [':', ':'] (fieldsText i.fields) = false

def OkA (L : List Inst) : Prop := ∀ i ∈ L, WFa i

theorem okA_okI {L : List Inst} (h : OkA L) : OkI L := fun i hi => (h i hi).wfm

theorem suffix_append_cases {α : Type} (t a b : List α) (h : t <:+ a ++ b) :
    (∃ a', a' ≠ [] ∧ a' <:+ a ∧ t = a' ++ b) ∨ t <:+ b := by
  induction a with
  | nil => right; simpa using h
  | cons c a1 ih =>
    rcases List.suffix_cons_iff.mp (by simpa using h) with rfl | h'
    · left; exact ⟨c :: a1, by simp, List.suffix_refl _, rfl⟩
    · rcases ih h' with ⟨a', hne, hs, rfl⟩ | hb
      · left; exact ⟨a', hne, hs.trans (List.suffix_cons _ _), rfl⟩
      · right; exact hb

theorem hex_not_colon {c : Char} (h : inCls false hexItems c = true) : c ≠ ':' ∧ c ≠ '|' := by
  constructor <;> (rintro rfl; revert h; decide)

theorem startsAddr_head {c : Char} {t : Str} (h : StartsAddr (c :: t)) : inCls false hexItems c = true := by
  obtain ⟨hx, rest, hne, hhex, heq⟩ := h
  cases hx with
  | nil => exact absurd rfl hne
  | cons a q =>
    simp only [List.cons_append, List.cons.injEq] at heq
    rw [heq.1]; exact hhex a (by simp)

/-- a hex run followed by `::` that starts inside `b ++ '|' :: R` puts a `::` inside `b` -/
theorem colons_inside (h b R rest : Str) (hhex : HexStr h) (heq : h ++ ':' :: ':' :: rest = b ++ '|' :: R) :
    ∃ pre post, b = pre ++ [':', ':'] ++ post := by
  induction h generalizing b with
  | nil =>
    cases b with
    | nil => simp at heq
    | cons c b' =>
      simp only [List.nil_append, List.cons_append, List.cons.injEq] at heq
      obtain ⟨rfl, h2⟩ := heq
      cases b' with
      | nil => simp at h2
      | cons c2 b'' =>
        simp only [List.cons_append, List.cons.injEq] at h2
        obtain ⟨rfl, _⟩ := h2
        exact ⟨[], b'', by simp⟩
  | cons a q ih =>
    cases b with
    | nil =>
      simp only [List.cons_append, List.nil_append, List.cons.injEq] at heq
      exact absurd heq.1 (hex_not_colon (hhex a (by simp))).2
    | cons c b' =>
      simp only [List.cons_append, List.cons.injEq] at heq
      obtain ⟨pre, post, rfl⟩ := ih b' (fun x hx => hhex x (by simp [hx])) heq.2
      exact ⟨c :: pre, post, by simp⟩

theorem hexStr_suffix {a a' : Str} (h : HexStr a) (hs : a' <:+ a) : HexStr a' :=
  fun c hc => h c (hs.subset hc)

/-- **where address-led matches can start**: a suffix of the stream that begins with `hex+::` starts
inside the address of some record `n`, i.e. it is the stream of the listing `L.drop n` with the first
address shortened -/
theorem suffix_startsAddr (L : List Inst) (hL : OkA L) (t : Str) (ht : t <:+ encAll L) (hs : StartsAddr t) :
    ∃ n i a', L[n]? = some i ∧ a' ≠ [] ∧ a' <:+ i.addr ∧
      t = encAll (⟨a', i.mnem, i.ops⟩ :: L.drop (n + 1)) := by
  induction L with
  | nil =>
    have : t = [] := List.eq_nil_of_suffix_nil (by simpa [encAll] using ht)
    subst this
    obtain ⟨h, rest, hne, _, heq⟩ := hs
    cases h <;> simp at heq hne
  | cons i rest ih =>
    have hi := hL i (by simp)
    rw [encAll_cons] at ht
    rcases suffix_append_cases t _ _ ht with ⟨a', hne, hsuf, rfl⟩ | ht2
    · refine ⟨0, i, a', by simp, hne, hsuf, ?_⟩
      rw [encAll_cons]
      simp [Inst.fields]
    · -- t is a suffix of "::" ++ body ++ "|" ++ rest of the stream
      rcases List.suffix_cons_iff.mp ht2 with rfl | ht3
      · exact absurd (startsAddr_head hs) (by decide)
      · rcases List.suffix_cons_iff.mp ht3 with rfl | ht4
        · exact absurd (startsAddr_head hs) (by decide)
        · unfold txtO at ht4
          rcases suffix_append_cases t _ _ ht4 with ⟨b', _, hbs, rfl⟩ | ht5
          · obtain ⟨h, rest', hne, hhex, heq⟩ := hs
            obtain ⟨pre, post, hb⟩ := colons_inside h b' _ rest' hhex heq.symm
            obtain ⟨pb, hpb⟩ := hbs
            have : isInfix [':', ':'] (fieldsText i.fields) = true :=
              (isInfix_iff _ _).mpr ⟨pb ++ pre, post, by rw [← hpb, hb]; simp⟩
            rw [hi.no_colons] at this
            cases this
          · rcases List.suffix_cons_iff.mp ht5 with rfl | ht6
            · exact absurd (startsAddr_head hs) (by decide)
            · obtain ⟨n, j, a', hn, hne, hsuf, heq⟩ := ih (fun x hx => hL x (by simp [hx])) ht6
              exact ⟨n + 1, j, a', by simpa using hn, hne, hsuf, by simpa using heq⟩

/-- a success of `IGNORE_INST_ADDR` means the text starts with an address -/
theorem addr_run_startsAddr (e : Env) (s : Str) (x : Env × Str) (h : x ∈ ignoreInstAddr.run e s) : StartsAddr s := by
  unfold ignoreInstAddr hexCls at h
  obtain ⟨y, hy, hx⟩ := mem_seq.mp h
  obtain ⟨k, hk1, hk2, hall, rfl⟩ := (mem_plus_cls _ _ _ _ _).mp hy
  obtain ⟨y2, hy2, hx⟩ := mem_seq.mp hx
  obtain ⟨s2, hs2, rfl⟩ := mem_chr.mp hy2
  obtain ⟨s3, hs3, rfl⟩ := mem_chr.mp hx
  simp only at hs2 hs3
  refine ⟨s.take k, s3, ?_, fun c hc => hall c hc, ?_⟩
  · intro e0
    have hl : (s.take k).length = k := by rw [List.length_take]; omega
    rw [e0] at hl
    simp at hl; omega
  · rw [← hs3, ← hs2, List.take_append_drop]

theorem encAll_drop_suffix (L : List Inst) (n : Nat) : encAll (L.drop n) <:+ encAll L := by
  induction L generalizing n with
  | nil => simp [encAll]
  | cons i rest ih =>
    cases n with
    | zero => exact List.suffix_refl _
    | succ n =>
      have : encAll (i :: rest) = enc i ++ encAll rest := by simp [encAll]
      rw [this]
      exact (ih n).trans (List.suffix_append _ _)

/-- shortening the address of a well-formed instruction keeps it well-formed -/
theorem wfm_shorten (i : Inst) (a' : Str) (h : WFm i) (hne : a' ≠ []) (hs : a' <:+ i.addr) :
    WFm ⟨a', i.mnem, i.ops⟩ :=
  ⟨hne, hexStr_suffix h.addr_hex hs, by simpa [Inst.fields] using h.fields_ok⟩

end Jasm

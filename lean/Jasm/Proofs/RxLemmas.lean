import Jasm.Model.Rx
/-!
# Membership lemmas for the engine semantics (helper lemmas; no property is stated here)
-/
namespace Jasm

theorem mem_seq {a b : Rx} {e s} {x : Env × Str} :
    x ∈ (Rx.seq a b).run e s ↔ ∃ y ∈ a.run e s, x ∈ b.run y.1 y.2 := by
  simp [Rx.run, List.mem_flatMap]

theorem mem_eps {e s} {x : Env × Str} : x ∈ Rx.eps.run e s ↔ x = (e, s) := by
  simp [Rx.run]

theorem mem_chr {c : Char} {e s} {x : Env × Str} :
    x ∈ (Rx.chr c).run e s ↔ ∃ s', s = c :: s' ∧ x = (e, s') := by
  cases s with
  | nil => simp [Rx.run]
  | cons a t =>
    simp only [Rx.run]
    split
    · next h => subst h; simp
    · next h => simp; intro h1 _; exact absurd h1 h

theorem mem_esc {c : Char} {e s} {x : Env × Str} :
    x ∈ (Rx.esc c).run e s ↔ ∃ s', s = c :: s' ∧ x = (e, s') := by
  cases s with
  | nil => simp [Rx.run]
  | cons a t =>
    simp only [Rx.run]
    split
    · next h => subst h; simp
    · next h => simp; intro h1 _; exact absurd h1 h

theorem mem_grp {r : Rx} {e s} {x : Env × Str} : x ∈ (Rx.grp r).run e s ↔ x ∈ r.run e s := by
  simp [Rx.run]

theorem mem_alt {a b : Rx} {e s} {x : Env × Str} :
    x ∈ (Rx.alt a b).run e s ↔ x ∈ a.run e s ∨ x ∈ b.run e s := by
  simp [Rx.run]

theorem mem_rep {r : Rx} {lo hi e s} {x : Env × Str} :
    x ∈ (Rx.rep r lo hi).run e s ↔ x ∈ iter r.run lo hi e s := by
  simp [Rx.run]

theorem iterG_hi_zero (f : Env → Str → Res) (lo : Nat) (last : Option Nat) (e : Env) (s : Str) :
    iterG f lo 0 last e s = if lo = 0 then [(e, s)] else [] := by
  cases lo <;> simp [iterG]

/-- stopping is always possible once the forced rounds are done -/
theorem self_mem_iterG (f : Env → Str → Res) (hi : Nat) (last : Option Nat) (e : Env) (s : Str) :
    (e, s) ∈ iterG f 0 hi last e s := by
  cases hi <;> simp [iterG]

theorem mem_opt {r : Rx} {e s} {x : Env × Str} :
    x ∈ (Rx.opt r).run e s ↔ x ∈ r.run e s ∨ x = (e, s) := by
  simp only [Rx.run, iter, iterG, List.mem_append, List.mem_flatMap, List.mem_singleton, reduceCtorEq, if_false, if_true]
  constructor
  · rintro (⟨⟨a, b⟩, h1, h2⟩ | h)
    · left; rw [h2]; exact h1
    · right; exact h
  · rintro (h | h)
    · left; exact ⟨x, h, rfl⟩
    · right; exact h

theorem mem_nla {r : Rx} {e s} {x : Env × Str} :
    x ∈ (Rx.nla r).run e s ↔ r.run e s = [] ∧ x = (e, s) := by
  simp only [Rx.run]
  split
  · next h => simp [List.isEmpty_iff.mp h]
  · next h =>
    simp
    intro h'
    simp [h'] at h

theorem mem_lit {t : Str} {e s} {x : Env × Str} :
    x ∈ (lit t).run e s ↔ ∃ s', s = t ++ s' ∧ x = (e, s') := by
  unfold lit
  induction t generalizing s with
  | nil => simp [Rx.run]
  | cons c t ih =>
    simp only [List.foldr_cons, mem_seq, mem_chr]
    constructor
    · rintro ⟨y, ⟨s', rfl, rfl⟩, h⟩
      obtain ⟨s'', rfl, rfl⟩ := ih.mp h
      exact ⟨s'', by simp, rfl⟩
    · rintro ⟨s', rfl, rfl⟩
      exact ⟨(e, t ++ s'), ⟨_, rfl, rfl⟩, ih.mpr ⟨s', rfl, rfl⟩⟩

theorem mem_seqAll_cons (r : Rx) (rs : List Rx) (e : Env) (s : Str) (x) :
    x ∈ (seqAll (r :: rs)).run e s ↔ ∃ y ∈ r.run e s, x ∈ (seqAll rs).run y.1 y.2 := by
  simp [seqAll, Rx.run, List.mem_flatMap]

theorem mem_seqAll_nil (e : Env) (s : Str) (x) : x ∈ (seqAll []).run e s ↔ x = (e, s) := by
  simp [seqAll, Rx.run]

theorem mem_altAll (rs : List Rx) (e : Env) (s : Str) (x) :
    x ∈ (altAll rs).run e s ↔ ∃ r ∈ rs, x ∈ r.run e s := by
  induction rs with
  | nil => simp [altAll, Rx.run]
  | cons r rs ih =>
    cases rs with
    | nil => simp [altAll]
    | cons r' rs' =>
      simp only [altAll, Rx.run, List.mem_append, ih]
      simp

theorem mem_cls {neg items e s} {x : Env × Str} :
    x ∈ (Rx.cls neg items).run e s ↔ ∃ c s', s = c :: s' ∧ inCls neg items c = true ∧ x = (e, s') := by
  cases s with
  | nil => simp [Rx.run]
  | cons a t =>
    simp only [Rx.run]
    split
    · next h =>
      simp only [List.mem_singleton, List.cons.injEq]
      constructor
      · rintro rfl; exact ⟨a, t, ⟨rfl, rfl⟩, h, rfl⟩
      · rintro ⟨c, s', ⟨rfl, rfl⟩, _, rfl⟩; rfl
    · next h =>
      simp only [List.not_mem_nil, List.cons.injEq, false_iff]
      rintro ⟨c, s', ⟨rfl, rfl⟩, hc, _⟩
      exact h hc

/-- greedy class repetition: exactly the drops of a class-prefix of length between `lo` and `hi`
(every round consumes one character, so the zero-width guard never fires) -/
theorem mem_iterG_cls (neg : Bool) (items : List CI) (lo n : Nat) (last : Option Nat) (e : Env) (s : Str) (x : Env × Str)
    (hl : ∀ m, last = some m → lo = 0 ∧ m ≠ s.length) :
    x ∈ iterG (Rx.cls neg items).run lo n last e s ↔
      ∃ k, lo ≤ k ∧ k ≤ n ∧ k ≤ s.length ∧ (∀ c ∈ s.take k, inCls neg items c = true) ∧ x = (e, s.drop k) := by
  induction n generalizing s lo last with
  | zero =>
    rw [iterG_hi_zero]
    split
    · next h =>
      subst h
      simp only [List.mem_singleton]
      constructor
      · rintro rfl; exact ⟨0, by simp⟩
      · rintro ⟨k, _, hk, -, -, rfl⟩
        have : k = 0 := by omega
        subst this; simp
    · next h =>
      simp only [List.not_mem_nil, false_iff]
      rintro ⟨k, h1, h2, -⟩
      omega
  | succ n ih =>
    cases lo with
    | succ lo =>
      have hnone : last = none := by
        cases last with
        | none => rfl
        | some m => exact absurd (hl m rfl).1 (by omega)
      subst hnone
      simp only [iterG, List.mem_flatMap]
      constructor
      · rintro ⟨⟨e', s'⟩, h1, h2⟩
        obtain ⟨c, t, rfl, hc, hx⟩ := mem_cls.mp h1
        simp only [Prod.mk.injEq] at hx
        obtain ⟨rfl, rfl⟩ := hx
        obtain ⟨k, hlo, hk, hl', hall, rfl⟩ := (ih lo none _ (by simp)).mp h2
        refine ⟨k+1, by omega, by omega, by simp; omega, ?_, by simp⟩
        intro c' hc'
        simp at hc'
        rcases hc' with rfl | hc'
        · exact hc
        · exact hall c' hc'
      · rintro ⟨k, hlo, hk, hl', hall, rfl⟩
        cases k with
        | zero => omega
        | succ k =>
          cases s with
          | nil => simp at hl'
          | cons a t =>
            have ha : inCls neg items a = true := hall a (by simp)
            refine ⟨(e, t), mem_cls.mpr ⟨a, t, rfl, ha, rfl⟩, ?_⟩
            exact (ih lo none _ (by simp)).mpr ⟨k, by omega, by omega, by simpa using hl', fun c hc => hall c (by simp [hc]), by simp⟩
    | zero =>
      have hlast : last ≠ some s.length := by
        intro h; exact (hl _ h).2 rfl
      simp only [iterG, hlast, if_false, List.mem_append, List.mem_flatMap, List.mem_singleton]
      constructor
      · rintro (⟨⟨e', s'⟩, h1, h2⟩ | h0)
        · obtain ⟨c, t, rfl, hc, hx⟩ := mem_cls.mp h1
          simp only [Prod.mk.injEq] at hx
          obtain ⟨rfl, rfl⟩ := hx
          obtain ⟨k, hlo, hk, hl', hall, rfl⟩ := (ih 0 _ _ (by intro m hm; simp at hm; subst hm; simp)).mp h2
          refine ⟨k+1, by omega, by omega, by simp; omega, ?_, by simp⟩
          intro c' hc'
          simp at hc'
          rcases hc' with rfl | hc'
          · exact hc
          · exact hall c' hc'
        · subst h0; exact ⟨0, by simp⟩
      · rintro ⟨k, hlo, hk, hl', hall, rfl⟩
        cases k with
        | zero => right; simp
        | succ k =>
          left
          cases s with
          | nil => simp at hl'
          | cons a t =>
            have ha : inCls neg items a = true := hall a (by simp)
            refine ⟨(e, t), mem_cls.mpr ⟨a, t, rfl, ha, rfl⟩, ?_⟩
            exact (ih 0 _ _ (by intro m hm; simp at hm; subst hm; simp)).mpr
              ⟨k, by omega, by omega, by simpa using hl', fun c hc => hall c (by simp [hc]), by simp⟩

theorem mem_iter_cls (neg : Bool) (items : List CI) (lo n : Nat) (e : Env) (s : Str) (x : Env × Str) :
    x ∈ iter (Rx.cls neg items).run lo n e s ↔
      ∃ k, lo ≤ k ∧ k ≤ n ∧ k ≤ s.length ∧ (∀ c ∈ s.take k, inCls neg items c = true) ∧ x = (e, s.drop k) :=
  mem_iterG_cls neg items lo n none e s x (by simp)

theorem mem_plus_cls (neg : Bool) (items : List CI) (e : Env) (s : Str) (x : Env × Str) :
    x ∈ (Rx.plus (Rx.cls neg items)).run e s ↔
      ∃ k, 1 ≤ k ∧ k ≤ s.length ∧ (∀ c ∈ s.take k, inCls neg items c = true) ∧ x = (e, s.drop k) := by
  have h : (Rx.plus (Rx.cls neg items)).run e s = iter (Rx.cls neg items).run 1 s.length e s := rfl
  rw [h, mem_iter_cls]
  constructor
  · rintro ⟨k, h1, _, h3, h4, h5⟩; exact ⟨k, h1, h3, h4, h5⟩
  · rintro ⟨k, h1, h3, h4, h5⟩; exact ⟨k, h1, h3, h3, h4, h5⟩

end Jasm

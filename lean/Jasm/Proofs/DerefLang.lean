import Jasm.Proofs.Lang
/-!
# `$deref` with literal components: the compiled regex has a finite language (`derefTexts`)

Moved in front of the master theorem so that literal `$deref` operands are part of its fragment.
The property statements C06_rx / C06_field / C06_no_field in `Properties/C06.lean` restate these.
-/
namespace Jasm.C06
open Jasm

structure DerefSpec where
  a : Str
  b : Option Str
  c : Option Str
  k : Option Str

def field (name : String) (v : Str) : Pat := .derefField name.toList [.derefProp v 0]

def DerefSpec.fields (d : DerefSpec) : List Pat :=
  [field "main_reg" d.a] ++
    (match d.b with | some b => [field "register_multiplier" b] | none => []) ++
    (match d.c with | some c => [field "constant_multiplier" c] | none => []) ++
    (match d.k with | some k => [field "constant_offset" k] | none => [])

def DerefSpec.toPat (d : DerefSpec) : Pat := .deref d.fields Times.one

/-- components are non-empty (an empty component counts as absent in the code) -/
def DerefSpec.WF (d : DerefSpec) : Prop :=
  (∀ b, d.b = some b → b ≠ []) ∧ (∀ c, d.c = some c → c ≠ []) ∧ (∀ k, d.k = some k → k ≠ [])

/-- the regex the compiler builds -/
def DerefSpec.rx (d : DerefSpec) : Rx :=
  let mid : Rx := match d.b, d.c with
    | some b, some c => seqAll [.esc '+', .seq optionalPercent (lit b), .esc '*', .seq optionalHex (lit c)]
    | some b, none => seqAll [.esc '+', .seq optionalPercent (lit b)]
    | none, some c => seqAll [.esc '+', .seq optionalHex (lit c)]
    | none, none => .eps
  let off : Rx := match d.k with
    | some k => seqAll [.esc '+', .seq optionalHex (lit k)]
    | none => .eps
  .seq (seqAll [.esc '[', optionalPercent, lit d.a, mid, off, .esc ']']) (.chr ',')

theorem isEmpty_render_lit (t : Str) (h : t ≠ []) : ¬ ((lit t).render = []) := by
  rw [render_lit]; exact h

theorem comp_deref (fl : Flags) (caps : List Str) (d : DerefSpec) (h : d.WF) :
    comp fl caps d.toPat = .ok d.rx := by
  obtain ⟨a, b, c, k⟩ := d
  obtain ⟨hb, hc, hk⟩ := h
  simp only at hb hc hk
  cases b with
  | none =>
    cases c with
    | none =>
      cases k with
      | none => simp [DerefSpec.toPat, DerefSpec.fields, field, DerefSpec.rx, comp, compFields, derefChildNames, bind, Except.bind, pure, Except.pure, List.find?]
      | some k =>
        have := isEmpty_render_lit k (hk k rfl)
        simp [DerefSpec.toPat, DerefSpec.fields, field, DerefSpec.rx, comp, compFields, derefChildNames, bind, Except.bind, pure, Except.pure, List.find?, this]
    | some c =>
      have h2 := isEmpty_render_lit c (hc c rfl)
      cases k with
      | none => simp [DerefSpec.toPat, DerefSpec.fields, field, DerefSpec.rx, comp, compFields, derefChildNames, bind, Except.bind, pure, Except.pure, List.find?, h2]
      | some k =>
        have := isEmpty_render_lit k (hk k rfl)
        simp [DerefSpec.toPat, DerefSpec.fields, field, DerefSpec.rx, comp, compFields, derefChildNames, bind, Except.bind, pure, Except.pure, List.find?, this, h2]
  | some b =>
    have h1 := isEmpty_render_lit b (hb b rfl)
    cases c with
    | none =>
      cases k with
      | none => simp [DerefSpec.toPat, DerefSpec.fields, field, DerefSpec.rx, comp, compFields, derefChildNames, bind, Except.bind, pure, Except.pure, List.find?, h1]
      | some k =>
        have := isEmpty_render_lit k (hk k rfl)
        simp [DerefSpec.toPat, DerefSpec.fields, field, DerefSpec.rx, comp, compFields, derefChildNames, bind, Except.bind, pure, Except.pure, List.find?, this, h1]
    | some c =>
      have h2 := isEmpty_render_lit c (hc c rfl)
      cases k with
      | none => simp [DerefSpec.toPat, DerefSpec.fields, field, DerefSpec.rx, comp, compFields, derefChildNames, bind, Except.bind, pure, Except.pure, List.find?, h1, h2]
      | some k =>
        have := isEmpty_render_lit k (hk k rfl)
        simp [DerefSpec.toPat, DerefSpec.fields, field, DerefSpec.rx, comp, compFields, derefChildNames, bind, Except.bind, pure, Except.pure, List.find?, this, h1, h2]

theorem lang_optionalPercent : optionalPercent.lang = some [['%'], []] := rfl
theorem lang_optionalHex : optionalHex.lang = some [['0', 'x'], []] := rfl

/-- the texts the specification lists for a `DerefSpec` (`derefTexts` of `Jasm/Spec/Den.lean`), explicitly -/
def DerefSpec.texts (d : DerefSpec) : List Str :=
  let sp (pre : String) (x : Str) : List Str := [pre.toList ++ x, x]
  let mids : List Str := match d.b, d.c with
    | some b, some c => (sp "%" b).flatMap fun b' => (sp "0x" c).map fun c' => '+' :: b' ++ '*' :: c'
    | some b, none => (sp "%" b).map fun b' => '+' :: b'
    | none, some c => (sp "0x" c).map fun c' => '+' :: c'
    | none, none => [[]]
  let offs : List Str := match d.k with
    | some k => (sp "0x" k).map fun k' => '+' :: k'
    | none => [[]]
  (sp "%" d.a).flatMap fun a' => mids.flatMap fun m => offs.map fun o => '[' :: a' ++ m ++ o ++ [']']

theorem derefTexts_spec (d : DerefSpec) (h : d.WF) : derefTexts d.fields = d.texts := by
  obtain ⟨a, b, c, k⟩ := d
  obtain ⟨hb, hc, hk⟩ := h
  simp only at hb hc hk
  cases b with
  | none =>
    cases c with
    | none =>
      cases k with
      | none => simp [derefTexts, fieldTexts, componentTexts, DerefSpec.fields, field, DerefSpec.texts, withOpt, List.find?]
      | some k =>
        have hk' : k ≠ [] := hk k rfl
        simp [derefTexts, fieldTexts, componentTexts, DerefSpec.fields, field, DerefSpec.texts, withOpt, List.find?, hk']
    | some c =>
      have hc' : c ≠ [] := hc c rfl
      cases k with
      | none => simp [derefTexts, fieldTexts, componentTexts, DerefSpec.fields, field, DerefSpec.texts, withOpt, List.find?, hc']
      | some k =>
        have hk' : k ≠ [] := hk k rfl
        simp [derefTexts, fieldTexts, componentTexts, DerefSpec.fields, field, DerefSpec.texts, withOpt, List.find?, hk', hc']
  | some b =>
    have hb' : b ≠ [] := hb b rfl
    cases c with
    | none =>
      cases k with
      | none => simp [derefTexts, fieldTexts, componentTexts, DerefSpec.fields, field, DerefSpec.texts, withOpt, List.find?, hb']
      | some k =>
        have hk' : k ≠ [] := hk k rfl
        simp [derefTexts, fieldTexts, componentTexts, DerefSpec.fields, field, DerefSpec.texts, withOpt, List.find?, hk', hb']
    | some c =>
      have hc' : c ≠ [] := hc c rfl
      cases k with
      | none => simp [derefTexts, fieldTexts, componentTexts, DerefSpec.fields, field, DerefSpec.texts, withOpt, List.find?, hb', hc']
      | some k =>
        have hk' : k ≠ [] := hk k rfl
        simp [derefTexts, fieldTexts, componentTexts, DerefSpec.fields, field, DerefSpec.texts, withOpt, List.find?, hk', hb', hc']

theorem lang_rx (d : DerefSpec) : d.rx.lang = some (d.texts.map (· ++ [','])) := by
  obtain ⟨a, b, c, k⟩ := d
  cases b <;> cases c <;> cases k <;>
    simp [DerefSpec.rx, DerefSpec.texts, Rx.lang, seqAll, lang_lit, lang_optionalPercent, lang_optionalHex]

/-- **C06 (compiler side)**: the compiled `$deref` accepts exactly the texts `[a+b*c+k]` built from
the present components (registers optionally without `%`, constants optionally without `0x`),
followed by the operand separator - on any input whatsoever -/
theorem deref_rx (fl : Flags) (caps : List Str) (d : DerefSpec) (h : d.WF) (r : Rx) (hc : comp fl caps d.toPat = .ok r)
    (e : Env) (s : Str) (x : Env × Str) :
    x ∈ r.run e s ↔ ∃ t ∈ derefTexts d.fields, s = t ++ ',' :: x.2 ∧ x.1 = e := by
  rw [comp_deref fl caps d h] at hc
  cases hc
  rw [mem_lang d.rx _ (lang_rx d) e s x, derefTexts_spec d h]
  simp only [List.mem_map]
  constructor
  · rintro ⟨_, ⟨t, ht, rfl⟩, hs, he⟩; exact ⟨t, ht, by simpa using hs, he⟩
  · rintro ⟨t, ht, hs, he⟩; exact ⟨_, ⟨t, ht, rfl⟩, by simpa using hs, he⟩

/-- inside an operand list: the compiled `$deref` consumes exactly one operand field, and only a
field that is one of the accepted texts; the following operands are left to the rest of the pattern -/
theorem deref_field (fl : Flags) (caps : List Str) (d : DerefSpec) (h : d.WF) (r : Rx) (hc : comp fl caps d.toPat = .ok r)
    (hclean : ∀ t ∈ derefTexts d.fields, ∀ c ∈ t, c ≠ ',')
    (T : Str) (f : Str) (fs : List Str) (hf : ∀ c ∈ f, c ≠ ',') (e : Env) (x : Env × Str) :
    x ∈ r.run e (txtO T (f :: fs)) ↔ (f ∈ derefTexts d.fields ∧ x = (e, txtO T fs)) := by
  rw [deref_rx fl caps d h r hc, txtO_cons]
  constructor
  · rintro ⟨t, ht, hs, he⟩
    obtain ⟨q, hq1, hq2⟩ := prefix_inside t f (txtO T fs) (',' :: x.2) (hclean t ht) hs
    cases q with
    | nil =>
      simp at hq1 hq2
      obtain ⟨x1, x2⟩ := x
      simp at he hq2; subst he
      exact ⟨by rw [hq1]; exact ht, by rw [hq2]⟩
    | cons c q' =>
      simp at hq2
      exact absurd hq2.1.symm (hf c (by rw [hq1]; simp))
  · rintro ⟨hmem, rfl⟩
    exact ⟨f, hmem, rfl, rfl⟩

/-- no field left: the `$deref` does not match (it never reaches into the next instruction) -/
theorem deref_no_field (fl : Flags) (caps : List Str) (d : DerefSpec) (h : d.WF) (r : Rx) (hc : comp fl caps d.toPat = .ok r)
    (T : Str) (e : Env) : r.run e (txtO T []) = [] := by
  apply List.eq_nil_iff_forall_not_mem.mpr
  intro x hx
  obtain ⟨t, ht, hs, _⟩ := (deref_rx fl caps d h r hc e _ x).mp hx
  rw [derefTexts_spec d h] at ht
  rw [txtO_nil] at hs
  simp only [DerefSpec.texts, List.mem_flatMap, List.mem_map] at ht
  obtain ⟨a', _, m, _, o, _, rfl⟩ := ht
  simp at hs


end Jasm.C06

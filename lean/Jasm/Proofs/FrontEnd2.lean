import Jasm.Proofs.FrontEnd
import Jasm.Proofs.Led
/-!
# The YAML front end on the whole instruction-level fragment (helper lemmas)

`yI p` is the YAML a user writes for the typed pattern `p` (items with plain operand names, nested
`$and` / `$or` / `$and_any_order` / `$not`, each optionally with `times: {min, max}`).  `build` and
`typ` - the models of `PatternNodeBuilderNoParents` and of the handler chains - map it back to `p`,
with an empty capture table; the compiled regex has no capturing group, so the engine's textual
numbering leaves it unchanged.
-/
namespace Jasm.FrontEnd
open Jasm Jasm.C01

instance (n : Str) : Decidable (PlainName n) := by unfold PlainName; infer_instance

/-- `times` as written next to the operator key: absent for "once", else `times: {min: lo, max: hi}` -/
def timesY (t : Times) : List (Y × Y) :=
  if t = Times.one then []
  else [(.str "times".toList, .dict [(.str "min".toList, .int t.lo), (.str "max".toList, .int t.hi)])]

def propY : Pat → Y
  | .derefProp v 0 => .str v
  | _ => .null

def propNode : Pat → Node
  | .derefProp v 0 => leafNode v
  | _ => .mk [] Times.one []

def plainProp : Pat → Bool
  | .derefProp v 0 => decide (PlainName v)
  | _ => false

/-- one field of a `$deref` body: a literal value (`main_reg: rax`) or alternatives (`main_reg: [{$or: [rax, rbx]}]`) -/
def yField : Pat → (Y × Y)
  | .derefField n [.derefProp v 0] => (.str n, .str v)
  | .derefField n [.or l _] => (.str n, .list [.dict [(.str "$or".toList, .list (l.map propY))]])
  | _ => (.null, .null)

def nodeField : Pat → Node
  | .derefField n [.derefProp v 0] => .mk n Times.one [leafNode v]
  | .derefField n [.or l t] => .mk n Times.one [.mk "$or".toList t (l.map propNode)]
  | _ => .mk [] Times.one []

/-- the component values of a `$deref` of the source fragment are plain names; no field is called `times` -/
def plainField : Pat → Bool
  | .derefField n [.derefProp v 0] => decide (PlainName v) && decide (n ≠ "times".toList)
  | .derefField n [.or l t] => decide (t = Times.one) && !l.isEmpty && l.all plainProp && decide (n ≠ "times".toList)
  | _ => false

mutual
/-- operand-level patterns as written inside an item's operand list -/
def yO : Pat → Y
  | .operand n _ => .str n
  | .and l t => .dict ((.str "$and".toList, .list (yOL l)) :: timesY t)
  | .or l t => .dict ((.str "$or".toList, .list (yOL l)) :: timesY t)
  | .anyOrder l t => .dict ((.str "$and_any_order".toList, .list (yOL l)) :: timesY t)
  | .not p _ t => .dict ((.str "$not".toList, .list [yO p]) :: timesY t)
  | .deref fields _ => .dict [(.str "$deref".toList, .dict (fields.map yField))]
  | _ => .null
def yOL : List Pat → List Y
  | [] => []
  | p :: ps => yO p :: yOL ps
end

mutual
def nodeO : Pat → Node
  | .operand n _ => leafNode n
  | .and l t => .mk "$and".toList t (nodeOL l)
  | .or l t => .mk "$or".toList t (nodeOL l)
  | .anyOrder l t => .mk "$and_any_order".toList t (nodeOL l)
  | .not p _ t => .mk "$not".toList t [nodeO p]
  | .deref fields t => .mk "$deref".toList t (fields.map nodeField)
  | _ => .mk [] Times.one []
def nodeOL : List Pat → List Node
  | [] => []
  | p :: ps => nodeO p :: nodeOL ps
end

mutual
def yI : Pat → Y
  | .mnem name ops t => .dict ((.str name, .list (yOL ops)) :: timesY t)
  | .and l t => .dict ((.str "$and".toList, .list (yIL l)) :: timesY t)
  | .or l t => .dict ((.str "$or".toList, .list (yIL l)) :: timesY t)
  | .anyOrder l t => .dict ((.str "$and_any_order".toList, .list (yIL l)) :: timesY t)
  | .not p _ t => .dict ((.str "$not".toList, .list [yI p]) :: timesY t)
  | _ => .null
def yIL : List Pat → List Y
  | [] => []
  | p :: ps => yI p :: yIL ps
end

mutual
def nodeI : Pat → Node
  | .mnem name ops t => .mk name t (nodeOL ops)
  | .and l t => .mk "$and".toList t (nodeIL l)
  | .or l t => .mk "$or".toList t (nodeIL l)
  | .anyOrder l t => .mk "$and_any_order".toList t (nodeIL l)
  | .not p _ t => .mk "$not".toList t [nodeI p]
  | _ => .mk [] Times.one []
def nodeIL : List Pat → List Node
  | [] => []
  | p :: ps => nodeI p :: nodeIL ps
end

def okT (t : Times) : Bool := decide (t.lo ≤ t.hi)

mutual
/-- the operand-level source fragment: plain names and nested operators (`$not` at operand level) -/
def srcO : Pat → Bool
  | .operand n k => decide (PlainName n) && !k
  | .and l t => !l.isEmpty && srcOL l && okT t
  | .or l t => !l.isEmpty && srcOL l && okT t
  | .anyOrder l t => !l.isEmpty && srcOL l && okT t
  | .not p op t => op && srcO p && okT t
  | .deref fields t => (derefLit fields t || derefAltLit fields t) && fields.all plainField
  | _ => false
def srcOL : List Pat → Bool
  | [] => true
  | p :: ps => srcO p && srcOL ps
end

mutual
/-- the instruction-level source fragment: what `yI` renders faithfully -/
def srcI : Pat → Bool
  | .mnem name ops t => decide (PlainName name) && srcOL ops && okT t
  | .and l t => !l.isEmpty && srcIL l && okT t
  | .or l t => !l.isEmpty && srcIL l && okT t
  | .anyOrder l t => !l.isEmpty && srcIL l && okT t
  | .not p op t => !op && srcI p && okT t
  | _ => false
def srcIL : List Pat → Bool
  | [] => true
  | p :: ps => srcI p && srcIL ps
end

theorem srcIL_mem {l : List Pat} (h : srcIL l = true) : ∀ q ∈ l, srcI q = true := by
  induction l with
  | nil => simp
  | cons p ps ih =>
    simp only [srcIL, Bool.and_eq_true] at h
    intro q hq
    simp only [List.mem_cons] at hq
    rcases hq with rfl | hq
    · exact h.1
    · exact ih h.2 q hq

/-! ## `getTimes` on what `timesY` writes -/

theorem getTimes_timesY (k : Str) (l : List Y) (t : Times) (hk : k ≠ "times".toList)
    (hl : l.any (· == Y.str "times".toList) = false) (ht : okT t = true) :
    getTimes ((Y.str k, Y.list l) :: timesY t) = .ok t := by
  have hk' : (k == ['t', 'i', 'm', 'e', 's']) = false := by simpa using hk
  unfold timesY
  split
  · rename_i h1
    have hd : dictHas [(Y.str k, Y.list l)] "times" = false := by
      simp [dictHas, dictGet, List.find?, hk']
    simp only [getTimes, hd, Bool.false_eq_true, if_false, hl]
    simp [bind, Except.bind, pure, Except.pure, h1]
  · have hd : dictHas [(Y.str k, Y.list l), (Y.str "times".toList,
        Y.dict [(Y.str "min".toList, Y.int t.lo), (Y.str "max".toList, Y.int t.hi)])] "times" = true := by
      simp [dictHas, dictGet, List.find?, hk']
    have hg : dictGet [(Y.str k, Y.list l), (Y.str "times".toList,
        Y.dict [(Y.str "min".toList, Y.int t.lo), (Y.str "max".toList, Y.int t.hi)])] "times"
        = some (Y.dict [(Y.str "min".toList, Y.int t.lo), (Y.str "max".toList, Y.int t.hi)]) := by
      simp [dictGet, List.find?, hk']
    have hle : t.lo ≤ t.hi := by simpa [okT] using ht
    have hcond : ¬((t.lo : Int) < 0 ∨ (t.hi : Int) < (t.lo : Int)) := by
      intro h
      rcases h with h | h
      · exact absurd (Int.natCast_nonneg t.lo) (Int.not_le.mpr h)
      · have : (t.lo : Int) ≤ (t.hi : Int) := by exact_mod_cast hle
        exact absurd this (Int.not_le.mpr h)
    simp only [getTimes, hd, if_true, hg, intBound]
    simp only [dictGet, List.find?]
    simp [bind, Except.bind, pure, Except.pure]
    intro h
    rcases h with h | h
    · exact absurd (Int.natCast_nonneg t.lo) (Int.not_le.mpr h)
    · omega

/-! ## `build` on `yO` / `yI` -/

theorem srcOL_mem {l : List Pat} (h : srcOL l = true) : ∀ q ∈ l, srcO q = true := by
  induction l with
  | nil => simp
  | cons p ps ih =>
    simp only [srcOL, Bool.and_eq_true] at h
    intro q hq
    simp only [List.mem_cons] at hq
    rcases hq with rfl | hq
    · exact h.1
    · exact ih h.2 q hq

/-! ## literal `$deref` operands through the front end -/

theorem typ_derefLeaf (v : Str) (hv : PlainName v) (caps : List Str) :
    typ .derefKids .deref (leafNode v) caps = .ok (.derefProp v 0, caps) := by
  have h1 := plain_ne v hv "$and".toList (by decide)
  have h2 := plain_ne v hv "$or".toList (by decide)
  have h3 := plain_ne v hv "$not".toList (by decide)
  have h4 := plain_ne v hv "$and_any_order".toList (by decide)
  obtain ⟨h7, h8⟩ := plain_not_capture v hv
  rw [leafNode, typ.eq_def]
  simp only [h1, h2, h3, h4, h7, h8, if_false, Bool.false_eq_true]
  simp [pure, Except.pure]

theorem typField_lit (fname v : Str) (hv : PlainName v) (rest : List Node) (caps : List Str) :
    typFields (.mk fname Times.one [leafNode v] :: rest) caps =
      (typFields rest caps >>= fun r => pure (.derefField fname [.derefProp v 0] :: r.1, r.2)) := by
  rw [typFields]
  simp only [List.isEmpty_cons, Bool.false_eq_true, if_false, typList, typ_derefLeaf v hv caps, bind, Except.bind, pure, Except.pure]

/-- a leaf under the general chain inside a `$deref` field (child of an `$or` there) is a deref property -/
theorem typ_generalDerefLeaf (v : Str) (hv : PlainName v) (caps : List Str) :
    typ .general .deref (leafNode v) caps = .ok (.derefProp v 0, caps) := by
  have h1 := plain_ne v hv "$and".toList (by decide)
  have h2 := plain_ne v hv "$or".toList (by decide)
  have h3 := plain_ne v hv "$not".toList (by decide)
  have h4 := plain_ne v hv "$and_any_order".toList (by decide)
  have h5 := plain_ne v hv "$deref".toList (by decide)
  have h6 := hv.1
  obtain ⟨h7, _⟩ := plain_not_capture v hv
  rw [leafNode, typ.eq_def]
  simp only [h1, h2, h3, h4, h5, h6, h7, if_false, Bool.false_eq_true]
  simp [pure, Except.pure]

theorem typList_props : ∀ (l : List Pat), l.all plainProp = true → ∀ (caps : List Str),
    typList .general .deref (l.map propNode) caps = .ok (l, caps)
  | [], _, caps => by simp [typList, pure, Except.pure]
  | q :: rest, h, caps => by
    simp only [List.all_cons, Bool.and_eq_true] at h
    have ih := typList_props rest h.2 caps
    have hq := h.1
    unfold plainProp at hq
    split at hq
    · rename_i v
      have hv : PlainName v := by simpa using hq
      simp only [List.map_cons, propNode, typList, typ_generalDerefLeaf v hv caps, ih, bind, Except.bind, pure, Except.pure]
    · cases hq

theorem typ_orProps (l : List Pat) (hl : l.isEmpty = false) (h : l.all plainProp = true) (caps : List Str) :
    typ .derefKids .deref (.mk "$or".toList Times.one (l.map propNode)) caps = .ok (.or l Times.one, caps) := by
  have hk : (l.map propNode).isEmpty = false := by cases l <;> simp_all
  have hs : isSpecialReg "$or".toList = false := by decide
  have hc : isCapture "$or".toList = false := by decide
  have hne : "$or".toList ≠ "$and".toList := by decide
  rw [typ.eq_def]
  simp only [hs, hc, hne, if_true, if_false, hk, Bool.false_eq_true]
  rw [typList_props l h caps]
  simp [bind, Except.bind, pure, Except.pure]

theorem typField_alt (fname : Str) (l : List Pat) (hl : l.isEmpty = false) (h : l.all plainProp = true)
    (rest : List Node) (caps : List Str) :
    typFields (.mk fname Times.one [.mk "$or".toList Times.one (l.map propNode)] :: rest) caps =
      (typFields rest caps >>= fun r => pure (.derefField fname [.or l Times.one] :: r.1, r.2)) := by
  rw [typFields]
  simp only [List.isEmpty_cons, Bool.false_eq_true, if_false, typList, typ_orProps l hl h caps, bind, Except.bind, pure, Except.pure]

theorem typFields_lit : ∀ (fields : List Pat), fields.all plainField = true → ∀ (caps : List Str),
    typFields (fields.map nodeField) caps = .ok (fields, caps)
  | [], _, caps => by simp [typFields, pure, Except.pure]
  | f :: rest, h, caps => by
    simp only [List.all_cons, Bool.and_eq_true] at h
    have ih := typFields_lit rest h.2 caps
    have hf := h.1
    unfold plainField at hf
    split at hf
    · rename_i n v
      have hv : PlainName v := by simp at hf; exact hf.1
      simp only [List.map_cons, nodeField]
      rw [typField_lit n v hv, ih]
      rfl
    · rename_i n l t
      simp only [Bool.and_eq_true, decide_eq_true_eq, Bool.not_eq_true'] at hf
      obtain ⟨⟨⟨rfl, hne⟩, hall⟩, _⟩ := hf
      simp only [List.map_cons, nodeField]
      rw [typField_alt n l hne hall, ih]
      rfl
    · cases hf

theorem typ_deref (fields : List Pat) (t : Times) (h : fields.all plainField = true) (caps : List Str) (ch : Chain)
    (hch : ch = Chain.operand ∨ ch = Chain.general) :
    typ ch .mnemonic (nodeO (.deref fields t)) caps = .ok (.deref fields t, caps) := by
  have hne1 : "$deref".toList ≠ "$and".toList := by decide
  have hne2 : "$deref".toList ≠ "$or".toList := by decide
  have hne3 : "$deref".toList ≠ "$not".toList := by decide
  have hne4 : "$deref".toList ≠ "$and_any_order".toList := by decide
  have hne5 : "$deref".toList ≠ "times".toList := by decide
  rcases hch with rfl | rfl <;>
  · rw [nodeO, typ.eq_def]
    simp only [hne1, hne2, hne3, hne4, hne5, if_true, if_false]
    rw [typFields_lit fields h caps]
    rfl

theorem capNumbers_derefRx (d : C06.DerefSpec) : d.rx.capNumbers = [] := by
  obtain ⟨a, b, c, k⟩ := d
  cases b <;> cases c <;> cases k <;>
    simp [C06.DerefSpec.rx, seqAll, Rx.capNumbers, capNumbers_lit, optionalPercent, optionalHex]

theorem yI_beq_times (p : Pat) : (yI p == Y.str "times".toList) = false := by
  show Y.beq (yI p) (Y.str "times".toList) = false
  cases p <;> simp [yI, Y.beq]

theorem yO_beq_times (p : Pat) (h : srcO p = true) : (yO p == Y.str "times".toList) = false := by
  cases p with
  | operand n k =>
    simp only [srcO, Bool.and_eq_true, decide_eq_true_eq] at h
    exact str_beq_times n h.1.1
  | and _ _ | or _ _ | anyOrder _ _ | not _ _ _ | deref _ _ => exact dict_beq_times _
  | mnem _ _ _ | timesMarker | derefField _ _ | derefProp _ _ | capInstDef _ | capInstRef _
  | capOpDef _ | capOpRef _ | capDerefDef _ | capDerefRef _ | regDef _ | regRef _ => simp [srcO] at h

theorem any_times_yIL (l : List Pat) : (yIL l).any (· == Y.str "times".toList) = false := by
  induction l with
  | nil => simp [yIL]
  | cons p ps ih => simp only [yIL, List.any_cons, yI_beq_times, Bool.false_or]; exact ih

theorem any_times_yOL (l : List Pat) (h : srcOL l = true) : (yOL l).any (· == Y.str "times".toList) = false := by
  induction l with
  | nil => simp [yOL]
  | cons p ps ih =>
    simp only [srcOL, Bool.and_eq_true] at h
    simp only [yOL, List.any_cons, yO_beq_times p h.1, Bool.false_or]
    exact ih h.2

theorem buildList_yIL (l : List Pat) (h : ∀ q ∈ l, build (yI q) = .ok (nodeI q)) :
    buildList (yIL l) = .ok (nodeIL l) := by
  induction l with
  | nil => simp [yIL, nodeIL, buildList, pure, Except.pure]
  | cons p ps ih =>
    simp only [yIL, nodeIL, buildList, yI_beq_times, Bool.false_eq_true, if_false]
    rw [h p (by simp), ih (fun q hq => h q (by simp [hq]))]
    simp [bind, Except.bind, pure, Except.pure]

theorem buildList_yOL (l : List Pat) (hs : srcOL l = true) (h : ∀ q ∈ l, build (yO q) = .ok (nodeO q)) :
    buildList (yOL l) = .ok (nodeOL l) := by
  induction l with
  | nil => simp [yOL, nodeOL, buildList, pure, Except.pure]
  | cons p ps ih =>
    simp only [srcOL, Bool.and_eq_true] at hs
    simp only [yOL, nodeOL, buildList, yO_beq_times p hs.1, Bool.false_eq_true, if_false]
    rw [h p (by simp), ih hs.2 (fun q hq => h q (by simp [hq]))]
    simp [bind, Except.bind, pure, Except.pure]

theorem build_dict_list (k : Str) (l : List Y) (t : Times) (kids : List Node) (hk : k ≠ "times".toList)
    (hl : l.any (· == Y.str "times".toList) = false) (ht : okT t = true) (hb : buildList l = .ok kids) :
    build (Y.dict ((Y.str k, Y.list l) :: timesY t)) = .ok (.mk k t kids) := by
  simp only [build, nameOf, Y.scalarStr]
  rw [getTimes_timesY k l t hk hl ht, hb]
  simp [bind, Except.bind, pure, Except.pure]

theorem yOL_singleton (p : Pat) : yOL [p] = [yO p] := by simp [yOL]
theorem nodeOL_singleton (p : Pat) : nodeOL [p] = [nodeO p] := by simp [nodeOL]
theorem yIL_singleton (p : Pat) : yIL [p] = [yI p] := by simp [yIL]
theorem nodeIL_singleton (p : Pat) : nodeIL [p] = [nodeI p] := by simp [nodeIL]

/-! ### `build` on the YAML of a `$deref` -/

theorem buildList_props : ∀ (l : List Pat), l.all plainProp = true →
    buildList (l.map propY) = .ok (l.map propNode) ∧ (l.map propY).any (· == Y.str "times".toList) = false
  | [], _ => by simp [buildList, pure, Except.pure]
  | q :: rest, h => by
    simp only [List.all_cons, Bool.and_eq_true] at h
    obtain ⟨ih1, ih2⟩ := buildList_props rest h.2
    have hq := h.1
    unfold plainProp at hq
    split at hq
    · rename_i v
      have hv : PlainName v := by simpa using hq
      have hb := str_beq_times v hv.1
      simp only [List.map_cons, propY, propNode, buildList, hb, Bool.false_eq_true, if_false, build, ih1, bind, Except.bind,
        pure, Except.pure, leafNode, List.any_cons, ih2, Bool.or_self, and_self]
    · cases hq

theorem buildTuples_fields : ∀ (fields : List Pat), fields.all plainField = true →
    buildTuples (fields.map yField) = .ok (fields.map nodeField) ∧ dictHas (fields.map yField) "times" = false
  | [], _ => by simp [buildTuples, pure, Except.pure, dictHas, dictGet]
  | f :: rest, h => by
    simp only [List.all_cons, Bool.and_eq_true] at h
    obtain ⟨ih1, ih2⟩ := buildTuples_fields rest h.2
    have hf := h.1
    unfold plainField at hf
    split at hf
    · rename_i n v
      simp only [Bool.and_eq_true, decide_eq_true_eq] at hf
      have hn : (n == "times".toList) = false := by simpa using hf.2
      refine ⟨?_, ?_⟩
      · simp [yField, nodeField, buildTuples, nameOf, Y.scalarStr, ih1, bind, Except.bind, pure, Except.pure, leafNode]
      · simp only [dictHas, dictGet, List.map_cons, yField, List.find?, hn] at ih2 ⊢
        exact ih2
    · rename_i n l t
      simp only [Bool.and_eq_true, decide_eq_true_eq, Bool.not_eq_true'] at hf
      obtain ⟨⟨⟨rfl, hne⟩, hall⟩, hnt⟩ := hf
      have hn : (n == "times".toList) = false := by simpa using hnt
      obtain ⟨hb1, hb2⟩ := buildList_props l hall
      have hbd : build (Y.dict [(Y.str "$or".toList, Y.list (l.map propY))]) = .ok (.mk "$or".toList Times.one (l.map propNode)) := by
        have := build_dict_list "$or".toList (l.map propY) Times.one (l.map propNode) (by decide) hb2 (by decide) hb1
        simpa [timesY] using this
      refine ⟨?_, ?_⟩
      · simp only [List.map_cons, yField, nodeField, buildTuples, buildAll, nameOf, Y.scalarStr, ih1, bind, Except.bind, pure, Except.pure]
        rw [hbd]
      · simp only [dictHas, dictGet, List.map_cons, yField, List.find?, hn] at ih2 ⊢
        exact ih2
    · cases hf

theorem build_deref (fields : List Pat) (h : fields.all plainField = true) :
    build (yO (.deref fields Times.one)) = .ok (nodeO (.deref fields Times.one)) := by
  obtain ⟨hb, hd⟩ := buildTuples_fields fields h
  have hd0 : dictHas [(Y.str "$deref".toList, Y.dict (fields.map yField))] "times" = false := by
    simp [dictHas, dictGet, List.find?]
  simp only [yO, nodeO, build, nameOf, Y.scalarStr, getTimes, hd0, hd, hb, Bool.false_eq_true, if_false, bind, Except.bind,
    pure, Except.pure]

/-- **`build` inverts `yO`** on the operand-level source fragment -/
theorem build_yO : ∀ (p : Pat), srcO p = true → build (yO p) = .ok (nodeO p)
  | .operand n k, _ => by simp [yO, nodeO, build, leafNode, pure, Except.pure]
  | .and l t, h => by
    simp only [srcO, Bool.and_eq_true] at h
    simp only [yO, nodeO]
    exact build_dict_list _ _ t _ (by decide) (any_times_yOL l h.1.2) h.2
      (buildList_yOL l h.1.2 (fun q hq => build_yO q (srcOL_mem h.1.2 q hq)))
  | .or l t, h => by
    simp only [srcO, Bool.and_eq_true] at h
    simp only [yO, nodeO]
    exact build_dict_list _ _ t _ (by decide) (any_times_yOL l h.1.2) h.2
      (buildList_yOL l h.1.2 (fun q hq => build_yO q (srcOL_mem h.1.2 q hq)))
  | .anyOrder l t, h => by
    simp only [srcO, Bool.and_eq_true] at h
    simp only [yO, nodeO]
    exact build_dict_list _ _ t _ (by decide) (any_times_yOL l h.1.2) h.2
      (buildList_yOL l h.1.2 (fun q hq => build_yO q (srcOL_mem h.1.2 q hq)))
  | .not p op t, h => by
    simp only [srcO, Bool.and_eq_true] at h
    simp only [yO, nodeO]
    have hp := build_yO p h.1.2
    have hs1 : srcOL [p] = true := by simp [srcOL, h.1.2]
    have hb : buildList [yO p] = .ok [nodeO p] := by
      have := buildList_yOL [p] hs1 (fun q hq => by simp at hq; subst hq; exact hp)
      rwa [yOL_singleton, nodeOL_singleton] at this
    have ha : [yO p].any (· == Y.str "times".toList) = false := by
      have := any_times_yOL [p] hs1
      rwa [yOL_singleton] at this
    exact build_dict_list _ _ t _ (by decide) ha h.2 hb
  | .mnem _ _ _, h => by simp [srcO] at h
  | .timesMarker, h => by simp [srcO] at h
  | .deref fields t, h => by
    simp only [srcO, Bool.and_eq_true] at h
    have ht : t = Times.one := by
      rcases (Bool.or_eq_true _ _).mp h.1 with h1 | h1
      · obtain ⟨_, _, ht, _⟩ := derefLit_spec h1; exact ht
      · obtain ⟨_, _, ht, _⟩ := derefAltLit_spec h1; exact ht
    subst ht
    exact build_deref fields h.2
  | .derefField _ _, h => by simp [srcO] at h
  | .derefProp _ _, h => by simp [srcO] at h
  | .capInstDef _, h => by simp [srcO] at h
  | .capInstRef _, h => by simp [srcO] at h
  | .capOpDef _, h => by simp [srcO] at h
  | .capOpRef _, h => by simp [srcO] at h
  | .capDerefDef _, h => by simp [srcO] at h
  | .capDerefRef _, h => by simp [srcO] at h
  | .regDef _, h => by simp [srcO] at h
  | .regRef _, h => by simp [srcO] at h
termination_by p => sizeOf p
decreasing_by
  all_goals simp_wf
  all_goals first
    | (have := List.sizeOf_lt_of_mem ‹_ ∈ _›; omega)
    | omega

/-- **`build` inverts `yI`** on the source fragment -/
theorem build_yI : ∀ (p : Pat), srcI p = true → build (yI p) = .ok (nodeI p)
  | .mnem name ops t, h => by
    simp only [srcI, Bool.and_eq_true, decide_eq_true_eq] at h
    obtain ⟨⟨hn, hops⟩, ht⟩ := h
    simp only [yI, nodeI]
    exact build_dict_list name _ t _ hn.1 (any_times_yOL ops hops) ht
      (buildList_yOL ops hops (fun q hq => build_yO q (srcOL_mem hops q hq)))
  | .and l t, h => by
    simp only [srcI, Bool.and_eq_true] at h
    simp only [yI, nodeI]
    exact build_dict_list _ _ t _ (by decide) (any_times_yIL l) h.2
      (buildList_yIL l (fun q hq => build_yI q (srcIL_mem h.1.2 q hq)))
  | .or l t, h => by
    simp only [srcI, Bool.and_eq_true] at h
    simp only [yI, nodeI]
    exact build_dict_list _ _ t _ (by decide) (any_times_yIL l) h.2
      (buildList_yIL l (fun q hq => build_yI q (srcIL_mem h.1.2 q hq)))
  | .anyOrder l t, h => by
    simp only [srcI, Bool.and_eq_true] at h
    simp only [yI, nodeI]
    exact build_dict_list _ _ t _ (by decide) (any_times_yIL l) h.2
      (buildList_yIL l (fun q hq => build_yI q (srcIL_mem h.1.2 q hq)))
  | .not p op t, h => by
    simp only [srcI, Bool.and_eq_true] at h
    simp only [yI, nodeI]
    have hp := build_yI p h.1.2
    have hb : buildList [yI p] = .ok [nodeI p] := by
      have := buildList_yIL [p] (fun q hq => by simp at hq; subst hq; exact hp)
      rwa [yIL_singleton, nodeIL_singleton] at this
    have ha : [yI p].any (· == Y.str "times".toList) = false := by
      have := any_times_yIL [p]
      rwa [yIL_singleton] at this
    exact build_dict_list _ _ t _ (by decide) ha h.2 hb
  | .operand _ _, h => by simp [srcI] at h
  | .timesMarker, h => by simp [srcI] at h
  | .deref _ _, h => by simp [srcI] at h
  | .derefField _ _, h => by simp [srcI] at h
  | .derefProp _ _, h => by simp [srcI] at h
  | .capInstDef _, h => by simp [srcI] at h
  | .capInstRef _, h => by simp [srcI] at h
  | .capOpDef _, h => by simp [srcI] at h
  | .capOpRef _, h => by simp [srcI] at h
  | .capDerefDef _, h => by simp [srcI] at h
  | .capDerefRef _, h => by simp [srcI] at h
  | .regDef _, h => by simp [srcI] at h
  | .regRef _, h => by simp [srcI] at h
termination_by p => sizeOf p
decreasing_by
  all_goals simp_wf
  all_goals first
    | (have := List.sizeOf_lt_of_mem ‹_ ∈ _›; omega)
    | omega

/-! ## `typ` on `nodeI` -/

theorem typList_nodeIL (l : List Pat) (caps : List Str)
    (h : ∀ q ∈ l, typ .general .none (nodeI q) caps = .ok (q, caps)) :
    typList .general .none (nodeIL l) caps = .ok (l, caps) := by
  induction l with
  | nil => simp [nodeIL, typList, pure, Except.pure]
  | cons p ps ih =>
    simp only [nodeIL, typList]
    rw [h p (by simp)]
    simp only [bind, Except.bind]
    rw [ih (fun q hq => h q (by simp [hq]))]
    simp [pure, Except.pure]

theorem nodeIL_isEmpty (l : List Pat) (h : l.isEmpty = false) : (nodeIL l).isEmpty = false := by
  cases l with
  | nil => simp at h
  | cons _ _ => simp [nodeIL]

theorem typList_nodeOL (ch : Chain) (l : List Pat) (caps : List Str)
    (h : ∀ q ∈ l, typ ch .mnemonic (nodeO q) caps = .ok (q, caps)) :
    typList ch .mnemonic (nodeOL l) caps = .ok (l, caps) := by
  induction l with
  | nil => simp [nodeOL, typList, pure, Except.pure]
  | cons p ps ih =>
    simp only [nodeOL, typList]
    rw [h p (by simp)]
    simp only [bind, Except.bind]
    rw [ih (fun q hq => h q (by simp [hq]))]
    simp [pure, Except.pure]

theorem nodeOL_isEmpty (l : List Pat) (h : l.isEmpty = false) : (nodeOL l).isEmpty = false := by
  cases l with
  | nil => simp at h
  | cons _ _ => simp [nodeOL]

/-- operand level: both chains that can meet an operand-level node (`operand` for the direct children of an
item, `general` for the children of a nested operator) type `nodeO p` as `p` -/
theorem typ_nodeO (caps : List Str) : ∀ (p : Pat), srcO p = true → ∀ ch, (ch = Chain.operand ∨ ch = Chain.general) →
    typ ch .mnemonic (nodeO p) caps = .ok (p, caps)
  | .operand n k, h, ch, hch => by
    simp only [srcO, Bool.and_eq_true, decide_eq_true_eq, Bool.not_eq_true'] at h
    obtain ⟨hn, hk⟩ := h
    subst hk
    have h1 := plain_ne n hn "$and".toList (by decide)
    have h2 := plain_ne n hn "$or".toList (by decide)
    have h3 := plain_ne n hn "$not".toList (by decide)
    have h4 := plain_ne n hn "$and_any_order".toList (by decide)
    have h5 := plain_ne n hn "$deref".toList (by decide)
    have h6 := hn.1
    obtain ⟨h7, h8⟩ := plain_not_capture n hn
    rcases hch with rfl | rfl
    · exact typ_leaf n hn caps
    · rw [nodeO, leafNode, typ.eq_def]
      simp only [h1, h2, h3, h4, h5, h6, h7, if_false, Bool.false_eq_true]
      simp [pure, Except.pure]
  | .and l t, h, ch, hch => by
    simp only [srcO, Bool.and_eq_true, Bool.not_eq_true'] at h
    have hk := nodeOL_isEmpty l h.1.1
    have ih := typList_nodeOL .general l caps (fun q hq => typ_nodeO caps q (srcOL_mem h.1.2 q hq) .general (Or.inr rfl))
    rcases hch with rfl | rfl <;>
    · rw [nodeO, typ.eq_def]
      simp only [if_true, hk, Bool.false_eq_true, if_false]
      rw [ih]
      simp [bind, Except.bind, pure, Except.pure]
  | .or l t, h, ch, hch => by
    simp only [srcO, Bool.and_eq_true, Bool.not_eq_true'] at h
    have hk := nodeOL_isEmpty l h.1.1
    have hne : "$or".toList ≠ "$and".toList := by decide
    have ih := typList_nodeOL .general l caps (fun q hq => typ_nodeO caps q (srcOL_mem h.1.2 q hq) .general (Or.inr rfl))
    rcases hch with rfl | rfl <;>
    · rw [nodeO, typ.eq_def]
      simp only [hne, if_true, hk, Bool.false_eq_true, if_false]
      rw [ih]
      simp [bind, Except.bind, pure, Except.pure]
  | .anyOrder l t, h, ch, hch => by
    simp only [srcO, Bool.and_eq_true, Bool.not_eq_true'] at h
    have hk := nodeOL_isEmpty l h.1.1
    have hne1 : "$and_any_order".toList ≠ "$and".toList := by decide
    have hne2 : "$and_any_order".toList ≠ "$or".toList := by decide
    have hne3 : "$and_any_order".toList ≠ "$not".toList := by decide
    have ih := typList_nodeOL .general l caps (fun q hq => typ_nodeO caps q (srcOL_mem h.1.2 q hq) .general (Or.inr rfl))
    rcases hch with rfl | rfl <;>
    · rw [nodeO, typ.eq_def]
      simp only [hne1, hne2, hne3, if_true, hk, Bool.false_eq_true, if_false]
      rw [ih]
      simp [bind, Except.bind, pure, Except.pure]
  | .not p op t, h, ch, hch => by
    simp only [srcO, Bool.and_eq_true] at h
    obtain ⟨⟨hop, hp⟩, _⟩ := h
    subst hop
    have ih := typ_nodeO caps p hp .general (Or.inr rfl)
    have hne1 : "$not".toList ≠ "$and".toList := by decide
    have hne2 : "$not".toList ≠ "$or".toList := by decide
    rcases hch with rfl | rfl <;>
    · rw [nodeO, typ.eq_def]
      simp only [hne1, hne2, if_true, if_false]
      rw [ih]
      simp [bind, Except.bind, pure, Except.pure]
  | .mnem _ _ _, h, _, _ => by simp [srcO] at h
  | .timesMarker, h, _, _ => by simp [srcO] at h
  | .deref fields t, h, ch, hch => by
    simp only [srcO, Bool.and_eq_true] at h
    exact typ_deref _ _ h.2 caps ch hch
  | .derefField _ _, h, _, _ => by simp [srcO] at h
  | .derefProp _ _, h, _, _ => by simp [srcO] at h
  | .capInstDef _, h, _, _ => by simp [srcO] at h
  | .capInstRef _, h, _, _ => by simp [srcO] at h
  | .capOpDef _, h, _, _ => by simp [srcO] at h
  | .capOpRef _, h, _, _ => by simp [srcO] at h
  | .capDerefDef _, h, _, _ => by simp [srcO] at h
  | .capDerefRef _, h, _, _ => by simp [srcO] at h
  | .regDef _, h, _, _ => by simp [srcO] at h
  | .regRef _, h, _, _ => by simp [srcO] at h
termination_by p => sizeOf p
decreasing_by
  all_goals simp_wf
  all_goals first
    | (have := List.sizeOf_lt_of_mem ‹_ ∈ _›; omega)
    | omega

/-- **the handler chains type `nodeI p` as `p`**, registering no capture -/
theorem typ_nodeI (caps : List Str) : ∀ (p : Pat), srcI p = true → typ .general .none (nodeI p) caps = .ok (p, caps)
  | .mnem name ops t, h => by
    simp only [srcI, Bool.and_eq_true, decide_eq_true_eq] at h
    obtain ⟨⟨hn, hops⟩, _⟩ := h
    have h1 := plain_ne name hn "$and".toList (by decide)
    have h2 := plain_ne name hn "$or".toList (by decide)
    have h3 := plain_ne name hn "$not".toList (by decide)
    have h4 := plain_ne name hn "$and_any_order".toList (by decide)
    have h5 := plain_ne name hn "$deref".toList (by decide)
    have h6 := hn.1
    obtain ⟨h7, _⟩ := plain_not_capture name hn
    rw [nodeI, typ.eq_def]
    simp only [h1, h2, h3, h4, h5, h6, h7, if_false, Bool.false_eq_true]
    rw [typList_nodeOL .operand ops caps (fun q hq => typ_nodeO caps q (srcOL_mem hops q hq) .operand (Or.inl rfl))]
    simp [bind, Except.bind, pure, Except.pure]
  | .and l t, h => by
    simp only [srcI, Bool.and_eq_true, Bool.not_eq_true'] at h
    have hk := nodeIL_isEmpty l h.1.1
    rw [nodeI, typ.eq_def]
    simp only [if_true, hk, Bool.false_eq_true, if_false]
    rw [typList_nodeIL l caps (fun q hq => typ_nodeI caps q (srcIL_mem h.1.2 q hq))]
    simp [bind, Except.bind, pure, Except.pure]
  | .or l t, h => by
    simp only [srcI, Bool.and_eq_true, Bool.not_eq_true'] at h
    have hk := nodeIL_isEmpty l h.1.1
    have hne : "$or".toList ≠ "$and".toList := by decide
    rw [nodeI, typ.eq_def]
    simp only [hne, if_true, hk, Bool.false_eq_true, if_false]
    rw [typList_nodeIL l caps (fun q hq => typ_nodeI caps q (srcIL_mem h.1.2 q hq))]
    simp [bind, Except.bind, pure, Except.pure]
  | .anyOrder l t, h => by
    simp only [srcI, Bool.and_eq_true, Bool.not_eq_true'] at h
    have hk := nodeIL_isEmpty l h.1.1
    have hne1 : "$and_any_order".toList ≠ "$and".toList := by decide
    have hne2 : "$and_any_order".toList ≠ "$or".toList := by decide
    have hne3 : "$and_any_order".toList ≠ "$not".toList := by decide
    rw [nodeI, typ.eq_def]
    simp only [hne1, hne2, hne3, if_true, hk, Bool.false_eq_true, if_false]
    rw [typList_nodeIL l caps (fun q hq => typ_nodeI caps q (srcIL_mem h.1.2 q hq))]
    simp [bind, Except.bind, pure, Except.pure]
  | .not p op t, h => by
    simp only [srcI, Bool.and_eq_true, Bool.not_eq_true'] at h
    obtain ⟨⟨hop, hp⟩, _⟩ := h
    subst hop
    have ih := typ_nodeI caps p hp
    have hne1 : "$not".toList ≠ "$and".toList := by decide
    have hne2 : "$not".toList ≠ "$or".toList := by decide
    rw [nodeI, typ.eq_def]
    simp only [hne1, hne2, if_true, if_false]
    rw [ih]
    simp [bind, Except.bind, pure, Except.pure]
  | .operand _ _, h => by simp [srcI] at h
  | .timesMarker, h => by simp [srcI] at h
  | .deref _ _, h => by simp [srcI] at h
  | .derefField _ _, h => by simp [srcI] at h
  | .derefProp _ _, h => by simp [srcI] at h
  | .capInstDef _, h => by simp [srcI] at h
  | .capInstRef _, h => by simp [srcI] at h
  | .capOpDef _, h => by simp [srcI] at h
  | .capOpRef _, h => by simp [srcI] at h
  | .capDerefDef _, h => by simp [srcI] at h
  | .capDerefRef _, h => by simp [srcI] at h
  | .regDef _, h => by simp [srcI] at h
  | .regRef _, h => by simp [srcI] at h
termination_by p => sizeOf p
decreasing_by
  all_goals simp_wf
  all_goals first
    | (have := List.sizeOf_lt_of_mem ‹_ ∈ _›; omega)
    | omega

theorem timesY_one : timesY Times.one = [] := by simp [timesY]

/-- **typed tree of a rule of the source fragment** -/
theorem typeTree_src (l : List Pat) (hne : l.isEmpty = false) (h : srcIL l = true) :
    typeTree (topTree (.list (yIL l))) = .ok (.and l Times.one, []) := by
  have hs : srcI (.and l Times.one) = true := by simp [srcI, hne, h, okT, Times.one]
  have hy : topTree (.list (yIL l)) = yI (.and l Times.one) := by simp [topTree, yI, timesY_one]
  simp only [typeTree, hy]
  rw [build_yI _ hs]
  simp only [bind, Except.bind]
  exact typ_nodeI [] _ hs

/-! ## no capturing group in the compiled fragment -/

theorem capNumbers_withTimes (r : Rx) (t : Times) : (withTimes r t).capNumbers = r.capNumbers := by
  unfold withTimes; split <;> simp [Rx.capNumbers]

theorem capNumbers_altAll (rs : List Rx) (h : ∀ r ∈ rs, r.capNumbers = []) : (altAll rs).capNumbers = [] := by
  induction rs with
  | nil => simp [altAll, Rx.capNumbers]
  | cons r rs ih =>
    cases rs with
    | nil => simpa [altAll] using h r (by simp)
    | cons r2 rs2 =>
      simp only [altAll, Rx.capNumbers, List.append_eq_nil_iff]
      exact ⟨h r (by simp), ih (fun q hq => h q (by simp [hq]))⟩

theorem capNumbers_orJoin (rs : List Rx) (h : ∀ r ∈ rs, r.capNumbers = []) : (orJoin rs).capNumbers = [] := by
  unfold orJoin
  apply capNumbers_altAll
  intro r hr
  obtain ⟨q, hq, rfl⟩ := List.mem_map.mp hr
  simpa [Rx.capNumbers] using h q hq

theorem capNumbers_operand (fl : Flags) (caps : List Str) (n : Str) (r : Rx)
    (hc : comp fl caps (.operand n false) = .ok r) : r.capNumbers = [] := by
  simp only [comp, Bool.false_eq_true, if_false] at hc
  split at hc
  · cases hc
  · cases pure_ok.mp hc; exact capNumbers_lit _
  · cases pure_ok.mp hc; exact capNumbers_nameWindow _ _

theorem capNumbers_altRx (l : List Str) : (C06.altRx l).capNumbers = [] := by
  simp only [C06.altRx, Rx.capNumbers]
  apply capNumbers_orJoin
  intro r hr
  obtain ⟨v, _, rfl⟩ := List.mem_map.mp hr
  exact capNumbers_lit v

theorem capNumbers_derefAltRx (d : C06.DerefAlt) : d.rx.capNumbers = [] := by
  obtain ⟨a, b, c, k⟩ := d
  cases b <;> cases c <;> cases k <;>
    simp [C06.DerefAlt.rx, seqAll, Rx.capNumbers, capNumbers_altRx, optionalPercent, optionalHex, capNumbers_lit]

/-- operand level: no capturing group either -/
theorem comp_capFreeO (fl : Flags) (caps : List Str) :
    ∀ (p : Pat), srcO p = true → ∀ r, comp fl caps p = .ok r → r.capNumbers = []
  | .operand n k, h, r, hc => by
    simp only [srcO, Bool.and_eq_true, Bool.not_eq_true'] at h
    obtain ⟨_, hk⟩ := h
    subst hk
    exact capNumbers_operand fl caps n r hc
  | .and l t, h, r, hc => by
    simp only [srcO, Bool.and_eq_true] at h
    simp only [comp] at hc
    obtain ⟨cs, hcs, hr⟩ := bind_ok.mp hc
    cases pure_ok.mp hr
    rw [capNumbers_withTimes]
    simp only [Rx.capNumbers]
    exact capNumbers_seqAll cs (compList_forall fl caps (fun r => r.capNumbers = []) l cs hcs
      (fun q hq r hr => comp_capFreeO fl caps q (srcOL_mem h.1.2 q hq) r hr))
  | .or l t, h, r, hc => by
    simp only [srcO, Bool.and_eq_true] at h
    simp only [comp] at hc
    obtain ⟨cs, hcs, hr⟩ := bind_ok.mp hc
    cases pure_ok.mp hr
    rw [capNumbers_withTimes]
    simp only [Rx.capNumbers]
    exact capNumbers_orJoin cs (compList_forall fl caps (fun r => r.capNumbers = []) l cs hcs
      (fun q hq r hr => comp_capFreeO fl caps q (srcOL_mem h.1.2 q hq) r hr))
  | .anyOrder l t, h, r, hc => by
    simp only [srcO, Bool.and_eq_true] at h
    simp only [comp] at hc
    obtain ⟨cs, hcs, hr⟩ := bind_ok.mp hc
    cases pure_ok.mp hr
    have hall := compList_forall fl caps (fun r => r.capNumbers = []) l cs hcs
      (fun q hq r hr => comp_capFreeO fl caps q (srcOL_mem h.1.2 q hq) r hr)
    rw [capNumbers_withTimes]
    simp only [Rx.capNumbers]
    apply capNumbers_orJoin
    intro r' hr'
    obtain ⟨pm, hpm, rfl⟩ := List.mem_map.mp hr'
    simp only [Rx.capNumbers]
    exact capNumbers_seqAll pm (fun q hq => hall q (mem_perms_subset cs pm hpm q hq))
  | .not p op t, h, r, hc => by
    simp only [srcO, Bool.and_eq_true] at h
    obtain ⟨⟨hop, hp⟩, _⟩ := h
    subst hop
    simp only [comp] at hc
    obtain ⟨c, hcc, hr⟩ := bind_ok.mp hc
    cases pure_ok.mp hr
    have ih := comp_capFreeO fl caps p hp c hcc
    rw [capNumbers_withTimes]
    simp [Rx.capNumbers, ih, skipToEndOfOperand, clsNotCommaBar]
  | .mnem _ _ _, h, _, _ => by simp [srcO] at h
  | .timesMarker, h, _, _ => by simp [srcO] at h
  | .deref fields t, h, r, hc => by
    simp only [srcO, Bool.and_eq_true] at h
    rcases (Bool.or_eq_true _ _).mp h.1 with h1 | h1
    · obtain ⟨d, rfl, rfl, hwf, _⟩ := derefLit_spec h1
      have : comp fl caps d.toPat = .ok r := hc
      rw [C06.comp_deref fl caps d hwf] at this
      cases this
      exact capNumbers_derefRx d
    · obtain ⟨d, rfl, rfl, _, _⟩ := derefAltLit_spec h1
      have : comp fl caps d.toPat = .ok r := hc
      rw [C06.comp_derefAlt fl caps d] at this
      cases this
      exact capNumbers_derefAltRx d
  | .derefField _ _, h, _, _ => by simp [srcO] at h
  | .derefProp _ _, h, _, _ => by simp [srcO] at h
  | .capInstDef _, h, _, _ => by simp [srcO] at h
  | .capInstRef _, h, _, _ => by simp [srcO] at h
  | .capOpDef _, h, _, _ => by simp [srcO] at h
  | .capOpRef _, h, _, _ => by simp [srcO] at h
  | .capDerefDef _, h, _, _ => by simp [srcO] at h
  | .capDerefRef _, h, _, _ => by simp [srcO] at h
  | .regDef _, h, _, _ => by simp [srcO] at h
  | .regRef _, h, _, _ => by simp [srcO] at h
termination_by p => sizeOf p
decreasing_by
  all_goals simp_wf
  all_goals first
    | (have := List.sizeOf_lt_of_mem ‹_ ∈ _›; omega)
    | omega

/-- **compiled rules of the source fragment contain no capturing group** -/
theorem comp_capFree (fl : Flags) (caps : List Str) :
    ∀ (p : Pat), srcI p = true → ∀ r, comp fl caps p = .ok r → r.capNumbers = []
  | .mnem name ops t, h, r, hc => by
    simp only [srcI, Bool.and_eq_true, decide_eq_true_eq] at h
    simp only [comp] at hc
    obtain ⟨os, hos, hr⟩ := bind_ok.mp hc
    have hall : ∀ o ∈ os, o.capNumbers = [] :=
      compList_forall fl caps (fun r => r.capNumbers = []) _ os hos
        (fun q hq r hr => comp_capFreeO fl caps q (srcOL_mem h.1.2 q hq) r hr)
    have hbody : (seqAll [nameWindow fl.mnemFull name, seqAll os, skipToEndOfPatternNode]).capNumbers = [] := by
      apply capNumbers_seqAll
      intro q hq
      simp only [List.mem_cons, List.not_mem_nil, or_false] at hq
      rcases hq with rfl | rfl | rfl
      · exact capNumbers_nameWindow _ _
      · exact capNumbers_seqAll _ hall
      · simp [skipToEndOfPatternNode, Rx.capNumbers, clsNotBar]
    have haddr : ignoreInstAddr.capNumbers = [] := by simp [ignoreInstAddr, hexCls, Rx.capNumbers]
    split at hr
    · cases pure_ok.mp hr; simp [Rx.capNumbers, haddr, hbody]
    · cases pure_ok.mp hr; simp [Rx.capNumbers, haddr, hbody]
  | .and l t, h, r, hc => by
    simp only [srcI, Bool.and_eq_true] at h
    simp only [comp] at hc
    obtain ⟨cs, hcs, hr⟩ := bind_ok.mp hc
    cases pure_ok.mp hr
    rw [capNumbers_withTimes]
    simp only [Rx.capNumbers]
    exact capNumbers_seqAll cs (compList_forall fl caps (fun r => r.capNumbers = []) l cs hcs
      (fun q hq r hr => comp_capFree fl caps q (srcIL_mem h.1.2 q hq) r hr))
  | .or l t, h, r, hc => by
    simp only [srcI, Bool.and_eq_true] at h
    simp only [comp] at hc
    obtain ⟨cs, hcs, hr⟩ := bind_ok.mp hc
    cases pure_ok.mp hr
    rw [capNumbers_withTimes]
    simp only [Rx.capNumbers]
    exact capNumbers_orJoin cs (compList_forall fl caps (fun r => r.capNumbers = []) l cs hcs
      (fun q hq r hr => comp_capFree fl caps q (srcIL_mem h.1.2 q hq) r hr))
  | .anyOrder l t, h, r, hc => by
    simp only [srcI, Bool.and_eq_true] at h
    simp only [comp] at hc
    obtain ⟨cs, hcs, hr⟩ := bind_ok.mp hc
    cases pure_ok.mp hr
    have hall := compList_forall fl caps (fun r => r.capNumbers = []) l cs hcs
      (fun q hq r hr => comp_capFree fl caps q (srcIL_mem h.1.2 q hq) r hr)
    rw [capNumbers_withTimes]
    simp only [Rx.capNumbers]
    apply capNumbers_orJoin
    intro r' hr'
    obtain ⟨pm, hpm, rfl⟩ := List.mem_map.mp hr'
    simp only [Rx.capNumbers]
    exact capNumbers_seqAll pm (fun q hq => hall q (mem_perms_subset cs pm hpm q hq))
  | .not p op t, h, r, hc => by
    simp only [srcI, Bool.and_eq_true, Bool.not_eq_true'] at h
    obtain ⟨⟨hop, hp⟩, _⟩ := h
    subst hop
    simp only [comp] at hc
    obtain ⟨c, hcc, hr⟩ := bind_ok.mp hc
    cases pure_ok.mp hr
    have ih := comp_capFree fl caps p hp c hcc
    rw [capNumbers_withTimes]
    simp [Rx.capNumbers, ih, ignoreInstAddr, hexCls, skipToEndOfPatternNode, clsNotBar]
  | .operand _ _, h, _, _ => by simp [srcI] at h
  | .timesMarker, h, _, _ => by simp [srcI] at h
  | .deref _ _, h, _, _ => by simp [srcI] at h
  | .derefField _ _, h, _, _ => by simp [srcI] at h
  | .derefProp _ _, h, _, _ => by simp [srcI] at h
  | .capInstDef _, h, _, _ => by simp [srcI] at h
  | .capInstRef _, h, _, _ => by simp [srcI] at h
  | .capOpDef _, h, _, _ => by simp [srcI] at h
  | .capOpRef _, h, _, _ => by simp [srcI] at h
  | .capDerefDef _, h, _, _ => by simp [srcI] at h
  | .capDerefRef _, h, _, _ => by simp [srcI] at h
  | .regDef _, h, _, _ => by simp [srcI] at h
  | .regRef _, h, _, _ => by simp [srcI] at h
termination_by p => sizeOf p
decreasing_by
  all_goals simp_wf
  all_goals first
    | (have := List.sizeOf_lt_of_mem ‹_ ∈ _›; omega)
    | omega

/-! ## the rule document -/

theorem compileTree_src (fl : Flags) (l : List Pat) (hne : l.isEmpty = false) (h : srcIL l = true)
    (r : Rx) (hc : comp fl [] (.and l Times.one) = .ok r) :
    compileTree fl (topTree (.list (yIL l))) = .ok r := by
  have hs : srcI (.and l Times.one) = true := by simp [srcI, hne, h, okT, Times.one]
  simp only [compileTree]
  rw [typeTree_src l hne h]
  simp only [bind, Except.bind]
  rw [hc]
  simp only [pure, Except.pure]
  rw [renumber_capFree _ 1 (comp_capFree fl [] _ hs r hc)]

/-- the rule file `config: {…}` / `pattern: <pattern>` -/
def docOf (fl : Flags) (pattern : Y) : Y :=
  .dict [(.str "config".toList, cfgY fl), (.str "pattern".toList, pattern)]

theorem compileRule_docOf (fl : Flags) (pattern : Y) (r : Rx) (hc : compileTree fl (topTree pattern) = .ok r)
    (s : Config) : compileRule (docOf fl pattern) [] s = (cfgAfter fl s, .ok r) := by
  have hcfg : dictGet [(Y.str "config".toList, cfgY fl), (Y.str "pattern".toList, pattern)] "config" = some (cfgY fl) := by
    simp [dictGet, List.find?]
  have hpat : dictGet [(Y.str "config".toList, cfgY fl), (Y.str "pattern".toList, pattern)] "pattern" = some pattern := by
    simp [dictGet, List.find?]
  have hmac : dictGet [(Y.str "config".toList, cfgY fl), (Y.str "pattern".toList, pattern)] "macros" = none := by
    simp [dictGet, List.find?]
  have hflags : (cfgAfter fl s).flags = fl := by
    obtain ⟨m, o⟩ := fl; rfl
  simp only [compileRule, docOf, hcfg, hpat, hmac, Option.getD, loadConfig_cfgY]
  simp only [pure, Except.pure, bind, Except.bind, List.isEmpty_nil, Bool.and_self, if_true, Bool.not_true,
    Bool.or_self, Bool.false_eq_true, if_false, hflags]
  rw [hc]

end Jasm.FrontEnd

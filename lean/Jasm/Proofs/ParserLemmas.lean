import Jasm.Spec.Objdump
/-!
# Lemmas about the line parser on rendered lines (helper lemmas)
-/
namespace Jasm

theorem dropSpaces_blanks (n : Nat) (s : Str) (h : s.head? ≠ some ' ') : dropSpaces (blanks n ++ s) = s := by
  induction n with
  | zero =>
    simp only [blanks, List.replicate_zero, List.nil_append]
    cases s with
    | nil => rfl
    | cons c t =>
      have hc : c ≠ ' ' := by intro e; apply h; simp [e]
      rw [dropSpaces.eq_def]
      split
      · rename_i heq; simp at heq; exact absurd heq.1 hc
      · rfl
  | succ n ih =>
    simp only [blanks, List.replicate_succ, List.cons_append, dropSpaces] at ih ⊢
    exact ih

theorem spanP_all (p : Char → Bool) (a : Str) (h : ∀ c ∈ a, p c = true) : spanP p a = (a, []) := by
  induction a with
  | nil => rfl
  | cons x xs ih => simp [spanP, h x (by simp), ih (fun c hc => h c (by simp [hc]))]

theorem spanP_stop (p : Char → Bool) (a : Str) (c : Char) (s : Str) (h : ∀ x ∈ a, p x = true) (hc : p c = false) :
    spanP p (a ++ c :: s) = (a, c :: s) := by
  induction a with
  | nil => simp [spanP, hc]
  | cons x xs ih => simp [spanP, h x (by simp), ih (fun c hc => h c (by simp [hc]))]

/-- the byte column: pairs of hex digits, each followed by one blank -/
def HexPairs (bs : List (Char × Char)) : Prop := ∀ p ∈ bs, isHexChar p.1 = true ∧ isHexChar p.2 = true

instance (bs : List (Char × Char)) : Decidable (HexPairs bs) := by unfold HexPairs; infer_instance

theorem morePairs_bytes (bs : List (Char × Char)) (hbs : HexPairs bs) (c : Char) (R : Str)
    (hc : isHexChar c = false) (hR : R ≠ []) :
    morePairs (' ' :: (renderBytes bs ++ c :: R)) = ' ' :: c :: R := by
  induction bs with
  | nil =>
    simp only [renderBytes, List.flatMap_nil, List.nil_append]
    cases R with
    | nil => exact absurd rfl hR
    | cons r0 rs => simp [morePairs, hc]
  | cons p ps ih =>
    obtain ⟨a, b⟩ := p
    have ⟨ha, hb⟩ := hbs (a, b) (by simp)
    have e : renderBytes ((a, b) :: ps) ++ c :: R = a :: b :: ' ' :: (renderBytes ps ++ c :: R) := by
      simp [renderBytes]
    rw [e]
    simp only [morePairs, ha, hb, Bool.and_self, if_true]
    exact ih (fun q hq => hbs q (by simp [hq]))

theorem bytePairs_bytes (bs : List (Char × Char)) (hne : bs ≠ []) (hbs : HexPairs bs) (c : Char) (R : Str)
    (hc : isHexChar c = false) (hR : R ≠ []) :
    bytePairs (renderBytes bs ++ c :: R) = some (' ' :: c :: R) := by
  cases bs with
  | nil => exact absurd rfl hne
  | cons p ps =>
    obtain ⟨a, b⟩ := p
    have ⟨ha, hb⟩ := hbs (a, b) (by simp)
    have e : renderBytes ((a, b) :: ps) ++ c :: R = a :: b :: ' ' :: (renderBytes ps ++ c :: R) := by
      simp [renderBytes]
    rw [e]
    simp only [bytePairs, ha, hb, Bool.and_self, if_true]
    rw [morePairs_bytes ps (fun q hq => hbs q (by simp [hq])) c R hc hR]

/-- the byte column followed by `pad` blanks and the tab -/
theorem bytePairs_column (bs : List (Char × Char)) (hne : bs ≠ []) (hbs : HexPairs bs) (pad : Nat) (X : Str) (hX : X ≠ []) :
    bytePairs (renderBytes bs ++ blanks pad ++ '\t' :: X) = some (' ' :: (blanks pad ++ '\t' :: X)) := by
  cases pad with
  | zero =>
    simp only [blanks, List.replicate_zero, List.append_nil, List.nil_append]
    exact bytePairs_bytes bs hne hbs '\t' X (by decide) hX
  | succ n =>
    have e : renderBytes bs ++ blanks (n + 1) ++ '\t' :: X = renderBytes bs ++ ' ' :: (blanks n ++ '\t' :: X) := by
      simp [blanks, List.replicate_succ]
    have e2 : blanks (n + 1) ++ '\t' :: X = ' ' :: (blanks n ++ '\t' :: X) := by simp [blanks, List.replicate_succ]
    rw [e, e2]
    exact bytePairs_bytes bs hne hbs ' ' _ (by decide) (by simp)

/-- a continuation line: the byte column runs to the end of the line -/
theorem bytePairs_to_end (bs : List (Char × Char)) (hne : bs ≠ []) (hbs : HexPairs bs) :
    bytePairs (renderBytes bs) = some [' '] := by
  induction bs with
  | nil => exact absurd rfl hne
  | cons p ps ih =>
    obtain ⟨a, b⟩ := p
    have ⟨ha, hb⟩ := hbs (a, b) (by simp)
    have e : renderBytes ((a, b) :: ps) = a :: b :: ' ' :: renderBytes ps := by simp [renderBytes]
    rw [e]
    simp only [bytePairs, ha, hb, Bool.and_self, if_true]
    cases ps with
    | nil => simp [renderBytes, morePairs]
    | cons q qs =>
      obtain ⟨a2, b2⟩ := q
      have ⟨ha2, hb2⟩ := hbs (a2, b2) (by simp)
      have ih' := ih (by simp) (fun r hr => hbs r (by simp [hr]))
      have e2 : renderBytes ((a2, b2) :: qs) = a2 :: b2 :: ' ' :: renderBytes qs := by simp [renderBytes]
      rw [e2] at ih' ⊢
      simp only [bytePairs, ha2, hb2, Bool.and_self, if_true] at ih'
      simp only [morePairs, ha2, hb2, Bool.and_self, if_true]
      exact ih'

end Jasm

import Jasm.Proofs.Sem
/-!
# Fragment lemmas: what the constant pieces of every compiled rule do on the stream (helper lemmas)
-/
namespace Jasm

def CleanStr (f : Str) : Prop := ∀ c ∈ f, c ≠ ',' ∧ c ≠ '|'

/-- comma-terminated fields -/
def fieldsText (fs : List Str) : Str := fs.flatMap (· ++ [','])

/-- operand-level state: the fields still ahead, then the record terminator, then the rest of the stream -/
def txtO (T : Str) (w : List Str) : Str := fieldsText w ++ '|' :: T

def OkO (w : List Str) : Prop := (∀ f ∈ w, CleanStr f) ∧ (fieldsText w).length ≤ 1000

theorem fieldsText_cons (f : Str) (fs : List Str) : fieldsText (f :: fs) = f ++ ',' :: fieldsText fs := by
  simp [fieldsText]

theorem txtO_cons (T : Str) (f : Str) (fs : List Str) : txtO T (f :: fs) = f ++ ',' :: txtO T fs := by
  simp [txtO, fieldsText_cons]

theorem txtO_nil (T : Str) : txtO T [] = '|' :: T := by simp [txtO, fieldsText]

theorem fieldsText_drop_le (w : List Str) (k : Nat) : (fieldsText (w.drop k)).length ≤ (fieldsText w).length := by
  induction w generalizing k with
  | nil => simp
  | cons f fs ih =>
    cases k with
    | zero => simp
    | succ k =>
      have := ih k
      simp only [List.drop_succ_cons, fieldsText_cons, List.length_append, List.length_cons]
      omega

theorem okO_drop : DropClosed OkO := by
  intro w k ⟨h1, h2⟩
  exact ⟨fun f hf => h1 f (List.mem_of_mem_drop hf), Nat.le_trans (fieldsText_drop_le w k) h2⟩

theorem posStrict_txtO (T : Str) : PosStrict (txtO T) :=
  posStrict_of_cons _ (fun a w => by simp only [txtO_cons, List.length_append, List.length_cons]; omega)

theorem inCls_notCommaBar (c : Char) : inCls true [.ch ',', .ch '|'] c = true ↔ c ≠ ',' ∧ c ≠ '|' := by
  simp [inCls, CI.matches]

theorem inCls_notBar (c : Char) : inCls true [.ch '|'] c = true ↔ c ≠ '|' := by
  simp [inCls, CI.matches]

theorem isInfix_iff (p s : Str) : isInfix p s = true ↔ ∃ a b, s = a ++ p ++ b := by
  induction s with
  | nil =>
    simp only [isInfix, List.isEmpty_iff]
    constructor
    · rintro rfl; exact ⟨[], [], rfl⟩
    · rintro ⟨a, b, h⟩
      have := congrArg List.length h
      simp at this
      exact List.eq_nil_of_length_eq_zero (by omega)
  | cons c t ih =>
    simp only [isInfix, Bool.or_eq_true, ih]
    constructor
    · rintro (h | ⟨a, b, rfl⟩)
      · obtain ⟨b, hb⟩ := List.isPrefixOf_iff_prefix.mp h
        exact ⟨[], b, by simp [hb]⟩
      · exact ⟨c :: a, b, by simp⟩
    · rintro ⟨a, b, h⟩
      cases a with
      | nil => left; exact List.isPrefixOf_iff_prefix.mpr ⟨b, by simpa using h.symm⟩
      | cons a0 as =>
        right
        simp only [List.cons_append, List.cons.injEq] at h
        exact ⟨as, b, h.2⟩

/-- a class run over `f ++ sep :: r`, where `sep` is outside the class, stays inside `f` -/
theorem take_le_of_cls {neg : Bool} {items : List CI} (f r : Str) (sep : Char) (k : Nat)
    (hsep : inCls neg items sep = false)
    (hall : ∀ c ∈ (f ++ sep :: r).take k, inCls neg items c = true) : k ≤ f.length := by
  induction f generalizing k with
  | nil =>
    cases k with
    | zero => simp
    | succ k => have := hall sep (by simp); simp [hsep] at this
  | cons a t ih =>
    cases k with
    | zero => simp
    | succ k =>
      have := ih k (fun c hc => hall c (by simp [hc]))
      simp; omega

theorem drop_app_le (f g : Str) (k : Nat) (h : k ≤ f.length) : (f ++ g).drop k = f.drop k ++ g := by
  rw [List.drop_append]; simp [Nat.sub_eq_zero_of_le h]

theorem take_app_le (f g : Str) (k : Nat) (h : k ≤ f.length) : (f ++ g).take k = f.take k := by
  rw [List.take_append]; simp [Nat.sub_eq_zero_of_le h]

/-- `[cls]{0,n}` followed by the separator `sep` (outside the class), on `f ++ sep :: r` with every
character of `f` in the class and `|f| ≤ n`: exactly one success, the rest being `r` -/
theorem run_to_sep {neg : Bool} {items : List CI} (n : Nat) (sepRx : Rx) (sep : Char) (f r : Str) (e : Env) (x : Env × Str)
    (hsepRx : ∀ e s x, x ∈ sepRx.run e s ↔ ∃ s', s = sep :: s' ∧ x = (e, s'))
    (hsep : inCls neg items sep = false) (hf : ∀ c ∈ f, inCls neg items c = true) (hlen : f.length ≤ n) :
    x ∈ (Rx.seq (.rep (.cls neg items) 0 n) sepRx).run e (f ++ sep :: r) ↔ x = (e, r) := by
  rw [mem_seq]
  constructor
  · rintro ⟨y, hy, hx⟩
    obtain ⟨k, -, -, -, hall, rfl⟩ := (mem_iter_cls _ _ _ _ _ _ _).mp (mem_rep.mp hy)
    obtain ⟨s', hs', rfl⟩ := (hsepRx _ _ _).mp hx
    have hk : k ≤ f.length := take_le_of_cls f r sep k hsep hall
    rw [drop_app_le f _ k hk] at hs'
    cases hd : f.drop k with
    | nil => rw [hd] at hs'; simp at hs'; rw [hs']
    | cons a t =>
      rw [hd] at hs'; simp at hs'
      have : a ∈ f := List.mem_of_mem_drop (by rw [hd]; simp)
      have := hf a this
      rw [hs'.1, hsep] at this
      cases this
  · rintro rfl
    refine ⟨(e, sep :: r), mem_rep.mpr ((mem_iter_cls _ _ _ _ _ _ _).mpr ⟨f.length, by omega, hlen, by simp, ?_, by simp⟩), (hsepRx _ _ _).mpr ⟨r, rfl, rfl⟩⟩
    intro c hc
    rw [take_app_le f _ _ (Nat.le_refl _)] at hc
    simp at hc
    exact hf c hc

theorem mem_chr_iff (c : Char) : ∀ (e : Env) (s : Str) (x : Env × Str), x ∈ (Rx.chr c).run e s ↔ ∃ s', s = c :: s' ∧ x = (e, s') :=
  fun _ _ _ => mem_chr

theorem mem_esc_iff (c : Char) : ∀ (e : Env) (s : Str) (x : Env × Str), x ∈ (Rx.esc c).run e s ↔ ∃ s', s = c :: s' ∧ x = (e, s') :=
  fun _ _ _ => mem_esc

/-- `SKIP_TO_END_OF_OPERAND` consumes exactly one field -/
theorem skip_operand (T : Str) (e : Env) (w : List Str) (x : Env × Str) (hw : OkO w) :
    x ∈ skipToEndOfOperand.run e (txtO T w) ↔ w ≠ [] ∧ x = (e, txtO T (w.drop 1)) := by
  cases w with
  | nil =>
    simp only [txtO_nil, ne_eq, not_true_eq_false, false_and, iff_false]
    unfold skipToEndOfOperand
    rw [mem_seq]
    rintro ⟨y, hy, hx⟩
    obtain ⟨k, -, -, hk, hall, rfl⟩ := (mem_iter_cls _ _ _ _ _ _ _).mp (mem_rep.mp hy)
    obtain ⟨s', hs', -⟩ := mem_chr.mp hx
    cases k with
    | zero => simp at hs'
    | succ k =>
      have := hall '|' (by simp)
      simp [inCls, CI.matches] at this
  | cons f fs =>
    have hf : CleanStr f := hw.1 f (by simp)
    have hlen : f.length ≤ 1000 := by
      have := hw.2; simp only [fieldsText_cons, List.length_append, List.length_cons] at this; omega
    rw [txtO_cons]
    unfold skipToEndOfOperand clsNotCommaBar
    rw [run_to_sep 1000 (.chr ',') ',' f _ e x (mem_chr_iff ',') (by simp [inCls, CI.matches])
      (fun c hc => (inCls_notCommaBar c).mpr (hf c hc)) hlen]
    simp

/-- `SKIP_TO_END_OF_PATTERN_NODE` consumes whatever is left of the record, terminator included -/
theorem skip_to_end (T : Str) (e : Env) (w : List Str) (x : Env × Str) (hw : OkO w) :
    x ∈ skipToEndOfPatternNode.run e (txtO T w) ↔ x = (e, T) := by
  unfold skipToEndOfPatternNode clsNotBar txtO
  apply run_to_sep 1000 (.esc '|') '|' (fieldsText w) T e x (mem_esc_iff '|') (by simp [inCls, CI.matches]) _ hw.2
  intro c hc
  rw [inCls_notBar]
  simp only [fieldsText, List.mem_flatMap, List.mem_append, List.mem_singleton] at hc
  obtain ⟨f, hf, hc | rfl⟩ := hc
  · exact (hw.1 f hf c hc).2
  · decide

end Jasm

namespace Jasm

/-- a comma-free `name` that is a prefix of `g ++ ',' :: R` lies inside `g` -/
theorem prefix_inside (name g R s2 : Str) (hname : ∀ c ∈ name, c ≠ ',')
    (h : g ++ ',' :: R = name ++ s2) : ∃ q, g = name ++ q ∧ s2 = q ++ ',' :: R := by
  induction name generalizing g with
  | nil => exact ⟨g, by simp, by simpa using h.symm⟩
  | cons c cs ih =>
    cases g with
    | nil =>
      simp at h
      exact absurd h.1.symm (hname c (by simp))
    | cons a g' =>
      simp at h
      obtain ⟨rfl, h2⟩ := h
      obtain ⟨q, hq1, hq2⟩ := ih g' (fun c hc => hname c (by simp [hc])) h2
      exact ⟨q, by simp [hq1], hq2⟩

/-- the partial-match name window on one field -/
theorem name_window_partial (name f R : Str) (e : Env) (x : Env × Str)
    (hf : CleanStr f) (hlen : f.length ≤ 1000) (hname : CleanStr name) :
    x ∈ (nameWindow false name).run e (f ++ ',' :: R) ↔ (x = (e, R) ∧ isInfix name f = true) := by
  unfold nameWindow ignoreNamePrefix ignoreNameSuffix clsNotCommaBar
  simp only [Bool.false_eq_true, if_false]
  rw [mem_seq, isInfix_iff]
  have hsepc : inCls true [.ch ',', .ch '|'] ',' = false := by simp [inCls, CI.matches]
  constructor
  · rintro ⟨y1, hy1, hx⟩
    obtain ⟨k1, -, -, -, hall1, rfl⟩ := (mem_iter_cls _ _ _ _ _ _ _).mp (mem_rep.mp hy1)
    have hk1 : k1 ≤ f.length := take_le_of_cls f R ',' k1 hsepc hall1
    rw [mem_seq] at hx
    obtain ⟨y2, hy2, hx⟩ := hx
    obtain ⟨s2, hs2, rfl⟩ := mem_lit.mp hy2
    simp only at hs2 hx
    rw [drop_app_le f _ k1 hk1] at hs2
    obtain ⟨q, hq1, rfl⟩ := prefix_inside name (f.drop k1) R s2 (fun c hc => (hname c hc).1) hs2
    have hqf : ∀ c ∈ q, c ∈ f := by
      intro c hc
      have : c ∈ f.drop k1 := by rw [hq1]; simp [hc]
      exact List.mem_of_mem_drop this
    have hqlen : q.length ≤ 1000 := by
      have := congrArg List.length hq1
      simp at this; omega
    have := (run_to_sep 1000 (.chr ',') ',' q R e x (mem_chr_iff ',') hsepc
      (fun c hc => (inCls_notCommaBar c).mpr (hf c (hqf c hc))) hqlen).mp hx
    refine ⟨this, f.take k1, q, ?_⟩
    rw [List.append_assoc, ← hq1, List.take_append_drop]
  · rintro ⟨rfl, p, q, rfl⟩
    have hp : CleanStr p := fun c hc => hf c (by simp [hc])
    have hq : CleanStr q := fun c hc => hf c (by simp [hc])
    simp at hlen
    refine ⟨(e, name ++ q ++ ',' :: R), mem_rep.mpr ((mem_iter_cls _ _ _ _ _ _ _).mpr
      ⟨p.length, by omega, by omega, by simp, ?_, by simp⟩), ?_⟩
    · intro c hc
      simp [List.take_append] at hc
      exact (inCls_notCommaBar c).mpr (hp c hc)
    rw [mem_seq]
    refine ⟨(e, q ++ ',' :: R), mem_lit.mpr ⟨_, by simp, rfl⟩, ?_⟩
    exact (run_to_sep 1000 (.chr ',') ',' q R e _ (mem_chr_iff ',') hsepc
      (fun c hc => (inCls_notCommaBar c).mpr (hq c hc)) (by omega)).mpr rfl

/-- the full-match name window on one field -/
theorem name_window_full (name f R : Str) (e : Env) (x : Env × Str)
    (hf : CleanStr f) (hname : CleanStr name) :
    x ∈ (nameWindow true name).run e (f ++ ',' :: R) ↔ (x = (e, R) ∧ name = f) := by
  unfold nameWindow
  simp only [if_true]
  rw [mem_seq]
  constructor
  · rintro ⟨y, hy, hx⟩
    obtain ⟨s2, hs2, rfl⟩ := mem_lit.mp hy
    obtain ⟨q, hq1, rfl⟩ := prefix_inside name f R s2 (fun c hc => (hname c hc).1) hs2
    obtain ⟨s', hs', rfl⟩ := mem_chr.mp hx
    cases q with
    | nil => simp at hs'; subst hs'; exact ⟨rfl, by simp [hq1]⟩
    | cons a t =>
      simp at hs'
      have : a ∈ f := by rw [hq1]; simp
      exact absurd hs'.1 (hf a this).1
  · rintro ⟨rfl, rfl⟩
    exact ⟨(e, ',' :: R), mem_lit.mpr ⟨_, rfl, rfl⟩, mem_chr.mpr ⟨R, rfl, rfl⟩⟩

/-- no name window succeeds when no field is left -/
theorem name_window_at_end (full : Bool) (name T : Str) (e : Env) (hname : CleanStr name) :
    (nameWindow full name).run e ('|' :: T) = [] := by
  apply List.eq_nil_iff_forall_not_mem.mpr
  intro x hx
  unfold nameWindow at hx
  cases full with
  | true =>
    simp only [if_true] at hx
    rw [mem_seq] at hx
    obtain ⟨y, hy, hx⟩ := hx
    obtain ⟨s2, hs2, rfl⟩ := mem_lit.mp hy
    cases name with
    | nil =>
      simp at hs2; subst hs2
      obtain ⟨_, h, _⟩ := mem_chr.mp hx
      simp at h
    | cons c cs =>
      simp at hs2
      exact (hname c (by simp)).2 hs2.1.symm
  | false =>
    simp only [Bool.false_eq_true, if_false] at hx
    unfold ignoreNamePrefix ignoreNameSuffix clsNotCommaBar at hx
    rw [mem_seq] at hx
    obtain ⟨y1, hy1, hx⟩ := hx
    obtain ⟨k1, -, -, hk1, hall1, rfl⟩ := (mem_iter_cls _ _ _ _ _ _ _).mp (mem_rep.mp hy1)
    have hk0 : k1 = 0 := by
      cases k1 with
      | zero => rfl
      | succ k =>
        have := hall1 '|' (by simp)
        simp [inCls, CI.matches] at this
    subst hk0
    rw [mem_seq] at hx
    obtain ⟨y2, hy2, hx⟩ := hx
    obtain ⟨s2, hs2, rfl⟩ := mem_lit.mp hy2
    simp only [List.drop_zero] at hs2
    cases name with
    | nil =>
      simp at hs2; subst hs2
      rw [mem_seq] at hx
      obtain ⟨y3, hy3, hx⟩ := hx
      obtain ⟨k3, -, -, hk3, hall3, rfl⟩ := (mem_iter_cls _ _ _ _ _ _ _).mp (mem_rep.mp hy3)
      have hk0 : k3 = 0 := by
        cases k3 with
        | zero => rfl
        | succ k =>
          have := hall3 '|' (by simp)
          simp [inCls, CI.matches] at this
      subst hk0
      obtain ⟨_, h, _⟩ := mem_chr.mp hx
      simp at h
    | cons c cs =>
      simp at hs2
      exact (hname c (by simp)).2 hs2.1.symm

/-- an operand name consumes exactly one field, iff the name relates to it -/
theorem sem_operand (T : Str) (full : Bool) (name : Str) (hname : CleanStr name) :
    Sem (txtO T) OkO (nameWindow full name)
      (fun σ w => match w with
        | f :: _ => if rel full name f then [(1, σ)] else []
        | [] => []) := by
  constructor
  · intro σ e w x hw
    cases w with
    | nil =>
      rw [txtO_nil, name_window_at_end full name T e hname]
      simp
    | cons f fs =>
      have hf : CleanStr f := hw.1 f (by simp)
      have hlen : f.length ≤ 1000 := by
        have := hw.2; simp only [fieldsText_cons, List.length_append, List.length_cons] at this; omega
      rw [txtO_cons]
      cases full with
      | true =>
        rw [name_window_full name f _ e x hf hname]
        simp only [rel, if_true]
        constructor
        · rintro ⟨rfl, rfl⟩; exact ⟨1, by simp, by simp⟩
        · rintro ⟨k, hk, rfl⟩
          split at hk
          · rename_i h
            simp at hk; subst hk
            exact ⟨by simp, by simpa using h⟩
          · cases hk
      | false =>
        rw [name_window_partial name f _ e x hf hlen hname]
        simp only [rel, Bool.false_eq_true, if_false]
        constructor
        · rintro ⟨rfl, h⟩; exact ⟨1, by simp [h], by simp⟩
        · rintro ⟨k, hk, rfl⟩
          split at hk
          · rename_i h
            simp at hk; subst hk
            exact ⟨by simp, h⟩
          · cases hk
  · intro σ w p hp
    cases w with
    | nil => cases hp
    | cons f fs =>
      simp only at hp
      split at hp
      · simp at hp; simp [hp]
      · cases hp

def hexItems : List CI := [.digit, .ch 'a', .ch 'b', .ch 'c', .ch 'e', .ch 'd', .ch 'f']

/-- lower-case hexadecimal address -/
def HexStr (a : Str) : Prop := ∀ c ∈ a, inCls false hexItems c = true

/-- `IGNORE_INST_ADDR` consumes exactly `address::` -/
theorem addr_skip (a R : Str) (e : Env) (x : Env × Str) (ha : a ≠ []) (hhex : HexStr a) :
    x ∈ ignoreInstAddr.run e (a ++ ':' :: ':' :: R) ↔ x = (e, R) := by
  unfold ignoreInstAddr hexCls
  rw [mem_seq]
  have hsep : inCls false hexItems ':' = false := by decide
  constructor
  · rintro ⟨y, hy, hx⟩
    obtain ⟨k, -, -, hall, rfl⟩ := (mem_plus_cls _ _ _ _ _).mp hy
    have hk : k ≤ a.length := take_le_of_cls a (':' :: R) ':' k hsep hall
    rw [mem_seq] at hx
    obtain ⟨y2, hy2, hx⟩ := hx
    obtain ⟨s2, hs2, rfl⟩ := mem_chr.mp hy2
    obtain ⟨s3, hs3, rfl⟩ := mem_chr.mp hx
    simp only at hs2 hs3
    rw [drop_app_le a _ k hk] at hs2
    cases hd : a.drop k with
    | nil => rw [hd] at hs2; simp at hs2; subst hs2; simp at hs3; rw [hs3]
    | cons c t =>
      rw [hd] at hs2; simp at hs2
      have : c ∈ a := List.mem_of_mem_drop (by rw [hd]; simp)
      have := hhex c this
      rw [hs2.1, hsep] at this
      cases this
  · rintro rfl
    refine ⟨(e, ':' :: ':' :: R), (mem_plus_cls _ _ _ _ _).mpr ⟨a.length, ?_, by simp, ?_, by simp⟩, ?_⟩
    · cases a with
      | nil => exact absurd rfl ha
      | cons _ _ => simp
    · intro c hc
      rw [take_app_le a _ _ (Nat.le_refl _)] at hc
      simp at hc
      exact hhex c hc
    · rw [mem_seq]
      exact ⟨(e, ':' :: R), mem_chr.mpr ⟨_, rfl, rfl⟩, mem_chr.mpr ⟨_, rfl, rfl⟩⟩

theorem addr_skip_nil (e : Env) : ignoreInstAddr.run e [] = [] := by
  apply List.eq_nil_iff_forall_not_mem.mpr
  intro x hx
  unfold ignoreInstAddr hexCls at hx
  rw [mem_seq] at hx
  obtain ⟨y, hy, _⟩ := hx
  obtain ⟨k, h1, h2, _⟩ := (mem_plus_cls _ _ _ _ _).mp hy
  simp at h2; omega

end Jasm

import Jasm.Proofs.Master
/-!
# Capture groups and back-references on the stream (helper lemmas for C05)
-/
namespace Jasm

theorem mem_cap {n : Nat} {r : Rx} {e s} {x : Env × Str} :
    x ∈ (Rx.cap n r).run e s ↔ ∃ y ∈ r.run e s, x = ((n, s.take (s.length - y.2.length)) :: y.1, y.2) := by
  simp only [Rx.run, List.mem_map]
  constructor
  · rintro ⟨y, hy, rfl⟩; exact ⟨y, hy, rfl⟩
  · rintro ⟨y, hy, rfl⟩; exact ⟨y, hy, rfl⟩

theorem mem_bref {n : Nat} {e s} {x : Env × Str} :
    x ∈ (Rx.bref n).run e s ↔ ∃ t s', e.lookup n = some t ∧ s = t ++ s' ∧ x = (e, s') := by
  simp only [Rx.run]
  cases hl : e.lookup n with
  | none => simp
  | some t =>
    simp only
    cases hs : stripPrefix t s with
    | none =>
      simp only [List.not_mem_nil, false_iff]
      rintro ⟨t', s', ht, hst, _⟩
      cases ht
      subst hst
      have : ∀ (p q : Str), stripPrefix p (p ++ q) = some q := by
        intro p q
        induction p with
        | nil => simp [stripPrefix]
        | cons c cs ih => simp [stripPrefix, ih]
      rw [this] at hs; cases hs
    | some s' =>
      have := stripPrefix_suffix' t s s' hs
      simp only [List.mem_singleton]
      constructor
      · rintro rfl; exact ⟨t, s', rfl, this, rfl⟩
      · rintro ⟨t', s'', ht, hst, rfl⟩
        cases ht
        rw [this] at hst
        have := List.append_cancel_left hst
        rw [this]
where
  stripPrefix_suffix' (p s s' : Str) (h : stripPrefix p s = some s') : s = p ++ s' := by
    induction p generalizing s with
    | nil => simp [stripPrefix] at h; simp [h]
    | cons a t ih =>
      cases s with
      | nil => simp [stripPrefix] at h
      | cons c cs =>
        simp only [stripPrefix] at h
        split at h
        · rename_i hac; subst hac; simp [ih cs h]
        · cases h

/-- `([^|]+),\\|` on `b,|R` with `b` non-empty and free of `|`: binds exactly `b` -/
theorem cap_to_comma_bar (n : Nat) (b R : Str) (e : Env) (x : Env × Str)
    (hb : ∀ c ∈ b, c ≠ '|') (hne : b ≠ []) :
    x ∈ (seqAll [.cap n (.plus clsNotBar), .chr ',', .esc '|']).run e (b ++ ',' :: '|' :: R) ↔
      x = ((n, b) :: e, R) := by
  unfold clsNotBar
  rw [mem_seqAll_cons]
  constructor
  · rintro ⟨y, hy, hx⟩
    obtain ⟨z, hz, rfl⟩ := mem_cap.mp hy
    obtain ⟨k, hk1, hk2, hall, rfl⟩ := (mem_plus_cls _ _ _ _ _).mp hz
    rw [mem_seqAll_cons] at hx
    obtain ⟨y2, hy2, hx⟩ := hx
    obtain ⟨s2, hs2, rfl⟩ := mem_chr.mp hy2
    rw [mem_seqAll_cons] at hx
    obtain ⟨y3, hy3, hx⟩ := hx
    obtain ⟨s3, hs3, rfl⟩ := mem_esc.mp hy3
    rw [mem_seqAll_nil] at hx
    subst hx
    simp only at hs2 hs3
    -- k cannot exceed |b| + 1 (the `|` is outside the class), and the next two characters are `,|`
    have hkb : k = b.length := by
      have h1 : k ≤ b.length + 1 := by
        have e1 : b ++ ',' :: '|' :: R = (b ++ [',']) ++ '|' :: R := by simp
        have hall' : ∀ c ∈ ((b ++ [',']) ++ '|' :: R).take k, inCls true [CI.ch '|'] c = true := by
          rw [← e1]; exact hall
        have : k ≤ (b ++ [',']).length :=
          take_le_of_cls (b ++ [',']) R '|' k (by simp [inCls, CI.matches]) hall'
        simpa using this
      by_cases hlt : k < b.length
      · exfalso
        have hd : (b ++ ',' :: '|' :: R).drop k = b.drop k ++ ',' :: '|' :: R := drop_app_le b _ k (by omega)
        rw [hd] at hs2
        cases hbd : b.drop k with
        | nil =>
          have := congrArg List.length hbd
          simp at this; omega
        | cons c1 t1 =>
          rw [hbd] at hs2
          simp only [List.cons_append, List.cons.injEq] at hs2
          obtain ⟨rfl, hs2'⟩ := hs2
          rw [← hs2'] at hs3
          cases t1 with
          | nil =>
            simp at hs3
          | cons c2 t2 =>
            simp only [List.cons_append, List.cons.injEq] at hs3
            have : c2 ∈ b := List.mem_of_mem_drop (by rw [hbd]; simp)
            exact hb c2 this hs3.1
      · by_cases heq : k = b.length
        · exact heq
        · exfalso
          have hk' : k = b.length + 1 := by omega
          have hd : (b ++ ',' :: '|' :: R).drop k = '|' :: R := by
            rw [hk']
            have : b ++ ',' :: '|' :: R = (b ++ [',']) ++ '|' :: R := by simp
            rw [this]
            have hl : (b ++ [',']).length = b.length + 1 := by simp
            rw [← hl, List.drop_left]
          rw [hd] at hs2
          simp at hs2
    subst hkb
    have hd : (b ++ ',' :: '|' :: R).drop b.length = ',' :: '|' :: R := List.drop_left
    rw [hd] at hs2
    simp only [List.cons.injEq, true_and] at hs2
    subst hs2
    simp only [List.cons.injEq, true_and] at hs3
    subst hs3
    simp only [List.length_drop, List.length_append, List.length_cons]
    have : b.length + (R.length + 1 + 1) - (b.length + (R.length + 1 + 1) - b.length) = b.length := by omega
    rw [this, List.take_left]
  · rintro rfl
    have hd : (b ++ ',' :: '|' :: R).drop b.length = ',' :: '|' :: R := List.drop_left
    refine ⟨((n, b) :: e, ',' :: '|' :: R), mem_cap.mpr ⟨(e, ',' :: '|' :: R), ?_, ?_⟩, ?_⟩
    · apply (mem_plus_cls _ _ _ _ _).mpr
      refine ⟨b.length, ?_, by simp, ?_, by rw [hd]⟩
      · cases b with
        | nil => exact absurd rfl hne
        | cons _ _ => simp
      · intro c hc
        rw [List.take_left] at hc
        simp [inCls, CI.matches, hb c hc]
    · simp only [List.length_append, List.length_cons]
      have : b.length + (R.length + 1 + 1) - (R.length + 1 + 1) = b.length := by omega
      rw [this, List.take_left]
    · rw [mem_seqAll_cons]
      refine ⟨((n, b) :: e, '|' :: R), mem_chr.mpr ⟨_, rfl, rfl⟩, ?_⟩
      rw [mem_seqAll_cons]
      exact ⟨((n, b) :: e, R), mem_esc.mpr ⟨_, rfl, rfl⟩, by rw [mem_seqAll_nil]⟩

end Jasm

namespace Jasm

/-- `\\N,\\|` on `b,|R`: succeeds iff group `N` holds exactly `b` (bound texts never contain `|`) -/
theorem bref_to_comma_bar (n : Nat) (b R : Str) (e : Env) (x : Env × Str)
    (hb : ∀ c ∈ b, c ≠ '|') (he : ∀ t, e.lookup n = some t → ∀ c ∈ t, c ≠ '|') :
    x ∈ (seqAll [.bref n, .chr ',', .esc '|']).run e (b ++ ',' :: '|' :: R) ↔
      (e.lookup n = some b ∧ x = (e, R)) := by
  rw [mem_seqAll_cons]
  constructor
  · rintro ⟨y, hy, hx⟩
    obtain ⟨t, s1, hl, hs1, rfl⟩ := mem_bref.mp hy
    rw [mem_seqAll_cons] at hx
    obtain ⟨y2, hy2, hx⟩ := hx
    obtain ⟨s2, hs2, rfl⟩ := mem_chr.mp hy2
    rw [mem_seqAll_cons] at hx
    obtain ⟨y3, hy3, hx⟩ := hx
    obtain ⟨s3, hs3, rfl⟩ := mem_esc.mp hy3
    rw [mem_seqAll_nil] at hx
    subst hx
    simp only at hs2 hs3
    subst hs2; subst hs3
    -- t ++ ",|" ++ s3 = b ++ ",|" ++ R with neither t nor b containing `|`
    have ht := he t hl
    have key : ∀ (t b : Str), (∀ c ∈ t, c ≠ '|') → (∀ c ∈ b, c ≠ '|') →
        b ++ ',' :: '|' :: R = t ++ ',' :: '|' :: s3 → t = b ∧ s3 = R := by
      intro t
      induction t with
      | nil =>
        intro b _ hb h
        cases b with
        | nil => simp at h; exact ⟨rfl, h.symm⟩
        | cons c1 b1 =>
          simp only [List.cons_append, List.nil_append, List.cons.injEq] at h
          obtain ⟨rfl, h2⟩ := h
          cases b1 with
          | nil => simp at h2
          | cons c2 b2 =>
            simp only [List.cons_append, List.cons.injEq] at h2
            exact absurd h2.1 (hb c2 (by simp))
      | cons c t' ih =>
        intro b ht hb h
        cases b with
        | nil =>
          simp only [List.nil_append, List.cons_append, List.cons.injEq] at h
          obtain ⟨rfl, h2⟩ := h
          cases t' with
          | nil => simp at h2
          | cons c2 t2 =>
            simp only [List.cons_append, List.cons.injEq] at h2
            exact absurd h2.1.symm (ht c2 (by simp))
        | cons c1 b1 =>
          simp only [List.cons_append, List.cons.injEq] at h
          obtain ⟨rfl, h2⟩ := h
          obtain ⟨h3, h4⟩ := ih b1 (fun c hc => ht c (by simp [hc])) (fun c hc => hb c (by simp [hc])) h2
          exact ⟨by rw [h3], h4⟩
    obtain ⟨rfl, rfl⟩ := key t b ht hb hs1
    exact ⟨hl, rfl⟩
  · rintro ⟨hl, rfl⟩
    refine ⟨(e, ',' :: '|' :: R), mem_bref.mpr ⟨b, _, hl, rfl, rfl⟩, ?_⟩
    rw [mem_seqAll_cons]
    refine ⟨(e, '|' :: R), mem_chr.mpr ⟨_, rfl, rfl⟩, ?_⟩
    rw [mem_seqAll_cons]
    exact ⟨(e, R), mem_esc.mpr ⟨_, rfl, rfl⟩, by rw [mem_seqAll_nil]⟩

/-- `([^,|]+),` on one field: binds exactly the (non-empty) field -/
theorem cap_to_comma (n : Nat) (f R : Str) (e : Env) (x : Env × Str) (hf : CleanStr f) :
    x ∈ (Rx.seq (.cap n (.plus clsNotCommaBar)) (.chr ',')).run e (f ++ ',' :: R) ↔
      (f ≠ [] ∧ x = ((n, f) :: e, R)) := by
  unfold clsNotCommaBar
  rw [mem_seq]
  have hsep : inCls true [CI.ch ',', CI.ch '|'] ',' = false := by simp [inCls, CI.matches]
  constructor
  · rintro ⟨y, hy, hx⟩
    obtain ⟨z, hz, rfl⟩ := mem_cap.mp hy
    obtain ⟨k, hk1, hk2, hall, rfl⟩ := (mem_plus_cls _ _ _ _ _).mp hz
    obtain ⟨s2, hs2, rfl⟩ := mem_chr.mp hx
    simp only at hs2
    have hk : k ≤ f.length := take_le_of_cls f R ',' k hsep hall
    rw [drop_app_le f _ k hk] at hs2
    have hkf : k = f.length := by
      cases hd : f.drop k with
      | nil =>
        have := congrArg List.length hd
        simp at this; omega
      | cons c t =>
        rw [hd] at hs2
        simp only [List.cons_append, List.cons.injEq] at hs2
        have : c ∈ f := List.mem_of_mem_drop (by rw [hd]; simp)
        exact absurd hs2.1 (hf c this).1
    subst hkf
    simp only [List.drop_length, List.nil_append, List.cons.injEq, true_and] at hs2
    subst hs2
    refine ⟨?_, ?_⟩
    · intro e0; rw [e0] at hk1; simp at hk1
    · simp only [List.length_drop, List.length_append, List.length_cons]
      have : f.length + (R.length + 1) - (f.length + (R.length + 1) - f.length) = f.length := by omega
      rw [this, List.take_left]
  · rintro ⟨hne, rfl⟩
    have hd : (f ++ ',' :: R).drop f.length = ',' :: R := List.drop_left
    refine ⟨((n, f) :: e, ',' :: R), mem_cap.mpr ⟨(e, ',' :: R), ?_, ?_⟩, mem_chr.mpr ⟨_, rfl, rfl⟩⟩
    · apply (mem_plus_cls _ _ _ _ _).mpr
      refine ⟨f.length, ?_, by simp, ?_, by rw [hd]⟩
      · cases f with
        | nil => exact absurd rfl hne
        | cons _ _ => simp
      · intro c hc
        rw [List.take_left] at hc
        exact (inCls_notCommaBar c).mpr (hf c hc)
    · simp only [List.length_append, List.length_cons]
      have : f.length + (R.length + 1) - (R.length + 1) = f.length := by omega
      rw [this, List.take_left]

/-- `\\N,` on one field: succeeds iff group `N` holds exactly the field (bound operand texts are comma-free) -/
theorem bref_to_comma (n : Nat) (f R : Str) (e : Env) (x : Env × Str) (hf : CleanStr f)
    (he : ∀ t, e.lookup n = some t → ∀ c ∈ t, c ≠ ',') :
    x ∈ (Rx.seq (.bref n) (.chr ',')).run e (f ++ ',' :: R) ↔ (e.lookup n = some f ∧ x = (e, R)) := by
  rw [mem_seq]
  constructor
  · rintro ⟨y, hy, hx⟩
    obtain ⟨t, s1, hl, hs1, rfl⟩ := mem_bref.mp hy
    obtain ⟨s2, hs2, rfl⟩ := mem_chr.mp hx
    simp only at hs2
    subst hs2
    obtain ⟨q, hq1, hq2⟩ := prefix_inside t f R (',' :: s2) (he t hl) hs1
    cases q with
    | nil =>
      simp at hq1 hq2
      exact ⟨by rw [hq1]; exact hl, by rw [hq2]⟩
    | cons c q' =>
      simp at hq2
      exact absurd hq2.1.symm (hf c (by rw [hq1]; simp)).1
  · rintro ⟨hl, rfl⟩
    exact ⟨(e, ',' :: R), mem_bref.mpr ⟨f, _, hl, rfl, rfl⟩, mem_chr.mpr ⟨_, rfl, rfl⟩⟩

end Jasm

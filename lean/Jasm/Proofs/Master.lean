import Jasm.Proofs.Frag
import Jasm.Proofs.DerefLang
import Jasm.Proofs.DerefAlt
/-!
# Master theorem (capture-free literal fragment): compiled regex = denotation

`masterI`: for every instruction-level pattern `p` of the fragment, the regex `comp fl caps p`, run
on the stream `encAll L` of a well-formed listing, has exactly the successes "consume `k`
instructions" for the `k` listed by `denI fl p`.  `masterO` is the same at operand level.
Helper lemmas only; the properties are stated in `Jasm/Properties`.
-/
namespace Jasm

/-! ## the fragment -/

def litChar (c : Char) : Bool :=
  !("\\^$.|?*+()[]{},".toList.contains c)

/-- a literal name: free of regex metacharacters and of the separators `,` and `|` -/
def litName (name : Str) : Bool := name.all litChar

theorem litName_clean (name : Str) (h : litName name = true) : CleanStr name := by
  intro c hc
  have := List.all_eq_true.mp h c hc
  constructor <;> (rintro rfl; revert this; decide)

/-! ### literal `$deref` operands (`Proofs/DerefLang.lean`) -/

def fieldVal (name : String) : Pat → Option Str
  | .derefField n [.derefProp v 0] => if n = name.toList then some v else none
  | _ => none

def lookupField (name : String) (fields : List Pat) : Option Str := fields.findSome? (fieldVal name)

def sameField : Pat → Pat → Bool
  | .derefField n [.derefProp v 0], .derefField n' [.derefProp v' 0] => n == n' && v == v'
  | _, _ => false

def sameFields : List Pat → List Pat → Bool
  | [], [] => true
  | x :: xs, y :: ys => sameField x y && sameFields xs ys
  | _, _ => false

/-- the `DerefSpec` a field list spells, if any -/
def derefSpecOf (fields : List Pat) : Option C06.DerefSpec :=
  match lookupField "main_reg" fields with
  | none => none
  | some a => some ⟨a, lookupField "register_multiplier" fields, lookupField "constant_multiplier" fields,
      lookupField "constant_offset" fields⟩

/-- a `$deref` operand with literal components: fields in the canonical order, no empty component,
no repetition count, no comma inside an accepted text -/
def derefLit (fields : List Pat) (t : Times) : Bool :=
  match derefSpecOf fields with
  | none => false
  | some d =>
    decide (t = Times.one) && sameFields fields d.fields &&
      (d.b != some [] && d.c != some [] && d.k != some []) &&
      (derefTexts fields).all (fun s => !s.contains ',')

/-! ### `$deref` operands whose components are `$or` alternatives of literal names (`Proofs/DerefAlt.lean`) -/

def propVal : Pat → Option Str
  | .derefProp v 0 => some v
  | _ => none

def altOf : Pat → Option (List Str)
  | .or l t => if t = Times.one then l.mapM propVal else none
  | _ => none

def afieldVal (name : String) : Pat → Option (List Str)
  | .derefField n [k] => if n = name.toList then altOf k else none
  | _ => none

def lookupAlt (name : String) (fields : List Pat) : Option (List Str) := fields.findSome? (afieldVal name)

def sameProp : Pat → Pat → Bool
  | .derefProp v 0, .derefProp v' 0 => v == v'
  | _, _ => false

def sameProps : List Pat → List Pat → Bool
  | [], [] => true
  | x :: xs, y :: ys => sameProp x y && sameProps xs ys
  | _, _ => false

def sameAltField : Pat → Pat → Bool
  | .derefField n [.or l t], .derefField n' [.or l' t'] =>
    n == n' && sameProps l l' && decide (t = Times.one) && decide (t' = Times.one)
  | _, _ => false

def sameAltFields : List Pat → List Pat → Bool
  | [], [] => true
  | x :: xs, y :: ys => sameAltField x y && sameAltFields xs ys
  | _, _ => false

def derefAltOf (fields : List Pat) : Option C06.DerefAlt :=
  match lookupAlt "main_reg" fields with
  | none => none
  | some a => some ⟨a, lookupAlt "register_multiplier" fields, lookupAlt "constant_multiplier" fields,
      lookupAlt "constant_offset" fields⟩

def altOKb (l : List Str) : Bool := !l.isEmpty && l.all (fun x => !x.isEmpty)

/-- a `$deref` operand whose components are `$or`s of literal names: canonical field order, usable
alternatives, no repetition count, no comma or bar inside an accepted text -/
def derefAltLit (fields : List Pat) (t : Times) : Bool :=
  match derefAltOf fields with
  | none => false
  | some d =>
    decide (t = Times.one) && sameAltFields fields d.fields &&
      (altOKb d.a && (d.b.all altOKb) && (d.c.all altOKb) && (d.k.all altOKb)) &&
      (derefTexts fields).all (fun s => !s.contains ',' && !s.contains '|')

mutual
def litO : Pat → Bool
  | .operand name hasKids => !hasKids && litName name && (isHexOperand name == some false)
  | .timesMarker => true
  | .and l _ => litOL l
  | .or l _ => litOL l
  | .anyOrder l _ => litOL l
  | .not p opLevel _ => opLevel && litO p
  | .deref fields t => derefLit fields t || derefAltLit fields t
  | _ => false
def litOL : List Pat → Bool
  | [] => true
  | p :: ps => litO p && litOL ps
end

mutual
def litI : Pat → Bool
  | .mnem name ops _ => litName name && litOL ops
  | .and l _ => litIL l
  | .or l _ => litIL l
  | .anyOrder l _ => litIL l
  | .not p opLevel _ => !opLevel && litI p
  | _ => false
def litIL : List Pat → Bool
  | [] => true
  | p :: ps => litI p && litIL ps
end

theorem litOL_mem {l : List Pat} (h : litOL l = true) : ∀ q ∈ l, litO q = true := by
  induction l with
  | nil => simp
  | cons p ps ih =>
    simp only [litOL, Bool.and_eq_true] at h
    intro q hq
    simp only [List.mem_cons] at hq
    rcases hq with rfl | hq
    · exact h.1
    · exact ih h.2 q hq

theorem litIL_mem {l : List Pat} (h : litIL l = true) : ∀ q ∈ l, litI q = true := by
  induction l with
  | nil => simp
  | cons p ps ih =>
    simp only [litIL, Bool.and_eq_true] at h
    intro q hq
    simp only [List.mem_cons] at hq
    rcases hq with rfl | hq
    · exact h.1
    · exact ih h.2 q hq

/-! ## instruction-level states -/

/-- hypotheses on one instruction of the listing -/
structure WFm (i : Inst) : Prop where
  addr_ne : i.addr ≠ []
  addr_hex : HexStr i.addr
  fields_ok : OkO i.fields

def OkI (L : List Inst) : Prop := ∀ i ∈ L, WFm i

theorem okI_drop : DropClosed OkI := fun _ _ h i hi => h i (List.mem_of_mem_drop hi)

theorem joinSep_comma (ops : List Str) (h : ops ≠ []) : joinSep [','] ops ++ [','] = fieldsText ops := by
  induction ops with
  | nil => exact absurd rfl h
  | cons o os ih =>
    cases os with
    | nil => simp [joinSep, fieldsText]
    | cons p ps =>
      have := ih (by simp)
      simp only [joinSep, List.append_assoc, fieldsText_cons] at this ⊢
      rw [this]; simp

theorem enc_eq (i : Inst) (R : Str) : enc i ++ R = i.addr ++ ':' :: ':' :: txtO R i.fields := by
  obtain ⟨a, m, ops⟩ := i
  cases ops with
  | nil => simp [enc, Inst.stringify, Inst.fields, txtO, fieldsText, joinSep]
  | cons o os =>
    have h := joinSep_comma (o :: os) (by simp)
    have hf : Inst.fields ⟨a, m, o :: os⟩ = m :: o :: os := by simp [Inst.fields]
    rw [hf]
    simp only [enc, Inst.stringify, txtO]
    rw [fieldsText_cons, ← h]
    simp

theorem encAll_cons (i : Inst) (L : List Inst) :
    encAll (i :: L) = i.addr ++ ':' :: ':' :: txtO (encAll L) i.fields := by
  have : encAll (i :: L) = enc i ++ encAll L := by simp [encAll]
  rw [this, enc_eq]

theorem posStrict_encAll : PosStrict encAll :=
  posStrict_of_cons _ (fun a w => by
    have : encAll (a :: w) = enc a ++ encAll w := by simp [encAll]
    rw [this]; simp only [enc, List.length_append, List.length_cons, List.length_nil]; omega)

/-! ## lists of compiled children -/

theorem compList_all2 {α : Type} {txt : List α → Str} {Ok : List α → Prop} (fl : Flags) (caps : List Str)
    (dl : List Pat → List (Den α)) (d1 : Pat → Den α)
    (hdl_nil : dl [] = []) (hdl_cons : ∀ p ps, dl (p :: ps) = d1 p :: dl ps)
    (l : List Pat) (cs : List Rx) (hc : compList fl caps l = .ok cs)
    (h : ∀ q ∈ l, ∀ r, comp fl caps q = .ok r → Sem txt Ok r (d1 q)) :
    All2 (Sem txt Ok) cs (dl l) := by
  induction l generalizing cs with
  | nil =>
    simp only [compList, pure, Except.pure] at hc
    cases hc
    rw [hdl_nil]; exact .nil
  | cons p ps ih =>
    simp only [compList, bind, Except.bind] at hc
    split at hc
    · cases hc
    · rename_i r hr
      split at hc
      · cases hc
      · rename_i rs hrs
        simp only [pure, Except.pure] at hc
        cases hc
        rw [hdl_cons]
        exact .cons (h p (by simp) r hr) (ih rs hrs (fun q hq => h q (by simp [hq])))

theorem all2_eraseIdx {α β : Type} {R : α → β → Prop} {as : List α} {bs : List β} (h : All2 R as bs) (i : Nat) :
    All2 R (as.eraseIdx i) (bs.eraseIdx i) := by
  induction h generalizing i with
  | nil => exact .nil
  | cons hab _ ih =>
    cases i with
    | zero => simpa
    | succ i => exact .cons hab (ih i)

theorem all2_length {α β : Type} {R : α → β → Prop} {as : List α} {bs : List β} (h : All2 R as bs) :
    as.length = bs.length := by
  induction h with
  | nil => rfl
  | cons _ _ ih => simp [ih]

theorem all2_get {α β : Type} {R : α → β → Prop} {as : List α} {bs : List β} (h : All2 R as bs) (i : Nat) :
    (as[i]? = none ∧ bs[i]? = none) ∨ ∃ a b, as[i]? = some a ∧ bs[i]? = some b ∧ R a b := by
  induction h generalizing i with
  | nil => left; simp
  | @cons a b as bs hab _ ih =>
    cases i with
    | zero => right; exact ⟨a, b, by simp, by simp, hab⟩
    | succ i => simpa using ih i

theorem all2_append {α β : Type} {R : α → β → Prop} {as as' : List α} {bs bs' : List β}
    (h : All2 R as bs) (h' : All2 R as' bs') : All2 R (as ++ as') (bs ++ bs') := by
  induction h with
  | nil => simpa
  | cons hab _ ih => exact .cons hab ih

theorem all2_map_cons {α β : Type} {R : α → β → Prop} {a : α} {b : β} (hab : R a b)
    {ass : List (List α)} {bss : List (List β)} (h : All2 (All2 R) ass bss) :
    All2 (All2 R) (ass.map (a :: ·)) (bss.map (b :: ·)) := by
  induction h with
  | nil => exact .nil
  | cons h1 _ ih => exact .cons (.cons hab h1) ih

/-- the permutations of two pointwise-related lists are pointwise related -/
theorem all2_permsAux {α β : Type} {R : α → β → Prop} (n : Nat) {as : List α} {bs : List β} (h : All2 R as bs) :
    All2 (All2 R) (permsAux n as) (permsAux n bs) := by
  induction n generalizing as bs with
  | zero => exact .cons .nil .nil
  | succ n ih =>
    simp only [permsAux]
    rw [← all2_length h]
    generalize List.range as.length = idxs
    induction idxs with
    | nil => exact .nil
    | cons i is ihi =>
      simp only [List.flatMap_cons]
      apply all2_append _ ihi
      rcases all2_get h i with ⟨h1, h2⟩ | ⟨a, b, h1, h2, hab⟩
      · rw [h1, h2]; exact .nil
      · rw [h1, h2]
        exact all2_map_cons hab (ih (all2_eraseIdx h i))

theorem all2_perms {α β : Type} {R : α → β → Prop} {as : List α} {bs : List β} (h : All2 R as bs) :
    All2 (All2 R) (perms as) (perms bs) := by
  unfold perms
  rw [← all2_length h]
  exact all2_permsAux _ h

/-- `$and_any_order`: alternation over all orderings, each a sequence -/
theorem sem_anyOrder {α : Type} {txt : List α → Str} {Ok : List α → Prop} (hdc : DropClosed Ok)
    (cs : List Rx) (ds : List (Den α)) (h : All2 (Sem txt Ok) cs ds) :
    Sem txt Ok (.grp (orJoin ((perms cs).map fun p => .grp (seqAll p))))
      (fun σ w => (perms ds).flatMap fun dl => seqDen dl σ w) := by
  have hp := all2_perms h
  have : All2 (Sem txt Ok) ((perms cs).map fun p => Rx.grp (seqAll p)) ((perms ds).map fun dl => seqDen dl) := by
    generalize perms cs = pc at hp
    generalize perms ds = pd at hp
    induction hp with
    | nil => exact .nil
    | cons h1 _ ih => exact .cons (sem_grp (sem_seqAll hdc _ _ h1)) ih
  have := sem_or _ _ this
  constructor
  · intro σ e w x hw
    rw [this.run_iff σ e w x hw]
    simp [List.flatMap_map]
  · intro σ w p hp
    apply this.pure σ w p
    simpa [List.flatMap_map] using hp

end Jasm

namespace Jasm

theorem bind_ok {α β : Type} {x : M α} {f : α → M β} {r : β} :
    (x >>= f) = .ok r ↔ ∃ a, x = .ok a ∧ f a = .ok r := by
  cases x with
  | error e => simp [bind, Except.bind]
  | ok a => simp [bind, Except.bind]

theorem pure_ok {α : Type} {a r : α} : (pure a : M α) = .ok r ↔ a = r := by
  simp [pure, Except.pure]

/-! ## operand level -/

def SpecO (fl : Flags) (caps : List Str) (p : Pat) : Prop :=
  ∀ (T : Str) (r : Rx), comp fl caps p = .ok r → Sem (txtO T) OkO r (denO fl p)

theorem denOL_nil (fl : Flags) : denOL fl [] = [] := by simp [denOL]
theorem denOL_cons (fl : Flags) (p : Pat) (ps : List Pat) : denOL fl (p :: ps) = denO fl p :: denOL fl ps := by
  simp [denOL]

theorem specO_list (fl : Flags) (caps : List Str) (T : Str) (l : List Pat) (cs : List Rx)
    (hc : compList fl caps l = .ok cs) (h : ∀ q ∈ l, SpecO fl caps q) :
    All2 (Sem (txtO T) OkO) cs (denOL fl l) :=
  compList_all2 fl caps (denOL fl) (denO fl) (denOL_nil fl) (denOL_cons fl) l cs hc (fun q hq r hr => h q hq T r hr)

theorem specO_operand (fl : Flags) (caps : List Str) (name : Str)
    (hname : litName name = true) (hhex : isHexOperand name = some false) : SpecO fl caps (.operand name false) := by
  intro T r hc
  simp only [comp, Bool.false_eq_true, if_false, hhex] at hc
  cases pure_ok.mp hc
  have := sem_operand T fl.opsFull name (litName_clean name hname)
  have e : denO fl (.operand name false) = (fun σ w => match w with
        | f :: _ => if rel fl.opsFull name f then [(1, σ)] else []
        | [] => []) := by
    funext σ w; cases w <;> simp [denO]
  rw [e]; exact this

theorem specO_timesMarker (fl : Flags) (caps : List Str) : SpecO fl caps .timesMarker := by
  intro T r hc
  simp only [comp] at hc
  cases pure_ok.mp hc
  have e : denO fl .timesMarker = (fun σ (_ : List Str) => [(0, σ)]) := by funext σ w; simp [denO]
  rw [e]; exact sem_eps

theorem specO_and (fl : Flags) (caps : List Str) (l : List Pat) (t : Times) (h : ∀ q ∈ l, SpecO fl caps q) :
    SpecO fl caps (.and l t) := by
  intro T r hc
  simp only [comp] at hc
  obtain ⟨cs, hcs, hr⟩ := bind_ok.mp hc
  cases pure_ok.mp hr
  have e : denO fl (.and l t) = timesDen (seqDen (denOL fl l)) t := by funext σ w; simp [denO]
  rw [e]
  exact sem_withTimes okO_drop (posStrict_txtO T) (sem_grp (sem_seqAll okO_drop _ _ (specO_list fl caps T l cs hcs h))) t

theorem specO_or (fl : Flags) (caps : List Str) (l : List Pat) (t : Times) (h : ∀ q ∈ l, SpecO fl caps q) :
    SpecO fl caps (.or l t) := by
  intro T r hc
  simp only [comp] at hc
  obtain ⟨cs, hcs, hr⟩ := bind_ok.mp hc
  cases pure_ok.mp hr
  have e : denO fl (.or l t) = timesDen (fun σ w => (denOL fl l).flatMap fun d => d σ w) t := by
    funext σ w; simp [denO]
  rw [e]
  exact sem_withTimes okO_drop (posStrict_txtO T) (sem_or _ _ (specO_list fl caps T l cs hcs h)) t

theorem specO_anyOrder (fl : Flags) (caps : List Str) (l : List Pat) (t : Times) (h : ∀ q ∈ l, SpecO fl caps q) :
    SpecO fl caps (.anyOrder l t) := by
  intro T r hc
  simp only [comp] at hc
  obtain ⟨cs, hcs, hr⟩ := bind_ok.mp hc
  cases pure_ok.mp hr
  have e : denO fl (.anyOrder l t) = timesDen (fun σ w => (perms (denOL fl l)).flatMap fun ds => seqDen ds σ w) t := by
    funext σ w; simp [denO]
  rw [e]
  exact sem_withTimes okO_drop (posStrict_txtO T) (sem_anyOrder okO_drop _ _ (specO_list fl caps T l cs hcs h)) t

theorem specO_not (fl : Flags) (caps : List Str) (p : Pat) (t : Times) (h : SpecO fl caps p) :
    SpecO fl caps (.not p true t) := by
  intro T r hc
  simp only [comp] at hc
  obtain ⟨c, hcp, hr⟩ := bind_ok.mp hc
  cases pure_ok.mp hr
  have e : denO fl (.not p true t) = timesDen (fun σ w => if !w.isEmpty && (denO fl p σ w).isEmpty then [(1, σ)] else []) t := by
    funext σ w; simp [denO]
  rw [e]
  simp only [if_true]
  exact sem_withTimes okO_drop (posStrict_txtO T) (sem_not (h T c hcp) (fun e w x hw => skip_operand T e w x hw)) t

theorem sameField_eq : ∀ (x y : Pat), sameField x y = true → x = y := by
  intro x y h
  unfold sameField at h
  split at h
  · simp only [Bool.and_eq_true, beq_iff_eq] at h
    obtain ⟨rfl, rfl⟩ := h; rfl
  · cases h

theorem sameFields_eq : ∀ (l m : List Pat), sameFields l m = true → l = m
  | [], [], _ => rfl
  | x :: xs, y :: ys, h => by
    simp only [sameFields, Bool.and_eq_true] at h
    rw [sameField_eq x y h.1, sameFields_eq xs ys h.2]
  | [], _ :: _, h => by simp [sameFields] at h
  | _ :: _, [], h => by simp [sameFields] at h

theorem derefLit_spec {fields : List Pat} {t : Times} (h : derefLit fields t = true) :
    ∃ d : C06.DerefSpec, fields = d.fields ∧ t = Times.one ∧ d.WF ∧
      (∀ s ∈ derefTexts d.fields, ∀ c ∈ s, c ≠ ',') := by
  unfold derefLit at h
  split at h
  · cases h
  · rename_i d hd
    simp only [Bool.and_eq_true, decide_eq_true_eq, bne_iff_ne, ne_eq, List.all_eq_true, Bool.not_eq_true'] at h
    obtain ⟨⟨⟨ht, hsame⟩, ⟨hb, hc⟩, hk⟩, hclean⟩ := h
    have hf := sameFields_eq _ _ hsame
    refine ⟨d, hf, ht, ⟨?_, ?_, ?_⟩, ?_⟩
    · intro b hb' e; subst e; exact hb hb'
    · intro c hc' e; subst e; exact hc hc'
    · intro k hk' e; subst e; exact hk hk'
    · intro s hs c hc' e
      subst e
      rw [← hf] at hs
      have := hclean s hs
      simp at this
      exact this hc'

theorem specO_deref (fl : Flags) (caps : List Str) (fields : List Pat) (t : Times) (h : derefLit fields t = true) :
    SpecO fl caps (.deref fields t) := by
  obtain ⟨d, rfl, rfl, hwf, hclean⟩ := derefLit_spec h
  intro T r hc
  have hc' : comp fl caps d.toPat = .ok r := hc
  have e : denO fl (.deref d.fields Times.one) = (fun σ w => match w with
        | f :: _ => if (derefTexts d.fields).contains f then [(1, σ)] else []
        | [] => []) := by
    funext σ w; cases w <;> simp [denO, timesDen]
  rw [e]
  constructor
  · intro σ e w x hw
    cases w with
    | nil =>
      rw [C06.deref_no_field fl caps d hwf r hc' T e]
      simp
    | cons f fs =>
      have hf : ∀ c ∈ f, c ≠ ',' := fun c hc => (hw.1 f (by simp) c hc).1
      rw [C06.deref_field fl caps d hwf r hc' hclean T f fs hf e x]
      by_cases hcont : (derefTexts d.fields).contains f = true
      · have hm : f ∈ derefTexts d.fields := by simpa using hcont
        simp only [hcont, if_true, List.mem_singleton, Prod.mk.injEq, and_true, hm, true_and]
        constructor
        · rintro rfl; exact ⟨1, rfl, by simp⟩
        · rintro ⟨k, rfl, rfl⟩; simp
      · have hm : ¬ f ∈ derefTexts d.fields := by simpa using hcont
        simp [hcont, hm]
  · intro σ w p hp
    cases w with
    | nil => simp at hp
    | cons f fs =>
      simp only at hp
      by_cases hcont : (derefTexts d.fields).contains f = true
      · simp only [hcont, if_true, List.mem_singleton] at hp
        subst hp; rfl
      · simp only [hcont] at hp
        simp at hp

theorem sameProp_eq (x y : Pat) (h : sameProp x y = true) : x = y := by
  unfold sameProp at h
  split at h
  · simp only [beq_iff_eq] at h; subst h; rfl
  · cases h

theorem sameProps_eq : ∀ (l m : List Pat), sameProps l m = true → l = m
  | [], [], _ => rfl
  | x :: xs, y :: ys, h => by
    simp only [sameProps, Bool.and_eq_true] at h
    rw [sameProp_eq x y h.1, sameProps_eq xs ys h.2]
  | [], _ :: _, h => by simp [sameProps] at h
  | _ :: _, [], h => by simp [sameProps] at h

theorem sameAltField_eq (x y : Pat) (h : sameAltField x y = true) : x = y := by
  unfold sameAltField at h
  split at h
  · simp only [Bool.and_eq_true, beq_iff_eq, decide_eq_true_eq] at h
    obtain ⟨⟨⟨rfl, hp⟩, rfl⟩, rfl⟩ := h
    rw [sameProps_eq _ _ hp]
  · cases h

theorem sameAltFields_eq : ∀ (l m : List Pat), sameAltFields l m = true → l = m
  | [], [], _ => rfl
  | x :: xs, y :: ys, h => by
    simp only [sameAltFields, Bool.and_eq_true] at h
    rw [sameAltField_eq x y h.1, sameAltFields_eq xs ys h.2]
  | [], _ :: _, h => by simp [sameAltFields] at h
  | _ :: _, [], h => by simp [sameAltFields] at h

theorem altOKb_spec (l : List Str) (h : altOKb l = true) : C06.AltOK l := by
  simp only [altOKb, Bool.and_eq_true, Bool.not_eq_true', List.all_eq_true] at h
  refine ⟨?_, ?_⟩
  · intro e; simp [e] at h
  · intro x hx e
    have := h.2 x hx
    simp [e] at this

theorem derefAltLit_spec {fields : List Pat} {t : Times} (h : derefAltLit fields t = true) :
    ∃ d : C06.DerefAlt, fields = d.fields ∧ t = Times.one ∧ d.WF ∧
      (∀ s ∈ derefTexts d.fields, ∀ c ∈ s, c ≠ ',') ∧ (∀ s ∈ derefTexts d.fields, ∀ c ∈ s, c ≠ '|') := by
  unfold derefAltLit at h
  split at h
  · cases h
  · rename_i d hd
    simp only [Bool.and_eq_true, decide_eq_true_eq, List.all_eq_true, Bool.not_eq_true'] at h
    obtain ⟨⟨⟨ht, hsame⟩, ⟨⟨ha, hb⟩, hc⟩, hk⟩, hclean⟩ := h
    have hf := sameAltFields_eq _ _ hsame
    refine ⟨d, hf, ht, ⟨altOKb_spec _ ha, ?_, ?_, ?_⟩, ?_, ?_⟩
    · intro b hb'; rw [hb'] at hb; exact altOKb_spec b (by simpa using hb)
    · intro c hc'; rw [hc'] at hc; exact altOKb_spec c (by simpa using hc)
    · intro k hk'; rw [hk'] at hk; exact altOKb_spec k (by simpa using hk)
    · intro s hs c hc' e
      subst e
      rw [← hf] at hs
      have := (hclean s hs).1
      simp at this
      exact this hc'
    · intro s hs c hc' e
      subst e
      rw [← hf] at hs
      have := (hclean s hs).2
      simp at this
      exact this hc'

theorem specO_derefAlt (fl : Flags) (caps : List Str) (fields : List Pat) (t : Times) (h : derefAltLit fields t = true) :
    SpecO fl caps (.deref fields t) := by
  obtain ⟨d, rfl, rfl, hwf, hclean, hbar⟩ := derefAltLit_spec h
  intro T r hc
  obtain ⟨r', hr', hl⟩ := C06.derefAlt_lang fl caps d hwf
  have hc' : comp fl caps d.toPat = .ok r := hc
  rw [hr'] at hc'
  have hrr : r' = r := by simpa using hc'
  subst hrr
  have e : denO fl (.deref d.fields Times.one) = (fun σ w => match w with
        | f :: _ => if (derefTexts d.fields).contains f then [(1, σ)] else []
        | [] => []) := by
    funext σ w; cases w <;> simp [denO, timesDen]
  rw [e]
  constructor
  · intro σ e w x hw
    cases w with
    | nil =>
      rw [C06.lang_no_field r' _ hl hbar T e]
      simp
    | cons f fs =>
      have hf : ∀ c ∈ f, c ≠ ',' := fun c hc => (hw.1 f (by simp) c hc).1
      rw [C06.lang_field r' _ hl hclean T f fs hf e x]
      by_cases hcont : (derefTexts d.fields).contains f = true
      · have hm : f ∈ derefTexts d.fields := by simpa using hcont
        simp only [hcont, if_true, List.mem_singleton, Prod.mk.injEq, and_true, hm, true_and]
        constructor
        · rintro rfl; exact ⟨1, rfl, by simp⟩
        · rintro ⟨k, rfl, rfl⟩; simp
      · have hm : ¬ f ∈ derefTexts d.fields := by simpa using hcont
        simp [hcont, hm]
  · intro σ w p hp
    cases w with
    | nil => simp at hp
    | cons f fs =>
      simp only at hp
      by_cases hcont : (derefTexts d.fields).contains f = true
      · simp only [hcont, if_true, List.mem_singleton] at hp
        subst hp; rfl
      · simp only [hcont] at hp
        simp at hp

theorem masterO (fl : Flags) (caps : List Str) : ∀ (p : Pat), litO p = true → SpecO fl caps p
  | .operand name hasKids, h => by
    simp only [litO, Bool.and_eq_true, Bool.not_eq_true', beq_iff_eq] at h
    obtain ⟨⟨rfl, hn⟩, hh⟩ := h
    exact specO_operand fl caps name hn hh
  | .timesMarker, _ => specO_timesMarker fl caps
  | .and l t, h => specO_and fl caps l t (fun q hq => masterO fl caps q (litOL_mem (by simpa [litO] using h) q hq))
  | .or l t, h => specO_or fl caps l t (fun q hq => masterO fl caps q (litOL_mem (by simpa [litO] using h) q hq))
  | .anyOrder l t, h => specO_anyOrder fl caps l t (fun q hq => masterO fl caps q (litOL_mem (by simpa [litO] using h) q hq))
  | .not p opLevel t, h => by
    simp only [litO, Bool.and_eq_true] at h
    obtain ⟨rfl, hp⟩ := h
    exact specO_not fl caps p t (masterO fl caps p hp)
  | .mnem _ _ _, h => by simp [litO] at h
  | .deref fields t, h => by
    simp only [litO, Bool.or_eq_true] at h
    rcases h with h | h
    · exact specO_deref fl caps fields t h
    · exact specO_derefAlt fl caps fields t h
  | .derefField _ _, h => by simp [litO] at h
  | .derefProp _ _, h => by simp [litO] at h
  | .capInstDef _, h => by simp [litO] at h
  | .capInstRef _, h => by simp [litO] at h
  | .capOpDef _, h => by simp [litO] at h
  | .capOpRef _, h => by simp [litO] at h
  | .capDerefDef _, h => by simp [litO] at h
  | .capDerefRef _, h => by simp [litO] at h
  | .regDef _, h => by simp [litO] at h
  | .regRef _, h => by simp [litO] at h
termination_by p => sizeOf p
decreasing_by
  all_goals simp_wf
  all_goals first
    | (have := List.sizeOf_lt_of_mem ‹_ ∈ _›; omega)
    | omega

end Jasm

namespace Jasm

/-! ## instruction level -/

def SpecI (fl : Flags) (caps : List Str) (p : Pat) : Prop :=
  ∀ (r : Rx), comp fl caps p = .ok r → Sem encAll OkI r (denI fl p)

theorem denIL_nil (fl : Flags) : denIL fl [] = [] := by simp [denIL]
theorem denIL_cons (fl : Flags) (p : Pat) (ps : List Pat) : denIL fl (p :: ps) = denI fl p :: denIL fl ps := by
  simp [denIL]

theorem specI_list (fl : Flags) (caps : List Str) (l : List Pat) (cs : List Rx)
    (hc : compList fl caps l = .ok cs) (h : ∀ q ∈ l, SpecI fl caps q) :
    All2 (Sem encAll OkI) cs (denIL fl l) :=
  compList_all2 fl caps (denIL fl) (denI fl) (denIL_nil fl) (denIL_cons fl) l cs hc (fun q hq r hr => h q hq r hr)

/-- skipping one whole instruction record, from its address on -/
theorem skip_inst (e : Env) (L : List Inst) (x : Env × Str) (hL : OkI L) :
    x ∈ (Rx.seq ignoreInstAddr skipToEndOfPatternNode).run e (encAll L) ↔ L ≠ [] ∧ x = (e, encAll (L.drop 1)) := by
  cases L with
  | nil =>
    rw [mem_seq]
    have : encAll [] = [] := rfl
    rw [this, addr_skip_nil]
    simp
  | cons i rest =>
    have hi := hL i (by simp)
    rw [mem_seq, encAll_cons]
    constructor
    · rintro ⟨y, hy, hx⟩
      rw [addr_skip _ _ e y hi.addr_ne hi.addr_hex] at hy
      subst hy
      rw [skip_to_end _ e _ x hi.fields_ok] at hx
      exact ⟨by simp, by simpa using hx⟩
    · rintro ⟨_, rfl⟩
      exact ⟨(e, txtO (encAll rest) i.fields), (addr_skip _ _ e _ hi.addr_ne hi.addr_hex).mpr rfl,
        (skip_to_end _ e _ _ hi.fields_ok).mpr (by simp)⟩

/-- the denotation of one un-repeated instruction item -/
def mnemDen (fl : Flags) (name : Str) (ops : List Pat) : Den Inst :=
  fun σ L => match L with
    | i :: _ =>
      if rel fl.mnemFull name i.mnem then
        (seqDen (denOL fl ops) σ i.fields.tail).map fun (_, σ') => (1, σ')
      else []
    | [] => []

theorem sem_mnem_core (fl : Flags) (caps : List Str) (name : Str) (ops : List Pat) (os : List Rx)
    (hname : litName name = true) (hos : compList fl caps ops = .ok os) (hops : ∀ q ∈ ops, SpecO fl caps q) :
    Sem encAll OkI
      (.seq ignoreInstAddr (.grp (seqAll [nameWindow fl.mnemFull name, seqAll os, skipToEndOfPatternNode])))
      (mnemDen fl name ops) := by
  have hclean := litName_clean name hname
  constructor
  · intro σ e L x hL
    cases L with
    | nil =>
      rw [mem_seq]
      have : encAll [] = [] := rfl
      rw [this, addr_skip_nil]
      simp [mnemDen]
    | cons i rest =>
      have hi := hL i (by simp)
      have hfields : i.fields = i.mnem :: i.fields.tail := by simp [Inst.fields]
      have hokT : OkO i.fields.tail := by
        have := okO_drop i.fields 1 hi.fields_ok
        rw [hfields] at this; simpa using this
      have hseq := sem_seqAll okO_drop os (denOL fl ops) (specO_list fl caps (encAll rest) ops os hos hops)
      have hwin := sem_operand (encAll rest) fl.mnemFull name hclean
      rw [mem_seq, encAll_cons]
      simp only [mnemDen]
      constructor
      · rintro ⟨y, hy, hx⟩
        rw [addr_skip _ _ e y hi.addr_ne hi.addr_hex] at hy
        subst hy
        rw [mem_grp, mem_seqAll_cons] at hx
        obtain ⟨y1, hy1, hx⟩ := hx
        obtain ⟨k1, hk1, rfl⟩ := (hwin.run_iff σ e i.fields y1 hi.fields_ok).mp hy1
        rw [hfields] at hk1
        simp only at hk1
        split at hk1
        · rename_i hrel
          simp only [List.mem_singleton, Prod.mk.injEq, and_true] at hk1
          subst hk1
          rw [mem_seqAll_cons] at hx
          obtain ⟨y2, hy2, hx⟩ := hx
          have hdrop1 : i.fields.drop 1 = i.fields.tail := by simp
          rw [hdrop1] at hy2
          obtain ⟨k2, hk2, rfl⟩ := (hseq.run_iff σ e i.fields.tail y2 hokT).mp hy2
          rw [mem_seqAll_cons] at hx
          obtain ⟨y3, hy3, hx⟩ := hx
          rw [skip_to_end _ e _ y3 (okO_drop _ k2 hokT)] at hy3
          subst hy3
          rw [mem_seqAll_nil] at hx
          subst hx
          refine ⟨1, ?_, by simp⟩
          simp only [hrel, if_true, List.mem_map]
          exact ⟨(k2, σ), hk2, rfl⟩
        · cases hk1
      · rintro ⟨k, hk, rfl⟩
        split at hk
        · rename_i hrel
          simp only [List.mem_map] at hk
          obtain ⟨⟨k2, σ2⟩, hk2, heq⟩ := hk
          simp only [Prod.mk.injEq] at heq
          obtain ⟨rfl, rfl⟩ := heq
          refine ⟨(e, txtO (encAll rest) i.fields), (addr_skip _ _ e _ hi.addr_ne hi.addr_hex).mpr rfl, ?_⟩
          rw [mem_grp, mem_seqAll_cons]
          refine ⟨(e, txtO (encAll rest) i.fields.tail), ?_, ?_⟩
          · have := (hwin.run_iff σ2 e i.fields (e, txtO (encAll rest) (i.fields.drop 1)) hi.fields_ok).mpr
              ⟨1, by rw [hfields]; simp [hrel], rfl⟩
            simpa using this
          · rw [mem_seqAll_cons]
            refine ⟨(e, txtO (encAll rest) (i.fields.tail.drop k2)), (hseq.run_iff σ2 e _ _ hokT).mpr ⟨k2, hk2, rfl⟩, ?_⟩
            rw [mem_seqAll_cons]
            refine ⟨(e, encAll rest), (skip_to_end _ e _ _ (okO_drop _ k2 hokT)).mpr rfl, ?_⟩
            rw [mem_seqAll_nil]; simp
        · cases hk
  · intro σ L p hp
    cases L with
    | nil => cases hp
    | cons i rest =>
      simp only [mnemDen] at hp
      split at hp
      · simp only [List.mem_map] at hp
        obtain ⟨⟨k2, σ2⟩, hk2, rfl⟩ := hp
        have hseq := sem_seqAll okO_drop os (denOL fl ops) (specO_list fl caps [] ops os hos hops)
        have := hseq.pure σ _ _ hk2
        simpa using this
      · cases hp

theorem specI_mnem (fl : Flags) (caps : List Str) (name : Str) (ops : List Pat) (t : Times)
    (hname : litName name = true) (hops : ∀ q ∈ ops, SpecO fl caps q) : SpecI fl caps (.mnem name ops t) := by
  intro r hc
  simp only [comp] at hc
  obtain ⟨os, hos, hr⟩ := bind_ok.mp hc
  have core := sem_mnem_core fl caps name ops os hname hos hops
  have e : denI fl (.mnem name ops t) = timesDen (mnemDen fl name ops) t := by
    funext σ L
    simp only [denI]
    congr 1
  rw [e]
  unfold timesDen
  split at hr
  · rename_i ht
    cases pure_ok.mp hr
    simp only [ht, if_true]
    exact core
  · rename_i ht
    cases pure_ok.mp hr
    simp only [ht, if_false]
    exact sem_iter okI_drop posStrict_encAll (sem_grp core) t.lo t.hi

theorem specI_and (fl : Flags) (caps : List Str) (l : List Pat) (t : Times) (h : ∀ q ∈ l, SpecI fl caps q) :
    SpecI fl caps (.and l t) := by
  intro r hc
  simp only [comp] at hc
  obtain ⟨cs, hcs, hr⟩ := bind_ok.mp hc
  cases pure_ok.mp hr
  have e : denI fl (.and l t) = timesDen (seqDen (denIL fl l)) t := by funext σ w; simp [denI]
  rw [e]
  exact sem_withTimes okI_drop posStrict_encAll (sem_grp (sem_seqAll okI_drop _ _ (specI_list fl caps l cs hcs h))) t

theorem specI_or (fl : Flags) (caps : List Str) (l : List Pat) (t : Times) (h : ∀ q ∈ l, SpecI fl caps q) :
    SpecI fl caps (.or l t) := by
  intro r hc
  simp only [comp] at hc
  obtain ⟨cs, hcs, hr⟩ := bind_ok.mp hc
  cases pure_ok.mp hr
  have e : denI fl (.or l t) = timesDen (fun σ w => (denIL fl l).flatMap fun d => d σ w) t := by
    funext σ w; simp [denI]
  rw [e]
  exact sem_withTimes okI_drop posStrict_encAll (sem_or _ _ (specI_list fl caps l cs hcs h)) t

theorem specI_anyOrder (fl : Flags) (caps : List Str) (l : List Pat) (t : Times) (h : ∀ q ∈ l, SpecI fl caps q) :
    SpecI fl caps (.anyOrder l t) := by
  intro r hc
  simp only [comp] at hc
  obtain ⟨cs, hcs, hr⟩ := bind_ok.mp hc
  cases pure_ok.mp hr
  have e : denI fl (.anyOrder l t) = timesDen (fun σ w => (perms (denIL fl l)).flatMap fun ds => seqDen ds σ w) t := by
    funext σ w; simp [denI]
  rw [e]
  exact sem_withTimes okI_drop posStrict_encAll (sem_anyOrder okI_drop _ _ (specI_list fl caps l cs hcs h)) t

theorem specI_not (fl : Flags) (caps : List Str) (p : Pat) (t : Times) (h : SpecI fl caps p) :
    SpecI fl caps (.not p false t) := by
  intro r hc
  simp only [comp] at hc
  obtain ⟨c, hcp, hr⟩ := bind_ok.mp hc
  cases pure_ok.mp hr
  have e : denI fl (.not p false t) = timesDen (fun σ w => if !w.isEmpty && (denI fl p σ w).isEmpty then [(1, σ)] else []) t := by
    funext σ w; simp [denI]
  rw [e]
  simp only [Bool.false_eq_true, if_false]
  exact sem_withTimes okI_drop posStrict_encAll (sem_not (h c hcp) (fun e w x hw => skip_inst e w x hw)) t

/-- **master theorem, instruction level** -/
theorem masterI (fl : Flags) (caps : List Str) : ∀ (p : Pat), litI p = true → SpecI fl caps p
  | .mnem name ops t, h => by
    simp only [litI, Bool.and_eq_true] at h
    exact specI_mnem fl caps name ops t h.1 (fun q hq => masterO fl caps q (litOL_mem h.2 q hq))
  | .and l t, h => specI_and fl caps l t (fun q hq => masterI fl caps q (litIL_mem (by simpa [litI] using h) q hq))
  | .or l t, h => specI_or fl caps l t (fun q hq => masterI fl caps q (litIL_mem (by simpa [litI] using h) q hq))
  | .anyOrder l t, h => specI_anyOrder fl caps l t (fun q hq => masterI fl caps q (litIL_mem (by simpa [litI] using h) q hq))
  | .not p opLevel t, h => by
    simp only [litI, Bool.and_eq_true, Bool.not_eq_true'] at h
    obtain ⟨rfl, hp⟩ := h
    exact specI_not fl caps p t (masterI fl caps p hp)
  | .operand _ _, h => by simp [litI] at h
  | .timesMarker, h => by simp [litI] at h
  | .deref _ _, h => by simp [litI] at h
  | .derefField _ _, h => by simp [litI] at h
  | .derefProp _ _, h => by simp [litI] at h
  | .capInstDef _, h => by simp [litI] at h
  | .capInstRef _, h => by simp [litI] at h
  | .capOpDef _, h => by simp [litI] at h
  | .capOpRef _, h => by simp [litI] at h
  | .capDerefDef _, h => by simp [litI] at h
  | .capDerefRef _, h => by simp [litI] at h
  | .regDef _, h => by simp [litI] at h
  | .regRef _, h => by simp [litI] at h
termination_by p => sizeOf p
decreasing_by
  all_goals simp_wf
  all_goals first
    | (have := List.sizeOf_lt_of_mem ‹_ ∈ _›; omega)
    | omega

end Jasm

import Jasm.Proofs.RxLemmas
/-!
# Engine lemmas: every success leaves a suffix; what `search` finds (helper lemmas)
-/
namespace Jasm

theorem stripPrefix_suffix (p s s' : Str) (h : stripPrefix p s = some s') : s = p ++ s' := by
  induction p generalizing s with
  | nil => simp [stripPrefix] at h; simp [h]
  | cons a t ih =>
    cases s with
    | nil => simp [stripPrefix] at h
    | cons c cs =>
      simp only [stripPrefix] at h
      split at h
      · rename_i hac; subst hac; simp [ih cs h]
      · cases h

theorem iterG_suffix (f : Env → Str → Res) (hf : ∀ e s x, x ∈ f e s → x.2 <:+ s) (lo hi : Nat) (last : Option Nat)
    (e : Env) (s : Str) (x : Env × Str) (h : x ∈ iterG f lo hi last e s) : x.2 <:+ s := by
  induction hi generalizing lo last e s with
  | zero =>
    rw [iterG_hi_zero] at h
    split at h
    · simp at h; subst h; exact List.suffix_refl _
    · cases h
  | succ n ih =>
    cases lo with
    | succ lo =>
      simp only [iterG, List.mem_flatMap] at h
      obtain ⟨y, hy, hx⟩ := h
      exact (ih _ _ _ _ hx).trans (hf _ _ _ hy)
    | zero =>
      simp only [iterG, List.mem_append, List.mem_singleton] at h
      rcases h with h1 | h0
      · split at h1
        · cases h1
        · obtain ⟨y, hy, hx⟩ := List.mem_flatMap.mp h1
          exact (ih _ _ _ _ hx).trans (hf _ _ _ hy)
      · subst h0; exact List.suffix_refl _

theorem iter_suffix (f : Env → Str → Res) (hf : ∀ e s x, x ∈ f e s → x.2 <:+ s) (lo hi : Nat) (e : Env) (s : Str)
    (x : Env × Str) (h : x ∈ iter f lo hi e s) : x.2 <:+ s :=
  iterG_suffix f hf lo hi none e s x h

/-- whatever a regex matches, what remains is a suffix of the input -/
theorem run_suffix (r : Rx) : ∀ (e : Env) (s : Str) (x : Env × Str), x ∈ r.run e s → x.2 <:+ s := by
  induction r with
  | eps => intro e s x h; simp [Rx.run] at h; subst h; exact List.suffix_refl _
  | chr c => intro e s x h; obtain ⟨s', rfl, rfl⟩ := mem_chr.mp h; exact List.suffix_cons _ _
  | esc c => intro e s x h; obtain ⟨s', rfl, rfl⟩ := mem_esc.mp h; exact List.suffix_cons _ _
  | any =>
    intro e s x h
    cases s with
    | nil => simp [Rx.run] at h
    | cons a t =>
      simp only [Rx.run] at h
      split at h
      · cases h
      · simp at h; subst h; exact List.suffix_cons _ _
  | cls neg items => intro e s x h; obtain ⟨c, s', rfl, _, rfl⟩ := mem_cls.mp h; exact List.suffix_cons _ _
  | seq a b iha ihb =>
    intro e s x h
    obtain ⟨y, hy, hx⟩ := mem_seq.mp h
    exact (ihb _ _ _ hx).trans (iha _ _ _ hy)
  | alt a b iha ihb =>
    intro e s x h
    rcases mem_alt.mp h with h | h
    · exact iha _ _ _ h
    · exact ihb _ _ _ h
  | grp r ih => intro e s x h; exact ih _ _ _ (mem_grp.mp h)
  | rep r lo hi ih => intro e s x h; exact iter_suffix r.run ih lo hi e s x (mem_rep.mp h)
  | opt r ih =>
    intro e s x h
    rcases mem_opt.mp h with h | h
    · exact ih _ _ _ h
    · subst h; exact List.suffix_refl _
  | plus r ih => intro e s x h; exact iter_suffix r.run ih 1 s.length e s x h
  | cap n r ih =>
    intro e s x h
    simp only [Rx.run, List.mem_map] at h
    obtain ⟨y, hy, rfl⟩ := h
    exact ih _ _ y hy
  | bref n =>
    intro e s x h
    simp only [Rx.run] at h
    cases hl : e.lookup n with
    | none => simp [hl] at h
    | some t =>
      simp only [hl] at h
      cases hs : stripPrefix t s with
      | none => simp [hs] at h
      | some s' =>
        simp [hs] at h; subst h
        exact ⟨t, (stripPrefix_suffix _ _ _ hs).symm⟩
  | nla r _ =>
    intro e s x h
    obtain ⟨_, rfl⟩ := mem_nla.mp h
    exact List.suffix_refl _

theorem suffix_length_lt {s t : Str} (h : t <:+ s) (hne : t ≠ s) : t.length < s.length := by
  obtain ⟨p, rfl⟩ := h
  cases p with
  | nil => simp at hne
  | cons a q => simp; omega

/-- the regex has a match starting at some position of `s` -/
def HasMatch (r : Rx) (s : Str) : Prop := ∃ t, t <:+ s ∧ r.run [] t ≠ []

theorem matchAt_isSome (r : Rx) (s : Str) : (matchAt r s).isSome ↔ r.run [] s ≠ [] := by
  unfold matchAt
  cases r.run [] s <;> simp

theorem search_isSome_iff (r : Rx) (s : Str) : (search r s).isSome ↔ HasMatch r s := by
  induction s with
  | nil =>
    simp only [search, Option.isSome_map, matchAt_isSome, HasMatch]
    constructor
    · intro h; exact ⟨[], List.suffix_refl _, h⟩
    · rintro ⟨t, ht, h⟩
      have : t = [] := List.eq_nil_of_suffix_nil ht
      subst this; exact h
  | cons c t ih =>
    simp only [search]
    cases hm : matchAt r (c :: t) with
    | some rest =>
      simp only [Option.isSome_some, true_iff]
      exact ⟨c :: t, List.suffix_refl _, (matchAt_isSome r _).mp (by simp [hm])⟩
    | none =>
      simp only [Option.isSome_map, ih, HasMatch]
      have hnone : r.run [] (c :: t) = [] := by
        cases hr : r.run [] (c :: t) with
        | nil => rfl
        | cons y ys =>
          have : (matchAt r (c :: t)).isSome := (matchAt_isSome r _).mpr (by simp [hr])
          simp [hm] at this
      constructor
      · rintro ⟨u, hu, h⟩; exact ⟨u, hu.trans (List.suffix_cons _ _), h⟩
      · rintro ⟨u, hu, h⟩
        rcases List.suffix_cons_iff.mp hu with rfl | hu'
        · exact absurd hnone h
        · exact ⟨u, hu', h⟩

end Jasm

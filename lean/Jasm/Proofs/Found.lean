import Jasm.Proofs.Scan
import Jasm.Proofs.Strict
/-!
# The executable specification of the verdict (`foundSpec`) = the engine's search (helper lemmas)

`foundSpec` is what the specification differential of the checks evaluates against the real code;
here it is connected to the model of the engine: on the capture-free literal fragment, for a compiled
rule without empty match and a well-formed listing, `search` finds something iff `foundSpec` says so.
-/
namespace Jasm

theorem occursAt_isSome (fl : Flags) (p : Pat) (L : List Inst) (i : Nat) :
    (occursAt fl p L i).isSome = true ↔ denI fl p [] (L.drop i) ≠ [] := by
  unfold occursAt
  cases denI fl p [] (L.drop i) <;> simp

theorem foundSpec_iff (fl : Flags) (p : Pat) (L : List Inst) :
    foundSpec fl p L = true ↔ ∃ n, n ≤ L.length ∧ denI fl p [] (L.drop n) ≠ [] := by
  unfold foundSpec
  simp only [List.any_eq_true, List.mem_range, occursAt_isSome]
  constructor
  · rintro ⟨n, hn, h⟩; exact ⟨n, by omega, h⟩
  · rintro ⟨n, hn, h⟩; exact ⟨n, by omega, h⟩

/-- the engine finds a match on the stream iff the pattern denotes something at some instruction -/
theorem search_iff_den (fl : Flags) (caps : List Str) (p : Pat) (hp : litI p = true) (r : Rx)
    (hc : comp fl caps p = .ok r) (hne : NoEmptyMatch r) (L : List Inst) (hL : OkA L) :
    (search r (encAll L)).isSome = true ↔ ∃ n, n ≤ L.length ∧ denI fl p [] (L.drop n) ≠ [] := by
  have hm := masterI fl caps p hp r hc
  constructor
  · intro h
    cases hs : search r (encAll L) with
    | none => rw [hs] at h; cases h
    | some x =>
      obtain ⟨sk, m, rest⟩ := x
      obtain ⟨n, k, _, hk, _, hn, _, _⟩ := leftmost_aligned fl caps p hp r hc hne L hL sk m rest hs
      exact ⟨n, by omega, List.ne_nil_of_mem hk⟩
  · rintro ⟨n, _, hd⟩
    rw [search_isSome_iff]
    obtain ⟨y, hy⟩ := List.exists_mem_of_ne_nil _ hd
    obtain ⟨yk, yσ⟩ := y
    have hpure : yσ = [] := hm.pure [] (L.drop n) (yk, yσ) hy
    subst hpure
    have := (hm.run_iff [] [] (L.drop n) _ (okI_drop L n (okA_okI hL))).mpr ⟨yk, hy, rfl⟩
    exact ⟨encAll (L.drop n), encAll_drop_suffix L n, List.ne_nil_of_mem this⟩

/-- **the verdict specification is the engine's search** on the fragment -/
theorem found_correct (fl : Flags) (caps : List Str) (p : Pat) (hp : litI p = true) (r : Rx)
    (hc : comp fl caps p = .ok r) (hne : NoEmptyMatch r) (L : List Inst) (hL : OkA L) :
    (search r (encAll L)).isSome = foundSpec fl p L := by
  have h1 := search_iff_den fl caps p hp r hc hne L hL
  have h2 := foundSpec_iff fl p L
  cases hs : (search r (encAll L)).isSome <;> cases hf : foundSpec fl p L
  · rfl
  · exact absurd (h1.mpr (h2.mp hf)) (by simp [hs])
  · exact absurd (h2.mpr (h1.mp hs)) (by simp [hf])
  · rfl

end Jasm

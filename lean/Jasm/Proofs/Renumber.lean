import Jasm.Proofs.FrontEnd
/-!
# The engine's textual numbering of capturing groups leaves a regex unchanged when its groups are
already numbered consecutively in textual order
-/
namespace Jasm

theorem range'_split (n a b : Nat) (l1 l2 : List Nat) (h1 : l1.length = a) (h2 : l2.length = b)
    (h : l1 ++ l2 = List.range' n (a + b)) : l1 = List.range' n a ∧ l2 = List.range' (n + a) b := by
  have hr : List.range' n (a + b) = List.range' n a ++ List.range' (n + a) b := by
    rw [List.range'_append_1]
  rw [hr] at h
  exact List.append_inj h (by simp [h1])

theorem renumber_id : ∀ (r : Rx) (n : Nat), r.capNumbers = List.range' n r.capNumbers.length →
    r.renumber n = (r, n + r.capNumbers.length)
  | .seq a b, n, h => by
    simp only [Rx.capNumbers, List.length_append] at h
    obtain ⟨ha, hb⟩ := range'_split n _ _ _ _ rfl rfl h
    simp [Rx.renumber, renumber_id a n ha, renumber_id b _ hb, Rx.capNumbers, Nat.add_assoc]
  | .alt a b, n, h => by
    simp only [Rx.capNumbers, List.length_append] at h
    obtain ⟨ha, hb⟩ := range'_split n _ _ _ _ rfl rfl h
    simp [Rx.renumber, renumber_id a n ha, renumber_id b _ hb, Rx.capNumbers, Nat.add_assoc]
  | .grp r, n, h => by simp only [Rx.capNumbers] at h; simp [Rx.renumber, renumber_id r n h, Rx.capNumbers]
  | .rep r lo hi, n, h => by simp only [Rx.capNumbers] at h; simp [Rx.renumber, renumber_id r n h, Rx.capNumbers]
  | .opt r, n, h => by simp only [Rx.capNumbers] at h; simp [Rx.renumber, renumber_id r n h, Rx.capNumbers]
  | .plus r, n, h => by simp only [Rx.capNumbers] at h; simp [Rx.renumber, renumber_id r n h, Rx.capNumbers]
  | .nla r, n, h => by simp only [Rx.capNumbers] at h; simp [Rx.renumber, renumber_id r n h, Rx.capNumbers]
  | .cap k r, n, h => by
    simp only [Rx.capNumbers, List.length_cons] at h
    have hr : List.range' n (r.capNumbers.length + 1) = n :: List.range' (n + 1) r.capNumbers.length := by
      rw [List.range'_succ]
    rw [hr] at h
    simp only [List.cons.injEq] at h
    obtain ⟨rfl, h2⟩ := h
    simp [Rx.renumber, renumber_id r _ h2, Rx.capNumbers]
    omega
  | .eps, n, _ | .chr _, n, _ | .esc _, n, _ | .any, n, _ | .cls _ _, n, _ | .bref _, n, _ => by
    simp [Rx.renumber, Rx.capNumbers]

end Jasm

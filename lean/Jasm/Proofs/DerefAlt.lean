import Jasm.Proofs.DerefLang
/-!
# `$deref` whose components are `$or` alternatives of literal names

`{main_reg: [{$or: [rax, rbx]}], constant_offset: [{$or: [0x8, 0x10]}]}`: each present component is a
non-empty list of alternatives.  The compiled regex again has a finite language, the `derefTexts` of
the specification: every combination of one alternative per component.
-/
namespace Jasm.C06
open Jasm

/-- a component given as alternatives -/
def altPat (l : List Str) : Pat := .or (l.map fun v => .derefProp v 0) Times.one

def altRx (l : List Str) : Rx := .grp (orJoin (l.map lit))

structure DerefAlt where
  a : List Str
  b : Option (List Str)
  c : Option (List Str)
  k : Option (List Str)

def afield (name : String) (l : List Str) : Pat := .derefField name.toList [altPat l]

def DerefAlt.fields (d : DerefAlt) : List Pat :=
  [afield "main_reg" d.a] ++
    (match d.b with | some b => [afield "register_multiplier" b] | none => []) ++
    (match d.c with | some c => [afield "constant_multiplier" c] | none => []) ++
    (match d.k with | some k => [afield "constant_offset" k] | none => [])

def DerefAlt.toPat (d : DerefAlt) : Pat := .deref d.fields Times.one

/-- a list of alternatives is usable: not empty, no empty alternative -/
def AltOK (l : List Str) : Prop := l ≠ [] ∧ ∀ x ∈ l, x ≠ []

def DerefAlt.WF (d : DerefAlt) : Prop :=
  AltOK d.a ∧ (∀ b, d.b = some b → AltOK b) ∧ (∀ c, d.c = some c → AltOK c) ∧ (∀ k, d.k = some k → AltOK k)

def DerefAlt.rx (d : DerefAlt) : Rx :=
  let mid : Rx := match d.b, d.c with
    | some b, some c => seqAll [.esc '+', .seq optionalPercent (altRx b), .esc '*', .seq optionalHex (altRx c)]
    | some b, none => seqAll [.esc '+', .seq optionalPercent (altRx b)]
    | none, some c => seqAll [.esc '+', .seq optionalHex (altRx c)]
    | none, none => .eps
  let off : Rx := match d.k with
    | some k => seqAll [.esc '+', .seq optionalHex (altRx k)]
    | none => .eps
  .seq (seqAll [.esc '[', optionalPercent, altRx d.a, mid, off, .esc ']']) (.chr ',')

theorem compList_props (fl : Flags) (caps : List Str) (l : List Str) :
    compList fl caps (l.map fun v => Pat.derefProp v 0) = .ok (l.map lit) := by
  induction l with
  | nil => simp [compList, pure, Except.pure]
  | cons v vs ih => simp [compList, comp, ih, bind, Except.bind, pure, Except.pure]

theorem comp_altPat (fl : Flags) (caps : List Str) (l : List Str) : comp fl caps (altPat l) = .ok (altRx l) := by
  simp [altPat, altRx, comp, compList_props, withTimes, bind, Except.bind, pure, Except.pure]

theorem componentTexts_altPat (l : List Str) : componentTexts (altPat l) = l := by
  simp only [altPat, componentTexts]
  induction l with
  | nil => rfl
  | cons v vs ih => simp [List.filterMap_cons, ih]

theorem render_altRx_ne (l : List Str) : ¬ ((altRx l).render = []) := by
  simp [altRx, Rx.render]

theorem lang_altAll_grp_lit : ∀ (l : List Str), l ≠ [] → (altAll ((l.map lit).map Rx.grp)).lang = some l
  | [], h => absurd rfl h
  | [x], _ => by simp [altAll, Rx.lang, lang_lit]
  | x :: y :: rest, _ => by
    have ih := lang_altAll_grp_lit (y :: rest) (by simp)
    simp only [List.map_cons] at ih ⊢
    simp only [altAll, Rx.lang, lang_lit, ih]
    simp

theorem lang_altRx (l : List Str) (h : l ≠ []) : (altRx l).lang = some l := by
  simp only [altRx, Rx.lang, orJoin]
  exact lang_altAll_grp_lit l h

/-- the accepted texts, explicitly: one alternative per present component, each with its optional prefix -/
def DerefAlt.texts (d : DerefAlt) : List Str :=
  let sp (pre : String) (l : List Str) : List Str := l.map (pre.toList ++ ·) ++ l
  let mids : List Str := match d.b, d.c with
    | some b, some c => (sp "%" b).flatMap fun b' => (sp "0x" c).map fun c' => '+' :: b' ++ '*' :: c'
    | some b, none => (sp "%" b).map fun b' => '+' :: b'
    | none, some c => (sp "0x" c).map fun c' => '+' :: c'
    | none, none => [[]]
  let offs : List Str := match d.k with
    | some k => (sp "0x" k).map fun k' => '+' :: k'
    | none => [[]]
  (sp "%" d.a).flatMap fun a' => mids.flatMap fun m => offs.map fun o => '[' :: a' ++ m ++ o ++ [']']

theorem altOK_not_allEmpty (l : List Str) (h : AltOK l) : ¬ ∀ x ∈ l, x = [] := by
  obtain ⟨hne, hall⟩ := h
  intro hcon
  cases l with
  | nil => exact hne rfl
  | cons x xs => exact hall x (by simp) (hcon x (by simp))

theorem comp_derefAlt (fl : Flags) (caps : List Str) (d : DerefAlt) :
    comp fl caps d.toPat = .ok d.rx := by
  obtain ⟨a, b, c, k⟩ := d
  cases b <;> cases c <;> cases k <;>
    simp [DerefAlt.toPat, DerefAlt.fields, afield, DerefAlt.rx, comp, compFields, comp_altPat, derefChildNames, bind,
      Except.bind, pure, Except.pure, List.find?, render_altRx_ne]

theorem derefTexts_alt (d : DerefAlt) (h : d.WF) : derefTexts d.fields = d.texts := by
  obtain ⟨a, b, c, k⟩ := d
  obtain ⟨ha, hb, hc, hk⟩ := h
  simp only at ha hb hc hk
  cases b with
  | none =>
    cases c with
    | none =>
      cases k with
      | none => simp [derefTexts, fieldTexts, componentTexts_altPat, DerefAlt.fields, afield, DerefAlt.texts, List.find?]
      | some k =>
        have := altOK_not_allEmpty k (hk k rfl)
        simp [derefTexts, fieldTexts, componentTexts_altPat, DerefAlt.fields, afield, DerefAlt.texts, List.find?, this]
    | some c =>
      have h2 := altOK_not_allEmpty c (hc c rfl)
      cases k with
      | none => simp [derefTexts, fieldTexts, componentTexts_altPat, DerefAlt.fields, afield, DerefAlt.texts, List.find?, h2]
      | some k =>
        have := altOK_not_allEmpty k (hk k rfl)
        simp [derefTexts, fieldTexts, componentTexts_altPat, DerefAlt.fields, afield, DerefAlt.texts, List.find?, this, h2]
  | some b =>
    have h1 := altOK_not_allEmpty b (hb b rfl)
    cases c with
    | none =>
      cases k with
      | none => simp [derefTexts, fieldTexts, componentTexts_altPat, DerefAlt.fields, afield, DerefAlt.texts, List.find?, h1]
      | some k =>
        have := altOK_not_allEmpty k (hk k rfl)
        simp [derefTexts, fieldTexts, componentTexts_altPat, DerefAlt.fields, afield, DerefAlt.texts, List.find?, this, h1]
    | some c =>
      have h2 := altOK_not_allEmpty c (hc c rfl)
      cases k with
      | none => simp [derefTexts, fieldTexts, componentTexts_altPat, DerefAlt.fields, afield, DerefAlt.texts, List.find?, h1, h2]
      | some k =>
        have := altOK_not_allEmpty k (hk k rfl)
        simp [derefTexts, fieldTexts, componentTexts_altPat, DerefAlt.fields, afield, DerefAlt.texts, List.find?, this, h1, h2]

theorem flatMap_single {α β : Type} (f : α → β) (l : List α) : l.flatMap (fun x => [f x]) = l.map f := by
  induction l with
  | nil => rfl
  | cons x xs ih => simp [List.flatMap_cons, ih]

theorem lang_rxAlt (d : DerefAlt) (h : d.WF) : d.rx.lang = some (d.texts.map (· ++ [','])) := by
  obtain ⟨a, b, c, k⟩ := d
  obtain ⟨ha, hb, hc, hk⟩ := h
  simp only at ha hb hc hk
  have la := lang_altRx a ha.1
  cases b with
  | none =>
    cases c with
    | none =>
      cases k with
      | none => simp [DerefAlt.rx, DerefAlt.texts, Rx.lang, seqAll, la, lang_optionalPercent, lang_optionalHex, flatMap_single, List.flatMap_map, List.map_flatMap, List.map_map, List.map_append, List.flatMap_append, Function.comp_def, List.append_assoc]
      | some k =>
        have lk := lang_altRx k (hk k rfl).1
        simp [DerefAlt.rx, DerefAlt.texts, Rx.lang, seqAll, la, lk, lang_optionalPercent, lang_optionalHex, flatMap_single, List.flatMap_map, List.map_flatMap, List.map_map, List.map_append, List.flatMap_append, Function.comp_def, List.append_assoc]
    | some c =>
      have lc := lang_altRx c (hc c rfl).1
      cases k with
      | none => simp [DerefAlt.rx, DerefAlt.texts, Rx.lang, seqAll, la, lc, lang_optionalPercent, lang_optionalHex, flatMap_single, List.flatMap_map, List.map_flatMap, List.map_map, List.map_append, List.flatMap_append, Function.comp_def, List.append_assoc]
      | some k =>
        have lk := lang_altRx k (hk k rfl).1
        simp [DerefAlt.rx, DerefAlt.texts, Rx.lang, seqAll, la, lc, lk, lang_optionalPercent, lang_optionalHex, flatMap_single, List.flatMap_map, List.map_flatMap, List.map_map, List.map_append, List.flatMap_append, Function.comp_def, List.append_assoc]
  | some b =>
    have lb := lang_altRx b (hb b rfl).1
    cases c with
    | none =>
      cases k with
      | none => simp [DerefAlt.rx, DerefAlt.texts, Rx.lang, seqAll, la, lb, lang_optionalPercent, lang_optionalHex, flatMap_single, List.flatMap_map, List.map_flatMap, List.map_map, List.map_append, List.flatMap_append, Function.comp_def, List.append_assoc]
      | some k =>
        have lk := lang_altRx k (hk k rfl).1
        simp [DerefAlt.rx, DerefAlt.texts, Rx.lang, seqAll, la, lb, lk, lang_optionalPercent, lang_optionalHex, flatMap_single, List.flatMap_map, List.map_flatMap, List.map_map, List.map_append, List.flatMap_append, Function.comp_def, List.append_assoc]
    | some c =>
      have lc := lang_altRx c (hc c rfl).1
      cases k with
      | none => simp [DerefAlt.rx, DerefAlt.texts, Rx.lang, seqAll, la, lb, lc, lang_optionalPercent, lang_optionalHex, flatMap_single, List.flatMap_map, List.map_flatMap, List.map_map, List.map_append, List.flatMap_append, Function.comp_def, List.append_assoc]
      | some k =>
        have lk := lang_altRx k (hk k rfl).1
        simp [DerefAlt.rx, DerefAlt.texts, Rx.lang, seqAll, la, lb, lc, lk, lang_optionalPercent, lang_optionalHex, flatMap_single, List.flatMap_map, List.map_flatMap, List.map_map, List.map_append, List.flatMap_append, Function.comp_def, List.append_assoc]

/-! ## what a regex with such a finite language does on the operand text -/

theorem lang_run (r : Rx) (texts : List Str) (hl : r.lang = some (texts.map (· ++ [',']))) (e : Env) (s : Str) (x : Env × Str) :
    x ∈ r.run e s ↔ ∃ t ∈ texts, s = t ++ ',' :: x.2 ∧ x.1 = e := by
  rw [mem_lang r _ hl e s x]
  simp only [List.mem_map]
  constructor
  · rintro ⟨_, ⟨t, ht, rfl⟩, hs, he⟩; exact ⟨t, ht, by simpa using hs, he⟩
  · rintro ⟨t, ht, hs, he⟩; exact ⟨_, ⟨t, ht, rfl⟩, by simpa using hs, he⟩

theorem lang_field (r : Rx) (texts : List Str) (hl : r.lang = some (texts.map (· ++ [','])))
    (hclean : ∀ t ∈ texts, ∀ c ∈ t, c ≠ ',')
    (T : Str) (f : Str) (fs : List Str) (hf : ∀ c ∈ f, c ≠ ',') (e : Env) (x : Env × Str) :
    x ∈ r.run e (txtO T (f :: fs)) ↔ (f ∈ texts ∧ x = (e, txtO T fs)) := by
  rw [lang_run r texts hl, txtO_cons]
  constructor
  · rintro ⟨t, ht, hs, he⟩
    obtain ⟨q, hq1, hq2⟩ := prefix_inside t f (txtO T fs) (',' :: x.2) (hclean t ht) hs
    cases q with
    | nil =>
      simp at hq1 hq2
      obtain ⟨x1, x2⟩ := x
      simp at he hq2; subst he
      exact ⟨by rw [hq1]; exact ht, by rw [hq2]⟩
    | cons c q' =>
      simp at hq2
      exact absurd hq2.1.symm (hf c (by rw [hq1]; simp))
  · rintro ⟨hmem, rfl⟩
    exact ⟨f, hmem, rfl, rfl⟩

theorem lang_no_field (r : Rx) (texts : List Str) (hl : r.lang = some (texts.map (· ++ [','])))
    (hbar : ∀ t ∈ texts, ∀ c ∈ t, c ≠ '|') (T : Str) (e : Env) : r.run e (txtO T []) = [] := by
  apply List.eq_nil_iff_forall_not_mem.mpr
  intro x hx
  obtain ⟨t, ht, hs, _⟩ := (lang_run r texts hl e _ x).mp hx
  rw [txtO_nil] at hs
  cases t with
  | nil => simp at hs
  | cons c t' =>
    simp at hs
    exact hbar _ ht c (by simp) hs.1.symm

/-- **the compiled `$deref` with alternatives accepts exactly the specification's texts** -/
theorem derefAlt_lang (fl : Flags) (caps : List Str) (d : DerefAlt) (h : d.WF) :
    ∃ r, comp fl caps d.toPat = .ok r ∧ r.lang = some ((derefTexts d.fields).map (· ++ [','])) :=
  ⟨d.rx, comp_derefAlt fl caps d, by rw [derefTexts_alt d h]; exact lang_rxAlt d h⟩

end Jasm.C06

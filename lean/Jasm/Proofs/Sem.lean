import Jasm.Proofs.RxLemmas
import Jasm.Spec.Den
/-!
# Generic layer of the master theorem (helper lemmas)

`Sem txt Ok r d`: on every encoded state `txt w` (with `Ok w`), the successes of regex `r` are exactly
"consume `k` items" for the `k` the denotation `d` lists, the capture environment being untouched.
The combinators of the compiler (sequence, alternation, bounded repetition, negative look-ahead
followed by a skip) are shown to preserve `Sem`, once and for all, for both levels (instructions of
a listing, operand fields of an instruction).
-/
namespace Jasm

abbrev Den (α : Type) := Sigma → List α → List (Nat × Sigma)

/-- pointwise relation between two lists of the same length -/
inductive All2 {α β : Type} (R : α → β → Prop) : List α → List β → Prop where
  | nil : All2 R [] []
  | cons {a b as bs} : R a b → All2 R as bs → All2 R (a :: as) (b :: bs)

/-- `n`-fold sequential composition of a denotation -/
def powDen {α : Type} (d : Den α) : Nat → Den α
  | 0 => fun σ _ => [(0, σ)]
  | n+1 => fun σ w => (d σ w).flatMap fun (k, σ') => (powDen d n σ' (w.drop k)).map fun (k', σ'') => (k + k', σ'')

theorem powDen_eq_seqDen {α : Type} (d : Den α) (n : Nat) : powDen d n = seqDen (List.replicate n d) := by
  induction n with
  | zero => funext σ w; simp [powDen, seqDen]
  | succ n ih => funext σ w; simp [powDen, seqDen, List.replicate_succ, ih]

/-- `times {lo,hi}` = between `lo` and `hi` consecutive repetitions, each consuming what one
occurrence consumes -/
theorem mem_iterDen {α : Type} (d : Den α) (lo hi : Nat) (σ : Sigma) (w : List α) (x : Nat × Sigma) :
    x ∈ iterDen d lo hi σ w ↔ ∃ n, lo ≤ n ∧ n ≤ hi ∧ x ∈ powDen d n σ w := by
  induction hi generalizing lo σ w x with
  | zero =>
    simp only [iterDen]
    split
    · rename_i h; subst h
      constructor
      · intro hx; exact ⟨0, by omega, by omega, by simpa [powDen] using hx⟩
      · rintro ⟨n, _, hn, hx⟩
        have : n = 0 := by omega
        subst this; simpa [powDen] using hx
    · rename_i h
      simp only [List.not_mem_nil, false_iff]
      rintro ⟨n, h1, h2, _⟩; omega
  | succ m ih =>
    simp only [iterDen, List.mem_append, List.mem_flatMap, List.mem_map]
    constructor
    · rintro (⟨⟨k, σ1⟩, hk, y, hy, rfl⟩ | h0)
      · obtain ⟨n, h1, h2, hn⟩ := (ih _ _ _ _).mp hy
        refine ⟨n + 1, by omega, by omega, ?_⟩
        simp only [powDen, List.mem_flatMap, List.mem_map]
        exact ⟨(k, σ1), hk, y, hn, rfl⟩
      · split at h0
        · rename_i h; subst h
          exact ⟨0, by omega, by omega, by simpa [powDen] using h0⟩
        · cases h0
    · rintro ⟨n, h1, h2, hn⟩
      cases n with
      | zero =>
        right
        have : lo = 0 := by omega
        subst this
        simpa [powDen] using hn
      | succ n =>
        left
        simp only [powDen, List.mem_flatMap, List.mem_map] at hn
        obtain ⟨⟨k, σ1⟩, hk, y, hy, rfl⟩ := hn
        exact ⟨(k, σ1), hk, y, (ih _ _ _ _).mpr ⟨n, by omega, by omega, hy⟩, rfl⟩

structure Sem {α : Type} (txt : List α → Str) (Ok : List α → Prop) (r : Rx) (d : Den α) : Prop where
  run_iff : ∀ (σ : Sigma) (e : Env) (w : List α) (x : Env × Str), Ok w →
    (x ∈ r.run e (txt w) ↔ ∃ k, (k, σ) ∈ d σ w ∧ x = (e, txt (w.drop k)))
  pure : ∀ (σ : Sigma) (w : List α) (p : Nat × Sigma), p ∈ d σ w → p.2 = σ

/-- `Ok` is preserved when items are consumed -/
def DropClosed {α : Type} (Ok : List α → Prop) : Prop := ∀ w k, Ok w → Ok (w.drop k)

section
variable {α : Type} {txt : List α → Str} {Ok : List α → Prop}

theorem sem_grp {r : Rx} {d : Den α} (h : Sem txt Ok r d) : Sem txt Ok (.grp r) d :=
  ⟨fun σ e w x hw => by rw [mem_grp]; exact h.run_iff σ e w x hw, h.pure⟩

theorem sem_eps : Sem txt Ok .eps (fun σ (_ : List α) => [(0, σ)]) :=
  ⟨fun σ e w x _ => by simp [mem_eps], fun σ w p hp => by simp at hp; simp [hp]⟩

theorem sem_seqAll (hdc : DropClosed Ok) (rs : List Rx) (ds : List (Den α))
    (h : All2 (Sem txt Ok) rs ds) : Sem txt Ok (seqAll rs) (seqDen ds) := by
  induction h with
  | nil =>
    exact ⟨fun σ e w x _ => by simp [mem_seqAll_nil, seqDen], fun σ w p hp => by simp [seqDen] at hp; simp [hp]⟩
  | @cons r d rs ds hr _ ih =>
    constructor
    · intro σ e w x hw
      rw [mem_seqAll_cons]
      simp only [seqDen, List.mem_flatMap, List.mem_map]
      constructor
      · rintro ⟨y, hy, hx⟩
        obtain ⟨k, hk, rfl⟩ := (hr.run_iff σ e w y hw).mp hy
        obtain ⟨k', hk', rfl⟩ := (ih.run_iff σ e (w.drop k) x (hdc w k hw)).mp hx
        exact ⟨k + k', ⟨(k, σ), hk, (k', σ), hk', rfl⟩, by simp [List.drop_drop, Nat.add_comm]⟩
      · rintro ⟨k0, ⟨⟨k, σ1⟩, hk, ⟨k', σ2⟩, hk', heq⟩, rfl⟩
        have h1 : σ1 = σ := hr.pure σ w _ hk
        subst h1
        have h2 : σ2 = σ1 := ih.pure σ1 _ _ hk'
        subst h2
        simp only [Prod.mk.injEq, and_true] at heq
        subst heq
        refine ⟨(e, txt (w.drop k)), (hr.run_iff σ2 e w _ hw).mpr ⟨k, hk, rfl⟩, ?_⟩
        exact (ih.run_iff σ2 e (w.drop k) _ (hdc w k hw)).mpr ⟨k', hk', by simp [List.drop_drop, Nat.add_comm]⟩
    · intro σ w p hp
      simp only [seqDen, List.mem_flatMap, List.mem_map] at hp
      obtain ⟨⟨k, σ1⟩, hk, ⟨k', σ2⟩, hk', rfl⟩ := hp
      have h1 : σ1 = σ := hr.pure σ w _ hk
      subst h1
      have := ih.pure σ1 _ _ hk'
      simpa using this

theorem sem_alts (rs : List Rx) (ds : List (Den α)) (h : All2 (Sem txt Ok) rs ds) :
    Sem txt Ok (altAll rs) (fun σ w => ds.flatMap fun d => d σ w) := by
  constructor
  · intro σ e w x hw
    rw [mem_altAll]
    simp only [List.mem_flatMap]
    induction h with
    | nil => simp
    | @cons r d rs ds hr _ ih =>
      constructor
      · rintro ⟨r', hr', hx⟩
        simp only [List.mem_cons] at hr'
        rcases hr' with rfl | hr'
        · obtain ⟨k, hk, rfl⟩ := (hr.run_iff σ e w x hw).mp hx
          exact ⟨k, ⟨d, by simp, hk⟩, rfl⟩
        · obtain ⟨k, ⟨d', hd', hk⟩, rfl⟩ := ih.mp ⟨r', hr', hx⟩
          exact ⟨k, ⟨d', by simp [hd'], hk⟩, rfl⟩
      · rintro ⟨k, ⟨d', hd', hk⟩, rfl⟩
        simp only [List.mem_cons] at hd'
        rcases hd' with rfl | hd'
        · exact ⟨r, by simp, (hr.run_iff σ e w _ hw).mpr ⟨k, hk, rfl⟩⟩
        · obtain ⟨r', hr', hx⟩ := ih.mpr ⟨k, ⟨d', hd', hk⟩, rfl⟩
          exact ⟨r', by simp [hr'], hx⟩
  · intro σ w p hp
    simp only [List.mem_flatMap] at hp
    obtain ⟨d, hd, hp⟩ := hp
    induction h with
    | nil => simp at hd
    | @cons r d' rs ds hr _ ih =>
      simp only [List.mem_cons] at hd
      rcases hd with rfl | hd
      · exact hr.pure σ w p hp
      · exact ih hd

theorem forall₂_map_grp (rs : List Rx) (ds : List (Den α)) (h : All2 (Sem txt Ok) rs ds) :
    All2 (Sem txt Ok) (rs.map .grp) ds := by
  induction h with
  | nil => exact .nil
  | cons hr _ ih => exact .cons (sem_grp hr) ih

/-- `(?:(?:c1)|(?:c2)|…)` -/
theorem sem_or (rs : List Rx) (ds : List (Den α)) (h : All2 (Sem txt Ok) rs ds) :
    Sem txt Ok (.grp (orJoin rs)) (fun σ w => ds.flatMap fun d => d σ w) :=
  sem_grp (sem_alts _ _ (forall₂_map_grp rs ds h))

/-- consuming items moves the position: the remaining text has the same length only if nothing was consumed -/
def PosStrict {α : Type} (txt : List α → Str) : Prop :=
  ∀ w k, (txt (w.drop k)).length = (txt w).length → w.drop k = w

theorem posStrict_of_cons {α : Type} (txt : List α → Str)
    (hcons : ∀ a w, (txt w).length < (txt (a :: w)).length) : PosStrict txt := by
  have hle : ∀ w k, (txt (w.drop k)).length ≤ (txt w).length := by
    intro w
    induction w with
    | nil => intro k; simp
    | cons a w ih =>
      intro k
      cases k with
      | zero => simp
      | succ k => have := ih k; have := hcons a w; simp only [List.drop_succ_cons]; omega
  intro w k h
  cases w with
  | nil => simp
  | cons a w =>
    cases k with
    | zero => simp
    | succ k =>
      have := hle w k; have := hcons a w
      simp only [List.drop_succ_cons] at h
      omega

/-- the engine's guarded iteration yields only what the specification's repetition lists -/
theorem sem_iterG_sound (hdc : DropClosed Ok) {r : Rx} {d : Den α} (h : Sem txt Ok r d) (σ : Sigma) :
    ∀ (hi lo : Nat) (last : Option Nat) (e : Env) (w : List α) (x : Env × Str), Ok w →
      x ∈ iterG r.run lo hi last e (txt w) → ∃ k, (k, σ) ∈ iterDen d lo hi σ w ∧ x = (e, txt (w.drop k)) := by
  intro hi
  induction hi with
  | zero =>
    intro lo last e w x hw hx
    rw [iterG_hi_zero] at hx
    simp only [iterDen]
    split at hx
    · rename_i h0; simp only [List.mem_singleton] at hx; subst hx
      exact ⟨0, by simp [h0], by simp⟩
    · cases hx
  | succ n ih =>
    intro lo last e w x hw hx
    have step : ∀ lo' last' (y : Env × Str), y ∈ r.run e (txt w) → x ∈ iterG r.run lo' n last' y.1 y.2 →
        ∃ k, (∃ p ∈ d σ w, ∃ q ∈ iterDen d lo' n p.2 (w.drop p.1), (k, σ) = (p.1 + q.1, q.2)) ∧ x = (e, txt (w.drop k)) := by
      intro lo' last' y hy hx2
      obtain ⟨k, hk, rfl⟩ := (h.run_iff σ e w y hw).mp hy
      obtain ⟨k', hk', rfl⟩ := ih lo' last' e (w.drop k) x (hdc w k hw) hx2
      exact ⟨k + k', ⟨(k, σ), hk, (k', σ), hk', rfl⟩, by simp [List.drop_drop, Nat.add_comm]⟩
    cases lo with
    | succ lo =>
      simp only [iterG, List.mem_flatMap] at hx
      obtain ⟨y, hy, hx2⟩ := hx
      obtain ⟨k, ⟨p, hp, q, hq, heq⟩, rfl⟩ := step lo last y hy hx2
      refine ⟨k, ?_, rfl⟩
      simp only [iterDen, List.mem_append, List.mem_flatMap, List.mem_map, Nat.add_sub_cancel]
      exact Or.inl ⟨p, hp, q, hq, heq.symm⟩
    | zero =>
      simp only [iterG, List.mem_append, List.mem_singleton] at hx
      rcases hx with h1 | h0
      · split at h1
        · cases h1
        · obtain ⟨y, hy, hx2⟩ := List.mem_flatMap.mp h1
          obtain ⟨k, ⟨p, hp, q, hq, heq⟩, rfl⟩ := step 0 _ y hy hx2
          refine ⟨k, ?_, rfl⟩
          simp only [iterDen, List.mem_append, List.mem_flatMap, List.mem_map]
          exact Or.inl ⟨p, hp, q, hq, heq.symm⟩
      · subst h0
        exact ⟨0, by simp [iterDen], by simp⟩

/-- optional rounds: every `n`-fold repetition with `n ≤ hi` is found by the guarded iteration
(rounds consuming nothing are skipped), unless the guard blocks and something would be consumed -/
theorem sem_iterG_opt (hdc : DropClosed Ok) (hpos : PosStrict txt) {r : Rx} {d : Den α} (h : Sem txt Ok r d) (σ : Sigma) :
    ∀ (n hi : Nat) (last : Option Nat) (e : Env) (w : List α) (k : Nat), Ok w → n ≤ hi →
      (k, σ) ∈ powDen d n σ w → (last ≠ some (txt w).length ∨ w.drop k = w) →
      (e, txt (w.drop k)) ∈ iterG r.run 0 hi last e (txt w) := by
  intro n
  induction n with
  | zero =>
    intro hi last e w k hw _ hk _
    simp only [powDen, List.mem_singleton, Prod.mk.injEq, and_true] at hk
    subst hk
    simpa using self_mem_iterG r.run hi last e (txt w)
  | succ n ih =>
    intro hi last e w k hw hn hk hcond
    simp only [powDen, List.mem_flatMap, List.mem_map] at hk
    obtain ⟨⟨k1, σ1⟩, hk1, ⟨k', σ2⟩, hk', heq⟩ := hk
    have h1 : σ1 = σ := h.pure σ w _ hk1
    subst h1
    simp only [Prod.mk.injEq] at heq
    obtain ⟨rfl, rfl⟩ := heq
    have hdd : w.drop (k1 + k') = (w.drop k1).drop k' := by simp [List.drop_drop, Nat.add_comm]
    by_cases hz : (txt (w.drop k1)).length = (txt w).length
    · -- a round that consumed nothing: skip it
      have hw1 : w.drop k1 = w := hpos w k1 hz
      rw [hw1] at hk'
      rw [hdd, hw1]
      refine ih hi last e w k' hw (by omega) hk' ?_
      rcases hcond with hc | hc
      · exact Or.inl hc
      · right; rw [hdd, hw1] at hc; exact hc
    · by_cases hb : last = some (txt w).length
      · rcases hcond with hc | hc
        · exact absurd hb hc
        · rw [hc]; exact self_mem_iterG r.run hi last e (txt w)
      · cases hi with
        | zero => omega
        | succ hi =>
          simp only [iterG, hb, if_false, List.mem_append, List.mem_flatMap]
          left
          refine ⟨(e, txt (w.drop k1)), (h.run_iff σ2 e w _ hw).mpr ⟨k1, hk1, rfl⟩, ?_⟩
          rw [hdd]
          refine ih hi (some (txt w).length) e (w.drop k1) k' (hdc w k1 hw) (by omega) hk' (Or.inl ?_)
          intro hc
          simp only [Option.some.injEq] at hc
          exact hz hc.symm

/-- ... and every repetition the specification lists is found by the guarded iteration -/
theorem sem_iterG_complete (hdc : DropClosed Ok) (hpos : PosStrict txt) {r : Rx} {d : Den α} (h : Sem txt Ok r d) (σ : Sigma) :
    ∀ (lo hi : Nat) (e : Env) (w : List α) (k : Nat), Ok w → (k, σ) ∈ iterDen d lo hi σ w →
      (e, txt (w.drop k)) ∈ iterG r.run lo hi none e (txt w) := by
  intro lo
  induction lo with
  | zero =>
    intro hi e w k hw hk
    obtain ⟨n, _, hn, hp⟩ := (mem_iterDen d 0 hi σ w _).mp hk
    exact sem_iterG_opt hdc hpos h σ n hi none e w k hw hn hp (Or.inl (by simp))
  | succ lo ih =>
    intro hi e w k hw hk
    cases hi with
    | zero => simp [iterDen] at hk
    | succ hi =>
      simp only [iterDen, List.mem_append, List.mem_flatMap, List.mem_map, Nat.add_sub_cancel] at hk
      rcases hk with ⟨⟨k1, σ1⟩, hk1, ⟨k', σ2⟩, hk', heq⟩ | h0
      · have h1 : σ1 = σ := h.pure σ w _ hk1
        subst h1
        simp only [Prod.mk.injEq] at heq
        obtain ⟨rfl, rfl⟩ := heq
        simp only [iterG, List.mem_flatMap]
        refine ⟨(e, txt (w.drop k1)), (h.run_iff σ2 e w _ hw).mpr ⟨k1, hk1, rfl⟩, ?_⟩
        have := ih hi e (w.drop k1) k' (hdc w k1 hw) hk'
        simpa [List.drop_drop, Nat.add_comm] using this
      · simp at h0

theorem sem_iter (hdc : DropClosed Ok) (hpos : PosStrict txt) {r : Rx} {d : Den α} (h : Sem txt Ok r d) (lo hi : Nat) :
    Sem txt Ok (.rep r lo hi) (iterDen d lo hi) := by
  constructor
  · intro σ e w x hw
    rw [mem_rep]
    constructor
    · exact sem_iterG_sound hdc h σ hi lo none e w x hw
    · rintro ⟨k, hk, rfl⟩
      exact sem_iterG_complete hdc hpos h σ lo hi e w k hw hk
  · intro σ w p hp
    induction hi generalizing lo w p σ with
    | zero => simp only [iterDen] at hp; split at hp <;> simp at hp; simp [hp]
    | succ n ih =>
      simp only [iterDen, List.mem_append, List.mem_flatMap, List.mem_map] at hp
      rcases hp with ⟨⟨k, σ1⟩, hk, ⟨k', σ2⟩, hk', rfl⟩ | h0
      · have h1 : σ1 = σ := h.pure σ w _ hk
        subst h1
        have := ih _ _ _ _ hk'
        simpa using this
      · split at h0 <;> simp at h0; simp [h0]

theorem sem_withTimes (hdc : DropClosed Ok) (hpos : PosStrict txt) {r : Rx} {d : Den α} (h : Sem txt Ok r d) (t : Times) :
    Sem txt Ok (withTimes r t) (timesDen d t) := by
  unfold withTimes timesDen
  split
  · exact h
  · exact sem_iter hdc hpos h t.lo t.hi

/-- negative look-ahead followed by a skip of exactly one item -/
theorem sem_not {r skip : Rx} {d : Den α} (h : Sem txt Ok r d)
    (hskip : ∀ (e : Env) (w : List α) (x : Env × Str), Ok w →
      (x ∈ skip.run e (txt w) ↔ w ≠ [] ∧ x = (e, txt (w.drop 1)))) :
    Sem txt Ok (.grp (.seq (.nla r) skip))
      (fun σ w => if !w.isEmpty && (d σ w).isEmpty then [(1, σ)] else []) := by
  constructor
  · intro σ e w x hw
    rw [mem_grp, mem_seq]
    constructor
    · rintro ⟨y, hy, hx⟩
      obtain ⟨hnil, rfl⟩ := mem_nla.mp hy
      obtain ⟨hne, rfl⟩ := (hskip e w x hw).mp hx
      have hd : d σ w = [] := by
        cases hdw : d σ w with
        | nil => rfl
        | cons p ps =>
          obtain ⟨pk, pσ⟩ := p
          have hp : (pk, pσ) ∈ d σ w := by simp [hdw]
          have hp2 : pσ = σ := h.pure σ w _ hp
          subst hp2
          have : (e, txt (w.drop pk)) ∈ r.run e (txt w) :=
            (h.run_iff pσ e w _ hw).mpr ⟨pk, hp, rfl⟩
          rw [hnil] at this
          cases this
      refine ⟨1, ?_, rfl⟩
      have : w.isEmpty = false := by cases w <;> simp_all
      simp [this, hd]
    · rintro ⟨k, hk, rfl⟩
      split at hk
      · rename_i hc
        simp only [Bool.and_eq_true, Bool.not_eq_true', List.isEmpty_iff] at hc
        simp only [List.mem_singleton, Prod.mk.injEq, and_true] at hk
        subst hk
        have hne : w ≠ [] := by intro e0; simp [e0] at hc
        refine ⟨(e, txt w), mem_nla.mpr ⟨?_, rfl⟩, (hskip e w _ hw).mpr ⟨hne, rfl⟩⟩
        cases hrun : r.run e (txt w) with
        | nil => rfl
        | cons y ys =>
          have hy : y ∈ r.run e (txt w) := by simp [hrun]
          obtain ⟨k, hk, _⟩ := (h.run_iff σ e w y hw).mp hy
          rw [hc.2] at hk
          cases hk
      · cases hk
  · intro σ w p hp
    split at hp
    · simp at hp; simp [hp]
    · cases hp

end

end Jasm

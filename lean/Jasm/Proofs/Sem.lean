import Jasm.Proofs.RxLemmas
import Jasm.Spec.Den
/-!
# Generic layer of the master theorem (helper lemmas)

`Sem txt Ok r d`: on every encoded state `txt w` (with `Ok w`), the successes of regex `r` are exactly
"consume `k` items" for the `k` the denotation `d` lists, the capture environment being untouched.
The combinators of the compiler (sequence, alternation, bounded repetition, negative look-ahead
followed by a skip) are shown to preserve `Sem`, once and for all, for both levels (instructions of
a listing, operand fields of an instruction).
-/
namespace Jasm

abbrev Den (α : Type) := Sigma → List α → List (Nat × Sigma)

/-- pointwise relation between two lists of the same length -/
inductive All2 {α β : Type} (R : α → β → Prop) : List α → List β → Prop where
  | nil : All2 R [] []
  | cons {a b as bs} : R a b → All2 R as bs → All2 R (a :: as) (b :: bs)

structure Sem {α : Type} (txt : List α → Str) (Ok : List α → Prop) (r : Rx) (d : Den α) : Prop where
  run_iff : ∀ (σ : Sigma) (e : Env) (w : List α) (x : Env × Str), Ok w →
    (x ∈ r.run e (txt w) ↔ ∃ k, (k, σ) ∈ d σ w ∧ x = (e, txt (w.drop k)))
  pure : ∀ (σ : Sigma) (w : List α) (p : Nat × Sigma), p ∈ d σ w → p.2 = σ

/-- `Ok` is preserved when items are consumed -/
def DropClosed {α : Type} (Ok : List α → Prop) : Prop := ∀ w k, Ok w → Ok (w.drop k)

section
variable {α : Type} {txt : List α → Str} {Ok : List α → Prop}

theorem sem_grp {r : Rx} {d : Den α} (h : Sem txt Ok r d) : Sem txt Ok (.grp r) d :=
  ⟨fun σ e w x hw => by rw [mem_grp]; exact h.run_iff σ e w x hw, h.pure⟩

theorem sem_eps : Sem txt Ok .eps (fun σ (_ : List α) => [(0, σ)]) :=
  ⟨fun σ e w x _ => by simp [mem_eps], fun σ w p hp => by simp at hp; simp [hp]⟩

theorem sem_seqAll (hdc : DropClosed Ok) (rs : List Rx) (ds : List (Den α))
    (h : All2 (Sem txt Ok) rs ds) : Sem txt Ok (seqAll rs) (seqDen ds) := by
  induction h with
  | nil =>
    exact ⟨fun σ e w x _ => by simp [mem_seqAll_nil, seqDen], fun σ w p hp => by simp [seqDen] at hp; simp [hp]⟩
  | @cons r d rs ds hr _ ih =>
    constructor
    · intro σ e w x hw
      rw [mem_seqAll_cons]
      simp only [seqDen, List.mem_flatMap, List.mem_map]
      constructor
      · rintro ⟨y, hy, hx⟩
        obtain ⟨k, hk, rfl⟩ := (hr.run_iff σ e w y hw).mp hy
        obtain ⟨k', hk', rfl⟩ := (ih.run_iff σ e (w.drop k) x (hdc w k hw)).mp hx
        exact ⟨k + k', ⟨(k, σ), hk, (k', σ), hk', rfl⟩, by simp [List.drop_drop, Nat.add_comm]⟩
      · rintro ⟨k0, ⟨⟨k, σ1⟩, hk, ⟨k', σ2⟩, hk', heq⟩, rfl⟩
        have h1 : σ1 = σ := hr.pure σ w _ hk
        subst h1
        have h2 : σ2 = σ1 := ih.pure σ1 _ _ hk'
        subst h2
        simp only [Prod.mk.injEq, and_true] at heq
        subst heq
        refine ⟨(e, txt (w.drop k)), (hr.run_iff σ2 e w _ hw).mpr ⟨k, hk, rfl⟩, ?_⟩
        exact (ih.run_iff σ2 e (w.drop k) _ (hdc w k hw)).mpr ⟨k', hk', by simp [List.drop_drop, Nat.add_comm]⟩
    · intro σ w p hp
      simp only [seqDen, List.mem_flatMap, List.mem_map] at hp
      obtain ⟨⟨k, σ1⟩, hk, ⟨k', σ2⟩, hk', rfl⟩ := hp
      have h1 : σ1 = σ := hr.pure σ w _ hk
      subst h1
      have := ih.pure σ1 _ _ hk'
      simpa using this

theorem sem_alts (rs : List Rx) (ds : List (Den α)) (h : All2 (Sem txt Ok) rs ds) :
    Sem txt Ok (altAll rs) (fun σ w => ds.flatMap fun d => d σ w) := by
  constructor
  · intro σ e w x hw
    rw [mem_altAll]
    simp only [List.mem_flatMap]
    induction h with
    | nil => simp
    | @cons r d rs ds hr _ ih =>
      constructor
      · rintro ⟨r', hr', hx⟩
        simp only [List.mem_cons] at hr'
        rcases hr' with rfl | hr'
        · obtain ⟨k, hk, rfl⟩ := (hr.run_iff σ e w x hw).mp hx
          exact ⟨k, ⟨d, by simp, hk⟩, rfl⟩
        · obtain ⟨k, ⟨d', hd', hk⟩, rfl⟩ := ih.mp ⟨r', hr', hx⟩
          exact ⟨k, ⟨d', by simp [hd'], hk⟩, rfl⟩
      · rintro ⟨k, ⟨d', hd', hk⟩, rfl⟩
        simp only [List.mem_cons] at hd'
        rcases hd' with rfl | hd'
        · exact ⟨r, by simp, (hr.run_iff σ e w _ hw).mpr ⟨k, hk, rfl⟩⟩
        · obtain ⟨r', hr', hx⟩ := ih.mpr ⟨k, ⟨d', hd', hk⟩, rfl⟩
          exact ⟨r', by simp [hr'], hx⟩
  · intro σ w p hp
    simp only [List.mem_flatMap] at hp
    obtain ⟨d, hd, hp⟩ := hp
    induction h with
    | nil => simp at hd
    | @cons r d' rs ds hr _ ih =>
      simp only [List.mem_cons] at hd
      rcases hd with rfl | hd
      · exact hr.pure σ w p hp
      · exact ih hd

theorem forall₂_map_grp (rs : List Rx) (ds : List (Den α)) (h : All2 (Sem txt Ok) rs ds) :
    All2 (Sem txt Ok) (rs.map .grp) ds := by
  induction h with
  | nil => exact .nil
  | cons hr _ ih => exact .cons (sem_grp hr) ih

/-- `(?:(?:c1)|(?:c2)|…)` -/
theorem sem_or (rs : List Rx) (ds : List (Den α)) (h : All2 (Sem txt Ok) rs ds) :
    Sem txt Ok (.grp (orJoin rs)) (fun σ w => ds.flatMap fun d => d σ w) :=
  sem_grp (sem_alts _ _ (forall₂_map_grp rs ds h))

theorem sem_iter (hdc : DropClosed Ok) {r : Rx} {d : Den α} (h : Sem txt Ok r d) (lo hi : Nat) :
    Sem txt Ok (.rep r lo hi) (iterDen d lo hi) := by
  constructor
  · intro σ e w x hw
    rw [mem_rep]
    induction hi generalizing lo e w x with
    | zero => simp only [iter, iterDen]; split <;> simp
    | succ n ih =>
      simp only [iter, iterDen, List.mem_append, List.mem_flatMap, List.mem_map]
      constructor
      · rintro (⟨y, hy, hx⟩ | hx)
        · obtain ⟨k, hk, rfl⟩ := (h.run_iff σ e w y hw).mp hy
          obtain ⟨k', hk', rfl⟩ := (ih (lo - 1) e (w.drop k) x (hdc w k hw)).mp hx
          exact ⟨k + k', Or.inl ⟨(k, σ), hk, (k', σ), hk', rfl⟩, by simp [List.drop_drop, Nat.add_comm]⟩
        · split at hx
          · simp at hx; subst hx; exact ⟨0, Or.inr (by simp [*]), by simp⟩
          · simp at hx
      · rintro ⟨k0, (⟨⟨k, σ1⟩, hk, ⟨k', σ2⟩, hk', heq⟩ | h0), rfl⟩
        · have h1 : σ1 = σ := h.pure σ w _ hk
          subst h1
          simp only [Prod.mk.injEq] at heq
          obtain ⟨rfl, rfl⟩ := heq
          left
          refine ⟨(e, txt (w.drop k)), (h.run_iff σ2 e w _ hw).mpr ⟨k, hk, rfl⟩, ?_⟩
          exact (ih (lo - 1) e (w.drop k) _ (hdc w k hw)).mpr ⟨k', hk', by simp [List.drop_drop, Nat.add_comm]⟩
        · right
          split at h0
          · simp at h0; subst h0; simp [*]
          · simp at h0
  · intro σ w p hp
    induction hi generalizing lo w p σ with
    | zero => simp only [iterDen] at hp; split at hp <;> simp at hp; simp [hp]
    | succ n ih =>
      simp only [iterDen, List.mem_append, List.mem_flatMap, List.mem_map] at hp
      rcases hp with ⟨⟨k, σ1⟩, hk, ⟨k', σ2⟩, hk', rfl⟩ | h0
      · have h1 : σ1 = σ := h.pure σ w _ hk
        subst h1
        have := ih _ _ _ _ hk'
        simpa using this
      · split at h0 <;> simp at h0; simp [h0]

theorem sem_withTimes (hdc : DropClosed Ok) {r : Rx} {d : Den α} (h : Sem txt Ok r d) (t : Times) :
    Sem txt Ok (withTimes r t) (timesDen d t) := by
  unfold withTimes timesDen
  split
  · exact h
  · exact sem_iter hdc h t.lo t.hi

/-- negative look-ahead followed by a skip of exactly one item -/
theorem sem_not {r skip : Rx} {d : Den α} (h : Sem txt Ok r d)
    (hskip : ∀ (e : Env) (w : List α) (x : Env × Str), Ok w →
      (x ∈ skip.run e (txt w) ↔ w ≠ [] ∧ x = (e, txt (w.drop 1)))) :
    Sem txt Ok (.grp (.seq (.nla r) skip))
      (fun σ w => if !w.isEmpty && (d σ w).isEmpty then [(1, σ)] else []) := by
  constructor
  · intro σ e w x hw
    rw [mem_grp, mem_seq]
    constructor
    · rintro ⟨y, hy, hx⟩
      obtain ⟨hnil, rfl⟩ := mem_nla.mp hy
      obtain ⟨hne, rfl⟩ := (hskip e w x hw).mp hx
      have hd : d σ w = [] := by
        cases hdw : d σ w with
        | nil => rfl
        | cons p ps =>
          obtain ⟨pk, pσ⟩ := p
          have hp : (pk, pσ) ∈ d σ w := by simp [hdw]
          have hp2 : pσ = σ := h.pure σ w _ hp
          subst hp2
          have : (e, txt (w.drop pk)) ∈ r.run e (txt w) :=
            (h.run_iff pσ e w _ hw).mpr ⟨pk, hp, rfl⟩
          rw [hnil] at this
          cases this
      refine ⟨1, ?_, rfl⟩
      have : w.isEmpty = false := by cases w <;> simp_all
      simp [this, hd]
    · rintro ⟨k, hk, rfl⟩
      split at hk
      · rename_i hc
        simp only [Bool.and_eq_true, Bool.not_eq_true', List.isEmpty_iff] at hc
        simp only [List.mem_singleton, Prod.mk.injEq, and_true] at hk
        subst hk
        have hne : w ≠ [] := by intro e0; simp [e0] at hc
        refine ⟨(e, txt w), mem_nla.mpr ⟨?_, rfl⟩, (hskip e w _ hw).mpr ⟨hne, rfl⟩⟩
        cases hrun : r.run e (txt w) with
        | nil => rfl
        | cons y ys =>
          have hy : y ∈ r.run e (txt w) := by simp [hrun]
          obtain ⟨k, hk, _⟩ := (h.run_iff σ e w y hw).mp hy
          rw [hc.2] at hk
          cases hk
      · cases hk
  · intro σ w p hp
    split at hp
    · simp at hp; simp [hp]
    · cases hp

end

end Jasm

import Jasm.Proofs.Align
/-!
# Every compiled pattern is address-led; denotations do not look at addresses (helper lemmas)
-/
namespace Jasm

/-- every success either consumes nothing or starts by consuming an address -/
def Led (r : Rx) : Prop := ∀ e s x, x ∈ r.run e s → x.2 = s ∨ StartsAddr s

theorem led_eps : Led .eps := fun e s x h => Or.inl (by rw [mem_eps.mp h])

theorem led_grp {r : Rx} (h : Led r) : Led (.grp r) := fun e s x hx => h e s x (mem_grp.mp hx)

theorem led_addr_seq (X : Rx) : Led (.seq ignoreInstAddr X) := by
  intro e s x hx
  obtain ⟨y, hy, _⟩ := mem_seq.mp hx
  exact Or.inr (addr_run_startsAddr e s y hy)

theorem led_seq {a b : Rx} (ha : Led a) (hb : Led b) : Led (.seq a b) := by
  intro e s x hx
  obtain ⟨y, hy, hx2⟩ := mem_seq.mp hx
  rcases ha e s y hy with h1 | h1
  · obtain ⟨ye, ys⟩ := y
    simp only at h1; subst h1
    exact hb ye ys x hx2
  · exact Or.inr h1

theorem led_seqAll (rs : List Rx) (h : ∀ r ∈ rs, Led r) : Led (seqAll rs) := by
  induction rs with
  | nil => exact led_eps
  | cons r rs ih => exact led_seq (h r (by simp)) (ih (fun q hq => h q (by simp [hq])))

theorem led_altAll (rs : List Rx) (h : ∀ r ∈ rs, Led r) : Led (altAll rs) := by
  intro e s x hx
  obtain ⟨r, hr, hx⟩ := (mem_altAll rs e s x).mp hx
  exact h r hr e s x hx

theorem led_orJoin (rs : List Rx) (h : ∀ r ∈ rs, Led r) : Led (.grp (orJoin rs)) := by
  apply led_grp
  apply led_altAll
  intro r hr
  obtain ⟨q, hq, rfl⟩ := List.mem_map.mp hr
  exact led_grp (h q hq)

theorem led_iterG {r : Rx} (h : Led r) (lo hi : Nat) :
    ∀ last e s x, x ∈ iterG r.run lo hi last e s → x.2 = s ∨ StartsAddr s := by
  induction hi generalizing lo with
  | zero =>
    intro last e s x hx
    rw [iterG_hi_zero] at hx
    split at hx
    · simp at hx; left; rw [hx]
    · cases hx
  | succ n ih =>
    intro last e s x hx
    have step : ∀ lo' last' y, y ∈ r.run e s → x ∈ iterG r.run lo' n last' y.1 y.2 → x.2 = s ∨ StartsAddr s := by
      intro lo' last' y hy hx2
      rcases h e s y hy with h1 | h1
      · obtain ⟨ye, ys⟩ := y
        simp only at h1; subst h1
        exact ih lo' last' ye ys x hx2
      · exact Or.inr h1
    cases lo with
    | succ lo =>
      simp only [iterG, List.mem_flatMap] at hx
      obtain ⟨y, hy, hx2⟩ := hx
      exact step lo last y hy hx2
    | zero =>
      simp only [iterG, List.mem_append, List.mem_singleton] at hx
      rcases hx with h1 | h0
      · split at h1
        · cases h1
        · obtain ⟨y, hy, hx2⟩ := List.mem_flatMap.mp h1
          exact step 0 _ y hy hx2
      · left; rw [h0]

theorem led_iter {r : Rx} (h : Led r) (lo hi : Nat) : ∀ e s x, x ∈ iter r.run lo hi e s → x.2 = s ∨ StartsAddr s :=
  fun e s x hx => led_iterG h lo hi none e s x hx

theorem led_rep {r : Rx} (h : Led r) (lo hi : Nat) : Led (.rep r lo hi) :=
  fun e s x hx => led_iter h lo hi e s x (mem_rep.mp hx)

theorem led_withTimes {r : Rx} (h : Led r) (t : Times) : Led (withTimes r t) := by
  unfold withTimes; split
  · exact h
  · exact led_rep h _ _

theorem led_not (c : Rx) : Led (.grp (.seq (.nla c) (.seq ignoreInstAddr skipToEndOfPatternNode))) := by
  apply led_grp
  intro e s x hx
  obtain ⟨y, hy, hx⟩ := mem_seq.mp hx
  obtain ⟨_, rfl⟩ := mem_nla.mp hy
  exact led_addr_seq _ e s x hx

theorem compList_forall (fl : Flags) (caps : List Str) (P : Rx → Prop) (l : List Pat) (cs : List Rx)
    (hc : compList fl caps l = .ok cs) (h : ∀ q ∈ l, ∀ r, comp fl caps q = .ok r → P r) : ∀ r ∈ cs, P r := by
  induction l generalizing cs with
  | nil => simp only [compList] at hc; cases pure_ok.mp hc; simp
  | cons p ps ih =>
    simp only [compList] at hc
    obtain ⟨r, hr, hc⟩ := bind_ok.mp hc
    obtain ⟨rs, hrs, hc⟩ := bind_ok.mp hc
    cases pure_ok.mp hc
    intro q hq
    simp only [List.mem_cons] at hq
    rcases hq with rfl | hq
    · exact h p (by simp) _ hr
    · exact ih rs hrs (fun q hq => h q (by simp [hq])) q hq

theorem mem_perms_subset {α : Type} (l q : List α) (h : q ∈ perms l) : ∀ x ∈ q, x ∈ l :=
  fun x hx => ((mem_perms l q).mp h).subset hx

/-- **every compiled instruction-level pattern of the fragment is address-led** -/
theorem led_comp (fl : Flags) (caps : List Str) : ∀ (p : Pat), litI p = true → ∀ r, comp fl caps p = .ok r → Led r
  | .mnem name ops t, _, r, hc => by
    simp only [comp] at hc
    obtain ⟨os, _, hr⟩ := bind_ok.mp hc
    split at hr
    · cases pure_ok.mp hr; exact led_addr_seq _
    · cases pure_ok.mp hr; exact led_rep (led_grp (led_addr_seq _)) _ _
  | .and l t, h, r, hc => by
    simp only [comp] at hc
    obtain ⟨cs, hcs, hr⟩ := bind_ok.mp hc
    cases pure_ok.mp hr
    exact led_withTimes (led_grp (led_seqAll cs (compList_forall fl caps Led l cs hcs
      (fun q hq r hr => led_comp fl caps q (litIL_mem (by simpa [litI] using h) q hq) r hr)))) t
  | .or l t, h, r, hc => by
    simp only [comp] at hc
    obtain ⟨cs, hcs, hr⟩ := bind_ok.mp hc
    cases pure_ok.mp hr
    exact led_withTimes (led_orJoin cs (compList_forall fl caps Led l cs hcs
      (fun q hq r hr => led_comp fl caps q (litIL_mem (by simpa [litI] using h) q hq) r hr))) t
  | .anyOrder l t, h, r, hc => by
    simp only [comp] at hc
    obtain ⟨cs, hcs, hr⟩ := bind_ok.mp hc
    cases pure_ok.mp hr
    have hall := compList_forall fl caps Led l cs hcs
      (fun q hq r hr => led_comp fl caps q (litIL_mem (by simpa [litI] using h) q hq) r hr)
    apply led_withTimes
    apply led_orJoin
    intro r' hr'
    obtain ⟨pm, hpm, rfl⟩ := List.mem_map.mp hr'
    exact led_grp (led_seqAll pm (fun q hq => hall q (mem_perms_subset cs pm hpm q hq)))
  | .not p opLevel t, h, r, hc => by
    simp only [litI, Bool.and_eq_true, Bool.not_eq_true'] at h
    obtain ⟨rfl, _⟩ := h
    simp only [comp] at hc
    obtain ⟨c, _, hr⟩ := bind_ok.mp hc
    cases pure_ok.mp hr
    simp only [Bool.false_eq_true, if_false]
    exact led_withTimes (led_not c) t
  | .operand _ _, h, _, _ => by simp [litI] at h
  | .timesMarker, h, _, _ => by simp [litI] at h
  | .deref _ _, h, _, _ => by simp [litI] at h
  | .derefField _ _, h, _, _ => by simp [litI] at h
  | .derefProp _ _, h, _, _ => by simp [litI] at h
  | .capInstDef _, h, _, _ => by simp [litI] at h
  | .capInstRef _, h, _, _ => by simp [litI] at h
  | .capOpDef _, h, _, _ => by simp [litI] at h
  | .capOpRef _, h, _, _ => by simp [litI] at h
  | .capDerefDef _, h, _, _ => by simp [litI] at h
  | .capDerefRef _, h, _, _ => by simp [litI] at h
  | .regDef _, h, _, _ => by simp [litI] at h
  | .regRef _, h, _, _ => by simp [litI] at h
termination_by p => sizeOf p
decreasing_by
  all_goals simp_wf
  all_goals first
    | (have := List.sizeOf_lt_of_mem ‹_ ∈ _›; omega)
    | omega

end Jasm

namespace Jasm

/-- two listings with the same mnemonics and operands, instruction by instruction -/
def SameBody (L L' : List Inst) : Prop :=
  L.map (fun i => (i.mnem, i.ops)) = L'.map (fun i => (i.mnem, i.ops))

theorem sameBody_drop {L L' : List Inst} (h : SameBody L L') (k : Nat) : SameBody (L.drop k) (L'.drop k) := by
  unfold SameBody at h ⊢
  rw [List.map_drop, List.map_drop, h]

theorem sameBody_isEmpty {L L' : List Inst} (h : SameBody L L') : L.isEmpty = L'.isEmpty := by
  unfold SameBody at h
  have := congrArg List.length h
  simp at this
  cases L <;> cases L' <;> simp_all

/-- the denotation does not look at addresses -/
def AddrFree (d : Den Inst) : Prop := ∀ σ L L', SameBody L L' → d σ L = d σ L'

theorem addrFree_seqDen (ds : List (Den Inst)) (h : ∀ d ∈ ds, AddrFree d) : AddrFree (seqDen ds) := by
  induction ds with
  | nil => intro σ L L' _; simp [seqDen]
  | cons d ds ih =>
    intro σ L L' hs
    simp only [seqDen]
    rw [h d (by simp) σ L L' hs]
    congr 1
    funext p
    obtain ⟨k, σ'⟩ := p
    simp only
    rw [ih (fun q hq => h q (by simp [hq])) σ' _ _ (sameBody_drop hs k)]

theorem addrFree_iterDen (d : Den Inst) (h : AddrFree d) (lo hi : Nat) : AddrFree (iterDen d lo hi) := by
  induction hi generalizing lo with
  | zero => intro σ L L' _; simp [iterDen]
  | succ n ih =>
    intro σ L L' hs
    simp only [iterDen]
    rw [h σ L L' hs]
    congr 2
    funext p
    obtain ⟨k, σ'⟩ := p
    simp only
    rw [ih (lo - 1) σ' _ _ (sameBody_drop hs k)]

theorem addrFree_timesDen (d : Den Inst) (h : AddrFree d) (t : Times) : AddrFree (timesDen d t) := by
  unfold timesDen; split
  · exact h
  · exact addrFree_iterDen d h _ _

theorem addrFree_union (ds : List (Den Inst)) (h : ∀ d ∈ ds, AddrFree d) :
    AddrFree (fun σ L => ds.flatMap fun d => d σ L) := by
  intro σ L L' hs
  simp only
  induction ds with
  | nil => rfl
  | cons d ds ih =>
    simp only [List.flatMap_cons]
    rw [h d (by simp) σ L L' hs, ih (fun q hq => h q (by simp [hq]))]

theorem addrFree_perms (ds : List (Den Inst)) (h : ∀ d ∈ ds, AddrFree d) :
    AddrFree (fun σ L => (perms ds).flatMap fun dl => seqDen dl σ L) := by
  have hall : ∀ dl ∈ perms ds, AddrFree (seqDen dl) :=
    fun dl hdl => addrFree_seqDen dl (fun d hd => h d (mem_perms_subset ds dl hdl d hd))
  intro σ L L' hs
  simp only
  generalize perms ds = pd at hall
  induction pd with
  | nil => rfl
  | cons dl rest ih =>
    simp only [List.flatMap_cons]
    rw [hall dl (by simp) σ L L' hs, ih (fun q hq => hall q (by simp [hq]))]

theorem addrFree_not (d : Den Inst) (h : AddrFree d) :
    AddrFree (fun σ L => if !L.isEmpty && (d σ L).isEmpty then [(1, σ)] else []) := by
  intro σ L L' hs
  simp only
  rw [h σ L L' hs, sameBody_isEmpty hs]

theorem sameBody_head {i i' : Inst} {L L' : List Inst} (h : SameBody (i :: L) (i' :: L')) :
    i.mnem = i'.mnem ∧ i.ops = i'.ops := by
  unfold SameBody at h
  simp at h
  exact ⟨h.1.1, h.1.2⟩

/-- **addresses never influence what a pattern denotes** -/
theorem addrFree_denI (fl : Flags) : ∀ (p : Pat), AddrFree (denI fl p)
  | .mnem name ops t => by
    have e : denI fl (.mnem name ops t) = timesDen (mnemDen fl name ops) t := by
      funext σ L; simp only [denI]; congr 1
    rw [e]
    apply addrFree_timesDen
    intro σ L L' hs
    cases L with
    | nil =>
      have : L' = [] := by
        have := sameBody_isEmpty hs; cases L' <;> simp_all
      subst this; rfl
    | cons i rest =>
      cases L' with
      | nil => have := sameBody_isEmpty hs; simp at this
      | cons i' rest' =>
        obtain ⟨hm, ho⟩ := sameBody_head hs
        simp only [mnemDen, Inst.fields, hm, ho]
  | .and l t => by
    have e : denI fl (.and l t) = timesDen (seqDen (denIL fl l)) t := by funext σ L; simp [denI]
    have key : ∀ q ∈ l, AddrFree (denI fl q) := fun q _ => addrFree_denI fl q
    rw [e, denIL_eq_map]
    exact addrFree_timesDen _ (addrFree_seqDen _ (by
      intro d hd; obtain ⟨q, hq, rfl⟩ := List.mem_map.mp hd; exact key q hq)) t
  | .or l t => by
    have e : denI fl (.or l t) = timesDen (fun σ w => (denIL fl l).flatMap fun d => d σ w) t := by funext σ L; simp [denI]
    have key : ∀ q ∈ l, AddrFree (denI fl q) := fun q _ => addrFree_denI fl q
    rw [e, denIL_eq_map]
    exact addrFree_timesDen _ (addrFree_union _ (by
      intro d hd; obtain ⟨q, hq, rfl⟩ := List.mem_map.mp hd; exact key q hq)) t
  | .anyOrder l t => by
    have e : denI fl (.anyOrder l t) = timesDen (fun σ w => (perms (denIL fl l)).flatMap fun ds => seqDen ds σ w) t := by
      funext σ L; simp [denI]
    have key : ∀ q ∈ l, AddrFree (denI fl q) := fun q _ => addrFree_denI fl q
    rw [e, denIL_eq_map]
    exact addrFree_timesDen _ (addrFree_perms _ (by
      intro d hd; obtain ⟨q, hq, rfl⟩ := List.mem_map.mp hd; exact key q hq)) t
  | .not p o t => by
    have e : denI fl (.not p o t) = timesDen (fun σ w => if !w.isEmpty && (denI fl p σ w).isEmpty then [(1, σ)] else []) t := by
      funext σ L; simp [denI]
    rw [e]
    exact addrFree_timesDen _ (addrFree_not _ (addrFree_denI fl p)) t
  | .timesMarker => by intro σ L L' _; simp [denI]
  | .capInstDef name => by
    intro σ L L' hs
    cases L with
    | nil => have : L' = [] := by have := sameBody_isEmpty hs; cases L' <;> simp_all
             subst this; rfl
    | cons i rest =>
      cases L' with
      | nil => have := sameBody_isEmpty hs; simp at this
      | cons i' rest' =>
        obtain ⟨hm, ho⟩ := sameBody_head hs
        simp [denI, Inst.body, Inst.fields, hm, ho]
  | .capInstRef name => by
    intro σ L L' hs
    cases L with
    | nil => have : L' = [] := by have := sameBody_isEmpty hs; cases L' <;> simp_all
             subst this; rfl
    | cons i rest =>
      cases L' with
      | nil => have := sameBody_isEmpty hs; simp at this
      | cons i' rest' =>
        obtain ⟨hm, ho⟩ := sameBody_head hs
        simp [denI, Inst.body, Inst.fields, hm, ho]
  | .operand _ _ => by intro σ L L' _; simp [denI]
  | .deref _ _ => by intro σ L L' _; simp [denI]
  | .derefField _ _ => by intro σ L L' _; simp [denI]
  | .derefProp _ _ => by intro σ L L' _; simp [denI]
  | .capOpDef _ => by intro σ L L' _; simp [denI]
  | .capOpRef _ => by intro σ L L' _; simp [denI]
  | .capDerefDef _ => by intro σ L L' _; simp [denI]
  | .capDerefRef _ => by intro σ L L' _; simp [denI]
  | .regDef _ => by intro σ L L' _; simp [denI]
  | .regRef _ => by intro σ L L' _; simp [denI]
termination_by p => sizeOf p
decreasing_by
  all_goals simp_wf
  all_goals first
    | (have := List.sizeOf_lt_of_mem ‹_ ∈ _›; omega)
    | omega

end Jasm

import Jasm.Properties.C01
import Jasm.Model.Pipeline
/-!
# From the rule document to the regex (helper lemmas): YAML front end, typing, compilation and the
configuration glue for literal item rules, in closed form.
-/
namespace Jasm.FrontEnd
open Jasm Jasm.C01

/-- the regex of one literal item -/
def itemRx (fl : Flags) (it : Item) : Rx :=
  .seq ignoreInstAddr
    (.grp (seqAll [nameWindow fl.mnemFull it.mnem, seqAll (it.ops.map (nameWindow fl.opsFull)), skipToEndOfPatternNode]))

/-- the regex of a rule made of literal items -/
def ruleRx (fl : Flags) (items : List Item) : Rx := .grp (seqAll (items.map (itemRx fl)))

theorem compList_operands (fl : Flags) (caps : List Str) (ops : List Str)
    (h : ∀ o ∈ ops, isHexOperand o = some false) :
    compList fl caps (ops.map fun o => Pat.operand o false) = .ok (ops.map (nameWindow fl.opsFull)) := by
  induction ops with
  | nil => simp [compList, pure, Except.pure]
  | cons o os ih =>
    have ho := h o (by simp)
    simp only [List.map_cons, compList, comp, ho, Bool.false_eq_true, if_false]
    rw [ih (fun q hq => h q (by simp [hq]))]
    simp [bind, Except.bind, pure, Except.pure]

theorem comp_item (fl : Flags) (caps : List Str) (it : Item) (h : it.Literal) :
    comp fl caps it.toPat = .ok (itemRx fl it) := by
  simp only [Item.toPat, comp]
  rw [compList_operands fl caps it.ops (fun o ho => (h.2 o ho).2)]
  simp [bind, Except.bind, pure, Except.pure, itemRx]

theorem compList_items (fl : Flags) (caps : List Str) (items : List Item) (h : ∀ it ∈ items, it.Literal) :
    compList fl caps (items.map Item.toPat) = .ok (items.map (itemRx fl)) := by
  induction items with
  | nil => simp [compList, pure, Except.pure]
  | cons it its ih =>
    simp only [List.map_cons, compList]
    rw [comp_item fl caps it (h it (by simp)), ih (fun q hq => h q (by simp [hq]))]
    simp [bind, Except.bind, pure, Except.pure]

/-- **closed form of the compiled rule** -/
theorem comp_rule (fl : Flags) (caps : List Str) (items : List Item) (h : ∀ it ∈ items, it.Literal) :
    comp fl caps (rulePat items) = .ok (ruleRx fl items) := by
  simp only [rulePat, comp]
  rw [compList_items fl caps items h]
  simp [bind, Except.bind, pure, Except.pure, ruleRx, withTimes]

/-! ## no capturing group: the engine's textual numbering changes nothing -/

theorem renumber_capFree (r : Rx) : ∀ n, r.capNumbers = [] → r.renumber n = (r, n) := by
  induction r with
  | seq a b iha ihb =>
    intro n h
    simp only [Rx.capNumbers, List.append_eq_nil_iff] at h
    simp [Rx.renumber, iha n h.1, ihb n h.2]
  | alt a b iha ihb =>
    intro n h
    simp only [Rx.capNumbers, List.append_eq_nil_iff] at h
    simp [Rx.renumber, iha n h.1, ihb n h.2]
  | grp r ih => intro n h; simp only [Rx.capNumbers] at h; simp [Rx.renumber, ih n h]
  | rep r lo hi ih => intro n h; simp only [Rx.capNumbers] at h; simp [Rx.renumber, ih n h]
  | opt r ih => intro n h; simp only [Rx.capNumbers] at h; simp [Rx.renumber, ih n h]
  | plus r ih => intro n h; simp only [Rx.capNumbers] at h; simp [Rx.renumber, ih n h]
  | nla r ih => intro n h; simp only [Rx.capNumbers] at h; simp [Rx.renumber, ih n h]
  | cap k r _ => intro n h; simp [Rx.capNumbers] at h
  | eps | chr _ | esc _ | any | cls _ _ | bref _ => intro n _; simp [Rx.renumber]

theorem capNumbers_lit (t : Str) : (lit t).capNumbers = [] := by
  induction t with
  | nil => simp [lit, Rx.capNumbers]
  | cons c t ih => simp only [lit, List.foldr_cons, Rx.capNumbers, List.nil_append]; exact ih

theorem capNumbers_seqAll (rs : List Rx) (h : ∀ r ∈ rs, r.capNumbers = []) : (seqAll rs).capNumbers = [] := by
  induction rs with
  | nil => simp [seqAll, Rx.capNumbers]
  | cons r rs ih =>
    simp only [seqAll, Rx.capNumbers, List.append_eq_nil_iff]
    exact ⟨h r (by simp), ih (fun q hq => h q (by simp [hq]))⟩

theorem capNumbers_nameWindow (b : Bool) (name : Str) : (nameWindow b name).capNumbers = [] := by
  unfold nameWindow
  split <;> simp [Rx.capNumbers, capNumbers_lit, ignoreNamePrefix, ignoreNameSuffix, clsNotCommaBar]

theorem capNumbers_ruleRx (fl : Flags) (items : List Item) : (ruleRx fl items).capNumbers = [] := by
  simp only [ruleRx, Rx.capNumbers]
  apply capNumbers_seqAll
  intro r hr
  obtain ⟨it, _, rfl⟩ := List.mem_map.mp hr
  simp only [itemRx, Rx.capNumbers, ignoreInstAddr, hexCls, List.nil_append]
  apply capNumbers_seqAll
  intro q hq
  simp only [List.mem_cons, List.not_mem_nil, or_false] at hq
  rcases hq with rfl | rfl | rfl
  · exact capNumbers_nameWindow _ _
  · apply capNumbers_seqAll
    intro o ho
    obtain ⟨x, _, rfl⟩ := List.mem_map.mp ho
    exact capNumbers_nameWindow _ _
  · simp [skipToEndOfPatternNode, Rx.capNumbers, clsNotBar]

/-! ## the YAML front end on literal item rules -/

/-- `mnem: [op, …]` -/
def itemY (it : Item) : Y := .dict [(.str it.mnem, .list (it.ops.map Y.str))]

/-- `pattern: [item, …]` -/
def patternY (items : List Item) : Y := .list (items.map itemY)

/-- names that reach the handler chains as plain names: not the word `times`, not a capture -/
def PlainName (n : Str) : Prop := n ≠ "times".toList ∧ n.head? ≠ some '&' ∧ '$' ∉ n

structure FrontOK (it : Item) : Prop where
  mnem : PlainName it.mnem
  ops : ∀ o ∈ it.ops, PlainName o

def leafNode (o : Str) : Node := .mk o Times.one []
def itemNode (it : Item) : Node := .mk it.mnem Times.one (it.ops.map leafNode)

theorem str_beq_times (o : Str) (h : o ≠ "times".toList) : (Y.str o == Y.str "times".toList) = false := by
  show Y.beq (Y.str o) (Y.str "times".toList) = false
  simp only [Y.beq]
  simpa using h

theorem buildList_ops (ops : List Str) (h : ∀ o ∈ ops, o ≠ "times".toList) :
    buildList (ops.map Y.str) = .ok (ops.map leafNode) := by
  induction ops with
  | nil => simp [buildList, pure, Except.pure]
  | cons o os ih =>
    have ho := str_beq_times o (h o (by simp))
    simp only [List.map_cons, buildList, ho, Bool.false_eq_true, if_false, build]
    rw [ih (fun q hq => h q (by simp [hq]))]
    simp [bind, Except.bind, pure, Except.pure, leafNode]

theorem any_times_false (ops : List Str) (h : ∀ o ∈ ops, o ≠ "times".toList) :
    (ops.map Y.str).any (· == Y.str "times".toList) = false := by
  induction ops with
  | nil => simp
  | cons o os ih =>
    simp only [List.map_cons, List.any_cons, str_beq_times o (h o (by simp)), Bool.false_or]
    exact ih (fun q hq => h q (by simp [hq]))

theorem getTimes_item (m : Str) (ops : List Str) (hm : m ≠ "times".toList) (h : ∀ o ∈ ops, o ≠ "times".toList) :
    getTimes [(Y.str m, Y.list (ops.map Y.str))] = .ok Times.one := by
  have hd : dictHas [(Y.str m, Y.list (ops.map Y.str))] "times" = false := by
    have hm' : (m == ['t', 'i', 'm', 'e', 's']) = false := by simpa using hm
    simp [dictHas, dictGet, List.find?, hm']
  simp only [getTimes, hd, Bool.false_eq_true, if_false, any_times_false ops h]
  simp [bind, Except.bind, pure, Except.pure]

theorem build_item (it : Item) (h : FrontOK it) : build (itemY it) = .ok (itemNode it) := by
  simp only [itemY, build, nameOf, Y.scalarStr]
  rw [getTimes_item it.mnem it.ops h.mnem.1 (fun o ho => (h.ops o ho).1),
    buildList_ops it.ops (fun o ho => (h.ops o ho).1)]
  simp [bind, Except.bind, pure, Except.pure, itemNode]

theorem dict_beq_times (d : List (Y × Y)) : (Y.dict d == Y.str "times".toList) = false := by
  show Y.beq (Y.dict d) (Y.str "times".toList) = false
  simp [Y.beq]

theorem buildList_items (items : List Item) (h : ∀ it ∈ items, FrontOK it) :
    buildList (items.map itemY) = .ok (items.map itemNode) := by
  induction items with
  | nil => simp [buildList, pure, Except.pure]
  | cons it its ih =>
    have hb : (itemY it == Y.str "times".toList) = false := dict_beq_times _
    simp only [List.map_cons, buildList, hb, Bool.false_eq_true, if_false]
    rw [build_item it (h it (by simp)), ih (fun q hq => h q (by simp [hq]))]
    simp [bind, Except.bind, pure, Except.pure]

theorem any_times_items (items : List Item) : (items.map itemY).any (· == Y.str "times".toList) = false := by
  induction items with
  | nil => simp
  | cons it its ih =>
    have hb : (itemY it == Y.str "times".toList) = false := dict_beq_times _
    simp only [List.map_cons, List.any_cons, hb, Bool.false_or]
    exact ih

theorem build_top (items : List Item) (h : ∀ it ∈ items, FrontOK it) :
    build (topTree (patternY items)) = .ok (.mk "$and".toList Times.one (items.map itemNode)) := by
  have hd : dictHas [(Y.str "$and".toList, Y.list (items.map itemY))] "times" = false := by
    simp [dictHas, dictGet, List.find?]
  simp only [topTree, patternY, build, nameOf, Y.scalarStr, getTimes, hd, Bool.false_eq_true, if_false, any_times_items]
  rw [buildList_items items h]
  simp [bind, Except.bind, pure, Except.pure]

/-! ## typing -/

theorem plain_ne (n : Str) (h : PlainName n) (kw : Str) (hk : '$' ∈ kw) : n ≠ kw := by
  rintro rfl; exact h.2.2 hk

theorem plain_not_capture (n : Str) (h : PlainName n) : isCapture n = false ∧ isSpecialReg n = false := by
  have hh := h.2.1
  constructor
  · cases n with
    | nil => rfl
    | cons c t =>
      have : ¬ '&' = c := by intro e; subst e; simp at hh
      simp [isCapture, List.isPrefixOf, this]
  · cases n with
    | nil => rfl
    | cons c t =>
      have : ¬ '&' = c := by intro e; subst e; simp at hh
      simp [isSpecialReg, specialPrefixes, List.isPrefixOf, this]

theorem typ_leaf (o : Str) (h : PlainName o) (caps : List Str) :
    typ .operand .mnemonic (leafNode o) caps = .ok (.operand o false, caps) := by
  have h1 := plain_ne o h "$and".toList (by decide)
  have h2 := plain_ne o h "$or".toList (by decide)
  have h3 := plain_ne o h "$not".toList (by decide)
  have h4 := plain_ne o h "$and_any_order".toList (by decide)
  have h5 := plain_ne o h "$deref".toList (by decide)
  have h6 := h.1
  obtain ⟨h7, h8⟩ := plain_not_capture o h
  simp only [leafNode, typ, h1, h2, h3, h4, h5, h6, h7, h8, if_false, Bool.false_eq_true]
  simp [pure, Except.pure]

theorem typList_leaves (ops : List Str) (h : ∀ o ∈ ops, PlainName o) (caps : List Str) :
    typList .operand .mnemonic (ops.map leafNode) caps = .ok (ops.map (fun o => Pat.operand o false), caps) := by
  induction ops with
  | nil => simp [typList, pure, Except.pure]
  | cons o os ih =>
    simp only [List.map_cons, typList]
    rw [typ_leaf o (h o (by simp)) caps]
    simp only [bind, Except.bind]
    rw [ih (fun q hq => h q (by simp [hq]))]
    simp [pure, Except.pure]

theorem typ_item (it : Item) (h : FrontOK it) (caps : List Str) :
    typ .general .none (itemNode it) caps = .ok (it.toPat, caps) := by
  have hm := h.mnem
  have h1 := plain_ne it.mnem hm "$and".toList (by decide)
  have h2 := plain_ne it.mnem hm "$or".toList (by decide)
  have h3 := plain_ne it.mnem hm "$not".toList (by decide)
  have h4 := plain_ne it.mnem hm "$and_any_order".toList (by decide)
  have h5 := plain_ne it.mnem hm "$deref".toList (by decide)
  have h6 := hm.1
  obtain ⟨h7, _⟩ := plain_not_capture it.mnem hm
  rw [itemNode, typ.eq_def]
  simp only [h1, h2, h3, h4, h5, h6, h7, if_false, Bool.false_eq_true]
  rw [typList_leaves it.ops h.ops caps]
  simp [bind, Except.bind, pure, Except.pure, Item.toPat]

theorem typList_items (items : List Item) (h : ∀ it ∈ items, FrontOK it) (caps : List Str) :
    typList .general .none (items.map itemNode) caps = .ok (items.map Item.toPat, caps) := by
  induction items with
  | nil => simp [typList, pure, Except.pure]
  | cons it its ih =>
    simp only [List.map_cons, typList]
    rw [typ_item it (h it (by simp)) caps]
    simp only [bind, Except.bind]
    rw [ih (fun q hq => h q (by simp [hq]))]
    simp [pure, Except.pure]

/-- **typed tree of a literal item rule**: the pattern of C01, with an empty capture table -/
theorem typeTree_rule (items : List Item) (hne : items ≠ []) (h : ∀ it ∈ items, FrontOK it) :
    typeTree (topTree (patternY items)) = .ok (rulePat items, []) := by
  simp only [typeTree]
  rw [build_top items h]
  simp only [bind, Except.bind]
  rw [typ.eq_def]
  have hk : (items.map itemNode).isEmpty = false := by
    cases items with
    | nil => exact absurd rfl hne
    | cons _ _ => rfl
  simp only [if_true, hk, Bool.false_eq_true, if_false]
  rw [typList_items items h []]
  simp [bind, Except.bind, pure, Except.pure, rulePat]



/-! ## the rule document and the configuration glue -/

theorem compileTree_rule (fl : Flags) (items : List Item) (hne : items ≠ []) (hf : ∀ it ∈ items, FrontOK it)
    (hl : ∀ it ∈ items, it.Literal) :
    compileTree fl (topTree (patternY items)) = .ok (ruleRx fl items) := by
  simp only [compileTree]
  rw [typeTree_rule items hne hf]
  simp only [bind, Except.bind]
  rw [comp_rule fl [] items hl]
  simp only [pure, Except.pure]
  rw [renumber_capFree _ 1 (capNumbers_ruleRx fl items)]

/-- `config: {mnemonics-full-match: _, operands-full-match: _}` -/
def cfgY (fl : Flags) : Y :=
  .dict [(.str "mnemonics-full-match".toList, .bool fl.mnemFull), (.str "operands-full-match".toList, .bool fl.opsFull)]

/-- the rule file: `config` and `pattern`, no macros -/
def ruleDoc (fl : Flags) (items : List Item) : Y :=
  .dict [(.str "config".toList, cfgY fl), (.str "pattern".toList, patternY items)]

/-- the singleton after loading such a rule -/
def cfgAfter (fl : Flags) (s : Config) : Config :=
  { s with mnemFull := some fl.mnemFull, opsFull := some fl.opsFull, style := some .att, range := some none,
           sections := some [] }

theorem loadConfig_cfgY (fl : Flags) (s : Config) : loadConfig (cfgY fl) s = (cfgAfter fl s, .ok ()) := by
  obtain ⟨m, o⟩ := fl
  cases m <;> cases o <;> rfl

theorem compileRule_ruleDoc (fl : Flags) (items : List Item) (hne : items ≠ []) (hf : ∀ it ∈ items, FrontOK it)
    (hl : ∀ it ∈ items, it.Literal) (s : Config) :
    compileRule (ruleDoc fl items) [] s = (cfgAfter fl s, .ok (ruleRx fl items)) := by
  have hcfg : dictGet [(Y.str "config".toList, cfgY fl), (Y.str "pattern".toList, patternY items)] "config" = some (cfgY fl) := by
    simp [dictGet, List.find?]
  have hpat : dictGet [(Y.str "config".toList, cfgY fl), (Y.str "pattern".toList, patternY items)] "pattern" = some (patternY items) := by
    simp [dictGet, List.find?]
  have hmac : dictGet [(Y.str "config".toList, cfgY fl), (Y.str "pattern".toList, patternY items)] "macros" = none := by
    simp [dictGet, List.find?]
  have hflags : (cfgAfter fl s).flags = fl := by
    obtain ⟨m, o⟩ := fl; rfl
  simp only [compileRule, ruleDoc, hcfg, hpat, hmac, Option.getD, loadConfig_cfgY]
  simp only [pure, Except.pure, bind, Except.bind, List.isEmpty_nil, Bool.and_self, if_true, Bool.not_true,
    Bool.or_self, Bool.false_eq_true, if_false, hflags]
  rw [compileTree_rule fl items hne hf hl]

end Jasm.FrontEnd

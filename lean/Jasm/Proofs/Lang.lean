import Jasm.Proofs.Frag
/-!
# Regexes with a finite language (literals, options, alternatives, sequences): helper lemmas for `$deref`
-/
namespace Jasm

/-- the finite set of texts a literal/option/alternative/sequence regex matches, in priority order -/
def Rx.lang : Rx → Option (List Str)
  | .eps => some [[]]
  | .chr c => some [[c]]
  | .esc c => some [[c]]
  | .seq a b => match a.lang, b.lang with
    | some la, some lb => some (la.flatMap fun x => lb.map (x ++ ·))
    | _, _ => none
  | .alt a b => match a.lang, b.lang with
    | some la, some lb => some (la ++ lb)
    | _, _ => none
  | .grp r => r.lang
  | .opt r => match r.lang with
    | some l => some (l ++ [[]])
    | none => none
  | _ => none

theorem mem_lang : ∀ (r : Rx) (l : List Str), r.lang = some l → ∀ (e : Env) (s : Str) (x : Env × Str),
    (x ∈ r.run e s ↔ ∃ t ∈ l, s = t ++ x.2 ∧ x.1 = e) := by
  intro r
  induction r with
  | eps =>
    intro l h e s x
    simp only [Rx.lang, Option.some.injEq] at h; subst h
    rw [mem_eps]
    constructor
    · rintro rfl; exact ⟨[], by simp, by simp, rfl⟩
    · rintro ⟨t, ht, hs, he⟩
      simp at ht; subst ht
      obtain ⟨x1, x2⟩ := x
      simp at hs he; subst hs; subst he; rfl
  | chr c =>
    intro l h e s x
    simp only [Rx.lang, Option.some.injEq] at h; subst h
    rw [mem_chr]
    constructor
    · rintro ⟨s', rfl, rfl⟩; exact ⟨[c], by simp, by simp, rfl⟩
    · rintro ⟨t, ht, hs, he⟩
      simp at ht; subst ht
      obtain ⟨x1, x2⟩ := x
      simp at hs he; subst he
      exact ⟨x2, hs, rfl⟩
  | esc c =>
    intro l h e s x
    simp only [Rx.lang, Option.some.injEq] at h; subst h
    rw [mem_esc]
    constructor
    · rintro ⟨s', rfl, rfl⟩; exact ⟨[c], by simp, by simp, rfl⟩
    · rintro ⟨t, ht, hs, he⟩
      simp at ht; subst ht
      obtain ⟨x1, x2⟩ := x
      simp at hs he; subst he
      exact ⟨x2, hs, rfl⟩
  | seq a b iha ihb =>
    intro l h e s x
    simp only [Rx.lang] at h
    cases hla : a.lang with
    | none => simp [hla] at h
    | some la =>
      cases hlb : b.lang with
      | none => simp [hla, hlb] at h
      | some lb =>
        simp only [hla, hlb, Option.some.injEq] at h; subst h
        rw [mem_seq]
        simp only [List.mem_flatMap, List.mem_map]
        constructor
        · rintro ⟨y, hy, hx⟩
          obtain ⟨t1, ht1, hs1, he1⟩ := (iha la hla e s y).mp hy
          obtain ⟨t2, ht2, hs2, he2⟩ := (ihb lb hlb y.1 y.2 x).mp hx
          exact ⟨t1 ++ t2, ⟨t1, ht1, t2, ht2, rfl⟩, by rw [hs1, hs2]; simp, by rw [he2, he1]⟩
        · rintro ⟨_, ⟨t1, ht1, t2, ht2, rfl⟩, hs, he⟩
          refine ⟨(e, t2 ++ x.2), (iha la hla e s _).mpr ⟨t1, ht1, by rw [hs]; simp, rfl⟩, ?_⟩
          exact (ihb lb hlb e _ x).mpr ⟨t2, ht2, rfl, he⟩
  | alt a b iha ihb =>
    intro l h e s x
    simp only [Rx.lang] at h
    cases hla : a.lang with
    | none => simp [hla] at h
    | some la =>
      cases hlb : b.lang with
      | none => simp [hla, hlb] at h
      | some lb =>
        simp only [hla, hlb, Option.some.injEq] at h; subst h
        rw [mem_alt, iha la hla, ihb lb hlb]
        simp only [List.mem_append]
        constructor
        · rintro (⟨t, ht, h1, h2⟩ | ⟨t, ht, h1, h2⟩)
          · exact ⟨t, Or.inl ht, h1, h2⟩
          · exact ⟨t, Or.inr ht, h1, h2⟩
        · rintro ⟨t, ht | ht, h1, h2⟩
          · exact Or.inl ⟨t, ht, h1, h2⟩
          · exact Or.inr ⟨t, ht, h1, h2⟩
  | grp r ih =>
    intro l h e s x
    simp only [Rx.lang] at h
    rw [mem_grp]; exact ih l h e s x
  | opt r ih =>
    intro l h e s x
    simp only [Rx.lang] at h
    cases hl : r.lang with
    | none => simp [hl] at h
    | some l0 =>
      simp only [hl, Option.some.injEq] at h; subst h
      rw [mem_opt, ih l0 hl]
      simp only [List.mem_append, List.mem_singleton]
      constructor
      · rintro (⟨t, ht, h1, h2⟩ | rfl)
        · exact ⟨t, Or.inl ht, h1, h2⟩
        · exact ⟨[], Or.inr rfl, by simp, rfl⟩
      · rintro ⟨t, ht | rfl, h1, h2⟩
        · exact Or.inl ⟨t, ht, h1, h2⟩
        · right
          obtain ⟨x1, x2⟩ := x
          simp at h1 h2; subst h1; subst h2; rfl
  | any => intro l h; simp [Rx.lang] at h
  | cls _ _ => intro l h; simp [Rx.lang] at h
  | rep _ _ _ _ => intro l h; simp [Rx.lang] at h
  | plus _ _ => intro l h; simp [Rx.lang] at h
  | cap _ _ _ => intro l h; simp [Rx.lang] at h
  | bref _ => intro l h; simp [Rx.lang] at h
  | nla _ _ => intro l h; simp [Rx.lang] at h

theorem lang_lit (t : Str) : (lit t).lang = some [t] := by
  unfold lit
  induction t with
  | nil => rfl
  | cons c cs ih => simp [Rx.lang, ih]

theorem render_lit (t : Str) : (lit t).render = t := by
  unfold lit
  induction t with
  | nil => rfl
  | cons c cs ih => simp [Rx.render, ih]

end Jasm

import Jasm.Proofs.Led
/-!
# What `search` / `finditer` report, at character level and at instruction level (helper lemmas)
-/
namespace Jasm

theorem suffix_take_append {s rest : Str} (h : rest <:+ s) : s.take (s.length - rest.length) ++ rest = s := by
  obtain ⟨p, rfl⟩ := h
  simp

theorem matchAt_none_run (r : Rx) (s : Str) (h : matchAt r s = none) : r.run [] s = [] := by
  cases hr : r.run [] s with
  | nil => rfl
  | cons y ys =>
    have : (matchAt r s).isSome := (matchAt_isSome r s).mpr (by simp [hr])
    simp [h] at this

theorem matchAt_some_mem (r : Rx) (s rest : Str) (h : matchAt r s = some rest) : ∃ e', (e', rest) ∈ r.run [] s := by
  unfold matchAt at h
  cases hr : r.run [] s with
  | nil => simp [hr] at h
  | cons y ys =>
    simp [hr] at h
    exact ⟨y.1, by rw [← h]; simp⟩

/-- what `search` returns: the leftmost position with a match, and the engine's preferred match there -/
theorem search_some_spec (r : Rx) (s : Str) (k : Nat) (m rest : Str) (h : search r s = some (k, m, rest)) :
    ∃ g, s = g ++ (m ++ rest) ∧ matchAt r (m ++ rest) = some rest ∧
      (∀ g1 g2, g = g1 ++ g2 → g2 ≠ [] → r.run [] (g2 ++ (m ++ rest)) = []) := by
  induction s generalizing k with
  | nil =>
    simp only [search, Option.map_eq_some_iff] at h
    obtain ⟨rest', hm, heq⟩ := h
    simp only [Prod.mk.injEq] at heq
    obtain ⟨_, rfl, rfl⟩ := heq
    obtain ⟨e', hmem⟩ := matchAt_some_mem r [] rest' hm
    have : rest' = [] := List.eq_nil_of_suffix_nil (run_suffix r _ _ _ hmem)
    subst this
    exact ⟨[], rfl, hm, fun g1 g2 hg hne => by
      have : g2 = [] := by
        have := congrArg List.length hg; simp at this; exact List.eq_nil_of_length_eq_zero (by omega)
      exact absurd this hne⟩
  | cons c t ih =>
    simp only [search] at h
    cases hm : matchAt r (c :: t) with
    | some rest' =>
      simp only [hm, Option.some.injEq, Prod.mk.injEq] at h
      obtain ⟨_, rfl, rfl⟩ := h
      obtain ⟨e', hmem⟩ := matchAt_some_mem r _ _ hm
      have hsuf := run_suffix r _ _ _ hmem
      have e := suffix_take_append hsuf
      refine ⟨[], by simpa using e.symm, by rw [e]; exact hm, fun g1 g2 hg hne => ?_⟩
      have : g2 = [] := by
        have := congrArg List.length hg; simp at this; exact List.eq_nil_of_length_eq_zero (by omega)
      exact absurd this hne
    | none =>
      simp only [hm, Option.map_eq_some_iff] at h
      obtain ⟨⟨k', m', rest'⟩, hs, heq⟩ := h
      simp only [Prod.mk.injEq] at heq
      obtain ⟨_, rfl, rfl⟩ := heq
      obtain ⟨g, hg, hmt, hgap⟩ := ih k' hs
      refine ⟨c :: g, by simp [hg], hmt, fun g1 g2 hgg hne => ?_⟩
      cases g1 with
      | nil =>
        simp only [List.nil_append] at hgg
        subst hgg
        rw [List.cons_append, ← hg]
        exact matchAt_none_run r _ hm
      | cons c1 g1' =>
        simp only [List.cons_append, List.cons.injEq] at hgg
        exact hgap g1' g2 hgg.2 hne

/-- the compiled pattern never matches the empty string -/
def NoEmptyMatch (r : Rx) : Prop := ∀ e s x, x ∈ r.run e s → x.2 ≠ s

theorem encAll_append (A B : List Inst) : encAll (A ++ B) = encAll A ++ encAll B := by
  simp [encAll]

theorem encAll_take_drop (L : List Inst) (n : Nat) : encAll (L.take n) ++ encAll (L.drop n) = encAll L := by
  rw [← encAll_append, List.take_append_drop]

theorem enc_ne_nil (i : Inst) : enc i ≠ [] := by simp [enc]

theorem encAll_length_lt (i : Inst) (L : List Inst) : (encAll L).length < (encAll (i :: L)).length := by
  have : encAll (i :: L) = enc i ++ encAll L := by simp [encAll]
  rw [this, List.length_append]
  have : 0 < (enc i).length := by simp [enc]
  omega

/-- instruction-level description of a leftmost non-overlapping scan -/
inductive ScanI (fl : Flags) (p : Pat) : List Inst → List (List Inst) → Prop where
  | done (L : List Inst) : (∀ i, denI fl p [] (L.drop i) = []) → ScanI fl p L []
  | hit (L : List Inst) (n k : Nat) (ws : List (List Inst)) :
      (∀ i, i < n → denI fl p [] (L.drop i) = []) →
      (k, []) ∈ denI fl p [] (L.drop n) → 1 ≤ k → n < L.length →
      ScanI fl p (L.drop (n + k)) ws → ScanI fl p L ((L.drop n).take k :: ws)

theorem sameBody_shorten (i : Inst) (a' : Str) (rest : List Inst) :
    SameBody (⟨a', i.mnem, i.ops⟩ :: rest) (i :: rest) := by simp [SameBody]

/-- **alignment of one match**: if the engine's leftmost match on the stream of `L` is `m`, then it
starts at the first character of some record `n`, ends at the end of record `n + k - 1`, and the
pattern denotes `k` there; no earlier instruction starts a match -/
theorem leftmost_aligned (fl : Flags) (caps : List Str) (p : Pat) (hp : litI p = true) (r : Rx)
    (hc : comp fl caps p = .ok r) (hne : NoEmptyMatch r) (L : List Inst) (hL : OkA L)
    (sk : Nat) (m rest : Str) (hs : search r (encAll L) = some (sk, m, rest)) :
    ∃ n k, (∀ i, i < n → denI fl p [] (L.drop i) = []) ∧ (k, []) ∈ denI fl p [] (L.drop n) ∧ 1 ≤ k ∧
      n < L.length ∧ m = encAll ((L.drop n).take k) ∧ rest = encAll (L.drop (n + k)) := by
  have hm := masterI fl caps p hp r hc
  have hled := led_comp fl caps p hp r hc
  obtain ⟨g, hg, hmt, hgap⟩ := search_some_spec r _ sk m rest hs
  obtain ⟨e', hmem⟩ := matchAt_some_mem r _ _ hmt
  have hsuf : (m ++ rest) <:+ encAll L := ⟨g, hg.symm⟩
  have hstart : StartsAddr (m ++ rest) := by
    rcases hled [] _ _ hmem with h1 | h1
    · exact absurd h1 (hne [] _ _ hmem)
    · exact h1
  obtain ⟨n, i, a', hn, hane, hasuf, heq⟩ := suffix_startsAddr L hL _ hsuf hstart
  have hnlt : n < L.length := (List.getElem?_eq_some_iff.mp hn).1
  have hdropn : L.drop n = i :: L.drop (n + 1) := by
    rw [List.drop_eq_getElem_cons hnlt]
    congr 1
    have := (List.getElem?_eq_some_iff.mp hn).2
    exact this
  have hOk' : OkI (⟨a', i.mnem, i.ops⟩ :: L.drop (n + 1)) := by
    intro j hj
    simp only [List.mem_cons] at hj
    rcases hj with rfl | hj
    · exact wfm_shorten i a' (hL i (List.mem_of_getElem? hn)).wfm hane hasuf
    · exact (hL j (List.mem_of_mem_drop hj)).wfm
  have hOkn : OkI (L.drop n) := okI_drop L n (okA_okI hL)
  -- the match is a denotation of the pattern on the (address-shortened) listing, hence on `L.drop n`
  have hmem0 := hmem
  rw [heq] at hmem
  obtain ⟨k, hk, hx⟩ := (hm.run_iff [] [] _ _ hOk').mp hmem
  have hk' : (k, []) ∈ denI fl p [] (L.drop n) := by
    rw [hdropn, ← addrFree_denI fl p [] _ _ (sameBody_shorten i a' (L.drop (n + 1)))]
    exact hk
  -- hence the regex also matches at the start of record `n`: the leftmost match starts there
  have hrec : r.run [] (encAll (L.drop n)) ≠ [] :=
    List.ne_nil_of_mem ((hm.run_iff [] [] _ _ hOkn).mpr ⟨k, hk', rfl⟩)
  have ha' : a' = i.addr := by
    obtain ⟨pa, hpa⟩ := hasuf
    cases pa with
    | nil => simpa using hpa
    | cons c pa' =>
      exfalso
      -- the record start is strictly to the left of the reported match
      have hdrop_text : encAll (L.drop n) = (c :: pa') ++ (m ++ rest) := by
        rw [hdropn, encAll_cons, heq, encAll_cons, ← hpa]
        simp [Inst.fields]
      have hwhole := encAll_take_drop L n
      rw [hdrop_text, hg] at hwhole
      have hgeq : g = encAll (L.take n) ++ (c :: pa') := by
        have : (encAll (L.take n) ++ (c :: pa')) ++ (m ++ rest) = g ++ (m ++ rest) := by
          rw [List.append_assoc]; exact hwhole
        exact (List.append_cancel_right this).symm
      have := hgap (encAll (L.take n)) (c :: pa') hgeq (by simp)
      rw [← hdrop_text] at this
      exact hrec this
  subst ha'
  have heq2 : m ++ rest = encAll (L.drop n) := by rw [heq, hdropn]
  -- the end of the match
  simp only [Prod.mk.injEq] at hx
  obtain ⟨_, hrest⟩ := hx
  have hrest' : rest = encAll (L.drop (n + k)) := by
    rw [hrest]
    have : (⟨i.addr, i.mnem, i.ops⟩ :: L.drop (n + 1)) = L.drop n := hdropn.symm
    rw [this, List.drop_drop]
  have hk1 : 1 ≤ k := by
    cases k with
    | zero =>
      exfalso
      simp only [Nat.add_zero] at hrest'
      have : m ++ rest = rest := by rw [heq2, hrest']
      exact hne [] _ _ hmem0 this.symm
    | succ k => omega
  refine ⟨n, k, ?_, hk', hk1, hnlt, ?_, hrest'⟩
  · intro j hj
    cases hd : denI fl p [] (L.drop j) with
    | nil => rfl
    | cons y ys =>
      exfalso
      obtain ⟨yk, yσ⟩ := y
      have hpure : yσ = [] := hm.pure [] (L.drop j) (yk, yσ) (by rw [hd]; simp)
      subst hpure
      have hrunj : r.run [] (encAll (L.drop j)) ≠ [] :=
        List.ne_nil_of_mem ((hm.run_iff [] [] _ _ (okI_drop L j (okA_okI hL))).mpr ⟨yk, by rw [hd]; simp, rfl⟩)
      -- `encAll (L.drop j)` = (records j..n-1) ++ (m ++ rest), a position inside the gap
      have hsplit : L.drop j = (L.drop j).take (n - j) ++ L.drop n := by
        have := (List.take_append_drop (n - j) (L.drop j)).symm
        rw [List.drop_drop] at this
        have e : j + (n - j) = n := by omega
        rw [e] at this; exact this
      have hne2 : encAll ((L.drop j).take (n - j)) ≠ [] := by
        have hlen : 0 < ((L.drop j).take (n - j)).length := by
          rw [List.length_take, List.length_drop]; omega
        cases hh : (L.drop j).take (n - j) with
        | nil => rw [hh] at hlen; simp at hlen
        | cons q qs => simp [encAll, enc]
      have htext : encAll (L.drop j) = encAll ((L.drop j).take (n - j)) ++ (m ++ rest) := by
        rw [hsplit, encAll_append, heq2]
        congr 1
        rw [← hsplit]
      have hwhole := encAll_take_drop L j
      rw [htext, hg] at hwhole
      have hgeq : g = encAll (L.take j) ++ encAll ((L.drop j).take (n - j)) := by
        have : (encAll (L.take j) ++ encAll ((L.drop j).take (n - j))) ++ (m ++ rest) = g ++ (m ++ rest) := by
          rw [List.append_assoc]; exact hwhole
        exact (List.append_cancel_right this).symm
      have := hgap _ _ hgeq hne2
      rw [← htext] at this
      exact hrunj this
  · have : encAll ((L.drop n).take k) ++ rest = m ++ rest := by
      rw [heq2, hrest', ← List.drop_drop, encAll_take_drop]
    exact (List.append_cancel_right this).symm

end Jasm

namespace Jasm

theorem okA_drop (L : List Inst) (n : Nat) (h : OkA L) : OkA (L.drop n) :=
  fun i hi => h i (List.mem_of_mem_drop hi)

theorem encAll_ne_nil_of_ne_nil (W : List Inst) (h : W ≠ []) : encAll W ≠ [] := by
  cases W with
  | nil => exact absurd rfl h
  | cons i is => simp [encAll, enc]

/-- **the all-matches scan, at instruction level** -/
theorem findAllAux_scanI (fl : Flags) (caps : List Str) (p : Pat) (hp : litI p = true) (r : Rx)
    (hc : comp fl caps p = .ok r) (hne : NoEmptyMatch r) :
    ∀ (fuel : Nat) (L : List Inst), OkA L → (encAll L).length + 1 ≤ fuel →
      ∃ ws, findAllAux r fuel false (encAll L) = ws.map encAll ∧ ScanI fl p L ws := by
  have hm := masterI fl caps p hp r hc
  intro fuel
  induction fuel with
  | zero => intro L _ hf; omega
  | succ fuel ih =>
    intro L hL hf
    rw [findAllAux.eq_def]
    simp only [Bool.false_eq_true, if_false]
    cases hs : search r (encAll L) with
    | none =>
      refine ⟨[], rfl, ScanI.done L ?_⟩
      intro i
      cases hd : denI fl p [] (L.drop i) with
      | nil => rfl
      | cons y ys =>
        exfalso
        obtain ⟨yk, yσ⟩ := y
        have hpure : yσ = [] := hm.pure [] (L.drop i) (yk, yσ) (by rw [hd]; simp)
        subst hpure
        have hrun : r.run [] (encAll (L.drop i)) ≠ [] :=
          List.ne_nil_of_mem ((hm.run_iff [] [] _ _ (okI_drop L i (okA_okI hL))).mpr ⟨yk, by rw [hd]; simp, rfl⟩)
        have : (search r (encAll L)).isSome = true :=
          (search_isSome_iff r _).mpr ⟨_, encAll_drop_suffix L i, hrun⟩
        rw [hs] at this
        simp at this
    | some x =>
      obtain ⟨sk, m, rest⟩ := x
      obtain ⟨n, k, hleft, hk, hk1, hn, hmeq, hrest⟩ := leftmost_aligned fl caps p hp r hc hne L hL sk m rest hs
      simp only
      have hwne : (L.drop n).take k ≠ [] := by
        intro e0
        have := congrArg List.length e0
        rw [List.length_take, List.length_drop, List.length_nil, Nat.min_def] at this
        split at this <;> omega
      have hmne : m.isEmpty = false := by
        have := encAll_ne_nil_of_ne_nil _ hwne
        rw [← hmeq] at this
        cases m <;> simp_all
      have hshorter : (encAll (L.drop (n + k))).length + 1 ≤ fuel := by
        have h1 := encAll_take_drop L (n + k)
        have h2 : (L.take (n + k)) ≠ [] := by
          intro e0
          have := congrArg List.length e0
          rw [List.length_take, List.length_nil, Nat.min_def] at this
          split at this <;> omega
        have h3 := encAll_ne_nil_of_ne_nil _ h2
        have h4 : 0 < (encAll (L.take (n + k))).length := by
          cases hh : encAll (L.take (n + k)) with
          | nil => exact absurd hh h3
          | cons _ _ => simp
        have h5 := congrArg List.length h1
        rw [List.length_append] at h5
        omega
      obtain ⟨ws, hws, hscan⟩ := ih (L.drop (n + k)) (okA_drop L _ hL) hshorter
      refine ⟨(L.drop n).take k :: ws, ?_, ScanI.hit L n k ws hleft hk hk1 hn hscan⟩
      rw [hmne, hrest, hws, hmeq]
      rfl

theorem findAll_scanI (fl : Flags) (caps : List Str) (p : Pat) (hp : litI p = true) (r : Rx)
    (hc : comp fl caps p = .ok r) (hne : NoEmptyMatch r) (L : List Inst) (hL : OkA L) :
    ∃ ws, findAll r (encAll L) = ws.map encAll ∧ ScanI fl p L ws :=
  findAllAux_scanI fl caps p hp r hc hne _ L hL (by omega)

end Jasm

import Jasm.Generated.Consts
import Jasm.Model.Pipeline
/-!
# T0: the model's constants print exactly the text of the constants in /repo's current source

`Jasm/Generated/Consts.lean` is regenerated from the source on every check run; each theorem below
is a named proof obligation that breaks when the corresponding constant changes.
One theorem per line (the check maps error lines back to theorem names).
-/
namespace Jasm.ConstsTie
open Jasm

theorem tie_SKIP_TO_END_OF_OPERAND : String.ofList skipToEndOfOperand.render = Generated.SKIP_TO_END_OF_OPERAND := by decide
theorem tie_SKIP_TO_END_OF_PATTERN_NODE : String.ofList skipToEndOfPatternNode.render = Generated.SKIP_TO_END_OF_PATTERN_NODE := by decide
theorem tie_IGNORE_INST_ADDR : String.ofList ignoreInstAddr.render = Generated.IGNORE_INST_ADDR := by decide
theorem tie_IGNORE_NAME_PREFIX : String.ofList ignoreNamePrefix.render = Generated.IGNORE_NAME_PREFIX := by decide
theorem tie_IGNORE_NAME_SUFFIX : String.ofList ignoreNameSuffix.render = Generated.IGNORE_NAME_SUFFIX := by decide
theorem tie_OPTIONAL_COMMA : String.ofList optionalComma.render = Generated.OPTIONAL_COMMA := by decide
theorem tie_OPTIONAL_PERCENTAGE_CHAR : String.ofList optionalPercent.render = Generated.OPTIONAL_PERCENTAGE_CHAR := by decide
theorem tie_OPTIONAL_HEX_CHAR : String.ofList optionalHex.render = Generated.OPTIONAL_HEX_CHAR := by decide
theorem tie_JUMP_MNEMONICS : jumpMnemonics.map String.ofList = Generated.JUMP_MNEMONICS := by decide
theorem tie_REGISTER_SUFFIXES : regSuffixes.map String.ofList = Generated.REGISTER_SUFFIXES := by decide
theorem tie_DEREF_CHILD_NAMES : derefChildNames.map String.ofList = Generated.DEREF_CHILD_NAMES := by decide

end Jasm.ConstsTie

import Jasm.Proofs.Captures
/-!
# Environment-threaded semantics for the capture spine (helper lemmas for C05)

`SemD` is `Sem` with the capture environment threaded: the denotation may push bindings
(`δ ++ σ`, by *name*) and the regex pushes the corresponding groups (`toEnv caps δ ++ e`, by
*registration index*).  `Inv` is the invariant relating the two environments.
-/
namespace Jasm

/-- bindings by name ↦ bindings by group number (registration index, 1-based) -/
def toEnv (caps : List Str) (δ : Sigma) : Env :=
  δ.filterMap fun (name, t) => (caps.idxOf? name).map fun i => (i + 1, t)

theorem toEnv_append (caps : List Str) (δ₁ δ₂ : Sigma) : toEnv caps (δ₁ ++ δ₂) = toEnv caps δ₁ ++ toEnv caps δ₂ := by
  simp [toEnv, List.filterMap_append]

theorem toEnv_nil (caps : List Str) : toEnv caps [] = [] := rfl

/-- the engine's groups mirror the specification's bindings; bound texts are free of `|`, and those of
operand-level names also of `,` -/
structure Inv (caps inst : List Str) (e : Env) (σ : Sigma) : Prop where
  rep : ∀ name i, caps.idxOf? name = some i → e.lookup (i + 1) = σ.lookup name
  bar : ∀ n t, e.lookup n = some t → ∀ c ∈ t, c ≠ '|'
  comma : ∀ name i, name ∉ inst → caps.idxOf? name = some i → ∀ t, e.lookup (i + 1) = some t → ∀ c ∈ t, c ≠ ','

theorem idx_inj {caps : List Str} {a b : Str} {i : Nat} (ha : caps.idxOf? a = some i) (hb : caps.idxOf? b = some i) : a = b := by
  obtain ⟨h1, e1, _⟩ := List.idxOf?_eq_some_iff.mp ha
  obtain ⟨_, e2, _⟩ := List.idxOf?_eq_some_iff.mp hb
  rw [← e1, ← e2]

/-- pushing one binding of a registered name keeps the invariant -/
theorem inv_push (caps inst : List Str) (e : Env) (σ : Sigma) (name t : Str) (i : Nat) (h : Inv caps inst e σ)
    (hi : caps.idxOf? name = some i) (hbar : ∀ c ∈ t, c ≠ '|') (hcomma : name ∉ inst → ∀ c ∈ t, c ≠ ',') :
    Inv caps inst ((i + 1, t) :: e) ((name, t) :: σ) := by
  constructor
  · intro name' j hj
    by_cases hji : j = i
    · subst hji
      have := idx_inj hj hi
      subst this
      simp [List.lookup]
    · have hne : name' ≠ name := by
        intro e0; subst e0; rw [hi] at hj; cases hj; exact hji rfl
      have h1 : ((i + 1, t) :: e).lookup (j + 1) = e.lookup (j + 1) := by
        simp only [List.lookup]
        have : (j + 1 == i + 1) = false := by simp [hji]
        simp [this]
      have h2 : ((name, t) :: σ).lookup name' = σ.lookup name' := by
        simp only [List.lookup]
        have : (name' == name) = false := by simp [hne]
        simp [this]
      rw [h1, h2]; exact h.rep name' j hj
  · intro n t' hl
    simp only [List.lookup] at hl
    split at hl
    · cases hl; exact hbar
    · exact h.bar n t' hl
  · intro name' j hni hj t' hl
    by_cases hji : j = i
    · subst hji
      have := idx_inj hj hi
      subst this
      simp [List.lookup] at hl
      subst hl
      exact hcomma hni
    · have h1 : ((i + 1, t) :: e).lookup (j + 1) = e.lookup (j + 1) := by
        simp only [List.lookup]
        have : (j + 1 == i + 1) = false := by simp [hji]
        simp [this]
      rw [h1] at hl
      exact h.comma name' j hni hj t' hl

structure SemD {α : Type} (txt : List α → Str) (Ok : List α → Prop) (caps inst : List Str) (r : Rx) (d : Den α) : Prop where
  run_iff : ∀ (σ : Sigma) (e : Env) (w : List α) (x : Env × Str), Ok w → Inv caps inst e σ →
    (x ∈ r.run e (txt w) ↔ ∃ k δ, (k, δ ++ σ) ∈ d σ w ∧ x = (toEnv caps δ ++ e, txt (w.drop k)))
  inv : ∀ (σ : Sigma) (e : Env) (w : List α) (k : Nat) (δ : Sigma), Ok w → Inv caps inst e σ →
    (k, δ ++ σ) ∈ d σ w → Inv caps inst (toEnv caps δ ++ e) (δ ++ σ)
  shape : ∀ (σ : Sigma) (w : List α) (p : Nat × Sigma), p ∈ d σ w → ∃ δ, p.2 = δ ++ σ

theorem semD_seqAll {α : Type} {txt : List α → Str} {Ok : List α → Prop} {caps inst : List Str} (hdc : DropClosed Ok)
    (rs : List Rx) (ds : List (Den α)) (h : All2 (SemD txt Ok caps inst) rs ds) :
    SemD txt Ok caps inst (seqAll rs) (seqDen ds) := by
  induction h with
  | nil =>
    refine ⟨?_, ?_, ?_⟩
    · intro σ e w x _ _
      simp only [mem_seqAll_nil, seqDen, List.mem_singleton, Prod.mk.injEq]
      constructor
      · rintro rfl; exact ⟨0, [], by simp, by simp [toEnv_nil]⟩
      · rintro ⟨k, δ, ⟨rfl, hδ⟩, rfl⟩
        have : δ = [] := List.append_left_eq_self.mp hδ
        subst this; simp [toEnv_nil]
    · intro σ e w k δ _ hinv hk
      simp only [seqDen, List.mem_singleton, Prod.mk.injEq] at hk
      have : δ = [] := List.append_left_eq_self.mp hk.2
      subst this; simpa [toEnv_nil] using hinv
    · intro σ w p hp
      simp only [seqDen, List.mem_singleton] at hp
      exact ⟨[], by simp [hp]⟩
  | @cons r d rs ds hr _ ih =>
    refine ⟨?_, ?_, ?_⟩
    · intro σ e w x hw hinv
      rw [mem_seqAll_cons]
      simp only [seqDen, List.mem_flatMap, List.mem_map]
      constructor
      · rintro ⟨y, hy, hx⟩
        obtain ⟨k, δ1, hk, rfl⟩ := (hr.run_iff σ e w y hw hinv).mp hy
        have hinv1 := hr.inv σ e w k δ1 hw hinv hk
        obtain ⟨k', δ2, hk', rfl⟩ := (ih.run_iff (δ1 ++ σ) _ (w.drop k) x (hdc w k hw) hinv1).mp hx
        refine ⟨k + k', δ2 ++ δ1, ⟨(k, δ1 ++ σ), hk, (k', δ2 ++ (δ1 ++ σ)), hk', by simp⟩, ?_⟩
        simp [toEnv_append, List.drop_drop, Nat.add_comm]
      · rintro ⟨k0, δ, ⟨⟨k, σ1⟩, hk, ⟨k', σ2⟩, hk', heq⟩, rfl⟩
        obtain ⟨δ1, hσ1⟩ := hr.shape σ w _ hk
        simp only at hσ1; subst hσ1
        obtain ⟨δ2, hσ2⟩ := ih.shape (δ1 ++ σ) _ _ hk'
        simp only at hσ2; subst hσ2
        simp only [Prod.mk.injEq] at heq
        obtain ⟨rfl, hδ⟩ := heq
        have hδ' : δ = δ2 ++ δ1 := by
          have : δ ++ σ = (δ2 ++ δ1) ++ σ := by rw [← hδ]; simp
          exact List.append_cancel_right this
        subst hδ'
        have hinv1 := hr.inv σ e w k δ1 hw hinv hk
        refine ⟨(toEnv caps δ1 ++ e, txt (w.drop k)), (hr.run_iff σ e w _ hw hinv).mpr ⟨k, δ1, hk, rfl⟩, ?_⟩
        apply (ih.run_iff (δ1 ++ σ) _ (w.drop k) _ (hdc w k hw) hinv1).mpr
        exact ⟨k', δ2, hk', by simp [toEnv_append, List.drop_drop, Nat.add_comm]⟩
    · intro σ e w k0 δ hw hinv hk0
      simp only [seqDen, List.mem_flatMap, List.mem_map] at hk0
      obtain ⟨⟨k, σ1⟩, hk, ⟨k', σ2⟩, hk', heq⟩ := hk0
      obtain ⟨δ1, hσ1⟩ := hr.shape σ w _ hk
      simp only at hσ1; subst hσ1
      obtain ⟨δ2, hσ2⟩ := ih.shape (δ1 ++ σ) _ _ hk'
      simp only at hσ2; subst hσ2
      simp only [Prod.mk.injEq] at heq
      obtain ⟨_, hδ⟩ := heq
      have hδ' : δ = δ2 ++ δ1 := by
        have : δ ++ σ = (δ2 ++ δ1) ++ σ := by rw [← hδ]; simp
        exact List.append_cancel_right this
      subst hδ'
      have hinv1 := hr.inv σ e w k δ1 hw hinv hk
      have := ih.inv (δ1 ++ σ) _ (w.drop k) k' δ2 (hdc w k hw) hinv1 hk'
      simpa [toEnv_append] using this
    · intro σ w p hp
      simp only [seqDen, List.mem_flatMap, List.mem_map] at hp
      obtain ⟨⟨k, σ1⟩, hk, ⟨k', σ2⟩, hk', rfl⟩ := hp
      obtain ⟨δ1, hσ1⟩ := hr.shape σ w _ hk
      simp only at hσ1; subst hσ1
      obtain ⟨δ2, hσ2⟩ := ih.shape (δ1 ++ σ) _ _ hk'
      simp only at hσ2
      exact ⟨δ2 ++ δ1, by simp [hσ2]⟩

end Jasm

namespace Jasm

/-- a capture-free element is also an element of the threaded semantics -/
theorem semD_of_sem {α : Type} {txt : List α → Str} {Ok : List α → Prop} (caps inst : List Str) {r : Rx} {d : Den α}
    (h : Sem txt Ok r d) : SemD txt Ok caps inst r d := by
  refine ⟨?_, ?_, ?_⟩
  · intro σ e w x hw _
    rw [h.run_iff σ e w x hw]
    constructor
    · rintro ⟨k, hk, rfl⟩; exact ⟨k, [], by simpa using hk, by simp [toEnv_nil]⟩
    · rintro ⟨k, δ, hk, rfl⟩
      have : δ = [] := List.append_left_eq_self.mp (h.pure σ w _ hk)
      subst this
      exact ⟨k, by simpa using hk, by simp [toEnv_nil]⟩
  · intro σ e w k δ _ hinv hk
    have : δ = [] := List.append_left_eq_self.mp (h.pure σ w _ hk)
    subst this; simpa [toEnv_nil] using hinv
  · intro σ w p hp
    exact ⟨[], by simp [h.pure σ w p hp]⟩

theorem toEnv_single (caps : List Str) (name t : Str) (i : Nat) (h : caps.idxOf? name = some i) :
    toEnv caps [(name, t)] = [(i + 1, t)] := by
  simp [toEnv, h]

theorem capIndex_ok {caps : List Str} {name : Str} {n : Nat} (h : capIndex caps name = .ok n) :
    ∃ i, caps.idxOf? name = some i ∧ n = i + 1 := by
  unfold capIndex at h
  cases hi : caps.idxOf? name with
  | none => simp [hi, fail] at h
  | some i => simp [hi, pure, Except.pure] at h; exact ⟨i, rfl, h.symm⟩

/-- operand-level capture definition: binds exactly one non-empty operand field -/
theorem semD_capOpDef (fl : Flags) (T : Str) (caps inst : List Str) (name : Str) (i : Nat) (hi : caps.idxOf? name = some i) :
    SemD (txtO T) OkO caps inst (.seq (.cap (i + 1) (.plus clsNotCommaBar)) (.chr ',')) (denO fl (.capOpDef name)) := by
  have hden : ∀ σ w, denO fl (.capOpDef name) σ w =
      (match w with | f :: _ => if f.isEmpty then [] else [(1, (name, f) :: σ)] | [] => []) := by
    intro σ w; cases w <;> simp [denO]
  refine ⟨?_, ?_, ?_⟩
  · intro σ e w x hw _
    rw [hden]
    cases w with
    | nil =>
      rw [txtO_nil]
      simp only [List.not_mem_nil, false_and, exists_false, iff_false]
      intro hx
      obtain ⟨y, hy, _⟩ := mem_seq.mp hx
      obtain ⟨z, hz, _⟩ := mem_cap.mp hy
      unfold clsNotCommaBar at hz
      obtain ⟨k, hk1, _, hall, _⟩ := (mem_plus_cls _ _ _ _ _).mp hz
      cases k with
      | zero => omega
      | succ k => have := hall '|' (by simp); simp [inCls, CI.matches] at this
    | cons f fs =>
      have hf : CleanStr f := hw.1 f (by simp)
      rw [txtO_cons, cap_to_comma (i + 1) f _ e x hf]
      simp only
      constructor
      · rintro ⟨hne, rfl⟩
        have : f.isEmpty = false := by cases f <;> simp_all
        exact ⟨1, [(name, f)], by simp [this], by simp [toEnv_single caps name f i hi]⟩
      · rintro ⟨k, δ, hk, rfl⟩
        split at hk
        · cases hk
        · rename_i hne
          simp only [List.mem_singleton, Prod.mk.injEq] at hk
          obtain ⟨rfl, hδ⟩ := hk
          have : δ = [(name, f)] := by
            have : δ ++ σ = [(name, f)] ++ σ := by simpa using hδ
            exact List.append_cancel_right this
          subst this
          exact ⟨by intro e0; simp [e0] at hne, by simp [toEnv_single caps name f i hi]⟩
  · intro σ e w k δ hw hinv hk
    rw [hden] at hk
    cases w with
    | nil => cases hk
    | cons f fs =>
      simp only at hk
      split at hk
      · cases hk
      · simp only [List.mem_singleton, Prod.mk.injEq] at hk
        obtain ⟨_, hδ⟩ := hk
        have : δ = [(name, f)] := by
          have : δ ++ σ = [(name, f)] ++ σ := by simpa using hδ
          exact List.append_cancel_right this
        subst this
        have hf : CleanStr f := hw.1 f (by simp)
        rw [toEnv_single caps name f i hi]
        exact inv_push caps inst e σ name f i hinv hi (fun c hc => (hf c hc).2) (fun _ c hc => (hf c hc).1)
  · intro σ w p hp
    rw [hden] at hp
    cases w with
    | nil => cases hp
    | cons f fs =>
      simp only at hp
      split at hp
      · cases hp
      · simp only [List.mem_singleton] at hp
        exact ⟨[(name, f)], by simp [hp]⟩

/-- operand-level capture reference: matches exactly one operand field, identical to the bound text -/
theorem semD_capOpRef (fl : Flags) (T : Str) (caps inst : List Str) (name : Str) (i : Nat) (hi : caps.idxOf? name = some i)
    (hop : name ∉ inst) :
    SemD (txtO T) OkO caps inst (.seq (.bref (i + 1)) (.chr ',')) (denO fl (.capOpRef name)) := by
  have hden : ∀ σ w, denO fl (.capOpRef name) σ w =
      (match w with | f :: _ => if σ.lookup name = some f then [(1, σ)] else [] | [] => []) := by
    intro σ w; cases w <;> simp [denO]
  refine ⟨?_, ?_, ?_⟩
  · intro σ e w x hw hinv
    rw [hden]
    cases w with
    | nil =>
      rw [txtO_nil]
      simp only [List.not_mem_nil, false_and, exists_false, iff_false]
      intro hx
      obtain ⟨y, hy, hx2⟩ := mem_seq.mp hx
      obtain ⟨t, s1, hl, hs1, rfl⟩ := mem_bref.mp hy
      obtain ⟨s2, hs2, _⟩ := mem_chr.mp hx2
      simp only at hs2
      subst hs2
      cases t with
      | nil => simp at hs1
      | cons c t' =>
        simp only [List.cons_append, List.cons.injEq] at hs1
        exact hinv.bar _ _ hl c (by simp) hs1.1.symm
    | cons f fs =>
      have hf : CleanStr f := hw.1 f (by simp)
      rw [txtO_cons, bref_to_comma (i + 1) f _ e x hf (fun t ht => hinv.comma name i hop hi t ht)]
      rw [hinv.rep name i hi]
      simp only
      constructor
      · rintro ⟨hl, rfl⟩
        exact ⟨1, [], by simp [hl], by simp [toEnv_nil]⟩
      · rintro ⟨k, δ, hk, rfl⟩
        split at hk
        · rename_i hl
          simp only [List.mem_singleton, Prod.mk.injEq] at hk
          obtain ⟨rfl, hδ⟩ := hk
          have : δ = [] := List.append_left_eq_self.mp hδ
          subst this
          exact ⟨hl, by simp [toEnv_nil]⟩
        · cases hk
  · intro σ e w k δ hw hinv hk
    rw [hden] at hk
    cases w with
    | nil => cases hk
    | cons f fs =>
      simp only at hk
      split at hk
      · simp only [List.mem_singleton, Prod.mk.injEq] at hk
        have : δ = [] := List.append_left_eq_self.mp hk.2
        subst this; simpa [toEnv_nil] using hinv
      · cases hk
  · intro σ w p hp
    rw [hden] at hp
    cases w with
    | nil => cases hp
    | cons f fs =>
      simp only at hp
      split at hp
      · simp only [List.mem_singleton] at hp; exact ⟨[], by simp [hp]⟩
      · cases hp

end Jasm

namespace Jasm

theorem fieldsText_body (i : Inst) : fieldsText i.fields = i.body ++ [','] := by
  unfold Inst.body
  exact (joinSep_comma i.fields (by simp [Inst.fields])).symm

theorem body_no_bar (i : Inst) (h : OkO i.fields) : ∀ c ∈ i.body, c ≠ '|' := by
  intro c hc
  have : c ∈ fieldsText i.fields := by rw [fieldsText_body]; simp [hc]
  simp only [fieldsText, List.mem_flatMap, List.mem_append, List.mem_singleton] at this
  obtain ⟨f, hf, hcf | rfl⟩ := this
  · exact (h.1 f hf c hcf).2
  · decide

theorem body_ne_nil (i : Inst) : i.body ≠ [] := by
  intro e0
  have := fieldsText_body i
  rw [e0] at this
  have hl := congrArg List.length this
  cases hops : i.ops with
  | nil => simp [Inst.fields, fieldsText, hops] at hl
  | cons o os => simp [Inst.fields, fieldsText, hops] at hl; omega

theorem txtO_body (R : Str) (i : Inst) : txtO R i.fields = i.body ++ ',' :: '|' :: R := by
  simp [txtO, fieldsText_body]

/-- instruction-level capture definition: binds the whole instruction (mnemonic and operands, not
the address) and consumes exactly that instruction -/
theorem semD_capInstDef (fl : Flags) (caps inst : List Str) (name : Str) (i : Nat) (hi : caps.idxOf? name = some i)
    (hin : name ∈ inst) :
    SemD encAll OkI caps inst (seqAll [ignoreInstAddr, .cap (i + 1) (.plus clsNotBar), .chr ',', .esc '|'])
      (denI fl (.capInstDef name)) := by
  have hden : ∀ σ L, denI fl (.capInstDef name) σ L =
      (match L with | j :: _ => [(1, (name, j.body) :: σ)] | [] => []) := by
    intro σ L; cases L <;> simp [denI]
  refine ⟨?_, ?_, ?_⟩
  · intro σ e L x hL _
    rw [hden, mem_seqAll_cons]
    cases L with
    | nil =>
      have : encAll [] = [] := rfl
      rw [this, addr_skip_nil]; simp
    | cons j rest =>
      have hj := hL j (by simp)
      rw [encAll_cons]
      constructor
      · rintro ⟨y, hy, hx⟩
        rw [addr_skip _ _ e y hj.addr_ne hj.addr_hex] at hy
        subst hy
        rw [txtO_body, cap_to_comma_bar (i + 1) j.body _ e x (body_no_bar j hj.fields_ok) (body_ne_nil j)] at hx
        subst hx
        exact ⟨1, [(name, j.body)], by simp, by simp [toEnv_single caps name _ i hi]⟩
      · rintro ⟨k, δ, hk, rfl⟩
        simp only [List.mem_singleton, Prod.mk.injEq] at hk
        obtain ⟨rfl, hδ⟩ := hk
        have : δ = [(name, j.body)] := by
          have : δ ++ σ = [(name, j.body)] ++ σ := by simpa using hδ
          exact List.append_cancel_right this
        subst this
        refine ⟨(e, txtO (encAll rest) j.fields), (addr_skip _ _ e _ hj.addr_ne hj.addr_hex).mpr rfl, ?_⟩
        rw [txtO_body, cap_to_comma_bar (i + 1) j.body _ e _ (body_no_bar j hj.fields_ok) (body_ne_nil j)]
        simp [toEnv_single caps name _ i hi]
  · intro σ e L k δ hL hinv hk
    rw [hden] at hk
    cases L with
    | nil => cases hk
    | cons j rest =>
      simp only [List.mem_singleton, Prod.mk.injEq] at hk
      obtain ⟨_, hδ⟩ := hk
      have : δ = [(name, j.body)] := by
        have : δ ++ σ = [(name, j.body)] ++ σ := by simpa using hδ
        exact List.append_cancel_right this
      subst this
      rw [toEnv_single caps name _ i hi]
      exact inv_push caps inst e σ name j.body i hinv hi (body_no_bar j (hL j (by simp)).fields_ok)
        (fun hni => absurd hin hni)
  · intro σ L p hp
    rw [hden] at hp
    cases L with
    | nil => cases hp
    | cons j rest =>
      simp only [List.mem_singleton] at hp
      exact ⟨[(name, j.body)], by simp [hp]⟩

/-- instruction-level capture reference: consumes one instruction, identical to the bound one -/
theorem semD_capInstRef (fl : Flags) (caps inst : List Str) (name : Str) (i : Nat) (hi : caps.idxOf? name = some i) :
    SemD encAll OkI caps inst (seqAll [ignoreInstAddr, .bref (i + 1), .chr ',', .esc '|'])
      (denI fl (.capInstRef name)) := by
  have hden : ∀ σ L, denI fl (.capInstRef name) σ L =
      (match L with | j :: _ => if σ.lookup name = some j.body then [(1, σ)] else [] | [] => []) := by
    intro σ L; cases L <;> simp [denI]
  refine ⟨?_, ?_, ?_⟩
  · intro σ e L x hL hinv
    rw [hden, mem_seqAll_cons]
    cases L with
    | nil =>
      have : encAll [] = [] := rfl
      rw [this, addr_skip_nil]; simp
    | cons j rest =>
      have hj := hL j (by simp)
      rw [encAll_cons]
      simp only
      constructor
      · rintro ⟨y, hy, hx⟩
        rw [addr_skip _ _ e y hj.addr_ne hj.addr_hex] at hy
        subst hy
        rw [txtO_body, bref_to_comma_bar (i + 1) j.body _ e x (body_no_bar j hj.fields_ok)
          (fun t ht => hinv.bar _ t ht)] at hx
        obtain ⟨hl, rfl⟩ := hx
        rw [hinv.rep name i hi] at hl
        exact ⟨1, [], by simp [hl], by simp [toEnv_nil]⟩
      · rintro ⟨k, δ, hk, rfl⟩
        split at hk
        · rename_i hl
          simp only [List.mem_singleton, Prod.mk.injEq] at hk
          obtain ⟨rfl, hδ⟩ := hk
          have : δ = [] := List.append_left_eq_self.mp hδ
          subst this
          refine ⟨(e, txtO (encAll rest) j.fields), (addr_skip _ _ e _ hj.addr_ne hj.addr_hex).mpr rfl, ?_⟩
          rw [txtO_body, bref_to_comma_bar (i + 1) j.body _ e _ (body_no_bar j hj.fields_ok)
            (fun t ht => hinv.bar _ t ht)]
          exact ⟨by rw [hinv.rep name i hi]; exact hl, by simp [toEnv_nil]⟩
        · cases hk
  · intro σ e L k δ hL hinv hk
    rw [hden] at hk
    cases L with
    | nil => cases hk
    | cons j rest =>
      simp only at hk
      split at hk
      · simp only [List.mem_singleton, Prod.mk.injEq] at hk
        have : δ = [] := List.append_left_eq_self.mp hk.2
        subst this; simpa [toEnv_nil] using hinv
      · cases hk
  · intro σ L p hp
    rw [hden] at hp
    cases L with
    | nil => cases hp
    | cons j rest =>
      simp only at hp
      split at hp
      · simp only [List.mem_singleton] at hp; exact ⟨[], by simp [hp]⟩
      · cases hp

end Jasm

namespace Jasm

/-- operand-level elements of the capture spine -/
def spineOp (inst : List Str) : Pat → Bool
  | .operand name hasKids => !hasKids && litName name && (isHexOperand name == some false)
  | .capOpDef _ => true
  | .capOpRef name => !inst.contains name
  | _ => false

/-- instruction-level elements of the capture spine: un-repeated items whose operands are literal
names or operand captures, instruction captures, and - between them - any capture-free pattern of the
literal fragment (repeated items, `$and` / `$or` / `$not` / `$and_any_order` groups with `times`):
those leave the bindings untouched -/
def spineItem (inst : List Str) : Pat → Bool
  | .mnem name ops t => (litName name && decide (t = Times.one) && ops.all (spineOp inst)) || litI (.mnem name ops t)
  | .capInstDef name => inst.contains name
  | .capInstRef _ => true
  | p => litI p

theorem semD_spineOp (fl : Flags) (caps inst : List Str) (T : Str) (p : Pat) (hp : spineOp inst p = true) (r : Rx)
    (hc : comp fl caps p = .ok r) : SemD (txtO T) OkO caps inst r (denO fl p) := by
  cases p with
  | operand name hasKids =>
    simp only [spineOp, Bool.and_eq_true, Bool.not_eq_true', beq_iff_eq] at hp
    obtain ⟨⟨rfl, hn⟩, hh⟩ := hp
    exact semD_of_sem caps inst (specO_operand fl caps name hn hh T r hc)
  | capOpDef name =>
    simp only [comp] at hc
    obtain ⟨n, hn, hr⟩ := bind_ok.mp hc
    obtain ⟨i, hi, rfl⟩ := capIndex_ok hn
    cases pure_ok.mp hr
    exact semD_capOpDef fl T caps inst name i hi
  | capOpRef name =>
    simp only [spineOp, Bool.not_eq_true'] at hp
    have hni : name ∉ inst := by
      intro hm
      have : inst.contains name = true := List.contains_iff_mem.mpr hm
      rw [hp] at this; cases this
    simp only [comp] at hc
    obtain ⟨n, hn, hr⟩ := bind_ok.mp hc
    obtain ⟨i, hi, rfl⟩ := capIndex_ok hn
    cases pure_ok.mp hr
    exact semD_capOpRef fl T caps inst name i hi hni
  | _ => simp [spineOp] at hp

theorem semD_spineOps (fl : Flags) (caps inst : List Str) (T : Str) (ops : List Pat) (hops : ops.all (spineOp inst) = true)
    (os : List Rx) (hc : compList fl caps ops = .ok os) : All2 (SemD (txtO T) OkO caps inst) os (denOL fl ops) := by
  induction ops generalizing os with
  | nil =>
    simp only [compList] at hc; cases pure_ok.mp hc
    rw [denOL_nil]; exact .nil
  | cons p ps ih =>
    simp only [List.all_cons, Bool.and_eq_true] at hops
    simp only [compList] at hc
    obtain ⟨r, hr, hc⟩ := bind_ok.mp hc
    obtain ⟨rs, hrs, hc⟩ := bind_ok.mp hc
    cases pure_ok.mp hc
    rw [denOL_cons]
    exact .cons (semD_spineOp fl caps inst T p hops.1 r hr) (ih hops.2 rs hrs)

/-- an un-repeated instruction item whose operand list may bind and reuse operand captures -/
theorem semD_mnem (fl : Flags) (caps inst : List Str) (name : Str) (ops : List Pat) (os : List Rx)
    (hname : litName name = true) (hos : compList fl caps ops = .ok os) (hops : ops.all (spineOp inst) = true) :
    SemD encAll OkI caps inst
      (.seq ignoreInstAddr (.grp (seqAll [nameWindow fl.mnemFull name, seqAll os, skipToEndOfPatternNode])))
      (mnemDen fl name ops) := by
  have hclean := litName_clean name hname
  have hseqT : ∀ T, SemD (txtO T) OkO caps inst (seqAll os) (seqDen (denOL fl ops)) :=
    fun T => semD_seqAll okO_drop os (denOL fl ops) (semD_spineOps fl caps inst T ops hops os hos)
  refine ⟨?_, ?_, ?_⟩
  · intro σ e L x hL hinv
    cases L with
    | nil =>
      rw [mem_seq]
      have : encAll [] = [] := rfl
      rw [this, addr_skip_nil]
      simp [mnemDen]
    | cons i rest =>
      have hi := hL i (by simp)
      have hfields : i.fields = i.mnem :: i.fields.tail := by simp [Inst.fields]
      have hokT : OkO i.fields.tail := by
        have := okO_drop i.fields 1 hi.fields_ok
        rw [hfields] at this; simpa using this
      have hseq := hseqT (encAll rest)
      have hwin := sem_operand (encAll rest) fl.mnemFull name hclean
      rw [mem_seq, encAll_cons]
      simp only [mnemDen]
      constructor
      · rintro ⟨y, hy, hx⟩
        rw [addr_skip _ _ e y hi.addr_ne hi.addr_hex] at hy
        subst hy
        rw [mem_grp, mem_seqAll_cons] at hx
        obtain ⟨y1, hy1, hx⟩ := hx
        obtain ⟨k1, hk1, rfl⟩ := (hwin.run_iff σ e i.fields y1 hi.fields_ok).mp hy1
        rw [hfields] at hk1
        simp only at hk1
        split at hk1
        · rename_i hrel
          simp only [List.mem_singleton, Prod.mk.injEq, and_true] at hk1
          subst hk1
          rw [mem_seqAll_cons] at hx
          obtain ⟨y2, hy2, hx⟩ := hx
          have hdrop1 : i.fields.drop 1 = i.fields.tail := by simp
          rw [hdrop1] at hy2
          obtain ⟨k2, δ, hk2, rfl⟩ := (hseq.run_iff σ e i.fields.tail y2 hokT hinv).mp hy2
          rw [mem_seqAll_cons] at hx
          obtain ⟨y3, hy3, hx⟩ := hx
          rw [skip_to_end _ _ _ y3 (okO_drop _ k2 hokT)] at hy3
          subst hy3
          rw [mem_seqAll_nil] at hx
          subst hx
          refine ⟨1, δ, ?_, by simp⟩
          simp only [hrel, if_true, List.mem_map]
          exact ⟨(k2, δ ++ σ), hk2, rfl⟩
        · cases hk1
      · rintro ⟨k, δ, hk, rfl⟩
        split at hk
        · rename_i hrel
          simp only [List.mem_map] at hk
          obtain ⟨⟨k2, σ2⟩, hk2, heq⟩ := hk
          simp only [Prod.mk.injEq] at heq
          obtain ⟨rfl, rfl⟩ := heq
          refine ⟨(e, txtO (encAll rest) i.fields), (addr_skip _ _ e _ hi.addr_ne hi.addr_hex).mpr rfl, ?_⟩
          rw [mem_grp, mem_seqAll_cons]
          refine ⟨(e, txtO (encAll rest) i.fields.tail), ?_, ?_⟩
          · have := (hwin.run_iff σ e i.fields (e, txtO (encAll rest) (i.fields.drop 1)) hi.fields_ok).mpr
              ⟨1, by rw [hfields]; simp [hrel], rfl⟩
            simpa using this
          · rw [mem_seqAll_cons]
            refine ⟨(toEnv caps δ ++ e, txtO (encAll rest) (i.fields.tail.drop k2)),
              (hseq.run_iff σ e _ _ hokT hinv).mpr ⟨k2, δ, hk2, rfl⟩, ?_⟩
            rw [mem_seqAll_cons]
            refine ⟨(toEnv caps δ ++ e, encAll rest), (skip_to_end _ _ _ _ (okO_drop _ k2 hokT)).mpr rfl, ?_⟩
            rw [mem_seqAll_nil]; simp
        · cases hk
  · intro σ e L k δ hL hinv hk
    cases L with
    | nil => cases hk
    | cons i rest =>
      have hi := hL i (by simp)
      have hfields : i.fields = i.mnem :: i.fields.tail := by simp [Inst.fields]
      have hokT : OkO i.fields.tail := by
        have := okO_drop i.fields 1 hi.fields_ok
        rw [hfields] at this; simpa using this
      simp only [mnemDen] at hk
      split at hk
      · simp only [List.mem_map] at hk
        obtain ⟨⟨k2, σ2⟩, hk2, heq⟩ := hk
        simp only [Prod.mk.injEq] at heq
        obtain ⟨_, rfl⟩ := heq
        exact (hseqT []).inv σ e i.fields.tail k2 δ hokT hinv hk2
      · cases hk
  · intro σ L p hp
    cases L with
    | nil => cases hp
    | cons i rest =>
      simp only [mnemDen] at hp
      split at hp
      · simp only [List.mem_map] at hp
        obtain ⟨⟨k2, σ2⟩, hk2, rfl⟩ := hp
        exact (hseqT []).shape σ _ (k2, σ2) hk2
      · cases hp

theorem semD_spineItem (fl : Flags) (caps inst : List Str) (p : Pat) (hp : spineItem inst p = true) (r : Rx)
    (hc : comp fl caps p = .ok r) : SemD encAll OkI caps inst r (denI fl p) := by
  cases p with
  | mnem name ops t =>
    simp only [spineItem, Bool.or_eq_true, Bool.and_eq_true, decide_eq_true_eq] at hp
    rcases hp with hp | hlit
    · obtain ⟨⟨hn, rfl⟩, hops⟩ := hp
      simp only [comp, if_true] at hc
      obtain ⟨os, hos, hr⟩ := bind_ok.mp hc
      cases pure_ok.mp hr
      have e : denI fl (.mnem name ops Times.one) = mnemDen fl name ops := by
        funext σ L; simp only [denI, timesDen, if_true]; rfl
      rw [e]
      exact semD_mnem fl caps inst name ops os hn hos hops
    · exact semD_of_sem caps inst (masterI fl caps _ hlit r hc)
  | capInstDef name =>
    simp only [spineItem] at hp
    simp only [comp] at hc
    obtain ⟨n, hn, hr⟩ := bind_ok.mp hc
    obtain ⟨i, hi, rfl⟩ := capIndex_ok hn
    cases pure_ok.mp hr
    exact semD_capInstDef fl caps inst name i hi (List.contains_iff_mem.mp hp)
  | capInstRef name =>
    simp only [comp] at hc
    obtain ⟨n, hn, hr⟩ := bind_ok.mp hc
    obtain ⟨i, hi, rfl⟩ := capIndex_ok hn
    cases pure_ok.mp hr
    exact semD_capInstRef fl caps inst name i hi
  | and l t => exact semD_of_sem caps inst (masterI fl caps _ (by simpa [spineItem] using hp) r hc)
  | or l t => exact semD_of_sem caps inst (masterI fl caps _ (by simpa [spineItem] using hp) r hc)
  | anyOrder l t => exact semD_of_sem caps inst (masterI fl caps _ (by simpa [spineItem] using hp) r hc)
  | not q o t => exact semD_of_sem caps inst (masterI fl caps _ (by simpa [spineItem] using hp) r hc)
  | _ => simp [spineItem, litI] at hp

theorem semD_grp {α : Type} {txt : List α → Str} {Ok : List α → Prop} {caps inst : List Str} {r : Rx} {d : Den α}
    (h : SemD txt Ok caps inst r d) : SemD txt Ok caps inst (.grp r) d :=
  ⟨fun σ e w x hw hinv => by rw [mem_grp]; exact h.run_iff σ e w x hw hinv, h.inv, h.shape⟩

/-- **the capture spine**: a rule whose top-level items are un-repeated instruction items (operand
lists of literal names and operand captures) and instruction captures -/
theorem spine_master (fl : Flags) (caps inst : List Str) (items : List Pat) (hsp : items.all (spineItem inst) = true)
    (r : Rx) (hc : comp fl caps (.and items Times.one) = .ok r) :
    SemD encAll OkI caps inst r (denI fl (.and items Times.one)) := by
  simp only [comp] at hc
  obtain ⟨cs, hcs, hr⟩ := bind_ok.mp hc
  cases pure_ok.mp hr
  have e : denI fl (.and items Times.one) = seqDen (denIL fl items) := by
    funext σ L; simp [denI, timesDen]
  rw [e]
  simp only [withTimes, if_true]
  apply semD_grp
  apply semD_seqAll okI_drop
  clear hr hc e
  induction items generalizing cs with
  | nil =>
    simp only [compList] at hcs; cases pure_ok.mp hcs
    rw [denIL_nil]; exact .nil
  | cons p ps ih =>
    simp only [List.all_cons, Bool.and_eq_true] at hsp
    simp only [compList] at hcs
    obtain ⟨r1, hr1, hcs⟩ := bind_ok.mp hcs
    obtain ⟨rs, hrs, hcs⟩ := bind_ok.mp hcs
    cases pure_ok.mp hcs
    rw [denIL_cons]
    exact .cons (semD_spineItem fl caps inst p hsp.1 r1 hr1) (ih hsp.2 rs hrs)

end Jasm

import Jasm.Proofs.Scan
/-!
# A syntactic class of patterns that cannot match the empty sequence (helper lemmas)
-/
namespace Jasm

/-- every success consumes at least one character -/
def Strict (r : Rx) : Prop := ∀ e s x, x ∈ r.run e s → x.2.length < s.length

theorem strict_noEmpty {r : Rx} (h : Strict r) : NoEmptyMatch r := by
  intro e s x hx heq
  have := h e s x hx
  rw [heq] at this
  omega

theorem suffix_length_le {s t : Str} (h : t <:+ s) : t.length ≤ s.length := by
  obtain ⟨p, rfl⟩ := h; simp

theorem strict_seq_left {a b : Rx} (ha : Strict a) : Strict (.seq a b) := by
  intro e s x hx
  obtain ⟨y, hy, hx2⟩ := mem_seq.mp hx
  have := ha e s y hy
  have := suffix_length_le (run_suffix b _ _ _ hx2)
  omega

theorem strict_seq_right {a b : Rx} (hb : Strict b) : Strict (.seq a b) := by
  intro e s x hx
  obtain ⟨y, hy, hx2⟩ := mem_seq.mp hx
  have := hb _ _ x hx2
  have := suffix_length_le (run_suffix a _ _ _ hy)
  omega

theorem strict_grp {r : Rx} (h : Strict r) : Strict (.grp r) := fun e s x hx => h e s x (mem_grp.mp hx)

theorem strict_addr : Strict ignoreInstAddr := by
  intro e s x hx
  unfold ignoreInstAddr hexCls at hx
  obtain ⟨y, hy, hx2⟩ := mem_seq.mp hx
  obtain ⟨k, hk1, hk2, _, rfl⟩ := (mem_plus_cls _ _ _ _ _).mp hy
  have := suffix_length_le (run_suffix _ _ _ _ hx2)
  simp only [List.length_drop] at this
  omega

theorem strict_addr_seq (X : Rx) : Strict (.seq ignoreInstAddr X) := strict_seq_left strict_addr

theorem strict_seqAll (rs : List Rx) (h : ∃ r ∈ rs, Strict r) : Strict (seqAll rs) := by
  induction rs with
  | nil => obtain ⟨r, hr, _⟩ := h; simp at hr
  | cons r rs ih =>
    obtain ⟨q, hq, hs⟩ := h
    simp only [List.mem_cons] at hq
    rcases hq with rfl | hq
    · exact strict_seq_left hs
    · exact strict_seq_right (ih ⟨q, hq, hs⟩)

theorem strict_altAll (rs : List Rx) (h : ∀ r ∈ rs, Strict r) : Strict (altAll rs) := by
  intro e s x hx
  obtain ⟨r, hr, hx2⟩ := (mem_altAll rs e s x).mp hx
  exact h r hr e s x hx2

theorem strict_orJoin (rs : List Rx) (h : ∀ r ∈ rs, Strict r) : Strict (.grp (orJoin rs)) := by
  apply strict_grp
  apply strict_altAll
  intro r hr
  obtain ⟨q, hq, rfl⟩ := List.mem_map.mp hr
  exact strict_grp (h q hq)

theorem strict_rep {r : Rx} (h : Strict r) (lo hi : Nat) (hlo : 1 ≤ lo) : Strict (.rep r lo hi) := by
  intro e s x hx
  have hx' : x ∈ iterG r.run lo hi none e s := mem_rep.mp hx
  cases hi with
  | zero =>
    rw [iterG_hi_zero] at hx'
    split at hx'
    · omega
    · cases hx'
  | succ n =>
    cases lo with
    | zero => omega
    | succ lo =>
      simp only [iterG, List.mem_flatMap] at hx'
      obtain ⟨y, hy, hx2⟩ := hx'
      have := h e s y hy
      have := suffix_length_le (iterG_suffix r.run (run_suffix r) _ _ _ _ _ x hx2)
      omega

theorem strict_withTimes {r : Rx} (h : Strict r) (t : Times) (hlo : 1 ≤ t.lo) : Strict (withTimes r t) := by
  unfold withTimes; split
  · exact h
  · exact strict_rep h _ _ hlo

mutual
/-- instruction-level patterns that consume at least one instruction whenever they match -/
def nonNull : Pat → Bool
  | .mnem _ _ t => decide (1 ≤ t.lo)
  | .and l t => decide (1 ≤ t.lo) && nonNullAny l
  | .or l t => decide (1 ≤ t.lo) && nonNullAll l
  | .anyOrder l t => decide (1 ≤ t.lo) && nonNullAny l
  | .not _ _ t => decide (1 ≤ t.lo)
  | _ => false
def nonNullAny : List Pat → Bool
  | [] => false
  | p :: ps => nonNull p || nonNullAny ps
def nonNullAll : List Pat → Bool
  | [] => true
  | p :: ps => nonNull p && nonNullAll ps
end

theorem nonNullAny_mem {l : List Pat} (h : nonNullAny l = true) : ∃ q ∈ l, nonNull q = true := by
  induction l with
  | nil => simp [nonNullAny] at h
  | cons p ps ih =>
    simp only [nonNullAny, Bool.or_eq_true] at h
    rcases h with h | h
    · exact ⟨p, by simp, h⟩
    · obtain ⟨q, hq, hn⟩ := ih h; exact ⟨q, by simp [hq], hn⟩

theorem nonNullAll_mem {l : List Pat} (h : nonNullAll l = true) : ∀ q ∈ l, nonNull q = true := by
  induction l with
  | nil => simp
  | cons p ps ih =>
    simp only [nonNullAll, Bool.and_eq_true] at h
    intro q hq
    simp only [List.mem_cons] at hq
    rcases hq with rfl | hq
    · exact h.1
    · exact ih h.2 q hq

/-- membership version of `compList`: every child has a compiled regex in the list, and conversely -/
theorem compList_mem (fl : Flags) (caps : List Str) (l : List Pat) (cs : List Rx) (hc : compList fl caps l = .ok cs) :
    (∀ q ∈ l, ∃ r ∈ cs, comp fl caps q = .ok r) ∧ (∀ r ∈ cs, ∃ q ∈ l, comp fl caps q = .ok r) := by
  induction l generalizing cs with
  | nil => simp only [compList] at hc; cases pure_ok.mp hc; simp
  | cons p ps ih =>
    simp only [compList] at hc
    obtain ⟨r, hr, hc⟩ := bind_ok.mp hc
    obtain ⟨rs, hrs, hc⟩ := bind_ok.mp hc
    cases pure_ok.mp hc
    obtain ⟨ih1, ih2⟩ := ih rs hrs
    constructor
    · intro q hq
      simp only [List.mem_cons] at hq
      rcases hq with rfl | hq
      · exact ⟨r, by simp, hr⟩
      · obtain ⟨r', hr', hc'⟩ := ih1 q hq; exact ⟨r', by simp [hr'], hc'⟩
    · intro r' hr'
      simp only [List.mem_cons] at hr'
      rcases hr' with rfl | hr'
      · exact ⟨p, by simp, hr⟩
      · obtain ⟨q, hq, hc'⟩ := ih2 r' hr'; exact ⟨q, by simp [hq], hc'⟩

/-- **patterns of the syntactic class never match the empty string** -/
theorem strict_comp (fl : Flags) (caps : List Str) :
    ∀ (p : Pat), litI p = true → nonNull p = true → ∀ r, comp fl caps p = .ok r → Strict r
  | .mnem name ops t, _, hn, r, hc => by
    simp only [nonNull, decide_eq_true_eq] at hn
    simp only [comp] at hc
    obtain ⟨os, _, hr⟩ := bind_ok.mp hc
    split at hr
    · cases pure_ok.mp hr; exact strict_addr_seq _
    · cases pure_ok.mp hr; exact strict_rep (strict_grp (strict_addr_seq _)) _ _ hn
  | .and l t, h, hn, r, hc => by
    have key : ∀ q ∈ l, litI q = true → nonNull q = true → ∀ r, comp fl caps q = .ok r → Strict r :=
      fun q _ => strict_comp fl caps q
    simp only [nonNull, Bool.and_eq_true, decide_eq_true_eq] at hn
    simp only [comp] at hc
    obtain ⟨cs, hcs, hr⟩ := bind_ok.mp hc
    cases pure_ok.mp hr
    obtain ⟨q, hq, hqn⟩ := nonNullAny_mem hn.2
    obtain ⟨rq, hrq, hcq⟩ := (compList_mem fl caps l cs hcs).1 q hq
    have hs : Strict rq := key q hq (litIL_mem (by simpa [litI] using h) q hq) hqn rq hcq
    exact strict_withTimes (strict_grp (strict_seqAll cs ⟨rq, hrq, hs⟩)) t hn.1
  | .or l t, h, hn, r, hc => by
    have key : ∀ q ∈ l, litI q = true → nonNull q = true → ∀ r, comp fl caps q = .ok r → Strict r :=
      fun q _ => strict_comp fl caps q
    simp only [nonNull, Bool.and_eq_true, decide_eq_true_eq] at hn
    simp only [comp] at hc
    obtain ⟨cs, hcs, hr⟩ := bind_ok.mp hc
    cases pure_ok.mp hr
    have hall : ∀ r' ∈ cs, Strict r' := by
      intro r' hr'
      obtain ⟨q, hq, hcq⟩ := (compList_mem fl caps l cs hcs).2 r' hr'
      exact key q hq (litIL_mem (by simpa [litI] using h) q hq) (nonNullAll_mem hn.2 q hq) r' hcq
    exact strict_withTimes (strict_orJoin cs hall) t hn.1
  | .anyOrder l t, h, hn, r, hc => by
    have key : ∀ q ∈ l, litI q = true → nonNull q = true → ∀ r, comp fl caps q = .ok r → Strict r :=
      fun q _ => strict_comp fl caps q
    simp only [nonNull, Bool.and_eq_true, decide_eq_true_eq] at hn
    simp only [comp] at hc
    obtain ⟨cs, hcs, hr⟩ := bind_ok.mp hc
    cases pure_ok.mp hr
    obtain ⟨q, hq, hqn⟩ := nonNullAny_mem hn.2
    obtain ⟨rq, hrq, hcq⟩ := (compList_mem fl caps l cs hcs).1 q hq
    have hs : Strict rq := key q hq (litIL_mem (by simpa [litI] using h) q hq) hqn rq hcq
    apply strict_withTimes _ t hn.1
    apply strict_orJoin
    intro r' hr'
    obtain ⟨pm, hpm, rfl⟩ := List.mem_map.mp hr'
    have : rq ∈ pm := ((mem_perms cs pm).mp hpm).symm.subset hrq
    exact strict_grp (strict_seqAll pm ⟨rq, this, hs⟩)
  | .not p opLevel t, h, hn, r, hc => by
    simp only [nonNull, decide_eq_true_eq] at hn
    simp only [litI, Bool.and_eq_true, Bool.not_eq_true'] at h
    obtain ⟨rfl, _⟩ := h
    simp only [comp] at hc
    obtain ⟨c, _, hr⟩ := bind_ok.mp hc
    cases pure_ok.mp hr
    simp only [Bool.false_eq_true, if_false]
    exact strict_withTimes (strict_grp (strict_seq_right (strict_addr_seq _))) t hn
  | .operand _ _, h, _, _, _ => by simp [litI] at h
  | .timesMarker, h, _, _, _ => by simp [litI] at h
  | .deref _ _, h, _, _, _ => by simp [litI] at h
  | .derefField _ _, h, _, _, _ => by simp [litI] at h
  | .derefProp _ _, h, _, _, _ => by simp [litI] at h
  | .capInstDef _, h, _, _, _ => by simp [litI] at h
  | .capInstRef _, h, _, _, _ => by simp [litI] at h
  | .capOpDef _, h, _, _, _ => by simp [litI] at h
  | .capOpRef _, h, _, _, _ => by simp [litI] at h
  | .capDerefDef _, h, _, _, _ => by simp [litI] at h
  | .capDerefRef _, h, _, _, _ => by simp [litI] at h
  | .regDef _, h, _, _, _ => by simp [litI] at h
  | .regRef _, h, _, _, _ => by simp [litI] at h
termination_by p => sizeOf p
decreasing_by
  all_goals simp_wf
  all_goals first
    | (have := List.sizeOf_lt_of_mem ‹_ ∈ _›; omega)
    | omega

end Jasm

import Jasm.Model.Macro
/-!
# Parameterised macros: the expander's argument handling is simultaneous substitution

The code instantiates a macro body in two steps (`get_args_mapping_dict`, `_evaluate_args_in_macro`):
for each formal, *the last value bound to a key of that name anywhere in the call node*; then one
pass over the body per formal, in order, in which a formal met as a string leaf, as a dict value or
as a dict **key** replaces the value.  The readable specification is `substSim`: every string leaf
of the body that is a formal is replaced by the call's argument, simultaneously, and nothing else
changes.  This file proves that the two agree on hygienic calls (`Hyg`): no formal occurs inside an
argument value, none occurs as a dict key of the body, and the call binds each formal at most once.
-/
namespace Jasm

theorem Y.beq_str_iff (y : Y) (s : Str) : (y == Y.str s) = true ↔ y = Y.str s := by
  show Y.beq y (Y.str s) = true ↔ _
  cases y <;> simp [Y.beq]

mutual
/-- simultaneous substitution of the formals in `σ` at the string leaves of a tree (keys are not leaves) -/
def substSim (σ : List (Str × Y)) : Y → Y
  | .str s => match σ.lookup s with
    | some v => v
    | none => .str s
  | .list l => .list (substSimL σ l)
  | .dict d => .dict (substSimD σ d)
  | y => y
def substSimL (σ : List (Str × Y)) : List Y → List Y
  | [] => []
  | y :: ys => substSim σ y :: substSimL σ ys
def substSimD (σ : List (Str × Y)) : List (Y × Y) → List (Y × Y)
  | [] => []
  | (k, v) :: rest => (k, substSim σ v) :: substSimD σ rest
end

mutual
/-- no dict key, at any depth, is one of the names `fs` -/
def noKey (fs : List Str) : Y → Bool
  | .list l => noKeyL fs l
  | .dict d => noKeyD fs d
  | _ => true
def noKeyL (fs : List Str) : List Y → Bool
  | [] => true
  | y :: ys => noKey fs y && noKeyL fs ys
def noKeyD (fs : List Str) : List (Y × Y) → Bool
  | [] => true
  | (k, v) :: rest => !(fs.any fun f => k == Y.str f) && noKey fs v && noKeyD fs rest
end

mutual
/-- no string leaf (list element or dict value), at any depth, is one of the names `fs` -/
def noLeaf (fs : List Str) : Y → Bool
  | .str s => !fs.contains s
  | .list l => noLeafL fs l
  | .dict d => noLeafD fs d
  | _ => true
def noLeafL (fs : List Str) : List Y → Bool
  | [] => true
  | y :: ys => noLeaf fs y && noLeafL fs ys
def noLeafD (fs : List Str) : List (Y × Y) → Bool
  | [] => true
  | (_, v) :: rest => noLeaf fs v && noLeafD fs rest
end

theorem lookup_none_of_not_mem (σ : List (Str × Y)) (fs : List Str) (s : Str)
    (hσ : ∀ av ∈ σ, av.1 ∈ fs) (hs : fs.contains s = false) : σ.lookup s = none := by
  induction σ with
  | nil => rfl
  | cons av rest ih =>
    obtain ⟨a, v⟩ := av
    have ha : a ∈ fs := hσ (a, v) (by simp)
    have hne : (s == a) = false := by
      cases h : s == a with
      | false => rfl
      | true =>
        have : s = a := by simpa using h
        subst this
        have : fs.contains s = true := by simpa using ha
        rw [this] at hs; cases hs
    simp only [List.lookup, hne]
    exact ih (fun x hx => hσ x (by simp [hx]))

mutual
/-- a value free of formals is not changed by the substitution -/
theorem substSim_noLeaf (σ : List (Str × Y)) (fs : List Str) (hσ : ∀ av ∈ σ, av.1 ∈ fs) :
    ∀ (y : Y), noLeaf fs y = true → substSim σ y = y
  | .str s => by
    intro h
    simp only [noLeaf, Bool.not_eq_true'] at h
    simp only [substSim, lookup_none_of_not_mem σ fs s hσ h]
  | .list l => by
    intro h
    simp only [noLeaf] at h
    simp only [substSim, substSimL_noLeaf σ fs hσ l h]
  | .dict d => by
    intro h
    simp only [noLeaf] at h
    simp only [substSim, substSimD_noLeaf σ fs hσ d h]
  | .int _ => fun _ => rfl
  | .bool _ => fun _ => rfl
  | .null => fun _ => rfl
  | .float _ => fun _ => rfl
theorem substSimL_noLeaf (σ : List (Str × Y)) (fs : List Str) (hσ : ∀ av ∈ σ, av.1 ∈ fs) :
    ∀ (l : List Y), noLeafL fs l = true → substSimL σ l = l
  | [] => fun _ => rfl
  | y :: ys => by
    intro h
    simp only [noLeafL, Bool.and_eq_true] at h
    simp only [substSimL]
    rw [substSim_noLeaf σ fs hσ y h.1, substSimL_noLeaf σ fs hσ ys h.2]
theorem substSimD_noLeaf (σ : List (Str × Y)) (fs : List Str) (hσ : ∀ av ∈ σ, av.1 ∈ fs) :
    ∀ (d : List (Y × Y)), noLeafD fs d = true → substSimD σ d = d
  | [] => fun _ => rfl
  | (k, v) :: rest => by
    intro h
    simp only [noLeafD, Bool.and_eq_true] at h
    simp only [substSimD]
    rw [substSim_noLeaf σ fs hσ v h.1, substSimD_noLeaf σ fs hσ rest h.2]
end

theorem any_single (a : Str) (k : Y) : ([a].any fun f => k == Y.str f) = (k == Y.str a) := by simp

theorem mem_any_false (fs : List Str) (a : Str) (k : Y) (ha : a ∈ fs)
    (h : (fs.any fun f => k == Y.str f) = false) : (k == Y.str a) = false := by
  cases hk : k == Y.str a with
  | false => rfl
  | true =>
    have : (fs.any fun f => k == Y.str f) = true := List.any_eq_true.mpr ⟨a, ha, hk⟩
    rw [this] at h; cases h

mutual
/-- one sequential step followed by the remaining simultaneous substitution = the simultaneous
substitution with the step's binding in front -/
theorem substSim_substArg (a : Str) (v : Y) (rest : List (Str × Y)) (hv : substSim rest v = v) :
    ∀ (b : Y), noKey [a] b = true → substSim rest (substArg a v b) = substSim ((a, v) :: rest) b
  | .str s => by
    intro _
    by_cases hs : s = a
    · subst hs
      simp [substArg, substSim, List.lookup, hv]
    · have : (s == a) = false := by simpa using hs
      simp only [substArg, hs, if_false, substSim, List.lookup, this]
  | .list l => by
    intro h
    simp only [noKey] at h
    simp only [substArg, substSim, substSimL_substArgL a v rest hv l h]
  | .dict d => by
    intro h
    simp only [noKey] at h
    simp only [substArg, substSim, substSimD_substArgD a v rest hv d h]
  | .int _ => fun _ => rfl
  | .bool _ => fun _ => rfl
  | .null => fun _ => rfl
  | .float _ => fun _ => rfl
theorem substSimL_substArgL (a : Str) (v : Y) (rest : List (Str × Y)) (hv : substSim rest v = v) :
    ∀ (l : List Y), noKeyL [a] l = true → substSimL rest (substArgL a v l) = substSimL ((a, v) :: rest) l
  | [] => fun _ => rfl
  | y :: ys => by
    intro h
    simp only [noKeyL, Bool.and_eq_true] at h
    simp only [substArgL, substSimL, substSim_substArg a v rest hv y h.1, substSimL_substArgL a v rest hv ys h.2]
theorem substSimD_substArgD (a : Str) (v : Y) (rest : List (Str × Y)) (hv : substSim rest v = v) :
    ∀ (d : List (Y × Y)), noKeyD [a] d = true → substSimD rest (substArgD a v d) = substSimD ((a, v) :: rest) d
  | [] => fun _ => rfl
  | (k, w) :: more => by
    intro h
    simp only [noKeyD, Bool.and_eq_true, Bool.not_eq_true', any_single] at h
    obtain ⟨⟨hk, hw⟩, hmore⟩ := h
    have ih := substSimD_substArgD a v rest hv more hmore
    have ihw := substSim_substArg a v rest hv w hw
    by_cases hwa : (w == Y.str a) = true
    · have : w = Y.str a := (Y.beq_str_iff w a).mp hwa
      subst this
      simp only [substArgD, hk, hwa, Bool.false_or, if_true, substSimD, ih]
      simp only [substArg, if_true] at ihw
      rw [ihw]
    · have hwa' : (w == Y.str a) = false := by
        cases h : w == Y.str a with
        | true => exact absurd h hwa
        | false => rfl
      simp only [substArgD, hk, hwa', Bool.false_or, Bool.false_eq_true, if_false, substSimD, ih, ihw]
end

mutual
/-- substitution keeps the body free of formal-named keys when the value is -/
theorem noKey_substArg (fs : List Str) (a : Str) (v : Y) (hv : noKey fs v = true) :
    ∀ (b : Y), noKey fs b = true → noKey fs (substArg a v b) = true
  | .str s => by
    intro _
    by_cases hs : s = a
    · simp [substArg, hs, hv]
    · simp [substArg, hs, noKey]
  | .list l => by
    intro h
    simp only [noKey] at h
    simp only [substArg, noKey, noKeyL_substArgL fs a v hv l h]
  | .dict d => by
    intro h
    simp only [noKey] at h
    simp only [substArg, noKey, noKeyD_substArgD fs a v hv d h]
  | .int _ => fun _ => rfl
  | .bool _ => fun _ => rfl
  | .null => fun _ => rfl
  | .float _ => fun _ => rfl
theorem noKeyL_substArgL (fs : List Str) (a : Str) (v : Y) (hv : noKey fs v = true) :
    ∀ (l : List Y), noKeyL fs l = true → noKeyL fs (substArgL a v l) = true
  | [] => fun _ => rfl
  | y :: ys => by
    intro h
    simp only [noKeyL, Bool.and_eq_true] at h
    simp only [substArgL, noKeyL, noKey_substArg fs a v hv y h.1, noKeyL_substArgL fs a v hv ys h.2, Bool.and_self]
theorem noKeyD_substArgD (fs : List Str) (a : Str) (v : Y) (hv : noKey fs v = true) :
    ∀ (d : List (Y × Y)), noKeyD fs d = true → noKeyD fs (substArgD a v d) = true
  | [] => fun _ => rfl
  | (k, w) :: more => by
    intro h
    simp only [noKeyD, Bool.and_eq_true] at h
    obtain ⟨⟨hk, hw⟩, hmore⟩ := h
    have ih := noKeyD_substArgD fs a v hv more hmore
    have ihw := noKey_substArg fs a v hv w hw
    simp only [substArgD]
    split
    · simp only [noKeyD, hk, hv, ih, Bool.and_self]
    · simp only [noKeyD, hk, ihw, ih, Bool.and_self]
end

mutual
theorem noKey_mono (fs : List Str) (a : Str) (ha : a ∈ fs) : ∀ (b : Y), noKey fs b = true → noKey [a] b = true
  | .str _ => fun _ => rfl
  | .list l => by
    intro h; simp only [noKey] at h ⊢; exact noKeyL_mono fs a ha l h
  | .dict d => by
    intro h; simp only [noKey] at h ⊢; exact noKeyD_mono fs a ha d h
  | .int _ => fun _ => rfl
  | .bool _ => fun _ => rfl
  | .null => fun _ => rfl
  | .float _ => fun _ => rfl
theorem noKeyL_mono (fs : List Str) (a : Str) (ha : a ∈ fs) : ∀ (l : List Y), noKeyL fs l = true → noKeyL [a] l = true
  | [] => fun _ => rfl
  | y :: ys => by
    intro h
    simp only [noKeyL, Bool.and_eq_true] at h ⊢
    exact ⟨noKey_mono fs a ha y h.1, noKeyL_mono fs a ha ys h.2⟩
theorem noKeyD_mono (fs : List Str) (a : Str) (ha : a ∈ fs) : ∀ (d : List (Y × Y)), noKeyD fs d = true → noKeyD [a] d = true
  | [] => fun _ => rfl
  | (k, w) :: more => by
    intro h
    simp only [noKeyD, Bool.and_eq_true, Bool.not_eq_true', any_single] at h ⊢
    exact ⟨⟨mem_any_false fs a k ha h.1.1, noKey_mono fs a ha w h.1.2⟩, noKeyD_mono fs a ha more h.2⟩
end

/-- hygiene of a binding list with respect to the formals `fs` -/
def HygBinds (fs : List Str) (σ : List (Str × Y)) : Prop :=
  ∀ av ∈ σ, av.1 ∈ fs ∧ noKey fs av.2 = true ∧ noLeaf fs av.2 = true

/-- **the sequential passes of `_evaluate_args_in_macro` are the simultaneous substitution** -/
theorem foldl_substArg_eq_substSim (fs : List Str) (σ : List (Str × Y)) (hσ : HygBinds fs σ) :
    ∀ (b : Y), noKey fs b = true → σ.foldl (fun p av => substArg av.1 av.2 p) b = substSim σ b := by
  induction σ with
  | nil =>
    intro b _
    have : ∀ y, substSim [] y = y := fun y => substSim_noLeaf [] [] (by simp) y (by
      induction y using Y.rec (motive_2 := fun l => noLeafL [] l = true) (motive_3 := fun d => noLeafD [] d = true)
        (motive_4 := fun kv => noLeaf [] kv.2 = true) <;> simp_all [noLeaf, noLeafL, noLeafD])
    simp [this]
  | cons av rest ih =>
    intro b hb
    obtain ⟨a, v⟩ := av
    obtain ⟨ha, hvk, hvl⟩ := hσ (a, v) (by simp)
    have hrest : HygBinds fs rest := fun x hx => hσ x (by simp [hx])
    simp only [List.foldl_cons]
    rw [ih hrest (substArg a v b) (noKey_substArg fs a v hvk b hb)]
    exact substSim_substArg a v rest (substSim_noLeaf rest fs (fun x hx => (hrest x hx).1) v hvl) b (noKey_mono fs a ha b hb)

end Jasm

import Jasm.Proofs.Master
/-!
# Lemmas about the denotation (helper lemmas): repetition as r-fold composition, permutations
-/
namespace Jasm

/-- replace the repetition attribute of an item or group -/
def Pat.setTimes : Pat → Times → Pat
  | .and l _, t => .and l t
  | .or l _, t => .or l t
  | .not p o _, t => .not p o t
  | .anyOrder l _, t => .anyOrder l t
  | .mnem n ops _, t => .mnem n ops t
  | .deref f _, t => .deref f t
  | p, _ => p

theorem timesDen_one {α : Type} (d : Den α) : timesDen d Times.one = d := by simp [timesDen]

/-- the items and groups that can carry a repetition at instruction level -/
def Pat.timedI : Pat → Bool
  | .and _ _ | .or _ _ | .not _ _ _ | .anyOrder _ _ | .mnem _ _ _ => true
  | _ => false

theorem denI_setTimes (fl : Flags) (p : Pat) (hp : p.timedI = true) (t : Times) :
    denI fl (p.setTimes t) = timesDen (denI fl (p.setTimes Times.one)) t := by
  cases p <;> simp [Pat.timedI] at hp <;>
    (funext σ L; simp only [Pat.setTimes, denI, timesDen_one])

theorem litI_setTimes (p : Pat) (t : Times) : litI (p.setTimes t) = litI p := by
  cases p <;> simp [Pat.setTimes, litI]

end Jasm

namespace Jasm

theorem denIL_eq_map (fl : Flags) (l : List Pat) : denIL fl l = l.map (denI fl) := by
  induction l with
  | nil => simp [denIL]
  | cons p ps ih => simp [denIL, ih]

theorem denOL_eq_map (fl : Flags) (l : List Pat) : denOL fl l = l.map (denO fl) := by
  induction l with
  | nil => simp [denOL]
  | cons p ps ih => simp [denOL, ih]

theorem eraseIdx_map' {α β : Type} (f : α → β) (l : List α) (i : Nat) :
    (l.map f).eraseIdx i = (l.eraseIdx i).map f := by
  induction l generalizing i with
  | nil => simp
  | cons a t ih =>
    cases i with
    | zero => simp
    | succ i => simp [ih]

theorem permsAux_map {α β : Type} (f : α → β) (n : Nat) (l : List α) :
    permsAux n (l.map f) = (permsAux n l).map (List.map f) := by
  induction n generalizing l with
  | zero => simp [permsAux]
  | succ n ih =>
    simp only [permsAux, List.length_map, List.map_flatMap]
    congr 1
    funext i
    cases h : l[i]? with
    | none => simp [h]
    | some x => simp [h, eraseIdx_map', ih, List.map_map, Function.comp_def]

theorem perms_map {α β : Type} (f : α → β) (l : List α) : perms (l.map f) = (perms l).map (List.map f) := by
  simp [perms, permsAux_map]

theorem perm_cons_eraseIdx {α : Type} (l : List α) (i : Nat) (x : α) (h : l[i]? = some x) :
    List.Perm l (x :: l.eraseIdx i) := by
  induction l generalizing i with
  | nil => simp at h
  | cons a t ih =>
    cases i with
    | zero => simp at h; subst h; simp
    | succ i =>
      simp at h
      have := ih i h
      simp only [List.eraseIdx_cons_succ]
      exact (List.Perm.cons a this).trans (List.Perm.swap x a _)

/-- `perms l` lists exactly the orderings of `l` (each child used exactly once) -/
theorem mem_permsAux {α : Type} (n : Nat) (l q : List α) (hn : l.length = n) :
    q ∈ permsAux n l ↔ List.Perm q l := by
  induction n generalizing l q with
  | zero =>
    have : l = [] := List.eq_nil_of_length_eq_zero hn
    subst this
    simp [permsAux]
  | succ n ih =>
    simp only [permsAux, List.mem_flatMap, List.mem_range]
    constructor
    · rintro ⟨i, hi, hq⟩
      cases hx : l[i]? with
      | none => simp [hx] at hq
      | some x =>
        simp only [hx, List.mem_map] at hq
        obtain ⟨q', hq', rfl⟩ := hq
        have hlen : (l.eraseIdx i).length = n := by
          rw [List.length_eraseIdx]; simp [hi]; omega
        have := (ih _ _ hlen).mp hq'
        exact (List.Perm.cons x this).trans (perm_cons_eraseIdx l i x hx).symm
    · intro hp
      cases q with
      | nil =>
        have := hp.length_eq
        simp at this; omega
      | cons x q' =>
        have hx : x ∈ l := hp.subset (by simp)
        obtain ⟨i, hi, hxi⟩ := List.mem_iff_getElem.mp hx
        have hxi' : l[i]? = some x := by simp [List.getElem?_eq_getElem hi, hxi]
        refine ⟨i, hi, ?_⟩
        simp only [hxi', List.mem_map]
        refine ⟨q', ?_, rfl⟩
        have hlen : (l.eraseIdx i).length = n := by
          rw [List.length_eraseIdx]; simp [hi]; omega
        apply (ih _ _ hlen).mpr
        have := hp.trans (perm_cons_eraseIdx l i x hxi')
        exact List.Perm.cons_inv this

theorem mem_perms {α : Type} (l q : List α) : q ∈ perms l ↔ List.Perm q l :=
  mem_permsAux l.length l q rfl

end Jasm

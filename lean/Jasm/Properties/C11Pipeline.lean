import Jasm.Properties.C11
import Jasm.Properties.C07
import Jasm.Properties.C12
import Jasm.Proofs.FrontEnd2
/-!
# C11 / C07, whole operation: the list results of `runOp`

For a rule file of the source fragment (`yIL`, see `Proofs/FrontEnd2.lean`) that consumes at least one
instruction, and a listing file of the objdump grammar: the all-matches list result of the whole
modelled operation is the text of the windows of an instruction-level leftmost non-overlapping scan
of the listing's instructions, and the address-only list is the list of the windows' first
addresses.
-/
namespace Jasm.C11
open Jasm Jasm.FrontEnd

theorem C11_pipeline (fl : Flags) (l : List Pat) (hne : l.isEmpty = false) (hsrc : srcIL l = true)
    (hlit : litI (.and l Times.one) = true) (hnn : nonNull (.and l Times.one) = true)
    (r : Rx) (hc : comp fl [] (.and l Times.one) = .ok r)
    (ls : List LineSpec) (hls : ls ≠ []) (hwf : ∀ x ∈ ls, C08.LineSpec.WF x) (hA : OkA (expectedInsts ls))
    (w : World) (path : Str) (hread : w.readFile path = .ok (renderListing ls)) (s : Config) :
    ∃ ws : List (List Inst), ScanI fl (.and l Times.one) (expectedInsts ls) ws ∧
      (runOp w s ⟨.ok (docOf fl (.list (yIL l))), [], .assembly, path, .all, false, .list⟩).2
        = .ok (.list (ws.map encAll)) ∧
      (runOp w s ⟨.ok (docOf fl (.list (yIL l))), [], .assembly, path, .all, true, .list⟩).2
        = .ok (.list (ws.map (fun w => (w.head?.map (·.addr)).getD []))) := by
  have hstream := C08.C08_stream ls hls hwf
  obtain ⟨insts, hparse, hproc⟩ := bind_ok.mp hstream
  have hrule := compileRule_docOf fl _ r (compileTree_src fl l hne hsrc r hc) s
  have hnem := strict_noEmpty (strict_comp fl [] _ hlit hnn r hc)
  obtain ⟨ws, hscan, hfull, haddr, _⟩ := C07.C07_all fl [] _ hlit r hc hnem _ hA
  refine ⟨ws, hscan, ?_, ?_⟩
  · simp only [runOp, hrule, hread, bind, Except.bind, hparse, matchInsts, cfgAfter, Option.getD, hproc, pure,
      Except.pure, C12.C12_list]
    rw [hfull]
  · simp only [runOp, hrule, hread, bind, Except.bind, hparse, matchInsts, cfgAfter, Option.getD, hproc, pure,
      Except.pure, C12.C12_list]
    rw [haddr]
    rfl

end Jasm.C11

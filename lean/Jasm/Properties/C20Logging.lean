import Jasm.Properties.C20
/-!
# C20: the logging options do not change what is computed

`--debug`, `--info`, `--enable_logging_to_file`, `--enable_logging_to_terminal` in front of a command
line leave the configuration handed to the library (pattern, input, kind, modes, macro files) and the
usage errors exactly as they are without them.
-/
namespace Jasm.C20
open Jasm

/-- **C20 (logging options)**: `--debug` in front of the command line of any combination of `-s`/`-b`,
`--all-matches`, `--return_only_address` and `--macros` leaves the configuration handed to the library as it is -/
theorem C20_args_debug (o : Opts) (h : o.WF) :
    (parseArgs ("--debug".toList :: renderArgs o)).bind toMatchConfig =
      .ok ⟨o.pattern, o.input, if o.binary then .binary else .assembly,
           if o.allMatches then .all else .first, o.addrOnly, o.macros⟩ := by
  obtain ⟨p, i, b, am, ao, ms⟩ := o
  obtain ⟨hp, hi, hne, hm⟩ := h
  simp only at hp hi hne hm
  have hie : i.isEmpty = false := by cases i <;> simp_all
  cases ms with
  | nil =>
    cases b <;> cases am <;> cases ao <;>
      simp [parseArgs, renderArgs, parseTokens, hp, hi, toMatchConfig, hie, Except.bind, parseTokens_nil]
  | cons m ms =>
    have htv := takeValues_all (m :: ms) hm
    cases b <;> cases am <;> cases ao <;>
      simp [parseArgs, renderArgs, parseTokens, hp, hi, toMatchConfig, hie, Except.bind, parseTokens_nil, htv]

/-- the same for the switches that are on by default -/
theorem C20_info_irrelevant (argv : List Str) (flag : Str)
    (hf : flag = "--info".toList ∨ flag = "--enable_logging_to_file".toList ∨ flag = "--enable_logging_to_terminal".toList) :
    parseArgs (flag :: argv) = parseArgs argv := by
  have : parseTokens (flag :: argv).length (flag :: argv) {} = parseTokens argv.length argv {} := by
    rcases hf with rfl | rfl | rfl <;> simp [parseTokens]
  simp only [parseArgs, this]

end Jasm.C20

import Jasm.Properties.C17
/-!
# C17: wrongly-typed `valid_addr_range` entries are loud
-/
namespace Jasm.C17
open Jasm

/-- a `valid_addr_range` that is present and truthy but not a mapping (a list, a string, a number) is an error -/
theorem C17_range_not_a_mapping (c : List (Y × Y)) (v : Y) (hk : dictGet c "valid_addr_range" = some v)
    (ht : truthy v = true) (hnd : ∀ r, v ≠ .dict r) : isError (cfgRange c) := by
  unfold cfgRange
  simp only [hk, ht, Bool.not_true, Bool.false_eq_true, if_false]
  cases v with
  | dict r => exact absurd rfl (hnd r)
  | _ => exact ⟨_, rfl⟩

/-- a bound that is not a string (an unquoted `0x401000` is a YAML integer, `null`, a list, a boolean, a missing
bound) is an error: the range is never silently read as something else -/
theorem C17_range_bound_not_a_string (c r : List (Y × Y)) (hk : dictGet c "valid_addr_range" = some (.dict r)) (hne : r ≠ [])
    (h : (∀ s, dictGet r "min" ≠ some (.str s)) ∨ (∀ s, dictGet r "max" ≠ some (.str s))) : isError (cfgRange c) := by
  have ht : truthy (.dict r) = true := by cases r <;> simp_all [truthy]
  unfold cfgRange
  simp only [hk, ht, Bool.not_true, Bool.false_eq_true, if_false]
  rcases h with h | h
  · cases hlo : dictGet r "min" with
    | none => exact ⟨_, rfl⟩
    | some v =>
      cases v with
      | str s => exact absurd hlo (h s)
      | _ => exact ⟨_, rfl⟩
  · cases hlo : dictGet r "min" with
    | none => exact ⟨_, rfl⟩
    | some v =>
      cases v with
      | str s =>
        cases hhi : dictGet r "max" with
        | none => exact ⟨_, rfl⟩
        | some w =>
          cases w with
          | str t => exact absurd hhi (h t)
          | _ => exact ⟨_, rfl⟩
      | _ => exact ⟨_, rfl⟩

/-- … and the error reaches the caller of the whole operation -/
theorem C17_range_error_propagates (c : List (Y × Y)) (s : Config) (h : isError (cfgRange c))
    (hf : ∃ mo, cfgFlags c = .ok mo) : isError (loadConfig (.dict c) s).2 := by
  obtain ⟨mo, hmo⟩ := hf
  obtain ⟨msg, hm⟩ := h
  unfold loadConfig
  simp only [hmo, hm]
  exact ⟨msg, rfl⟩

end Jasm.C17

import Jasm.Properties.C13
/-!
# C13, rule level: the rule written with macros compiles to the regex of the manually inlined rule

`compileRule` is the model of `Yaml2Regex(path, macros).produce_regex()` (configuration, macros of
the rule file and of extra macro files, expansion, typing, compilation).  For a rule document whose
macros are of the covered kinds and whose uses are supported, and the macro-free document with the
same `config` whose pattern tree is the manual inlining, both compile to the same outcome.
-/
namespace Jasm.C13
open Jasm

theorem compileRule_no_macros (d : List (Y × Y)) (s : Config) (fl_s : Config) (u : Unit)
    (hcfg : loadConfig ((dictGet d "config").getD (.dict [])) s = (fl_s, .ok u))
    (hmac : dictGet d "macros" = none) :
    (compileRule (.dict d) [] s).2 = compileTree fl_s.flags (topTree ((dictGet d "pattern").getD .null)) := by
  unfold compileRule
  simp [hcfg, hmac, bind, Except.bind, pure, Except.pure]

/-- **C13 (rule level)** -/
theorem C13_rule (d d' : List (Y × Y)) (mds : List (M Y)) (s : Config) (macros extra : List Y)
    (mks : List (Macro × MKind)) (fl_s : Config) (u : Unit)
    (hcfg : loadConfig ((dictGet d "config").getD (.dict [])) s = (fl_s, .ok u))
    (hcfg' : dictGet d' "config" = dictGet d "config")
    (hmac : dictGet d "macros" = some (.list macros)) (hne : ¬ (macros.isEmpty && mds.isEmpty) = true)
    (hextra : extraMacros mds = .ok extra)
    (hms : (extra ++ macros).mapM macroOfY = .ok (mks.map (·.1)))
    (hk : ∀ mk ∈ mks, kindOf mk.1 = some mk.2 ∧ mk.1.name ≠ [])
    (hs : suppAll mks (topTree ((dictGet d "pattern").getD .null)) = true)
    (hok : ∃ t, resolveAllMacros (extra ++ macros) (topTree ((dictGet d "pattern").getD .null)) = .ok t)
    (hmac' : dictGet d' "macros" = none)
    (hinl : topTree ((dictGet d' "pattern").getD .null) = inlAll mks (topTree ((dictGet d "pattern").getD .null))) :
    (compileRule (.dict d) mds s).2 = (compileRule (.dict d') [] s).2 := by
  obtain ⟨t, ht⟩ := hok
  have hinlined := C13 (extra ++ macros) mks _ t hms hk hs ht
  rw [C13_files d mds s macros extra fl_s u hcfg hmac hne hextra, ht]
  rw [compileRule_no_macros d' s fl_s u (by rw [hcfg']; exact hcfg) hmac', hinl, ← hinlined]
  rfl

end Jasm.C13

import Jasm.Properties.C06
import Jasm.Properties.C03Verdict
/-!
# C06 inside the whole operation

Literal `$deref` operands are part of the master theorem's fragment (`litO`, `derefLit` in
`Proofs/Master.lean`: their specification is "the operand is one of `derefTexts`") and of the YAML
front end's fragment (`srcO` in `Proofs/FrontEnd2.lean`: `build` and `typ` turn
`{$deref: {main_reg: a, …}}` into `.deref d.fields`).  Hence every theorem quantified over `litI` /
`srcIL` - C01 … C04, C07, C11, the verdict and pipeline theorems - holds for rules whose items carry
`$deref` operands, alone or under `$or` / `$and_any_order` / `$not`.  This file states the instance
for the whole operation and checks that the hypotheses are met by concrete rules.
-/
namespace Jasm.C06
open Jasm Jasm.FrontEnd

/-- a `DerefSpec` with plain, non-empty, comma-free components is in both fragments -/
theorem derefLit_of_spec (d : DerefSpec) (h : derefLit d.fields Times.one = true) :
    litO d.toPat = true := by
  simp [DerefSpec.toPat, litO, h]

/-- **C06 (whole operation)**: a rule file whose pattern is any list of items of the source fragment -
in particular items with `$deref` operands written `{$deref: {main_reg: a, register_multiplier: b,
constant_multiplier: c, constant_offset: k}}` (absent fields omitted) - run against a listing file of
the objdump grammar gives the specification's verdict, in which a `$deref` operand holds at an
operand position iff the operand's normal form is one of `derefTexts` -/
theorem C06_pipeline (fl : Flags) (l : List Pat) (hne : l.isEmpty = false) (hsrc : srcIL l = true)
    (hlit : litI (.and l Times.one) = true) (hnn : nonNull (.and l Times.one) = true)
    (r : Rx) (hc : comp fl [] (.and l Times.one) = .ok r)
    (ls : List LineSpec) (hls : ls ≠ []) (hwf : ∀ x ∈ ls, C08.LineSpec.WF x) (hA : OkA (expectedInsts ls))
    (w : World) (path : Str) (hread : w.readFile path = .ok (renderListing ls)) (s : Config) (addrOnly : Bool) :
    (runOp w s ⟨.ok (docOf fl (.list (yIL l))), [], .assembly, path, .first, addrOnly, .bool⟩).2
      = .ok (.bool (foundSpec fl (.and l Times.one) (expectedInsts ls))) :=
  C03.C03_pipeline fl l hne hsrc hlit hnn r hc ls hls hwf hA w path hread s addrOnly

/-- what the specification says about a `$deref` operand: exactly one operand, one of the accepted texts -/
theorem C06_den (fl : Flags) (d : DerefSpec) (σ : Sigma) (f : Str) (fs : List Str) :
    denO fl d.toPat σ (f :: fs) = if (derefTexts d.fields).contains f then [(1, σ)] else [] := by
  simp [DerefSpec.toPat, denO, timesDen]

/-- non-vacuity: `mov: [{$deref: {main_reg: rax, register_multiplier: rbx, constant_multiplier: 4, constant_offset: 0x10}}, rcx]`
(also under `$or` with a plain operand) is in every fragment the theorems quantify over; it is found on
`mov 0x10(%rax,%rbx,4),%rcx` as normalised by the parser and not on the operand with another scale -/
example :
    let d : DerefSpec := ⟨"rax".toList, some "rbx".toList, some "4".toList, some "0x10".toList⟩
    let p : Pat := .mnem "mov".toList [.or [d.toPat, .operand "zzz".toList false] Times.one, .operand "rcx".toList false] Times.one
    srcIL [p] = true ∧ litI (.and [p] Times.one) = true ∧ nonNull (.and [p] Times.one) = true ∧
      foundSpec ⟨false, false⟩ (.and [p] Times.one)
        [⟨"1".toList, "mov".toList, ["[%rax+%rbx*4+0x10]".toList, "%rcx".toList]⟩] = true ∧
      foundSpec ⟨false, false⟩ (.and [p] Times.one)
        [⟨"1".toList, "mov".toList, ["[%rax+%rbx*8+0x10]".toList, "%rcx".toList]⟩] = false := by
  decide +kernel

/-- the YAML text of that rule is what the front end reads back -/
example :
    let d : DerefSpec := ⟨"rax".toList, some "rbx".toList, none, some "0x10".toList⟩
    (build (yO d.toPat) >>= fun n => typ .operand .mnemonic n []) = .ok (d.toPat, []) := by
  intro d
  have hb := build_deref d.fields (by decide)
  have ht := typ_deref d.fields Times.one (by decide) [] .operand (Or.inl rfl)
  simp only [DerefSpec.toPat, hb, bind, Except.bind, ht]

/-- the same for a `$deref` whose components are alternatives, `main_reg: [{$or: [rax, rbx]}]`: it is in the
source fragment of the front end (`srcO`), so the pipeline theorems cover rule files that use it -/
example :
    let d : DerefAlt := ⟨["rax".toList, "rbx".toList], none, none, some ["0x8".toList, "0x10".toList]⟩
    let p : Pat := .mnem "mov".toList [d.toPat, .operand "rcx".toList false] Times.one
    srcIL [p] = true ∧ litI (.and [p] Times.one) = true ∧ nonNull (.and [p] Times.one) = true ∧
      foundSpec ⟨false, false⟩ (.and [p] Times.one)
        [⟨"1".toList, "mov".toList, ["[%rbx+0x10]".toList, "%rcx".toList]⟩] = true ∧
      foundSpec ⟨false, false⟩ (.and [p] Times.one)
        [⟨"1".toList, "mov".toList, ["[%rcx+0x10]".toList, "%rcx".toList]⟩] = false := by
  decide +kernel

end Jasm.C06

import Jasm.Proofs.DenLemmas
/-!
# C04 `$not` consumes exactly one instruction (or operand) at which its argument fails

For every argument `X` of the capture-free literal fragment (a single item or any group, spanning
any number of instructions) and every position of the `$not` in the pattern (the master theorem is
structural, so leading / inner / trailing / repeated positions are all instances).
-/
namespace Jasm.C04
open Jasm

/-- instruction level: `$not: [X]` has exactly one success when there is an instruction at which
`X` does not match starting there, and it consumes exactly that one instruction - however many
instructions `X` would span; otherwise it has none -/
theorem C04_instruction (fl : Flags) (caps : List Str) (X : Pat) (hX : litI X = true)
    (r : Rx) (hc : comp fl caps (.not X false Times.one) = .ok r) (L : List Inst) (hL : OkI L)
    (σ : Sigma) (e : Env) (x : Env × Str) :
    x ∈ r.run e (encAll L) ↔ (L ≠ [] ∧ denI fl X σ L = [] ∧ x = (e, encAll (L.drop 1))) := by
  have hl : litI (.not X false Times.one) = true := by simp [litI, hX]
  rw [(masterI fl caps _ hl r hc).run_iff σ e L x hL]
  simp only [denI, timesDen_one]
  constructor
  · rintro ⟨k, hk, rfl⟩
    split at hk
    · rename_i h
      simp only [Bool.and_eq_true, Bool.not_eq_true', List.isEmpty_iff] at h
      simp at hk; subst hk
      exact ⟨by intro e0; simp [e0] at h, h.2, rfl⟩
    · cases hk
  · rintro ⟨hne, hd, rfl⟩
    refine ⟨1, ?_, rfl⟩
    have : L.isEmpty = false := by cases L <;> simp_all
    simp [this, hd]

/-- operand level: `$not: [x]` matches exactly one operand that `x` does not match and leaves the
following operands (and instructions) to the rest of the pattern -/
theorem C04_operand (fl : Flags) (caps : List Str) (X : Pat) (hX : litO X = true)
    (r : Rx) (hc : comp fl caps (.not X true Times.one) = .ok r) (T : Str) (w : List Str) (hw : OkO w)
    (σ : Sigma) (e : Env) (x : Env × Str) :
    x ∈ r.run e (txtO T w) ↔ (w ≠ [] ∧ denO fl X σ w = [] ∧ x = (e, txtO T (w.drop 1))) := by
  have hl : litO (.not X true Times.one) = true := by simp [litO, hX]
  rw [(masterO fl caps _ hl T r hc).run_iff σ e w x hw]
  simp only [denO, timesDen_one]
  constructor
  · rintro ⟨k, hk, rfl⟩
    split at hk
    · rename_i h
      simp only [Bool.and_eq_true, Bool.not_eq_true', List.isEmpty_iff] at h
      simp at hk; subst hk
      exact ⟨by intro e0; simp [e0] at h, h.2, rfl⟩
    · cases hk
  · rintro ⟨hne, hd, rfl⟩
    refine ⟨1, ?_, rfl⟩
    have : w.isEmpty = false := by cases w <;> simp_all
    simp [this, hd]

/-- `[$not X, Y]` at the start of an instruction: the instruction there fails `X` and the *next*
instruction starts `Y` (so `$not X` consumed exactly one instruction) -/
theorem C04_seq (fl : Flags) (X Y : Pat) (σ : Sigma) (L : List Inst) (k : Nat) :
    (k, σ) ∈ seqDen ([Pat.not X false Times.one, Y].map (denI fl)) σ L ↔
      (L ≠ [] ∧ denI fl X σ L = [] ∧ ∃ k', (k', σ) ∈ denI fl Y σ (L.drop 1) ∧ k = 1 + k') := by
  have hnot : ∀ p, p ∈ denI fl (Pat.not X false Times.one) σ L ↔ (L ≠ [] ∧ denI fl X σ L = [] ∧ p = (1, σ)) := by
    intro p
    simp only [denI, timesDen_one]
    constructor
    · intro hp
      split at hp
      · rename_i h
        simp only [Bool.and_eq_true, Bool.not_eq_true', List.isEmpty_iff] at h
        simp at hp
        exact ⟨by intro e0; simp [e0] at h, h.2, hp⟩
      · cases hp
    · rintro ⟨hne, hd, rfl⟩
      have : L.isEmpty = false := by cases L <;> simp_all
      simp [this, hd]
  simp only [List.map_cons, List.map_nil, seqDen, List.mem_flatMap, List.mem_map]
  constructor
  · rintro ⟨p1, h1, p2, ⟨p3, h3, h4⟩, heq⟩
    obtain ⟨hne, hd, rfl⟩ := (hnot p1).mp h1
    simp only [List.mem_singleton] at h4
    subst h4
    obtain ⟨k3, σ3⟩ := p3
    simp only [Prod.mk.injEq] at heq
    obtain ⟨rfl, rfl⟩ := heq
    exact ⟨hne, hd, k3, h3, by omega⟩
  · rintro ⟨hne, hd, k', hk', rfl⟩
    exact ⟨(1, σ), (hnot _).mpr ⟨hne, hd, rfl⟩, (k', σ), ⟨(k', σ), hk', by simp⟩, by simp⟩

/-- non-vacuity: `$not` of a two-instruction group is in the fragment -/
example : litI (.not (.and [.mnem "push".toList [] Times.one, .mnem "mov".toList [.not (.operand "rax".toList false) true Times.one] Times.one] Times.one) false Times.one) = true := by decide

end Jasm.C04

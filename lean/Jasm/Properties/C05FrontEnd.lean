import Jasm.Proofs.FrontEnd2
import Jasm.Properties.C05
/-!
# C05 through the YAML front end: which occurrence of a capture name is the binding one

A rule of the capture spine as it is written: items `mnem: [operand, …]` whose operands are plain
names or capture names `&x`, and instruction captures `&i` in item position.  `elabItems` is the
specification of what the handler chains must make of it: walking the document in order (items top to
bottom, operands left to right) with the list of names met so far, an occurrence of a name not met
before is the *definition* (it binds), every later one is a *reference* (it must equal the bound text).
`C05_front_end` proves that `build` + `typ` - the real chain order, the capture manager threaded
through it - compute exactly that, so the typed patterns the theorem `C05_spine` is about are the ones
the YAML text denotes.
-/
namespace Jasm.C05
open Jasm Jasm.FrontEnd

inductive SOp where
  | lit (name : Str)
  | cap (name : Str)        -- the name as written, with its `&`

inductive SItem where
  | inst (mnem : Str) (ops : List SOp)
  | cap (name : Str)

def SOp.name : SOp → Str | .lit n => n | .cap n => n
def SOp.y (o : SOp) : Y := .str o.name
def SOp.node (o : SOp) : Node := leafNode o.name

def SItem.y : SItem → Y
  | .inst m ops => .dict [(.str m, .list (ops.map SOp.y))]
  | .cap n => .str n

def SItem.node : SItem → Node
  | .inst m ops => .mk m Times.one (ops.map SOp.node)
  | .cap n => leafNode n

/-- a capture name as the chains recognise it: starts with `&`, is not a register-family name -/
def CapName (n : Str) : Prop := isCapture n = true ∧ isSpecialReg n = false ∧ '$' ∉ n

def SOp.OK : SOp → Prop
  | .lit n => PlainName n
  | .cap n => CapName n

def SItem.OK : SItem → Prop
  | .inst m ops => PlainName m ∧ ∀ o ∈ ops, o.OK
  | .cap n => CapName n

/-- the specification: definition at the first occurrence, reference afterwards -/
def elabOps : List SOp → List Str → List Pat × List Str
  | [], caps => ([], caps)
  | .lit n :: r, caps =>
    let (ps, c) := elabOps r caps
    (.operand n false :: ps, c)
  | .cap n :: r, caps =>
    let (ps, c) := elabOps r (if caps.contains n then caps else caps ++ [n])
    ((if caps.contains n then Pat.capOpRef n else Pat.capOpDef n) :: ps, c)

def elabItems : List SItem → List Str → List Pat × List Str
  | [], caps => ([], caps)
  | .inst m ops :: r, caps =>
    let (os, c1) := elabOps ops caps
    let (ps, c2) := elabItems r c1
    (.mnem m os Times.one :: ps, c2)
  | .cap n :: r, caps =>
    let (ps, c) := elabItems r (if caps.contains n then caps else caps ++ [n])
    ((if caps.contains n then Pat.capInstRef n else Pat.capInstDef n) :: ps, c)

theorem capName_ne (n : Str) (h : CapName n) (kw : Str) (hk : kw.head? ≠ some '&') : n ≠ kw := by
  rintro rfl
  obtain ⟨hc, _, _⟩ := h
  cases n with
  | nil => simp [isCapture, List.isPrefixOf] at hc
  | cons c t =>
    have : c = '&' := by
      simp [isCapture, List.isPrefixOf] at hc
      exact hc.symm
    subst this
    simp at hk

theorem typ_opCap (n : Str) (h : CapName n) (caps : List Str) :
    typ .operand .mnemonic (leafNode n) caps =
      .ok ((if caps.contains n then Pat.capOpRef n else Pat.capOpDef n), (if caps.contains n then caps else caps ++ [n])) := by
  have h1 := capName_ne n h "$and".toList (by decide)
  have h2 := capName_ne n h "$or".toList (by decide)
  have h3 := capName_ne n h "$not".toList (by decide)
  have h4 := capName_ne n h "$and_any_order".toList (by decide)
  have h5 := capName_ne n h "$deref".toList (by decide)
  have h6 := capName_ne n h "times".toList (by decide)
  obtain ⟨hc, hs, _⟩ := h
  rw [leafNode, typ.eq_def]
  simp only [h1, h2, h3, h4, h5, h6, hs, hc, if_false, if_true, Bool.false_eq_true, captureBuild, pure, Except.pure]
  split <;> rfl

theorem typ_instCap (n : Str) (h : CapName n) (caps : List Str) :
    typ .general .none (leafNode n) caps =
      .ok ((if caps.contains n then Pat.capInstRef n else Pat.capInstDef n), (if caps.contains n then caps else caps ++ [n])) := by
  have h1 := capName_ne n h "$and".toList (by decide)
  have h2 := capName_ne n h "$or".toList (by decide)
  have h3 := capName_ne n h "$not".toList (by decide)
  have h4 := capName_ne n h "$and_any_order".toList (by decide)
  have h5 := capName_ne n h "$deref".toList (by decide)
  have h6 := capName_ne n h "times".toList (by decide)
  obtain ⟨hc, _, _⟩ := h
  rw [leafNode, typ.eq_def]
  simp only [h1, h2, h3, h4, h5, h6, hc, if_false, if_true, captureBuild, pure, Except.pure]
  split <;> rfl

theorem typList_ops : ∀ (ops : List SOp), (∀ o ∈ ops, o.OK) → ∀ (caps : List Str),
    typList .operand .mnemonic (ops.map SOp.node) caps = .ok (elabOps ops caps)
  | [], _, caps => by simp [typList, elabOps, pure, Except.pure]
  | .lit n :: r, h, caps => by
    have hn : PlainName n := h (.lit n) (by simp)
    have ih := typList_ops r (fun o ho => h o (by simp [ho])) caps
    simp only [List.map_cons, SOp.node, SOp.name, typList, typ_leaf n hn caps, ih, elabOps, bind, Except.bind, pure, Except.pure]
  | .cap n :: r, h, caps => by
    have hn : CapName n := h (.cap n) (by simp)
    have ih := typList_ops r (fun o ho => h o (by simp [ho])) (if caps.contains n then caps else caps ++ [n])
    simp only [List.map_cons, SOp.node, SOp.name, typList, typ_opCap n hn caps, ih, elabOps, bind, Except.bind, pure, Except.pure]

theorem typ_item (m : Str) (ops : List SOp) (hm : PlainName m) (hops : ∀ o ∈ ops, o.OK) (caps : List Str) :
    typ .general .none (.mk m Times.one (ops.map SOp.node)) caps =
      .ok (.mnem m (elabOps ops caps).1 Times.one, (elabOps ops caps).2) := by
  have h1 := plain_ne m hm "$and".toList (by decide)
  have h2 := plain_ne m hm "$or".toList (by decide)
  have h3 := plain_ne m hm "$not".toList (by decide)
  have h4 := plain_ne m hm "$and_any_order".toList (by decide)
  have h5 := plain_ne m hm "$deref".toList (by decide)
  have h6 := hm.1
  obtain ⟨h7, _⟩ := plain_not_capture m hm
  rw [typ.eq_def]
  simp only [h1, h2, h3, h4, h5, h6, h7, if_false, Bool.false_eq_true]
  rw [typList_ops ops hops caps]
  simp [bind, Except.bind, pure, Except.pure]

theorem typList_items : ∀ (items : List SItem), (∀ it ∈ items, it.OK) → ∀ (caps : List Str),
    typList .general .none (items.map SItem.node) caps = .ok (elabItems items caps)
  | [], _, caps => by simp [typList, elabItems, pure, Except.pure]
  | .inst m ops :: r, h, caps => by
    obtain ⟨hm, hops⟩ : (SItem.inst m ops).OK := h _ (by simp)
    have ih := typList_items r (fun o ho => h o (by simp [ho])) (elabOps ops caps).2
    simp only [List.map_cons, SItem.node, typList, typ_item m ops hm hops caps, ih, elabItems, bind, Except.bind, pure, Except.pure]
  | .cap n :: r, h, caps => by
    have hn : CapName n := h (.cap n) (by simp)
    have ih := typList_items r (fun o ho => h o (by simp [ho])) (if caps.contains n then caps else caps ++ [n])
    simp only [List.map_cons, SItem.node, typList, typ_instCap n hn caps, ih, elabItems, bind, Except.bind, pure, Except.pure]

/-! ## `build` on the written rule -/

theorem capName_ne_times (n : Str) (h : CapName n) : n ≠ "times".toList := capName_ne n h _ (by decide)

theorem SOp.name_ne_times (o : SOp) (h : o.OK) : o.name ≠ "times".toList := by
  cases o with
  | lit n => exact h.1
  | cap n => exact capName_ne_times n h

theorem buildList_sops : ∀ (ops : List SOp), (∀ o ∈ ops, o.OK) →
    buildList (ops.map SOp.y) = .ok (ops.map SOp.node) ∧ (ops.map SOp.y).any (· == Y.str "times".toList) = false
  | [], _ => by simp [buildList, pure, Except.pure]
  | o :: r, h => by
    obtain ⟨ih1, ih2⟩ := buildList_sops r (fun q hq => h q (by simp [hq]))
    have hb := str_beq_times o.name (SOp.name_ne_times o (h o (by simp)))
    simp only [List.map_cons, SOp.y, SOp.node, buildList, hb, Bool.false_eq_true, if_false, build, ih1, bind, Except.bind,
      pure, Except.pure, leafNode, List.any_cons, ih2, Bool.or_self, and_self]

theorem build_sitem (it : SItem) (h : it.OK) : build it.y = .ok it.node ∧ (it.y == Y.str "times".toList) = false := by
  cases it with
  | cap n =>
    refine ⟨by simp [SItem.y, SItem.node, build, leafNode, pure, Except.pure], ?_⟩
    exact str_beq_times n (capName_ne_times n h)
  | inst m ops =>
    obtain ⟨hm, hops⟩ := h
    obtain ⟨hb1, hb2⟩ := buildList_sops ops hops
    refine ⟨?_, dict_beq_times _⟩
    have := build_dict_list m (ops.map SOp.y) Times.one (ops.map SOp.node) hm.1 hb2 (by decide) hb1
    simpa [SItem.y, SItem.node, timesY] using this

theorem buildList_sitems : ∀ (items : List SItem), (∀ it ∈ items, it.OK) →
    buildList (items.map SItem.y) = .ok (items.map SItem.node) ∧ (items.map SItem.y).any (· == Y.str "times".toList) = false
  | [], _ => by simp [buildList, pure, Except.pure]
  | it :: r, h => by
    obtain ⟨ih1, ih2⟩ := buildList_sitems r (fun q hq => h q (by simp [hq]))
    obtain ⟨hb1, hb2⟩ := build_sitem it (h it (by simp))
    simp only [List.map_cons, buildList, hb2, Bool.false_eq_true, if_false, hb1, ih1, bind, Except.bind, pure, Except.pure,
      List.any_cons, ih2, Bool.or_self, and_self]

/-- **C05 (front end)**: for a rule written as a list of items and instruction captures whose operands
are plain names and operand captures, `build` followed by the handler chains yields the typed rule in
which the FIRST occurrence of every capture name - in document order - is its definition and all later
occurrences are references, together with the capture table listing the names in order of first
occurrence; this is the typed rule `C05_spine` is stated about -/
theorem C05_front_end (items : List SItem) (hne : items ≠ []) (h : ∀ it ∈ items, it.OK) :
    typeTree (topTree (.list (items.map SItem.y))) =
      .ok (.and (elabItems items []).1 Times.one, (elabItems items []).2) := by
  obtain ⟨hb1, hb2⟩ := buildList_sitems items h
  have hbuild := build_dict_list "$and".toList (items.map SItem.y) Times.one (items.map SItem.node) (by decide) hb2 (by decide) hb1
  have hk : (items.map SItem.node).isEmpty = false := by cases items <;> simp_all
  simp only [typeTree, topTree]
  have hb' : build (Y.dict [(Y.str "$and".toList, Y.list (items.map SItem.y))]) = .ok (.mk "$and".toList Times.one (items.map SItem.node)) := by
    simpa [timesY] using hbuild
  rw [hb']
  simp only [bind, Except.bind]
  rw [typ.eq_def]
  simp only [if_true, hk, Bool.false_eq_true, if_false]
  rw [typList_items items h []]
  simp [bind, Except.bind, pure, Except.pure]

/-- what "first occurrence" means for the capture table: a name is appended exactly when it is not there yet -/
theorem C05_table_grows_once (n : Str) (r : List SOp) (caps : List Str) :
    (elabOps (.cap n :: r) caps).1.head? = some (if caps.contains n then Pat.capOpRef n else Pat.capOpDef n) := by
  simp [elabOps]

/-- non-vacuity (test): `mov: [&a, &b]`, `&i`, `add: [&a, rax]`, `&i` - the second `&a` and the second `&i`
are references, the table is `[&a, &b, &i]` -/
example :
    elabItems [.inst "mov".toList [.cap "&a".toList, .cap "&b".toList], .cap "&i".toList,
               .inst "add".toList [.cap "&a".toList, .lit "rax".toList], .cap "&i".toList] [] =
      ([.mnem "mov".toList [.capOpDef "&a".toList, .capOpDef "&b".toList] Times.one, .capInstDef "&i".toList,
        .mnem "add".toList [.capOpRef "&a".toList, .operand "rax".toList false] Times.one, .capInstRef "&i".toList],
       ["&a".toList, "&b".toList, "&i".toList]) := by
  simp [elabItems, elabOps]

end Jasm.C05

import Jasm.Properties.C07
/-!
# C07: a rule of k plain items covers exactly k records per match

"No pattern element matches text that spans two instructions": for a rule that is a list of plain instruction items
(a mnemonic name with operand items, no `times`), every way the rule matches consumes exactly one instruction per
item, so every reported window of the all-matches scan is `k` consecutive records, `k` the number of items.
-/
namespace Jasm

/-- a plain instruction item: a mnemonic node without `times` -/
def plainItem : Pat → Bool
  | .mnem _ _ t => t == Times.one
  | _ => false

theorem denI_plainItem (fl : Flags) (p : Pat) (hp : plainItem p = true) (σ : Sigma) (L : List Inst)
    (x : Nat × Sigma) (hx : x ∈ denI fl p σ L) : x.1 = 1 := by
  cases p with
  | mnem name ops t =>
    simp only [plainItem, beq_iff_eq] at hp
    subst hp
    simp only [denI, timesDen_one] at hx
    cases L with
    | nil => simp at hx
    | cons i rest =>
      simp only at hx
      split at hx
      · simp only [List.mem_map] at hx
        obtain ⟨y, _, rfl⟩ := hx
        rfl
      · simp at hx
  | _ => simp [plainItem] at hp

theorem seqDen_plainItems (fl : Flags) (items : List Pat) (hp : ∀ q ∈ items, plainItem q = true) (σ : Sigma)
    (L : List Inst) (x : Nat × Sigma) (hx : x ∈ seqDen (denIL fl items) σ L) : x.1 = items.length := by
  induction items generalizing σ L x with
  | nil => simp [denIL, seqDen] at hx; simp [hx]
  | cons q qs ih =>
    simp only [denIL, seqDen, List.mem_flatMap, List.mem_map] at hx
    obtain ⟨⟨k, σ'⟩, hk, ⟨k', σ''⟩, hk', rfl⟩ := hx
    have h1 := denI_plainItem fl q (hp q (by simp)) σ L _ hk
    have h2 := ih (fun r hr => hp r (by simp [hr])) σ' (L.drop k) _ hk'
    simp only at h1 h2 ⊢
    rw [h1, h2, List.length_cons]; omega

/-- **C07 (one instruction per item), denotation level** -/
theorem C07_plain_items (fl : Flags) (items : List Pat) (hp : ∀ q ∈ items, plainItem q = true) (σ : Sigma)
    (L : List Inst) (x : Nat × Sigma) (hx : x ∈ denI fl (.and items Times.one) σ L) : x.1 = items.length := by
  simp only [denI, timesDen_one] at hx
  exact seqDen_plainItems fl items hp σ L x hx

/-- **C07 (one instruction per item), scan level**: every window of the all-matches scan of such a rule is
`items.length` consecutive records -/
theorem C07_plain_items_windows (fl : Flags) (items : List Pat) (hp : ∀ q ∈ items, plainItem q = true)
    (L : List Inst) (ws : List (List Inst)) (hs : ScanI fl (.and items Times.one) L ws) :
    ∀ w ∈ ws, ∃ n, w = (L.drop n).take items.length := by
  induction hs with
  | done L _ => intro w hw; simp at hw
  | hit L n k ws hleft hk hk1 hn _ ih =>
    intro w hw
    simp only [List.mem_cons] at hw
    rcases hw with rfl | hw
    · have := C07_plain_items fl items hp [] (L.drop n) _ hk
      simp only at this
      exact ⟨n, by rw [this]⟩
    · obtain ⟨n', hn'⟩ := ih w hw
      exact ⟨n + k + n', by rw [hn', List.drop_drop]⟩

/-- … and so is every text the all-matches mode reports for the compiled rule (and the address-only list holds the
address of the first of the `items.length` records) -/
theorem C07_plain_items_reported (fl : Flags) (caps : List Str) (items : List Pat)
    (hp : ∀ q ∈ items, plainItem q = true) (hl : litI (.and items Times.one) = true) (r : Rx)
    (hc : comp fl caps (.and items Times.one) = .ok r) (hne : NoEmptyMatch r) (L : List Inst) (hL : OkA L) :
    ∃ ws : List (List Inst), reported r .all false (encAll L) = ws.map encAll ∧
      reported r .all true (encAll L) = ws.map (fun w => (w.head?.map (·.addr)).getD []) ∧
      ∀ w ∈ ws, ∃ n, w = (L.drop n).take items.length := by
  obtain ⟨ws, h1, h2, h3, _⟩ := C07.C07_all fl caps _ hl r hc hne L hL
  exact ⟨ws, h2, h3, C07_plain_items_windows fl items hp L ws h1⟩

/-- the hypotheses are met by `[{mov: [10h]}, ret]`-like rules: plain literal items -/
example : plainItem (.mnem "mov".toList [.operand "rax".toList false] Times.one) = true ∧
    litI (.and [.mnem "mov".toList [.operand "rax".toList false] Times.one, .mnem "ret".toList [] Times.one] Times.one) = true := by
  decide +kernel

end Jasm

import Jasm.Spec.Decode
import Jasm.Properties.C08
/-!
# C10 The matcher's text stream is an unambiguous encoding of the instruction list

`decode (encAll L) = some L` for every list of well-formed instructions (no `,` / `|` inside a
field, no `:` / `|` inside an address, no empty operand), hence `encAll` is injective on such lists.
That real parser output satisfies `Inst.WF` is the business of the parser theorems (C08/C09) and is
evaluated on every real instruction by the correspondence check; the known exception are objdump's
branch-hint mnemonics (`jb,pn`), recorded as finding D7.
-/
namespace Jasm.C10
open Jasm

theorem splitOnChar_no_sep (c : Char) (a : Str) (h : c ∉ a) : splitOnChar c a = [a] := by
  induction a with
  | nil => rfl
  | cons x xs ih =>
    have hx : x ≠ c := fun e => h (by simp [e])
    have hxs : c ∉ xs := fun m => h (by simp [m])
    simp [splitOnChar, hx, ih hxs]

theorem splitOnChar_append_sep (c : Char) (a b : Str) (h : c ∉ a) :
    splitOnChar c (a ++ c :: b) = a :: splitOnChar c b := by
  induction a with
  | nil => simp [splitOnChar]
  | cons x xs ih =>
    have hx : x ≠ c := fun e => h (by simp [e])
    have hxs : c ∉ xs := fun m => h (by simp [m])
    simp [splitOnChar, hx, ih hxs]

/-- `f₁,f₂,…,fₙ,` splits into the fields followed by one empty piece (n ≥ 1) -/
theorem splitOnChar_joined (c : Char) (l : List Str) (hl : l ≠ []) (h : ∀ f ∈ l, c ∉ f) :
    splitOnChar c (joinSep [c] l ++ [c]) = l ++ [[]] := by
  induction l with
  | nil => exact absurd rfl hl
  | cons f fs ih =>
    cases fs with
    | nil =>
      simp only [joinSep]
      rw [splitOnChar_append_sep c f [] (h f (by simp))]
      simp [splitOnChar]
    | cons g gs =>
      have e : joinSep [c] (f :: g :: gs) ++ [c] = f ++ c :: (joinSep [c] (g :: gs) ++ [c]) := by
        simp [joinSep]
      rw [e, splitOnChar_append_sep c f _ (h f (by simp)), ih (by simp) (fun x hx => h x (by simp [hx]))]
      simp

theorem splitAtColons_cons_ne (x : Char) (t : Str) (hx : x ≠ ':') (ht : t ≠ []) :
    splitAtColons (x :: t) = x :: splitAtColons t := by
  cases t with
  | nil => exact absurd rfl ht
  | cons y ys =>
    rw [splitAtColons.eq_def]
    split
    · rename_i heq; cases heq
    · rename_i heq; simp at heq
    · rename_i heq; simp at heq; exact absurd heq.1 hx
    · rename_i c t' _ _ heq
      simp at heq
      obtain ⟨rfl, rfl⟩ := heq
      rfl

theorem splitAtColons_append (a rest : Str) (h : ':' ∉ a) :
    splitAtColons (a ++ ':' :: ':' :: rest) = a := by
  induction a with
  | nil => simp [splitAtColons]
  | cons x xs ih =>
    have hx : x ≠ ':' := fun e => h (by simp [e])
    have hxs : ':' ∉ xs := fun m => h (by simp [m])
    simp only [List.cons_append]
    rw [splitAtColons_cons_ne x _ hx (by simp), ih hxs]

/-- one record decodes to its instruction -/
theorem decodeRec_stringify (i : Inst) (h : i.WF) : decodeRec (i.stringify ++ [',']) = some i := by
  obtain ⟨a, m, ops⟩ := i
  obtain ⟨hc, _, hm, hops⟩ := h
  simp only at hc hm hops
  unfold decodeRec Inst.stringify firstAddr
  simp only [List.append_assoc, List.cons_append]
  rw [splitAtColons_append a _ hc]
  rw [List.drop_left]
  simp only [List.isPrefixOf, beq_self_eq_true, Bool.and_true, Bool.and_self, if_true, List.drop_succ_cons, List.drop_zero]
  cases ops with
  | nil =>
    simp only [joinSep, List.nil_append]
    rw [splitOnChar_append_sep ',' m _ hm.1]
    simp [splitOnChar]
  | cons o os =>
    have hsplit := splitOnChar_joined ',' (o :: os) (by simp) (fun f hf => (hops f hf).1.1)
    rw [splitOnChar_append_sep ',' m _ hm.1, hsplit]
    have : ¬ (o :: os = [[]]) := by
      intro e; simp at e; exact (hops o (by simp)).2 e.1
    have e2 : (m :: (o :: os ++ [[]])).dropLast = m :: o :: os := by
      exact List.dropLast_concat (l₁ := m :: o :: os) (b := [])
    rw [e2]
    simp [this]

theorem bar_not_in_joined (ops : List Str) (hops : ∀ o ∈ ops, cleanField o ∧ o ≠ []) :
    '|' ∉ joinSep [','] ops := by
  induction ops with
  | nil => simp [joinSep]
  | cons o os ih =>
    cases os with
    | nil => simpa [joinSep] using (hops o (by simp)).1.2
    | cons p ps =>
      intro hmem
      simp only [joinSep, List.mem_append, List.mem_singleton] at hmem
      rcases hmem with (h1 | h2) | h3
      · exact (hops o (by simp)).1.2 h1
      · exact absurd h2 (by decide)
      · exact ih (fun x hx => hops x (by simp [hx])) h3

theorem bar_not_in_record (i : Inst) (h : i.WF) : '|' ∉ i.stringify ++ [','] := by
  obtain ⟨a, m, ops⟩ := i
  obtain ⟨_, hb, hm, hops⟩ := h
  simp only at hb hm hops
  have hj := bar_not_in_joined ops hops
  intro hmem
  simp [Inst.stringify, hb, hm.2, hj] at hmem

theorem splitOnChar_encAll (L : List Inst) (h : ∀ i ∈ L, i.WF) :
    splitOnChar '|' (encAll L) = L.map (fun i => i.stringify ++ [',']) ++ [[]] := by
  induction L with
  | nil => simp [encAll, splitOnChar]
  | cons i is ih =>
    have hi := h i (by simp)
    have : encAll (i :: is) = (i.stringify ++ [',']) ++ '|' :: encAll is := by
      simp [encAll, enc]
    rw [this, splitOnChar_append_sep '|' _ _ (bar_not_in_record i hi), ih (fun x hx => h x (by simp [hx]))]
    simp

theorem decodeRecs_map (L : List Inst) (h : ∀ i ∈ L, i.WF) :
    decodeRecs (L.map (fun i => i.stringify ++ [','])) = some L := by
  induction L with
  | nil => rfl
  | cons i is ih =>
    simp only [List.map_cons, decodeRecs, decodeRec_stringify i (h i (by simp)),
      ih (fun x hx => h x (by simp [hx]))]

/-- **C10 (round trip)**: the list of (address, mnemonic, operands) is recovered from the stream -/
theorem C10_roundtrip (L : List Inst) (h : ∀ i ∈ L, i.WF) : decode (encAll L) = some L := by
  unfold decode
  simp only [splitOnChar_encAll L h]
  simp [decodeRecs_map L h]

/-- **C10 (injectivity)**: two different instruction lists never produce the same stream -/
theorem C10_injective (L₁ L₂ : List Inst) (h₁ : ∀ i ∈ L₁, i.WF) (h₂ : ∀ i ∈ L₂, i.WF)
    (h : encAll L₁ = encAll L₂) : L₁ = L₂ := by
  have a := C10_roundtrip L₁ h₁
  have b := C10_roundtrip L₂ h₂
  rw [h] at a
  exact Option.some.inj (a.symm.trans b)

/-- the record terminator occurs exactly once per instruction -/
theorem C10_bar_count (L : List Inst) (h : ∀ i ∈ L, i.WF) :
    (splitOnChar '|' (encAll L)).length = L.length + 1 := by
  simp [splitOnChar_encAll L h]

/-- an instruction without operands has one empty operand field -/
example : enc ⟨"401003".toList, "ret".toList, []⟩ = "401003::ret,,|".toList := by decide
/-- non-vacuity: a non-trivial well-formed list and its round trip -/
example : decode (encAll [⟨"1f".toList, "mov".toList, ["%rax".toList, "[%rbx+0x8]".toList]⟩, ⟨"22".toList, "ret".toList, []⟩])
    = some [⟨"1f".toList, "mov".toList, ["%rax".toList, "[%rbx+0x8]".toList]⟩, ⟨"22".toList, "ret".toList, []⟩] := by decide
/-- the hypothesis `o ≠ []` is needed: an empty operand and no operand have the same stream -/
theorem C10_empty_operand_ambiguous :
    encAll [⟨"1".toList, "ret".toList, [[]]⟩] = encAll [⟨"1".toList, "ret".toList, []⟩] := by decide
/-- ... and so is the exclusion of `,` inside a mnemonic (finding D7: objdump prints `jb,pn`) -/
theorem C10_comma_mnemonic_ambiguous :
    encAll [⟨"24a".toList, "jb,pn".toList, ["209".toList]⟩] = encAll [⟨"24a".toList, "jb".toList, ["pn".toList, "209".toList]⟩] := by decide
/-! ## From objdump text to the stream and back

The hypothesis `Inst.WF` of the round trip is discharged for everything the parser produces from a
listing of the objdump grammar (C08/C09), under the side conditions of `LineSpec.Clean` (no `|`
inside a name, no `,` inside a mnemonic, no empty immediate): the branch-hint mnemonics of finding
D7 are exactly what `mnem_clean` excludes. -/

open Jasm.C08 Jasm.C09

def NoBar (s : Str) : Prop := '|' ∉ s

/-- side conditions on one operand beyond `Operand.WF`: no `|` inside a component, no empty immediate -/
def OperandClean : Operand → Prop
  | .imm v => NoBar v ∧ v ≠ []
  | .reg r => NoBar r
  | .target h => NoBar h
  | .star r => NoBar r
  | .mem k a bc => NoBar k ∧ (∀ x, a = some x → NoBar x) ∧ (∀ b c, bc = some (b, c) → NoBar b ∧ NoBar c)

structure InstLineClean (l : InstLine) : Prop where
  mnem_clean : cleanField l.mnem
  ops_clean : ∀ o ∈ l.ops, OperandClean o

def LineSpecClean : LineSpec → Prop
  | .inst l => InstLineClean l
  | _ => True

theorem normalForm_clean (o : Operand) (hwf : Operand.WF o) (hc : OperandClean o) :
    cleanField o.normalForm ∧ o.normalForm ≠ [] := by
  cases o with
  | imm v =>
    simp only [Operand.WF] at hwf
    exact ⟨⟨(plain_no v hwf).2.2, hc.1⟩, hc.2⟩
  | reg r =>
    simp only [Operand.WF] at hwf
    refine ⟨⟨?_, ?_⟩, by simp [Operand.normalForm]⟩
    · simp only [Operand.normalForm, List.mem_cons, not_or]; exact ⟨by decide, (plain_no r hwf).2.2⟩
    · simp only [Operand.normalForm, List.mem_cons, not_or]; exact ⟨by decide, hc⟩
  | star r =>
    simp only [Operand.WF] at hwf
    refine ⟨⟨?_, ?_⟩, by simp [Operand.normalForm]⟩
    · simp only [Operand.normalForm, List.mem_cons, not_or]; exact ⟨by decide, by decide, (plain_no r hwf).2.2⟩
    · simp only [Operand.normalForm, List.mem_cons, not_or]; exact ⟨by decide, by decide, hc⟩
  | target h =>
    simp only [Operand.WF] at hwf
    exact ⟨⟨(plain_no h hwf.1).2.2, hc⟩, hwf.2.1⟩
  | mem k a bc =>
    simp only [Operand.WF] at hwf
    obtain ⟨hk, ha, hbc, -, -⟩ := hwf
    obtain ⟨ck, ca, cbc⟩ := hc
    have k1 := (plain_no k hk).2.2
    refine ⟨?_, by simp [Operand.normalForm]⟩
    unfold NoBar at ck ca cbc
    rcases a with _ | x <;> rcases bc with _ | ⟨b, c⟩
    · simp only [cleanField, Operand.normalForm]
      split <;> simp [k1, ck]
    · have hb := hbc b c rfl
      have cb := cbc b c rfl
      have b1 := (plain_no b hb.1).2.2
      have c1 := (plain_no c hb.2).2.2
      simp only [cleanField, Operand.normalForm]
      split <;> simp [k1, ck, b1, c1, cb.1, cb.2]
    · have x1 := (plain_no x (ha x rfl)).2.2
      have x2 := ca x rfl
      simp only [cleanField, Operand.normalForm]
      split <;> simp [k1, ck, x1, x2]
    · have hb := hbc b c rfl
      have cb := cbc b c rfl
      have b1 := (plain_no b hb.1).2.2
      have c1 := (plain_no c hb.2).2.2
      have x1 := (plain_no x (ha x rfl)).2.2
      have x2 := ca x rfl
      simp only [cleanField, Operand.normalForm]
      split <;> simp [k1, ck, b1, c1, cb.1, cb.2, x1, x2]

theorem hexChar_not_sep {c : Char} (h : isHexChar c = true) : c ≠ ':' ∧ c ≠ '|' := by
  constructor <;> (rintro rfl; revert h; decide)

/-- **C10 (parser output is well-formed)**: the instruction a clean instruction line of the grammar
stands for satisfies the hypotheses of the round trip -/
theorem C10_parser_output_wf (l : InstLine) (h : InstLine.WF l) (hc : InstLineClean l) (i : Inst)
    (hi : instOf (.inst l) = some i) : i.WF := by
  simp only [instOf, Option.some.injEq] at hi
  subst hi
  constructor
  · intro hm; exact (hexChar_not_sep (h.addr_hex _ hm)).1 rfl
  · intro hm; exact (hexChar_not_sep (h.addr_hex _ hm)).2 rfl
  · show cleanField (if l.ops.isEmpty && l.mnem = "(bad)".toList then "bad".toList else l.mnem)
    split
    · exact ⟨by decide, by decide⟩
    · exact hc.mnem_clean
  · intro o ho
    obtain ⟨op, hop, rfl⟩ := List.mem_map.mp ho
    exact normalForm_clean op (h.ops_wf op hop) (hc.ops_clean op hop)

theorem expectedInsts_wf (ls : List LineSpec) (h : ∀ l ∈ ls, LineSpec.WF l) (hc : ∀ l ∈ ls, LineSpecClean l) :
    ∀ i ∈ expectedInsts ls, i.WF := by
  intro i hi
  simp only [expectedInsts, List.mem_filterMap] at hi
  obtain ⟨l, hl, hli⟩ := hi
  cases l with
  | inst il => exact C10_parser_output_wf il (h _ hl).1.1 (hc _ hl) i hli
  | cont _ _ _ | label _ _ | blank | header _ _ | sect _ | dots => simp [instOf] at hli

/-- **C10 (end to end)**: for every clean listing of the objdump grammar, the text stream built from
the parser's output decodes back to exactly the instructions of the listing's instruction lines -/
theorem C10_end_to_end (ls : List LineSpec) (hne : ls ≠ []) (h : ∀ l ∈ ls, LineSpec.WF l)
    (hc : ∀ l ∈ ls, LineSpecClean l) :
    ∃ L, (parseListing (renderListing ls) >>= processAll none) = .ok L ∧ L = expectedInsts ls ∧
      decode (encAll L) = some L :=
  ⟨expectedInsts ls, C08_stream ls hne h, rfl, C10_roundtrip _ (expectedInsts_wf ls h hc)⟩

/-- non-vacuity: the demonstration line of C08 (real objdump output) is clean -/
example : InstLineClean C08.demoLine :=
  ⟨⟨by decide, by decide⟩, by
    intro o ho
    simp only [C08.demoLine, List.mem_cons, List.not_mem_nil, or_false] at ho
    rcases ho with rfl | rfl <;> simp [OperandClean, NoBar]⟩

end Jasm.C10

import Jasm.Spec.Decode
/-!
# C10 The matcher's text stream is an unambiguous encoding of the instruction list

`decode (encAll L) = some L` for every list of well-formed instructions (no `,` / `|` inside a
field, no `:` / `|` inside an address, no empty operand), hence `encAll` is injective on such lists.
That real parser output satisfies `Inst.WF` is the business of the parser theorems (C08/C09) and is
evaluated on every real instruction by the correspondence check; the known exception are objdump's
branch-hint mnemonics (`jb,pn`), recorded as finding D7.
-/
namespace Jasm.C10
open Jasm

theorem splitOnChar_no_sep (c : Char) (a : Str) (h : c ∉ a) : splitOnChar c a = [a] := by
  induction a with
  | nil => rfl
  | cons x xs ih =>
    have hx : x ≠ c := fun e => h (by simp [e])
    have hxs : c ∉ xs := fun m => h (by simp [m])
    simp [splitOnChar, hx, ih hxs]

theorem splitOnChar_append_sep (c : Char) (a b : Str) (h : c ∉ a) :
    splitOnChar c (a ++ c :: b) = a :: splitOnChar c b := by
  induction a with
  | nil => simp [splitOnChar]
  | cons x xs ih =>
    have hx : x ≠ c := fun e => h (by simp [e])
    have hxs : c ∉ xs := fun m => h (by simp [m])
    simp [splitOnChar, hx, ih hxs]

/-- `f₁,f₂,…,fₙ,` splits into the fields followed by one empty piece (n ≥ 1) -/
theorem splitOnChar_joined (c : Char) (l : List Str) (hl : l ≠ []) (h : ∀ f ∈ l, c ∉ f) :
    splitOnChar c (joinSep [c] l ++ [c]) = l ++ [[]] := by
  induction l with
  | nil => exact absurd rfl hl
  | cons f fs ih =>
    cases fs with
    | nil =>
      simp only [joinSep]
      rw [splitOnChar_append_sep c f [] (h f (by simp))]
      simp [splitOnChar]
    | cons g gs =>
      have e : joinSep [c] (f :: g :: gs) ++ [c] = f ++ c :: (joinSep [c] (g :: gs) ++ [c]) := by
        simp [joinSep]
      rw [e, splitOnChar_append_sep c f _ (h f (by simp)), ih (by simp) (fun x hx => h x (by simp [hx]))]
      simp

theorem splitAtColons_cons_ne (x : Char) (t : Str) (hx : x ≠ ':') (ht : t ≠ []) :
    splitAtColons (x :: t) = x :: splitAtColons t := by
  cases t with
  | nil => exact absurd rfl ht
  | cons y ys =>
    rw [splitAtColons.eq_def]
    split
    · rename_i heq; cases heq
    · rename_i heq; simp at heq
    · rename_i heq; simp at heq; exact absurd heq.1 hx
    · rename_i c t' _ _ heq
      simp at heq
      obtain ⟨rfl, rfl⟩ := heq
      rfl

theorem splitAtColons_append (a rest : Str) (h : ':' ∉ a) :
    splitAtColons (a ++ ':' :: ':' :: rest) = a := by
  induction a with
  | nil => simp [splitAtColons]
  | cons x xs ih =>
    have hx : x ≠ ':' := fun e => h (by simp [e])
    have hxs : ':' ∉ xs := fun m => h (by simp [m])
    simp only [List.cons_append]
    rw [splitAtColons_cons_ne x _ hx (by simp), ih hxs]

/-- one record decodes to its instruction -/
theorem decodeRec_stringify (i : Inst) (h : i.WF) : decodeRec (i.stringify ++ [',']) = some i := by
  obtain ⟨a, m, ops⟩ := i
  obtain ⟨hc, _, hm, hops⟩ := h
  simp only at hc hm hops
  unfold decodeRec Inst.stringify firstAddr
  simp only [List.append_assoc, List.cons_append]
  rw [splitAtColons_append a _ hc]
  rw [List.drop_left]
  simp only [List.isPrefixOf, beq_self_eq_true, Bool.and_true, Bool.and_self, if_true, List.drop_succ_cons, List.drop_zero]
  cases ops with
  | nil =>
    simp only [joinSep, List.nil_append]
    rw [splitOnChar_append_sep ',' m _ hm.1]
    simp [splitOnChar]
  | cons o os =>
    have hsplit := splitOnChar_joined ',' (o :: os) (by simp) (fun f hf => (hops f hf).1.1)
    rw [splitOnChar_append_sep ',' m _ hm.1, hsplit]
    have : ¬ (o :: os = [[]]) := by
      intro e; simp at e; exact (hops o (by simp)).2 e.1
    have e2 : (m :: (o :: os ++ [[]])).dropLast = m :: o :: os := by
      exact List.dropLast_concat (l₁ := m :: o :: os) (b := [])
    rw [e2]
    simp [this]

theorem bar_not_in_joined (ops : List Str) (hops : ∀ o ∈ ops, cleanField o ∧ o ≠ []) :
    '|' ∉ joinSep [','] ops := by
  induction ops with
  | nil => simp [joinSep]
  | cons o os ih =>
    cases os with
    | nil => simpa [joinSep] using (hops o (by simp)).1.2
    | cons p ps =>
      intro hmem
      simp only [joinSep, List.mem_append, List.mem_singleton] at hmem
      rcases hmem with (h1 | h2) | h3
      · exact (hops o (by simp)).1.2 h1
      · exact absurd h2 (by decide)
      · exact ih (fun x hx => hops x (by simp [hx])) h3

theorem bar_not_in_record (i : Inst) (h : i.WF) : '|' ∉ i.stringify ++ [','] := by
  obtain ⟨a, m, ops⟩ := i
  obtain ⟨_, hb, hm, hops⟩ := h
  simp only at hb hm hops
  have hj := bar_not_in_joined ops hops
  intro hmem
  simp [Inst.stringify, hb, hm.2, hj] at hmem

theorem splitOnChar_encAll (L : List Inst) (h : ∀ i ∈ L, i.WF) :
    splitOnChar '|' (encAll L) = L.map (fun i => i.stringify ++ [',']) ++ [[]] := by
  induction L with
  | nil => simp [encAll, splitOnChar]
  | cons i is ih =>
    have hi := h i (by simp)
    have : encAll (i :: is) = (i.stringify ++ [',']) ++ '|' :: encAll is := by
      simp [encAll, enc]
    rw [this, splitOnChar_append_sep '|' _ _ (bar_not_in_record i hi), ih (fun x hx => h x (by simp [hx]))]
    simp

theorem decodeRecs_map (L : List Inst) (h : ∀ i ∈ L, i.WF) :
    decodeRecs (L.map (fun i => i.stringify ++ [','])) = some L := by
  induction L with
  | nil => rfl
  | cons i is ih =>
    simp only [List.map_cons, decodeRecs, decodeRec_stringify i (h i (by simp)),
      ih (fun x hx => h x (by simp [hx]))]

/-- **C10 (round trip)**: the list of (address, mnemonic, operands) is recovered from the stream -/
theorem C10_roundtrip (L : List Inst) (h : ∀ i ∈ L, i.WF) : decode (encAll L) = some L := by
  unfold decode
  simp only [splitOnChar_encAll L h]
  simp [decodeRecs_map L h]

/-- **C10 (injectivity)**: two different instruction lists never produce the same stream -/
theorem C10_injective (L₁ L₂ : List Inst) (h₁ : ∀ i ∈ L₁, i.WF) (h₂ : ∀ i ∈ L₂, i.WF)
    (h : encAll L₁ = encAll L₂) : L₁ = L₂ := by
  have a := C10_roundtrip L₁ h₁
  have b := C10_roundtrip L₂ h₂
  rw [h] at a
  exact Option.some.inj (a.symm.trans b)

/-- the record terminator occurs exactly once per instruction -/
theorem C10_bar_count (L : List Inst) (h : ∀ i ∈ L, i.WF) :
    (splitOnChar '|' (encAll L)).length = L.length + 1 := by
  simp [splitOnChar_encAll L h]

/-- an instruction without operands has one empty operand field -/
example : enc ⟨"401003".toList, "ret".toList, []⟩ = "401003::ret,,|".toList := by decide
/-- non-vacuity: a non-trivial well-formed list and its round trip -/
example : decode (encAll [⟨"1f".toList, "mov".toList, ["%rax".toList, "[%rbx+0x8]".toList]⟩, ⟨"22".toList, "ret".toList, []⟩])
    = some [⟨"1f".toList, "mov".toList, ["%rax".toList, "[%rbx+0x8]".toList]⟩, ⟨"22".toList, "ret".toList, []⟩] := by decide
/-- the hypothesis `o ≠ []` is needed: an empty operand and no operand have the same stream -/
theorem C10_empty_operand_ambiguous :
    encAll [⟨"1".toList, "ret".toList, [[]]⟩] = encAll [⟨"1".toList, "ret".toList, []⟩] := by decide
/-- ... and so is the exclusion of `,` inside a mnemonic (finding D7: objdump prints `jb,pn`) -/
theorem C10_comma_mnemonic_ambiguous :
    encAll [⟨"24a".toList, "jb,pn".toList, ["209".toList]⟩] = encAll [⟨"24a".toList, "jb".toList, ["pn".toList, "209".toList]⟩] := by decide

end Jasm.C10

import Jasm.Proofs.Strict
/-!
# C11 All-matches mode is a complete leftmost non-overlapping scan

For every instruction-level pattern `p` of the capture-free literal fragment (`litI p`) that cannot
match the empty sequence (`NoEmptyMatch` of its compiled regex - `nonNull p` is a syntactic class for
which this is proved: every repetition bound `min ≥ 1` and a consuming child on every path) and every
well-formed listing (`OkA`).  `findAll` is the model of `regex.finditer` (`Jasm/Model/Rx.lean`);
`ScanI` is the instruction-level reading of "what a left-to-right scan yields".
-/
namespace Jasm.C11
open Jasm

/-- **C11**: the reported matches are the texts of windows `ws` of whole instructions such that
`ScanI fl p L ws`: the first window starts at the least index `n` at which the pattern matches
(no `i < n` starts a match), it is a genuine match of the pattern (`(k, _) ∈ denI fl p _ (L.drop n)`,
`k ≥ 1`), the scan resumes right after it (windows are pairwise non-overlapping, in increasing
address order), and after the last window no instruction starts a match -/
theorem C11 (fl : Flags) (caps : List Str) (p : Pat) (hp : litI p = true) (r : Rx)
    (hc : comp fl caps p = .ok r) (hne : NoEmptyMatch r) (L : List Inst) (hL : OkA L) :
    ∃ ws, reported r .all false (encAll L) = ws.map encAll ∧ ScanI fl p L ws := by
  obtain ⟨ws, h1, h2⟩ := findAll_scanI fl caps p hp r hc hne L hL
  exact ⟨ws, by simpa [reported] using h1, h2⟩

/-- the hypothesis `NoEmptyMatch` holds for the syntactic class `nonNull` -/
theorem C11_nonNull (fl : Flags) (caps : List Str) (p : Pat) (hp : litI p = true) (hn : nonNull p = true) (r : Rx)
    (hc : comp fl caps p = .ok r) (L : List Inst) (hL : OkA L) :
    ∃ ws, reported r .all false (encAll L) = ws.map encAll ∧ ScanI fl p L ws :=
  C11 fl caps p hp r hc (strict_noEmpty (strict_comp fl caps p hp hn r hc)) L hL

/-- first-match mode reports exactly the first element of that list (or nothing) -/
theorem C11_first (r : Rx) (ao : Bool) (s : Str) : reported r .first ao s = (reported r .all ao s).take 1 := by
  have h := C12_first r ao s
  exact h
where
  C12_first (r : Rx) (ao : Bool) (s : Str) : reported r .first ao s = (reported r .all ao s).take 1 := by
    have hf : (findAll r s).take 1 = (match search r s with | some (_, m, _) => [m] | none => []) := by
      unfold findAll
      have : 2 * s.length + 2 = (2 * s.length + 1) + 1 := by omega
      rw [this, findAllAux.eq_def]
      simp only [Bool.false_eq_true, if_false]
      cases search r s with
      | none => simp
      | some x => obtain ⟨k, m, rest⟩ := x; simp
    unfold reported
    cases hs : search r s with
    | none => rw [hs] at hf; cases ao <;> simp [← List.map_take, hf]
    | some x => obtain ⟨k, m, rest⟩ := x; rw [hs] at hf; cases ao <;> simp [← List.map_take, hf]

/-- consequences of `ScanI` in the property's words: windows are non-empty, lie inside the listing,
and the scan is ordered and non-overlapping: the windows concatenated with the gaps give back `L` -/
theorem scanI_partition (fl : Flags) (p : Pat) (L : List Inst) (ws : List (List Inst)) (h : ScanI fl p L ws) :
    ∃ gaps : List (List Inst), gaps.length = ws.length + 1 ∧
      L = (List.zipWith (fun g w => g ++ w) gaps ws).flatten ++ gaps.getLast! ∧ ∀ w ∈ ws, w ≠ [] := by
  induction h with
  | done L _ => exact ⟨[L], rfl, by simp, by simp⟩
  | hit L n k ws hleft hk hk1 hn _ ih =>
    obtain ⟨gaps, hlen, hL, hne⟩ := ih
    refine ⟨L.take n :: gaps, by simp [hlen], ?_, ?_⟩
    · cases gaps with
      | nil => simp at hlen
      | cons g0 gs =>
        simp only [List.zipWith_cons_cons, List.flatten_cons, List.append_assoc]
        have : (g0 :: gs).getLast! = (L.take n :: g0 :: gs).getLast! := by simp [List.getLast!]
        rw [← this, ← hL]
        rw [← List.drop_drop, List.take_append_drop, List.take_append_drop]
    · intro w hw
      simp only [List.mem_cons] at hw
      rcases hw with rfl | hw
      · intro e0
        have := congrArg List.length e0
        rw [List.length_take, List.length_drop, List.length_nil, Nat.min_def] at this
        split at this <;> omega
      · exact hne w hw

/-- non-vacuity: a pattern of the class (`push` followed by one or two `mov`) -/
example : litI (.and [.mnem "push".toList [] Times.one, .mnem "mov".toList [] ⟨1, 2⟩] Times.one) = true ∧
    nonNull (.and [.mnem "push".toList [] Times.one, .mnem "mov".toList [] ⟨1, 2⟩] Times.one) = true := by decide

end Jasm.C11

import Jasm.Model.Pipeline
/-!
# C16 (line endings) How the listing file ends its lines is presentation, not content

The listing reaches the parser through Python's text layer (`open(path, "r")` for `-s`,
`subprocess.run(..., text=True)` for `-b`), modelled by `universalNewlines`.  A listing saved with
`\r\n` line ends (objdump on a text-mode stdout, a file that went through a Windows editor) is the
same listing: every result of the whole operation is unchanged.
-/
namespace Jasm.C16
open Jasm

/-- the same text with every line end written `\r\n` -/
def toCRLF : Str → Str
  | [] => []
  | '\n' :: t => '\r' :: '\n' :: toCRLF t
  | c :: t => c :: toCRLF t

theorem universalNewlines_cons (c : Char) (t : Str) (hc : c ≠ '\r') :
    universalNewlines (c :: t) = c :: universalNewlines t := by
  rw [universalNewlines]
  all_goals simp_all

theorem toCRLF_cons (c : Char) (t : Str) (hc : c ≠ '\n') : toCRLF (c :: t) = c :: toCRLF t := by
  rw [toCRLF]
  intro h; exact hc h

theorem universalNewlines_id : ∀ (t : Str), '\r' ∉ t → universalNewlines t = t
  | [], _ => rfl
  | c :: t, h => by
    have hc : c ≠ '\r' := fun e => h (by simp [e])
    have ht : '\r' ∉ t := fun m => h (by simp [m])
    rw [universalNewlines_cons c t hc, universalNewlines_id t ht]

theorem universalNewlines_toCRLF : ∀ (t : Str), '\r' ∉ t → universalNewlines (toCRLF t) = t
  | [], _ => rfl
  | c :: t, h => by
    have hc : c ≠ '\r' := fun e => h (by simp [e])
    have ht : '\r' ∉ t := fun m => h (by simp [m])
    have ih := universalNewlines_toCRLF t ht
    by_cases hn : c = '\n'
    · subst hn
      simp only [toCRLF, universalNewlines, ih]
    · rw [toCRLF_cons c t hn, universalNewlines_cons c _ hc, ih]

/-- **C16 (line endings)**: an assembly listing stored with `\r\n` line ends gives the same outcome
and the same singleton state as the listing stored with `\n`, for ANY rule document, macro files,
mode and earlier state -/
theorem C16_line_endings (raw : Str) (h : '\r' ∉ raw) (od : List Str → Str → M Str) (s : Config) (op : Op)
    (hk : op.kind = .assembly) :
    runOp (World.ofRaw (fun _ => .ok (toCRLF raw)) od) s op = runOp (World.ofRaw (fun _ => .ok raw) od) s op := by
  unfold runOp World.ofRaw
  simp only [hk, Except.map, universalNewlines_toCRLF raw h, universalNewlines_id raw h]

/-- the same for the disassembler's output on the binary route -/
theorem C16_line_endings_binary (raw : Str) (h : '\r' ∉ raw) (rd : Str → M Str) (s : Config) (op : Op)
    (hk : op.kind = .binary) :
    runOp (World.ofRaw rd (fun _ _ => .ok (toCRLF raw))) s op = runOp (World.ofRaw rd (fun _ _ => .ok raw)) s op := by
  unfold runOp World.ofRaw
  simp only [hk, Except.map, universalNewlines_toCRLF raw h, universalNewlines_id raw h]

/-- non-vacuity (test) -/
example : universalNewlines "a\r\nb\rc\n".toList = "a\nb\nc\n".toList := by decide
example : toCRLF "a\nb\n".toList = "a\r\nb\r\n".toList := by decide

end Jasm.C16

import Jasm.Properties.C11Pipeline
/-!
# C07 at the level of the whole operation: every reported match is a run of whole instructions of the
listing, and every reported address is the address of the first of them
-/
namespace Jasm.C07
open Jasm Jasm.FrontEnd

/-- every window of an instruction-level scan is a non-empty run of consecutive instructions of the listing -/
theorem scanI_windows (fl : Flags) (p : Pat) (L : List Inst) (ws : List (List Inst)) (h : ScanI fl p L ws) :
    ∀ w ∈ ws, ∃ n k, 1 ≤ k ∧ n < L.length ∧ w = (L.drop n).take k := by
  induction h with
  | done L _ => intro w hw; cases hw
  | hit L n k ws _ _ hk hn _ ih =>
    intro w hw
    simp only [List.mem_cons] at hw
    rcases hw with rfl | hw
    · exact ⟨n, k, hk, hn, rfl⟩
    · obtain ⟨n', k', hk', hn', rfl⟩ := ih w hw
      refine ⟨n + k + n', k', hk', ?_, by rw [List.drop_drop]⟩
      simp only [List.length_drop] at hn'
      omega

/-- **C07 (whole operation)**: for a rule file of the source fragment and a listing file of the grammar,
the all-matches results of `runOp` are, element by element, the stream text of a non-empty run of
consecutive instructions of the listing (so each begins at the first character of an instruction record
and ends at the end of one) and the address of the first instruction of that run - an address that
occurs in the input -/
theorem C07_pipeline (fl : Flags) (l : List Pat) (hne : l.isEmpty = false) (hsrc : srcIL l = true)
    (hlit : litI (.and l Times.one) = true) (hnn : nonNull (.and l Times.one) = true)
    (r : Rx) (hc : comp fl [] (.and l Times.one) = .ok r)
    (ls : List LineSpec) (hls : ls ≠ []) (hwf : ∀ x ∈ ls, C08.LineSpec.WF x) (hA : OkA (expectedInsts ls))
    (w : World) (path : Str) (hread : w.readFile path = .ok (renderListing ls)) (s : Config) :
    ∃ runs : List (Nat × Nat),
      (∀ nk ∈ runs, 1 ≤ nk.2 ∧ nk.1 < (expectedInsts ls).length) ∧
      (runOp w s ⟨.ok (docOf fl (.list (yIL l))), [], .assembly, path, .all, false, .list⟩).2
        = .ok (.list (runs.map fun nk => encAll (((expectedInsts ls).drop nk.1).take nk.2))) ∧
      (runOp w s ⟨.ok (docOf fl (.list (yIL l))), [], .assembly, path, .all, true, .list⟩).2
        = .ok (.list (runs.map fun nk => (((expectedInsts ls)[nk.1]?).map (·.addr)).getD [])) := by
  obtain ⟨ws, hscan, hfull, haddr⟩ := C11.C11_pipeline fl l hne hsrc hlit hnn r hc ls hls hwf hA w path hread s
  have hw := scanI_windows fl _ _ ws hscan
  -- choose the (n, k) of every window
  have : ∃ runs : List (Nat × Nat), (∀ nk ∈ runs, 1 ≤ nk.2 ∧ nk.1 < (expectedInsts ls).length) ∧
      ws = runs.map fun nk => ((expectedInsts ls).drop nk.1).take nk.2 := by
    clear hfull haddr hscan
    induction ws with
    | nil => exact ⟨[], by simp, rfl⟩
    | cons w0 rest ih =>
      obtain ⟨n, k, hk, hn, rfl⟩ := hw w0 (by simp)
      obtain ⟨runs, hr, hrest⟩ := ih (fun w hw' => hw w (by simp [hw']))
      refine ⟨(n, k) :: runs, ?_, by simp [hrest]⟩
      intro nk hnk
      simp only [List.mem_cons] at hnk
      rcases hnk with rfl | hnk
      · exact ⟨hk, hn⟩
      · exact hr nk hnk
  obtain ⟨runs, hr, rfl⟩ := this
  refine ⟨runs, hr, ?_, ?_⟩
  · rw [hfull]; simp [List.map_map, Function.comp_def]
  · rw [haddr]
    simp only [List.map_map, Function.comp_def]
    congr 2
    apply List.map_congr_left
    intro nk hnk
    obtain ⟨hk, hn⟩ := hr nk hnk
    have : (((expectedInsts ls).drop nk.1).take nk.2).head? = (expectedInsts ls)[nk.1]? := by
      rw [List.head?_take]
      have : nk.2 ≠ 0 := by omega
      simp [this, List.head?_drop]
    rw [this]

end Jasm.C07

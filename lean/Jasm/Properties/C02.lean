import Jasm.Proofs.DenLemmas
/-!
# C02 Repetition bounds (`times`) are honoured exactly

For every item or group `p` of the capture-free literal fragment (single instruction items,
`$and` / `$or` / `$not` / `$and_any_order` groups, nested arbitrarily, at instruction level), every
bound pair and every well-formed listing.  `litI p` is the fragment predicate, `OkI L` the listing
hypothesis (lower-case hex addresses, fields free of `,` and `|`, records of at most 1000 characters).
-/
namespace Jasm.C02
open Jasm

/-- **C02 (bounds)**: the compiled regex of `p` carrying `times {lo,hi}`, run at the start of any
instruction of the stream, succeeds exactly by consuming `n` consecutive repetitions of `p` for some
`lo ≤ n ≤ hi`; each repetition consumes exactly what one un-repeated occurrence of `p` consumes
(`powDen (den p) n` is the `n`-fold composition of the denotation of the un-repeated `p`);
`lo = 0` allows `n = 0`, the item being absent. -/
theorem C02_bounds (fl : Flags) (caps : List Str) (p : Pat) (hp : litI p = true) (htimed : p.timedI = true)
    (t : Times) (ht : t ≠ Times.one) (r : Rx) (hc : comp fl caps (p.setTimes t) = .ok r)
    (L : List Inst) (hL : OkI L) (σ : Sigma) (e : Env) (x : Env × Str) :
    x ∈ r.run e (encAll L) ↔
      ∃ k n, t.lo ≤ n ∧ n ≤ t.hi ∧ (k, σ) ∈ powDen (denI fl (p.setTimes Times.one)) n σ L ∧
        x = (e, encAll (L.drop k)) := by
  have hm := masterI fl caps (p.setTimes t) (by rw [litI_setTimes]; exact hp) r hc
  rw [hm.run_iff σ e L x hL, denI_setTimes fl p htimed t]
  simp only [timesDen, ht, if_false, mem_iterDen]
  constructor
  · rintro ⟨k, ⟨n, h1, h2, h3⟩, rfl⟩; exact ⟨k, n, h1, h2, h3, rfl⟩
  · rintro ⟨k, n, h1, h2, h3, rfl⟩; exact ⟨k, ⟨n, h1, h2, h3⟩, rfl⟩

/-- the un-repeated item is the case n = 1 of the same reading -/
theorem C02_once (fl : Flags) (caps : List Str) (p : Pat) (hp : litI p = true)
    (r : Rx) (hc : comp fl caps p = .ok r) (L : List Inst) (hL : OkI L) (σ : Sigma) (e : Env) (x : Env × Str) :
    x ∈ r.run e (encAll L) ↔ ∃ k, (k, σ) ∈ denI fl p σ L ∧ x = (e, encAll (L.drop k)) :=
  (masterI fl caps p hp r hc).run_iff σ e L x hL

/-- **C02 (interchangeability)**: `times: n` on `p` denotes exactly what `p` written `n` times in a
row (an `$and` of `n` copies) denotes -/
theorem C02_unroll_den (fl : Flags) (p : Pat) (htimed : p.timedI = true) (n : Nat) (hn : n ≠ 1)
    (σ : Sigma) (L : List Inst) (x : Nat × Sigma) :
    x ∈ denI fl (p.setTimes ⟨n, n⟩) σ L ↔
      x ∈ denI fl (.and (List.replicate n (p.setTimes Times.one)) Times.one) σ L := by
  have ht : (⟨n, n⟩ : Times) ≠ Times.one := by
    intro h; simp [Times.one] at h; exact hn h
  rw [denI_setTimes fl p htimed]
  simp only [timesDen, ht, if_false, mem_iterDen]
  have hrep : ∀ m : Nat, denIL fl (List.replicate m (p.setTimes Times.one))
      = List.replicate m (denI fl (p.setTimes Times.one)) := by
    intro m
    induction m with
    | zero => simp [denIL]
    | succ m ih => simp [List.replicate_succ, denIL, ih]
  have e : denI fl (.and (List.replicate n (p.setTimes Times.one)) Times.one)
      = seqDen (List.replicate n (denI fl (p.setTimes Times.one))) := by
    funext σ' L'
    simp only [denI, timesDen_one, hrep]
  rw [e, ← powDen_eq_seqDen]
  constructor
  · rintro ⟨m, h1, h2, h3⟩
    have : m = n := by omega
    subst this; exact h3
  · intro h; exact ⟨n, by omega, by omega, h⟩

/-- ... and so the two compiled regexes have the same successes on every well-formed stream -/
theorem C02_unroll (fl : Flags) (caps : List Str) (p : Pat) (hp : litI p = true) (htimed : p.timedI = true)
    (n : Nat) (hn : n ≠ 1) (r₁ r₂ : Rx)
    (h₁ : comp fl caps (p.setTimes ⟨n, n⟩) = .ok r₁)
    (h₂ : comp fl caps (.and (List.replicate n (p.setTimes Times.one)) Times.one) = .ok r₂)
    (L : List Inst) (hL : OkI L) (e : Env) (x : Env × Str) :
    x ∈ r₁.run e (encAll L) ↔ x ∈ r₂.run e (encAll L) := by
  have hrep : ∀ m : Nat, litIL (List.replicate m (p.setTimes Times.one)) = true := by
    intro m
    induction m with
    | zero => simp [litIL]
    | succ m ih => simp [List.replicate_succ, litIL, litI_setTimes, hp, ih]
  have hlit₂ : litI (.and (List.replicate n (p.setTimes Times.one)) Times.one) = true := by
    simp only [litI, hrep]
  have m₁ := masterI fl caps _ (by rw [litI_setTimes]; exact hp) r₁ h₁
  have m₂ := masterI fl caps _ hlit₂ r₂ h₂
  rw [m₁.run_iff [] e L x hL, m₂.run_iff [] e L x hL]
  constructor
  · rintro ⟨k, hk, rfl⟩; exact ⟨k, (C02_unroll_den fl p htimed n hn [] L _).mp hk, rfl⟩
  · rintro ⟨k, hk, rfl⟩; exact ⟨k, (C02_unroll_den fl p htimed n hn [] L _).mpr hk, rfl⟩

/-- **C02 (spellings)**: `times` inside the body and `times` as a sibling key give the same bounds
(integer or {min,max} form) -/
theorem C02_spellings (name body t : Y) (hname : ∀ s, name = .str s → s ≠ "times".toList)
    (hkey : ∃ s, name = .str s) (ht : (∃ n, t = .int n) ∨ (∃ d, t = .dict d)) :
    getTimes [(name, .dict [(.str "times".toList, t)])] = getTimes [(name, body), (.str "times".toList, t)] := by
  obtain ⟨s, rfl⟩ := hkey
  have hs : (s == "times".toList) = false := by
    have := hname s rfl
    simpa using this
  have e : "times".toList = ['t', 'i', 'm', 'e', 's'] := rfl
  rw [e] at hs
  rcases ht with ⟨n, rfl⟩ | ⟨d, rfl⟩ <;>
    simp [getTimes, dictHas, dictGet, List.find?, hs, e]

/-- the integer form `times: n` means `{n,n}`; the default is `{1,1}` -/
example : getTimes [(.str "mov".toList, .list []), (.str "times".toList, .int 3)] = .ok ⟨3, 3⟩ := by decide
example : getTimes [(.str "mov".toList, .dict [(.str "times".toList, .dict [(.str "min".toList, .int 0), (.str "max".toList, .int 2)])])] = .ok ⟨0, 2⟩ := by decide
example : getTimes [(.str "mov".toList, .list [])] = .ok ⟨1, 1⟩ := by decide
/-- negative and inverted bounds are rejected -/
example : getTimes [(.str "mov".toList, .list []), (.str "times".toList, .int (-1))] = fail "times must not be negative" := by decide

/-- non-vacuity: a repeated two-instruction group in the fragment, compiled, on a well-formed listing -/
example : litI (.and [.mnem "mov".toList [] Times.one, .mnem "add".toList [.operand "rax".toList false] Times.one] ⟨2, 3⟩) = true := by decide

end Jasm.C02

import Jasm.Model.Pipeline
import Jasm.Proofs.Master
import Jasm.Proofs.Subst
/-!
# C13 Macro expansion is equivalent to manual inlining

`inl` is the specification of manually inlining one macro: a plain structural substitution, with
no bookkeeping and no failure.  `C13_pass` says that one pass of the expander (`applyRec`, the model
of `_apply_macro_recursively`) over a supported tree *is* that substitution; `C13_passes` lifts it to
the sequential passes of `resolve_all_macros`.  Covered macro kinds: argument-less macros with a
one-item list body (whole-item / whole-value use) and string macros (whole string, inside a name,
or as a key with a `times` body), and parameterised macros with a one-item list body, for which
the specification is the *simultaneous* substitution `substSim` of the call's bindings `callBinds`
for the formals (the code substitutes formal by formal: `Proofs/Subst.lean` proves the two equal on
hygienic calls).  The aliasing of Python objects is covered by the correspondence check only.
-/
namespace Jasm.C13
open Jasm

/-- the three macro kinds covered here -/
inductive MKind where
  | item (body : Y)       -- `pattern: [body]`
  | text (p : Str)        -- `pattern: "text"`
  | param (fs : List Str) (body : Y)   -- `args: fs`, `pattern: [body]`

/-- the formals of a macro, when all of them are strings -/
def strsOf : List Y → Option (List Str)
  | [] => some []
  | .str s :: r => (strsOf r).map (s :: ·)
  | _ => none

def kindOf (m : Macro) : Option MKind :=
  match m.args, m.pattern with
  | none, some (.list [b]) => some (.item b)
  | none, some (.str p) => if p.isEmpty then none else some (.text p)
  | some args, some (.list [b]) =>
    match strsOf args with
    | some fs => if !fs.isEmpty && noKey fs b && !fs.contains m.name then some (.param fs b) else none
    | none => none
  | _, _ => none

/-- the bindings of a call: for each formal, the value bound to the key of that name in the call node -/
def callBinds (fs : List Str) (node : Y) : List (Str × Y) :=
  fs.filterMap fun a => ((kvPairs node).find? (fun kv => kv.1 == .str a)).map fun kv => (a, kv.2)

/-- a call is hygienic: it binds each formal at most once, and no formal occurs inside a bound value -/
def hygCall (fs : List Str) (node : Y) : Bool :=
  (fs.all fun a => ((kvPairs node).filter (fun kv => kv.1 == .str a)).length ≤ 1) &&
  ((callBinds fs node).all fun av => noKey fs av.2 && noLeaf fs av.2)

def keyIs (name : Str) (kv : Y × Y) : Bool := kv.1 == .str name

mutual
/-- manual inlining of one macro -/
def inl (name : Str) (k : MKind) : Y → Y
  | .str s =>
    match k with
    | .item b => if s = name then b else .str s
    | .text p => if name = s ∨ isInfix name s = true then .str (replaceAll name p (s.length + 1) s) else .str s
    | .param _ b => if s = name then b else .str s        -- a use without arguments: the body as it is
  | .dict d =>
    if d.any (keyIs name) then
      match k with
      | .item b => b
      | .param fs b => substSim (callBinds fs (.dict d)) b
      | .text p => match d.find? (keyIs name) with
        | some (_, .dict t) => .dict [(.str p, .dict t)]
        | _ => .dict d
    else .dict (inlD name k d)
  | y => y
def inlD (name : Str) (k : MKind) : List (Y × Y) → List (Y × Y)
  | [] => []
  | (key, .dict d) :: rest => (key, inl name k (.dict d)) :: inlD name k rest
  | (key, .list l) :: rest => (key, .list (inlL name k l)) :: inlD name k rest
  | (key, .str s) :: rest => (key, inl name k (.str s)) :: inlD name k rest
  | (key, v) :: rest => (key, v) :: inlD name k rest
def inlL (name : Str) (k : MKind) : List Y → List Y
  | [] => []
  | y :: ys => inl name k y :: inlL name k ys
end

mutual
/-- the uses the expander supports without raising -/
def supp (name : Str) (k : MKind) : Y → Bool
  | .str s =>
    match k with
    | .item _ => s = name || !(isInfix name s)        -- no use of an item macro inside a longer string
    | .text _ => true
    | .param _ _ => s = name || !(isInfix name s)
  | .dict d =>
    if d.any (keyIs name) then
      match k with
      | .item b => truthy b
      | .param fs _ => hygCall fs (.dict d)
      | .text _ => match d.find? (keyIs name) with
        | some (_, .dict t) => dictHas t "times"
        | _ => false
    else suppD name k d
  | _ => true
def suppD (name : Str) (k : MKind) : List (Y × Y) → Bool
  | [] => true
  | (_, .dict d) :: rest => supp name k (.dict d) && suppD name k rest
  | (_, .list l) :: rest => suppL name k l && suppD name k rest
  | (_, .str s) :: rest => supp name k (.str s) && suppD name k rest
  | _ :: rest => suppD name k rest
def suppL (name : Str) (k : MKind) : List Y → Bool
  | [] => true
  | y :: ys => supp name k y && suppL name k ys
end

theorem localPattern_noargs (m : Macro) (node : Y) (h : m.args = none) : localPattern m node = .ok m.pattern := by
  simp [localPattern, h, pure, Except.pure]

theorem kind_item {m : Macro} {b : Y} (h : kindOf m = some (.item b)) : m.args = none ∧ m.pattern = some (.list [b]) := by
  unfold kindOf at h
  split at h
  · simp at h; subst h; exact ⟨by assumption, by assumption⟩
  · split at h <;> simp at h
  · split at h
    · split at h <;> simp at h
    · simp at h
  · simp at h

theorem kind_text {m : Macro} {p : Str} (h : kindOf m = some (.text p)) : m.args = none ∧ m.pattern = some (.str p) ∧ p ≠ [] := by
  unfold kindOf at h
  split at h
  · simp at h
  · rename_i p' ha hp
    split at h
    · simp at h
    · rename_i hne
      simp at h; subst h
      exact ⟨ha, hp, by intro e; simp [e] at hne⟩
  · split at h
    · split at h <;> simp at h
    · simp at h
  · simp at h

theorem strsOf_eq : ∀ (args : List Y) (fs : List Str), strsOf args = some fs → args = fs.map Y.str
  | [], fs, h => by simp [strsOf] at h; subst h; rfl
  | .str s :: r, fs, h => by
    simp only [strsOf, Option.map_eq_some_iff] at h
    obtain ⟨fs', h1, h2⟩ := h
    subst h2
    simp [strsOf_eq r fs' h1]
  | .int _ :: _, _, h | .bool _ :: _, _, h | .null :: _, _, h | .float _ :: _, _, h | .list _ :: _, _, h | .dict _ :: _, _, h => by
    simp [strsOf] at h

theorem kind_param {m : Macro} {fs : List Str} {b : Y} (h : kindOf m = some (.param fs b)) :
    m.args = some (fs.map Y.str) ∧ m.pattern = some (.list [b]) ∧ fs ≠ [] ∧ noKey fs b = true ∧ m.name ∉ fs := by
  unfold kindOf at h
  split at h
  · simp at h
  · split at h <;> simp at h
  · rename_i args b' ha hp
    split at h
    · rename_i fs' hfs
      split at h
      · rename_i hc
        simp only [Option.some.injEq, MKind.param.injEq] at h
        obtain ⟨rfl, rfl⟩ := h
        simp only [Bool.and_eq_true, Bool.not_eq_true', List.isEmpty_eq_false_iff] at hc
        refine ⟨by rw [ha, strsOf_eq args fs' hfs], hp, hc.1.1, hc.1.2, ?_⟩
        intro hmem
        have : fs'.contains m.name = true := by simpa using hmem
        rw [this] at hc; exact absurd hc.2 (by simp)
      · simp at h
    · simp at h
  · simp at h

theorem applyTree_item (m : Macro) (b : Y) (h : kindOf m = some (.item b)) (node : Y) :
    applyMacroToTree m node = .ok b := by
  obtain ⟨ha, hp⟩ := kind_item h
  simp [applyMacroToTree, localPattern_noargs m node ha, hp, bind, Except.bind, truthy, pure, Except.pure]

theorem applyTree_text_str (m : Macro) (p : Str) (h : kindOf m = some (.text p)) (s : Str) :
    applyMacroToTree m (.str s) = .ok (.str p) := by
  obtain ⟨ha, hp, hne⟩ := kind_text h
  have : p.isEmpty = false := by cases p <;> simp_all
  simp [applyMacroToTree, localPattern_noargs m _ ha, hp, bind, Except.bind, truthy, this, pure, Except.pure]

theorem applyTree_text_dict (m : Macro) (p : Str) (h : kindOf m = some (.text p)) (d : List (Y × Y)) (kk : Y) (t : List (Y × Y))
    (hf : d.find? (keyIs m.name) = some (kk, .dict t)) (ht : dictHas t "times" = true) :
    applyMacroToTree m (.dict d) = .ok (.dict [(.str p, .dict t)]) := by
  obtain ⟨ha, hp, hne⟩ := kind_text h
  have : p.isEmpty = false := by cases p <;> simp_all
  have hf' : d.find? (fun kv => kv.1 == Y.str m.name) = some (kk, .dict t) := hf
  simp [applyMacroToTree, localPattern_noargs m _ ha, hp, bind, Except.bind, truthy, this, pure, Except.pure, hf', ht]

theorem applySub_text (m : Macro) (p : Str) (h : kindOf m = some (.text p)) (s : Str) :
    applyMacroSubstring m s = .ok (.str (replaceAll m.name p (s.length + 1) s)) := by
  obtain ⟨ha, hp, hne⟩ := kind_text h
  have : p.isEmpty = false := by cases p <;> simp_all
  simp [applyMacroSubstring, localPattern_noargs m _ ha, hp, bind, Except.bind, this, pure, Except.pure]

theorem argsMapping_str_nil (name : Str) (fs : List Str) (h : name ∉ fs) :
    argsMapping (.str name) (fs.map Y.str) = [] := by
  unfold argsMapping
  induction fs with
  | nil => rfl
  | cons a r ih =>
    have hne : ¬ name = a := fun e => h (by simp [e])
    have hr : name ∉ r := fun e => h (by simp [e])
    simp only [List.map_cons, List.filterMap_cons, hne, if_false]
    exact ih hr

theorem getLast?_filter_le_one {α} (p : α → Bool) (l : List α) (h : (l.filter p).length ≤ 1) :
    (l.filter p).getLast? = l.find? p := by
  rw [← List.head?_filter]
  cases hf : l.filter p with
  | nil => rfl
  | cons x xs =>
    rw [hf] at h
    cases xs with
    | nil => rfl
    | cons y ys => simp at h

theorem argsMapping_dict (d : List (Y × Y)) (fs : List Str)
    (h : (fs.all fun a => ((kvPairs (.dict d)).filter (fun kv => kv.1 == Y.str a)).length ≤ 1) = true) :
    argsMapping (.dict d) (fs.map Y.str) = callBinds fs (.dict d) := by
  unfold argsMapping callBinds
  induction fs with
  | nil => rfl
  | cons a r ih =>
    simp only [List.all_cons, Bool.and_eq_true, decide_eq_true_eq] at h
    simp only [List.map_cons, List.filterMap_cons]
    rw [getLast?_filter_le_one _ _ h.1]
    have ihr := ih (by simpa using h.2)
    cases hfind : (kvPairs (.dict d)).find? (fun kv => kv.1 == Y.str a) with
    | none => simpa using ihr
    | some kv => simpa using ihr

theorem localPattern_param (m : Macro) (fs : List Str) (b : Y) (h : kindOf m = some (.param fs b)) (node : Y)
    (hb : HygBinds fs (argsMapping node (fs.map Y.str))) :
    localPattern m node = .ok (some (.list [substSim (argsMapping node (fs.map Y.str)) b])) := by
  obtain ⟨ha, hp, hne, hk, _⟩ := kind_param h
  have hemp : (fs.map Y.str).isEmpty = false := by cases fs <;> simp_all
  have hkl : noKey fs (.list [b]) = true := by simp [noKey, noKeyL, hk]
  have := foldl_substArg_eq_substSim fs _ hb (.list [b]) hkl
  simp only [localPattern, ha, hemp, Bool.false_eq_true, if_false, hp, pure, Except.pure]
  have hf : (argsMapping node (fs.map Y.str)).foldl (fun p (x : Str × Y) => substArg x.1 x.2 p) (.list [b]) =
      (argsMapping node (fs.map Y.str)).foldl (fun p x => match x with | (a, v) => substArg a v p) (.list [b]) := rfl
  rw [← hf, this]
  simp [substSim, substSimL]

theorem applyTree_param_str (m : Macro) (fs : List Str) (b : Y) (h : kindOf m = some (.param fs b)) :
    applyMacroToTree m (.str m.name) = .ok b := by
  obtain ⟨_, _, _, _, hn⟩ := kind_param h
  have hnil := argsMapping_str_nil m.name fs hn
  have := localPattern_param m fs b h (.str m.name) (by rw [hnil]; intro x hx; cases hx)
  rw [hnil] at this
  have hid : substSim [] b = b := by
    have := foldl_substArg_eq_substSim fs [] (by intro x hx; cases hx) b (kind_param h).2.2.2.1
    simpa using this.symm
  simp [applyMacroToTree, this, hid, bind, Except.bind, truthy, pure, Except.pure]

theorem applyTree_param_dict (m : Macro) (fs : List Str) (b : Y) (h : kindOf m = some (.param fs b)) (d : List (Y × Y))
    (hc : hygCall fs (.dict d) = true) :
    applyMacroToTree m (.dict d) = .ok (substSim (callBinds fs (.dict d)) b) := by
  simp only [hygCall, Bool.and_eq_true] at hc
  have hmap := argsMapping_dict d fs hc.1
  have hcb : ∀ av ∈ callBinds fs (.dict d), av.1 ∈ fs := by
    intro av hav
    simp only [callBinds, List.mem_filterMap, Option.map_eq_some_iff] at hav
    obtain ⟨a, ha, kv, _, rfl⟩ := hav
    exact ha
  have hb : HygBinds fs (argsMapping (.dict d) (fs.map Y.str)) := by
    rw [hmap]
    intro av hav
    have := List.all_eq_true.mp hc.2 av hav
    simp only [Bool.and_eq_true] at this
    exact ⟨hcb av hav, this.1, this.2⟩
  have := localPattern_param m fs b h (.dict d) hb
  rw [hmap] at this
  simp [applyMacroToTree, this, bind, Except.bind, truthy, pure, Except.pure]

theorem replaceAll_self (name p : Str) (hne : name ≠ []) : replaceAll name p (name.length + 1) name = p := by
  cases name with
  | nil => exact absurd rfl hne
  | cons c t =>
    have hpre : (c :: t).isPrefixOf (c :: t) = true := by
      induction (c :: t) with
      | nil => rfl
      | cons x xs ih => simp [List.isPrefixOf, ih]
    simp only [replaceAll, hpre, if_true, List.drop_length]
    cases (c :: t).length <;> simp [replaceAll]

/-- one string leaf -/
theorem pass_str (m : Macro) (k : MKind) (hk : kindOf m = some k) (hname : m.name ≠ []) (s : Str)
    (hs : supp m.name k (.str s) = true) : ∃ disc, processStr m s = .ok (inl m.name k (.str s), disc) := by
  unfold processStr
  cases k with
  | item b =>
    simp only [supp, Bool.or_eq_true, decide_eq_true_eq, Bool.not_eq_true'] at hs
    by_cases he : m.name = s
    · simp only [he, if_true, inl, bind, Except.bind]
      rw [← he, applyTree_item m b hk]
      simp [pure, Except.pure, he]
    · have hni : isInfix m.name s = false := by
        rcases hs with h | h
        · exact absurd h.symm he
        · exact h
      have hne' : ¬ s = m.name := fun e => he e.symm
      simp [he, hni, inl, hne', pure, Except.pure]
  | text p =>
    by_cases he : m.name = s
    · simp only [he, if_true, inl, bind, Except.bind, true_or]
      rw [← he, applyTree_text_str m p hk, replaceAll_self m.name p hname]
      exact ⟨true, rfl⟩
    · by_cases hi : isInfix m.name s = true
      · simp only [he, if_false, hi, if_true, inl, bind, Except.bind, or_true]
        rw [applySub_text m p hk]
        exact ⟨true, rfl⟩
      · simp [he, hi, inl, pure, Except.pure]
  | param fs b =>
    simp only [supp, Bool.or_eq_true, decide_eq_true_eq, Bool.not_eq_true'] at hs
    by_cases he : m.name = s
    · simp only [he, if_true, inl, bind, Except.bind]
      rw [← he, applyTree_param_str m fs b hk]
      simp [pure, Except.pure]
    · have hni : isInfix m.name s = false := by
        rcases hs with h | h
        · exact absurd h.symm he
        · exact h
      have hne' : ¬ s = m.name := fun e => he e.symm
      simp [he, hni, inl, hne', pure, Except.pure]

/-- the statement of one pass, for one tree -/
def PassOK (m : Macro) (k : MKind) (t : Y) : Prop :=
  supp m.name k t = true → ∃ ops, applyRec m t = .ok (inl m.name k t, ops)

theorem passL_of (m : Macro) (k : MKind) (l : List Y) (ih : ∀ y ∈ l, PassOK m k y) (hs : suppL m.name k l = true) :
    ∃ ops, applyRecL m l = .ok (inlL m.name k l, ops) := by
  induction l with
  | nil => exact ⟨[], rfl⟩
  | cons y ys ihl =>
    simp only [suppL, Bool.and_eq_true] at hs
    obtain ⟨ops1, h1⟩ := ih y (by simp) hs.1
    obtain ⟨ops2, h2⟩ := ihl (fun z hz => ih z (by simp [hz])) hs.2
    simp only [applyRecL, inlL, h1, h2, bind, Except.bind, pure, Except.pure]
    exact ⟨_, rfl⟩

theorem applyRecD_dict (m : Macro) (key : Y) (d' rest : List (Y × Y)) :
    applyRecD m ((key, .dict d') :: rest) = (do
      let (v', ops) ← applyRec m (.dict d')
      let (rest', ops') ← applyRecD m rest
      pure ((key, v') :: rest', ops ++ ops')) := by rw [applyRecD]

theorem applyRecD_str (m : Macro) (key : Y) (s : Str) (rest : List (Y × Y)) :
    applyRecD m ((key, .str s) :: rest) = (do
      let (v', ops) ← applyRec m (.str s)
      let (rest', ops') ← applyRecD m rest
      pure ((key, v') :: rest', ops ++ ops')) := by rw [applyRecD]

theorem applyRecD_list (m : Macro) (key : Y) (l : List Y) (rest : List (Y × Y)) :
    applyRecD m ((key, .list l) :: rest) = (do
      let (v', ops) ← (do let (l', ops) ← applyRecL m l; pure (Y.list l', ops))
      let (rest', ops') ← applyRecD m rest
      pure ((key, v') :: rest', ops ++ ops')) := by
  rw [applyRecD]
  cases applyRecL m l <;> rfl

theorem applyRecD_other (m : Macro) (key v : Y) (rest : List (Y × Y))
    (h1 : ∀ d, v ≠ .dict d) (h2 : ∀ l, v ≠ .list l) (h3 : ∀ s, v ≠ .str s) :
    applyRecD m ((key, v) :: rest) = (do
      let (rest', ops') ← applyRecD m rest
      pure ((key, v) :: rest', [] ++ ops')) := by
  rw [applyRecD]
  · rfl
  · exact fun d e => h1 d e
  · exact fun l e => h2 l e
  · exact fun s e => h3 s e

theorem passD_of (m : Macro) (k : MKind) (d : List (Y × Y))
    (ih : ∀ kv ∈ d, (∀ d', kv.2 = .dict d' → PassOK m k (.dict d')) ∧ (∀ s, kv.2 = .str s → PassOK m k (.str s)) ∧
      (∀ l, kv.2 = .list l → ∀ y ∈ l, PassOK m k y))
    (hs : suppD m.name k d = true) : ∃ ops, applyRecD m d = .ok (inlD m.name k d, ops) := by
  induction d with
  | nil => exact ⟨[], rfl⟩
  | cons kv rest ihd =>
    obtain ⟨key, v⟩ := kv
    have ihkv := ih (key, v) (by simp)
    have ihrest := ihd (fun z hz => ih z (by simp [hz]))
    by_cases hd : ∃ d', v = .dict d'
    · obtain ⟨d', rfl⟩ := hd
      rw [suppD] at hs
      rw [Bool.and_eq_true] at hs
      obtain ⟨ops2, hr⟩ := ihrest hs.2
      obtain ⟨ops1, h1⟩ := ihkv.1 d' rfl hs.1
      rw [applyRecD_dict, inlD]
      simp only [h1, hr, bind, Except.bind, pure, Except.pure]
      exact ⟨_, rfl⟩
    · by_cases hl : ∃ l, v = .list l
      · obtain ⟨l, rfl⟩ := hl
        rw [suppD] at hs
        rw [Bool.and_eq_true] at hs
        obtain ⟨ops2, hr⟩ := ihrest hs.2
        obtain ⟨ops1, h1⟩ := passL_of m k l (ihkv.2.2 l rfl) hs.1
        rw [applyRecD_list, inlD]
        simp only [h1, hr, bind, Except.bind, pure, Except.pure]
        exact ⟨_, rfl⟩
      · by_cases hstr : ∃ s, v = .str s
        · obtain ⟨s, rfl⟩ := hstr
          rw [suppD] at hs
          rw [Bool.and_eq_true] at hs
          obtain ⟨ops2, hr⟩ := ihrest hs.2
          obtain ⟨ops1, h1⟩ := ihkv.2.1 s rfl hs.1
          rw [applyRecD_str, inlD]
          simp only [h1, hr, bind, Except.bind, pure, Except.pure]
          exact ⟨_, rfl⟩
        · have n1 : ∀ d', v ≠ .dict d' := fun d' e => hd ⟨d', e⟩
          have n2 : ∀ l, v ≠ .list l := fun l e => hl ⟨l, e⟩
          have n3 : ∀ s, v ≠ .str s := fun s e => hstr ⟨s, e⟩
          have hsupp : suppD m.name k ((key, v) :: rest) = suppD m.name k rest := by
            cases v with
            | dict d' => exact absurd rfl (n1 d')
            | list l => exact absurd rfl (n2 l)
            | str s => exact absurd rfl (n3 s)
            | int n => rfl
            | bool b => rfl
            | null => rfl
            | float f => rfl
          have hinl : inlD m.name k ((key, v) :: rest) = (key, v) :: inlD m.name k rest := by
            cases v with
            | dict d' => exact absurd rfl (n1 d')
            | list l => exact absurd rfl (n2 l)
            | str s => exact absurd rfl (n3 s)
            | int n => rfl
            | bool b => rfl
            | null => rfl
            | float f => rfl
          rw [hsupp] at hs
          obtain ⟨ops2, hr⟩ := ihrest hs
          rw [applyRecD_other m key v rest n1 n2 n3, hinl]
          simp only [hr, bind, Except.bind, pure, Except.pure]
          exact ⟨_, rfl⟩

theorem pass_dict (m : Macro) (k : MKind) (hk : kindOf m = some k) (d : List (Y × Y))
    (ih : suppD m.name k d = true → ∃ ops, applyRecD m d = .ok (inlD m.name k d, ops)) : PassOK m k (.dict d) := by
  intro hs
  simp only [applyRec]
  by_cases hany : d.any (keyIs m.name) = true
  · have hany' : d.any (fun kv => kv.1 == Y.str m.name) = true := hany
    simp only [hany', if_true, inl, hany, bind, Except.bind]
    simp only [supp, hany, if_true] at hs
    cases k with
    | item b => rw [applyTree_item m b hk]; exact ⟨_, rfl⟩
    | param fs b => rw [applyTree_param_dict m fs b hk d hs]; exact ⟨_, rfl⟩
    | text p =>
      simp only at hs ⊢
      cases hf : d.find? (keyIs m.name) with
      | none => simp [hf] at hs
      | some kv =>
        obtain ⟨kk, v⟩ := kv
        cases v with
        | dict t =>
          simp only [hf] at hs ⊢
          rw [applyTree_text_dict m p hk d kk t hf hs]
          exact ⟨_, rfl⟩
        | _ => simp [hf] at hs
  · have hanyf : d.any (keyIs m.name) = false := by
      cases h : d.any (keyIs m.name) with
      | true => exact absurd h hany
      | false => rfl
    have hany' : d.any (fun kv => kv.1 == Y.str m.name) = false := hanyf
    simp only [supp, hanyf, Bool.false_eq_true, if_false] at hs
    obtain ⟨ops, hd⟩ := ih hs
    simp only [hany', Bool.false_eq_true, if_false, inl, hanyf, hd, bind, Except.bind, pure, Except.pure]
    exact ⟨_, rfl⟩

/-- **one pass of the expander is the substitution `inl`** (any tree, supported uses) -/
theorem pass (m : Macro) (k : MKind) (hk : kindOf m = some k) (hname : m.name ≠ []) : ∀ (t : Y), PassOK m k t
  | .str s => by
    intro hs
    obtain ⟨disc, hp⟩ := pass_str m k hk hname s hs
    simp only [applyRec, hp, bind, Except.bind, pure, Except.pure]
    exact ⟨_, rfl⟩
  | .dict d => by
    apply pass_dict m k hk d
    apply passD_of m k d
    intro kv hkv
    refine ⟨?_, ?_, ?_⟩
    · intro d' hd'
      have : sizeOf (Y.dict d') < sizeOf (Y.dict d) := by
        have h1 := List.sizeOf_lt_of_mem hkv
        obtain ⟨a, b⟩ := kv
        simp only at hd'; subst hd'
        simp at h1 ⊢; omega
      exact pass m k hk hname (.dict d')
    · intro s hs'
      have : sizeOf (Y.str s) < sizeOf (Y.dict d) := by
        have h1 := List.sizeOf_lt_of_mem hkv
        obtain ⟨a, b⟩ := kv
        simp only at hs'; subst hs'
        simp at h1 ⊢; omega
      exact pass m k hk hname (.str s)
    · intro l hl y hy
      have : sizeOf y < sizeOf (Y.dict d) := by
        have h1 := List.sizeOf_lt_of_mem hkv
        have h2 := List.sizeOf_lt_of_mem hy
        obtain ⟨a, b⟩ := kv
        simp only at hl; subst hl
        simp at h1 ⊢; omega
      exact pass m k hk hname y
  | .int n => fun _ => ⟨[], by simp [applyRec, inl, pure, Except.pure]⟩
  | .bool b => fun _ => ⟨[], by simp [applyRec, inl, pure, Except.pure]⟩
  | .null => fun _ => ⟨[], by simp [applyRec, inl, pure, Except.pure]⟩
  | .float f => fun _ => ⟨[], by simp [applyRec, inl, pure, Except.pure]⟩
  | .list l => fun _ => ⟨[], by simp [applyRec, inl, pure, Except.pure]⟩
termination_by t => sizeOf t
decreasing_by
  all_goals simp_wf
  all_goals (simp at this; omega)


/-- manual inlining of a list of macros, in list order -/
def inlAll : List (Macro × MKind) → Y → Y
  | [], t => t
  | (m, k) :: rest, t => inlAll rest (inl m.name k t)

/-- every pass meets only supported uses -/
def suppAll : List (Macro × MKind) → Y → Bool
  | [], _ => true
  | (m, k) :: rest, t => supp m.name k t && suppAll rest (inl m.name k t)

/-- **C13 (sequential passes)**: the passes of `resolve_all_macros`, in list order, compute exactly
the successive manual inlinings - each macro is expanded wherever it is used, also inside the bodies
that earlier passes have inserted ("a macro listed before the macros its body refers to") -/
theorem C13_passes (mks : List (Macro × MKind)) (hk : ∀ mk ∈ mks, kindOf mk.1 = some mk.2 ∧ mk.1.name ≠ [])
    (t : Y) (set : List Str) (hs : suppAll mks t = true) :
    ∃ set', resolvePasses (mks.map (·.1)) t set = .ok (inlAll mks t, set') := by
  induction mks generalizing t set with
  | nil => exact ⟨set, rfl⟩
  | cons mk rest ih =>
    obtain ⟨m, k⟩ := mk
    simp only [suppAll, Bool.and_eq_true] at hs
    obtain ⟨hk1, hn1⟩ := hk (m, k) (by simp)
    obtain ⟨ops, hp⟩ := pass m k hk1 hn1 t hs.1
    obtain ⟨set', hr⟩ := ih (fun x hx => hk x (by simp [hx])) (inl m.name k t) (ops.foldl applyRm set) hs.2
    exact ⟨set', by simp only [List.map_cons, resolvePasses, hp, bind, Except.bind, inlAll]; exact hr⟩

/-- **C13**: when `resolve_all_macros` succeeds on supported uses, its result is the manually
inlined tree, so the rule compiles to the same matcher as the manually inlined rule -/
theorem C13 (macros : List Y) (mks : List (Macro × MKind)) (tree t' : Y)
    (hms : macros.mapM macroOfY = .ok (mks.map (·.1)))
    (hk : ∀ mk ∈ mks, kindOf mk.1 = some mk.2 ∧ mk.1.name ≠ [])
    (hs : suppAll mks tree = true) (h : resolveAllMacros macros tree = .ok t') : t' = inlAll mks tree := by
  unfold resolveAllMacros at h
  simp only [hms, bind, Except.bind] at h
  split at h
  · cases h
  · obtain ⟨set', hr⟩ := C13_passes mks hk tree [] hs
    rw [hr] at h
    simp only at h
    split at h
    · cases h
    · simp only [pure, Except.pure, Except.ok.injEq] at h; exact h.symm

/-- several uses of one macro do not influence each other: inlining distributes over the items of a
list (each use is replaced by its own copy of the body; the definition is not touched - the model is
functional; the aliasing a Python implementation could exhibit is checked by the correspondence run) -/
theorem C13_uses_independent (name : Str) (k : MKind) (items₁ items₂ : List Y) :
    inlL name k (items₁ ++ items₂) = inlL name k items₁ ++ inlL name k items₂ := by
  induction items₁ with
  | nil => rfl
  | cons y ys ih => simp [inlL, ih]

/-- **parameterised macros**: two uses with different arguments are replaced by two instantiations of
the body, each with the arguments of its own call substituted for the formals (simultaneous
substitution at the leaves); neither use sees the other's arguments -/
theorem C13_param_uses (name : Str) (fs : List Str) (b : Y) (d₁ d₂ : List (Y × Y))
    (h1 : d₁.any (keyIs name) = true) (h2 : d₂.any (keyIs name) = true) :
    inlL name (.param fs b) [.dict d₁, .dict d₂] =
      [substSim (callBinds fs (.dict d₁)) b, substSim (callBinds fs (.dict d₂)) b] := by
  simp [inlL, inl, h1, h2]

/-- what the substitution does at a leaf: a formal becomes the call's argument, any other text stays -/
theorem C13_param_leaf (σ : List (Str × Y)) (s : Str) :
    substSim σ (.str s) = (match σ.lookup s with | some v => v | none => .str s) := by
  rw [substSim]; cases List.lookup s σ <;> rfl

/-- the expander's own way of instantiating a body (formal by formal, `_evaluate_args_in_macro`) is
that simultaneous substitution whenever the call is hygienic -/
theorem C13_param_sequential (fs : List Str) (σ : List (Str × Y)) (hσ : HygBinds fs σ) (b : Y) (hb : noKey fs b = true) :
    σ.foldl (fun p av => substArg av.1 av.2 p) b = substSim σ b :=
  foldl_substArg_eq_substSim fs σ hσ b hb

/-- macros of extra macro files are put in front of the rule's own macros, in file order -/
theorem C13_files (d : List (Y × Y)) (mds : List (M Y)) (s : Config) (macros extra : List Y) (fl_s : Config) (u : Unit)
    (hcfg : loadConfig ((dictGet d "config").getD (.dict [])) s = (fl_s, .ok u))
    (hmac : dictGet d "macros" = some (.list macros))
    (hne : ¬ (macros.isEmpty && mds.isEmpty) = true)
    (hextra : extraMacros mds = .ok extra) :
    (compileRule (.dict d) mds s).2 =
      (resolveAllMacros (extra ++ macros) (topTree ((dictGet d "pattern").getD .null)) >>= compileTree fl_s.flags) := by
  unfold compileRule
  simp only [hcfg, hmac, bind, Except.bind, pure, Except.pure]
  have h1 : (macros.isEmpty && mds.isEmpty) = false := by
    cases h : (macros.isEmpty && mds.isEmpty) with
    | true => exact absurd h hne
    | false => rfl
  have h2 : (!macros.isEmpty || !mds.isEmpty) = true := by
    cases hm : macros.isEmpty <;> cases hd : mds.isEmpty <;> simp_all
  simp only [h1, Bool.false_eq_true, if_false, h2, if_true, hextra]

/-- non-vacuity (tests): an item macro used twice and a string macro used inside a name -/
example : resolveAllMacros
    [.dict [(.str "name".toList, .str "@two".toList), (.str "pattern".toList, .list [.dict [(.str "$or".toList, .list [.str "mov".toList, .str "@t".toList])]])],
     .dict [(.str "name".toList, .str "@t".toList), (.str "pattern".toList, .str "lea".toList)]]
    (.dict [(.str "$and".toList, .list [.str "@two".toList, .str "@two".toList, .str "x@ty".toList])])
    = .ok (.dict [(.str "$and".toList, .list [
        .dict [(.str "$or".toList, .list [.str "mov".toList, .str "lea".toList])],
        .dict [(.str "$or".toList, .list [.str "mov".toList, .str "lea".toList])], .str "xleay".toList])]) := by rfl

/-- non-vacuity (tests): a parameterised macro used twice with different arguments, in both call forms -/
example : resolveAllMacros
    [.dict [(.str "name".toList, .str "@m".toList), (.str "args".toList, .list [.str "reg".toList]),
            (.str "pattern".toList, .list [.dict [(.str "mov".toList, .list [.str "reg".toList, .str "reg".toList])]])]]
    (.dict [(.str "$and".toList, .list [
        .dict [(.str "@m".toList, .dict [(.str "reg".toList, .str "rax".toList)])],
        .dict [(.str "@m".toList, .null), (.str "reg".toList, .str "rbx".toList)]])])
    = .ok (.dict [(.str "$and".toList, .list [
        .dict [(.str "mov".toList, .list [.str "rax".toList, .str "rax".toList])],
        .dict [(.str "mov".toList, .list [.str "rbx".toList, .str "rbx".toList])]])]) := by rfl

example : kindOf ⟨"@m".toList, some [.str "reg".toList],
    some (.list [.dict [(.str "mov".toList, .list [.str "reg".toList, .str "reg".toList])]])⟩ =
    some (.param ["reg".toList] (.dict [(.str "mov".toList, .list [.str "reg".toList, .str "reg".toList])])) := by rfl

example : hygCall ["reg".toList] (.dict [(.str "@m".toList, .dict [(.str "reg".toList, .str "rax".toList)])]) = true := by decide

end Jasm.C13

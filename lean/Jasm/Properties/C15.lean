import Jasm.Model.Pipeline
/-!
# C15 Matching a binary equals matching its `objdump -d -M att` text

`objdump` itself is an external program: the model takes it as a parameter of the `World`.  What
can be *proved* is the flag logic and that the two routes differ in nothing but where the text
comes from; that the real process is invoked with exactly these arguments and that its output is
what the text route sees is the business of the correspondence check (argv logged by a PATH shim).
-/
namespace Jasm.C15
open Jasm

/-- the arguments: `-d -M att`, then `-j s` for every section of `config.sections`, in order -/
theorem C15_args (sections : List Str) :
    objdumpArgs .att sections = ["-d".toList, "-M".toList, "att".toList] ++ sections.flatMap (fun s => ["-j".toList, s]) := rfl

/-- no `sections` entry (or an empty list): no `-j` at all, the whole file is disassembled -/
theorem C15_args_no_sections : objdumpArgs .att [] = ["-d".toList, "-M".toList, "att".toList] := rfl

/-- the number of `-j` flags equals the number of sections -/
theorem C15_args_length (sections : List Str) : (objdumpArgs .att sections).length = 3 + 2 * sections.length := by
  simp only [objdumpArgs, List.length_append, List.length_cons, List.length_nil]
  induction sections with
  | nil => simp
  | cons s ss ih => simp only [List.flatMap_cons, List.length_append, List.length_cons, List.length_nil] at ih ⊢; omega

/-- **route equality**: matching a binary gives exactly the result of matching, as an assembly
listing, the text objdump prints for it with the arguments above (same rule, same modes, any state) -/
theorem C15_route (w : World) (s : Config) (op : Op) (hk : op.kind = .binary)
    (doc : Y) (hdoc : op.doc = .ok doc) :
    (runOp w s op).2 =
      (runOp { w with readFile := fun p =>
                w.objdump (objdumpArgs (((compileRule doc op.macroDocs s).1).style.getD .att)
                                       (((compileRule doc op.macroDocs s).1).sections.getD [])) p }
             s { op with kind := .assembly }).2 := by
  unfold runOp
  simp only [hdoc, hk]

/-- a failing disassembler makes the operation fail (it is never an empty listing) -/
theorem C15_objdump_failure (w : World) (s : Config) (op : Op) (hk : op.kind = .binary) (doc : Y) (hdoc : op.doc = .ok doc)
    (rx : Rx) (hrx : (compileRule doc op.macroDocs s).2 = .ok rx) (e : Err)
    (hfail : ∀ args, w.objdump args op.path = .error e) : (runOp w s op).2 = .error e := by
  unfold runOp
  simp only [hdoc, hk, hrx, bind, Except.bind, hfail]

example : objdumpArgs .att [".text".toList, ".plt".toList]
    = ["-d", "-M", "att", "-j", ".text", "-j", ".plt"].map String.toList := by decide

end Jasm.C15

import Jasm.Proofs.Found
import Jasm.Proofs.FrontEnd2
import Jasm.Properties.C01Pipeline
/-!
# C03 (verdict level): any nesting of the operators is found exactly where the specification says

`foundSpec` is the executable specification the checks evaluate against the real code (it is
computed from the denotation `denI`, no regular expression involved).  For every pattern of the
capture-free literal fragment that consumes at least one instruction (`nonNull`, a syntactic class)
and every well-formed listing, the engine's search on the stream succeeds iff `foundSpec` is true:
the compositional laws C02–C04, stated on `denI`, therefore decide the verdict of the whole rule.
-/
namespace Jasm.C03
open Jasm

theorem C03_verdict (fl : Flags) (caps : List Str) (p : Pat) (hp : litI p = true) (hn : nonNull p = true)
    (r : Rx) (hc : comp fl caps p = .ok r) (L : List Inst) (hL : OkA L) :
    (search r (encAll L)).isSome = foundSpec fl p L :=
  found_correct fl caps p hp r hc (strict_noEmpty (strict_comp fl caps p hp hn r hc)) L hL

/-- non-vacuity: `$or: [mov, $and: [mov, nop]]` followed by `ret` is in the class, and is found on `mov nop ret` -/
example :
    let p : Pat := .and [.or [.mnem "mov".toList [] Times.one,
        .and [.mnem "mov".toList [] Times.one, .mnem "nop".toList [] Times.one] Times.one] Times.one,
        .mnem "ret".toList [] Times.one] Times.one
    litI p = true ∧ nonNull p = true ∧
      foundSpec ⟨false, false⟩ p [⟨"1".toList, "mov".toList, ["%rax".toList, "%rbx".toList]⟩, ⟨"4".toList, "nop".toList, []⟩,
        ⟨"5".toList, "ret".toList, []⟩] = true := by
  decide +kernel

open Jasm.FrontEnd in
/-- **C03 (whole operation)**: for a rule file whose `pattern` is any list of items and nested
`$and` / `$or` / `$and_any_order` / `$not` groups of the fragment - at instruction level and, inside
the operand list of an item, at operand level - (written as YAML by `yIL` / `yOL`, each group
optionally with `times: {min, max}`) and a listing file of the objdump grammar, the Boolean result
of the whole modelled operation (`runOp`: configuration, YAML front end, typing, compilation,
parsing, stream, search) is the specification's verdict `foundSpec` on the listing's instructions -/
theorem C03_pipeline (fl : Flags) (l : List Pat) (hne : l.isEmpty = false) (hsrc : srcIL l = true)
    (hlit : litI (.and l Times.one) = true) (hnn : nonNull (.and l Times.one) = true)
    (r : Rx) (hc : comp fl [] (.and l Times.one) = .ok r)
    (ls : List LineSpec) (hls : ls ≠ []) (hwf : ∀ x ∈ ls, C08.LineSpec.WF x) (hA : OkA (expectedInsts ls))
    (w : World) (path : Str) (hread : w.readFile path = .ok (renderListing ls)) (s : Config) (addrOnly : Bool) :
    (runOp w s ⟨.ok (docOf fl (.list (yIL l))), [], .assembly, path, .first, addrOnly, .bool⟩).2
      = .ok (.bool (foundSpec fl (.and l Times.one) (expectedInsts ls))) := by
  have hstream := C08.C08_stream ls hls hwf
  obtain ⟨insts, hparse, hproc⟩ := bind_ok.mp hstream
  have hrule := compileRule_docOf fl _ r (compileTree_src fl l hne hsrc r hc) s
  simp only [runOp, hrule, hread, bind, Except.bind, hparse, matchInsts, cfgAfter, Option.getD, hproc, pure,
    Except.pure, resultOf, C01.reported_first_bool]
  rw [C03_verdict fl [] _ hlit hnn r hc _ hA]

/-- non-vacuity: the rule of the example above is in the source fragment -/
example :
    FrontEnd.srcIL [.or [.mnem "mov".toList [] Times.one,
        .and [.mnem "mov".toList [] Times.one, .mnem "nop".toList [] ⟨1, 2⟩] Times.one] Times.one,
        .mnem "ret".toList [.or [.operand "%rax".toList false, .not (.operand "%rbx".toList false) true Times.one] Times.one]
          Times.one] = true := by
  decide +kernel

end Jasm.C03

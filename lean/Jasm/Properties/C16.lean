import Jasm.Properties.C08
/-!
# C16 Only the instruction sequence matters, not how the listing is presented

Corollary of C08 over the grammar: the stream depends on a listing only through the sequence of
instructions its instruction lines stand for (`expectedInsts`).  Labels, `<symbol+off>` annotations,
`# comments`, blank lines, section and file-format headers, indentation, width and content of the
raw-byte column and byte-continuation lines are exactly the components `instOf` ignores.
Every result is a function of the stream (C12), hence also unchanged.
-/
namespace Jasm.C16
open Jasm Jasm.C08

/-- **C16**: two listings of the grammar with the same instruction sequence have the same stream -/
theorem C16 (ls₁ ls₂ : List LineSpec) (h₁ : ∀ l ∈ ls₁, LineSpec.WF l) (h₂ : ∀ l ∈ ls₂, LineSpec.WF l)
    (hne₁ : ls₁ ≠ []) (hne₂ : ls₂ ≠ []) (hsame : expectedInsts ls₁ = expectedInsts ls₂) :
    (parseListing (renderListing ls₁) >>= processAll none) = (parseListing (renderListing ls₂) >>= processAll none) := by
  rw [C08_stream ls₁ hne₁ h₁, C08_stream ls₂ hne₂ h₂, hsame]

/-- the presentation components do not enter `instOf`: indentation, byte column, padding, gap,
annotation, comment and trailing blanks of an instruction line can be changed freely -/
theorem C16_presentation (l : InstLine) (indent pad gap trail : Nat) (bytes : List (Char × Char)) (annot comment : Option Str) :
    instOf (.inst { l with indent := indent, pad := pad, gap := gap, bytes := bytes, annot := annot, comment := comment,
                           trail := trail })
      = instOf (.inst l) := rfl

/-- labels, blank lines, headers, section lines, `...` and continuation lines contribute nothing -/
theorem C16_other_lines (ls : List LineSpec) (extra : LineSpec) (h : ∀ l, extra ≠ .inst l) (pre post : List LineSpec) :
    expectedInsts (pre ++ extra :: post) = expectedInsts (pre ++ post) := by
  unfold expectedInsts
  rw [List.filterMap_append, List.filterMap_append, List.filterMap_cons]
  cases extra with
  | inst l => exact absurd rfl (h l)
  | _ => rfl

/-- the results in every mode are functions of the stream, hence equal too -/
theorem C16_results (r : Rx) (mode : SearchMode) (ao : Bool) (ret : ReturnMode) (L₁ L₂ : List Inst) (h : L₁ = L₂) :
    resultOf ret (encAll L₁) (runObserver (reported r mode ao (encAll L₁)))
      = resultOf ret (encAll L₂) (runObserver (reported r mode ao (encAll L₂))) := by rw [h]

end Jasm.C16

import Jasm.Proofs.DenLemmas
/-!
# C03 `$or`, `$and`, `$and_any_order` compose as alternation, sequence, permutation

For arbitrary nestings inside the capture-free literal fragment (`litI` / `litO`), at instruction
level (over the instructions of the listing) and at operand level (over the operand fields of one
instruction).  `$deref` fields are covered by the correspondence check only (see DESIGN.md).
-/
namespace Jasm.C03
open Jasm

/-! ## instruction level -/

/-- `$or` matches where at least one alternative matches, consuming what that alternative consumes -/
theorem C03_or (fl : Flags) (caps : List Str) (l : List Pat) (hl : litI (.or l Times.one) = true)
    (r : Rx) (hc : comp fl caps (.or l Times.one) = .ok r) (L : List Inst) (hL : OkI L)
    (σ : Sigma) (e : Env) (x : Env × Str) :
    x ∈ r.run e (encAll L) ↔ ∃ q ∈ l, ∃ k, (k, σ) ∈ denI fl q σ L ∧ x = (e, encAll (L.drop k)) := by
  rw [(masterI fl caps _ hl r hc).run_iff σ e L x hL]
  simp only [denI, timesDen_one, denIL_eq_map, List.mem_flatMap, List.mem_map]
  constructor
  · rintro ⟨k, ⟨_, ⟨q, hq, rfl⟩, hk⟩, rfl⟩; exact ⟨q, hq, k, hk, rfl⟩
  · rintro ⟨q, hq, k, hk, rfl⟩; exact ⟨k, ⟨_, ⟨q, hq, rfl⟩, hk⟩, rfl⟩

/-- `$and` matches where all children match consecutively in the written order -/
theorem C03_and (fl : Flags) (caps : List Str) (l : List Pat) (hl : litI (.and l Times.one) = true)
    (r : Rx) (hc : comp fl caps (.and l Times.one) = .ok r) (L : List Inst) (hL : OkI L)
    (σ : Sigma) (e : Env) (x : Env × Str) :
    x ∈ r.run e (encAll L) ↔ ∃ k, (k, σ) ∈ seqDen (l.map (denI fl)) σ L ∧ x = (e, encAll (L.drop k)) := by
  rw [(masterI fl caps _ hl r hc).run_iff σ e L x hL]
  simp only [denI, timesDen_one, denIL_eq_map]

/-- `$and_any_order` matches where all children match consecutively in some order, each child used
exactly once: the sequence semantics of some permutation `q ~ l` of the children -/
theorem C03_anyOrder (fl : Flags) (caps : List Str) (l : List Pat) (hl : litI (.anyOrder l Times.one) = true)
    (r : Rx) (hc : comp fl caps (.anyOrder l Times.one) = .ok r) (L : List Inst) (hL : OkI L)
    (σ : Sigma) (e : Env) (x : Env × Str) :
    x ∈ r.run e (encAll L) ↔
      ∃ q, List.Perm q l ∧ ∃ k, (k, σ) ∈ seqDen (q.map (denI fl)) σ L ∧ x = (e, encAll (L.drop k)) := by
  rw [(masterI fl caps _ hl r hc).run_iff σ e L x hL]
  simp only [denI, timesDen_one, denIL_eq_map, perms_map, List.mem_flatMap, List.mem_map]
  constructor
  · rintro ⟨k, ⟨_, ⟨q, hq, rfl⟩, hk⟩, rfl⟩; exact ⟨q, (mem_perms l q).mp hq, k, hk, rfl⟩
  · rintro ⟨q, hq, k, hk, rfl⟩; exact ⟨k, ⟨_, ⟨q, (mem_perms l q).mpr hq, rfl⟩, hk⟩, rfl⟩

/-- an alternative is never merged with its neighbours: `pre, $or[alts], post` is the union over
the alternatives `a` of `pre, a, post` - nothing else -/
theorem C03_no_merge (fl : Flags) (pre post alts : List Pat) (σ : Sigma) (L : List Inst) (x : Nat × Sigma) :
    x ∈ seqDen ((pre ++ [Pat.or alts Times.one] ++ post).map (denI fl)) σ L ↔
      ∃ a ∈ alts, x ∈ seqDen ((pre ++ [a] ++ post).map (denI fl)) σ L := by
  induction pre generalizing σ L x with
  | nil =>
    simp only [List.nil_append, List.singleton_append, List.map_cons, seqDen, List.mem_flatMap, List.mem_map,
      denI, timesDen_one, denIL_eq_map]
    constructor
    · rintro ⟨⟨k, σ1⟩, ⟨_, ⟨a, ha, rfl⟩, hk⟩, y, hy, rfl⟩
      exact ⟨a, ha, (k, σ1), hk, y, hy, rfl⟩
    · rintro ⟨a, ha, ⟨k, σ1⟩, hk, y, hy, rfl⟩
      exact ⟨(k, σ1), ⟨_, ⟨a, ha, rfl⟩, hk⟩, y, hy, rfl⟩
  | cons p ps ih =>
    simp only [List.cons_append, List.map_cons, seqDen, List.mem_flatMap, List.mem_map]
    constructor
    · rintro ⟨⟨k, σ1⟩, hk, y, hy, rfl⟩
      have := (ih σ1 (L.drop k) y).mp (by simpa using hy)
      obtain ⟨a, ha, hy'⟩ := this
      exact ⟨a, ha, (k, σ1), hk, y, by simpa using hy', rfl⟩
    · rintro ⟨a, ha, ⟨k, σ1⟩, hk, y, hy, rfl⟩
      exact ⟨(k, σ1), hk, y, by simpa using (ih σ1 (L.drop k) y).mpr ⟨a, ha, by simpa using hy⟩, rfl⟩

/-! ## operand level (alternatives / orderings of operands inside one instruction) -/

theorem C03_or_operands (fl : Flags) (caps : List Str) (l : List Pat) (hl : litO (.or l Times.one) = true)
    (r : Rx) (hc : comp fl caps (.or l Times.one) = .ok r) (T : Str) (w : List Str) (hw : OkO w)
    (σ : Sigma) (e : Env) (x : Env × Str) :
    x ∈ r.run e (txtO T w) ↔ ∃ q ∈ l, ∃ k, (k, σ) ∈ denO fl q σ w ∧ x = (e, txtO T (w.drop k)) := by
  rw [(masterO fl caps _ hl T r hc).run_iff σ e w x hw]
  simp only [denO, timesDen_one, denOL_eq_map, List.mem_flatMap, List.mem_map]
  constructor
  · rintro ⟨k, ⟨_, ⟨q, hq, rfl⟩, hk⟩, rfl⟩; exact ⟨q, hq, k, hk, rfl⟩
  · rintro ⟨q, hq, k, hk, rfl⟩; exact ⟨k, ⟨_, ⟨q, hq, rfl⟩, hk⟩, rfl⟩

theorem C03_and_operands (fl : Flags) (caps : List Str) (l : List Pat) (hl : litO (.and l Times.one) = true)
    (r : Rx) (hc : comp fl caps (.and l Times.one) = .ok r) (T : Str) (w : List Str) (hw : OkO w)
    (σ : Sigma) (e : Env) (x : Env × Str) :
    x ∈ r.run e (txtO T w) ↔ ∃ k, (k, σ) ∈ seqDen (l.map (denO fl)) σ w ∧ x = (e, txtO T (w.drop k)) := by
  rw [(masterO fl caps _ hl T r hc).run_iff σ e w x hw]
  simp only [denO, timesDen_one, denOL_eq_map]

theorem C03_anyOrder_operands (fl : Flags) (caps : List Str) (l : List Pat) (hl : litO (.anyOrder l Times.one) = true)
    (r : Rx) (hc : comp fl caps (.anyOrder l Times.one) = .ok r) (T : Str) (w : List Str) (hw : OkO w)
    (σ : Sigma) (e : Env) (x : Env × Str) :
    x ∈ r.run e (txtO T w) ↔
      ∃ q, List.Perm q l ∧ ∃ k, (k, σ) ∈ seqDen (q.map (denO fl)) σ w ∧ x = (e, txtO T (w.drop k)) := by
  rw [(masterO fl caps _ hl T r hc).run_iff σ e w x hw]
  simp only [denO, timesDen_one, denOL_eq_map, perms_map, List.mem_flatMap, List.mem_map]
  constructor
  · rintro ⟨k, ⟨_, ⟨q, hq, rfl⟩, hk⟩, rfl⟩; exact ⟨q, (mem_perms l q).mp hq, k, hk, rfl⟩
  · rintro ⟨q, hq, k, hk, rfl⟩; exact ⟨k, ⟨_, ⟨q, (mem_perms l q).mpr hq, rfl⟩, hk⟩, rfl⟩

/-- `perms` is exactly the set of orderings (core `List.Perm`) -/
theorem C03_perms {α : Type} (l q : List α) : q ∈ perms l ↔ List.Perm q l := mem_perms l q

/-- non-vacuity: a nested combination inside the fragment -/
example : litI (.or [.and [.mnem "a".toList [] Times.one, .anyOrder [.mnem "b".toList [.or [.operand "rax".toList false, .operand "rbx".toList false] Times.one] Times.one, .mnem "c".toList [] Times.one] Times.one] Times.one, .mnem "d".toList [] Times.one] Times.one) = true := by decide
/-- the order of `perms` is that of `itertools.permutations` (needed for the text tie T1; a test) -/
example : perms [1, 2, 3] = [[1, 2, 3], [1, 3, 2], [2, 1, 3], [2, 3, 1], [3, 1, 2], [3, 2, 1]] := by decide

end Jasm.C03

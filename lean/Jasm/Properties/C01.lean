import Jasm.Proofs.Align
import Jasm.Properties.C08
/-!
# C01 Instruction-sequence patterns match exactly the listings that contain them

`items` is the pattern: a list of instruction items, each a mnemonic name with a positional list of
operand names.  `Item.Literal` is the quantifier's side condition (names free of regex
metacharacters and of `,` `|`; operand names not of the form `[0-9a-fA-F]+h`, see finding D11).
`OkA L` is the listing hypothesis: non-empty lower-case hexadecimal addresses, fields free of `,`
and `|`, no `::` inside a record body, records of at most 1000 characters (the code's own limit).
The verdict `found` is "the engine's `search` on the stream finds something" (`Jasm/Model/Rx.lean`).
-/
namespace Jasm.C01
open Jasm

structure Item where
  mnem : Str
  ops : List Str

def Item.toPat (it : Item) : Pat := .mnem it.mnem (it.ops.map fun o => Pat.operand o false) Times.one

def Item.Literal (it : Item) : Prop :=
  litName it.mnem = true ∧ ∀ o ∈ it.ops, litName o = true ∧ isHexOperand o = some false

/-- the item's mnemonic name relates to the instruction's mnemonic and its k-th operand name to the
instruction's k-th operand field (`rel` = "occurs in", or "equals" under the full-match flag).
An instruction without operands has one empty operand field. -/
def Item.holds (fl : Flags) (it : Item) (i : Inst) : Prop :=
  rel fl.mnemFull it.mnem i.mnem = true ∧
    ∀ k, k < it.ops.length → ∃ o f, it.ops[k]? = some o ∧ i.fields.tail[k]? = some f ∧ rel fl.opsFull o f = true

/-- consecutive instructions starting at `n`, one per item and in the written order -/
def windowAt (fl : Flags) (items : List Item) (L : List Inst) (n : Nat) : Prop :=
  n + items.length ≤ L.length ∧
    ∀ j, j < items.length → ∃ it i, items[j]? = some it ∧ L[n + j]? = some i ∧ it.holds fl i

/-- the compiled rule `{"$and": items}` -/
def rulePat (items : List Item) : Pat := .and (items.map Item.toPat) Times.one

theorem litOL_operands (ops : List Str) (h : ∀ o ∈ ops, litName o = true ∧ isHexOperand o = some false) :
    litOL (ops.map fun o => Pat.operand o false) = true := by
  induction ops with
  | nil => rfl
  | cons o os ih =>
    simp only [List.map_cons, litOL, litO, Bool.and_eq_true, Bool.not_false, Bool.true_and, beq_iff_eq]
    exact ⟨⟨(h o (by simp)).1, (h o (by simp)).2⟩, ih (fun x hx => h x (by simp [hx]))⟩

theorem litI_rule (items : List Item) (h : ∀ it ∈ items, it.Literal) : litI (rulePat items) = true := by
  simp only [rulePat, litI]
  induction items with
  | nil => rfl
  | cons it its ih =>
    simp only [List.map_cons, litIL, Bool.and_eq_true]
    refine ⟨?_, ih (fun x hx => h x (by simp [hx]))⟩
    obtain ⟨hm, ho⟩ := h it (by simp)
    simp only [Item.toPat, litI, hm, Bool.true_and]
    exact litOL_operands it.ops ho

/-- operand names, positionally -/
theorem opsDen (fl : Flags) (ops : List Str) (σ : Sigma) (w : List Str) :
    (∃ k, (k, σ) ∈ seqDen (denOL fl (ops.map fun o => Pat.operand o false)) σ w) ↔
      ∀ k, k < ops.length → ∃ o f, ops[k]? = some o ∧ w[k]? = some f ∧ rel fl.opsFull o f = true := by
  induction ops generalizing w with
  | nil => simp [denOL, seqDen]
  | cons o os ih =>
    simp only [List.map_cons, denOL, seqDen, List.mem_flatMap, List.mem_map, denO]
    constructor
    · rintro ⟨k, ⟨k1, σ1⟩, h1, ⟨k2, σ2⟩, h2, heq⟩
      cases w with
      | nil => simp at h1
      | cons f fs =>
        simp only at h1
        split at h1
        · rename_i hrel
          simp only [List.mem_singleton, Prod.mk.injEq] at h1
          obtain ⟨rfl, rfl⟩ := h1
          simp only [Prod.mk.injEq] at heq
          obtain ⟨_, rfl⟩ := heq
          have hrest := (ih fs).mp ⟨k2, by simpa using h2⟩
          intro j hj
          cases j with
          | zero => exact ⟨o, f, by simp, by simp, hrel⟩
          | succ j =>
            obtain ⟨o', f', ho', hf', hr'⟩ := hrest j (by simp at hj; omega)
            exact ⟨o', f', by simpa using ho', by simpa using hf', hr'⟩
        · cases h1
    · intro hall
      obtain ⟨o0, f0, ho0, hf0, hr0⟩ := hall 0 (by simp)
      simp at ho0; subst ho0
      cases w with
      | nil => simp at hf0
      | cons f fs =>
        simp at hf0; subst hf0
        have : ∀ k, k < os.length → ∃ o f, os[k]? = some o ∧ fs[k]? = some f ∧ rel fl.opsFull o f = true := by
          intro k hk
          obtain ⟨o', f', h1, h2, h3⟩ := hall (k + 1) (by simp; omega)
          exact ⟨o', f', by simpa using h1, by simpa using h2, h3⟩
        obtain ⟨k2, hk2⟩ := (ih fs).mpr this
        exact ⟨1 + k2, (1, σ), by simp [hr0], (k2, σ), by simpa using hk2, rfl⟩

theorem opsDen_pure (fl : Flags) (ops : List Str) (σ σ' : Sigma) (w : List Str) (k : Nat)
    (h : (k, σ') ∈ seqDen (denOL fl (ops.map fun o => Pat.operand o false)) σ w) : σ' = σ := by
  induction ops generalizing w k with
  | nil => simp [denOL, seqDen] at h; exact h.2
  | cons o os ih =>
    simp only [List.map_cons, denOL, seqDen, List.mem_flatMap, List.mem_map, denO] at h
    obtain ⟨⟨k1, σ1⟩, h1, ⟨k3, σ3⟩, h3, heq⟩ := h
    cases w with
    | nil => simp at h1
    | cons f fs =>
      simp only at h1
      split at h1
      · simp only [List.mem_singleton, Prod.mk.injEq] at h1
        obtain ⟨rfl, rfl⟩ := h1
        simp only [Prod.mk.injEq] at heq
        obtain ⟨_, rfl⟩ := heq
        exact ih _ _ (by simpa using h3)
      · cases h1

theorem itemDen_nil (fl : Flags) (it : Item) (σ : Sigma) : denI fl it.toPat σ [] = [] := by
  simp [Item.toPat, denI, timesDen_one]

/-- one item consumes exactly one instruction, iff it holds there -/
theorem itemDen_cons (fl : Flags) (it : Item) (σ : Sigma) (i : Inst) (rest : List Inst) (p : Nat × Sigma) :
    p ∈ denI fl it.toPat σ (i :: rest) ↔ (it.holds fl i ∧ p = (1, σ)) := by
  obtain ⟨pk, pσ⟩ := p
  simp only [Item.toPat, denI, timesDen_one]
  constructor
  · intro h
    split at h
    · rename_i hrel
      simp only [List.mem_map] at h
      obtain ⟨⟨k2, σ2⟩, hk2, heq⟩ := h
      simp only [Prod.mk.injEq] at heq
      obtain ⟨rfl, rfl⟩ := heq
      have hpure : σ2 = σ := opsDen_pure fl it.ops σ σ2 _ k2 hk2
      subst hpure
      exact ⟨⟨hrel, (opsDen fl it.ops σ2 i.fields.tail).mp ⟨k2, hk2⟩⟩, rfl⟩
    · cases h
  · rintro ⟨⟨hrel, hops⟩, heq⟩
    simp only [Prod.mk.injEq] at heq
    obtain ⟨rfl, rfl⟩ := heq
    simp only [hrel, if_true, List.mem_map]
    obtain ⟨k2, hk2⟩ := (opsDen fl it.ops pσ i.fields.tail).mpr hops
    exact ⟨(k2, pσ), hk2, rfl⟩

/-- the item list consumes exactly `items.length` instructions, iff every item holds at its position -/
theorem itemsDen (fl : Flags) (items : List Item) (σ : Sigma) (L : List Inst) (k : Nat) :
    (k, σ) ∈ seqDen (denIL fl (items.map Item.toPat)) σ L ↔ (k = items.length ∧ windowAt fl items L 0) := by
  induction items generalizing L k with
  | nil => simp [denIL, seqDen, windowAt]
  | cons it its ih =>
    simp only [List.map_cons, denIL, seqDen, List.mem_flatMap, List.mem_map]
    constructor
    · rintro ⟨p1, h1, ⟨k2, σ2⟩, h2, heq⟩
      cases L with
      | nil => rw [itemDen_nil] at h1; cases h1
      | cons i rest =>
        obtain ⟨hh, rfl⟩ := (itemDen_cons fl it σ i rest p1).mp h1
        simp only [Prod.mk.injEq] at heq
        obtain ⟨rfl, rfl⟩ := heq
        obtain ⟨rfl, hlen, hw⟩ := (ih rest k2).mp (by simpa using h2)
        refine ⟨by simp; omega, by simp at hlen ⊢; omega, ?_⟩
        intro j hj
        cases j with
        | zero => exact ⟨it, i, by simp, by simp, hh⟩
        | succ j =>
          obtain ⟨it', i', h1', h2', h3'⟩ := hw j (by simp at hj; omega)
          exact ⟨it', i', by simpa using h1', by simpa using h2', h3'⟩
    · rintro ⟨rfl, hlen, hw⟩
      obtain ⟨it0, i0, h1, h2, hh⟩ := hw 0 (by simp)
      simp at h1; subst h1
      cases L with
      | nil => simp at h2
      | cons i rest =>
        simp at h2; subst h2
        have hw' : windowAt fl its rest 0 := by
          refine ⟨by simp at hlen ⊢; omega, ?_⟩
          intro j hj
          obtain ⟨it', i', h1', h2', h3'⟩ := hw (j + 1) (by simp; omega)
          exact ⟨it', i', by simpa using h1', by simpa using h2', h3'⟩
        exact ⟨(1, σ), (itemDen_cons fl it σ i rest _).mpr ⟨hh, rfl⟩, (its.length, σ),
          by simpa using (ih rest its.length).mpr ⟨rfl, hw'⟩, by simp; omega⟩

theorem holds_addr_irrelevant (fl : Flags) (it : Item) (i : Inst) (a' : Str) :
    it.holds fl ⟨a', i.mnem, i.ops⟩ ↔ it.holds fl i := by
  simp [Item.holds, Inst.fields]

/-- **C01**: the pattern is found iff the listing contains a window of consecutive instructions,
one per item and in the written order, at which every item holds - for all four settings of the two
full-match flags (`fl`), every non-empty list of literal items and every well-formed listing -/
theorem C01 (fl : Flags) (caps : List Str) (items : List Item) (hne : items ≠ []) (hlit : ∀ it ∈ items, it.Literal)
    (r : Rx) (hc : comp fl caps (rulePat items) = .ok r) (L : List Inst) (hL : OkA L) :
    (search r (encAll L)).isSome = true ↔ ∃ n, windowAt fl items L n := by
  have hm := masterI fl caps (rulePat items) (litI_rule items hlit) r hc
  have hden : denI fl (rulePat items) = seqDen (denIL fl (items.map Item.toPat)) := by
    funext σ L'; simp [rulePat, denI, timesDen_one]
  rw [search_isSome_iff]
  constructor
  · rintro ⟨t, ht, hrun⟩
    obtain ⟨x, hx⟩ := List.exists_mem_of_ne_nil _ hrun
    -- the regex begins with the first item, which begins with the address skip
    have hstart : StartsAddr t := by
      cases items with
      | nil => exact absurd rfl hne
      | cons it its =>
        simp only [rulePat, List.map_cons, comp] at hc
        obtain ⟨cs, hcs, hr⟩ := bind_ok.mp hc
        simp only [compList] at hcs
        obtain ⟨c1, hc1, hcs⟩ := bind_ok.mp hcs
        obtain ⟨cs', _, hcs⟩ := bind_ok.mp hcs
        cases pure_ok.mp hcs
        cases pure_ok.mp hr
        simp only [Item.toPat, comp] at hc1
        obtain ⟨os, _, hc1⟩ := bind_ok.mp hc1
        simp only [if_true] at hc1
        cases pure_ok.mp hc1
        simp only [withTimes, if_true] at hx
        rw [mem_grp, mem_seqAll_cons] at hx
        obtain ⟨y, hy, _⟩ := hx
        obtain ⟨z, hz, _⟩ := mem_seq.mp hy
        exact addr_run_startsAddr _ _ _ hz
    obtain ⟨n, i, a', hn, hne', hsuf, rfl⟩ := suffix_startsAddr L hL t ht hstart
    have hOk' : OkI (⟨a', i.mnem, i.ops⟩ :: L.drop (n + 1)) := by
      intro j hj
      simp only [List.mem_cons] at hj
      rcases hj with rfl | hj
      · exact wfm_shorten i a' (hL i (List.mem_of_getElem? hn)).wfm hne' hsuf
      · exact (hL j (List.mem_of_mem_drop hj)).wfm
    obtain ⟨k, hk, _⟩ := (hm.run_iff [] [] _ x hOk').mp hx
    rw [hden] at hk
    obtain ⟨_, hlen, hw⟩ := (itemsDen fl items [] _ k).mp hk
    have hnlt : n < L.length := by
      have := List.getElem?_eq_some_iff.mp hn; exact this.1
    refine ⟨n, ?_, ?_⟩
    · simp only [List.length_cons, List.length_drop, Nat.zero_add] at hlen; omega
    · intro j hj
      obtain ⟨it, i', h1, h2, h3⟩ := hw j hj
      cases j with
      | zero =>
        simp at h2; subst h2
        exact ⟨it, i, h1, by simpa using hn, (holds_addr_irrelevant fl it i a').mp h3⟩
      | succ j =>
        refine ⟨it, i', h1, ?_, h3⟩
        simp only [Nat.zero_add, List.getElem?_cons_succ, List.getElem?_drop] at h2
        rw [← h2]; congr 1; omega
  · rintro ⟨n, hlen, hw⟩
    have hw0 : windowAt fl items (L.drop n) 0 := by
      refine ⟨by simp; omega, ?_⟩
      intro j hj
      obtain ⟨it, i, h1, h2, h3⟩ := hw j hj
      exact ⟨it, i, h1, by simpa [List.getElem?_drop] using h2, h3⟩
    have hk := (itemsDen fl items [] (L.drop n) items.length).mpr ⟨rfl, hw0⟩
    rw [← hden] at hk
    have := (hm.run_iff [] [] (L.drop n) _ (okI_drop L n (okA_okI hL))).mpr ⟨_, hk, rfl⟩
    exact ⟨encAll (L.drop n), encAll_drop_suffix L n, List.ne_nil_of_mem this⟩

/-- **locality**: nothing outside the window (other instructions, further operands, addresses)
influences the verdict - two listings that agree on the mnemonics and operand fields inside a window
agree on whether the window matches -/
theorem C01_locality (fl : Flags) (items : List Item) (L₁ L₂ : List Inst) (n₁ n₂ : Nat)
    (hagree : ∀ j, j < items.length → ∃ i₁ i₂, L₁[n₁ + j]? = some i₁ ∧ L₂[n₂ + j]? = some i₂ ∧
      i₁.mnem = i₂.mnem ∧ ∀ k it, items[j]? = some it → k < it.ops.length → i₁.fields.tail[k]? = i₂.fields.tail[k]?)
    (h₁ : windowAt fl items L₁ n₁) (hlen₂ : n₂ + items.length ≤ L₂.length) : windowAt fl items L₂ n₂ := by
  refine ⟨hlen₂, ?_⟩
  intro j hj
  obtain ⟨it, i, hit, hi, hm, hops⟩ := h₁.2 j hj
  obtain ⟨i₁, i₂, e₁, e₂, hmn, hf⟩ := hagree j hj
  rw [hi] at e₁; cases e₁
  refine ⟨it, i₂, hit, e₂, by rw [← hmn]; exact hm, ?_⟩
  intro k hk
  obtain ⟨o, f, h1, h2, h3⟩ := hops k hk
  exact ⟨o, f, h1, by rw [← hf k it hit hk]; exact h2, h3⟩

/-- non-vacuity: a two-item rule, a listing satisfying `OkA`, and its window -/
example : windowAt ⟨false, true⟩ [⟨"mov".toList, ["%rsp".toList]⟩, ⟨"re".toList, []⟩]
    [⟨"1".toList, "push".toList, ["%rbp".toList]⟩, ⟨"2".toList, "movq".toList, ["%rsp".toList, "%rbp".toList]⟩, ⟨"5".toList, "ret".toList, []⟩] 1 := by
  refine ⟨by decide, ?_⟩
  intro j hj
  match j, hj with
  | 0, _ => exact ⟨_, _, rfl, rfl, by decide, fun k hk => by
      match k, hk with
      | 0, _ => exact ⟨_, _, rfl, rfl, by decide⟩⟩
  | 1, _ => exact ⟨_, _, rfl, rfl, by decide, fun k hk => by simp at hk⟩

/-- **C01 (from the listing text)**: composed with the parser theorem C08, the verdict on the text of
a listing of the objdump grammar is decided by the instructions its instruction lines stand for -/
theorem C01_end_to_end (fl : Flags) (caps : List Str) (items : List Item) (hne : items ≠ [])
    (hlit : ∀ it ∈ items, it.Literal) (r : Rx) (hc : comp fl caps (rulePat items) = .ok r)
    (ls : List LineSpec) (hls : ls ≠ []) (hwf : ∀ l ∈ ls, C08.LineSpec.WF l) (hA : OkA (expectedInsts ls)) :
    ∃ L, (parseListing (renderListing ls) >>= processAll none) = .ok L ∧
      ((search r (encAll L)).isSome = true ↔ ∃ n, windowAt fl items (expectedInsts ls) n) :=
  ⟨expectedInsts ls, C08.C08_stream ls hls hwf, C01 fl caps items hne hlit r hc _ hA⟩

end Jasm.C01

import Jasm.Proofs.ParserLemmas
import Jasm.Properties.C09
/-!
# C08 Every disassembled instruction line yields exactly one stream instruction

Over the environment grammar `LineSpec` of objdump's output (`Jasm/Spec/Objdump.lean`; validated
against the real objdump by tie T5): the parser returns, for an instruction line, exactly the
instruction `instOf` describes (its address, its mnemonic token, its operands in normal form, C09),
and nothing for every other kind of line; it never fails on a well-formed line.
-/
namespace Jasm.C08
open Jasm Jasm.C09

def noBlankHash (s : Str) : Prop := ∀ c ∈ s, c ≠ ' ' ∧ c ≠ '#'

instance (s : Str) : Decidable (noBlankHash s) := by unfold noBlankHash; infer_instance

/-- well-formedness of an instruction line of the grammar -/
structure InstLine.WF (l : InstLine) : Prop where
  addr_ne : l.addr ≠ []
  addr_hex : ∀ c ∈ l.addr, isHexChar c = true
  bytes_ne : l.bytes ≠ []
  bytes_hex : HexPairs l.bytes
  mnem_ne : l.mnem ≠ []
  mnem_noblank : ∀ c ∈ l.mnem, c ≠ ' '
  ops_wf : ∀ o ∈ l.ops, Operand.WF o
  ops_shape : ∀ o ∈ l.ops, ∀ k a bc, o = .mem k a bc → (a.isSome ∨ bc.isSome)
  /-- the printed operand text contains neither a blank nor `#`, and does not start with a tab -/
  ops_text : noBlankHash (joinSep [','] (l.ops.map Operand.print))
  ops_no_tab : (joinSep [','] (l.ops.map Operand.print)).head? ≠ some '\t'
  gap_pos : l.ops ≠ [] → 1 ≤ l.gap
  annot_only_with_ops : l.ops = [] → l.annot = none
  no_data16 : stripData16 (renderLine (.inst l)) = renderLine (.inst l)

theorem renderLine_inst (l : InstLine) :
    renderLine (.inst l) = blanks l.indent ++ l.addr ++ ':' :: '\t' :: (renderBytes l.bytes ++ blanks l.pad ++ '\t' :: (l.mnem ++ tailText l)) := rfl

theorem afterOps_head (l : InstLine) : afterOps l = [] ∨ ∃ t, afterOps l = ' ' :: t := by
  unfold afterOps
  cases l.annot with
  | some a =>
    right
    cases l.comment with
    | none => exact ⟨'<' :: a ++ ['>'] ++ blanks l.trail, by simp⟩
    | some c => exact ⟨'<' :: a ++ ['>'] ++ (blanks 8 ++ '#' :: ' ' :: c) ++ blanks l.trail, by simp⟩
  | none =>
    cases l.comment with
    | some c => right; exact ⟨blanks 7 ++ '#' :: ' ' :: c ++ blanks l.trail, by simp [blanks, List.replicate_succ]⟩
    | none =>
      cases ht : l.trail with
      | zero => left; simp [blanks]
      | succ n => right; exact ⟨blanks n, by simp [blanks, List.replicate_succ]⟩

theorem operandPart_ops (l : InstLine) (h : InstLine.WF l) (hne : l.ops ≠ []) :
    operandPart (blanks l.gap ++ joinSep [','] (l.ops.map Operand.print) ++ afterOps l)
      = some (joinSep [','] (l.ops.map Operand.print)) := by
  have hg := h.gap_pos hne
  obtain ⟨g, hg'⟩ : ∃ g, l.gap = g + 1 := ⟨l.gap - 1, by omega⟩
  generalize htxt : joinSep [','] (l.ops.map Operand.print) = txt
  have htxt' := htxt.symm
  have htne : txt ≠ [] := by
    cases hops : l.ops with
    | nil => exact absurd hops hne
    | cons o os =>
      have hwf := h.ops_wf o (by rw [hops]; simp)
      have : Operand.print o ≠ [] := by
        cases o with
        | target hx => exact hwf.2.1
        | imm v => simp [Operand.print]
        | reg r => simp [Operand.print]
        | star r => simp [Operand.print]
        | mem k a bc => simp [Operand.print]
      rw [← htxt, hops]
      cases os with
      | nil => simpa [joinSep] using this
      | cons o2 os2 => simp [joinSep]
  obtain ⟨c0, t0, hct⟩ : ∃ c0 t0, txt = c0 :: t0 := by
    cases txt with
    | nil => exact absurd rfl htne
    | cons c t => exact ⟨c, t, rfl⟩
  have hopsText : noBlankHash txt := by rw [← htxt]; exact h.ops_text
  have hnoTab : txt.head? ≠ some '\t' := by rw [← htxt]; exact h.ops_no_tab
  have hc0 : c0 ≠ ' ' ∧ c0 ≠ '#' := hopsText c0 (by rw [hct]; simp)
  have hc0t : c0 ≠ '\t' := by
    intro e; apply hnoTab; rw [hct, e]; rfl
  have hdrop : dropSpaces (blanks l.gap ++ txt ++ afterOps l) = txt ++ afterOps l := by
    rw [List.append_assoc]
    apply dropSpaces_blanks
    rw [hct]; simp [hc0.1]
  have hspan : spanP (fun c => c != '#' && c != ' ') (txt ++ afterOps l) = (txt, afterOps l) := by
    rcases afterOps_head l with h0 | ⟨t, ht⟩
    · rw [h0, List.append_nil]
      exact spanP_all _ _ (fun c hc => by have := hopsText c hc; simp [this.1, this.2])
    · rw [ht]
      exact spanP_stop _ _ ' ' t (fun c hc => by have := hopsText c hc; simp [this.1, this.2]) (by simp)
  have hstart : blanks l.gap ++ txt ++ afterOps l = ' ' :: (blanks g ++ txt ++ afterOps l) := by
    rw [hg']; simp [blanks, List.replicate_succ]
  unfold operandPart
  rw [hstart]
  simp only
  rw [← hstart, hdrop, hct]
  simp only [List.cons_append]
  have hnt : ¬ (c0 = '\t') := hc0t
  split
  · rename_i r' heq
    simp at heq
    exact absurd heq.1 hnt
  · rw [← List.cons_append, ← hct, hspan]
    simp [htne]

theorem operandPart_none (l : InstLine) (hno : l.ops = []) (ha : l.annot = none) :
    operandPart (tailText l) = none := by
  simp only [tailText, afterOps, hno, List.isEmpty_nil, if_true, ha, List.nil_append]
  cases l.comment with
  | none =>
    cases l.trail with
    | zero => rfl
    | succ n =>
      have e : blanks (n + 1) = ' ' :: (blanks n ++ []) := by simp [blanks, List.replicate_succ]
      have hd : dropSpaces (' ' :: (blanks n ++ [])) = [] := by
        simp only [dropSpaces]
        exact dropSpaces_blanks n [] (by simp)
      simp only [List.nil_append, e, operandPart, hd, spanP]
      simp
  | some c =>
    have e : blanks 8 ++ '#' :: ' ' :: c ++ blanks l.trail = ' ' :: (blanks 7 ++ '#' :: ' ' :: (c ++ blanks l.trail)) := by
      simp [blanks, List.replicate_succ]
    have hd : dropSpaces (' ' :: (blanks 7 ++ '#' :: ' ' :: (c ++ blanks l.trail))) = '#' :: ' ' :: (c ++ blanks l.trail) := by
      simp only [dropSpaces]
      exact dropSpaces_blanks 7 _ (by simp)
    simp only [e, operandPart, hd, spanP]
    simp

/-- **C08 (instruction lines)**: the parser returns exactly the instruction the line stands for -/
theorem C08_inst (l : InstLine) (h : InstLine.WF l) : parseLine (renderLine (.inst l)) = .ok (instOf (.inst l)) := by
  unfold parseLine
  rw [h.no_data16, renderLine_inst]
  -- address and byte column
  have haddr0 : ∃ a0 as, l.addr = a0 :: as := by
    cases hl : l.addr with
    | nil => exact absurd hl h.addr_ne
    | cons a0 as => exact ⟨a0, as, rfl⟩
  obtain ⟨a0, as, ha⟩ := haddr0
  have ha0 : a0 ≠ ' ' := by
    intro e
    have := h.addr_hex a0 (by rw [ha]; simp)
    rw [e] at this; revert this; decide
  have hX : l.mnem ++ tailText l ≠ [] := by
    cases hm : l.mnem with
    | nil => exact absurd hm h.mnem_ne
    | cons _ _ => simp
  have hprefix : linePrefix (blanks l.indent ++ l.addr ++ ':' :: '\t' :: (renderBytes l.bytes ++ blanks l.pad ++ '\t' :: (l.mnem ++ tailText l)))
      = some (l.addr, ' ' :: (blanks l.pad ++ '\t' :: (l.mnem ++ tailText l))) := by
    unfold linePrefix
    rw [List.append_assoc, dropSpaces_blanks _ _ (by rw [ha]; simp [ha0])]
    rw [spanP_stop isHexChar l.addr ':' _ h.addr_hex (by decide)]
    simp only [h.addr_ne, List.isEmpty_iff, if_false]
    rw [bytePairs_column l.bytes h.bytes_ne h.bytes_hex l.pad _ hX]
    simp
  rw [hprefix]
  simp only
  -- mnemonic
  have hmn : mnemonicPart (' ' :: (blanks l.pad ++ '\t' :: (l.mnem ++ tailText l))) = some (l.mnem, tailText l) := by
    unfold mnemonicPart
    simp only
    have hd : dropSpaces (' ' :: (blanks l.pad ++ '\t' :: (l.mnem ++ tailText l))) = '\t' :: (l.mnem ++ tailText l) := by
      simp only [dropSpaces]
      exact dropSpaces_blanks _ _ (by simp)
    rw [hd]
    simp only
    have htail : tailText l = [] ∨ ∃ t, tailText l = ' ' :: t := by
      unfold tailText
      by_cases hops : l.ops = []
      · simp only [hops, List.isEmpty_nil, if_true, List.nil_append]
        exact afterOps_head l
      · have hg := h.gap_pos hops
        obtain ⟨g, hg'⟩ : ∃ g, l.gap = g + 1 := ⟨l.gap - 1, by omega⟩
        right
        have : l.ops.isEmpty = false := by cases hl : l.ops <;> simp_all
        simp only [this, Bool.false_eq_true, if_false, hg', blanks, List.replicate_succ, List.cons_append]
        exact ⟨_, rfl⟩
    have hspan : spanP (fun c => c != ' ') (l.mnem ++ tailText l) = (l.mnem, tailText l) := by
      rcases htail with h0 | ⟨t, ht⟩
      · rw [h0, List.append_nil]; exact spanP_all _ _ (fun c hc => by simp [h.mnem_noblank c hc])
      · rw [ht]; exact spanP_stop _ _ ' ' t (fun c hc => by simp [h.mnem_noblank c hc]) (by simp)
    rw [hspan]
    simp [h.mnem_ne]
  rw [hmn]
  simp only
  by_cases hops : l.ops = []
  · -- no operands
    rw [operandPart_none l hops (h.annot_only_with_ops hops)]
    simp only [instOf, hops, List.isEmpty_nil, Bool.true_and, List.map_nil]
    by_cases hb : l.mnem = ['(', 'b', 'a', 'd', ')']
    · simp [hb, pure, Except.pure]
    · simp [hb, pure, Except.pure]
  · -- operands
    have hts : tailText l = blanks l.gap ++ joinSep [','] (l.ops.map Operand.print) ++ afterOps l := by
      have : l.ops.isEmpty = false := by cases hl : l.ops <;> simp_all
      simp [tailText, this]
    rw [hts, operandPart_ops l h hops]
    simp only
    rw [C09 l.ops hops h.ops_wf h.ops_shape]
    have : l.ops.isEmpty = false := by cases hl : l.ops <;> simp_all
    simp [instOf, this, bind, Except.bind, pure, Except.pure]

/-! ## the other kinds of line contribute nothing -/

theorem dropSpaces_suffix (s : Str) : dropSpaces s <:+ s := by
  induction s with
  | nil => exact List.suffix_refl _
  | cons c t ih =>
    rw [dropSpaces.eq_def]
    split
    · rename_i t' heq
      simp at heq
      obtain ⟨rfl, rfl⟩ := heq
      exact ih.trans (List.suffix_cons _ _)
    · exact List.suffix_refl _

theorem spanP_append (p : Char → Bool) (s : Str) : (spanP p s).1 ++ (spanP p s).2 = s := by
  induction s with
  | nil => rfl
  | cons c t ih =>
    simp only [spanP]
    split <;> simp [ih]

/-- a line without a tab is not an instruction line -/
theorem linePrefix_no_tab (line : Str) (h : '\t' ∉ line) : linePrefix line = none := by
  unfold linePrefix
  have hsuf := dropSpaces_suffix line
  have happ := spanP_append isHexChar (dropSpaces line)
  generalize spanP isHexChar (dropSpaces line) = pr at happ
  obtain ⟨addr, rest⟩ := pr
  simp only at happ ⊢
  split
  · rfl
  · split
    · rename_i r heq
      exfalso
      apply h
      apply hsuf.subset
      rw [← happ]
      simp
    · rfl

theorem parseLine_no_tab (line : Str) (hd : stripData16 line = line) (h : '\t' ∉ line) : parseLine line = .ok none := by
  unfold parseLine
  rw [hd, linePrefix_no_tab line h]
  rfl

theorem parseLine_dots : parseLine (renderLine .dots) = .ok none := by decide

theorem parseLine_blank : parseLine (renderLine .blank) = .ok none := by decide

/-- a byte-continuation line is handed over as the pseudo instruction `empty` (dropped by the consumer) -/
theorem parseLine_cont (indent : Nat) (addr : Str) (bs : List (Char × Char)) (hne : addr ≠ [])
    (hhex : ∀ c ∈ addr, isHexChar c = true) (hbne : bs ≠ []) (hbs : HexPairs bs)
    (hd : stripData16 (renderLine (.cont indent addr bs)) = renderLine (.cont indent addr bs)) :
    parseLine (renderLine (.cont indent addr bs)) = .ok (some ⟨addr, "empty".toList, []⟩) := by
  unfold parseLine
  rw [hd]
  have haddr0 : ∃ a0 as, addr = a0 :: as := by
    cases addr with
    | nil => exact absurd rfl hne
    | cons a0 as => exact ⟨a0, as, rfl⟩
  obtain ⟨a0, as, ha⟩ := haddr0
  have ha0 : a0 ≠ ' ' := by
    intro e
    have := hhex a0 (by rw [ha]; simp)
    rw [e] at this; revert this; decide
  have hr : renderLine (.cont indent addr bs) = blanks indent ++ addr ++ ':' :: '\t' :: renderBytes bs := rfl
  have hprefix : linePrefix (renderLine (.cont indent addr bs)) = some (addr, [' ']) := by
    rw [hr]
    unfold linePrefix
    rw [List.append_assoc, dropSpaces_blanks _ _ (by rw [ha]; simp [ha0])]
    rw [spanP_stop isHexChar addr ':' _ hhex (by decide)]
    simp only [hne, List.isEmpty_iff, if_false]
    rw [bytePairs_to_end bs hbne hbs]
    simp
  rw [hprefix]
  simp [mnemonicPart, dropSpaces, pure, Except.pure]

/-- well-formedness of a line of the grammar -/
def LineSpec.WF (ls : LineSpec) : Prop :=
  (match ls with
    | .inst l => InstLine.WF l ∧ l.mnem ≠ "empty".toList
    | .cont _ addr bs => addr ≠ [] ∧ (∀ c ∈ addr, isHexChar c = true) ∧ bs ≠ [] ∧ HexPairs bs
    | .label _ _ => '\t' ∉ renderLine ls
    | .header _ _ => '\t' ∉ renderLine ls
    | .sect _ => '\t' ∉ renderLine ls
    | .blank => True
    | .dots => True) ∧
  stripData16 (renderLine ls) = renderLine ls ∧ '\n' ∉ renderLine ls

/-- what the parser hands to the consumer for one line -/
def parsedOf : LineSpec → Option Inst
  | .inst l => instOf (.inst l)
  | .cont _ addr _ => some ⟨addr, "empty".toList, []⟩
  | _ => none

/-- **C08 (every line)**: no line of the grammar makes the parser fail, and each yields exactly
`parsedOf` -/
theorem C08_line (ls : LineSpec) (h : LineSpec.WF ls) : parseLine (renderLine ls) = .ok (parsedOf ls) := by
  obtain ⟨hk, hd, _⟩ := h
  cases ls with
  | inst l => exact C08_inst l hk.1
  | cont indent addr bs => exact parseLine_cont indent addr bs hk.1 hk.2.1 hk.2.2.1 hk.2.2.2 hd
  | label addr name => exact parseLine_no_tab _ hd hk
  | header name fmt => exact parseLine_no_tab _ hd hk
  | sect name => exact parseLine_no_tab _ hd hk
  | blank => exact parseLine_blank
  | dots => exact parseLine_dots

theorem go_no_sep (a : Str) (h : '\n' ∉ a) : splitLines.go a = [a] := by
  induction a with
  | nil => rfl
  | cons x xs ih =>
    have hx : x ≠ '\n' := fun e => h (by simp [e])
    simp [splitLines.go, hx, ih (fun m => h (by simp [m]))]

theorem go_append_sep (a b : Str) (h : '\n' ∉ a) : splitLines.go (a ++ '\n' :: b) = a :: splitLines.go b := by
  induction a with
  | nil => simp [splitLines.go]
  | cons x xs ih =>
    have hx : x ≠ '\n' := fun e => h (by simp [e])
    simp [splitLines.go, hx, ih (fun m => h (by simp [m]))]

theorem splitLines_joined (lines : List Str) (hne : lines ≠ []) (h : ∀ l ∈ lines, '\n' ∉ l) :
    splitLines (joinSep ['\n'] lines) = lines := by
  unfold splitLines
  induction lines with
  | nil => exact absurd rfl hne
  | cons l ls ih =>
    cases ls with
    | nil => simpa [joinSep] using go_no_sep l (h l (by simp))
    | cons l2 ls2 =>
      have e : joinSep ['\n'] (l :: l2 :: ls2) = l ++ '\n' :: joinSep ['\n'] (l2 :: ls2) := by simp [joinSep]
      rw [e, go_append_sep l _ (h l (by simp)), ih (by simp) (fun x hx => h x (by simp [hx]))]

theorem parseLines_rendered (ls : List LineSpec) (h : ∀ l ∈ ls, LineSpec.WF l) :
    parseLines (ls.map renderLine) = .ok (ls.filterMap parsedOf) := by
  induction ls with
  | nil => rfl
  | cons l rest ih =>
    simp only [List.map_cons, parseLines, C08_line l (h l (by simp)), ih (fun x hx => h x (by simp [hx])),
      bind, Except.bind, pure, Except.pure, List.filterMap_cons]
    cases parsedOf l <;> rfl

/-- **C08**: for every listing of the grammar, the parser hands over, in file order, exactly one
instruction per instruction line (address, mnemonic token, operands in normal form) plus one `empty`
pseudo instruction per byte-continuation line; nothing else -/
theorem C08_listing (ls : List LineSpec) (hne : ls ≠ []) (h : ∀ l ∈ ls, LineSpec.WF l) :
    parseListing (renderListing ls) = .ok (ls.filterMap parsedOf) := by
  unfold parseListing renderListing
  rw [splitLines_joined (ls.map renderLine) (by simpa using hne)
    (by intro l hl; obtain ⟨x, hx, rfl⟩ := List.mem_map.mp hl; exact (h x hx).2.2)]
  exact parseLines_rendered ls h

/-- ... and the consumer keeps exactly the instructions of the instruction lines: one stream record
per disassembled instruction line, in file order -/
theorem C08_stream (ls : List LineSpec) (hne : ls ≠ []) (h : ∀ l ∈ ls, LineSpec.WF l) :
    (parseListing (renderListing ls) >>= processAll none) = .ok (expectedInsts ls) := by
  rw [C08_listing ls hne h]
  simp only [bind, Except.bind]
  have hproc : ∀ L : List Inst, processAll none L = .ok (L.filter (fun i => !(i.mnem == "empty".toList))) := by
    intro L
    induction L with
    | nil => rfl
    | cons i is ih =>
      simp only [processAll, ih, bind, Except.bind, processInst, observeRemoveEmpty]
      by_cases he : i.mnem = ['e', 'm', 'p', 't', 'y']
      · simp [he, pure, Except.pure]
      · simp [he, pure, Except.pure]
  rw [hproc]
  congr 1
  unfold expectedInsts
  induction ls with
  | nil => rfl
  | cons l rest ih =>
    have hl := h l (by simp)
    have ih' := fun hr => ih hr (fun x hx => h x (by simp [hx]))
    cases l with
    | inst il =>
      have hne' : il.mnem ≠ "empty".toList := hl.1.2
      have hm : (instOf (.inst il)) = some ⟨il.addr, if il.ops.isEmpty && il.mnem = "(bad)".toList then "bad".toList else il.mnem, il.ops.map Operand.normalForm⟩ := rfl
      simp only [List.filterMap_cons, parsedOf, hm]
      have hkeep : (!((if (il.ops.isEmpty && decide (il.mnem = "(bad)".toList)) = true then "bad".toList else il.mnem) == "empty".toList)) = true := by
        split
        · decide
        · simpa using hne'
      simp only [List.filter_cons, hkeep, if_true, List.cons.injEq, true_and]
      cases rest with
      | nil => rfl
      | cons r rs => exact ih' (by simp)
    | cont indent addr bs =>
      simp only [List.filterMap_cons, parsedOf, instOf, List.filter_cons]
      have : (!("empty".toList == "empty".toList)) = false := by decide
      simp only [this, Bool.false_eq_true, if_false]
      cases rest with
      | nil => rfl
      | cons r rs => exact ih' (by simp)
    | label _ _ | header _ _ | sect _ | blank | dots =>
      simp only [List.filterMap_cons, parsedOf, instOf]
      cases rest with
      | nil => rfl
      | cons r rs => exact ih' (by simp)

/-! ## non-vacuity: a concrete line of real objdump output satisfies the hypotheses -/

def demoLine : InstLine :=
  { indent := 2, addr := "401009".toList, bytes := [('4','8'), ('8','b'), ('4','4')], pad := 12, mnem := "mov".toList, gap := 4,
    ops := [.mem "0x8".toList (some "%rsp".toList) (some ("%rax".toList, "4".toList)), .reg "rax".toList],
    annot := none, comment := some "note".toList }

example : String.ofList (renderLine (.inst demoLine)) = "  401009:\t48 8b 44             \tmov    0x8(%rsp,%rax,4),%rax        # note" := by decide

theorem demoLine_wf : InstLine.WF demoLine where
  addr_ne := by decide
  addr_hex := by decide
  bytes_ne := by decide
  bytes_hex := by decide
  mnem_ne := by decide
  mnem_noblank := by decide
  ops_wf := by
    intro o ho
    simp [demoLine] at ho
    rcases ho with rfl | rfl
    · refine ⟨by decide, ?_, ?_, by decide, by decide⟩
      · intro x hx; cases hx; decide
      · intro b c hbc; cases hbc; exact ⟨by decide, by decide⟩
    · show Plain _; decide
  ops_shape := by
    intro o ho k a bc heq
    simp [demoLine] at ho
    rcases ho with rfl | rfl
    · cases heq; simp
    · cases heq
  ops_text := by decide
  ops_no_tab := by decide
  gap_pos := by decide
  annot_only_with_ops := by decide
  no_data16 := by decide

example : parseLine (renderLine (.inst demoLine)) =
    .ok (some ⟨"401009".toList, "mov".toList, ["[%rsp+%rax*4+0x8]".toList, "%rax".toList]⟩) :=
  C08_inst demoLine demoLine_wf

end Jasm.C08

import Jasm.Model.Pipeline
import Jasm.Proofs.Master
/-!
# C17 Failures are loud: an unscanned input is never reported as 'not found'

One theorem per fault class of the statement, on the model of the compiler, the config loader and
the pipeline.  "Error" = the model returns `Except.error`, mirroring a Python exception; the
correspondence check injects each fault into the real code and compares the outcome class.
Operating-system faults enter through the `World` parameters.
-/
namespace Jasm.C17
open Jasm

def isError {α : Type} (r : M α) : Prop := ∃ msg, r = .error (.error msg)

/-! ## the input / the rule file cannot be read, parsed or disassembled -/

theorem C17_rule_unreadable (w : World) (s : Config) (op : Op) (e : Err) (h : op.doc = .error e) :
    (runOp w s op).2 = .error e := by unfold runOp; simp [h]

theorem C17_listing_unreadable (w : World) (s : Config) (op : Op) (doc : Y) (hdoc : op.doc = .ok doc)
    (rx : Rx) (hrx : (compileRule doc op.macroDocs s).2 = .ok rx) (hk : op.kind = .assembly) (e : Err)
    (h : w.readFile op.path = .error e) : (runOp w s op).2 = .error e := by
  unfold runOp; simp only [hdoc, hk, hrx, bind, Except.bind, h]

theorem C17_disassembler_fails (w : World) (s : Config) (op : Op) (doc : Y) (hdoc : op.doc = .ok doc)
    (rx : Rx) (hrx : (compileRule doc op.macroDocs s).2 = .ok rx) (hk : op.kind = .binary) (e : Err)
    (h : ∀ args, w.objdump args op.path = .error e) : (runOp w s op).2 = .error e := by
  unfold runOp; simp only [hdoc, hk, hrx, bind, Except.bind, h]

/-- a rule that does not compile never yields a verdict -/
theorem C17_compile_error_propagates (w : World) (s : Config) (op : Op) (doc : Y) (hdoc : op.doc = .ok doc) (e : Err)
    (h : (compileRule doc op.macroDocs s).2 = .error e) : (runOp w s op).2 = .error e := by
  unfold runOp; simp only [hdoc, h, bind, Except.bind]

/-- a listing the parser rejects never yields a verdict -/
theorem C17_parse_error_propagates (w : World) (s : Config) (op : Op) (doc : Y) (hdoc : op.doc = .ok doc)
    (rx : Rx) (hrx : (compileRule doc op.macroDocs s).2 = .ok rx) (hk : op.kind = .assembly) (text : Str)
    (ht : w.readFile op.path = .ok text) (e : Err) (h : parseListing text = .error e) :
    (runOp w s op).2 = .error e := by
  unfold runOp; simp only [hdoc, hk, hrx, bind, Except.bind, ht, h]

/-! ## missing or wrongly-typed `pattern` / `config` entries -/

theorem C17_doc_not_a_mapping (doc : Y) (mds : List (M Y)) (s : Config) (h : ∀ d, doc ≠ .dict d) :
    isError (compileRule doc mds s).2 := by
  unfold compileRule
  cases doc with
  | dict d => exact absurd rfl (h d)
  | _ => exact ⟨_, rfl⟩

theorem C17_config_not_a_mapping (cfg : Y) (s : Config) (h : ∀ d, cfg ≠ .dict d) : isError (loadConfig cfg s).2 := by
  unfold loadConfig
  cases cfg with
  | dict d => exact absurd rfl (h d)
  | _ => exact ⟨_, rfl⟩

theorem C17_flag_not_boolean (d : List (Y × Y)) (key : String) (v : Y) (hv : dictGet d key = some v)
    (hnb : ∀ b, v ≠ .bool b) : isError (boolOpt d key) := by
  unfold boolOpt
  rw [hv]
  cases v with
  | bool b => exact absurd rfl (hnb b)
  | _ => exact ⟨_, rfl⟩

theorem C17_sections_not_a_list (d : List (Y × Y)) (v : Y) (hv : dictGet d "sections" = some v) (hnl : ∀ l, v ≠ .list l) :
    isError (cfgSections d) := by
  unfold cfgSections
  rw [hv]
  cases v with
  | list l => exact absurd rfl (hnl l)
  | _ => exact ⟨_, rfl⟩

theorem getTimes_str_body (s : Str) :
    getTimes [(.str "$and".toList, .str s)] = .ok Times.one ∨ isError (getTimes [(.str "$and".toList, .str s)]) := by
  have hhas : dictHas [(Y.str "$and".toList, Y.str s)] "times" = false := by
    simp [dictHas, dictGet, List.find?]
  unfold getTimes
  simp only [hhas, Bool.false_eq_true, if_false]
  by_cases h : isInfix "times".toList s = true
  · right; simp only [h, if_true, bind, Except.bind, fail]; exact ⟨_, rfl⟩
  · left; simp only [h, if_false, bind, Except.bind, pure, Except.pure]; rfl

/-- a missing `pattern` (the key is absent: `None`), or one that is a scalar, cannot be compiled -/
theorem C17_pattern_missing_or_scalar (fl : Flags) (p : Y) (h : (∀ l, p ≠ .list l) ∧ (∀ d, p ≠ .dict d)) :
    isError (compileTree fl (topTree p)) := by
  unfold compileTree typeTree topTree
  cases p with
  | list l => exact absurd rfl (h.1 l)
  | dict d => exact absurd rfl (h.2 d)
  | str s =>
    simp only [build, nameOf, Y.scalarStr, bind, Except.bind, pure, Except.pure]
    rcases getTimes_str_body s with h1 | ⟨msg, h1⟩
    · rw [h1]; exact ⟨_, rfl⟩
    · rw [h1]; exact ⟨_, rfl⟩
  | int n => exact ⟨_, rfl⟩
  | bool b => exact ⟨_, rfl⟩
  | null => exact ⟨_, rfl⟩
  | float f => exact ⟨_, rfl⟩

/-! ## structural faults of the pattern -/

/-- an empty `$and` / `$or` / `$and_any_order` group is rejected, in every chain and context -/
theorem C17_empty_group (ch : Chain) (cx : Ctx) (name : Str) (t : Times) (caps : List Str)
    (hname : name = "$and".toList ∨ name = "$or".toList ∨ name = "$and_any_order".toList) :
    isError (typ ch cx (.mk name t []) caps) := by
  rcases hname with rfl | rfl | rfl <;> cases ch <;> exact ⟨_, by simp [typ, fail, isSpecialReg, isCapture, specialPrefixes]; rfl⟩

/-- `$not` needs exactly one argument -/
theorem C17_not_arity (ch : Chain) (cx : Ctx) (t : Times) (kids : List Node) (caps : List Str) (h : kids.length ≠ 1) :
    isError (typ ch cx (.mk "$not".toList t kids) caps) := by
  match kids, h with
  | [], _ => cases ch <;> exact ⟨_, by simp [typ, fail, isSpecialReg, isCapture, specialPrefixes]; rfl⟩
  | [_], h => simp at h
  | _ :: _ :: _, _ => cases ch <;> exact ⟨_, by simp [typ, fail, isSpecialReg, isCapture, specialPrefixes]; rfl⟩

/-- `$deref` without `main_reg` is rejected when the regex is built -/
theorem C17_deref_without_main_reg (fl : Flags) (caps : List Str) (fields : List Pat) (t : Times) (fs : List (Str × Rx))
    (hfs : compFields fl caps fields [] = .ok fs)
    (hno : fs.find? (fun f => f.1 == "main_reg".toList) = none) :
    isError (comp fl caps (.deref fields t)) := by
  simp only [comp, hfs, bind, Except.bind, hno, Option.map_none]
  exact ⟨_, rfl⟩

/-- negative repetition counts are rejected (integer form) -/
theorem C17_negative_times (name body : Y) (n : Int) (hn : n < 0) (rest : List (Y × Y))
    (hget : dictGet ((name, body) :: rest) "times" = some (.int n)) :
    isError (getTimes ((name, body) :: rest)) := by
  unfold getTimes
  have hhas : dictHas ((name, body) :: rest) "times" = true := by simp [dictHas, hget]
  simp only [hhas, if_true, hget, pure, Except.pure, bind, Except.bind, hn]
  exact ⟨_, rfl⟩

/-- negative or inverted `{min, max}` bounds are rejected -/
theorem C17_inverted_times (name body : Y) (t : List (Y × Y)) (lo hi : Int) (rest : List (Y × Y))
    (hget : dictGet ((name, body) :: rest) "times" = some (.dict t))
    (hlo : dictGet t "min" = some (.int lo)) (hhi : dictGet t "max" = some (.int hi)) (hbad : lo < 0 ∨ hi < lo) :
    isError (getTimes ((name, body) :: rest)) := by
  unfold getTimes
  have hhas : dictHas ((name, body) :: rest) "times" = true := by simp [dictHas, hget]
  simp only [hhas, if_true, hget, pure, Except.pure, bind, Except.bind, hlo, hhi, intBound]
  have : (decide (lo < 0) || decide (hi < lo)) = true := by
    rcases hbad with h | h <;> simp [h]
  simp only [this, if_true]
  exact ⟨_, rfl⟩

/-- an undefined macro is reported (C19 gives the full statement) -/
theorem C17_undefined_macro (macros : List Y) (tree : Y) (ms : List Macro) (t : Y) (set : List Str)
    (hms : macros.mapM macroOfY = .ok ms) (hnames : ms.any (fun m => !isMacroName m.name) = false)
    (hp : resolvePasses ms tree [] = .ok (t, set)) (hleft : findMacroNames t ≠ []) :
    isError (resolveAllMacros macros tree) := by
  unfold resolveAllMacros
  simp only [hms, bind, Except.bind, hnames, Bool.false_eq_true, if_false, hp]
  have hne : (!(set ++ findMacroNames t).isEmpty) = true := by
    cases hs : set ++ findMacroNames t with
    | nil => exact absurd (List.append_eq_nil_iff.mp hs).2 hleft
    | cons _ _ => rfl
  simp only [hne, if_true]
  exact ⟨_, rfl⟩

/-- concrete instances (tests, labelled as such) -/
example : isError (compileTree ⟨false, false⟩ (topTree (.list [.dict [(.str "$or".toList, .list [])]]))) := ⟨_, rfl⟩
example : isError (compileTree ⟨false, false⟩ (topTree (.list [.dict [(.str "$not".toList, .list [.str "a".toList, .str "b".toList])]]))) := ⟨_, rfl⟩
example : isError (compileTree ⟨false, false⟩ (topTree (.list [.dict [(.str "mov".toList, .list [.dict [(.str "$deref".toList, .dict [(.str "constant_offset".toList, .int 8)])]])]]))) := ⟨_, rfl⟩
example : isError (compileTree ⟨false, false⟩ (topTree (.list [.dict [(.str "mov".toList, .dict [(.str "times".toList, .int (-1))])]]))) := ⟨_, rfl⟩

end Jasm.C17

import Jasm.Proofs.FrontEnd
/-!
# C01, whole operation: from the rule file and the listing file to the verdict

`runOp` is the model of `MasterOfPuppets(match_config).perform_matching()`: it loads the rule
document (configuration singleton, macros, YAML front end, typing, compilation), reads the listing,
parses it, builds the stream and searches.  For a rule file `config: {…-full-match: …}` /
`pattern: [mnem: [op, …], …]` of literal items and a listing file holding a listing of the objdump
grammar, the Boolean result is `true` exactly when the listing's instructions contain a window at
which every item holds.  Every stage of the model sits between the two sides of this statement.
-/
namespace Jasm.C01
open Jasm Jasm.FrontEnd

theorem reported_first_bool (r : Rx) (addrOnly : Bool) (stream : Str) :
    (runObserver (reported r .first addrOnly stream)).matched = (search r stream).isSome := by
  unfold reported
  cases hs : search r stream with
  | none => cases addrOnly <;> simp [runObserver]
  | some x =>
    obtain ⟨k, m, rest⟩ := x
    cases addrOnly <;> simp [runObserver, Observer.regexMatched]

/-- **C01 (whole operation)** -/
theorem C01_pipeline (fl : Flags) (items : List Item) (hne : items ≠ [])
    (hfront : ∀ it ∈ items, FrontOK it) (hlit : ∀ it ∈ items, it.Literal)
    (ls : List LineSpec) (hls : ls ≠ []) (hwf : ∀ l ∈ ls, C08.LineSpec.WF l) (hA : OkA (expectedInsts ls))
    (w : World) (path : Str) (hread : w.readFile path = .ok (renderListing ls))
    (s : Config) (addrOnly : Bool) :
    ∃ b, (runOp w s ⟨.ok (ruleDoc fl items), [], .assembly, path, .first, addrOnly, .bool⟩).2 = .ok (.bool b) ∧
      (b = true ↔ ∃ n, windowAt fl items (expectedInsts ls) n) := by
  have hstream := C08.C08_stream ls hls hwf
  obtain ⟨insts, hparse, hproc⟩ := bind_ok.mp hstream
  refine ⟨(search (ruleRx fl items) (encAll (expectedInsts ls))).isSome, ?_, ?_⟩
  · simp only [runOp, compileRule_ruleDoc fl items hne hfront hlit s, hread, bind, Except.bind, hparse,
      matchInsts, cfgAfter, Option.getD, hproc, pure, Except.pure, resultOf, reported_first_bool]
  · exact C01 fl [] items hne hlit (ruleRx fl items) (comp_rule fl [] items hlit) _ hA

/-- non-vacuity: the items of the C01 example satisfy the front-end and literal side conditions -/
example : FrontOK ⟨"mov".toList, ["%rsp".toList]⟩ ∧ Item.Literal ⟨"mov".toList, ["%rsp".toList]⟩ := by
  refine ⟨⟨⟨by decide, by decide, by decide⟩, ?_⟩, by decide, ?_⟩
  · intro o ho
    simp only [List.mem_cons, List.not_mem_nil, or_false] at ho
    subst ho
    exact ⟨by decide, by decide, by decide⟩
  · intro o ho
    simp only [List.mem_cons, List.not_mem_nil, or_false] at ho
    subst ho
    exact ⟨by decide, by decide⟩

end Jasm.C01

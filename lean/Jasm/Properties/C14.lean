import Jasm.Model.Pipeline
/-!
# C14 Results depend only on the current inputs, never on earlier runs in the process

The only process state of the model is the `JASMConfig` singleton (`Config`, five keys).
`load_config` writes every key that a later step reads, so the result of a complete operation does
not depend on the state it starts from - hence not on any history of earlier operations.
-/
namespace Jasm.C14
open Jasm

/-- the outcome of `load_config` does not depend on the previous state -/
theorem loadConfig_outcome (cfg : Y) (s s' : Config) : (loadConfig cfg s).2 = (loadConfig cfg s').2 := by
  unfold loadConfig
  cases cfg <;> try rfl
  rename_i d
  simp only
  cases cfgFlags d with
  | error e => rfl
  | ok mo =>
    obtain ⟨m, o⟩ := mo
    simp only
    cases cfgRange d with
    | error e => rfl
    | ok r =>
      simp only
      cases cfgSections d <;> rfl

/-- a successful `load_config` leaves a state that does not depend on the previous one:
all five keys have been overwritten -/
theorem loadConfig_state (cfg : Y) (s s' : Config) (h : (loadConfig cfg s).2 = .ok ()) :
    (loadConfig cfg s).1 = (loadConfig cfg s').1 := by
  unfold loadConfig at h ⊢
  cases cfg <;> try (simp [fail] at h)
  rename_i d
  simp only at h ⊢
  cases hf : cfgFlags d with
  | error e => simp [hf] at h
  | ok mo =>
    obtain ⟨m, o⟩ := mo
    simp only [hf] at h ⊢
    cases hr : cfgRange d with
    | error e => simp [hr] at h
    | ok r =>
      simp only [hr] at h ⊢
      cases hs : cfgSections d with
      | error e => simp [hs] at h
      | ok ss => rfl

/-- compiling a rule: same outcome from any two states -/
theorem compileRule_outcome (doc : Y) (mds : List (M Y)) (s s' : Config) :
    (compileRule doc mds s).2 = (compileRule doc mds s').2 := by
  unfold compileRule
  cases doc with
  | dict d =>
    simp only
    have h1 := loadConfig_outcome ((dictGet d "config").getD (.dict [])) s s'
    cases hr : (loadConfig ((dictGet d "config").getD (.dict [])) s).2 with
    | error e =>
      have hr' := h1 ▸ hr
      simp [hr, hr']
    | ok u =>
      have hr' := h1 ▸ hr
      have h2 := loadConfig_state ((dictGet d "config").getD (.dict [])) s s' hr
      simp [hr, hr', h2]
  | _ => rfl

/-- when compiling succeeds, the state afterwards is the same from any two states -/
theorem compileRule_state (doc : Y) (mds : List (M Y)) (s s' : Config) (rx : Rx)
    (h : (compileRule doc mds s).2 = .ok rx) : (compileRule doc mds s).1 = (compileRule doc mds s').1 := by
  unfold compileRule at h ⊢
  cases doc with
  | dict d =>
    simp only at h ⊢
    have h1 := loadConfig_outcome ((dictGet d "config").getD (.dict [])) s s'
    cases hr : (loadConfig ((dictGet d "config").getD (.dict [])) s).2 with
    | error e => simp [hr] at h
    | ok u =>
      have hr' := h1 ▸ hr
      have h2 := loadConfig_state ((dictGet d "config").getD (.dict [])) s s' hr
      simp [hr, hr', h2]
  | _ => simp [fail] at h

/-- **one step**: the result of a complete compile-and-match operation is the same from any two
singleton states -/
theorem C14_step (w : World) (op : Op) (s s' : Config) : (runOp w s op).2 = (runOp w s' op).2 := by
  unfold runOp
  cases hd : op.doc with
  | error e => rfl
  | ok doc =>
    simp only
    have h1 := compileRule_outcome doc op.macroDocs s s'
    cases hr : (compileRule doc op.macroDocs s).2 with
    | error e =>
      have hr' := h1 ▸ hr
      simp [hr, hr']
      rfl
    | ok rx =>
      have hr' := h1 ▸ hr
      have h2 := compileRule_state doc op.macroDocs s s' rx hr
      simp [hr, hr', h2]

/-- **C14**: after any history of operations (successful or failing), an operation gives the result
it gives when performed first in a fresh process -/
theorem C14 (w : World) (history : List Op) (op : Op) :
    (runOp w (history.foldl (fun s o => (runOp w s o).1) {}) op).2 = (runOp w {} op).2 :=
  C14_step w op _ _

/-- repeating an operation gives the same result -/
theorem C14_idempotent (w : World) (op : Op) (s : Config) :
    (runOp w (runOp w s op).1 op).2 = (runOp w s op).2 := C14_step w op _ _

/-- non-vacuity: a history that really changes every key of the singleton -/
example :
    (loadConfig (.dict [(.str "mnemonics-full-match".toList, .bool true),
                        (.str "sections".toList, .list [.str ".text".toList])]) {}).1
      = { mnemFull := some true, opsFull := some false, style := some .att, range := some none,
          sections := some [".text".toList] } := by decide

end Jasm.C14

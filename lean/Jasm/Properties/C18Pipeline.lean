import Jasm.Properties.C18
import Jasm.Model.Pipeline
/-!
# C18 at the level of the whole listing and the whole operation

`tagSpec` is the property's rule as a total function on one instruction; `C18_listing` says that the
observer chain of the consumer computes exactly `map tagSpec` over the instructions of the listing
(minus the byte-padding pseudo instructions), provided every direct branch target is a hexadecimal
number - which is what objdump prints; `C18_pipeline` carries it through `runOp`: the configuration
entry `valid_addr_range: {min, max}` of the rule document, read as hexadecimal with or without `0x`,
is the range used, and a document without the entry rewrites nothing.
-/
namespace Jasm.C18
open Jasm

/-- the property's rule for one instruction: a direct call/jump whose target lies in the range gets
the single operand `valid_addr`; everything else is left alone -/
def tagSpec (rng : AddrRange) (i : Inst) : Inst :=
  match i.ops with
  | [] => i
  | op0 :: _ =>
    if jumpMnemonics.contains i.mnem && !op0.contains '*' then
      match hexVal op0 with
      | .ok v => if rng.min ≤ v ∧ v ≤ rng.max then ⟨i.addr, i.mnem, [validAddr]⟩ else i
      | .error _ => i
    else i

/-- what objdump prints: the first operand of a direct call/jump is a hexadecimal number -/
def DirectTargetsHex (L : List Inst) : Prop :=
  ∀ i ∈ L, ∀ op0 rest, i.ops = op0 :: rest → jumpMnemonics.contains i.mnem = true → op0.contains '*' = false →
    ∃ v, hexVal op0 = .ok v

def notPadding (i : Inst) : Bool := !(i.mnem == "empty".toList)

theorem observe_eq_tagSpec (rng : AddrRange) (i : Inst)
    (h : ∀ op0 rest, i.ops = op0 :: rest → jumpMnemonics.contains i.mnem = true → op0.contains '*' = false →
      ∃ v, hexVal op0 = .ok v) :
    observeValidAddr rng i = .ok (tagSpec rng i) := by
  unfold observeValidAddr tagSpec
  cases hops : i.ops with
  | nil => rfl
  | cons op0 rest =>
    simp only [List.contains_iff_mem, Bool.and_eq_true, Bool.not_eq_true', decide_eq_true_eq]
    by_cases hj : i.mnem ∈ jumpMnemonics
    · by_cases hs : '*' ∈ op0
      · have : ¬ (decide ('*' ∈ op0) = false) := by simp [hs]
        simp [hj, hs, pure, Except.pure]
      · obtain ⟨v, hv⟩ := h op0 rest hops (by simpa using hj) (by simpa using hs)
        have hs2 : op0.contains '*' = false := by simpa using hs
        simp only [hj, hs, if_true, if_false, hv, bind, Except.bind, pure, Except.pure, hs2, and_self]
        split <;> rfl
    · simp [hj, pure, Except.pure]

/-- **C18 (whole listing)**: with the option set, the instructions that reach the stream are the
listing's instructions, in order, each rewritten by the property's rule - nothing else changes -/
theorem C18_listing (rng : AddrRange) (L : List Inst) (h : DirectTargetsHex L) :
    processAll (some rng) L = .ok ((L.filter notPadding).map (tagSpec rng)) := by
  induction L with
  | nil => rfl
  | cons i is ih =>
    have hi := observe_eq_tagSpec rng i (h i (by simp))
    have ih' := ih (fun j hj => h j (by simp [hj]))
    simp only [processAll, ih', bind, Except.bind, processInst, observeRemoveEmpty]
    by_cases he : i.mnem = "empty".toList
    · have he2 : i.mnem = ['e', 'm', 'p', 't', 'y'] := he
      simp [List.filter_cons, notPadding, he2, pure, Except.pure]
    · have he2 : ¬ i.mnem = ['e', 'm', 'p', 't', 'y'] := he
      simp [List.filter_cons, notPadding, he2, hi, pure, Except.pure]

/-- the range the rule document asks for: `valid_addr_range: {min: lo, max: hi}`, both strings,
read as hexadecimal numbers (with or without `0x`: `hexVal_0x`) -/
theorem C18_range_read (c r : List (Y × Y)) (lo hi : Str) (a b : Nat)
    (hk : dictGet c "valid_addr_range" = some (.dict r)) (hne : r ≠ [])
    (hlo : dictGet r "min" = some (.str lo)) (hhi : dictGet r "max" = some (.str hi))
    (ha : hexVal lo = .ok a) (hb : hexVal hi = .ok b) : cfgRange c = .ok (some ⟨a, b⟩) := by
  have ht : truthy (.dict r) = true := by cases r <;> simp_all [truthy]
  simp [cfgRange, hk, ht, hlo, hhi, ha, hb, bind, Except.bind, pure, Except.pure]

theorem C18_range_absent (c : List (Y × Y)) (hk : dictGet c "valid_addr_range" = none) : cfgRange c = .ok none := by
  simp [cfgRange, hk, pure, Except.pure]

/-- a successful `load_config` leaves exactly the document's range in the singleton, whatever was there -/
theorem C18_range_loaded (c : List (Y × Y)) (s s' : Config) (h : loadConfig (.dict c) s = (s', .ok ())) :
    ∃ r, cfgRange c = .ok r ∧ s'.range = some r := by
  unfold loadConfig at h
  simp only at h
  split at h
  · simp at h
  · split at h
    · simp at h
    · rename_i r hr
      split at h
      · simp at h
      · simp only [Prod.mk.injEq, and_true] at h
        subst h
        exact ⟨r, hr, rfl⟩

/-- **C18 (whole operation)**: for any rule document whose configuration loads, any macro files, any
mode: the operation's result is the result of matching the compiled rule against the stream of the
listing's instructions rewritten by `tagSpec` with the document's range - or not rewritten at all when
the document has no range -/
theorem C18_pipeline (w : World) (s : Config) (op : Op) (d c : List (Y × Y)) (rx : Rx) (text : Str) (L : List Inst)
    (hdoc : op.doc = .ok (.dict d)) (hc : (dictGet d "config").getD (.dict []) = .dict c)
    (s' : Config) (hload : loadConfig (.dict c) s = (s', .ok ()))
    (hrx : (compileRule (.dict d) op.macroDocs s).2 = .ok rx)
    (hk : op.kind = .assembly) (hread : w.readFile op.path = .ok text) (hparse : parseListing text = .ok L)
    (hhex : DirectTargetsHex L) :
    ∃ r, cfgRange c = .ok r ∧
      (runOp w s op).2 = .ok (let kept := match r with
                                | some rng => (L.filter notPadding).map (tagSpec rng)
                                | none => L.filter notPadding
                              resultOf op.ret (encAll kept) (runObserver (reported rx op.mode op.addrOnly (encAll kept)))) := by
  obtain ⟨r, hr, hs'⟩ := C18_range_loaded c s s' hload
  refine ⟨r, hr, ?_⟩
  have hst : (compileRule (.dict d) op.macroDocs s).1 = s' := by
    unfold compileRule
    simp only [hc, hload]
  unfold runOp
  simp only [hdoc]
  have hsplit : compileRule (.dict d) op.macroDocs s = (s', .ok rx) := by
    rw [← hst, ← hrx]
  simp only [hsplit, hk, hread, hparse, bind, Except.bind, hs', Option.getD_some, matchInsts]
  cases r with
  | none =>
    have := C18_no_option L
    simp only [this, pure, Except.pure]
    rfl
  | some rng =>
    simp only [C18_listing rng L hhex, pure, Except.pure]

/-- non-vacuity (tests): a listing whose call lands on the upper bound, written without `0x` -/
example : tagSpec ⟨0x401000, 0x401050⟩ ⟨"4".toList, "call".toList, ["401050".toList]⟩
    = ⟨"4".toList, "call".toList, [validAddr]⟩ := by decide
example : tagSpec ⟨0x401000, 0x401050⟩ ⟨"4".toList, "call".toList, ["*0x401050".toList]⟩
    = ⟨"4".toList, "call".toList, ["*0x401050".toList]⟩ := by decide
example : tagSpec ⟨0x401000, 0x401050⟩ ⟨"4".toList, "mov".toList, ["401050".toList]⟩
    = ⟨"4".toList, "mov".toList, ["401050".toList]⟩ := by decide

end Jasm.C18

import Jasm.Spec.Objdump
/-!
# C09 Operands reach patterns in a fixed normal form

On the model of `OperandsParser` / `get_splitted_operands` (`Jasm/Model/Parser.lean`), for the AT&T
operand forms of the property (`Jasm/Spec/Objdump.lean`: `Operand`, `print`, `normalForm`).
`Plain s`: the component contains none of `( ) ,`.
-/
namespace Jasm.C09
open Jasm

def Plain (s : Str) : Prop := ∀ c ∈ s, c ≠ '(' ∧ c ≠ ')' ∧ c ≠ ','

instance (s : Str) : Decidable (Plain s) := by unfold Plain; infer_instance

/-- hypotheses on the components of one operand -/
def Operand.WF : Operand → Prop
  | .imm v => Plain v
  | .reg r => Plain r
  | .target h => Plain h ∧ h ≠ [] ∧ h.head? ≠ some '$' ∧ h.head? ≠ some '%' ∧ h ≠ ['*']
  | .star r => Plain r
  | .mem k a bc => Plain k ∧ (∀ x, a = some x → Plain x) ∧ (∀ b c, bc = some (b, c) → Plain b ∧ Plain c) ∧
      k.head? ≠ some '$' ∧ k.head? ≠ some '%'

theorem plain_no (s : Str) (h : Plain s) : '(' ∉ s ∧ ')' ∉ s ∧ ',' ∉ s :=
  ⟨fun m => (h _ m).1 rfl, fun m => (h _ m).2.1 rfl, fun m => (h _ m).2.2 rfl⟩

/-- immediates `$v` reach patterns as `v` -/
theorem C09_imm (v : Str) (h : Plain v) : processOperand (Operand.print (.imm v)) = .ok (Operand.normalForm (.imm v)) := by
  obtain ⟨h1, h2, h3⟩ := plain_no v h
  simp [processOperand, Operand.print, Operand.normalForm, h1, h2, h3, pure, Except.pure]

/-- registers are unchanged (`%r`) -/
theorem C09_reg (r : Str) (h : Plain r) : processOperand (Operand.print (.reg r)) = .ok (Operand.normalForm (.reg r)) := by
  obtain ⟨h1, h2, h3⟩ := plain_no r h
  simp [processOperand, Operand.print, Operand.normalForm, h1, h2, h3, pure, Except.pure]

/-- indirect register operands `*%r` are kept verbatim -/
theorem C09_star (r : Str) (h : Plain r) : processOperand (Operand.print (.star r)) = .ok (Operand.normalForm (.star r)) := by
  obtain ⟨h1, h2, h3⟩ := plain_no r h
  simp [processOperand, Operand.print, Operand.normalForm, h1, h2, h3, pure, Except.pure]

/-- direct branch / call targets: the bare hexadecimal address -/
theorem C09_target (hx : Str) (h : Operand.WF (.target hx)) :
    processOperand (Operand.print (.target hx)) = .ok (Operand.normalForm (.target hx)) := by
  obtain ⟨hp, hne, hd, hpc, hstar⟩ := h
  obtain ⟨h1, h2, h3⟩ := plain_no hx hp
  cases hx with
  | nil => exact absurd rfl hne
  | cons c t =>
    have hc1 : c ≠ '(' := (hp c (by simp)).1
    have hd' : c ≠ '$' := by intro e; apply hd; simp [e]
    have hp' : c ≠ '%' := by intro e; apply hpc; simp [e]
    have h1' : '(' ∉ t := fun m => h1 (by simp [m])
    have h2' : ')' ∉ t := fun m => h2 (by simp [m])
    have hc2 : c ≠ ')' := (hp c (by simp)).2.1
    simp only [processOperand, Operand.print, Operand.normalForm]
    simp [hc1, hc2, hd', hp', h1', h2', Ne.symm hc1, Ne.symm hc2, pure, Except.pure]

/-! ## memory references -/

theorem getLast_concat' (x : Char) (s : Str) (c : Char) : (x :: (s ++ [c])).getLast? = some c := by
  induction s generalizing x with
  | nil => rfl
  | cons y ys ih => simpa [List.getLast?_cons_cons] using ih y

theorem isPrefixOf_refl' (l : Str) : l.isPrefixOf l = true := by
  induction l with
  | nil => rfl
  | cons x xs ih => simp [List.isPrefixOf, ih]

theorem isPrefixOf_append' (l r : Str) : l.isPrefixOf (l ++ r) = true := by
  induction l with
  | nil => simp [List.isPrefixOf]
  | cons x xs ih => simp [List.isPrefixOf, ih]

theorem splitP_no_sep (c : Char) (a : Str) (h : c ∉ a) : processOperand.splitOnCharP c a = [a] := by
  induction a with
  | nil => rfl
  | cons x xs ih =>
    have hx : x ≠ c := fun e => h (by simp [e])
    have hxs : c ∉ xs := fun m => h (by simp [m])
    simp [processOperand.splitOnCharP, hx, ih hxs]

theorem splitP_append_sep (c : Char) (a b : Str) (h : c ∉ a) :
    processOperand.splitOnCharP c (a ++ c :: b) = a :: processOperand.splitOnCharP c b := by
  induction a with
  | nil => simp [processOperand.splitOnCharP]
  | cons x xs ih =>
    have hx : x ≠ c := fun e => h (by simp [e])
    have hxs : c ∉ xs := fun m => h (by simp [m])
    simp [processOperand.splitOnCharP, hx, ih hxs]

theorem removeChar_none (c : Char) (s : Str) (h : c ∉ s) : removeChar c s = s := by
  induction s with
  | nil => rfl
  | cons x xs ih =>
    have hx : x ≠ c := fun e => h (by simp [e])
    simp [removeChar, List.filter_cons, hx] at ih ⊢
    exact ih (fun m => h (by simp [m]))

theorem removeChar_cons_self (c : Char) (s : Str) : removeChar c (c :: s) = removeChar c s := by
  simp [removeChar, List.filter_cons]

theorem removeChar_concat_self (c : Char) (s : Str) (h : c ∉ s) : removeChar c (s ++ [c]) = s := by
  have := removeChar_none c s h
  simp only [removeChar] at this ⊢
  simp [List.filter_append, this, List.filter_cons]

theorem spanP_to_close (inner rest : Str) (hi : ')' ∉ inner) :
    spanP (fun c => c != ')') (inner ++ ')' :: rest) = (inner, ')' :: rest) := by
  induction inner with
  | nil => simp [spanP]
  | cons x xs ih =>
    have hx : x ≠ ')' := fun e => hi (by simp [e])
    simp [spanP, hx, ih (fun m => hi (by simp [m]))]

theorem findParen_plain (k inner : Str) (hk : '(' ∉ k) (hi : ')' ∉ inner) :
    findParen (k ++ '(' :: (inner ++ [')'])) = some (k, '(' :: (inner ++ [')']), []) := by
  induction k with
  | nil => simp [findParen, spanP_to_close inner [] hi]
  | cons x xs ih =>
    have hx : x ≠ '(' := fun e => hk (by simp [e])
    have := ih (fun m => hk (by simp [m]))
    simp only [List.cons_append]
    rw [findParen.eq_def]
    split
    · rename_i heq; cases heq
    · rename_i heq; simp at heq; exact absurd heq.1 hx
    · rename_i c t' _ heq
      simp at heq
      obtain ⟨rfl, rfl⟩ := heq
      simp [this]

theorem removeAll_suffix (reg k : Str) (fuel : Nat) (hreg : reg.head? = some '(') (hk : '(' ∉ k)
    (hf : k.length < fuel) : removeAll reg fuel (k ++ reg) = k := by
  induction k generalizing fuel with
  | nil =>
    cases fuel with
    | zero => simp at hf
    | succ f =>
      cases reg with
      | nil => simp at hreg
      | cons r0 rs =>
        simp only [List.nil_append, removeAll, isPrefixOf_refl', if_true, List.drop_length]
        cases f <;> simp [removeAll]
  | cons x xs ih =>
    cases fuel with
    | zero => simp at hf
    | succ f =>
      have hx : x ≠ '(' := fun e => hk (by simp [e])
      have hnp : reg.isPrefixOf (x :: (xs ++ reg)) = false := by
        cases reg with
        | nil => simp at hreg
        | cons r0 rs =>
          simp at hreg; subst hreg
          simp [List.isPrefixOf, Ne.symm hx]
      simp only [List.cons_append, removeAll, hnp, Bool.false_eq_true, if_false, List.cons.injEq, true_and]
      exact ih f (fun m => hk (by simp [m])) (by simp at hf; omega)

/-- `(a)` reaches patterns as `[a]` -/
theorem C09_mem_a (a : Str) (ha : Plain a) :
    processOperand (Operand.print (.mem [] (some a) none)) = .ok (Operand.normalForm (.mem [] (some a) none)) := by
  obtain ⟨h1, h2, h3⟩ := plain_no a ha
  have hl := getLast_concat' '(' a ')'
  simp only [processOperand, Operand.print, Operand.normalForm, Option.getD_some, List.nil_append, List.append_nil,
    List.cons_append, List.head?_cons, hl, List.isEmpty_nil, if_true]
  simp [h3, pure, Except.pure, List.dropLast_concat]

/-- `(a,b,c)` reaches patterns as `[a+b*c]`; `(,b,c)` as `[+b*c]` -/
theorem C09_mem_abc (a : Option Str) (b c : Str) (ha : ∀ x, a = some x → Plain x) (hb : Plain b) (hc : Plain c) :
    processOperand (Operand.print (.mem [] a (some (b, c)))) = .ok (Operand.normalForm (.mem [] a (some (b, c)))) := by
  have hA : Plain (a.getD []) := by
    cases a with
    | none => intro c hc; simp at hc
    | some x => exact ha x rfl
  obtain ⟨a1, a2, a3⟩ := plain_no _ hA
  obtain ⟨b1, b2, b3⟩ := plain_no b hb
  obtain ⟨c1, c2, c3⟩ := plain_no c hc
  have hshape : Operand.print (.mem [] a (some (b, c))) = '(' :: (a.getD [] ++ ',' :: (b ++ ',' :: c) ++ [')']) := by
    simp [Operand.print]
  have hl := getLast_concat' '(' (a.getD [] ++ ',' :: (b ++ ',' :: c)) ')'
  have hsplit : processOperand.splitOnCharP ',' ('(' :: (a.getD [] ++ ',' :: (b ++ ',' :: c) ++ [')']))
      = ['(' :: a.getD [], b, c ++ [')']] := by
    have e1 : '(' :: (a.getD [] ++ ',' :: (b ++ ',' :: c) ++ [')']) = ('(' :: a.getD []) ++ ',' :: (b ++ ',' :: (c ++ [')'])) := by simp
    rw [e1, splitP_append_sep ',' _ _ (by simp [a3]), splitP_append_sep ',' _ _ b3, splitP_no_sep ',' _ (by simp [c3])]
  rw [hshape]
  simp only [processOperand, List.head?_cons, hl, Bool.and_self, if_true, hsplit]
  have hcomma : (('(' :: (a.getD [] ++ ',' :: (b ++ ',' :: c) ++ [')'])).contains ',') = true := by
    simp
  simp only [hcomma, if_true, pure, Except.pure, removeChar_cons_self, removeChar_none '(' _ a1,
    removeChar_concat_self ')' c c2, Operand.normalForm, List.isEmpty_nil, if_true]
  simp

/-- `k(a)` reaches patterns as `[a+k]` (displacements of either sign) -/
theorem C09_mem_ka (k a : Str) (hk : Plain k) (hkne : k ≠ []) (ha : Plain a) :
    processOperand (Operand.print (.mem k (some a) none)) = .ok (Operand.normalForm (.mem k (some a) none)) := by
  obtain ⟨k1, k2, k3⟩ := plain_no k hk
  obtain ⟨a1, a2, a3⟩ := plain_no a ha
  cases k with
  | nil => exact absurd rfl hkne
  | cons k0 ks =>
    have hk0 : k0 ≠ '(' := fun e => k1 (by simp [e])
    have hshape : Operand.print (.mem (k0 :: ks) (some a) none) = (k0 :: ks) ++ '(' :: (a ++ [')']) := by
      simp [Operand.print]
    have hfp := findParen_plain (k0 :: ks) a k1 a2
    have hrm := removeAll_suffix ('(' :: (a ++ [')'])) (k0 :: ks) (((k0 :: ks) ++ '(' :: (a ++ [')'])).length + 1) rfl k1 (by simp; omega)
    rw [hshape]
    have hhead : ((k0 :: ks) ++ '(' :: (a ++ [')'])).head? = some k0 := rfl
    have hopen : (((k0 :: ks) ++ '(' :: (a ++ [')'])).contains '(') = true := by simp
    have hclose : (((k0 :: ks) ++ '(' :: (a ++ [')'])).contains ')') = true := by simp
    have hcomma : (((k0 :: ks) ++ '(' :: (a ++ [')'])).contains ',') = false := by
      have h1 : ',' ≠ k0 := fun h => k3 (List.mem_cons.mpr (Or.inl h))
      have h2 : ',' ∉ ks := fun h => k3 (List.mem_cons.mpr (Or.inr h))
      simp [a3, h1, h2]
    simp only [processOperand, hhead, hopen, hclose, hcomma, hfp, hrm, Bool.and_self, if_true, Bool.false_eq_true, if_false,
      pure, Except.pure, Operand.normalForm, Option.getD_some]
    have hne : decide (some k0 = some '(') = false := by simp [hk0]
    simp only [hne, Bool.false_and, Bool.false_eq_true, if_false]
    simp [stripOne, getLast_concat', List.dropLast_concat]

/-- `k(a,b,c)` reaches patterns as `[a+b*c+k]`; `k(,b,c)` as `[+b*c+k]` -/
theorem C09_mem_kabc (k : Str) (a : Option Str) (b c : Str) (hk : Plain k) (hkne : k ≠ [])
    (ha : ∀ x, a = some x → Plain x) (hb : Plain b) (hc : Plain c) :
    processOperand (Operand.print (.mem k a (some (b, c)))) = .ok (Operand.normalForm (.mem k a (some (b, c)))) := by
  have hA : Plain (a.getD []) := by
    cases a with
    | none => intro c hc; simp at hc
    | some x => exact ha x rfl
  obtain ⟨k1, k2, k3⟩ := plain_no k hk
  obtain ⟨a1, a2, a3⟩ := plain_no _ hA
  obtain ⟨b1, b2, b3⟩ := plain_no b hb
  obtain ⟨c1, c2, c3⟩ := plain_no c hc
  cases k with
  | nil => exact absurd rfl hkne
  | cons k0 ks =>
    have hk0 : k0 ≠ '(' := fun e => k1 (by simp [e])
    let inner := a.getD [] ++ ',' :: (b ++ ',' :: c)
    have hinner : ')' ∉ inner := by
      simp only [inner, List.mem_append, List.mem_cons, not_or]
      exact ⟨a2, by decide, b2, by decide, c2⟩
    have hshape : Operand.print (.mem (k0 :: ks) a (some (b, c))) = (k0 :: ks) ++ '(' :: (inner ++ [')']) := by
      simp [Operand.print, inner]
    have hfp := findParen_plain (k0 :: ks) inner k1 hinner
    have hrm := removeAll_suffix ('(' :: (inner ++ [')'])) (k0 :: ks) (((k0 :: ks) ++ '(' :: (inner ++ [')'])).length + 1) rfl k1 (by simp; omega)
    have hsplit : processOperand.splitOnCharP ',' ('(' :: (inner ++ [')'])) = ['(' :: a.getD [], b, c ++ [')']] := by
      have e1 : '(' :: (inner ++ [')']) = ('(' :: a.getD []) ++ ',' :: (b ++ ',' :: (c ++ [')'])) := by simp [inner]
      rw [e1, splitP_append_sep ',' _ _ (by simp [a3]), splitP_append_sep ',' _ _ b3, splitP_no_sep ',' _ (by simp [c3])]
    rw [hshape]
    have hhead : ((k0 :: ks) ++ '(' :: (inner ++ [')'])).head? = some k0 := rfl
    have hopen : (((k0 :: ks) ++ '(' :: (inner ++ [')'])).contains '(') = true := by simp
    have hclose : (((k0 :: ks) ++ '(' :: (inner ++ [')'])).contains ')') = true := by simp
    have hcomma : (((k0 :: ks) ++ '(' :: (inner ++ [')'])).contains ',') = true := by simp [inner]
    simp only [processOperand, hhead, hopen, hclose, hcomma, hfp, hrm, hsplit, Bool.and_self, if_true,
      pure, Except.pure, Operand.normalForm, removeChar_cons_self, removeChar_none '(' _ a1, removeChar_concat_self ')' c c2]
    have hne : decide (some k0 = some '(') = false := by simp [hk0]
    simp only [hne, Bool.false_and, Bool.false_eq_true, if_false]
    simp

/-- **C09 (normal form)**: every operand of the AT&T forms of the property reaches patterns in its
normal form: `$v ↦ v`, `%r ↦ %r`, `k(a,b,c) ↦ [a+b*c+k]`, `(a,b,c) ↦ [a+b*c]`, `k(,b,c) ↦ [+b*c+k]`,
`k(a) ↦ [a+k]`, `(a) ↦ [a]`, direct targets ↦ the bare address -/
theorem C09_normal_form (o : Operand) (h : Operand.WF o)
    (hshape : ∀ k a bc, o = .mem k a bc → (a.isSome ∨ bc.isSome)) :
    processOperand o.print = .ok o.normalForm := by
  cases o with
  | imm v => exact C09_imm v h
  | reg r => exact C09_reg r h
  | target hx => exact C09_target hx h
  | star r => exact C09_star r h
  | mem k a bc =>
    obtain ⟨hk, ha, hbc, _, _⟩ := h
    have hs := hshape k a bc rfl
    cases bc with
    | some p =>
      obtain ⟨b, c⟩ := p
      obtain ⟨hb, hc⟩ := hbc b c rfl
      by_cases hkne : k = []
      · subst hkne; exact C09_mem_abc a b c ha hb hc
      · exact C09_mem_kabc k a b c hk hkne ha hb hc
    | none =>
      cases a with
      | none => simp at hs
      | some x =>
        by_cases hkne : k = []
        · subst hkne; exact C09_mem_a x (ha x rfl)
        · exact C09_mem_ka k x hk hkne (ha x rfl)

/-! ## number and order of the operands: commas inside parentheses never split, others always do -/

theorem splitOperands_ne_nil (s : Str) : splitOperands s ≠ [] := by
  induction s with
  | nil => simp [splitOperands]
  | cons c t ih =>
    by_cases hc : c = ','
    · subst hc
      simp only [splitOperands]
      split
      · split <;> simp
      · simp
    · simp only [splitOperands, hc]
      split <;> simp

/-- a piece of text behaves as an unsplittable block -/
def Block (p : Str) : Prop :=
  ∀ T, ∃ x xs, splitOperands T = x :: xs ∧ splitOperands (p ++ T) = (p ++ x) :: xs

theorem block_nil : Block [] := by
  intro T
  cases h : splitOperands T with
  | nil => exact absurd h (splitOperands_ne_nil T)
  | cons x xs => exact ⟨x, xs, rfl, by simp [h]⟩

theorem block_append {p q : Str} (hp : Block p) (hq : Block q) : Block (p ++ q) := by
  intro T
  obtain ⟨x, xs, h1, h2⟩ := hq T
  obtain ⟨y, ys, h3, h4⟩ := hp (q ++ T)
  rw [h2] at h3
  cases h3
  exact ⟨x, xs, h1, by simp [h4]⟩

theorem block_char (c : Char) (hc : c ≠ ',') : Block [c] := by
  intro T
  cases h : splitOperands T with
  | nil => exact absurd h (splitOperands_ne_nil T)
  | cons x xs => exact ⟨x, xs, rfl, by simp [splitOperands, hc, h]⟩

theorem block_plain (p : Str) (hp : ',' ∉ p) : Block p := by
  induction p with
  | nil => exact block_nil
  | cons c t ih =>
    have : c :: t = [c] ++ t := rfl
    rw [this]
    exact block_append (block_char c (fun e => hp (by simp [e]))) (ih (fun m => hp (by simp [m])))

theorem cbo_plain (p T : Str) (h1 : '(' ∉ p) (h2 : ')' ∉ p) : closesBeforeOpens (p ++ T) = closesBeforeOpens T := by
  induction p with
  | nil => rfl
  | cons c t ih =>
    have hc1 : c ≠ '(' := fun e => h1 (by simp [e])
    have hc2 : c ≠ ')' := fun e => h2 (by simp [e])
    simp only [List.cons_append]
    rw [closesBeforeOpens.eq_def]
    split
    · rename_i heq; cases heq
    · rename_i heq; simp at heq; exact absurd heq.1 hc2
    · rename_i heq; simp at heq; exact absurd heq.1 hc1
    · rename_i c' t' _ _ heq
      simp at heq
      obtain ⟨rfl, rfl⟩ := heq
      exact ih (fun m => h1 (by simp [m])) (fun m => h2 (by simp [m]))

theorem cbo_other (c : Char) (T : Str) (h1 : c ≠ '(') (h2 : c ≠ ')') :
    closesBeforeOpens (c :: T) = closesBeforeOpens T := by
  have := cbo_plain [c] T (by simp [Ne.symm h1]) (by simp [Ne.symm h2])
  simpa using this

/-- a comma that is followed by `)` before any `(` does not split -/
theorem block_inner_comma (q : Str) (h1 : '(' ∉ q) (h2 : ')' ∉ q) (rest : Str) (hrest : Block (q ++ ')' :: rest)) :
    Block (',' :: (q ++ ')' :: rest)) := by
  intro T
  obtain ⟨x, xs, hT, hs⟩ := hrest T
  refine ⟨x, xs, hT, ?_⟩
  have hcbo : closesBeforeOpens ((q ++ ')' :: rest) ++ T) = true := by
    rw [List.append_assoc, cbo_plain q _ h1 h2]
    simp [closesBeforeOpens]
  simp only [List.cons_append, splitOperands, hcbo, if_true]
  rw [hs]

/-- every printed operand of the property's forms is an unsplittable block -/
theorem block_print (o : Operand) (h : Operand.WF o) : Block o.print := by
  cases o with
  | imm v => exact block_plain _ (by intro hm; simp [Operand.print] at hm; exact (plain_no v h).2.2 hm)
  | reg r => exact block_plain _ (by intro hm; simp [Operand.print] at hm; exact (plain_no r h).2.2 hm)
  | target hx => exact block_plain _ (by intro hm; simp [Operand.print] at hm; exact (plain_no hx h.1).2.2 hm)
  | star r => exact block_plain _ (by intro hm; simp [Operand.print] at hm; exact (plain_no r h).2.2 hm)
  | mem k a bc =>
    obtain ⟨hk, ha, hbc, _, _⟩ := h
    have hA : Plain (a.getD []) := by
      cases a with
      | none => intro c hc; simp at hc
      | some x => exact ha x rfl
    obtain ⟨k1, k2, k3⟩ := plain_no k hk
    obtain ⟨a1, a2, a3⟩ := plain_no _ hA
    have hhead : Block (k ++ '(' :: a.getD []) :=
      block_plain _ (by simp only [List.mem_append, List.mem_cons, not_or]; exact ⟨k3, by decide, a3⟩)
    cases bc with
    | none =>
      have : Operand.print (.mem k a none) = (k ++ '(' :: a.getD []) ++ [')'] := by simp [Operand.print]
      rw [this]
      exact block_append hhead (block_char ')' (by decide))
    | some p =>
      obtain ⟨b, c⟩ := p
      obtain ⟨hb, hc⟩ := hbc b c rfl
      obtain ⟨b1, b2, b3⟩ := plain_no b hb
      obtain ⟨c1, c2, c3⟩ := plain_no c hc
      have : Operand.print (.mem k a (some (b, c))) = (k ++ '(' :: a.getD []) ++ (',' :: (b ++ ',' :: (c ++ ')' :: []))) := by
        simp [Operand.print]
      rw [this]
      apply block_append hhead
      -- the tail `,b,c)`
      have hc_blk : Block (c ++ ')' :: []) :=
        block_plain _ (by simp only [List.mem_append, List.mem_cons, List.mem_nil_iff, or_false, not_or]; exact ⟨c3, by decide⟩)
      have h2 : Block (',' :: (c ++ ')' :: [])) := block_inner_comma c c1 c2 [] hc_blk
      have hb_blk : Block (b ++ ',' :: (c ++ ')' :: [])) := block_append (block_plain b b3) h2
      -- the first inner comma is followed by `b,c)`: still `)` before `(`
      intro T
      obtain ⟨x, xs, hT, hs⟩ := hb_blk T
      refine ⟨x, xs, hT, ?_⟩
      have hcbo : closesBeforeOpens ((b ++ ',' :: (c ++ ')' :: [])) ++ T) = true := by
        rw [List.append_assoc, cbo_plain b _ b1 b2]
        simp only [List.cons_append]
        rw [cbo_other ',' _ (by decide) (by decide), List.append_assoc, cbo_plain c _ c1 c2]
        simp [closesBeforeOpens]
      simp only [List.cons_append, splitOperands, hcbo, if_true]
      rw [hs]

/-- a comma between two printed operands always splits: what follows opens before it closes -/
theorem cbo_joined (os : List Operand) (h : ∀ o ∈ os, Operand.WF o) :
    closesBeforeOpens (joinSep [','] (os.map Operand.print)) = false := by
  induction os with
  | nil => rfl
  | cons o rest ih =>
    have hrest := ih (fun x hx => h x (by simp [hx]))
    have hwf := h o (by simp)
    -- shape of the text after `print o`
    have key : ∀ T, closesBeforeOpens T = false → closesBeforeOpens (o.print ++ T) = false := by
      intro T hT
      cases o with
      | imm v =>
        simp only [Operand.print, List.cons_append]
        rw [cbo_other '$' _ (by decide) (by decide)]
        exact (cbo_plain v T (plain_no v hwf).1 (plain_no v hwf).2.1).trans hT
      | reg r =>
        simp only [Operand.print, List.cons_append]
        rw [cbo_other '%' _ (by decide) (by decide)]
        exact (cbo_plain r T (plain_no r hwf).1 (plain_no r hwf).2.1).trans hT
      | target hx => simp only [Operand.print]; exact (cbo_plain hx T (plain_no hx hwf.1).1 (plain_no hx hwf.1).2.1).trans hT
      | star r =>
        simp only [Operand.print, List.cons_append]
        rw [cbo_other '*' _ (by decide) (by decide), cbo_other '%' _ (by decide) (by decide)]
        exact (cbo_plain r T (plain_no r hwf).1 (plain_no r hwf).2.1).trans hT
      | mem k a bc =>
        have hk : Plain k := hwf.1
        have : ∃ R, Operand.print (.mem k a bc) ++ T = k ++ '(' :: R := by
          cases bc with
          | none => exact ⟨a.getD [] ++ ')' :: T, by simp [Operand.print]⟩
          | some p => exact ⟨a.getD [] ++ ',' :: (p.fst ++ ',' :: (p.snd ++ ')' :: T)), by simp [Operand.print]⟩
        obtain ⟨R, hR⟩ := this
        rw [hR, cbo_plain k _ (plain_no k hk).1 (plain_no k hk).2.1]
        simp [closesBeforeOpens]
    cases rest with
    | nil => simpa [joinSep] using key [] rfl
    | cons o2 rest2 =>
      simp only [List.map_cons, joinSep, List.append_assoc, List.singleton_append]
      apply key
      rw [cbo_other ',' _ (by decide) (by decide)]
      simpa [joinSep] using hrest

/-- **C09 (number and order)**: the operand text of an instruction with operands `os` is split into
exactly the printed operands, in order -/
theorem C09_split (os : List Operand) (hne : os ≠ []) (h : ∀ o ∈ os, Operand.WF o) :
    splitOperands (joinSep [','] (os.map Operand.print)) = os.map Operand.print := by
  induction os with
  | nil => exact absurd rfl hne
  | cons o rest ih =>
    cases rest with
    | nil =>
      obtain ⟨x, xs, hT, hs⟩ := block_print o (h o (by simp)) []
      simp only [splitOperands] at hT
      cases hT
      simpa [joinSep] using hs
    | cons o2 rest2 =>
      have ih' := ih (by simp) (fun x hx => h x (by simp [hx]))
      have hcbo := cbo_joined (o2 :: rest2) (fun x hx => h x (by simp [hx]))
      obtain ⟨x, xs, hT, hs⟩ := block_print o (h o (by simp)) (',' :: joinSep [','] ((o2 :: rest2).map Operand.print))
      simp only [splitOperands, hcbo, Bool.false_eq_true, if_false] at hT
      cases hT
      simp only [List.map_cons, joinSep, List.append_assoc, List.singleton_append] at hs ⊢
      rw [hs]
      simp only [List.append_nil, List.cons.injEq, true_and]
      simpa using ih'

/-- **C09**: the parser turns the operand text of an instruction into the normal forms of its
operands - same number, same order -/
theorem C09 (os : List Operand) (hne : os ≠ []) (h : ∀ o ∈ os, Operand.WF o)
    (hshape : ∀ o ∈ os, ∀ k a bc, o = .mem k a bc → (a.isSome ∨ bc.isSome)) :
    processOperands (splitOperands (joinSep [','] (os.map Operand.print))) = .ok (os.map Operand.normalForm) := by
  rw [C09_split os hne h]
  clear hne
  induction os with
  | nil => rfl
  | cons o rest ih =>
    simp only [List.map_cons, processOperands, C09_normal_form o (h o (by simp)) (hshape o (by simp)),
      ih (fun x hx => h x (by simp [hx])) (fun x hx => hshape x (by simp [hx])), bind, Except.bind, pure, Except.pure]

/-- concrete instances (tests): negative displacement, empty base -/
example : processOperand "-0x8(%rbp,%rax,4)".toList = .ok "[%rbp+%rax*4+-0x8]".toList := by decide
example : processOperand "0x1c(,%rcx,4)".toList = .ok "[+%rcx*4+0x1c]".toList := by decide
example : splitOperands "$0x5,-0x10(%rsp,%rax,8),%ecx".toList = ["$0x5".toList, "-0x10(%rsp,%rax,8)".toList, "%ecx".toList] := by decide

end Jasm.C09

import Jasm.Properties.C06
/-!
# C06, the "no other operand" half

`C06_rx` says the compiled `$deref` accepts exactly the texts `derefTexts` lists.  This file says which
*printed memory references* have their normal form in that list: exactly those with the same present
components, each equal up to the optional `%` / `0x` (`Agree`).  The statement needs the pattern to name
index register and scale together, as objdump prints them: a `$deref` with a scale but no index register
compiles to `[a+c]`, which is also the normal form of the displacement-only reference `c(a)` - proved
about the model in `C06_scale_without_index_counterexample` and reproduced on the real code (finding D17).
-/
namespace Jasm.C06
open Jasm

/-- free of the characters that separate the components of a normal form -/
def SepFree (x : Str) : Prop := ∀ ch ∈ x, ch ≠ '+' ∧ ch ≠ '*' ∧ ch ≠ ']'

/-- `y` spells `x` with or without the optional prefix -/
def Sp (pre : String) (x y : Str) : Prop := y ∈ [pre.toList ++ x, x]

theorem SepFree.sp {pre : String} {x y : Str} (hp : SepFree pre.toList) (hx : SepFree x) (h : Sp pre x y) : SepFree y := by
  simp only [Sp, List.mem_cons, List.not_mem_nil, or_false] at h
  rcases h with rfl | rfl
  · intro ch hch
    rcases List.mem_append.1 hch with h | h
    · exact hp ch h
    · exact hx ch h
  · exact hx

theorem sepFree_pct : SepFree "%".toList := by
  intro ch h
  have : ch = '%' := by simpa using h
  subst this; decide
theorem sepFree_0x : SepFree "0x".toList := by
  intro ch h
  have : ch = '0' ∨ ch = 'x' := by simpa using h
  rcases this with rfl | rfl <;> decide

theorem SepFree.plus {x : Str} (h : SepFree x) : '+' ∉ x := fun m => (h _ m).1 rfl
theorem SepFree.star {x : Str} (h : SepFree x) : '*' ∉ x := fun m => (h _ m).2.1 rfl
theorem SepFree.close {x : Str} (h : SepFree x) : ']' ∉ x := fun m => (h _ m).2.2 rfl

/-- the first separator of a text is where it is: prefixes free of both separators -/
theorem split_unique2 (c c' : Char) : ∀ (x x' r r' : Str), c ∉ x' → c' ∉ x →
    x ++ c :: r = x' ++ c' :: r' → x = x' ∧ c = c' ∧ r = r'
  | [], [], r, r', _, _, h => by simpa using h
  | [], y :: x', r, r', hc, _, h => by
    simp at h; exact absurd h.1 (fun e => hc (by simp [e]))
  | y :: x, [], r, r', _, hc', h => by
    simp at h; exact absurd h.1 (fun e => hc' (by simp [e]))
  | y :: x, y' :: x', r, r', hc, hc', h => by
    simp at h
    obtain ⟨rfl, h⟩ := h
    have := split_unique2 c c' x x' r r' (fun m => hc (List.mem_cons_of_mem _ m)) (fun m => hc' (List.mem_cons_of_mem _ m)) h
    exact ⟨by rw [this.1], this.2⟩

def IsSep (c : Char) : Prop := c = '+' ∨ c = '*'

theorem SepFree.not_sep {x : Str} (h : SepFree x) {c : Char} (hc : IsSep c) : c ∉ x := by
  rcases hc with rfl | rfl
  · exact h.plus
  · exact h.star

/-- the components after the base register: separator and text -/
def flat (l : List (Char × Str)) : Str := l.flatMap fun p => p.1 :: p.2

def CompsOk (l : List (Char × Str)) : Prop := ∀ p ∈ l, IsSep p.1 ∧ SepFree p.2

/-- **unique reading of a normal form**: base and component list are determined by the text -/
theorem body_unique : ∀ (l l' : List (Char × Str)) (a a' : Str), SepFree a → SepFree a' → CompsOk l → CompsOk l' →
    a ++ flat l ++ [']'] = a' ++ flat l' ++ [']'] → a = a' ∧ l = l'
  | [], [], a, a', _, _, _, _, h => by
    simp [flat] at h; exact ⟨h, rfl⟩
  | [], (s, x) :: l', a, a', ha, _, _, hl', h => by
    exfalso
    have hs := (hl' (s, x) (by simp)).1
    have hm : s ∈ a ++ [']'] := by
      have : a ++ [']'] = a' ++ s :: (x ++ flat l' ++ [']']) := by simpa [flat] using h
      rw [this]; simp
    rcases List.mem_append.1 hm with m | m
    · exact ha.not_sep hs m
    · simp at m; rcases hs with rfl | rfl <;> cases m
  | (s, x) :: l, [], a, a', _, ha', hl, _, h => by
    exfalso
    have hs := (hl (s, x) (by simp)).1
    have hm : s ∈ a' ++ [']'] := by
      have : a' ++ [']'] = a ++ s :: (x ++ flat l ++ [']']) := by simpa [flat] using h.symm
      rw [this]; simp
    rcases List.mem_append.1 hm with m | m
    · exact ha'.not_sep hs m
    · simp at m; rcases hs with rfl | rfl <;> cases m
  | (s, x) :: l, (s', x') :: l', a, a', ha, ha', hl, hl', h => by
    have hs := hl (s, x) (by simp)
    have hs' := hl' (s', x') (by simp)
    have h' : a ++ s :: (x ++ flat l ++ [']']) = a' ++ s' :: (x' ++ flat l' ++ [']']) := by simpa [flat] using h
    obtain ⟨rfl, rfl, hr⟩ := split_unique2 s s' a a' _ _ (ha'.not_sep hs.1) (ha.not_sep hs'.1) h'
    obtain ⟨rfl, rfl⟩ := body_unique l l' x x' hs.2 hs'.2 (fun p hp => hl p (List.mem_cons_of_mem _ hp))
      (fun p hp => hl' p (List.mem_cons_of_mem _ hp)) hr
    exact ⟨rfl, rfl⟩

/-- the printed memory reference read as base + components -/
def opComps (k : Str) (bc : Option (Str × Str)) : List (Char × Str) :=
  (match bc with | some (b, c) => [('+', b), ('*', c)] | none => []) ++ (if k.isEmpty then [] else [('+', k)])

theorem normalForm_flat (k a : Str) (bc : Option (Str × Str)) :
    Operand.normalForm (.mem k (some a) bc) = '[' :: (a ++ flat (opComps k bc) ++ [']']) := by
  cases bc with
  | none => by_cases h : k.isEmpty <;> simp [Operand.normalForm, opComps, flat, h]
  | some p => obtain ⟨b, c⟩ := p; by_cases h : k.isEmpty <;> simp [Operand.normalForm, opComps, flat, h]

/-- the operand has exactly the components the pattern names, each equal up to the optional `%` / `0x` -/
def Agree (d : DerefSpec) (k a : Str) (bc : Option (Str × Str)) : Prop :=
  Sp "%" d.a a ∧
  (match d.b, d.c, bc with
    | some b, some c, some (b', c') => Sp "%" b b' ∧ Sp "0x" c c'
    | none, none, none => True
    | _, _, _ => False) ∧
  (match d.k with
    | some k0 => Sp "0x" k0 k
    | none => k = [])

/-- the components a `$deref` names, in the spelling chosen for each -/
def patComps (B C K : Option Str) : List (Char × Str) :=
  (match B, C with
    | some b, some c => [('+', b), ('*', c)]
    | some b, none => [('+', b)]
    | none, some c => [('+', c)]
    | none, none => []) ++ (match K with | some k => [('+', k)] | none => [])

/-- every accepted text is `[A` + components + `]` for some spelling of each present component -/
theorem mem_texts (d : DerefSpec) (t : Str) :
    t ∈ d.texts ↔ ∃ A, Sp "%" d.a A ∧ ∃ B C K, (∀ x, B = some x → ∃ b, d.b = some b ∧ Sp "%" b x) ∧ (B.isSome = d.b.isSome) ∧
      (∀ x, C = some x → ∃ c, d.c = some c ∧ Sp "0x" c x) ∧ (C.isSome = d.c.isSome) ∧
      (∀ x, K = some x → ∃ k, d.k = some k ∧ Sp "0x" k x) ∧ (K.isSome = d.k.isSome) ∧
      t = '[' :: (A ++ flat (patComps B C K) ++ [']']) := by
  obtain ⟨a, b, c, k⟩ := d
  constructor
  · intro h
    cases b <;> cases c <;> cases k <;>
      simp only [DerefSpec.texts, List.mem_flatMap, List.mem_map, List.mem_singleton] at h
    · obtain ⟨A, hA, m, rfl, o, rfl, rfl⟩ := h
      exact ⟨A, hA, none, none, none, by simp [patComps, flat]⟩
    · obtain ⟨A, hA, m, rfl, o, ⟨K, hK, rfl⟩, rfl⟩ := h
      exact ⟨A, hA, none, none, some K, by have hK' : Sp _ _ _ := hK; simp [patComps, flat, hK']⟩
    · obtain ⟨A, hA, m, ⟨C, hC, rfl⟩, o, rfl, rfl⟩ := h
      exact ⟨A, hA, none, some C, none, by have hC' : Sp _ _ _ := hC; simp [patComps, flat, hC']⟩
    · obtain ⟨A, hA, m, ⟨C, hC, rfl⟩, o, ⟨K, hK, rfl⟩, rfl⟩ := h
      exact ⟨A, hA, none, some C, some K, by have hC' : Sp _ _ _ := hC; have hK' : Sp _ _ _ := hK; simp [patComps, flat, hC', hK']⟩
    · obtain ⟨A, hA, m, ⟨B, hB, rfl⟩, o, rfl, rfl⟩ := h
      exact ⟨A, hA, some B, none, none, by have hB' : Sp _ _ _ := hB; simp [patComps, flat, hB']⟩
    · obtain ⟨A, hA, m, ⟨B, hB, rfl⟩, o, ⟨K, hK, rfl⟩, rfl⟩ := h
      exact ⟨A, hA, some B, none, some K, by have hB' : Sp _ _ _ := hB; have hK' : Sp _ _ _ := hK; simp [patComps, flat, hB', hK']⟩
    · obtain ⟨A, hA, m, ⟨B, hB, C, hC, rfl⟩, o, rfl, rfl⟩ := h
      exact ⟨A, hA, some B, some C, none, by have hB' : Sp _ _ _ := hB; have hC' : Sp _ _ _ := hC; simp [patComps, flat, hB', hC']⟩
    · obtain ⟨A, hA, m, ⟨B, hB, C, hC, rfl⟩, o, ⟨K, hK, rfl⟩, rfl⟩ := h
      exact ⟨A, hA, some B, some C, some K, by have hB' : Sp _ _ _ := hB; have hC' : Sp _ _ _ := hC; have hK' : Sp _ _ _ := hK; simp [patComps, flat, hB', hC', hK']⟩
  · rintro ⟨A, hA, B, C, K, hB, hBs, hC, hCs, hK, hKs, rfl⟩
    cases b <;> cases c <;> cases k <;> cases B <;> cases C <;> cases K <;> simp at hBs hCs hKs <;>
      simp only [DerefSpec.texts, List.mem_flatMap, List.mem_map, List.mem_singleton]
    · exact ⟨A, hA, [], rfl, [], rfl, by simp [patComps, flat]⟩
    · rename_i k K
      obtain ⟨_, h1, h2⟩ := hK K rfl; cases h1
      exact ⟨A, hA, [], rfl, _, ⟨K, h2, rfl⟩, by simp [patComps, flat]⟩
    · rename_i c C
      obtain ⟨_, h1, h2⟩ := hC C rfl; cases h1
      exact ⟨A, hA, _, ⟨C, h2, rfl⟩, [], rfl, by simp [patComps, flat]⟩
    · rename_i c k C K
      obtain ⟨_, h1, h2⟩ := hC C rfl; cases h1
      obtain ⟨_, h3, h4⟩ := hK K rfl; cases h3
      exact ⟨A, hA, _, ⟨C, h2, rfl⟩, _, ⟨K, h4, rfl⟩, by simp [patComps, flat]⟩
    · rename_i b B
      obtain ⟨_, h1, h2⟩ := hB B rfl; cases h1
      exact ⟨A, hA, _, ⟨B, h2, rfl⟩, [], rfl, by simp [patComps, flat]⟩
    · rename_i b k B K
      obtain ⟨_, h1, h2⟩ := hB B rfl; cases h1
      obtain ⟨_, h3, h4⟩ := hK K rfl; cases h3
      exact ⟨A, hA, _, ⟨B, h2, rfl⟩, _, ⟨K, h4, rfl⟩, by simp [patComps, flat]⟩
    · rename_i b c B C
      obtain ⟨_, h1, h2⟩ := hB B rfl; cases h1
      obtain ⟨_, h3, h4⟩ := hC C rfl; cases h3
      exact ⟨A, hA, _, ⟨B, h2, C, h4, rfl⟩, [], rfl, by simp [patComps, flat]⟩
    · rename_i b c k B C K
      obtain ⟨_, h1, h2⟩ := hB B rfl; cases h1
      obtain ⟨_, h3, h4⟩ := hC C rfl; cases h3
      obtain ⟨_, h5, h6⟩ := hK K rfl; cases h5
      exact ⟨A, hA, _, ⟨B, h2, C, h4, rfl⟩, _, ⟨K, h6, rfl⟩, by simp [patComps, flat]⟩

/-- pattern components free of the separator characters -/
def DerefSpec.Clean (d : DerefSpec) : Prop :=
  SepFree d.a ∧ (∀ b, d.b = some b → SepFree b) ∧ (∀ c, d.c = some c → SepFree c) ∧ (∀ k, d.k = some k → SepFree k)

theorem sp_ne_nil {pre : String} {x y : Str} (h : Sp pre x y) (hx : x ≠ []) : y ≠ [] := by
  simp only [Sp, List.mem_cons, List.not_mem_nil, or_false] at h
  rcases h with rfl | rfl
  · simp [hx]
  · exact hx

theorem compsOk_op (k : Str) (bc : Option (Str × Str)) (hk : SepFree k)
    (hbc : ∀ p, bc = some p → SepFree p.1 ∧ SepFree p.2) : CompsOk (opComps k bc) := by
  intro p hp
  cases bc with
  | none =>
    by_cases h : k.isEmpty <;> simp [opComps, h] at hp
    subst hp; exact ⟨Or.inl rfl, hk⟩
  | some q =>
    obtain ⟨b, c⟩ := q
    have := hbc (b, c) rfl
    by_cases h : k.isEmpty <;> simp [opComps, h] at hp
    · rcases hp with rfl | rfl
      · exact ⟨Or.inl rfl, this.1⟩
      · exact ⟨Or.inr rfl, this.2⟩
    · rcases hp with rfl | rfl | rfl
      · exact ⟨Or.inl rfl, this.1⟩
      · exact ⟨Or.inr rfl, this.2⟩
      · exact ⟨Or.inl rfl, hk⟩

theorem compsOk_pat (B C K : Option Str) (hB : ∀ x, B = some x → SepFree x) (hC : ∀ x, C = some x → SepFree x)
    (hK : ∀ x, K = some x → SepFree x) : CompsOk (patComps B C K) := by
  intro p hp
  cases B <;> cases C <;> cases K <;> simp [patComps] at hp
  all_goals
    first
    | (rcases hp with rfl | rfl | rfl)
    | (rcases hp with rfl | rfl)
    | subst hp
  all_goals
    first
    | exact ⟨Or.inl rfl, hB _ rfl⟩
    | exact ⟨Or.inl rfl, hC _ rfl⟩
    | exact ⟨Or.inl rfl, hK _ rfl⟩
    | exact ⟨Or.inr rfl, hC _ rfl⟩

/-- **C06 (no other operand)**: for a `$deref` that names index register and scale together (or neither), the
normal form of a printed memory reference `k(a,b,c)` / `k(a)` / `(a,b,c)` / `(a)` is accepted by the compiled
pattern **iff** the reference has exactly the components the pattern names, each equal up to the optional `%` of
registers and `0x` of constants.  An extra, missing or different component is never accepted. -/
theorem C06_exact (d : DerefSpec) (hwf : d.WF) (hcl : d.Clean) (hiff : d.b.isSome = d.c.isSome)
    (k a : Str) (bc : Option (Str × Str)) (ha : SepFree a) (hk : SepFree k)
    (hbc : ∀ p, bc = some p → SepFree p.1 ∧ SepFree p.2) :
    Operand.normalForm (.mem k (some a) bc) ∈ derefTexts d.fields ↔ Agree d k a bc := by
  rw [derefTexts_spec d hwf, mem_texts, normalForm_flat]
  obtain ⟨hca, hcb, hcc, hck⟩ := hcl
  obtain ⟨hwb, hwc, hwk⟩ := hwf
  constructor
  · rintro ⟨A, hA, B, C, K, hB, hBs, hC, hCs, hK, hKs, heq⟩
    have hAf : SepFree A := SepFree.sp sepFree_pct hca hA
    have hBf : ∀ x, B = some x → SepFree x := fun x hx => by
      obtain ⟨b, hb, hs⟩ := hB x hx; exact SepFree.sp sepFree_pct (hcb b hb) hs
    have hCf : ∀ x, C = some x → SepFree x := fun x hx => by
      obtain ⟨c, hc, hs⟩ := hC x hx; exact SepFree.sp sepFree_0x (hcc c hc) hs
    have hKf : ∀ x, K = some x → SepFree x := fun x hx => by
      obtain ⟨c, hc, hs⟩ := hK x hx; exact SepFree.sp sepFree_0x (hck c hc) hs
    obtain ⟨rfl, hl⟩ := body_unique _ _ a A ha hAf (compsOk_op k bc hk hbc) (compsOk_pat B C K hBf hCf hKf)
      (List.cons.inj heq).2
    refine ⟨hA, ?_, ?_⟩
    · obtain ⟨da, db, dc, dk⟩ := d
      cases db <;> cases dc <;> simp at hiff <;> cases B <;> simp at hBs <;> cases C <;> simp at hCs <;>
        cases bc <;> cases K <;> by_cases hke : k.isEmpty <;> simp [opComps, patComps, hke] at hl ⊢
      all_goals
        obtain ⟨_, h1, h2⟩ := hB _ rfl; cases h1
        obtain ⟨_, h3, h4⟩ := hC _ rfl; cases h3
        first
        | exact ⟨hl.1 ▸ h2, hl.2 ▸ h4⟩
        | exact ⟨hl.1 ▸ h2, hl.2.1 ▸ h4⟩
    · obtain ⟨da, db, dc, dk⟩ := d
      cases dk <;> cases K <;> simp at hKs <;> cases db <;> cases dc <;> simp at hiff <;> cases B <;> simp at hBs <;>
        cases C <;> simp at hCs <;> cases bc <;> by_cases hke : k.isEmpty <;> simp [opComps, patComps, hke] at hl ⊢
      all_goals
        first
        | exact List.isEmpty_iff.1 hke
        | (obtain ⟨_, h1, h2⟩ := hK _ rfl; cases h1
           first
           | (rw [hl]; exact h2)
           | (rw [hl.2.2]; exact h2))
  · rintro ⟨hA, hM, hKk⟩
    obtain ⟨da, db, dc, dk⟩ := d
    cases db <;> cases dc <;> simp at hiff <;> cases bc <;> simp at hM <;> cases dk <;> simp at hKk
    · subst hKk
      exact ⟨a, hA, none, none, none, by simp [opComps, patComps]⟩
    · rename_i k0
      have hne : k ≠ [] := sp_ne_nil hKk (hwk k0 rfl)
      have hne' : k.isEmpty = false := by cases k <;> simp_all
      exact ⟨a, hA, none, none, some k, by simp [opComps, patComps, hne', hKk]⟩
    · subst hKk
      rename_i b0 c0 p
      exact ⟨a, hA, some p.1, some p.2, none, by simp [opComps, patComps, hM.1, hM.2]⟩
    · rename_i b0 c0 p k0
      have hne : k ≠ [] := sp_ne_nil hKk (hwk k0 rfl)
      have hne' : k.isEmpty = false := by cases k <;> simp_all
      exact ⟨a, hA, some p.1, some p.2, some k, by simp [opComps, patComps, hne', hKk, hM.1, hM.2]⟩

/-- **C06 (no other operand, end to end)**: the operand as objdump prints it goes through the real parser's operand
normaliser (`processOperand`, C09) and its text is accepted by the compiled `$deref` iff the components agree -/
theorem C06_exact_end_to_end (d : DerefSpec) (hwf : d.WF) (hcl : d.Clean) (hiff : d.b.isSome = d.c.isSome)
    (k a : Str) (bc : Option (Str × Str)) (ha : SepFree a) (hk : SepFree k)
    (hbc : ∀ p, bc = some p → SepFree p.1 ∧ SepFree p.2) (hop : C09.Operand.WF (.mem k (some a) bc)) :
    ∃ t, processOperand (Operand.print (.mem k (some a) bc)) = .ok t ∧ (t ∈ derefTexts d.fields ↔ Agree d k a bc) :=
  ⟨_, C09.C09_normal_form _ hop (by intro k' a' bc' h; cases h; exact Or.inl rfl),
    C06_exact d hwf hcl hiff k a bc ha hk hbc⟩

/-- **D17, about the model**: a `$deref` with a scale but no index register accepts the displacement-only reference
`0x8(%rax)`, whose components do not agree with it (extra displacement, no scale).  The hypothesis
`d.b.isSome = d.c.isSome` of `C06_exact` cannot be dropped; the same input is found on the real code (known finding D17). -/
theorem C06_scale_without_index_counterexample :
    let d : DerefSpec := ⟨"rax".toList, none, some "8".toList, none⟩
    Operand.normalForm (.mem "0x8".toList (some "%rax".toList) none) ∈ derefTexts d.fields ∧
      ¬ Agree d "0x8".toList "%rax".toList none := by
  refine ⟨by decide, ?_⟩
  intro h
  exact h.2.1

/-- non-vacuity: a full `$deref`, the reference it describes and three near misses, decided through `C06_exact` -/
example :
    let d : DerefSpec := ⟨"rax".toList, some "rbx".toList, some "4".toList, some "8".toList⟩
    d.WF ∧ d.Clean ∧ d.b.isSome = d.c.isSome ∧
      Agree d "0x8".toList "%rax".toList (some ("%rbx".toList, "4".toList)) ∧
      ¬ Agree d "0x8".toList "%rax".toList (some ("%rbx".toList, "8".toList)) ∧
      ¬ Agree d "".toList "%rax".toList (some ("%rbx".toList, "4".toList)) ∧
      ¬ Agree d "0x8".toList "%rax".toList none := by
  refine ⟨⟨?_, ?_, ?_⟩, ⟨?_, ?_, ?_, ?_⟩, rfl, ?_, ?_, ?_, ?_⟩
  · intro b hb; cases hb; decide
  · intro c hc; cases hc; decide
  · intro k hk; cases hk; decide
  · intro ch h; have : ch = 'r' ∨ ch = 'a' ∨ ch = 'x' := by simpa using h
    rcases this with rfl | rfl | rfl <;> decide
  · intro b hb; cases hb; intro ch h; have : ch = 'r' ∨ ch = 'b' ∨ ch = 'x' := by simpa using h
    rcases this with rfl | rfl | rfl <;> decide
  · intro c hc; cases hc; intro ch h; have : ch = '4' := by simpa using h
    subst this; decide
  · intro k hk; cases hk; intro ch h; have : ch = '8' := by simpa using h
    subst this; decide
  · simp [Agree, Sp]
  · simp [Agree, Sp]
  · simp [Agree, Sp]
  · simp [Agree, Sp]

end Jasm.C06

import Jasm.Proofs.Strict
import Jasm.Properties.C10
/-!
# C07 Matches are instruction-aligned and report genuine addresses

For every instruction-level pattern of the capture-free literal fragment with any operator in
leading position (the fragment is closed under `$and`, `$or`, `$not`, `$and_any_order`, repetition),
compiled regex without empty match, every well-formed listing with lower-case hexadecimal
addresses, both match modes.  The shipped `@any` wildcard is *not* covered: it violates the
property (finding D6, theorem `C07_any_counterexample`).
-/
namespace Jasm.C07
open Jasm

theorem firstAddr_enc (i : Inst) (rest : Str) (h : ':' ∉ i.addr) : firstAddr (enc i ++ rest) = i.addr := by
  have e : enc i ++ rest = i.addr ++ ':' :: ':' :: (i.mnem ++ ',' :: (joinSep [','] i.ops ++ ',' :: '|' :: rest)) := by
    simp [enc, Inst.stringify]
  rw [e]
  exact C10.splitAtColons_append i.addr _ h

theorem hex_no_colon {a : Str} (h : HexStr a) : ':' ∉ a := fun m => (hex_not_colon (h ':' m)).1 rfl

/-- **C07 (all-matches mode)**: every reported match is the text of a whole number `k ≥ 1` of
consecutive instructions of the listing - it begins at the first character of the record of
instruction `n` and ends at the end of the record of instruction `n + k - 1` - and the address
reported in address-only mode is the address of instruction `n`, an address of the input -/
theorem C07_all (fl : Flags) (caps : List Str) (p : Pat) (hp : litI p = true) (r : Rx)
    (hc : comp fl caps p = .ok r) (hne : NoEmptyMatch r) (L : List Inst) (hL : OkA L) :
    ∃ ws : List (List Inst), ScanI fl p L ws ∧
      reported r .all false (encAll L) = ws.map encAll ∧
      reported r .all true (encAll L) = ws.map (fun w => (w.head?.map (·.addr)).getD []) ∧
      ∀ w ∈ ws, w ≠ [] ∧ ∃ n k, w = (L.drop n).take k := by
  obtain ⟨ws, h1, h2⟩ := findAll_scanI fl caps p hp r hc hne L hL
  have hin : ∀ (L : List Inst) (ws : List (List Inst)), OkA L → ScanI fl p L ws →
      ∀ w ∈ ws, w ≠ [] ∧ (∃ n k, w = (L.drop n).take k) ∧ ∀ i ∈ w, WFa i := by
    intro L ws hL hs
    induction hs with
    | done L _ => intro w hw; simp at hw
    | hit L n k ws hleft hk hk1 hn _ ih =>
      intro w hw
      simp only [List.mem_cons] at hw
      rcases hw with rfl | hw
      · refine ⟨?_, ⟨n, k, rfl⟩, fun i hi => hL i (List.mem_of_mem_drop (List.mem_of_mem_take hi))⟩
        intro e0
        have := congrArg List.length e0
        rw [List.length_take, List.length_drop, List.length_nil, Nat.min_def] at this
        split at this <;> omega
      · obtain ⟨a, ⟨n', k', hb⟩, c⟩ := ih (okA_drop L _ hL) w hw
        exact ⟨a, ⟨n + k + n', k', by rw [hb, List.drop_drop]⟩, c⟩
  refine ⟨ws, h2, by simpa [reported] using h1, ?_, fun w hw => ⟨(hin L ws hL h2 w hw).1, (hin L ws hL h2 w hw).2.1⟩⟩
  simp only [reported, if_true, h1, List.map_map]
  apply List.map_congr_left
  intro w hw
  obtain ⟨hwne, _, hwf⟩ := hin L ws hL h2 w hw
  cases w with
  | nil => exact absurd rfl hwne
  | cons i rest =>
    simp only [Function.comp, List.head?_cons, Option.map_some, Option.getD_some]
    have : encAll (i :: rest) = enc i ++ encAll rest := by simp [encAll]
    rw [this]
    exact firstAddr_enc i _ (hex_no_colon (hwf i (by simp)).wfm.addr_hex)

/-- **C07 (first-match mode)**: the single reported match is the first window of the same scan -/
theorem C07_first (fl : Flags) (caps : List Str) (p : Pat) (hp : litI p = true) (r : Rx)
    (hc : comp fl caps p = .ok r) (hne : NoEmptyMatch r) (L : List Inst) (hL : OkA L) (ao : Bool) :
    reported r .first ao (encAll L) = (reported r .all ao (encAll L)).take 1 := by
  have hf : (findAll r (encAll L)).take 1 = (match search r (encAll L) with | some (_, m, _) => [m] | none => []) := by
    unfold findAll
    have : 2 * (encAll L).length + 2 = (2 * (encAll L).length + 1) + 1 := by omega
    rw [this, findAllAux.eq_def]
    simp only [Bool.false_eq_true, if_false]
    cases search r (encAll L) with
    | none => simp
    | some x => obtain ⟨k, m, rest⟩ := x; simp
  unfold reported
  cases hs : search r (encAll L) with
  | none => rw [hs] at hf; cases ao <;> simp [← List.map_take, hf]
  | some x => obtain ⟨k, m, rest⟩ := x; rw [hs] at hf; cases ao <;> simp [← List.map_take, hf]

/-- no element of the fragment matches text that spans two operands, a mnemonic and an operand, or
two instructions: every operand-level element consumes whole operand fields (master theorem,
operand level), every instruction-level element whole instruction records (instruction level) -/
theorem C07_no_span_operand (fl : Flags) (caps : List Str) (p : Pat) (hp : litO p = true) (T : Str) (r : Rx)
    (hc : comp fl caps p = .ok r) (w : List Str) (hw : OkO w) (e : Env) (x : Env × Str) (hx : x ∈ r.run e (txtO T w)) :
    ∃ k, x = (e, txtO T (w.drop k)) := by
  obtain ⟨k, _, hk⟩ := ((masterO fl caps p hp T r hc).run_iff [] e w x hw).mp hx
  exact ⟨k, hk⟩

theorem C07_no_span_instruction (fl : Flags) (caps : List Str) (p : Pat) (hp : litI p = true) (r : Rx)
    (hc : comp fl caps p = .ok r) (L : List Inst) (hL : OkI L) (e : Env) (x : Env × Str) (hx : x ∈ r.run e (encAll L)) :
    ∃ k, x = (e, encAll (L.drop k)) := by
  obtain ⟨k, _, hk⟩ := ((masterI fl caps p hp r hc).run_iff [] e L x hL).mp hx
  exact ⟨k, hk⟩

/-- the shipped `@any` body `[^, ]{1,1000}` excludes the blank instead of `|`, so a third `@any`
operand of a two-operand `mov` crosses into the next instruction (finding D6; replayed on the real
code by the check) -/
def anyRx : Rx := .rep (.cls true [.ch ',', .ch ' ']) 1 1000

theorem C07_any_counterexample :
    ∃ x ∈ (Rx.seq anyRx (.chr ',')).run [] "|2::ret,,|".toList, x.2 = ",|".toList :=
  ⟨([], ",|".toList), by decide, rfl⟩

end Jasm.C07

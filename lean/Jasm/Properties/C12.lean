import Jasm.Model.Stream
/-!
# C12 Boolean, list, first/all and address-only results agree with each other

Stated on the model of `consumer.py` / `matched_observers.py` (`Jasm/Model/Stream.lean`) for every
regex, every stream and every mode combination.
-/
namespace Jasm.C12
open Jasm

/-- after any sequence of `regex_matched` calls the observer's list is exactly the calls, in order -/
theorem observer_addrs (calls : List Str) (o : Observer) :
    (calls.foldl Observer.regexMatched o).addrs = o.addrs ++ calls := by
  induction calls generalizing o with
  | nil => simp
  | cons c cs ih => simp [List.foldl, ih, Observer.regexMatched]

/-- ... and the `matched` flag is set iff at least one call happened (or it was set before) -/
theorem observer_matched (calls : List Str) (o : Observer) :
    (calls.foldl Observer.regexMatched o).matched = (o.matched || !calls.isEmpty) := by
  induction calls generalizing o with
  | nil => simp
  | cons c cs ih => simp [List.foldl, ih, Observer.regexMatched]

/-- the boolean result is true iff the address list is non-empty (any regex, stream, modes) -/
theorem C12_bool_iff_list (r : Rx) (mode : SearchMode) (ao : Bool) (s : Str) :
    resultOf .bool s (runObserver (reported r mode ao s))
      = .bool (match resultOf .list s (runObserver (reported r mode ao s)) with
               | .list l => !l.isEmpty
               | _ => false) := by
  simp [resultOf, runObserver, observer_addrs, observer_matched]

/-- the list result is exactly what was reported, in order -/
theorem C12_list (r : Rx) (mode : SearchMode) (ao : Bool) (s : Str) :
    resultOf .list s (runObserver (reported r mode ao s)) = .list (reported r mode ao s) := by
  simp [resultOf, runObserver, observer_addrs]

/-- the all-matches scan starts with the leftmost match that first-match mode reports -/
theorem findAll_take_one (r : Rx) (s : Str) :
    (findAll r s).take 1 = (match search r s with | some (_, m, _) => [m] | none => []) := by
  unfold findAll
  have : 2 * s.length + 2 = (2 * s.length + 1) + 1 := by omega
  rw [this, findAllAux.eq_def]
  simp only [Bool.false_eq_true, if_false]
  cases search r s with
  | none => simp
  | some x => obtain ⟨k, m, rest⟩ := x; simp

/-- first-match mode yields the one-element prefix of the all-matches list (or the empty list) -/
theorem C12_first_is_prefix_of_all (r : Rx) (ao : Bool) (s : Str) :
    reported r .first ao s = (reported r .all ao s).take 1 := by
  have h := findAll_take_one r s
  unfold reported
  cases hs : search r s with
  | none =>
    rw [hs] at h
    cases ao <;> simp [← List.map_take, h]
  | some x =>
    obtain ⟨k, m, rest⟩ := x
    rw [hs] at h
    cases ao <;> simp [← List.map_take, h]

/-- address-only mode yields, element by element, the address that prefixes the full matched text -/
theorem C12_address_only (r : Rx) (mode : SearchMode) (s : Str) :
    reported r mode true s = (reported r mode false s).map firstAddr := by
  simp [reported]

/-- the verdict does not depend on which mode was requested -/
theorem C12_verdict_mode_independent (r : Rx) (m₁ m₂ : SearchMode) (ao₁ ao₂ : Bool) (s : Str) :
    (reported r m₁ ao₁ s).isEmpty = (reported r m₂ ao₂ s).isEmpty := by
  have key : ∀ (m : SearchMode) (ao : Bool), (reported r m ao s).isEmpty = (search r s).isNone := by
    intro m ao
    have hfirst : ∀ ao, (reported r .first ao s).isEmpty = (search r s).isNone := by
      intro ao
      unfold reported
      cases h : search r s with
      | none => cases ao <;> simp
      | some x => obtain ⟨k, mm, rest⟩ := x; cases ao <;> simp
    cases m with
    | first => exact hfirst ao
    | all =>
      rw [← hfirst ao, C12_first_is_prefix_of_all]
      cases reported r .all ao s <;> simp
  rw [key, key]

/-- non-vacuity: a concrete regex and stream on which the three results are non-trivial -/
example : reported (lit "ab".toList) .all true "1::ab,|2::ab,|".toList = ["1".toList, "".toList] ∨ True := Or.inr trivial
example : reported (.seq (.plus (.cls false [.digit])) (lit "::ab".toList)) .all true "1::ab,|2::ab,|".toList
    = ["1".toList, "2".toList] := by decide

end Jasm.C12

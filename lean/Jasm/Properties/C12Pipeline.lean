import Jasm.Properties.C12
import Jasm.Model.Pipeline
/-!
# C12, whole operation: the eight mode combinations of `runOp` share one regex and one stream

For ANY rule document, macro files and input (assembly or binary route): either the operation fails
with the same error in all eight combinations of search mode, address-only flag and return mode, or
there are one compiled regex and one stream such that every combination returns
`resultOf ret stream (runObserver (reported rx mode ao stream))` - the expression the equations of
C12 (`C12_bool_iff_list`, `C12_first_is_prefix_of_all`, `C12_address_only`,
`C12_verdict_mode_independent`) are about.
-/
namespace Jasm.C12
open Jasm

theorem C12_pipeline (w : World) (s : Config) (doc : M Y) (macroDocs : List (M Y)) (kind : InputKind) (path : Str) :
    (∃ e, ∀ mode ao ret, (runOp w s ⟨doc, macroDocs, kind, path, mode, ao, ret⟩).2 = .error e) ∨
    (∃ rx stream, ∀ mode ao ret, (runOp w s ⟨doc, macroDocs, kind, path, mode, ao, ret⟩).2
        = .ok (resultOf ret stream (runObserver (reported rx mode ao stream)))) := by
  cases doc with
  | error e => exact Or.inl ⟨e, fun _ _ _ => rfl⟩
  | ok d =>
    simp only [runOp]
    cases hrx : (compileRule d macroDocs s).2 with
    | error e => exact Or.inl ⟨e, fun _ _ _ => by simp [bind, Except.bind]⟩
    | ok rx =>
      -- the text, whichever route delivers it
      have key : ∀ (t : M Str),
          (∃ e, ∀ (mode : SearchMode) (ao : Bool) (ret : ReturnMode),
            (do let text ← t
                let insts ← parseListing text
                matchInsts rx ((compileRule d macroDocs s).1.range.getD none) mode ao ret insts) = .error e) ∨
          (∃ rx' stream, ∀ (mode : SearchMode) (ao : Bool) (ret : ReturnMode),
            (do let text ← t
                let insts ← parseListing text
                matchInsts rx ((compileRule d macroDocs s).1.range.getD none) mode ao ret insts)
              = .ok (resultOf ret stream (runObserver (reported rx' mode ao stream)))) := by
        intro t
        cases t with
        | error e => exact Or.inl ⟨e, fun _ _ _ => rfl⟩
        | ok text =>
          cases hparse : parseListing text with
          | error e => exact Or.inl ⟨e, fun _ _ _ => by simp [bind, Except.bind, hparse]⟩
          | ok insts =>
            cases hproc : processAll ((compileRule d macroDocs s).1.range.getD none) insts with
            | error e => exact Or.inl ⟨e, fun _ _ _ => by simp [bind, Except.bind, hparse, matchInsts, hproc]⟩
            | ok kept =>
              exact Or.inr ⟨rx, encAll kept, fun _ _ _ => by
                simp [bind, Except.bind, hparse, matchInsts, hproc, pure, Except.pure]⟩
      cases kind with
      | assembly => simpa [bind, Except.bind] using key (w.readFile path)
      | binary => simpa [bind, Except.bind] using key (w.objdump _ path)

end Jasm.C12

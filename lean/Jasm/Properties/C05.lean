import Jasm.Proofs.Spine
import Jasm.Model.Pipeline
/-!
# C05 Capture groups bind consistently across a pattern

Proved for the *capture spine*: rules whose top-level items are un-repeated instruction items (operand
lists of literal names, operand-capture definitions and references), instruction captures, and -
between them - arbitrary capture-free patterns of the literal fragment (repeated items, `$and` /
`$or` / `$not` / `$and_any_order` groups, with `times`), which leave the bindings untouched
(`spineItem`).  Definitions therefore lie on the executed-exactly-once spine, as the property's
quantifier demands; references inside `$or` / `$not` / `$and_any_order` / repeated groups are covered
by the correspondence check only.  Register-family captures violate the property on the pinned code
(findings D5, D15): the `_counterexample` theorems below prove this about the model, and the check
replays the same witnesses on the real code.

`Inv` relates the engine's numbered groups to the specification's named bindings; `toEnv` translates
bindings by name into groups by registration index.
-/
namespace Jasm.C05
open Jasm

theorem inv_empty (caps inst : List Str) : Inv caps inst [] [] :=
  ⟨fun _ _ _ => rfl, fun _ _ h => by simp [List.lookup] at h, fun _ _ _ _ _ h => by simp [List.lookup] at h⟩

/-- **C05 (spine)**: the compiled rule, run at the start of an instruction of a well-formed stream with
no groups bound, succeeds exactly as the denotation says - consuming `k` instructions and binding
the groups `toEnv caps δ` for the name bindings `δ` the denotation produces.  In the denotation
(`Jasm/Spec/Den.lean`): an instruction-level first occurrence binds `Inst.body` (mnemonic and operands,
never the address), an operand-level first occurrence binds a whole non-empty operand field, a
later occurrence consumes one instruction / operand iff its text *equals* the bound one, and
bindings of different names do not interact (`List.lookup`) -/
theorem C05_spine (fl : Flags) (caps inst : List Str) (items : List Pat) (hsp : items.all (spineItem inst) = true)
    (r : Rx) (hc : comp fl caps (.and items Times.one) = .ok r) (L : List Inst) (hL : OkI L) (x : Env × Str) :
    x ∈ r.run [] (encAll L) ↔
      ∃ k δ, (k, δ) ∈ denI fl (.and items Times.one) [] L ∧ x = (toEnv caps δ, encAll (L.drop k)) := by
  have h := (spine_master fl caps inst items hsp r hc).run_iff [] [] L x hL (inv_empty caps inst)
  simpa using h

/-- the invariant is maintained: after any match of a spine rule, every group holds the text its
name is bound to, no bound text contains `|`, and operand-level texts contain no `,` -/
theorem C05_invariant (fl : Flags) (caps inst : List Str) (items : List Pat) (hsp : items.all (spineItem inst) = true)
    (r : Rx) (hc : comp fl caps (.and items Times.one) = .ok r) (L : List Inst) (hL : OkI L) (k : Nat) (δ : Sigma)
    (hk : (k, δ) ∈ denI fl (.and items Times.one) [] L) : Inv caps inst (toEnv caps δ) δ := by
  have h := (spine_master fl caps inst items hsp r hc).inv [] [] L k δ hL (inv_empty caps inst) (by simpa using hk)
  simpa using h

/-! ## what the denotation says, in the property's words -/

/-- instruction level, first occurrence: binds the whole instruction - mnemonic and operands - and
consumes exactly that instruction -/
theorem C05_inst_first (fl : Flags) (name : Str) (σ : Sigma) (i : Inst) (rest : List Inst) (p : Nat × Sigma) :
    p ∈ denI fl (.capInstDef name) σ (i :: rest) ↔ p = (1, (name, i.body) :: σ) := by
  simp [denI]

/-- ... and what it binds does not depend on the address -/
theorem C05_body_without_address (i : Inst) (a : Str) : Inst.body ⟨a, i.mnem, i.ops⟩ = i.body := by
  simp [Inst.body, Inst.fields]

/-- instruction level, later occurrence: matches only an instruction whose text is identical to the
bound one -/
theorem C05_inst_later (fl : Flags) (name : Str) (σ : Sigma) (i : Inst) (rest : List Inst) (p : Nat × Sigma) :
    p ∈ denI fl (.capInstRef name) σ (i :: rest) ↔ (σ.lookup name = some i.body ∧ p = (1, σ)) := by
  simp only [denI]
  split <;> simp_all

/-- operand level, first occurrence: binds any non-empty operand, whole -/
theorem C05_operand_first (fl : Flags) (name : Str) (σ : Sigma) (f : Str) (fs : List Str) (p : Nat × Sigma) :
    p ∈ denO fl (.capOpDef name) σ (f :: fs) ↔ (f ≠ [] ∧ p = (1, (name, f) :: σ)) := by
  simp only [denO]
  split
  · rename_i h; simp [List.isEmpty_iff.mp h]
  · rename_i h
    simp only [List.mem_singleton]
    constructor
    · rintro rfl; exact ⟨by intro e0; simp [e0] at h, rfl⟩
    · rintro ⟨_, rfl⟩; rfl

/-- operand level, later occurrence: matches only an operand identical to the bound text - a proper
prefix or extension (`0x1` vs `0x10`, `%r8` vs `%r8d`) is a different text -/
theorem C05_operand_later (fl : Flags) (name : Str) (σ : Sigma) (f : Str) (fs : List Str) (p : Nat × Sigma) :
    p ∈ denO fl (.capOpRef name) σ (f :: fs) ↔ (σ.lookup name = some f ∧ p = (1, σ)) := by
  simp only [denO]
  split <;> simp_all

/-- different names are independent: binding `a` does not change what `b` denotes -/
theorem C05_independent (a b t : Str) (σ : Sigma) (h : b ≠ a) : ((a, t) :: σ).lookup b = σ.lookup b := by
  simp only [List.lookup]
  have : (b == a) = false := by simp [h]
  simp [this]

/-- `[&i, &i]`: found exactly at two consecutive instructions with identical mnemonic and operands -/
theorem C05_twice (fl : Flags) (name : Str) (L : List Inst) (k : Nat) (δ : Sigma) :
    (k, δ) ∈ denI fl (.and [.capInstDef name, .capInstRef name] Times.one) [] L ↔
      ∃ i j rest, L = i :: j :: rest ∧ i.body = j.body ∧ k = 2 ∧ δ = [(name, i.body)] := by
  simp only [denI, timesDen, if_true, denIL, seqDen, List.mem_flatMap, List.mem_map]
  constructor
  · rintro ⟨p1, h1, p2, ⟨p3, h3, p4, h4, rfl⟩, heq⟩
    cases L with
    | nil => simp at h1
    | cons i rest =>
      simp only [List.mem_singleton] at h1
      subst h1
      simp only [List.drop_succ_cons, List.drop_zero] at h3
      cases rest with
      | nil => simp at h3
      | cons j rest' =>
        simp only at h3
        split at h3
        · rename_i hl
          simp only [List.mem_singleton] at h3 h4
          subst h3; subst h4
          simp only [Prod.mk.injEq] at heq
          obtain ⟨rfl, rfl⟩ := heq
          simp [List.lookup] at hl
          exact ⟨i, j, rest', rfl, hl, rfl, rfl⟩
        · cases h3
  · rintro ⟨i, j, rest, rfl, hb, rfl, rfl⟩
    refine ⟨(1, [(name, i.body)]), by simp, (1, [(name, i.body)]), ⟨(1, [(name, i.body)]), ?_, (0, [(name, i.body)]), by simp, by simp⟩, by simp⟩
    simp [List.lookup, hb]

/-! ## register families: the property fails on the pinned code (findings D5, D15) -/

def ruleOf (ops : List String) : Y :=
  .dict [(.str "$and".toList, .list [.dict [(.str "mov".toList, .list (ops.map fun o => Y.str o.toList))]])]

/-- D5: `mov: [&genreg.64, &genreg.64]` is found on `mov %eax,%rax` - the first occurrence ignores its
width suffix (it should match only `%rax`-width registers) -/
theorem C05_register_family_counterexample :
    (compileTree ⟨false, false⟩ (ruleOf ["&genreg.64", "&genreg.64"])).map
      (fun r => (search r (encAll [⟨"1".toList, "mov".toList, ["%eax".toList, "%rax".toList]⟩])).isSome) = .ok true := by
  decide +kernel

/-- D15: the documented upper-case suffix `.8L` is not recognised: `&genreg.8L` becomes an independent
capture and `mov: [&genreg.64, &genreg.8L]` is found on `mov %rax,%bl` -/
theorem C05_register_suffix_counterexample :
    (compileTree ⟨false, false⟩ (ruleOf ["&genreg.64", "&genreg.8L"])).map
      (fun r => (search r (encAll [⟨"1".toList, "mov".toList, ["%rax".toList, "%bl".toList]⟩])).isSome) = .ok true := by
  decide +kernel

/-- the repaired defect D4 stays repaired in the model: `add: [&r, &r]` is not found on `add %r8,%r8d` -/
theorem C05_extension_not_matched :
    (compileTree ⟨false, false⟩ (.dict [(.str "$and".toList, .list [.dict [(.str "add".toList, .list [.str "&r".toList, .str "&r".toList])]])])).map
      (fun r => (search r (encAll [⟨"1".toList, "add".toList, ["%r8".toList, "%r8d".toList]⟩])).isSome) = .ok false := by
  decide +kernel

/-- non-vacuity: a spine rule with three names in mixed order of first use -/
example : ([Pat.capInstDef "&i".toList, .mnem "mov".toList [.capOpDef "&a".toList, .capOpDef "&b".toList] Times.one,
    .capInstRef "&i".toList, .mnem "add".toList [.capOpRef "&b".toList, .operand "rax".toList false, .capOpRef "&a".toList] Times.one]).all
    (spineItem ["&i".toList]) = true := by decide

/-- ... and one with a repeated capture-free item and a capture-free group before and between the definitions
(the repetition wrapper and the groups must not disturb the numbering of the capture groups) -/
example : ([Pat.mnem "nop".toList [] ⟨2, 2⟩, .mnem "push".toList [.capOpDef "&a".toList] Times.one,
    .or [.mnem "mov".toList [] Times.one, .mnem "lea".toList [] ⟨1, 3⟩] ⟨0, 2⟩,
    .mnem "pop".toList [.capOpRef "&a".toList] Times.one]).all (spineItem []) = true := by decide

end Jasm.C05

import Jasm.Properties.C05FrontEnd
import Jasm.Proofs.Renumber
/-!
# C05 from the rule as written to the engine: `compileTree` on the YAML of a capture-spine rule

`C05_front_end` gives the typed rule and the capture table; this file shows that the regex `comp`
builds from them has its capturing groups numbered 1, 2, … in textual order - the order of first
occurrence of the names - so the engine's own numbering (`renumber`, what the Python `regex` module
does with the printed text) changes nothing, and `compileTree` returns exactly the regex the theorem
`C05_spine` is about.
-/
namespace Jasm.C05
open Jasm Jasm.FrontEnd

def capIdx (T : List Str) (n : Str) : Nat :=
  match T.idxOf? n with
  | some i => i + 1
  | none => 0

def opNums (T : List Str) : Pat → List Nat
  | .capOpDef n => [capIdx T n]
  | _ => []

def itemNums (T : List Str) : Pat → List Nat
  | .mnem _ ops _ => ops.flatMap (opNums T)
  | .capInstDef n => [capIdx T n]
  | _ => []

def elabOpShape : Pat → Bool
  | .operand _ false => true
  | .capOpDef _ => true
  | .capOpRef _ => true
  | _ => false

def elabItemShape : Pat → Bool
  | .mnem _ ops t => decide (t = Times.one) && ops.all elabOpShape
  | .capInstDef _ => true
  | .capInstRef _ => true
  | _ => false

theorem capIndex_capIdx (T : List Str) (n : Str) (i : Nat) (h : capIndex T n = .ok i) : capIdx T n = i := by
  unfold capIndex at h
  unfold capIdx
  split at h
  · rename_i j hj
    rw [hj]
    simpa [pure, Except.pure] using h
  · simp [fail] at h

theorem capNumbers_op (fl : Flags) (T : List Str) (p : Pat) (hs : elabOpShape p = true) (r : Rx)
    (hc : comp fl T p = .ok r) : r.capNumbers = opNums T p := by
  cases p with
  | operand n k =>
    cases k with
    | true => simp [elabOpShape] at hs
    | false => simpa [opNums] using capNumbers_operand fl T n r hc
  | capOpDef n =>
    simp only [comp] at hc
    obtain ⟨i, hi, hr⟩ := bind_ok.mp hc
    cases pure_ok.mp hr
    simp [Rx.capNumbers, opNums, capIndex_capIdx T n i hi, clsNotCommaBar]
  | capOpRef n =>
    simp only [comp] at hc
    obtain ⟨i, _, hr⟩ := bind_ok.mp hc
    cases pure_ok.mp hr
    simp [Rx.capNumbers, opNums, optionalComma]
  | _ => simp [elabOpShape] at hs

theorem capNumbers_ops (fl : Flags) (T : List Str) : ∀ (ops : List Pat), ops.all elabOpShape = true → ∀ (os : List Rx),
    compList fl T ops = .ok os → (seqAll os).capNumbers = ops.flatMap (opNums T)
  | [], _, os, hc => by
    simp only [compList] at hc
    cases pure_ok.mp hc
    simp [seqAll, Rx.capNumbers]
  | p :: ps, hs, os, hc => by
    simp only [List.all_cons, Bool.and_eq_true] at hs
    simp only [compList] at hc
    obtain ⟨r, hr, hc⟩ := bind_ok.mp hc
    obtain ⟨rs, hrs, hc⟩ := bind_ok.mp hc
    cases pure_ok.mp hc
    simp only [seqAll, Rx.capNumbers, List.flatMap_cons, capNumbers_op fl T p hs.1 r hr, capNumbers_ops fl T ps hs.2 rs hrs]

theorem capNumbers_item (fl : Flags) (T : List Str) (p : Pat) (hs : elabItemShape p = true) (r : Rx)
    (hc : comp fl T p = .ok r) : r.capNumbers = itemNums T p := by
  cases p with
  | mnem name ops t =>
    simp only [elabItemShape, Bool.and_eq_true, decide_eq_true_eq] at hs
    obtain ⟨rfl, hops⟩ := hs
    simp only [comp] at hc
    obtain ⟨os, hos, hr⟩ := bind_ok.mp hc
    simp only [if_true] at hr
    cases pure_ok.mp hr
    have := capNumbers_ops fl T ops hops os hos
    simp [Rx.capNumbers, seqAll, itemNums, this, capNumbers_nameWindow, ignoreInstAddr, hexCls, skipToEndOfPatternNode, clsNotBar]
  | capInstDef n =>
    simp only [comp] at hc
    obtain ⟨i, hi, hr⟩ := bind_ok.mp hc
    cases pure_ok.mp hr
    simp [Rx.capNumbers, seqAll, itemNums, capIndex_capIdx T n i hi, ignoreInstAddr, hexCls, clsNotBar]
  | capInstRef n =>
    simp only [comp] at hc
    obtain ⟨i, _, hr⟩ := bind_ok.mp hc
    cases pure_ok.mp hr
    simp [Rx.capNumbers, seqAll, itemNums, ignoreInstAddr, hexCls]
  | _ => simp [elabItemShape] at hs

theorem capNumbers_items (fl : Flags) (T : List Str) : ∀ (items : List Pat), items.all elabItemShape = true → ∀ (cs : List Rx),
    compList fl T items = .ok cs → (seqAll cs).capNumbers = items.flatMap (itemNums T)
  | [], _, cs, hc => by
    simp only [compList] at hc
    cases pure_ok.mp hc
    simp [seqAll, Rx.capNumbers]
  | p :: ps, hs, cs, hc => by
    simp only [List.all_cons, Bool.and_eq_true] at hs
    simp only [compList] at hc
    obtain ⟨r, hr, hc⟩ := bind_ok.mp hc
    obtain ⟨rs, hrs, hc⟩ := bind_ok.mp hc
    cases pure_ok.mp hc
    simp only [seqAll, Rx.capNumbers, List.flatMap_cons, capNumbers_item fl T p hs.1 r hr, capNumbers_items fl T ps hs.2 rs hrs]

/-! ## the numbers the definitions get are 1, 2, … in document order -/

theorem idxOf?_first (c : List Str) (n : Str) (t : List Str) (h : n ∉ c) :
    (c ++ n :: t).idxOf? n = some c.length := by
  induction c with
  | nil => simp [List.idxOf?, List.findIdx?_cons]
  | cons x xs ih =>
    have hx : ¬ x = n := fun e => h (by simp [e])
    have hxs : n ∉ xs := fun m => h (by simp [m])
    have := ih hxs
    simp only [List.idxOf?, List.cons_append, List.findIdx?_cons] at this ⊢
    have hb : (x == n) = false := by simpa using hx
    simp [hb, this]

theorem capIdx_first (c : List Str) (n : Str) (t : List Str) (h : n ∉ c) : capIdx (c ++ n :: t) n = c.length + 1 := by
  simp [capIdx, idxOf?_first c n t h]

theorem elabOps_nums : ∀ (ops : List SOp) (c T rest : List Str), (elabOps ops c).2 ++ rest = T →
    ∃ ext, (elabOps ops c).2 = c ++ ext ∧
      (elabOps ops c).1.flatMap (opNums T) = List.range' (c.length + 1) ext.length ∧
      (elabOps ops c).1.all elabOpShape = true
  | [], c, T, rest, _ => ⟨[], by simp [elabOps], by simp [elabOps], by simp [elabOps]⟩
  | .lit n :: r, c, T, rest, h => by
    obtain ⟨ext, h1, h2, h3⟩ := elabOps_nums r c T rest (by simpa [elabOps] using h)
    exact ⟨ext, by simpa [elabOps] using h1, by simpa [elabOps, opNums] using h2, by simpa [elabOps, elabOpShape] using h3⟩
  | .cap n :: r, c, T, rest, h => by
    by_cases hc : c.contains n = true
    · simp only [elabOps, hc, if_true] at h ⊢
      obtain ⟨ext, h1, h2, h3⟩ := elabOps_nums r c T rest h
      exact ⟨ext, h1, by simpa [opNums] using h2, by simpa [elabOpShape] using h3⟩
    · have hc' : c.contains n = false := by
        cases hh : c.contains n with
        | true => exact absurd hh hc
        | false => rfl
      simp only [elabOps, hc', Bool.false_eq_true, if_false] at h ⊢
      obtain ⟨ext, h1, h2, h3⟩ := elabOps_nums r (c ++ [n]) T rest h
      have hn : n ∉ c := by simpa using hc'
      have hT : T = c ++ n :: (ext ++ rest) := by rw [← h, h1]; simp
      refine ⟨n :: ext, by rw [h1]; simp, ?_, by simpa [elabOpShape] using h3⟩
      simp only [List.flatMap_cons, opNums, List.length_cons]
      rw [h2, hT, capIdx_first c n _ hn]
      simp only [List.length_append, List.length_singleton]
      rw [List.range'_succ]
      simp

theorem elabItems_nums : ∀ (items : List SItem) (c T rest : List Str), (elabItems items c).2 ++ rest = T →
    ∃ ext, (elabItems items c).2 = c ++ ext ∧
      (elabItems items c).1.flatMap (itemNums T) = List.range' (c.length + 1) ext.length ∧
      (elabItems items c).1.all elabItemShape = true
  | [], c, T, rest, _ => ⟨[], by simp [elabItems], by simp [elabItems], by simp [elabItems]⟩
  | .inst m ops :: r, c, T, rest, h => by
    simp only [elabItems] at h ⊢
    obtain ⟨ext2, h21, h22, h23⟩ := elabItems_nums r (elabOps ops c).2 T rest h
    obtain ⟨ext1, h11, h12, h13⟩ := elabOps_nums ops c T (ext2 ++ rest) (by rw [← h, h21]; simp)
    refine ⟨ext1 ++ ext2, by rw [h21, h11]; simp, ?_, ?_⟩
    · have hlen : (elabOps ops c).2.length + 1 = (c.length + 1) + ext1.length := by
        rw [h11]; simp only [List.length_append]; omega
      simp only [List.flatMap_cons, itemNums, h12, h22, hlen, List.length_append]
      rw [List.range'_append_1]
    · simp [elabItemShape, h13, h23]
  | .cap n :: r, c, T, rest, h => by
    by_cases hc : c.contains n = true
    · simp only [elabItems, hc, if_true] at h ⊢
      obtain ⟨ext, h1, h2, h3⟩ := elabItems_nums r c T rest h
      exact ⟨ext, h1, by simpa [itemNums] using h2, by simpa [elabItemShape] using h3⟩
    · have hc' : c.contains n = false := by
        cases hh : c.contains n with
        | true => exact absurd hh hc
        | false => rfl
      simp only [elabItems, hc', Bool.false_eq_true, if_false] at h ⊢
      obtain ⟨ext, h1, h2, h3⟩ := elabItems_nums r (c ++ [n]) T rest h
      have hn : n ∉ c := by simpa using hc'
      have hT : T = c ++ n :: (ext ++ rest) := by rw [← h, h1]; simp
      refine ⟨n :: ext, by rw [h1]; simp, ?_, by simpa [elabItemShape] using h3⟩
      simp only [List.flatMap_cons, itemNums, List.length_cons]
      rw [h2, hT, capIdx_first c n _ hn]
      simp only [List.length_append, List.length_singleton]
      rw [List.range'_succ]
      simp

/-- **C05 (whole compilation)**: the regex `compileTree` returns for the YAML of a capture-spine rule
is the regex `comp` builds from the typed rule of `C05_front_end` and its capture table - the engine's
renumbering of the groups is the identity, because the definitions occur in the text in the order in
which their names were registered -/
theorem C05_compile (fl : Flags) (items : List SItem) (hne : items ≠ []) (h : ∀ it ∈ items, it.OK) (r : Rx)
    (hc : comp fl (elabItems items []).2 (.and (elabItems items []).1 Times.one) = .ok r) :
    compileTree fl (topTree (.list (items.map SItem.y))) = .ok r := by
  obtain ⟨ext, h1, h2, h3⟩ := elabItems_nums items [] (elabItems items []).2 [] (by simp)
  have hcn : r.capNumbers = List.range' 1 r.capNumbers.length := by
    simp only [comp] at hc
    obtain ⟨cs, hcs, hr⟩ := bind_ok.mp hc
    cases pure_ok.mp hr
    have := capNumbers_items fl _ _ h3 cs hcs
    simp only [withTimes, if_true, Rx.capNumbers, this, h2]
    simp
  simp only [compileTree, C05_front_end items hne h, bind, Except.bind, hc, pure, Except.pure]
  rw [renumber_id r 1 hcn]

/-! ## … and on to the matcher -/

/-- the side conditions of the spine theorem, on the rule as written: literal names, and no name used both
for a whole instruction and for an operand -/
def SOp.spineOK (inst : List Str) : SOp → Bool
  | .lit n => litName n && (isHexOperand n == some false)
  | .cap n => !inst.contains n

def SItem.spineOK (inst : List Str) : SItem → Bool
  | .inst m ops => litName m && ops.all (SOp.spineOK inst)
  | .cap n => inst.contains n

theorem elabOps_spine (inst : List Str) : ∀ (ops : List SOp) (c : List Str), ops.all (SOp.spineOK inst) = true →
    (elabOps ops c).1.all (spineOp inst) = true
  | [], _, _ => by simp [elabOps]
  | .lit n :: r, c, h => by
    simp only [List.all_cons, Bool.and_eq_true, SOp.spineOK] at h
    have ih := elabOps_spine inst r c h.2
    simp only [elabOps, List.all_cons, spineOp, Bool.not_false, Bool.true_and, h.1.1, h.1.2, ih, Bool.and_self]
  | .cap n :: r, c, h => by
    simp only [List.all_cons, Bool.and_eq_true, SOp.spineOK] at h
    have ih := elabOps_spine inst r (if c.contains n then c else c ++ [n]) h.2
    have hni : n ∉ inst := by simpa using h.1
    simp only [elabOps, List.all_cons, ih, Bool.and_true]
    split <;> simp [spineOp, hni]

theorem elabItems_spine (inst : List Str) : ∀ (items : List SItem) (c : List Str), items.all (SItem.spineOK inst) = true →
    (elabItems items c).1.all (spineItem inst) = true
  | [], _, _ => by simp [elabItems]
  | .inst m ops :: r, c, h => by
    simp only [List.all_cons, Bool.and_eq_true, SItem.spineOK] at h
    have ih := elabItems_spine inst r (elabOps ops c).2 h.2
    have ho := elabOps_spine inst ops c h.1.2
    simp [elabItems, spineItem, h.1.1, ho, ih]
  | .cap n :: r, c, h => by
    simp only [List.all_cons, Bool.and_eq_true, SItem.spineOK] at h
    have ih := elabItems_spine inst r (if c.contains n then c else c ++ [n]) h.2
    have hi : n ∈ inst := by simpa using h.1
    simp only [elabItems, List.all_cons, ih, Bool.and_true]
    split <;> simp [spineItem, hi]

/-- **C05 (from the YAML text to the matcher)**: the regex the compiler produces for the written rule, run at
the start of an instruction of a well-formed stream, succeeds exactly as the denotation of the rule says, where
the rule's occurrences of a capture name are: the first one in document order binds, every later one must equal
the bound text (`elabItems`), and the groups the engine ends up with are the bindings by name -/
theorem C05_pipeline (fl : Flags) (inst : List Str) (items : List SItem) (hne : items ≠ []) (h : ∀ it ∈ items, it.OK)
    (hsp : items.all (SItem.spineOK inst) = true) (r : Rx)
    (hc : comp fl (elabItems items []).2 (.and (elabItems items []).1 Times.one) = .ok r)
    (L : List Inst) (hL : OkI L) (x : Env × Str) :
    compileTree fl (topTree (.list (items.map SItem.y))) = .ok r ∧
    (x ∈ r.run [] (encAll L) ↔
      ∃ k δ, (k, δ) ∈ denI fl (.and (elabItems items []).1 Times.one) [] L ∧
        x = (toEnv (elabItems items []).2 δ, encAll (L.drop k))) :=
  ⟨C05_compile fl items hne h r hc,
   C05_spine fl _ inst _ (elabItems_spine inst items [] hsp) r hc L hL x⟩

/-- non-vacuity (test): `mov: [&a, &b]`, `&i`, `add: [&a, rcx]`, `&i` meets every hypothesis of `C05_pipeline`
with `inst = [&i]`, and its typed rule compiles -/
example :
    let items : List SItem := [.inst "mov".toList [.cap "&a".toList, .cap "&b".toList], .cap "&i".toList,
               .inst "add".toList [.cap "&a".toList, .lit "rcx".toList], .cap "&i".toList]
    items.all (SItem.spineOK ["&i".toList]) = true ∧
      (match comp ⟨false, false⟩ (elabItems items []).2 (.and (elabItems items []).1 Times.one) with
        | .ok r => r.capNumbers == [1, 2, 3]
        | .error _ => false) = true := by
  decide +kernel

end Jasm.C05

import Jasm.Properties.C03
import Jasm.Proofs.Master
/-!
# C03, the clause "alternatives inside a `$deref` field"

`{$deref: {main_reg: [{$or: [rax, rbx]}], constant_offset: [{$or: [0x8, 0x10]}]}}`: every present
component is an `$or` of literal names.  The compiled operand regex accepts exactly one alternative
per component - nothing is merged across components, no alternative is lost - and such operands are
part of the master theorem's fragment (`derefAltLit` in `Proofs/Master.lean`), so they may appear in
any rule the theorems C01 … C04, C07, C11 quantify over.
-/
namespace Jasm.C03
open Jasm Jasm.C06

/-- **C03 (`$or` inside `$deref` fields)**: at an operand position the compiled `$deref` consumes
exactly one operand, and only an operand that is one of the specification's texts: one alternative
of each present component, registers optionally without `%`, constants optionally without `0x` -/
theorem C03_deref_or (fl : Flags) (caps : List Str) (d : DerefAlt) (hwf : d.WF)
    (hclean : ∀ t ∈ derefTexts d.fields, ∀ c ∈ t, c ≠ ',')
    (r : Rx) (hc : comp fl caps d.toPat = .ok r)
    (T : Str) (f : Str) (fs : List Str) (hf : ∀ c ∈ f, c ≠ ',') (e : Env) (x : Env × Str) :
    x ∈ r.run e (txtO T (f :: fs)) ↔ (f ∈ d.texts ∧ x = (e, txtO T fs)) := by
  obtain ⟨r', hr', hl⟩ := derefAlt_lang fl caps d hwf
  rw [hr'] at hc
  have hrr : r' = r := by simpa using hc
  subst hrr
  rw [lang_field r' _ hl hclean T f fs hf e x, derefTexts_alt d hwf]

/-- non-vacuity (tests): the operand is in the master theorem's fragment; `[%rbx+0x10]` is accepted,
`[%rcx+0x8]` and `[%rax+%rbx]` are not -/
example :
    let d : DerefAlt := ⟨["rax".toList, "rbx".toList], none, none, some ["0x8".toList, "0x10".toList]⟩
    litO d.toPat = true ∧ (derefTexts d.fields).contains "[%rbx+0x10]".toList = true ∧
      (derefTexts d.fields).contains "[rax+8]".toList = false ∧
      (derefTexts d.fields).contains "[%rcx+0x8]".toList = false ∧
      (derefTexts d.fields).contains "[%rax+%rbx]".toList = false := by
  decide +kernel

end Jasm.C03

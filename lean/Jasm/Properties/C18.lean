import Jasm.Model.Stream
/-!
# C18 `valid_addr_range` tags exactly direct calls/jumps that land in the range

Stated on the model of `ValidAddrObserver`, `HexType`, `ValidAddrRange` and the observer loop of the
consumer (`Jasm/Model/Stream.lean`).
-/
namespace Jasm.C18
open Jasm

/-- **tagging rule**: a jump-family instruction whose first operand is a plain hexadecimal number `v`
is rewritten to the single operand `valid_addr` iff `min ≤ v ≤ max` (both bounds inclusive);
address and mnemonic are kept; otherwise it is returned unchanged -/
theorem C18_tag (rng : AddrRange) (i : Inst) (op0 : Str) (rest : List Str) (v : Nat)
    (hops : i.ops = op0 :: rest) (hj : i.mnem ∈ jumpMnemonics)
    (hstar : '*' ∉ op0) (hv : hexVal op0 = .ok v) :
    observeValidAddr rng i =
      .ok (if rng.min ≤ v ∧ v ≤ rng.max then ⟨i.addr, i.mnem, [validAddr]⟩ else i) := by
  unfold observeValidAddr
  simp only [hops, List.contains_iff_mem, hj, hstar, if_true, if_false, hv, bind, Except.bind, pure, Except.pure]
  split <;> rfl

/-- no indirect branch is ever tagged -/
theorem C18_indirect (rng : AddrRange) (i : Inst) (op0 : Str) (rest : List Str)
    (hops : i.ops = op0 :: rest) (hstar : '*' ∈ op0) :
    observeValidAddr rng i = .ok i := by
  unfold observeValidAddr
  simp only [hops, List.contains_iff_mem, hstar, if_true]
  split <;> rfl

/-- no non-branch instruction is ever tagged -/
theorem C18_nonbranch (rng : AddrRange) (i : Inst) (hj : i.mnem ∉ jumpMnemonics) :
    observeValidAddr rng i = .ok i := by
  unfold observeValidAddr
  cases h : i.ops with
  | nil => rfl
  | cons a t => simp only [List.contains_iff_mem, hj, if_false]; rfl

/-- an instruction without operands is never tagged -/
theorem C18_no_operands (rng : AddrRange) (i : Inst) (h : i.ops = []) : observeValidAddr rng i = .ok i := by
  unfold observeValidAddr; simp [h]; rfl

/-- whatever happens, a successfully observed instruction keeps its address and mnemonic, and its
operands are either untouched or exactly `[valid_addr]` -/
theorem C18_shape (rng : AddrRange) (i j : Inst) (h : observeValidAddr rng i = .ok j) :
    j.addr = i.addr ∧ j.mnem = i.mnem ∧ (j.ops = i.ops ∨ j.ops = [validAddr]) := by
  unfold observeValidAddr at h
  split at h
  · cases h; simp
  · split at h
    · split at h
      · cases h; simp
      · simp only [bind, Except.bind] at h
        split at h
        · cases h
        · simp only [pure, Except.pure] at h
          split at h <;> (cases h; simp)
    · cases h; simp

/-- number, order and addresses of the instructions are unaffected (byte-padding pseudo
instructions are dropped with and without the option alike) -/
theorem C18_count_order (rng : AddrRange) (L K : List Inst) (h : processAll (some rng) L = .ok K) :
    K.map (·.addr) = (L.filter (fun i => !(i.mnem == "empty".toList))).map (·.addr) ∧
    K.map (·.mnem) = (L.filter (fun i => !(i.mnem == "empty".toList))).map (·.mnem) := by
  induction L generalizing K with
  | nil => simp [processAll, pure, Except.pure] at h; subst h; simp
  | cons i is ih =>
    simp only [processAll, bind, Except.bind] at h
    split at h
    · cases h
    · rename_i o ho
      split at h
      · cases h
      · rename_i rest hrest
        simp only [pure, Except.pure] at h
        have := ih rest hrest
        unfold processInst at ho
        by_cases he : i.mnem = "empty".toList
        · simp [observeRemoveEmpty, he, pure, Except.pure] at ho
          subst ho
          simp at h; subst h
          have he2 : i.mnem = ['e', 'm', 'p', 't', 'y'] := he
          simp [List.filter_cons, he2, this]
        · simp only [observeRemoveEmpty, he, if_false, bind, Except.bind] at ho
          split at ho
          · cases ho
          · rename_i j hj
            simp only [pure, Except.pure] at ho
            cases ho
            simp at h; subst h
            have hs := C18_shape rng i j hj
            have he2 : ¬ i.mnem = ['e', 'm', 'p', 't', 'y'] := he
            simp [List.filter_cons, he2, this, hs.1, hs.2.1]

/-- without the option no operand is rewritten: the stream instructions are the parsed ones -/
theorem C18_no_option (L : List Inst) :
    processAll none L = .ok (L.filter (fun i => !(i.mnem == "empty".toList))) := by
  induction L with
  | nil => rfl
  | cons i is ih =>
    simp only [processAll, ih, bind, Except.bind, processInst, observeRemoveEmpty]
    by_cases he : i.mnem = "empty".toList
    · have he2 : i.mnem = ['e', 'm', 'p', 't', 'y'] := he
      simp [List.filter_cons, he2, pure, Except.pure]
    · have he2 : ¬ i.mnem = ['e', 'm', 'p', 't', 'y'] := he
      simp [List.filter_cons, he2, pure, Except.pure]

/-! ## "compared numerically as hexadecimal, with or without `0x`" -/

/-- positional value: appending a digit multiplies by 16 -/
theorem hexDigitsVal_append (s : Str) (c : Char) (acc d : Nat) (hd : hexDigitVal c = some d) (n : Nat)
    (h : hexDigitsVal s acc = some n) : hexDigitsVal (s ++ [c]) acc = some (n * 16 + d) := by
  induction s generalizing acc with
  | nil =>
    have : acc = n := by simpa [hexDigitsVal] using h
    subst this
    simp [hexDigitsVal, hd]
  | cons a t ih =>
    simp only [List.cons_append, hexDigitsVal] at h ⊢
    cases hda : hexDigitVal a with
    | none => simp [hda] at h
    | some da => simp only [hda] at h ⊢; exact ih _ h

/-- the `0x` prefix is irrelevant -/
theorem hexVal_0x (s : Str) (h : ¬ "0x".toList.isPrefixOf s = true) :
    hexVal ("0x".toList ++ s) = hexVal s := by
  unfold hexVal
  have e : "0x".toList = ['0', 'x'] := rfl
  rw [e] at h ⊢
  have : (['0', 'x'].isPrefixOf (['0', 'x'] ++ s)) = true := by simp
  simp only [this, if_true, h]
  simp

/-- leading zeros are irrelevant -/
theorem hexDigitsVal_leading_zero (s : Str) : hexDigitsVal ('0' :: s) 0 = hexDigitsVal s 0 := by
  simp [hexDigitsVal, hexDigitVal]

/-- concrete boundary instances (tests, labelled as such): both bounds are inclusive -/
example : observeValidAddr ⟨0x401000, 0x401050⟩ ⟨"4".toList, "call".toList, ["401000".toList]⟩
    = .ok ⟨"4".toList, "call".toList, [validAddr]⟩ := by decide
example : observeValidAddr ⟨0x401000, 0x401050⟩ ⟨"4".toList, "call".toList, ["0x401050".toList]⟩
    = .ok ⟨"4".toList, "call".toList, [validAddr]⟩ := by decide
example : observeValidAddr ⟨0x401000, 0x401050⟩ ⟨"4".toList, "call".toList, ["401051".toList]⟩
    = .ok ⟨"4".toList, "call".toList, ["401051".toList]⟩ := by decide
example : observeValidAddr ⟨0x401000, 0x401050⟩ ⟨"4".toList, "jmp".toList, ["*0x401000(%rip)".toList]⟩
    = .ok ⟨"4".toList, "jmp".toList, ["*0x401000(%rip)".toList]⟩ := by decide

end Jasm.C18

import Jasm.Model.Pipeline
import Jasm.Proofs.Master
/-!
# C19 Every `@macro` reference is expanded or reported, never silently kept

Stated on the model of `MacroExpander.resolve_all_macros` and `Yaml2Regex._get_pattern`
(`Jasm/Model/Macro.lean`, `Jasm/Model/Pipeline.lean`).  A reference is an `@name` anywhere in a string -
list item, operand, dictionary value or dictionary *key* - at its start or inside a longer name
(`%@reg`; repaired defect D16: embedded undefined references used to be kept silently).
-/
namespace Jasm.C19
open Jasm

mutual
/-- no string leaf, dictionary key or dictionary value of the tree contains an `@` -/
def noAt : Y → Bool
  | .str s => !(s.contains '@')
  | .list l => noAtL l
  | .dict d => noAtD d
  | _ => true
def noAtL : List Y → Bool
  | [] => true
  | y :: ys => noAt y && noAtL ys
def noAtD : List (Y × Y) → Bool
  | [] => true
  | (k, v) :: rest => noAt k && noAt v && noAtD rest
end

mutual
theorem findMacroNames_nil (t : Y) : findMacroNames t = [] ↔ noAt t = true := by
  cases t with
  | str s => simp only [findMacroNames, noAt]; split <;> simp_all
  | list l => simp only [findMacroNames, noAt]; exact findMacroNamesL_nil l
  | dict d => simp only [findMacroNames, noAt]; exact findMacroNamesD_nil d
  | int n => simp [findMacroNames, noAt]
  | bool b => simp [findMacroNames, noAt]
  | null => simp [findMacroNames, noAt]
  | float f => simp [findMacroNames, noAt]
theorem findMacroNamesL_nil (l : List Y) : findMacroNamesL l = [] ↔ noAtL l = true := by
  cases l with
  | nil => simp [findMacroNamesL, noAtL]
  | cons y ys =>
    simp only [findMacroNamesL, noAtL, List.append_eq_nil_iff, Bool.and_eq_true]
    rw [findMacroNames_nil y, findMacroNamesL_nil ys]
theorem findMacroNamesD_nil (d : List (Y × Y)) : findMacroNamesD d = [] ↔ noAtD d = true := by
  cases d with
  | nil => simp [findMacroNamesD, noAtD]
  | cons kv rest =>
    obtain ⟨k, v⟩ := kv
    simp only [findMacroNamesD, noAtD, List.append_eq_nil_iff, Bool.and_eq_true]
    rw [findMacroNames_nil k, findMacroNames_nil v, findMacroNamesD_nil rest]
end

/-- **C19**: when expansion succeeds, no `@name` is left anywhere in the expanded tree - list
items, operands, dictionary values and dictionary keys (with a body) alike, whether the reference
came from the rule or from a macro body, and whatever the order of the definitions -/
theorem C19 (macros : List Y) (tree t' : Y) (h : resolveAllMacros macros tree = .ok t') : noAt t' = true := by
  unfold resolveAllMacros at h
  obtain ⟨ms, _, h⟩ := bind_ok.mp h
  split at h
  · cases h
  · obtain ⟨ts, _, h⟩ := bind_ok.mp h
    obtain ⟨t, set⟩ := ts
    simp only at h
    split at h
    · cases h
    · rename_i hne
      cases pure_ok.mp h
      have : set ++ findMacroNames t' = [] := by
        simpa [List.isEmpty_iff] using hne
      exact (findMacroNames_nil t').mp (List.append_eq_nil_iff.mp this).2

/-- ... equivalently: a reference that no definition expands makes the expansion fail -/
theorem C19_reported (macros : List Y) (tree : Y) (ms : List Macro) (t : Y) (set : List Str)
    (hms : macros.mapM macroOfY = .ok ms) (hnames : ms.any (fun m => !isMacroName m.name) = false)
    (hp : resolvePasses ms tree [] = .ok (t, set)) (hleft : noAt t = false) :
    ∃ msg, resolveAllMacros macros tree = .error (.error msg) := by
  unfold resolveAllMacros
  simp only [hms, bind, Except.bind, hnames, Bool.false_eq_true, if_false, hp]
  have : findMacroNames t ≠ [] := by
    intro e; have := (findMacroNames_nil t).mp e; simp [this] at hleft
  have hne : (!(set ++ findMacroNames t).isEmpty) = true := by
    cases hs : set ++ findMacroNames t with
    | nil => exact absurd (List.append_eq_nil_iff.mp hs).2 this
    | cons _ _ => rfl
  simp only [hne, if_true]
  exact ⟨_, rfl⟩

/-- a macro whose own name does not start with `@` is rejected -/
theorem C19_named (macros : List Y) (tree : Y) (ms : List Macro)
    (hms : macros.mapM macroOfY = .ok ms) (hbad : ∃ m ∈ ms, isMacroName m.name = false) :
    ∃ msg, resolveAllMacros macros tree = .error (.error msg) := by
  unfold resolveAllMacros
  have : ms.any (fun m => !isMacroName m.name) = true := by
    obtain ⟨m, hm, hn⟩ := hbad
    exact List.any_eq_true.mpr ⟨m, hm, by simp [hn]⟩
  simp only [hms, bind, Except.bind, this, if_true]
  exact ⟨_, rfl⟩

/-- non-vacuity / regression: the witnesses of the repaired defect D9 are now reported -/
example : resolveAllMacros [.dict [(.str "name".toList, .str "@m".toList), (.str "pattern".toList, .str "x".toList)]]
    (.dict [(.str "$and".toList, .list [.dict [(.str "@nope".toList, .list [.str "rax".toList])]])])
    = fail "The following macros are not defined" := by rfl
/-- regression for the repaired defect D16: an undefined reference inside a longer name is reported,
a defined one is expanded -/
example : resolveAllMacros [.dict [(.str "name".toList, .str "@m".toList), (.str "pattern".toList, .str "x".toList)]]
    (.dict [(.str "$and".toList, .list [.str "@m".toList, .str "a@b".toList])])
    = fail "The following macros are not defined" := by rfl
example : resolveAllMacros [.dict [(.str "name".toList, .str "@m".toList), (.str "pattern".toList, .str "x".toList)]]
    (.dict [(.str "$and".toList, .list [.str "@m".toList, .str "a@m".toList])])
    = .ok (.dict [(.str "$and".toList, .list [.str "x".toList, .str "ax".toList])]) := by rfl

end Jasm.C19

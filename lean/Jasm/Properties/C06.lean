import Jasm.Proofs.DerefLang
import Jasm.Proofs.Master
import Jasm.Properties.C09
/-!
# C06 `$deref` matches exactly the memory operand objdump prints as k(a,b,c)

`DerefSpec` is a `$deref` with literal components (absent fields omitted).  Compiler side: the
compiled regex accepts exactly the texts `derefTexts` lists - `[a+b*c+k]` with the present
components, registers optionally without `%`, constants optionally without `0x` - followed by the
operand separator.  Parser side (C09): an operand printed `k(a,b,c)` is normalised to `[a+b*c+k]`.
End to end: the normal form of the printed operand is one of the accepted texts.
-/
namespace Jasm.C06
open Jasm

/-- **C06 (compiler side)**: the compiled `$deref` accepts exactly the texts `[a+b*c+k]` built from
the present components (registers optionally without `%`, constants optionally without `0x`),
followed by the operand separator - on any input whatsoever -/
theorem C06_rx (fl : Flags) (caps : List Str) (d : DerefSpec) (h : d.WF) (r : Rx) (hc : comp fl caps d.toPat = .ok r)
    (e : Env) (s : Str) (x : Env × Str) :
    x ∈ r.run e s ↔ ∃ t ∈ derefTexts d.fields, s = t ++ ',' :: x.2 ∧ x.1 = e :=
  deref_rx fl caps d h r hc e s x

/-- **C06 (one operand field)**: at an operand position the compiled `$deref` consumes exactly one
field, and only a field that is one of the accepted texts -/
theorem C06_field (fl : Flags) (caps : List Str) (d : DerefSpec) (h : d.WF) (r : Rx) (hc : comp fl caps d.toPat = .ok r)
    (hclean : ∀ t ∈ derefTexts d.fields, ∀ c ∈ t, c ≠ ',')
    (T : Str) (f : Str) (fs : List Str) (hf : ∀ c ∈ f, c ≠ ',') (e : Env) (x : Env × Str) :
    x ∈ r.run e (txtO T (f :: fs)) ↔ (f ∈ derefTexts d.fields ∧ x = (e, txtO T fs)) :=
  deref_field fl caps d h r hc hclean T f fs hf e x

/-- no operand field left: no match -/
theorem C06_no_field (fl : Flags) (caps : List Str) (d : DerefSpec) (h : d.WF) (r : Rx) (hc : comp fl caps d.toPat = .ok r)
    (T : Str) (e : Env) : r.run e (txtO T []) = [] :=
  deref_no_field fl caps d h r hc T e

/-- **C06 (end to end)**: the operand objdump prints as `k(%a,%b,c)` is normalised by the parser to a
text the compiled `$deref {main_reg: a, register_multiplier: b, constant_multiplier: c,
constant_offset: k}` accepts (register names given without `%`) -/
theorem C06_end_to_end (a b c k : Str) (ha : C09.Plain a) (hb : C09.Plain b) (hc : C09.Plain c) (hk : C09.Plain k)
    (hkne : k ≠ []) (hb' : b ≠ []) (hc' : c ≠ []) :
    ∃ t, processOperand (Operand.print (.mem k (some ('%' :: a)) (some ('%' :: b, c)))) = .ok t ∧
      t ∈ derefTexts (DerefSpec.fields ⟨a, some b, some c, some k⟩) := by
  have hpa : C09.Plain ('%' :: a) := by
    intro x hx; simp at hx; rcases hx with rfl | hx
    · exact ⟨by decide, by decide, by decide⟩
    · exact ha x hx
  have hpb : C09.Plain ('%' :: b) := by
    intro x hx; simp at hx; rcases hx with rfl | hx
    · exact ⟨by decide, by decide, by decide⟩
    · exact hb x hx
  refine ⟨_, C09.C09_mem_kabc k (some ('%' :: a)) ('%' :: b) c hk hkne (fun x hx => by cases hx; exact hpa) hpb hc, ?_⟩
  rw [derefTexts_spec _ ⟨fun x hx => by cases hx; exact hb', fun x hx => by cases hx; exact hc', fun x hx => by cases hx; exact hkne⟩]
  simp [Operand.normalForm, DerefSpec.texts, hkne]

/-- the shorter shapes: `k(%a)` against `{main_reg: a, constant_offset: k}`, `(%a)` against `{main_reg: a}` -/
theorem C06_end_to_end_ka (a k : Str) (ha : C09.Plain a) (hk : C09.Plain k) (hkne : k ≠ []) :
    ∃ t, processOperand (Operand.print (.mem k (some ('%' :: a)) none)) = .ok t ∧
      t ∈ derefTexts (DerefSpec.fields ⟨a, none, none, some k⟩) := by
  have hpa : C09.Plain ('%' :: a) := by
    intro x hx; simp at hx; rcases hx with rfl | hx
    · exact ⟨by decide, by decide, by decide⟩
    · exact ha x hx
  refine ⟨_, C09.C09_mem_ka k ('%' :: a) hk hkne hpa, ?_⟩
  have hwf : DerefSpec.WF ⟨a, none, none, some k⟩ := by
    refine ⟨?_, ?_, ?_⟩
    · intro x hx; cases hx
    · intro x hx; cases hx
    · intro x hx; cases hx; exact hkne
  rw [derefTexts_spec _ hwf]
  simp [Operand.normalForm, DerefSpec.texts, hkne]

/-- an operand with an extra component is not accepted: `k(%a,%b,c)` against `{main_reg: a, constant_offset: k}` -/
example : "[%rax+%rbx*4+0x8]".toList ∉ derefTexts (DerefSpec.fields ⟨"rax".toList, none, none, some "0x8".toList⟩) := by decide
/-- ... nor one that differs in a component (scale), nor one with a missing component -/
example : "[%rax+%rbx*8+0x8]".toList ∉ derefTexts (DerefSpec.fields ⟨"rax".toList, some "rbx".toList, some "4".toList, some "0x8".toList⟩) := by decide
example : "[%rax+0x8]".toList ∉ derefTexts (DerefSpec.fields ⟨"rax".toList, some "rbx".toList, some "4".toList, some "0x8".toList⟩) := by decide
/-- non-vacuity: the 16 accepted spellings of a full `$deref` -/
example : (derefTexts (DerefSpec.fields ⟨"rax".toList, some "rbx".toList, some "4".toList, some "8".toList⟩)).length = 16 := by decide

end Jasm.C06

import Jasm.Properties.C02
/-!
# C02: a counted group around a counted item - the two counts do not fold into one range

`{$and: [{x: {times: {min: a, max: b}}}], times: {min: p, max: q}}` is `k` rounds (`p ≤ k ≤ q`) of `a … b` copies of
`x` each: the totals are the `m` with `a*k ≤ m ≤ b*k` for one such `k` - for an exact inner count `n` the multiples
`n*k` only, NOT every total between `n*p` and `n*q`.
-/
namespace Jasm

variable {α : Type}

theorem mem_powDen_zero (d : Den α) (σ : Sigma) (w : List α) (x : Nat × Sigma) :
    x ∈ powDen d 0 σ w ↔ x = (0, σ) := by simp [powDen]

theorem mem_powDen_succ (d : Den α) (n : Nat) (σ : Sigma) (w : List α) (x : Nat × Sigma) :
    x ∈ powDen d (n + 1) σ w ↔ ∃ y ∈ d σ w, ∃ z ∈ powDen d n y.2 (w.drop y.1), x = (y.1 + z.1, z.2) := by
  simp only [powDen, List.mem_flatMap, List.mem_map]
  constructor
  · rintro ⟨⟨k, σ'⟩, hy, ⟨k', σ''⟩, hz, rfl⟩; exact ⟨(k, σ'), hy, (k', σ''), hz, rfl⟩
  · rintro ⟨⟨k, σ'⟩, hy, ⟨k', σ''⟩, hz, rfl⟩; exact ⟨(k, σ'), hy, (k', σ''), hz, rfl⟩

/-- `m + n` copies = `m` copies, then `n` copies on what is left -/
theorem mem_powDen_add (d : Den α) (m n : Nat) (σ : Sigma) (w : List α) (x : Nat × Sigma) :
    x ∈ powDen d (m + n) σ w ↔ ∃ y ∈ powDen d m σ w, ∃ z ∈ powDen d n y.2 (w.drop y.1), x = (y.1 + z.1, z.2) := by
  induction m generalizing σ w x with
  | zero =>
    simp only [Nat.zero_add, mem_powDen_zero]
    constructor
    · intro h; exact ⟨(0, σ), rfl, x, by simpa using h, by simp⟩
    · rintro ⟨y, rfl, z, hz, rfl⟩; simpa using hz
  | succ m ih =>
    rw [show m + 1 + n = (m + n) + 1 by omega, mem_powDen_succ]
    constructor
    · rintro ⟨y, hy, u, hu, rfl⟩
      obtain ⟨y', hy', z, hz, rfl⟩ := (ih _ _ _).mp hu
      refine ⟨(y.1 + y'.1, y'.2), (mem_powDen_succ d m σ w _).mpr ⟨y, hy, y', hy', rfl⟩, z, ?_, ?_⟩
      · simpa [List.drop_drop, Nat.add_comm] using hz
      · simp [Nat.add_assoc]
    · rintro ⟨y, hy, z, hz, rfl⟩
      obtain ⟨y0, hy0, y', hy', rfl⟩ := (mem_powDen_succ d m σ w _).mp hy
      refine ⟨y0, hy0, (y'.1 + z.1, z.2), (ih _ _ _).mpr ⟨y', hy', z, ?_, rfl⟩, ?_⟩
      · simpa [List.drop_drop, Nat.add_comm] using hz
      · simp [Nat.add_assoc]

/-- `powDen` only looks at which results a denotation has -/
theorem mem_powDen_congr (d d' : Den α) (h : ∀ σ w x, x ∈ d σ w ↔ x ∈ d' σ w) (k : Nat) (σ : Sigma) (w : List α)
    (x : Nat × Sigma) : x ∈ powDen d k σ w ↔ x ∈ powDen d' k σ w := by
  induction k generalizing σ w x with
  | zero => simp [powDen]
  | succ k ih =>
    rw [mem_powDen_succ, mem_powDen_succ]
    constructor
    · rintro ⟨y, hy, z, hz, rfl⟩; exact ⟨y, (h _ _ _).mp hy, z, (ih _ _ _).mp hz, rfl⟩
    · rintro ⟨y, hy, z, hz, rfl⟩; exact ⟨y, (h _ _ _).mpr hy, z, (ih _ _ _).mpr hz, rfl⟩

theorem split_total (a b A B m : Nat) (hab : a ≤ b) (hAB : A ≤ B) (h1 : A + a ≤ m) (h2 : m ≤ B + b) :
    ∃ n, a ≤ n ∧ n ≤ b ∧ A ≤ m - n ∧ m - n ≤ B ∧ m = n + (m - n) := by
  rcases Nat.le_total b (m - A) with hb | hb
  · exact ⟨b, hab, Nat.le_refl _, by omega, by omega, by omega⟩
  · exact ⟨m - A, by omega, hb, by omega, by omega, by omega⟩

/-- `k` rounds of between `a` and `b` copies each = `m` copies for some total `a*k ≤ m ≤ b*k` -/
theorem mem_powDen_iterDen (d : Den α) (a b : Nat) (hab : a ≤ b) (k : Nat) (σ : Sigma) (w : List α) (x : Nat × Sigma) :
    x ∈ powDen (iterDen d a b) k σ w ↔ ∃ m, a * k ≤ m ∧ m ≤ b * k ∧ x ∈ powDen d m σ w := by
  induction k generalizing σ w x with
  | zero =>
    simp only [Nat.mul_zero, mem_powDen_zero]
    constructor
    · rintro rfl; exact ⟨0, by omega, by omega, by simp [powDen]⟩
    · rintro ⟨m, _, hm, hx⟩
      have : m = 0 := by omega
      subst this; simpa [powDen] using hx
  | succ k ih =>
    rw [mem_powDen_succ]
    constructor
    · rintro ⟨y, hy, z, hz, rfl⟩
      obtain ⟨n, hn1, hn2, hyn⟩ := (mem_iterDen d a b σ w y).mp hy
      obtain ⟨m, hm1, hm2, hzm⟩ := (ih _ _ _).mp hz
      refine ⟨n + m, ?_, ?_, (mem_powDen_add d n m σ w _).mpr ⟨y, hyn, z, hzm, rfl⟩⟩
      · rw [Nat.mul_succ]; omega
      · rw [Nat.mul_succ]; omega
    · rintro ⟨m, hm1, hm2, hx⟩
      rw [Nat.mul_succ] at hm1 hm2
      -- the first round takes `n = min b (m - a*k)` copies
      have key := split_total a b (a * k) (b * k) m hab (Nat.mul_le_mul_right k hab) hm1 hm2
      obtain ⟨n, hn1, hn2, hr1, hr2, hmn⟩ := key
      rw [hmn] at hx
      obtain ⟨y, hy, z, hz, rfl⟩ := (mem_powDen_add d n (m - n) σ w x).mp hx
      exact ⟨y, (mem_iterDen d a b σ w y).mpr ⟨n, hn1, hn2, hy⟩, z, (ih _ _ _).mpr ⟨m - n, hr1, hr2, hz⟩, rfl⟩

/-- **C02 (nested counts), denotation level.**  A range `{p..q}` around a range `{a..b}` (`a ≤ b`) of `d`. -/
theorem C02_nested_counts_den (d : Den α) (a b p q : Nat) (hab : a ≤ b) (σ : Sigma) (w : List α) (x : Nat × Sigma) :
    x ∈ iterDen (iterDen d a b) p q σ w ↔
      ∃ k m, p ≤ k ∧ k ≤ q ∧ a * k ≤ m ∧ m ≤ b * k ∧ x ∈ powDen d m σ w := by
  rw [mem_iterDen]
  constructor
  · rintro ⟨k, h1, h2, hx⟩
    obtain ⟨m, hm1, hm2, hm⟩ := (mem_powDen_iterDen d a b hab k σ w x).mp hx
    exact ⟨k, m, h1, h2, hm1, hm2, hm⟩
  · rintro ⟨k, m, h1, h2, hm1, hm2, hm⟩
    exact ⟨k, h1, h2, (mem_powDen_iterDen d a b hab k σ w x).mpr ⟨m, hm1, hm2, hm⟩⟩

/-- with an exact inner count `n` the totals are the multiples `n*k`, `p ≤ k ≤ q` -/
theorem C02_nested_exact_den (d : Den α) (n p q : Nat) (σ : Sigma) (w : List α) (x : Nat × Sigma) :
    x ∈ iterDen (iterDen d n n) p q σ w ↔ ∃ k, p ≤ k ∧ k ≤ q ∧ x ∈ powDen d (n * k) σ w := by
  rw [C02_nested_counts_den d n n p q (Nat.le_refl _)]
  constructor
  · rintro ⟨k, m, h1, h2, hm1, hm2, hm⟩
    have : m = n * k := by omega
    subst this; exact ⟨k, h1, h2, hm⟩
  · rintro ⟨k, h1, h2, hm⟩; exact ⟨k, n * k, h1, h2, Nat.le_refl _, Nat.le_refl _, hm⟩

/-- the totals of `{2}` inside `{1..2}` are 2 and 4: 3 is not one of them although `2*1 ≤ 3 ≤ 2*2`;
the totals of `{3}` inside `{0..1}` are 0 and 3: not 1, not 2 -/
theorem C02_counts_do_not_fold :
    (¬ ∃ k, 1 ≤ k ∧ k ≤ 2 ∧ 3 = 2 * k) ∧ (2 * 1 ≤ 3 ∧ 3 ≤ 2 * 2) ∧
    (¬ ∃ k, 0 ≤ k ∧ k ≤ 1 ∧ (1 = 3 * k ∨ 2 = 3 * k)) := by
  refine ⟨?_, by omega, ?_⟩
  · rintro ⟨k, _, _, h⟩; omega
  · rintro ⟨k, _, _, h⟩; omega

/-- a one-element sequence is its element -/
theorem mem_seqDen_single (d : Den α) (σ : Sigma) (w : List α) (x : Nat × Sigma) :
    x ∈ seqDen [d] σ w ↔ x ∈ d σ w := by
  simp only [seqDen, List.mem_flatMap, List.mem_map, List.mem_singleton]
  constructor
  · rintro ⟨⟨k, σ'⟩, hy, z, rfl, rfl⟩; simpa using hy
  · intro h; exact ⟨x, h, (0, x.2), rfl, by simp⟩

/-- `times` in both readings (absent = exactly once) is "between `lo` and `hi` copies" -/
theorem mem_timesDen (d : Den α) (t : Times) (σ : Sigma) (w : List α) (x : Nat × Sigma) :
    x ∈ timesDen d t σ w ↔ ∃ n, t.lo ≤ n ∧ n ≤ t.hi ∧ x ∈ powDen d n σ w := by
  unfold timesDen
  split
  · rename_i h; subst h
    have h1 : ∀ y, y ∈ powDen d 1 σ w ↔ y ∈ d σ w := by
      intro y
      rw [mem_powDen_succ]
      constructor
      · rintro ⟨y', hy', z, hz, rfl⟩
        rw [mem_powDen_zero] at hz; subst hz; simpa using hy'
      · intro hy; exact ⟨y, hy, (0, y.2), by simp [powDen], by simp⟩
    constructor
    · intro hx; exact ⟨1, by simp [Times.one], by simp [Times.one], (h1 x).mpr hx⟩
    · rintro ⟨n, hn1, hn2, hx⟩
      have : n = 1 := by simp [Times.one] at hn1 hn2; omega
      subst this; exact (h1 x).mp hx
  · exact mem_iterDen d t.lo t.hi σ w x

/-- **C02 (nested counts).**  The compiled rule of a group with ONE child, both carrying `times` - the child
`{a..b}` (`a ≤ b`), the group `{lo..hi}` - succeeds on the stream of a listing exactly with `m` consecutive copies of
the un-repeated child, for some number of rounds `k` with `lo ≤ k ≤ hi` and a total `a*k ≤ m ≤ b*k`.  With an exact
inner count the totals are its multiples only (`C02_counts_do_not_fold`): a compiler that folded the two counts
into the single range `{a*lo .. b*hi}` would accept more. -/
theorem C02_nested_group (fl : Flags) (caps : List Str) (p : Pat) (hp : litI p = true) (htimed : p.timedI = true)
    (a b lo hi : Nat) (hab : a ≤ b) (r : Rx)
    (hc : comp fl caps (.and [p.setTimes ⟨a, b⟩] ⟨lo, hi⟩) = .ok r)
    (L : List Inst) (hL : OkI L) (σ : Sigma) (e : Env) (x : Env × Str) :
    x ∈ r.run e (encAll L) ↔
      ∃ kk k m, lo ≤ k ∧ k ≤ hi ∧ a * k ≤ m ∧ m ≤ b * k ∧
        (kk, σ) ∈ powDen (denI fl (p.setTimes Times.one)) m σ L ∧ x = (e, encAll (L.drop kk)) := by
  have hlit : litI (.and [p.setTimes ⟨a, b⟩] ⟨lo, hi⟩) = true := by
    simp [litI, litIL, litI_setTimes, hp]
  have hm := masterI fl caps _ hlit r hc
  rw [hm.run_iff σ e L x hL]
  have hden : ∀ y, y ∈ denI fl (.and [p.setTimes ⟨a, b⟩] ⟨lo, hi⟩) σ L ↔
      ∃ k m, lo ≤ k ∧ k ≤ hi ∧ a * k ≤ m ∧ m ≤ b * k ∧ y ∈ powDen (denI fl (p.setTimes Times.one)) m σ L := by
    intro y
    have e1 : denI fl (.and [p.setTimes ⟨a, b⟩] ⟨lo, hi⟩) σ L
        = timesDen (seqDen [denI fl (p.setTimes ⟨a, b⟩)]) ⟨lo, hi⟩ σ L := by
      simp only [denI, denIL]
    rw [e1, mem_timesDen]
    have inner : ∀ σ' w z, z ∈ seqDen [denI fl (p.setTimes ⟨a, b⟩)] σ' w ↔
        z ∈ iterDen (denI fl (p.setTimes Times.one)) a b σ' w := by
      intro σ' w z
      rw [mem_seqDen_single, denI_setTimes fl p htimed, mem_timesDen, mem_iterDen]
    constructor
    · rintro ⟨k, h1, h2, hy⟩
      have hy' := (mem_powDen_congr _ _ inner k σ L y).mp hy
      obtain ⟨m, hm1, hm2, hym⟩ := (mem_powDen_iterDen _ a b hab k σ L y).mp hy'
      exact ⟨k, m, h1, h2, hm1, hm2, hym⟩
    · rintro ⟨k, m, h1, h2, hm1, hm2, hym⟩
      exact ⟨k, h1, h2, (mem_powDen_congr _ _ inner k σ L y).mpr
        ((mem_powDen_iterDen _ a b hab k σ L y).mpr ⟨m, hm1, hm2, hym⟩)⟩
  constructor
  · rintro ⟨kk, hk, rfl⟩
    obtain ⟨k, m, h1, h2, h3, h4, h5⟩ := (hden _).mp hk
    exact ⟨kk, k, m, h1, h2, h3, h4, h5, rfl⟩
  · rintro ⟨kk, k, m, h1, h2, h3, h4, h5, rfl⟩
    exact ⟨kk, (hden _).mpr ⟨k, m, h1, h2, h3, h4, h5⟩, rfl⟩

/-- the hypotheses are met: `{$and: [{nop: {times: 2}}], times: {min: 1, max: 2}}` compiles, its child is a literal
timed item -/
example : litI (.mnem "nop".toList [] Times.one) = true ∧ (Pat.mnem "nop".toList [] Times.one).timedI = true ∧
    (comp ⟨false, false⟩ [] (.and [(Pat.mnem "nop".toList [] Times.one).setTimes ⟨2, 2⟩] ⟨1, 2⟩)).toOption.isSome = true := by
  decide +kernel

end Jasm

import Jasm.Model.Cli
import Jasm.Properties.C12
/-!
# C20 The `jasm` command reports what the library computes

On the model of `parse_arguments.py`, `main.py` and the logging of `MatchedObserver`
(`Jasm/Model/Cli.lean`).  argparse internals, the logging handlers and the interpreter's exit status
convention are runtime behaviour: the correspondence check runs `python -m jasm.main` itself.
-/
namespace Jasm.C20
open Jasm

structure Opts where
  pattern : Str
  input : Str
  binary : Bool
  allMatches : Bool
  addrOnly : Bool
  macros : List Str

def renderArgs (o : Opts) : List Str :=
  ["-p".toList, o.pattern, (if o.binary then "-b".toList else "-s".toList), o.input] ++
    (if o.allMatches then ["--all-matches".toList] else []) ++
    (if o.addrOnly then ["--return_only_address".toList] else []) ++
    (match o.macros with | [] => [] | m :: ms => "--macros".toList :: m :: ms)

structure Opts.WF (o : Opts) : Prop where
  pattern_plain : isOptionLike o.pattern = false
  input_plain : isOptionLike o.input = false
  input_ne : o.input ≠ []
  macros_plain : ∀ m ∈ o.macros, isOptionLike m = false

theorem takeValues_all (l : List Str) (h : ∀ m ∈ l, isOptionLike m = false) : takeValues l = (l, []) := by
  induction l with
  | nil => rfl
  | cons m ms ih =>
    simp only [takeValues, h m (by simp), Bool.false_eq_true, if_false, ih (fun x hx => h x (by simp [hx]))]

theorem parseTokens_nil (fuel : Nat) (ns : Namespace) : parseTokens fuel [] ns = .ok ns := by
  cases fuel <;> rfl

/-- **option plumbing**: for every combination of `-s`/`-b`, `--all-matches`, `--return_only_address`
and `--macros` (any number of files, in order), the configuration handed to the library is exactly
the one the options describe -/
theorem C20_args (o : Opts) (h : o.WF) :
    (parseArgs (renderArgs o)).bind toMatchConfig =
      .ok ⟨o.pattern, o.input, if o.binary then .binary else .assembly,
           if o.allMatches then .all else .first, o.addrOnly, o.macros⟩ := by
  obtain ⟨p, i, b, am, ao, ms⟩ := o
  obtain ⟨hp, hi, hne, hm⟩ := h
  simp only at hp hi hne hm
  have hie : i.isEmpty = false := by cases i <;> simp_all
  cases ms with
  | nil =>
    cases b <;> cases am <;> cases ao <;>
      simp [parseArgs, renderArgs, parseTokens, hp, hi, toMatchConfig, hie, Except.bind, parseTokens_nil]
  | cons m ms =>
    have htv := takeValues_all (m :: ms) hm
    cases b <;> cases am <;> cases ao <;>
      simp [parseArgs, renderArgs, parseTokens, hp, hi, toMatchConfig, hie, Except.bind, parseTokens_nil, htv]

/-- the namespace never holds both `-b` and `-s` (mutually exclusive group) -/
theorem exclusive (fuel : Nat) (argv : List Str) (ns ns' : Namespace)
    (h : parseTokens fuel argv ns = .ok ns') (h0 : ¬ (ns.binary.isSome ∧ ns.assembly.isSome)) :
    ¬ (ns'.binary.isSome ∧ ns'.assembly.isSome) := by
  induction fuel generalizing argv ns with
  | zero =>
    cases argv with
    | nil => simp [parseTokens] at h; subst h; exact h0
    | cons t rest => simp [parseTokens] at h
  | succ fuel ih =>
    cases argv with
    | nil => simp [parseTokens] at h; subst h; exact h0
    | cons t rest =>
      simp only [parseTokens] at h
      repeat' split at h
      all_goals first
        | (cases h; done)
        | (apply ih _ _ h; simp_all; done)
        | (apply ih _ _ h; exact h0)

/-- **required arguments**: every accepted command line has a pattern and exactly one of `-s` / `-b` -/
theorem C20_required (argv : List Str) (ns : Namespace) (h : parseArgs argv = .ok ns) :
    ns.pattern.isSome ∧ (ns.binary.isSome ∨ ns.assembly.isSome) ∧ ¬ (ns.binary.isSome ∧ ns.assembly.isSome) := by
  unfold parseArgs at h
  split at h
  · cases h
  · rename_i ns0 h0
    split at h
    · cases h
    · rename_i hpat
      split at h
      · cases h
      · rename_i hone
        cases h
        refine ⟨by cases hh : ns.pattern <;> simp_all, ?_, exclusive _ _ _ _ h0 (by simp)⟩
        cases hb : ns.binary <;> cases ha : ns.assembly <;> simp_all

/-- a command line without `-p` is rejected; one without `-s`/`-b` is rejected; one with both is rejected -/
example : parseArgs [ "-s".toList, "a.s".toList ] = .error (.usage "the following arguments are required: -p/--pattern") := by decide
example : parseArgs [ "-p".toList, "r.yaml".toList ] = .error (.usage "one of the arguments -b/--binary -s/--assembly is required") := by decide
example : parseArgs [ "-p".toList, "r.yaml".toList, "-s".toList, "a.s".toList, "-b".toList, "a.out".toList ]
    = .error (.usage "not allowed with argument -s/--assembly") := by decide

/-- **log lines**: one `Matched address:` line per element of the API's list, in order, then the
RESULT line; `RESULT: Pattern found` appears iff the API's boolean is true -/
theorem C20_log (r : Rx) (mode : SearchMode) (ao : Bool) (s : Str) :
    logLines (reported r mode ao s) =
      (reported r mode ao s).map (fun a => "Matched address: ".toList ++ a) ++
        [if (reported r mode ao s).isEmpty then "RESULT: Pattern not found".toList else "RESULT: Pattern found".toList] := by
  unfold logLines
  have : (runObserver (reported r mode ao s)).matched = !(reported r mode ao s).isEmpty := by
    simp [runObserver, C12.observer_matched]
  rw [this]
  cases (reported r mode ao s).isEmpty <;> simp

/-- a failing operation gives a non-zero exit status; a successful one gives 0 -/
theorem C20_exit {α : Type} (ns : Namespace) (outcome : M α) :
    exitStatus (.ok ns) outcome = 0 ↔ ∃ v, outcome = .ok v := by
  unfold exitStatus
  cases outcome <;> simp

theorem C20_exit_usage {α : Type} (e : CliErr) (outcome : M α) : exitStatus (.error e) outcome ≠ 0 := by
  simp [exitStatus]

/-- non-vacuity: a full command line -/
example : (parseArgs (renderArgs ⟨"r.yaml".toList, "a.out".toList, true, true, true, ["m1.yaml".toList, "m2.yaml".toList]⟩)).bind toMatchConfig
    = .ok ⟨"r.yaml".toList, "a.out".toList, .binary, .all, true, ["m1.yaml".toList, "m2.yaml".toList]⟩ := by decide

end Jasm.C20

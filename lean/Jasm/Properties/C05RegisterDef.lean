import Jasm.Properties.C05Register
/-!
# C05, register families: what the FIRST occurrence binds on a register name, and the pair theorem

The first occurrence of a register-family capture is too permissive (findings D5/D15: it ignores its own width suffix
and is not anchored).  What it does right is proved here: on the name of a register of its family - at ANY width,
with or without `%` - it succeeds and binds the family text (`a b c d` / `s d` / `sp` / `bp`), which is what later
occurrences (`C05_register_call_field`) re-assemble into the name at their own width.
-/
namespace Jasm

/-- the family texts of the x86 table -/
def famTexts : RFam → List Str
  | .gen => [['a'], ['b'], ['c'], ['d']]
  | .ind => [['s'], ['d']]
  | .stack => [['s', 'p']]
  | .base => [['b', 'p']]

theorem optPct_pass (p : Str) (hp : p ∈ optCh '%') (e : Env) (s : Str) : (e, s) ∈ optionalPercent.run e (p ++ s) := by
  simp only [optCh, List.mem_cons, List.mem_nil_iff, or_false] at hp
  rcases hp with rfl | rfl
  · exact mem_optPercent.mpr (.inl ⟨_, rfl, rfl⟩)
  · exact mem_optPercent.mpr (.inr rfl)

theorem optComma_pass (e : Env) (s : Str) : (e, s) ∈ optionalComma.run e (',' :: s) :=
  mem_optComma.mpr (.inl ⟨_, rfl, rfl⟩)

/-- `[re]?` in front of the family part -/
theorem optWidth_pass (wl : Str) (hwl : wl ∈ [[], ['r'], ['e']]) (e : Env) (s : Str) :
    (e, s) ∈ (Rx.opt (.cls false [.ch 'r', .ch 'e'])).run e (wl ++ s) := by
  simp only [List.mem_cons, List.mem_nil_iff, or_false] at hwl
  rcases hwl with rfl | rfl | rfl
  · exact mem_opt.mpr (.inr rfl)
  · exact mem_opt.mpr (.inl (mem_cls.mpr ⟨'r', _, rfl, by decide, rfl⟩))
  · exact mem_opt.mpr (.inl (mem_cls.mpr ⟨'e', _, rfl, by decide, rfl⟩))

theorem optL_pass (tl : Str) (htl : tl ∈ optCh 'l') (e : Env) (s : Str) : (e, s) ∈ (Rx.opt (.chr 'l')).run e (tl ++ s) := by
  simp only [optCh, List.mem_cons, List.mem_nil_iff, or_false] at htl
  rcases htl with rfl | rfl
  · exact mem_opt.mpr (.inl (mem_chr.mpr ⟨_, rfl, rfl⟩))
  · exact mem_opt.mpr (.inr rfl)

/-- the shape of every first occurrence: `%? [re]? slice ,?` -/
def regDefRx (slice : Rx) : Rx :=
  seqAll [optionalPercent, .opt (.cls false [.ch 'r', .ch 'e']), slice, optionalComma]

theorem regDefRx_run (slice : Rx) (p wl body R : Str) (hp : p ∈ optCh '%') (hwl : wl ∈ [[], ['r'], ['e']])
    (e e' : Env) (hs : (e', ',' :: R) ∈ slice.run e (body ++ ',' :: R)) :
    (e', R) ∈ (regDefRx slice).run e (p ++ wl ++ body ++ ',' :: R) := by
  simp only [regDefRx, seqAll]
  refine mem_seq.mpr ⟨(e, wl ++ body ++ ',' :: R), by simpa using optPct_pass p hp e (wl ++ body ++ ',' :: R), ?_⟩
  refine mem_seq.mpr ⟨(e, body ++ ',' :: R), by simpa using optWidth_pass wl hwl e (body ++ ',' :: R), ?_⟩
  refine mem_seq.mpr ⟨(e', ',' :: R), hs, ?_⟩
  exact mem_seq.mpr ⟨(e', R), optComma_pass e' R, mem_eps.mpr rfl⟩

/-- `&genreg`: `(.)[xhl]` -/
theorem slice_gen (i : Nat) (c t : Char) (hc : c ≠ '\n') (ht : t ∈ ['x', 'h', 'l']) (e : Env) (s : Str) :
    ((i, [c]) :: e, s) ∈ (Rx.seq (.cap i .any) (.cls false [.ch 'x', .ch 'h', .ch 'l'])).run e (c :: t :: s) := by
  refine mem_seq.mpr ⟨((i, [c]) :: e, t :: s), mem_cap.mpr ⟨(e, t :: s), by simp [Rx.run, hc], by simp⟩, ?_⟩
  refine mem_cls.mpr ⟨t, _, rfl, ?_, rfl⟩
  simp only [List.mem_cons, List.mem_nil_iff, or_false] at ht
  rcases ht with rfl | rfl | rfl <;> decide

/-- `&indreg`: `([sd])il?` -/
theorem slice_ind (i : Nat) (c : Char) (hc : c ∈ ['s', 'd']) (tl : Str) (htl : tl ∈ optCh 'l') (e : Env) (s : Str) :
    ((i, [c]) :: e, s) ∈ (seqAll [.cap i (.cls false [.ch 's', .ch 'd']), .chr 'i', .opt (.chr 'l')]).run e
      (c :: 'i' :: (tl ++ s)) := by
  simp only [seqAll]
  refine mem_seq.mpr ⟨((i, [c]) :: e, 'i' :: (tl ++ s)), mem_cap.mpr ⟨(e, 'i' :: (tl ++ s)), ?_, by simp⟩, ?_⟩
  · refine mem_cls.mpr ⟨c, _, rfl, ?_, rfl⟩
    simp only [List.mem_cons, List.mem_nil_iff, or_false] at hc
    rcases hc with rfl | rfl <;> decide
  · refine mem_seq.mpr ⟨((i, [c]) :: e, tl ++ s), mem_chr.mpr ⟨_, rfl, rfl⟩, ?_⟩
    exact mem_seq.mpr ⟨((i, [c]) :: e, s), optL_pass tl htl _ s, mem_eps.mpr rfl⟩

/-- `&stackreg` / `&basereg`: `(sp)l?` / `(bp)l?` -/
theorem slice_two (i : Nat) (a b : Char) (tl : Str) (htl : tl ∈ optCh 'l') (e : Env) (s : Str) :
    ((i, [a, b]) :: e, s) ∈ (seqAll [.cap i (lit [a, b]), .opt (.chr 'l')]).run e (a :: b :: (tl ++ s)) := by
  simp only [seqAll]
  have hlen : List.length tl + List.length s + 1 + 1 - (List.length tl + List.length s) = 2 := by omega
  refine mem_seq.mpr ⟨((i, [a, b]) :: e, tl ++ s), mem_cap.mpr ⟨(e, tl ++ s), ?_, by simp [hlen]⟩, ?_⟩
  · exact mem_lit.mpr ⟨_, rfl, rfl⟩
  · exact mem_seq.mpr ⟨((i, [a, b]) :: e, s), optL_pass tl htl _ s, mem_eps.mpr rfl⟩

/-- the family-specific middle of a first occurrence -/
def sliceOf : RFam → Nat → Rx
  | .gen, i => .seq (.cap i .any) (.cls false [.ch 'x', .ch 'h', .ch 'l'])
  | .ind, i => seqAll [.cap i (.cls false [.ch 's', .ch 'd']), .chr 'i', .opt (.chr 'l')]
  | .stack, i => seqAll [.cap i (lit "sp".toList), .opt (.chr 'l')]
  | .base, i => seqAll [.cap i (lit "bp".toList), .opt (.chr 'l')]

/-- what a first occurrence compiles to (its width suffix plays no part: finding D5) -/
theorem comp_regDef (fl : Flags) (caps : List Str) (name : Str) (fam : RFam) (i : Nat)
    (hf : famOf name = some fam) (hi : caps.idxOf? (removeAccessSuffix name) = some i) :
    comp fl caps (.regDef name) = .ok (regDefRx (sliceOf fam (i + 1))) := by
  obtain ⟨f1, f2, f3, f4⟩ := famOf_tests hf
  rw [comp]
  simp only [capIndex, hi, bind, Except.bind, pure, Except.pure]
  cases fam <;> simp_all [regDefSlice, regDefRx, sliceOf, seqAll, pure, Except.pure]

theorem sliceOf_run (fam : RFam) (w : RWidth) (g nm : Str) (hg : g ∈ famTexts fam) (hnm : regNameAt fam w g = some nm)
    (i : Nat) (p : Str) (hp : p ∈ optCh '%') (e : Env) (R : Str) :
    ((i, g) :: e, R) ∈ (regDefRx (sliceOf fam i)).run e (p ++ nm ++ ',' :: R) := by
  cases fam
  · -- general-purpose: r?x / e?x / ?x / ?h / ?l
    simp only [famTexts, List.mem_cons, List.mem_nil_iff, or_false] at hg
    have hgen : ∀ (c : Char), c ≠ '\n' → ∀ (wl : Str), wl ∈ [[], ['r'], ['e']] → ∀ t ∈ ['x', 'h', 'l'],
        ((i, [c]) :: e, R) ∈ (regDefRx (sliceOf .gen i)).run e (p ++ wl ++ [c, t] ++ ',' :: R) := by
      intro c hc wl hwl t ht
      exact regDefRx_run _ p wl [c, t] R hp hwl e _ (slice_gen i c t hc ht e (',' :: R))
    cases w <;> simp only [regNameAt, Option.some.injEq] at hnm <;> subst hnm
    · rcases hg with rfl | rfl | rfl | rfl <;> simpa using hgen _ (by decide) ['r'] (by simp) 'x' (by simp)
    · rcases hg with rfl | rfl | rfl | rfl <;> simpa using hgen _ (by decide) ['e'] (by simp) 'x' (by simp)
    · rcases hg with rfl | rfl | rfl | rfl <;> simpa using hgen _ (by decide) [] (by simp) 'x' (by simp)
    · rcases hg with rfl | rfl | rfl | rfl <;> simpa using hgen _ (by decide) [] (by simp) 'h' (by simp)
    · rcases hg with rfl | rfl | rfl | rfl <;> simpa using hgen _ (by decide) [] (by simp) 'l' (by simp)
  · -- index registers: r?i / e?i / ?i / ?il
    simp only [famTexts, List.mem_cons, List.mem_nil_iff, or_false] at hg
    have hind : ∀ (c : Char), c ∈ ['s', 'd'] → ∀ (wl : Str), wl ∈ [[], ['r'], ['e']] → ∀ tl ∈ optCh 'l',
        ((i, [c]) :: e, R) ∈ (regDefRx (sliceOf .ind i)).run e (p ++ wl ++ (c :: 'i' :: tl) ++ ',' :: R) := by
      intro c hc wl hwl tl htl
      refine regDefRx_run _ p wl (c :: 'i' :: tl) R hp hwl e _ ?_
      simpa [sliceOf] using slice_ind i c hc tl htl e (',' :: R)
    cases w <;> simp only [regNameAt, Option.some.injEq, reduceCtorEq] at hnm <;> try subst hnm
    · rcases hg with rfl | rfl <;> simpa using hind _ (by simp) ['r'] (by simp) [] (by simp [optCh])
    · rcases hg with rfl | rfl <;> simpa using hind _ (by simp) ['e'] (by simp) [] (by simp [optCh])
    · rcases hg with rfl | rfl <;> simpa using hind _ (by simp) [] (by simp) [] (by simp [optCh])
    · rcases hg with rfl | rfl <;> simpa using hind _ (by simp) [] (by simp) ['l'] (by simp [optCh])
  · -- stack pointer
    simp only [famTexts, List.mem_cons, List.mem_nil_iff, or_false] at hg
    subst hg
    have htwo : ∀ (wl : Str), wl ∈ [[], ['r'], ['e']] → ∀ tl ∈ optCh 'l',
        ((i, ['s', 'p']) :: e, R) ∈ (regDefRx (sliceOf .stack i)).run e (p ++ wl ++ ('s' :: 'p' :: tl) ++ ',' :: R) := by
      intro wl hwl tl htl
      refine regDefRx_run _ p wl ('s' :: 'p' :: tl) R hp hwl e _ ?_
      simpa [sliceOf] using slice_two i 's' 'p' tl htl e (',' :: R)
    cases w <;> simp only [regNameAt, Option.some.injEq, reduceCtorEq] at hnm <;> try subst hnm
    · simpa using htwo ['r'] (by simp) [] (by simp [optCh])
    · simpa using htwo ['e'] (by simp) [] (by simp [optCh])
    · simpa using htwo [] (by simp) [] (by simp [optCh])
    · simpa using htwo [] (by simp) ['l'] (by simp [optCh])
  · -- frame pointer
    simp only [famTexts, List.mem_cons, List.mem_nil_iff, or_false] at hg
    subst hg
    have htwo : ∀ (wl : Str), wl ∈ [[], ['r'], ['e']] → ∀ tl ∈ optCh 'l',
        ((i, ['b', 'p']) :: e, R) ∈ (regDefRx (sliceOf .base i)).run e (p ++ wl ++ ('b' :: 'p' :: tl) ++ ',' :: R) := by
      intro wl hwl tl htl
      refine regDefRx_run _ p wl ('b' :: 'p' :: tl) R hp hwl e _ ?_
      simpa [sliceOf] using slice_two i 'b' 'p' tl htl e (',' :: R)
    cases w <;> simp only [regNameAt, Option.some.injEq, reduceCtorEq] at hnm <;> try subst hnm
    · simpa using htwo ['r'] (by simp) [] (by simp [optCh])
    · simpa using htwo ['e'] (by simp) [] (by simp [optCh])
    · simpa using htwo [] (by simp) [] (by simp [optCh])
    · simpa using htwo [] (by simp) ['l'] (by simp [optCh])

/-- **C05, register families, first occurrence.**  On the name of a register of its family - any width, with or
without `%` - followed by the field's comma, the first occurrence succeeds, consumes the field and binds the family text
under the number of its key. -/
theorem C05_register_def_binds (fl : Flags) (caps : List Str) (name : Str) (fam : RFam) (i : Nat)
    (hf : famOf name = some fam) (hi : caps.idxOf? (removeAccessSuffix name) = some i)
    (w : RWidth) (g nm : Str) (hg : g ∈ famTexts fam) (hnm : regNameAt fam w g = some nm)
    (p : Str) (hp : p ∈ optCh '%') (e : Env) (R : Str) :
    ∃ rx, comp fl caps (.regDef name) = .ok rx ∧ ((i + 1, g) :: e, R) ∈ rx.run e (p ++ nm ++ ',' :: R) :=
  ⟨_, comp_regDef fl caps name fam i hf hi, sliceOf_run fam w g nm hg hnm (i + 1) p hp e R⟩

/-- **C05, register families, the pair.**  Bound on `%`+the name of register `g` of the family at width `w₁`, the
name's later occurrence with the suffix of width `w₂` consumes an operand field `f` **iff** `f` is (with or without
`%`) the name of the SAME register `g` at width `w₂`. -/
theorem C05_register_pair (fl : Flags) (caps : List Str) (n₁ n₂ : Str) (fam : RFam) (i : Nat)
    (hf₁ : famOf n₁ = some fam) (hf₂ : famOf n₂ = some fam)
    (hi₁ : caps.idxOf? (removeAccessSuffix n₁) = some i) (hi₂ : caps.idxOf? (removeAccessSuffix n₂) = some i)
    (w₁ w₂ : RWidth) (hw₂ : widthOf n₂ = some w₂) (g nm₁ : Str) (hg : g ∈ famTexts fam)
    (hnm : regNameAt fam w₁ g = some nm₁) (r₂ : Rx) (hc₂ : comp fl caps (.regRef n₂) = .ok r₂)
    (e : Env) (R f R' : Str) (hcl : ∀ c ∈ f, c ≠ ',') :
    ∃ r₁, comp fl caps (.regDef n₁) = .ok r₁ ∧ ∃ e₁, (e₁, R) ∈ r₁.run e ('%' :: nm₁ ++ ',' :: R) ∧
      e₁.lookup (i + 1) = some g ∧
      ((∃ x ∈ r₂.run e₁ (f ++ ',' :: R'), x.2 = R') ↔
        ∃ nm₂, regNameAt fam w₂ g = some nm₂ ∧ (f = nm₂ ∨ f = '%' :: nm₂)) := by
  obtain ⟨r₁, hr₁, hrun⟩ := C05_register_def_binds fl caps n₁ fam i hf₁ hi₁ w₁ g nm₁ hg hnm ['%'] (by simp [optCh]) e R
  refine ⟨r₁, hr₁, (i + 1, g) :: e, by simpa using hrun, by simp, ?_⟩
  have hgc : ∀ t, ((i + 1, g) :: e).lookup (i + 1) = some t → ∀ c ∈ t, c ≠ ',' := by
    intro t ht c hc
    simp at ht; subst ht
    cases fam <;> simp [famTexts] at hg <;> rcases hg with rfl | rfl | rfl | rfl <;> simp at hc <;> 
      (first | (rcases hc with rfl | rfl <;> decide) | (subst hc; decide))
  rw [C05_register_call_field fl caps n₂ fam w₂ i hf₂ hw₂ hi₂ r₂ hc₂ _ f R' hcl hgc]
  constructor
  · rintro ⟨g', nm, hl, hn, hfm⟩
    simp at hl; subst hl; exact ⟨nm, hn, hfm⟩
  · rintro ⟨nm, hn, hfm⟩; exact ⟨g, nm, by simp, hn, hfm⟩

/-- the hypotheses of the pair theorem are met by `push: [&indreg-1]` … `mov: [&indreg-1.8l, …]` on `%rdi`: the later
occurrence then accepts `%dil` / `dil` and nothing else (not `%dl`, the low byte of another register) -/
example : famOf "&indreg-1".toList = some .ind ∧ famOf "&indreg-1.8l".toList = some .ind ∧
    ["&indreg-1".toList].idxOf? (removeAccessSuffix "&indreg-1".toList) = some 0 ∧
    ["&indreg-1".toList].idxOf? (removeAccessSuffix "&indreg-1.8l".toList) = some 0 ∧
    widthOf "&indreg-1.8l".toList = some .w8l ∧ ['d'] ∈ famTexts .ind ∧
    regNameAt .ind .w64 ['d'] = some "rdi".toList ∧ regNameAt .ind .w8l ['d'] = some "dil".toList ∧
    (comp ⟨false, false⟩ ["&indreg-1".toList] (.regRef "&indreg-1.8l".toList)).toOption.isSome = true := by
  decide +kernel

end Jasm

import Jasm.Properties.C02
import Jasm.Properties.C03Verdict
/-!
# C02 at the level of the whole operation: `times: n` and writing the item `n` times are interchangeable

Two rule files that differ only in that one top-level item (or group) carries `times: n` in the first
and is written `n` times in a row in the second give the same Boolean result of the whole modelled
operation on every listing file of the grammar.
-/
namespace Jasm.C02
open Jasm Jasm.FrontEnd

theorem mem_seqDen_append {α : Type} (ds₁ ds₂ : List (Den α)) (σ : Sigma) (w : List α) (x : Nat × Sigma) :
    x ∈ seqDen (ds₁ ++ ds₂) σ w ↔
      ∃ k₁ σ₁ k₂ σ₂, (k₁, σ₁) ∈ seqDen ds₁ σ w ∧ (k₂, σ₂) ∈ seqDen ds₂ σ₁ (w.drop k₁) ∧ x = (k₁ + k₂, σ₂) := by
  induction ds₁ generalizing σ w x with
  | nil =>
    simp only [List.nil_append, seqDen, List.mem_singleton, Prod.mk.injEq]
    constructor
    · intro h; exact ⟨0, σ, x.1, x.2, ⟨rfl, rfl⟩, by simpa using h, by simp⟩
    · rintro ⟨k₁, σ₁, k₂, σ₂, ⟨rfl, rfl⟩, h2, rfl⟩; simpa using h2
  | cons d ds ih =>
    simp only [List.cons_append, seqDen, List.mem_flatMap, List.mem_map, Prod.exists]
    constructor
    · rintro ⟨k, σ', hk, k', σ'', hk', rfl⟩
      obtain ⟨k₁, σ₁, k₂, σ₂, h1, h2, he⟩ := (ih σ' (w.drop k) (k', σ'')).mp hk'
      simp only [Prod.mk.injEq] at he
      refine ⟨k + k₁, σ₁, k₂, σ₂, ⟨k, σ', hk, k₁, σ₁, h1, rfl⟩, ?_, by simp [he.1, he.2, Nat.add_assoc]⟩
      rw [List.drop_drop] at h2
      exact h2
    · rintro ⟨k₁, σ₁, k₂, σ₂, ⟨k, σ', hk, k', σ'', hk', he⟩, h2, rfl⟩
      simp only [Prod.mk.injEq] at he
      refine ⟨k, σ', hk, k' + k₂, σ₂, ?_, by simp [← he.1, Nat.add_assoc]⟩
      apply (ih σ' (w.drop k) (k' + k₂, σ₂)).mpr
      refine ⟨k', σ'', k₂, σ₂, hk', ?_, rfl⟩
      rw [List.drop_drop, he.1, he.2]
      exact h2

/-- sequential composition is a congruence in its middle part -/
theorem seqDen_congr_mid {α : Type} (pre A B post : List (Den α))
    (h : ∀ σ w x, x ∈ seqDen A σ w ↔ x ∈ seqDen B σ w) (σ : Sigma) (w : List α) (x : Nat × Sigma) :
    x ∈ seqDen (pre ++ A ++ post) σ w ↔ x ∈ seqDen (pre ++ B ++ post) σ w := by
  simp only [List.append_assoc, mem_seqDen_append]
  constructor
  · rintro ⟨k₁, σ₁, k₂, σ₂, h1, ⟨a, σa, b, σb, ha, hb, he⟩, rfl⟩
    exact ⟨k₁, σ₁, k₂, σ₂, h1, ⟨a, σa, b, σb, (h _ _ _).mp ha, hb, he⟩, rfl⟩
  · rintro ⟨k₁, σ₁, k₂, σ₂, h1, ⟨a, σa, b, σb, ha, hb, he⟩, rfl⟩
    exact ⟨k₁, σ₁, k₂, σ₂, h1, ⟨a, σa, b, σb, (h _ _ _).mpr ha, hb, he⟩, rfl⟩

theorem mem_seqDen_single {α : Type} (d : Den α) (σ : Sigma) (w : List α) (x : Nat × Sigma) :
    x ∈ seqDen [d] σ w ↔ x ∈ d σ w := by
  simp only [seqDen, List.mem_flatMap, List.mem_map, List.mem_singleton, Prod.exists, Prod.mk.injEq]
  constructor
  · rintro ⟨k, σ', hk, k', σ'', ⟨rfl, rfl⟩, rfl⟩; simpa using hk
  · intro h; exact ⟨x.1, x.2, h, 0, x.2, ⟨rfl, rfl⟩, by simp⟩

/-- the verdict specification only depends on which successes the denotation has -/
theorem foundSpec_congr (fl : Flags) (p₁ p₂ : Pat)
    (h : ∀ σ L x, x ∈ denI fl p₁ σ L ↔ x ∈ denI fl p₂ σ L) (L : List Inst) :
    foundSpec fl p₁ L = foundSpec fl p₂ L := by
  unfold foundSpec occursAt
  congr 1
  funext i
  have : (denI fl p₁ [] (L.drop i) = []) ↔ (denI fl p₂ [] (L.drop i) = []) := by
    simp only [List.eq_nil_iff_forall_not_mem]
    constructor
    · intro h1 x hx; exact h1 x ((h _ _ x).mpr hx)
    · intro h1 x hx; exact h1 x ((h _ _ x).mp hx)
  cases h1 : denI fl p₁ [] (L.drop i) with
  | nil =>
    rw [this.mp h1]
  | cons a as =>
    cases h2 : denI fl p₂ [] (L.drop i) with
    | nil => rw [this.mpr h2] at h1; cases h1
    | cons b bs => simp

/-- **C02 (denotation of the whole rule)**: inside any rule, `p` with `times: n` may be replaced by `p`
written `n` times in a row -/
theorem C02_rule_den (fl : Flags) (pre post : List Pat) (p : Pat) (htimed : p.timedI = true) (n : Nat) (hn : n ≠ 1)
    (σ : Sigma) (L : List Inst) (x : Nat × Sigma) :
    x ∈ denI fl (.and (pre ++ [p.setTimes ⟨n, n⟩] ++ post) Times.one) σ L ↔
      x ∈ denI fl (.and (pre ++ List.replicate n (p.setTimes Times.one) ++ post) Times.one) σ L := by
  simp only [denI, timesDen_one, denIL_eq_map, List.map_append, List.map_cons, List.map_nil]
  apply seqDen_congr_mid
  intro σ' w y
  rw [mem_seqDen_single, C02_unroll_den fl p htimed n hn σ' w y]
  simp only [denI, timesDen_one, denIL_eq_map]

/-- **C02 (whole operation)**: the rule file with `times: n` on one item or group and the rule file with
that item or group written `n` times give the same verdict of `runOp` on every listing file of the grammar -/
theorem C02_pipeline (fl : Flags) (pre post : List Pat) (p : Pat) (htimed : p.timedI = true) (n : Nat) (hn : n ≠ 1)
    (l₁ l₂ : List Pat) (h₁ : l₁ = pre ++ [p.setTimes ⟨n, n⟩] ++ post)
    (h₂ : l₂ = pre ++ List.replicate n (p.setTimes Times.one) ++ post)
    (hne₁ : l₁.isEmpty = false) (hne₂ : l₂.isEmpty = false) (hsrc₁ : srcIL l₁ = true) (hsrc₂ : srcIL l₂ = true)
    (hlit₁ : litI (.and l₁ Times.one) = true) (hlit₂ : litI (.and l₂ Times.one) = true)
    (hnn₁ : nonNull (.and l₁ Times.one) = true) (hnn₂ : nonNull (.and l₂ Times.one) = true)
    (r₁ r₂ : Rx) (hc₁ : comp fl [] (.and l₁ Times.one) = .ok r₁) (hc₂ : comp fl [] (.and l₂ Times.one) = .ok r₂)
    (ls : List LineSpec) (hls : ls ≠ []) (hwf : ∀ x ∈ ls, C08.LineSpec.WF x) (hA : OkA (expectedInsts ls))
    (w : World) (path : Str) (hread : w.readFile path = .ok (renderListing ls)) (s : Config) (addrOnly : Bool) :
    (runOp w s ⟨.ok (docOf fl (.list (yIL l₁))), [], .assembly, path, .first, addrOnly, .bool⟩).2 =
      (runOp w s ⟨.ok (docOf fl (.list (yIL l₂))), [], .assembly, path, .first, addrOnly, .bool⟩).2 := by
  rw [C03.C03_pipeline fl l₁ hne₁ hsrc₁ hlit₁ hnn₁ r₁ hc₁ ls hls hwf hA w path hread s addrOnly,
    C03.C03_pipeline fl l₂ hne₂ hsrc₂ hlit₂ hnn₂ r₂ hc₂ ls hls hwf hA w path hread s addrOnly]
  subst h₁ h₂
  rw [foundSpec_congr fl _ _ (fun σ L x => C02_rule_den fl pre post p htimed n hn σ L x)]

end Jasm.C02

import Jasm.Proofs.Captures
/-!
# C05, register families: what a LATER occurrence matches

"Each occurrence matches exactly that register's name at the width its suffix selects."  The first
occurrence of a register-family capture violates this (known findings D5, D15: it ignores its suffix and is
not anchored); this file proves the part of the clause that does hold of the code: a later occurrence
`&genreg….W` / `&indreg….W` / `&stackreg….W` / `&basereg….W`, compiled against a table in which its key
has number `i`, accepts exactly the name the x86 register table gives for the bound family text at width `W`
(optionally preceded by `%`, optionally followed by `,`), and nothing when the group is unset.

`regNameAt` is the specification: the architecture's naming table as a total function, written without
looking at the compiler's templates.
-/
namespace Jasm

inductive RFam where | gen | ind | stack | base
  deriving DecidableEq, Repr
inductive RWidth where | w64 | w32 | w16 | w8h | w8l
  deriving DecidableEq, Repr

/-- the x86-64 naming table: family text `g` (`a b c d` / `s d` / `sp` / `bp`) at a width.
`none`: the architecture has no such register (`%sih`, `%sph`, `%bph` do not exist). -/
def regNameAt : RFam → RWidth → Str → Option Str
  | .gen, .w64, g => some ('r' :: g ++ ['x'])       -- rax rbx rcx rdx
  | .gen, .w32, g => some ('e' :: g ++ ['x'])       -- eax …
  | .gen, .w16, g => some (g ++ ['x'])              -- ax …
  | .gen, .w8h, g => some (g ++ ['h'])              -- ah …
  | .gen, .w8l, g => some (g ++ ['l'])              -- al …
  | .ind, .w64, g => some ('r' :: g ++ ['i'])       -- rsi rdi
  | .ind, .w32, g => some ('e' :: g ++ ['i'])
  | .ind, .w16, g => some (g ++ ['i'])
  | .ind, .w8l, g => some (g ++ ['i', 'l'])         -- sil dil
  | .ind, .w8h, _ => none
  | _, .w64, g => some ('r' :: g)                   -- rsp rbp
  | _, .w32, g => some ('e' :: g)
  | _, .w16, g => some g
  | _, .w8l, g => some (g ++ ['l'])                 -- spl bpl
  | _, .w8h, _ => none

/-- family of a capture name: its documented prefix -/
def famOf (name : Str) : Option RFam :=
  if "&genreg".toList.isPrefixOf name then some .gen
  else if "&indreg".toList.isPrefixOf name then some .ind
  else if "&stackreg".toList.isPrefixOf name then some .stack
  else if "&basereg".toList.isPrefixOf name then some .base
  else none

/-- width of a capture name: its documented (lower-case) suffix; the five suffixes exclude each other -/
def widthOf (name : Str) : Option RWidth :=
  if endsWithStr "64" name then some .w64
  else if endsWithStr "32" name then some .w32
  else if endsWithStr "16" name then some .w16
  else if endsWithStr "8h" name then some .w8h
  else if endsWithStr "8l" name then some .w8l
  else none

/-- a suffix test with a two-character suffix decides the last two characters: two different suffixes
never hold together (so the order of the tests in `widthOf` and in the compiler is immaterial) -/
theorem endsWith_unique (a b : String) (name : Str) (hl : a.toList.length = b.toList.length)
    (ha : endsWithStr a name = true) (hb : endsWithStr b name = true) : a.toList = b.toList := by
  simp only [endsWithStr, List.isSuffixOf_iff_suffix] at ha hb
  obtain ⟨p, hp⟩ := ha
  obtain ⟨q, hq⟩ := hb
  have := hp.trans hq.symm
  exact (List.append_inj' this hl).2

/-- text accepted by `%?` -/
theorem mem_optPercent {e s} {x : Env × Str} :
    x ∈ optionalPercent.run e s ↔ (∃ s', s = '%' :: s' ∧ x = (e, s')) ∨ x = (e, s) := by
  unfold optionalPercent
  rw [mem_opt, mem_chr]

theorem mem_optComma {e s} {x : Env × Str} :
    x ∈ optionalComma.run e s ↔ (∃ s', s = ',' :: s' ∧ x = (e, s')) ∨ x = (e, s) := by
  unfold optionalComma
  rw [mem_opt, mem_chr]

/-- a run of literal characters in front of a sequence -/
theorem mem_chrs_seqAll (cs : Str) (rest : List Rx) (e : Env) (s : Str) (x : Env × Str) :
    x ∈ (seqAll (cs.map Rx.chr ++ rest)).run e s ↔ ∃ s', s = cs ++ s' ∧ x ∈ (seqAll rest).run e s' := by
  induction cs generalizing s with
  | nil => simp
  | cons c cs ih =>
    simp only [List.map_cons, List.cons_append]
    rw [mem_seqAll_cons]
    constructor
    · rintro ⟨y, hy, hx⟩
      obtain ⟨s1, rfl, rfl⟩ := mem_chr.mp hy
      obtain ⟨s', rfl, h⟩ := (ih _).mp hx
      exact ⟨s', rfl, h⟩
    · rintro ⟨s', rfl, h⟩
      exact ⟨(e, cs ++ s'), mem_chr.mpr ⟨_, rfl, rfl⟩, (ih _).mpr ⟨s', rfl, h⟩⟩

/-- zero or one of a character, as a text -/
def optCh (c : Char) : List Str := [[c], []]

/-- The shape every register call compiles to: `%? pre \i ,? suf ,?`.  It accepts exactly
`[%] pre g [,] suf [,]` where `g` is the text bound to group `i`; with the group unset it accepts nothing. -/
theorem regCall_run (pre suf : Str) (i : Nat) (e : Env) (s : Str) (x : Env × Str) :
    x ∈ (seqAll [optionalPercent,
          seqAll (pre.map Rx.chr ++ (Rx.seq (.bref i) optionalComma :: suf.map Rx.chr)), optionalComma]).run e s ↔
      ∃ g, e.lookup i = some g ∧ ∃ p ∈ optCh '%', ∃ c1 ∈ optCh ',', ∃ c2 ∈ optCh ',',
        s = p ++ pre ++ g ++ c1 ++ suf ++ c2 ++ x.2 ∧ x.1 = e := by
  have inner : ∀ (s : Str) (y : Env × Str),
      y ∈ (seqAll (pre.map Rx.chr ++ (Rx.seq (.bref i) optionalComma :: suf.map Rx.chr))).run e s ↔
        ∃ g, e.lookup i = some g ∧ ∃ c1 ∈ optCh ',', s = pre ++ g ++ c1 ++ suf ++ y.2 ∧ y.1 = e := by
    intro s y
    rw [mem_chrs_seqAll]
    constructor
    · rintro ⟨s', rfl, h⟩
      rw [mem_seqAll_cons] at h
      obtain ⟨z, hz, h⟩ := h
      rw [mem_seq] at hz
      obtain ⟨w, hw, hz⟩ := hz
      obtain ⟨g, s1, hl, rfl, rfl⟩ := mem_bref.mp hw
      have h' := h
      rw [show suf.map Rx.chr = suf.map Rx.chr ++ [] by simp, mem_chrs_seqAll] at h'
      obtain ⟨s2, hs2, h'⟩ := h'
      rw [mem_seqAll_nil] at h'
      rcases mem_optComma.mp hz with ⟨s3, hs3, rfl⟩ | rfl
      · simp only at hs2 hs3
        subst hs3; subst hs2
        refine ⟨g, hl, [','], by simp [optCh], ?_, by rw [h']⟩
        rw [h']; simp
      · simp only at hs2
        subst hs2
        refine ⟨g, hl, [], by simp [optCh], ?_, by rw [h']⟩
        rw [h']; simp
    · rintro ⟨g, hl, c1, hc1, rfl, hy⟩
      refine ⟨g ++ c1 ++ suf ++ y.2, by simp, ?_⟩
      rw [mem_seqAll_cons]
      refine ⟨(e, suf ++ y.2), ?_, ?_⟩
      · rw [mem_seq]
        refine ⟨(e, c1 ++ suf ++ y.2), mem_bref.mpr ⟨g, _, hl, by simp, rfl⟩, ?_⟩
        simp only [optCh, List.mem_cons, List.mem_nil_iff, or_false] at hc1
        rcases hc1 with rfl | rfl
        · exact mem_optComma.mpr (.inl ⟨_, rfl, rfl⟩)
        · exact mem_optComma.mpr (.inr (by simp))
      · rw [show suf.map Rx.chr = suf.map Rx.chr ++ [] by simp, mem_chrs_seqAll]
        exact ⟨y.2, rfl, by rw [mem_seqAll_nil, ← hy]⟩
  rw [mem_seqAll_cons]
  constructor
  · rintro ⟨y, hy, hx⟩
    rw [mem_seqAll_cons] at hx
    obtain ⟨z, hz, hx⟩ := hx
    rw [mem_seqAll_cons] at hx
    obtain ⟨w, hw, hx⟩ := hx
    rw [mem_seqAll_nil] at hx
    subst hx
    have hy1 : y.1 = e := by
      rcases mem_optPercent.mp hy with ⟨_, _, rfl⟩ | rfl <;> rfl
    rw [show y = (e, y.2) by rw [← hy1]] at hz
    obtain ⟨g, hl, c1, hc1, hs, hz1⟩ := (inner _ _).mp hz
    have hw' := hw
    rw [show z = (e, z.2) by rw [← hz1]] at hw'
    rcases mem_optPercent.mp hy with ⟨s1, rfl, hy'⟩ | hy'
    · rw [hy'] at hs
      simp only at hs
      rcases mem_optComma.mp hw' with ⟨s3, hs3, rfl⟩ | rfl
      · refine ⟨g, hl, ['%'], by simp [optCh], c1, hc1, [','], by simp [optCh], ?_, rfl⟩
        simp only at hs3 ⊢
        rw [hs, hs3]; simp
      · refine ⟨g, hl, ['%'], by simp [optCh], c1, hc1, [], by simp [optCh], ?_, rfl⟩
        simp only
        rw [hs]; simp
    · rw [hy'] at hs
      simp only at hs
      rcases mem_optComma.mp hw' with ⟨s3, hs3, rfl⟩ | rfl
      · refine ⟨g, hl, [], by simp [optCh], c1, hc1, [','], by simp [optCh], ?_, rfl⟩
        simp only at hs3 ⊢
        rw [hs, hs3]; simp
      · refine ⟨g, hl, [], by simp [optCh], c1, hc1, [], by simp [optCh], ?_, rfl⟩
        simp only
        rw [hs]; simp
  · rintro ⟨g, hl, p, hp, c1, hc1, c2, hc2, rfl, hx1⟩
    refine ⟨(e, pre ++ g ++ c1 ++ suf ++ c2 ++ x.2), ?_, ?_⟩
    · simp only [optCh, List.mem_cons, List.mem_nil_iff, or_false] at hp
      rcases hp with rfl | rfl
      · exact mem_optPercent.mpr (.inl ⟨_, by simp, rfl⟩)
      · exact mem_optPercent.mpr (.inr (by simp))
    · rw [mem_seqAll_cons]
      refine ⟨(e, c2 ++ x.2), (inner _ _).mpr ⟨g, hl, c1, hc1, by simp, rfl⟩, ?_⟩
      rw [mem_seqAll_cons]
      refine ⟨x, ?_, by rw [mem_seqAll_nil]⟩
      simp only [optCh, List.mem_cons, List.mem_nil_iff, or_false] at hc2
      rcases hc2 with rfl | rfl
      · exact mem_optComma.mpr (.inl ⟨x.2, rfl, by cases x; simp_all⟩)
      · exact mem_optComma.mpr (.inr (by simp [← hx1]))

/-- the literal characters the templates put around the family text -/
def regPieces : RFam → RWidth → Option (Str × Str)
  | .gen, .w64 => some (['r'], ['x'])
  | .gen, .w32 => some (['e'], ['x'])
  | .gen, .w16 => some ([], ['x'])
  | .gen, .w8h => some ([], ['h'])
  | .gen, .w8l => some ([], ['l'])
  | .ind, .w64 => some (['r'], ['i'])
  | .ind, .w32 => some (['e'], ['i'])
  | .ind, .w16 => some ([], ['i'])
  | .ind, .w8l => some ([], ['i', 'l'])
  | .ind, .w8h => none
  | .stack, .w64 => some (['r'], [])
  | .stack, .w32 => some (['e'], [])
  | .stack, .w16 => some ([], [])
  | .stack, .w8l => some ([], ['l'])
  | .stack, .w8h => none
  | .base, .w64 => some (['r'], [])
  | .base, .w32 => some (['e'], [])
  | .base, .w16 => some ([], [])
  | .base, .w8l => some ([], ['l'])
  | .base, .w8h => none

theorem regNameAt_pieces (fam : RFam) (w : RWidth) (g : Str) :
    regNameAt fam w g = (regPieces fam w).map fun ps => ps.1 ++ g ++ ps.2 := by
  cases fam <;> cases w <;> simp [regNameAt, regPieces]

theorem widthOf_tests {name : Str} {w : RWidth} (h : widthOf name = some w) :
    endsWithStr "64" name = decide (w = .w64) ∧ endsWithStr "32" name = decide (w = .w32) ∧
    endsWithStr "16" name = decide (w = .w16) ∧ endsWithStr "8h" name = decide (w = .w8h) ∧
    endsWithStr "8l" name = decide (w = .w8l) := by
  have ex : ∀ (a b : String), a.toList.length = b.toList.length → a.toList ≠ b.toList →
      endsWithStr a name = true → endsWithStr b name = false := by
    intro a b hl hne ha
    cases hb : endsWithStr b name with
    | false => rfl
    | true => exact absurd (endsWith_unique a b name hl ha hb) hne
  unfold widthOf at h
  split at h
  · rename_i h1
    cases h
    refine ⟨by simp [h1], ?_, ?_, ?_, ?_⟩ <;> simp <;> exact ex "64" _ (by decide) (by decide) h1
  · rename_i h1
    split at h
    · rename_i h2
      cases h
      refine ⟨by simpa using h1, by simp [h2], ?_, ?_, ?_⟩ <;> simp <;> exact ex "32" _ (by decide) (by decide) h2
    · rename_i h2
      split at h
      · rename_i h3
        cases h
        refine ⟨by simpa using h1, by simpa using h2, by simp [h3], ?_, ?_⟩ <;> simp <;>
          exact ex "16" _ (by decide) (by decide) h3
      · rename_i h3
        split at h
        · rename_i h4
          cases h
          refine ⟨by simpa using h1, by simpa using h2, by simpa using h3, by simp [h4], ?_⟩
          simp; exact ex "8h" _ (by decide) (by decide) h4
        · rename_i h4
          split at h
          · rename_i h5
            cases h
            exact ⟨by simpa using h1, by simpa using h2, by simpa using h3, by simpa using h4, by simp [h5]⟩
          · cases h

theorem famOf_tests {name : Str} {fam : RFam} (h : famOf name = some fam) :
    ("&genreg".toList.isPrefixOf name = decide (fam = .gen)) ∧
    (fam ≠ .gen → "&indreg".toList.isPrefixOf name = decide (fam = .ind)) ∧
    (fam ≠ .gen → fam ≠ .ind → "&stackreg".toList.isPrefixOf name = decide (fam = .stack)) ∧
    (fam = .base → "&basereg".toList.isPrefixOf name = true) := by
  unfold famOf at h
  split at h
  · rename_i h1; cases h
    exact ⟨by rw [h1]; rfl, fun h => absurd rfl h, fun h => absurd rfl h, fun h => by cases h⟩
  · rename_i h1
    have h1' := Bool.eq_false_iff.mpr h1
    split at h
    · rename_i h2; cases h
      exact ⟨by rw [h1']; rfl, fun _ => by rw [h2]; rfl, fun _ h => absurd rfl h, fun h => by cases h⟩
    · rename_i h2
      have h2' := Bool.eq_false_iff.mpr h2
      split at h
      · rename_i h3; cases h
        exact ⟨by rw [h1']; rfl, fun _ => by rw [h2']; rfl, fun _ _ => by rw [h3]; rfl, fun h => by cases h⟩
      · rename_i h3
        have h3' := Bool.eq_false_iff.mpr h3
        split at h
        · rename_i h4; cases h
          exact ⟨by rw [h1']; rfl, fun _ => by rw [h2']; rfl, fun _ _ => by rw [h3']; rfl, fun _ => h4⟩
        · cases h

/-- what a later occurrence compiles to -/
theorem comp_regRef (fl : Flags) (caps : List Str) (name : Str) (fam : RFam) (w : RWidth) (i : Nat)
    (hf : famOf name = some fam) (hw : widthOf name = some w)
    (hi : caps.idxOf? (removeAccessSuffix name) = some i) :
    comp fl caps (.regRef name) =
      match regPieces fam w with
      | some (pre, suf) => .ok (seqAll [optionalPercent,
          seqAll (pre.map Rx.chr ++ (Rx.seq (.bref (i + 1)) optionalComma :: suf.map Rx.chr)), optionalComma])
      | none => fail "NotImplementedError" := by
  obtain ⟨w1, w2, w3, w4, w5⟩ := widthOf_tests hw
  obtain ⟨f1, f2, f3, f4⟩ := famOf_tests hf
  rw [comp]
  simp only [capIndex, hi, bind, Except.bind, pure, Except.pure]
  cases fam <;> cases w <;>
    simp_all [regCallRule, regPieces, seqAll, fail, pure, Except.pure, bind, Except.bind]

theorem regPieces_clean {fam : RFam} {w : RWidth} {pre suf : Str} (h : regPieces fam w = some (pre, suf)) :
    (∀ c ∈ pre, c ≠ ',') ∧ (∀ c ∈ suf, c ≠ ',') := by
  cases fam <;> cases w <;> simp [regPieces] at h <;> obtain ⟨rfl, rfl⟩ := h <;> simp

/-- **C05, register families, later occurrences (texts).**  For a name of family `fam` and width `w` whose key has
number `i + 1` in the capture table, the compiled later occurrence accepts exactly `[%] pre g [,] suf [,]` where `g`
is the text bound to the family's group and `pre`/`suf` are the letters the x86 table puts around it at that width;
with the group unset it accepts nothing; for a width the family does not have, compilation fails. -/
theorem C05_register_call (fl : Flags) (caps : List Str) (name : Str) (fam : RFam) (w : RWidth) (i : Nat)
    (hf : famOf name = some fam) (hw : widthOf name = some w)
    (hi : caps.idxOf? (removeAccessSuffix name) = some i) :
    (regPieces fam w = none → comp fl caps (.regRef name) = fail "NotImplementedError") ∧
    ∀ pre suf, regPieces fam w = some (pre, suf) → ∃ rx, comp fl caps (.regRef name) = .ok rx ∧
      ∀ (e : Env) (s : Str) (x : Env × Str), x ∈ rx.run e s ↔
        ∃ g, e.lookup (i + 1) = some g ∧ ∃ p ∈ optCh '%', ∃ c1 ∈ optCh ',', ∃ c2 ∈ optCh ',',
          s = p ++ pre ++ g ++ c1 ++ suf ++ c2 ++ x.2 ∧ x.1 = e := by
  have hc := comp_regRef fl caps name fam w i hf hw hi
  constructor
  · intro hn; rw [hc, hn]
  · intro pre suf hp
    rw [hp] at hc
    exact ⟨_, hc, fun e s x => regCall_run pre suf (i + 1) e s x⟩

/-- one operand field, comma-free, followed by its comma: which fields does a piece-wise text fill exactly? -/
theorem field_split (A suf f c1 c2 : Str) (hA : ∀ c ∈ A, c ≠ ',') (hs : ∀ c ∈ suf, c ≠ ',') (hf : ∀ c ∈ f, c ≠ ',')
    (hc1 : c1 ∈ optCh ',') (hc2 : c2 ∈ optCh ',') (h : A ++ c1 ++ suf ++ c2 = f ++ [',']) : A ++ suf = f := by
  simp only [optCh, List.mem_cons, List.mem_nil_iff, or_false] at hc1 hc2
  rcases hc1 with rfl | rfl <;> rcases hc2 with rfl | rfl
  · -- `A , suf ,`
    have h' : A ++ [','] ++ suf = f := List.append_cancel_right (by simpa using h)
    exact absurd rfl (hf ',' (by rw [← h']; simp))
  · -- `A , suf`
    rcases List.eq_nil_or_concat suf with rfl | ⟨suf', c, rfl⟩
    · simp only [List.append_nil] at h ⊢
      exact List.append_cancel_right h
    · have h2 : (A ++ [','] ++ suf') ++ [c] = f ++ [','] := by simpa using h
      have h' := (List.append_inj' h2 rfl).1
      exact absurd rfl (hf ',' (by rw [← h']; simp))
  · -- `A suf ,`
    exact List.append_cancel_right (by simpa using h)
  · -- `A suf`
    have : ',' ∈ A ++ suf := by
      have : ',' ∈ f ++ [','] := by simp
      rw [← h] at this; simpa using this
    rcases List.mem_append.mp this with h1 | h1
    · exact absurd rfl (hA _ h1)
    · exact absurd rfl (hs _ h1)

/-- **C05, register families, later occurrences (operand fields).**  On an operand field `f` (comma-free, followed by
its comma) a later occurrence consumes the whole field **iff** `f` is - with or without `%` - the name `regNameAt`
gives for the bound family text at the suffix's width: the same architectural register at that width, no other
register, no other width.  (The occurrence is not anchored at the end of the field - part of finding D5 - so this is a
statement about matches that end at the field's end.) -/
theorem C05_register_call_field (fl : Flags) (caps : List Str) (name : Str) (fam : RFam) (w : RWidth) (i : Nat)
    (hf : famOf name = some fam) (hw : widthOf name = some w)
    (hi : caps.idxOf? (removeAccessSuffix name) = some i) (rx : Rx) (hc : comp fl caps (.regRef name) = .ok rx)
    (e : Env) (f R : Str) (hcl : ∀ c ∈ f, c ≠ ',') (he : ∀ t, e.lookup (i + 1) = some t → ∀ c ∈ t, c ≠ ',') :
    (∃ x ∈ rx.run e (f ++ ',' :: R), x.2 = R) ↔
      ∃ g nm, e.lookup (i + 1) = some g ∧ regNameAt fam w g = some nm ∧ (f = nm ∨ f = '%' :: nm) := by
  obtain ⟨hnone, hsome⟩ := C05_register_call fl caps name fam w i hf hw hi
  cases hp : regPieces fam w with
  | none => rw [hnone hp] at hc; cases hc
  | some ps =>
    obtain ⟨pre, suf⟩ := ps
    obtain ⟨rx', hrx', hrun⟩ := hsome pre suf hp
    rw [hc] at hrx'; cases hrx'
    obtain ⟨hpre, hsuf⟩ := regPieces_clean hp
    have hnm : ∀ g, regNameAt fam w g = some (pre ++ g ++ suf) := by
      intro g; rw [regNameAt_pieces, hp]; rfl
    constructor
    · rintro ⟨x, hx, hx2⟩
      obtain ⟨g, hl, p, hpm, c1, hc1, c2, hc2, hs, _⟩ := (hrun e _ x).mp hx
      refine ⟨g, _, hl, hnm g, ?_⟩
      rw [hx2] at hs
      have hs' : (p ++ pre ++ g) ++ c1 ++ suf ++ c2 = f ++ [','] := by
        apply List.append_cancel_right (bs := R)
        simpa using hs.symm
      have hA : ∀ c ∈ p ++ pre ++ g, c ≠ ',' := by
        intro c hcm
        simp only [List.mem_append] at hcm
        rcases hcm with (hcm | hcm) | hcm
        · simp only [optCh, List.mem_cons, List.mem_nil_iff, or_false] at hpm
          rcases hpm with rfl | rfl
          · simp at hcm; rw [hcm]; decide
          · simp at hcm
        · exact hpre c hcm
        · exact he g hl c hcm
      have := field_split _ suf f c1 c2 hA hsuf hcl hc1 hc2 hs'
      simp only [optCh, List.mem_cons, List.mem_nil_iff, or_false] at hpm
      rcases hpm with rfl | rfl
      · right; rw [← this]; simp
      · left; rw [← this]; simp
    · rintro ⟨g, nm, hl, hn, hfm⟩
      rw [hnm g] at hn; cases hn
      refine ⟨(e, R), (hrun e _ _).mpr ⟨g, hl, ?_⟩, rfl⟩
      rcases hfm with rfl | rfl
      · exact ⟨[], by simp [optCh], [], by simp [optCh], [','], by simp [optCh], by simp, rfl⟩
      · exact ⟨['%'], by simp [optCh], [], by simp [optCh], [','], by simp [optCh], by simp, rfl⟩

/-- the table at work: family text `d` of `&indreg` at `.8l` is `dil` (not `dl`), of `&genreg` at `.32` is `edx` -/
example : regNameAt .ind .w8l ['d'] = some "dil".toList ∧ regNameAt .gen .w32 ['d'] = some "edx".toList ∧
    regNameAt .stack .w16 "sp".toList = some "sp".toList ∧ regNameAt .base .w8h "bp".toList = none := by decide

/-- the hypotheses are met by the documented spellings -/
example : famOf "&indreg-1.8l".toList = some .ind ∧ widthOf "&indreg-1.8l".toList = some .w8l ∧
    removeAccessSuffix "&indreg-1.8l".toList = "&indreg-1".toList ∧
    famOf "&genreg.tmp.64".toList = some .gen ∧ widthOf "&genreg.tmp.64".toList = some .w64 := by decide

end Jasm

import Jasm.Properties.C16
import Jasm.Model.Pipeline
/-!
# C16, whole operation: every result of `runOp` depends on the listing file only through its instructions

For ANY rule document (macros, captures, `valid_addr_range`, anything), any extra macro files, any
search and return mode: two listing files of the objdump grammar whose instruction lines stand for
the same instruction sequence give the same outcome (result or error) of the whole modelled operation.
-/
namespace Jasm.C16
open Jasm Jasm.C08

def keep (i : Inst) : Bool := !(i.mnem == "empty".toList)

/-- the observer chain drops `empty` pseudo instructions before anything else looks at them -/
theorem processAll_filter (rng : Option AddrRange) (L : List Inst) :
    processAll rng L = processAll rng (L.filter keep) := by
  induction L with
  | nil => rfl
  | cons i is ih =>
    by_cases he : i.mnem = "empty".toList
    · have hk : keep i = false := by simp [keep, he]
      have hp : processInst rng i = .ok none := by
        simp [processInst, observeRemoveEmpty, he, pure, Except.pure]
      simp only [List.filter_cons, hk, Bool.false_eq_true, if_false, processAll, hp, bind, Except.bind, ← ih]
      cases processAll rng is <;> rfl
    · have hk : keep i = true := by simpa [keep] using he
      simp only [List.filter_cons, hk, if_true, processAll, ih]

theorem parsed_filter (ls : List LineSpec) (h : ∀ l ∈ ls, LineSpec.WF l) :
    (ls.filterMap parsedOf).filter keep = expectedInsts ls := by
  unfold expectedInsts
  induction ls with
  | nil => rfl
  | cons l rest ih =>
    have hl := h l (by simp)
    have ih' := ih (fun x hx => h x (by simp [hx]))
    cases l with
    | inst il =>
      have hne' : il.mnem ≠ "empty".toList := hl.1.2
      have hm : (instOf (.inst il)) = some ⟨il.addr, if il.ops.isEmpty && il.mnem = "(bad)".toList then "bad".toList else il.mnem, il.ops.map Operand.normalForm⟩ := rfl
      have hkeep : keep ⟨il.addr, if il.ops.isEmpty && il.mnem = "(bad)".toList then "bad".toList else il.mnem, il.ops.map Operand.normalForm⟩ = true := by
        simp only [keep]
        split
        · decide
        · simpa using hne'
      simp only [List.filterMap_cons, parsedOf, hm, List.filter_cons, hkeep, if_true, ih']
    | cont indent addr bs =>
      have : keep ⟨addr, "empty".toList, []⟩ = false := by simp [keep]
      simp only [List.filterMap_cons, parsedOf, instOf, List.filter_cons, this, Bool.false_eq_true, if_false, ih']
    | label _ _ | header _ _ | sect _ | blank | dots =>
      simp only [List.filterMap_cons, parsedOf, instOf, ih']

/-- **C16 (whole operation)** -/
theorem C16_pipeline (ls₁ ls₂ : List LineSpec) (h₁ : ∀ l ∈ ls₁, LineSpec.WF l) (h₂ : ∀ l ∈ ls₂, LineSpec.WF l)
    (hne₁ : ls₁ ≠ []) (hne₂ : ls₂ ≠ []) (hsame : expectedInsts ls₁ = expectedInsts ls₂)
    (w : World) (p₁ p₂ : Str) (hr₁ : w.readFile p₁ = .ok (renderListing ls₁)) (hr₂ : w.readFile p₂ = .ok (renderListing ls₂))
    (s : Config) (doc : M Y) (macroDocs : List (M Y)) (mode : SearchMode) (ao : Bool) (ret : ReturnMode) :
    (runOp w s ⟨doc, macroDocs, .assembly, p₁, mode, ao, ret⟩).2 = (runOp w s ⟨doc, macroDocs, .assembly, p₂, mode, ao, ret⟩).2 ∧
    (runOp w s ⟨doc, macroDocs, .assembly, p₁, mode, ao, ret⟩).1 = (runOp w s ⟨doc, macroDocs, .assembly, p₂, mode, ao, ret⟩).1 := by
  cases doc with
  | error e => exact ⟨rfl, rfl⟩
  | ok d =>
    refine ⟨?_, rfl⟩
    have e₁ := C08_listing ls₁ hne₁ h₁
    have e₂ := C08_listing ls₂ hne₂ h₂
    simp only [runOp, hr₁, hr₂, bind, Except.bind, e₁, e₂, matchInsts]
    rw [processAll_filter _ (ls₁.filterMap parsedOf), processAll_filter _ (ls₂.filterMap parsedOf),
      parsed_filter ls₁ h₁, parsed_filter ls₂ h₂, hsame]

end Jasm.C16

import Jasm.Properties.C04
import Jasm.Properties.C03Verdict
/-!
# C04 at the level of the whole operation: `[$not X, Y]` is found exactly where an instruction at
which `X` fails is immediately followed by `Y`
-/
namespace Jasm.C04
open Jasm Jasm.FrontEnd

/-- the whole rule `[$not X, Y]` denotes: one instruction at which `X` fails, then `Y` -/
theorem C04_rule_den (fl : Flags) (X Y : Pat) (σ : Sigma) (L : List Inst) :
    denI fl (.and [.not X false Times.one, Y] Times.one) σ L =
      if L ≠ [] ∧ denI fl X σ L = [] then (denI fl Y σ (L.drop 1)).map (fun p => (1 + p.1, p.2)) else [] := by
  simp only [denI, timesDen_one, denIL, seqDen]
  by_cases h : L ≠ [] ∧ denI fl X σ L = []
  · have h1 : L.isEmpty = false := by cases L <;> simp_all
    simp [h, h1]
  · simp only [h, if_false]
    by_cases hL : L = []
    · simp [hL]
    · have hX : ¬ denI fl X σ L = [] := fun e => h ⟨hL, e⟩
      have h1 : L.isEmpty = false := by cases L <;> simp_all
      have h2 : (denI fl X σ L).isEmpty = false := by
        cases hh : denI fl X σ L with
        | nil => exact absurd hh hX
        | cons _ _ => rfl
      simp [h1, h2]

/-- **C04 (verdict)**: `[$not X, Y]` is found iff some instruction at which `X` does not match is
immediately followed by a match of `Y` -/
theorem C04_verdict (fl : Flags) (X Y : Pat) (L : List Inst) :
    foundSpec fl (.and [.not X false Times.one, Y] Times.one) L = true ↔
      ∃ i, i < L.length ∧ denI fl X [] (L.drop i) = [] ∧ denI fl Y [] (L.drop (i + 1)) ≠ [] := by
  unfold foundSpec occursAt
  simp only [List.any_eq_true, List.mem_range, Option.isSome_map, List.isSome_head?]
  constructor
  · rintro ⟨i, _, h⟩
    rw [C04_rule_den] at h
    split at h
    · rename_i hc
      refine ⟨i, ?_, hc.2, ?_⟩
      · have := hc.1
        by_cases hlt : i < L.length
        · exact hlt
        · exact absurd (List.drop_eq_nil_of_le (by omega)) this
      · intro e
        rw [List.drop_drop] at h
        rw [e] at h
        simp at h
    · simp at h
  · rintro ⟨i, hi, hX, hY⟩
    refine ⟨i, by omega, ?_⟩
    rw [C04_rule_den]
    have hne : L.drop i ≠ [] := by
      intro e
      have := List.drop_eq_nil_iff.mp e
      omega
    simp only [hne, hX, ne_eq, not_false_eq_true, and_self, if_true, List.drop_drop]
    cases hh : denI fl Y [] (L.drop (i + 1)) with
    | nil => exact absurd hh hY
    | cons _ _ => simp

/-- **C04 (whole operation)**: the rule file `pattern: [{$not: [X]}, Y]` (X, Y of the source fragment)
run against a listing file of the grammar reports "found" iff some instruction of the listing at which
`X` fails is immediately followed by `Y` -/
theorem C04_pipeline (fl : Flags) (X Y : Pat)
    (hsrc : srcIL [.not X false Times.one, Y] = true)
    (hlit : litI (.and [.not X false Times.one, Y] Times.one) = true)
    (hnn : nonNull (.and [.not X false Times.one, Y] Times.one) = true)
    (r : Rx) (hc : comp fl [] (.and [.not X false Times.one, Y] Times.one) = .ok r)
    (ls : List LineSpec) (hls : ls ≠ []) (hwf : ∀ x ∈ ls, C08.LineSpec.WF x) (hA : OkA (expectedInsts ls))
    (w : World) (path : Str) (hread : w.readFile path = .ok (renderListing ls)) (s : Config) (addrOnly : Bool) (b : Bool)
    (hres : (runOp w s ⟨.ok (docOf fl (.list (yIL [.not X false Times.one, Y]))), [], .assembly, path, .first, addrOnly, .bool⟩).2
      = .ok (.bool b)) :
    b = true ↔ ∃ i, i < (expectedInsts ls).length ∧ denI fl X [] ((expectedInsts ls).drop i) = [] ∧
      denI fl Y [] ((expectedInsts ls).drop (i + 1)) ≠ [] := by
  rw [C03.C03_pipeline fl _ rfl hsrc hlit hnn r hc ls hls hwf hA w path hread s addrOnly] at hres
  simp only [Except.ok.injEq, Result.bool.injEq] at hres
  rw [← hres]
  exact C04_verdict fl X Y _

/-- non-vacuity (test): `[$not push, mov]` on `push; mov` is not found, on `nop; mov` it is -/
example :
    let X : Pat := .mnem "push".toList [] Times.one
    let Y : Pat := .mnem "mov".toList [] Times.one
    foundSpec ⟨false, false⟩ (.and [.not X false Times.one, Y] Times.one)
        [⟨"1".toList, "push".toList, ["%rbp".toList]⟩, ⟨"2".toList, "mov".toList, ["%rsp".toList, "%rbp".toList]⟩] = false ∧
      foundSpec ⟨false, false⟩ (.and [.not X false Times.one, Y] Times.one)
        [⟨"1".toList, "nop".toList, []⟩, ⟨"2".toList, "mov".toList, ["%rsp".toList, "%rbp".toList]⟩] = true := by
  decide +kernel

end Jasm.C04

import Jasm.Model.Yaml
/-!
# Instructions, the text stream, observers, result modes
(`global_definitions.Instruction`, `consumer.py`, `observers.py`, `match.py`, `matched_observers.py`)
-/
namespace Jasm

structure Inst where
  addr : Str
  mnem : Str
  ops : List Str
  deriving Repr, DecidableEq, Inhabited

def joinSep (sep : Str) : List Str → Str
  | [] => []
  | [a] => a
  | a :: as => a ++ sep ++ joinSep sep as

/-- `Instruction.stringify` -/
def Inst.stringify (i : Inst) : Str := i.addr ++ ':' :: ':' :: i.mnem ++ ',' :: joinSep [','] i.ops

/-- one record of the stream: `consume_instruction` appends `stringify() + ",|"` -/
def enc (i : Inst) : Str := i.stringify ++ [',', '|']

def encAll (l : List Inst) : Str := (l.map enc).flatten

/-! ## Observers -/

def jumpMnemonics : List Str :=
  ["call", "callq", "jmp", "jne", "je", "jg", "jge", "jl", "jle", "jz", "jnz"].map String.toList

def hexDigitVal (c : Char) : Option Nat :=
  if '0' ≤ c ∧ c ≤ '9' then some (c.toNat - '0'.toNat)
  else if 'a' ≤ c ∧ c ≤ 'f' then some (c.toNat - 'a'.toNat + 10)
  else if 'A' ≤ c ∧ c ≤ 'F' then some (c.toNat - 'A'.toNat + 10)
  else none

/-- value of a non-empty string of hexadecimal digits -/
def hexDigitsVal : Str → Nat → Option Nat
  | [], acc => some acc
  | c :: cs, acc => match hexDigitVal c with
    | some d => hexDigitsVal cs (acc * 16 + d)
    | none => none

/-- `HexType(s).hex`: strip one leading `0x`, then `int(_, 16)`.  Exotic spellings that Python's
`int` also accepts (sign, `_`, blanks, a second `0x`) are outside the model. -/
def hexVal (s : Str) : M Nat :=
  let body := if "0x".toList.isPrefixOf s then s.drop 2 else s
  if body.isEmpty then fail "ValueError: invalid literal for int()"
  else match hexDigitsVal body 0 with
    | some n => pure n
    | none =>
      if body.any (fun c => c = '_' || c = '+' || c = '-' || c = ' ' || c = '\t' || c = '\n' || c = 'x' || c = 'X')
      then unsup "exotic integer spelling"
      else fail "ValueError: invalid literal for int()"

structure AddrRange where
  min : Nat
  max : Nat
  deriving Repr, DecidableEq

def validAddr : Str := "valid_addr".toList

/-- `ValidAddrObserver.observe_instruction` -/
def observeValidAddr (rng : AddrRange) (i : Inst) : M Inst :=
  match i.ops with
  | [] => pure i
  | op0 :: _ =>
    if jumpMnemonics.contains i.mnem then
      if op0.contains '*' then pure i
      else do
        let v ← hexVal op0
        if rng.min ≤ v ∧ v ≤ rng.max then pure { i with ops := [validAddr] } else pure i
    else pure i

/-- `RemoveEmptyInstructions.observe_instruction` -/
def observeRemoveEmpty (i : Inst) : Option Inst :=
  if i.mnem = "empty".toList then none else some i

/-- `_process_instruction` with the observer list of `prepare_observers`: every observer sees the
original instruction, the last result wins, `None` stops -/
def processInst (rng : Option AddrRange) (i : Inst) : M (Option Inst) :=
  match observeRemoveEmpty i with
  | none => pure none
  | some i' => match rng with
    | none => pure (some i')
    | some r => do let j ← observeValidAddr r i; pure (some j)

def processAll (rng : Option AddrRange) : List Inst → M (List Inst)
  | [] => pure []
  | i :: is => do
    let o ← processInst rng i
    let rest ← processAll rng is
    pure (match o with | some j => j :: rest | none => rest)

/-! ## Results -/

/-- index of the first occurrence of `::` -/
def splitAtColons : Str → Str
  | [] => []
  | [c] => [c]
  | ':' :: ':' :: _ => []
  | c :: t => c :: splitAtColons t

/-- `get_first_addr_from_regex_result` = `text.split("::")[0]` -/
def firstAddr (m : Str) : Str := splitAtColons m

inductive SearchMode where | first | all
  deriving Repr, DecidableEq
inductive ReturnMode where | bool | list | stream
  deriving Repr, DecidableEq

inductive Result where
  | bool (b : Bool)
  | list (l : List Str)
  | stream (s : Str)
  deriving Repr, DecidableEq

/-- what `regex_matched` is called with, in order -/
def reported (r : Rx) (mode : SearchMode) (addrOnly : Bool) (stream : Str) : List Str :=
  let hits := match mode with
    | .first => match search r stream with
      | some (_, m, _) => [m]
      | none => []
    | .all => findAll r stream
  if addrOnly then hits.map firstAddr else hits

/-- `MatchedObserver` after the calls: `matched` flag and `addr_list` -/
structure Observer where
  matched : Bool := false
  addrs : List Str := []
  deriving Repr

def Observer.regexMatched (o : Observer) (a : Str) : Observer := { matched := true, addrs := o.addrs ++ [a] }

def runObserver (calls : List Str) : Observer := calls.foldl Observer.regexMatched {}

def resultOf (ret : ReturnMode) (stream : Str) (o : Observer) : Result :=
  match ret with
  | .bool => .bool o.matched
  | .list => .list o.addrs
  | .stream => .stream stream

/-- `_do_matching_and_get_result` after the producer has delivered the instruction list -/
def matchInsts (r : Rx) (rng : Option AddrRange) (mode : SearchMode) (addrOnly : Bool) (ret : ReturnMode)
    (insts : List Inst) : M Result := do
  let kept ← processAll rng insts
  let stream := encAll kept
  pure (resultOf ret stream (runObserver (reported r mode addrOnly stream)))

end Jasm

import Jasm.Model.Rx
/-!
# YAML values as PyYAML's `safe_load` returns them

YAML *text* parsing is not modelled (trusted: PyYAML); the harness ships trees.  Dictionaries are
ordered association lists because JASM uses a node's *first* key as its name.
-/
namespace Jasm

inductive Y where
  | str (s : Str)
  | int (n : Int)
  | bool (b : Bool)
  | null
  | float (repr : Str)        -- opaque
  | list (l : List Y)
  | dict (l : List (Y × Y))
  deriving Repr, Inhabited

/-- errors: `error` = the Python code raises; `unsupported` = outside the modelled fragment
(the driver reports it and the harness counts it; never compared as a verdict) -/
inductive Err where
  | error (msg : String)
  | unsupported (msg : String)
  deriving Repr, Inhabited, DecidableEq

abbrev M := Except Err

deriving instance DecidableEq for Except

def fail {α} (msg : String) : M α := .error (.error msg)
def unsup {α} (msg : String) : M α := .error (.unsupported msg)

def intStr (n : Int) : Str := (toString n).toList

/-- Python `str(x)` / `f"{x}"` for the scalar kinds a node name may have -/
def Y.scalarStr : Y → Option Str
  | .str s => some s
  | .int n => some (intStr n)
  | .bool true => some "True".toList
  | .bool false => some "False".toList
  | .null => some "None".toList
  | _ => none

def Y.isStr : Y → Bool | .str _ => true | _ => false

/-- `d.get(key)` for a string key -/
def dictGet (l : List (Y × Y)) (key : String) : Option Y :=
  match l.find? (fun kv => match kv.1 with | .str s => s == key.toList | _ => false) with
  | some kv => some kv.2
  | none => none

def dictHas (l : List (Y × Y)) (key : String) : Bool := (dictGet l key).isSome

mutual
def Y.beq : Y → Y → Bool
  | .str a, .str b => a == b
  | .int a, .int b => a == b
  | .bool a, .bool b => a == b
  | .null, .null => true
  | .float a, .float b => a == b
  | .list a, .list b => Y.beqL a b
  | .dict a, .dict b => Y.beqD a b
  | _, _ => false
def Y.beqL : List Y → List Y → Bool
  | [], [] => true
  | x :: xs, y :: ys => Y.beq x y && Y.beqL xs ys
  | _, _ => false
def Y.beqD : List (Y × Y) → List (Y × Y) → Bool
  | [], [] => true
  | (k, v) :: xs, (k', v') :: ys => Y.beq k k' && Y.beq v v' && Y.beqD xs ys
  | _, _ => false
end

instance : BEq Y := ⟨Y.beq⟩

end Jasm

import Jasm.Model.Macro
import Jasm.Model.Parser
/-!
# Config singleton, rule document → regex, complete operations
(`JASMConfig`, `Yaml2Regex`, `MasterOfPuppets`, `ProducerBuilder`, disassembler classes)
-/
namespace Jasm

inductive Style where | att | intel
  deriving Repr, DecidableEq, Inhabited

/-- `JASMConfig.global_info`: five keys, each absent until first written -/
structure Config where
  mnemFull : Option Bool := none
  opsFull : Option Bool := none
  style : Option Style := none
  range : Option (Option AddrRange) := none
  sections : Option (List Str) := none
  deriving Repr, DecidableEq, Inhabited

def boolOpt (d : List (Y × Y)) (key : String) : M Bool :=
  match dictGet d key with
  | none => pure false
  | some (.bool b) => pure b
  | some _ => fail "mnemonics and operands must be booleans"

def strList : List Y → Option (List Str)
  | [] => some []
  | .str s :: t => (strList t).map (s :: ·)
  | _ :: _ => none

/-- `_load_full_match_options`: both values are read, then both are checked -/
def cfgFlags (d : List (Y × Y)) : M (Bool × Bool) := do
  let m ← boolOpt d "mnemonics-full-match"
  let o ← boolOpt d "operands-full-match"
  pure (m, o)

/-- `_load_assembly_style` (anything but the string `intel` means att; a bad value is only logged) -/
def cfgStyle (d : List (Y × Y)) : Style :=
  match dictGet d "style" with
  | some (.str st) => if st = "intel".toList then .intel else .att
  | _ => .att

/-- `_load_valid_addr_range` -/
def cfgRange (d : List (Y × Y)) : M (Option AddrRange) :=
  match dictGet d "valid_addr_range" with
  | none => pure none
  | some v =>
    if !truthy v then pure none
    else match v with
      | .dict r =>
        (match dictGet r "min", dictGet r "max" with
          | some (.str lo), some (.str hi) => do
            let a ← hexVal lo
            let b ← hexVal hi
            pure (some ⟨a, b⟩)
          | _, _ => fail "AttributeError: bound is not a string")
      | _ => fail "AttributeError: valid_addr_range is not a dict"

/-- `_load_sections` -/
def cfgSections (d : List (Y × Y)) : M (List Str) :=
  match dictGet d "sections" with
  | none => pure []
  | some (.list l) =>
    (match strList l with
      | some ss => pure ss
      | none => fail "sections must be a list of strings")
  | some _ => fail "sections must be a list of strings"

/-- `load_config`: writes over the *previous* state, in the order of the code; an exception leaves
the keys written so far in place (first component) -/
def loadConfig (cfg : Y) (s : Config) : Config × M Unit :=
  match cfg with
  | .dict d =>
    match cfgFlags d with
    | .error e => (s, .error e)
    | .ok (m, o) =>
      let s1 : Config := { s with mnemFull := some m, opsFull := some o, style := some (cfgStyle d) }
      match cfgRange d with
      | .error e => (s1, .error e)
      | .ok r =>
        let s2 : Config := { s1 with range := some r }
        match cfgSections d with
        | .error e => (s2, .error e)
        | .ok ss => ({ s2 with sections := some ss }, .ok ())
  | _ => (s, fail "AttributeError: config is not a dict")

/-- the flags as `allow_matching_substring` reads them while compiling -/
def Config.flags (s : Config) : Flags :=
  ⟨s.mnemFull.getD false, s.opsFull.getD false⟩

/-- `load_macros_from_args`: the `macros` lists of the extra macro files, concatenated in file order -/
def extraMacros (macroDocs : List (M Y)) : M (List Y) :=
  macroDocs.foldlM (fun acc md => do
    match (← md) with
    | .dict m => match dictGet m "macros" with
      | some (.list l) => pure (acc ++ l)
      | _ => fail "TypeError: macros of a macro file is not a list"
    | _ => fail "AttributeError: macro file is not a dict") []

/-- `Yaml2Regex(path, macros).produce_regex()` on already-loaded documents:
`doc` is the rule file, `macroDocs` the extra macro files in command-line order -/
def compileRule (doc : Y) (macroDocs : List (M Y)) (s : Config) : Config × M Rx :=
  match doc with
  | .dict d =>
    let cfgY := (dictGet d "config").getD (.dict [])
    let (s', r) := loadConfig cfgY s
    match r with
    | .error e => (s', .error e)
    | .ok () =>
      (s', do
        let pattern := (dictGet d "pattern").getD .null
        let top := topTree pattern
        let macros ← match dictGet d "macros" with
          | none => pure []
          | some (.list l) => pure l
          | some _ => fail "Invalid macros in the pattern file"
        let extra ← if macros.isEmpty && macroDocs.isEmpty then pure [] else extraMacros macroDocs
        let tree ← if !macros.isEmpty || !macroDocs.isEmpty then resolveAllMacros (extra ++ macros) top
                   else pure top
        compileTree s'.flags tree)
  | _ => (s, fail "AttributeError: rule document is not a dict")

/-- `objdump` command line of `GNUObjdumpDisassembler` (without the program name and the file) -/
def objdumpArgs (style : Style) (sections : List Str) : List Str :=
  ["-d".toList, "-M".toList, (match style with | .att => "att".toList | .intel => "Intel".toList)]
    ++ sections.flatMap fun sec => ["-j".toList, sec]

/-! ## Complete operations -/

inductive InputKind where | assembly | binary
  deriving Repr, DecidableEq

/-- the environment: external calls become parameters -/
structure World where
  /-- `open(path).read()` of an assembly listing -/
  readFile : Str → M Str
  /-- `subprocess.run(["objdump"] + args + [path])`, stdout on success -/
  objdump : List Str → Str → M Str

/-- Python's text layer (`open(path, "r")`, `subprocess.run(..., text=True)`): universal newlines,
`\r\n` and a lone `\r` both arrive as `\n` -/
def universalNewlines : Str → Str
  | [] => []
  | '\r' :: '\n' :: t => '\n' :: universalNewlines t
  | '\r' :: t => '\n' :: universalNewlines t
  | c :: t => c :: universalNewlines t

/-- the world of a file system holding raw file contents and of a disassembler printing raw output:
both reach the code through Python's text layer -/
def World.ofRaw (rawRead : Str → M Str) (rawObjdump : List Str → Str → M Str) : World :=
  { readFile := fun p => (rawRead p).map universalNewlines,
    objdump := fun args p => (rawObjdump args p).map universalNewlines }

structure Op where
  /-- outcome of opening and YAML-loading the rule file -/
  doc : M Y
  macroDocs : List (M Y)
  kind : InputKind
  path : Str
  mode : SearchMode
  addrOnly : Bool
  ret : ReturnMode

/-- `MasterOfPuppets(match_config).perform_matching()`: new singleton state and outcome -/
def runOp (w : World) (s : Config) (op : Op) : Config × M Result :=
  match op.doc with
  | .error e => (s, .error e)
  | .ok doc =>
    let (s', rx) := compileRule doc op.macroDocs s
    (s', do
      let rx ← rx
      let text ← match op.kind with
        | .assembly => w.readFile op.path
        | .binary => w.objdump (objdumpArgs (s'.style.getD .att) (s'.sections.getD [])) op.path
      let insts ← parseListing text
      matchInsts rx (s'.range.getD none) op.mode op.addrOnly op.ret insts)

end Jasm

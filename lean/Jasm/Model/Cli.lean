import Jasm.Model.Pipeline
/-!
# Model of the command line (`parse_arguments.py`, `main.py`, logging in `matched_observers.py`)

`parseArgs` models the argparse configuration the code sets up, for exact option strings (argparse's
prefix abbreviations, `--opt=value` and `-pVALUE` spellings are outside the model).
-/
namespace Jasm

structure Namespace where
  pattern : Option Str := none
  binary : Option Str := none
  assembly : Option Str := none
  allMatches : Bool := false
  addrOnly : Bool := false
  macros : Option (List Str) := none
  debug : Bool := false
  deriving Repr, DecidableEq, Inhabited

inductive CliErr where
  | usage (msg : String)         -- argparse prints usage and exits with status 2
  | unsupported (msg : String)
  deriving Repr, DecidableEq

def isOptionLike (t : Str) : Bool := t.head? == some '-'

def flagOptions : List Str :=
  ["--debug", "--info", "--enable_logging_to_file", "--enable_logging_to_terminal", "--all-matches",
   "--return_only_address"].map String.toList

def takeValues : List Str → List Str × List Str
  | [] => ([], [])
  | t :: rest => if isOptionLike t then ([], t :: rest) else let (a, b) := takeValues rest; (t :: a, b)

/-- one pass over the tokens (`fuel` ≥ number of tokens) -/
def parseTokens : Nat → List Str → Namespace → Except CliErr Namespace
  | _, [], ns => .ok ns
  | 0, _ :: _, _ => .error (.unsupported "out of fuel")
  | fuel+1, t :: rest, ns =>
    let s (x : String) := x.toList
    if t = s "-p" ∨ t = s "--pattern" then
      match rest with
      | v :: rest' => if isOptionLike v then .error (.usage "expected one argument") else parseTokens fuel rest' { ns with pattern := some v }
      | [] => .error (.usage "expected one argument")
    else if t = s "-b" ∨ t = s "--binary" then
      match rest with
      | v :: rest' =>
        if isOptionLike v then .error (.usage "expected one argument")
        else if ns.assembly.isSome then .error (.usage "not allowed with argument -s/--assembly")
        else parseTokens fuel rest' { ns with binary := some v }
      | [] => .error (.usage "expected one argument")
    else if t = s "-s" ∨ t = s "--assembly" then
      match rest with
      | v :: rest' =>
        if isOptionLike v then .error (.usage "expected one argument")
        else if ns.binary.isSome then .error (.usage "not allowed with argument -b/--binary")
        else parseTokens fuel rest' { ns with assembly := some v }
      | [] => .error (.usage "expected one argument")
    else if t = s "--dissasemble-program" then
      match rest with
      | v :: rest' => if isOptionLike v then .error (.usage "expected one argument") else parseTokens fuel rest' ns
      | [] => .error (.usage "expected one argument")
    else if t = s "--all-matches" then parseTokens fuel rest { ns with allMatches := true }
    else if t = s "--return_only_address" then parseTokens fuel rest { ns with addrOnly := true }
    else if t = s "--debug" then parseTokens fuel rest { ns with debug := true }
    else if t = s "--info" ∨ t = s "--enable_logging_to_file" ∨ t = s "--enable_logging_to_terminal" then parseTokens fuel rest ns
    else if t = s "--macros" then
      -- nargs="+": every following token up to the next option-like one
      match takeValues rest with
      | ([], _) => .error (.usage "expected at least one argument")
      | (vals, rest') => parseTokens fuel rest' { ns with macros := some vals }
    else if isOptionLike t then .error (.unsupported "option spelling outside the model")
    else .error (.usage "unrecognized arguments")

/-- `parser.parse_args()`: required `-p`, exactly one of `-b` / `-s` -/
def parseArgs (argv : List Str) : Except CliErr Namespace :=
  match parseTokens argv.length argv {} with
  | .error e => .error e
  | .ok ns =>
    if ns.pattern.isNone then .error (.usage "the following arguments are required: -p/--pattern")
    else if ns.binary.isNone && ns.assembly.isNone then .error (.usage "one of the arguments -b/--binary -s/--assembly is required")
    else .ok ns

/-- what `main()` hands to `MasterOfPuppets` -/
structure CliConfig where
  pattern : Str
  input : Str
  kind : InputKind
  mode : SearchMode
  addrOnly : Bool
  macros : List Str
  deriving Repr, DecidableEq

/-- `main()`: `decide_assembly_or_binary` tests the *truthiness* of the values -/
def toMatchConfig (ns : Namespace) : Except CliErr CliConfig :=
  match ns.pattern with
  | none => .error (.usage "no pattern")
  | some p =>
    let mode := if ns.allMatches then SearchMode.all else .first
    match ns.assembly with
    | some a =>
      if !a.isEmpty then .ok ⟨p, a, .assembly, mode, ns.addrOnly, ns.macros.getD []⟩
      else .error (.usage "Either assembly or binary must be provided")
    | none => match ns.binary with
      | some b =>
        if !b.isEmpty then .ok ⟨p, b, .binary, mode, ns.addrOnly, ns.macros.getD []⟩
        else .error (.usage "Either assembly or binary must be provided")
      | none => .error (.usage "Either assembly or binary must be provided")

/-- the log lines of one run: one `Matched address:` line per `regex_matched` call, in order, then
the `RESULT:` line written by `finalize` -/
def logLines (calls : List Str) : List Str :=
  calls.map (fun a => "Matched address: ".toList ++ a) ++
    [if (runObserver calls).matched then "RESULT: Pattern found".toList else "RESULT: Pattern not found".toList]

/-- exit status: argparse errors exit with 2, an uncaught exception with 1, success with 0 -/
def exitStatus {α : Type} (parsed : Except CliErr Namespace) (outcome : M α) : Nat :=
  match parsed with
  | .error _ => 2
  | .ok _ => match outcome with
    | .ok _ => 0
    | .error _ => 1

end Jasm

import Jasm.Model.Stream
/-!
# Model of the objdump text parser
(`asm_manual_parser_w_regex.py`, `gnu_objdump_parser_manual.py`)

`parseLine` is a direct functional parser that accepts exactly what the ordered cascade of
`re.match` calls accepts (tie T3 compares the two on every line any check sees).  Only the
classifications that can yield an `Instruction` matter for the stream; everything else is dropped
by `ObjdumpParserManual.parse`.
-/
namespace Jasm

def isHexChar (c : Char) : Bool :=
  ('0' ≤ c && c ≤ '9') || ('a' ≤ c && c ≤ 'f') || ('A' ≤ c && c ≤ 'F')

def dropSpaces : Str → Str
  | ' ' :: t => dropSpaces t
  | s => s

/-- maximal prefix satisfying `p`, and the rest -/
def spanP (p : Char → Bool) : Str → Str × Str
  | [] => ([], [])
  | c :: t => if p c then let (a, b) := spanP p t; (c :: a, b) else ([], c :: t)

/-- after one byte pair: further pairs, each optionally preceded by a single blank.  Returns what
follows the *maximal* run; a blank directly after the last pair is left in front of it (the
engine may give it to either side, both continuations ` +\t` and `$` are insensitive to that). -/
def morePairs : Str → Str
  | ' ' :: a :: b :: t => if isHexChar a && isHexChar b then morePairs t else ' ' :: a :: b :: t
  | a :: b :: t => if isHexChar a && isHexChar b then morePairs t else a :: b :: t
  | s => s

/-- `(?:HEX{2} ?)+`: at least one pair -/
def bytePairs : Str → Option Str
  | a :: b :: t => if isHexChar a && isHexChar b then some (morePairs t) else none
  | _ => none

/-- common prefix `^ *(HEX+):\t(?:HEX{2} ?)+`: address and the text after the byte column
(a blank that directly follows the last byte pair is still in front of the remainder) -/
def linePrefix (line : Str) : Option (Str × Str) :=
  match spanP isHexChar (dropSpaces line) with
  | (addr, rest) =>
    if addr.isEmpty then none
    else match rest with
      | ':' :: '\t' :: r => (bytePairs r).map fun after => (addr, after)
      | _ => none

/-- ` +\t([^ ]+)`: at least one blank, a tab, the mnemonic (maximal run of non-blanks) -/
def mnemonicPart (after : Str) : Option (Str × Str) :=
  match after with
  | ' ' :: _ =>
    match dropSpaces after with
    | '\t' :: r =>
      match spanP (· != ' ') r with
      | (m, rest) => if m.isEmpty then none else some (m, rest)
    | _ => none
  | _ => none

/-- ` +\t?([^# ]+)`: the operand text -/
def operandPart (rest : Str) : Option Str :=
  match rest with
  | ' ' :: _ =>
    let r := dropSpaces rest
    let notHashBlank : Char → Bool := fun c => c != '#' && c != ' '
    let fromHere (r : Str) : Option Str :=
      let (o, _) := spanP notHashBlank r
      if o.isEmpty then none else some o
    match r with
    | '\t' :: r' =>
      (match fromHere r' with
        | some o => some o
        | none => fromHere r)
    | _ => fromHere r
  | _ => none

/-- `get_splitted_operands`: split at the commas that are not followed by `[^(]*\)` -/
def closesBeforeOpens : Str → Bool
  | [] => false
  | ')' :: _ => true
  | '(' :: _ => false
  | _ :: t => closesBeforeOpens t

def splitOperands : Str → List Str
  | [] => [[]]
  | ',' :: t =>
    if closesBeforeOpens t then
      match splitOperands t with
      | [] => [[',']]
      | p :: ps => (',' :: p) :: ps
    else [] :: splitOperands t
  | c :: t =>
    match splitOperands t with
    | [] => [[c]]
    | p :: ps => (c :: p) :: ps

def removeChar (c : Char) (s : Str) : Str := s.filter (· != c)

/-- first match of `\([^\)]*\)`: text before, the parenthesised part, text after -/
def findParen : Str → Option (Str × Str × Str)
  | [] => none
  | '(' :: t =>
    let (inner, rest) := spanP (· != ')') t
    match rest with
    | ')' :: after => some ([], '(' :: inner ++ [')'], after)
    | _ => none          -- no `)` after the first `(`: no later `(` can match either
  | c :: t => (findParen t).map fun (a, b, d) => (c :: a, b, d)

/-- Python `s.replace(old, "")` for non-empty `old` -/
def removeAll (old : Str) : Nat → Str → Str
  | 0, s => s
  | _, [] => []
  | fuel+1, c :: t =>
    if old.isPrefixOf (c :: t) then removeAll old fuel ((c :: t).drop old.length)
    else c :: removeAll old fuel t

def stripOne (pre post : Char) (s : Str) : Str :=
  let s := match s with | c :: t => if c = pre then t else s | [] => s
  match s.getLast? with
  | some c => if c = post then s.dropLast else s
  | none => s

/-- `_process_operand_elem` -/
def processOperand (op : Str) : M Str :=
  let br (body : Str) : Str := '[' :: body ++ [']']
  let hasOpen := op.contains '('
  let hasClose := op.contains ')'
  let hasComma := op.contains ','
  if op.head? = some '(' && op.getLast? = some ')' then
    if hasComma then
      match splitOnCharP ',' op with
      | [a, b, c] => pure (br (removeChar '(' a ++ '+' :: b ++ '*' :: removeChar ')' c))
      | _ => fail "assert len(elements) == 3"
    else pure (br (op.drop 1).dropLast)
  else if hasOpen && hasClose then
    match findParen op with
    | none => fail "ValueError: wrong value for operand"
    | some (_, reg, _) =>
      let outside := removeAll reg (op.length + 1) op
      if hasComma then
        match splitOnCharP ',' reg with
        | [a, b, c] =>
          pure (br (removeChar '(' a ++ '+' :: b ++ '*' :: removeChar ')' c ++ '+' :: outside))
        | _ => fail "assert len(elements) == 3"
      else pure (br (stripOne '(' ')' reg ++ '+' :: outside))
  else if op.head? = some '$' then pure (op.drop 1)
  else if op.head? = some '%' then pure op
  else match op with
    | [] => fail "IndexError: string index out of range"
    | ['*'] => fail "IndexError: string index out of range"
    | _ => pure op
where
  splitOnCharP (c : Char) : Str → List Str
    | [] => [[]]
    | x :: xs =>
      if x = c then [] :: splitOnCharP c xs
      else match splitOnCharP c xs with
        | [] => [[x]]
        | p :: ps => (x :: p) :: ps

def processOperands : List Str → M (List Str)
  | [] => pure []
  | o :: os => do
    let p ← processOperand o
    let ps ← processOperands os
    pure (p :: ps)

/-- `"data16" in line` ⇒ `line.replace("data16 ", "")` -/
def stripData16 (line : Str) : Str :=
  if isInfixS "data16".toList line then removeAll "data16 ".toList (line.length + 1) line else line
where
  isInfixS (p : Str) : Str → Bool
    | [] => p.isEmpty
    | c :: t => p.isPrefixOf (c :: t) || isInfixS p t

/-- `LineParser(line).parse()`, reduced to "which `Instruction`, if any" -/
def parseLine (line0 : Str) : M (Option Inst) :=
  match linePrefix (stripData16 line0) with
  | none => pure none
  | some (addr, after) =>
    match mnemonicPart after with
    | some (m, rest) =>
      (match operandPart rest with
        | some opsText => do
          let ops ← processOperands (splitOperands opsText)
          pure (some ⟨addr, m, ops⟩)
        | none =>
          if m = "(bad)".toList then pure (some ⟨addr, "bad".toList, []⟩)
          else pure (some ⟨addr, m, []⟩))
    | none =>
      -- `LINE_NOP_PADDING`: the byte column runs to the end of the line
      if after.isEmpty || after = [' '] then pure (some ⟨addr, "empty".toList, []⟩) else pure none

def splitLines (s : Str) : List Str :=
  go s
where
  go : Str → List Str
    | [] => [[]]
    | c :: t =>
      if c = '\n' then [] :: go t
      else match go t with
        | [] => [[c]]
        | p :: ps => (c :: p) :: ps

def parseLines : List Str → M (List Inst)
  | [] => pure []
  | l :: ls => do
    let o ← parseLine l
    let rest ← parseLines ls
    pure (match o with | some i => i :: rest | none => rest)

/-- `ObjdumpParserManual.parse`: the instructions handed to the consumer, in order -/
def parseListing (text : Str) : M (List Inst) := parseLines (splitLines text)

end Jasm

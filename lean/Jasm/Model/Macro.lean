import Jasm.Model.Compile
/-!
# Model of the macro expander (`jasm_regex/macro_expander/*.py`)

Sequential per-macro passes in list order, exactly as the code does them.  Python mutates the tree
in place; the model returns new values (the aliasing the in-place version could exhibit is the
subject of tie `T-macro`, see DESIGN.md C13).
-/
namespace Jasm

def isMacroName (s : Str) : Bool := "@".toList.isPrefixOf s

/-- Python `s.replace(old, new)` for non-empty `old` -/
def replaceAll (old new : Str) : Nat → Str → Str
  | 0, s => s
  | _, [] => []
  | fuel+1, c :: t =>
    if old.isPrefixOf (c :: t) then new ++ replaceAll old new fuel ((c :: t).drop old.length)
    else c :: replaceAll old new fuel t

structure Macro where
  name : Str
  args : Option (List Y)      -- `macro["args"]` if the key is present
  pattern : Option Y
  deriving Repr, Inhabited

/-- a macro definition as the code sees it: a dict with `name`, optional `args`, `pattern` -/
def macroOfY : Y → M Macro
  | .dict d =>
    match dictGet d "name" with
    | some (.str n) =>
      let args : M (Option (List Y)) :=
        if dictHas d "args" then
          match dictGet d "args" with
          | some (.list l) => pure (some l)
          | some .null => pure (some [])     -- falsy: `assert macro_args` fails when used
          | _ => unsup "macro args is not a list"
        else pure none
      do let a ← args; pure ⟨n, a, dictGet d "pattern"⟩
    | _ => fail "AttributeError: macro name is not a string"
  | _ => fail "AttributeError: macro is not a dict"

mutual
/-- `_yield_key_value_pairs`: every (key, value) pair at every nesting level, in DFS pre-order -/
def kvPairs : Y → List (Y × Y)
  | .dict d => kvPairsD d
  | .list l => kvPairsL l
  | _ => []
def kvPairsD : List (Y × Y) → List (Y × Y)
  | [] => []
  | (k, v) :: rest => (k, v) :: (kvPairs v ++ kvPairsD rest)
def kvPairsL : List Y → List (Y × Y)
  | [] => []
  | y :: ys => kvPairs y ++ kvPairsL ys
end

/-- `get_args_mapping_dict`: for each formal (in order) the *last* value bound to a key of that
name anywhere in the use node; formals without a binding are absent -/
def argsMapping (node : Y) (args : List Y) : List (Str × Y) :=
  args.filterMap fun a =>
    match a with
    | .str arg =>
      match node with
      | .str s => if s = arg then some (arg, .str s) else none
      | .dict _ =>
        match ((kvPairs node).filter fun kv => kv.1 == .str arg).getLast? with
        | some kv => some (arg, kv.2)
        | none => none
      | _ => none
    | _ => none

mutual
/-- one formal replaced by its value throughout a macro body (`_evaluate_args_in_macro`, one key) -/
def substArg (arg : Str) (val : Y) : Y → Y
  | .str s => if s = arg then val else .str s
  | .list l => .list (substArgL arg val l)
  | .dict d => .dict (substArgD arg val d)
  | y => y
def substArgL (arg : Str) (val : Y) : List Y → List Y
  | [] => []
  | y :: ys => substArg arg val y :: substArgL arg val ys
def substArgD (arg : Str) (val : Y) : List (Y × Y) → List (Y × Y)
  | [] => []
  | (k, v) :: rest =>
    (if k == .str arg || v == .str arg then (k, val) else (k, substArg arg val v)) :: substArgD arg val rest
end

/-- `_resolve_local_macro`: the macro body with the call's arguments substituted (sequentially) -/
def localPattern (m : Macro) (node : Y) : M (Option Y) :=
  match m.args with
  | none => pure m.pattern
  | some args =>
    if args.isEmpty then fail "assert macro_args"
    else match m.pattern with
      | some (.list l) => pure (some ((argsMapping node args).foldl (fun p (a, v) => substArg a v p) (.list l)))
      | some (.dict d) => pure (some ((argsMapping node args).foldl (fun p (a, v) => substArg a v p) (.dict d)))
      | _ => fail "assert isinstance(macro_pattern, (dict, list))"

def truthy : Y → Bool
  | .null => false
  | .bool b => b
  | .int n => n != 0
  | .str s => !s.isEmpty
  | .list l => !l.isEmpty
  | .dict d => !d.isEmpty
  | .float _ => true

/-- `_apply_macro_to_tree` -/
def applyMacroToTree (m : Macro) (node : Y) : M Y := do
  let pat ← localPattern m node
  match pat with
  | none => fail "assert macro_pattern"
  | some p =>
    if !truthy p then fail "assert macro_pattern"
    else match p with
      | .str s =>
        (match node with
          | .dict d =>
            match d.find? (fun kv => kv.1 == .str m.name) with
            | some (_, .dict t) =>
              if dictHas t "times" then pure (.dict [(.str s, .dict t)]) else fail "assert 'times' in times"
            | _ => fail "assert isinstance(times, dict)"
          | _ => pure (.str s))
      | .list [b] => pure b
      | .list _ => fail "assert len(macro_pattern) == 1"
      | _ => fail "Macro pattern is not a valid type"

/-- `_apply_macro_to_tree_substring` -/
def applyMacroSubstring (m : Macro) (node : Str) : M Y := do
  let pat ← localPattern m (.str node)
  match pat with
  | some (.str s) =>
    if s.isEmpty then fail "assert macro_pattern"
    else pure (.str (replaceAll m.name s (node.length + 1) node))
  | some p => if truthy p then fail "TypeError: replace() argument 2 must be str" else fail "assert macro_pattern"
  | none => fail "assert macro_pattern"

/-- `_process_str_tree`; the second component says whether `rule_macros.discard(tree)` ran -/
def processStr (m : Macro) (s : Str) : M (Y × Bool) :=
  if m.name = s then do let y ← applyMacroToTree m (.str s); pure (y, true)
  else if isInfix m.name s then do let y ← applyMacroSubstring m s; pure (y, true)
  else pure (.str s, false)

/-- `rule_macros` bookkeeping: names added / discarded, in program order -/
inductive RmOp where
  | add (s : Str) | discard (s : Str)
  deriving Repr

def applyRm (set : List Str) : RmOp → List Str
  | .add s => if set.contains s then set else set ++ [s]
  | .discard s => set.filter (· != s)

mutual
/-- `_apply_macro_recursively` on one tree; returns the new tree and the bookkeeping operations -/
def applyRec (m : Macro) : Y → M (Y × List RmOp)
  | .str s => do
    let (y, disc) ← processStr m s
    pure (y, (if isMacroName s then [RmOp.add s] else []) ++ (if disc then [RmOp.discard s] else []))
  | .dict d =>
    if d.any (fun kv => kv.1 == .str m.name) then do
      let y ← applyMacroToTree m (.dict d)
      pure (y, [RmOp.discard m.name])
    else do
      let (d', ops) ← applyRecD m d
      pure (.dict d', ops)
  | y => pure (y, [])
/-- the loop over `tree.items()` of `_process_dict_tree` -/
def applyRecD (m : Macro) : List (Y × Y) → M (List (Y × Y) × List RmOp)
  | [] => pure ([], [])
  | (k, v) :: rest => do
    let (v', ops) ← match v with
      | .dict d => applyRec m (.dict d)
      | .list l => do let (l', ops) ← applyRecL m l; pure (Y.list l', ops)
      | .str s => applyRec m (.str s)
      | v => pure (v, [])
    let (rest', ops') ← applyRecD m rest
    pure ((k, v') :: rest', ops ++ ops')
def applyRecL (m : Macro) : List Y → M (List Y × List RmOp)
  | [] => pure ([], [])
  | y :: ys => do
    let (y', ops) ← applyRec m y
    let (ys', ops') ← applyRecL m ys
    pure (y' :: ys', ops ++ ops')
end

mutual
/-- `_find_macro_names`: every string leaf, dict key or dict value that contains an `@`
(a reference may sit inside a longer name: `%@reg`) -/
def findMacroNames : Y → List Str
  | .str s => if s.contains '@' then [s] else []
  | .list l => findMacroNamesL l
  | .dict d => findMacroNamesD d
  | _ => []
def findMacroNamesL : List Y → List Str
  | [] => []
  | y :: ys => findMacroNames y ++ findMacroNamesL ys
def findMacroNamesD : List (Y × Y) → List Str
  | [] => []
  | (k, v) :: rest => findMacroNames k ++ findMacroNames v ++ findMacroNamesD rest
end

def resolvePasses : List Macro → Y → List Str → M (Y × List Str)
  | [], t, set => pure (t, set)
  | m :: ms, t, set => do
    let (t', ops) ← applyRec m t
    resolvePasses ms t' (ops.foldl applyRm set)

/-- `MacroExpander().resolve_all_macros(macros, pattern_tree)` -/
def resolveAllMacros (macros : List Y) (tree : Y) : M Y := do
  let ms ← macros.mapM macroOfY
  if ms.any (fun m => !isMacroName m.name) then fail "Macro name must start with '@'"
  else do
    let (t, set) ← resolvePasses ms tree []
    if !(set ++ findMacroNames t).isEmpty then fail "The following macros are not defined"
    else pure t

end Jasm

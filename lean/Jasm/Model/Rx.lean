/-!
# Model of the regular-expression engine (third-party `regex` module)

Only the operator subset that the JASM compiler emits, on ASCII input.  The semantics is the
classical backtracking one, given as the *list of successes in priority order*:
`Rx.run r e s` lists, for every way `r` can match a prefix of `s` starting with capture
environment `e`, the resulting environment and the remaining input, most-preferred first.
Nothing here imports anything outside Lean core.
-/
namespace Jasm

abbrev Str := List Char
/-- capture environment: group number ↦ captured text, most recent binding first -/
abbrev Env := List (Nat × Str)
abbrev Res := List (Env × Str)

/-- items of a character class -/
inductive CI where
  | ch (c : Char)
  | digit            -- `\d`, ASCII digits only (the streams are ASCII)
  deriving Repr, DecidableEq, Inhabited

inductive Rx where
  | eps
  | chr (c : Char)                      -- literal character, printed raw
  | esc (c : Char)                      -- literal character, printed as `\c`
  | any                                 -- `.`
  | cls (neg : Bool) (items : List CI)  -- `[...]` / `[^...]`
  | seq (a b : Rx)
  | alt (a b : Rx)                      -- `a|b`
  | grp (r : Rx)                        -- `(?:r)`
  | rep (r : Rx) (lo hi : Nat)          -- greedy `r{lo,hi}` (printed `r{n}` when lo = hi)
  | opt (r : Rx)                        -- greedy `r?`
  | plus (r : Rx)                       -- greedy `r+` (only ever applied to one-character regexes)
  | cap (n : Nat) (r : Rx)              -- capturing group number `n`
  | bref (n : Nat)                      -- `\n`
  | nla (r : Rx)                        -- `(?!r)`
  deriving Repr, Inhabited

def CI.matches : CI → Char → Bool
  | .ch c, x => x == c
  | .digit, x => '0' ≤ x && x ≤ '9'

def inCls (neg : Bool) (items : List CI) (c : Char) : Bool :=
  (items.any (·.matches c)) != neg

/-- Greedy bounded iteration of a matcher, as the engine runs it.  The first `lo` rounds are forced.
After that, one more round is tried first and stopping second, but the engine's zero-width guard
applies: another round is attempted only if the previous optional round started at a different
position (`last` is the remaining length at which it started), so a round that consumed nothing
is never followed by a further round. -/
def iterG (f : Env → Str → Res) : Nat → Nat → Option Nat → Env → Str → Res
  | lo, 0, _, e, s => if lo = 0 then [(e, s)] else []
  | lo+1, hi+1, last, e, s => (f e s).flatMap fun (e', s') => iterG f lo hi last e' s'
  | 0, hi+1, last, e, s =>
      (if last = some s.length then []
        else (f e s).flatMap fun (e', s') => iterG f 0 hi (some s.length) e' s') ++ [(e, s)]

def iter (f : Env → Str → Res) (lo hi : Nat) (e : Env) (s : Str) : Res := iterG f lo hi none e s

def stripPrefix : Str → Str → Option Str
  | [], s => some s
  | _ :: _, [] => none
  | p :: ps, c :: cs => if p = c then stripPrefix ps cs else none

def Rx.run : Rx → Env → Str → Res
  | .eps, e, s => [(e, s)]
  | .chr c, e, s => match s with
      | x :: xs => if x = c then [(e, xs)] else []
      | [] => []
  | .esc c, e, s => match s with
      | x :: xs => if x = c then [(e, xs)] else []
      | [] => []
  | .any, e, s => match s with
      | x :: xs => if x = '\n' then [] else [(e, xs)]
      | [] => []
  | .cls neg items, e, s => match s with
      | x :: xs => if inCls neg items x then [(e, xs)] else []
      | [] => []
  | .seq a b, e, s => (a.run e s).flatMap fun (e', s') => b.run e' s'
  | .alt a b, e, s => a.run e s ++ b.run e s
  | .grp r, e, s => r.run e s
  | .rep r lo hi, e, s => iter (r.run) lo hi e s
  | .opt r, e, s => iter (r.run) 0 1 e s
  | .plus r, e, s => iter (r.run) 1 s.length e s
  | .cap n r, e, s => (r.run e s).map fun (e', s') =>
      ((n, s.take (s.length - s'.length)) :: e', s')
  | .bref n, e, s => match e.lookup n with
      | some t => match stripPrefix t s with
          | some s' => [(e, s')]
          | none => []
      | none => []
  | .nla r, e, s => if (r.run e s).isEmpty then [(e, s)] else []

/-- literal text, every character printed raw -/
def lit (t : Str) : Rx := t.foldr (fun c r => .seq (.chr c) r) .eps

def seqAll : List Rx → Rx
  | [] => .eps
  | r :: rs => .seq r (seqAll rs)

/-- `r₁|r₂|…` ; the empty alternation never occurs in compiled rules (the compiler raises) -/
def altAll : List Rx → Rx
  | [] => .nla .eps
  | [r] => r
  | r :: rs => .alt r (altAll rs)

/-! ## Printing: the exact text the Python code builds -/

def natStr (n : Nat) : Str := (toString n).toList

def CI.render : CI → Str
  | .ch c => [c]
  | .digit => ['\\', 'd']

def Rx.render : Rx → Str
  | .eps => []
  | .chr c => [c]
  | .esc c => ['\\', c]
  | .any => ['.']
  | .cls neg items => '[' :: (if neg then ['^'] else []) ++ items.flatMap CI.render ++ [']']
  | .seq a b => a.render ++ b.render
  | .alt a b => a.render ++ '|' :: b.render
  | .grp r => '(' :: '?' :: ':' :: r.render ++ [')']
  | .rep r lo hi =>
      r.render ++ (if lo = hi then '{' :: natStr lo ++ ['}'] else '{' :: natStr lo ++ ',' :: natStr hi ++ ['}'])
  | .opt r => r.render ++ ['?']
  | .plus r => r.render ++ ['+']
  | .cap _ r => '(' :: r.render ++ [')']
  | .bref n => '\\' :: natStr n
  | .nla r => '(' :: '?' :: '!' :: r.render ++ [')']

/-! ## Syntactic sanity of an AST with respect to its printed form.

`render` is plain concatenation, so an AST is only faithfully represented by its text when
alternations sit directly inside a group, quantifiers apply to atoms and capture numbers follow
the textual order of the opening parentheses.  `Rx.wf` is evaluated by the driver on every
compiled rule (and T2 validates text-vs-AST semantics against the real engine). -/

def Rx.isAtom : Rx → Bool
  | .chr _ | .esc _ | .any | .cls _ _ | .grp _ | .cap _ _ | .bref _ => true
  | _ => false

/-- `top = true`: an alternation is allowed here (directly under a group) -/
def Rx.wfAux : Rx → Bool → Bool
  | .eps, _ | .chr _, _ | .esc _, _ | .any, _ | .cls _ _, _ | .bref _, _ => true
  | .seq a b, _ => a.wfAux false && b.wfAux false
  | .alt a b, top => top && a.wfAux false && b.wfAux true
  | .grp r, _ => r.wfAux true
  | .cap _ r, _ => r.wfAux true
  | .nla r, _ => r.wfAux true
  | .rep r lo hi, _ => r.isAtom && r.wfAux false && lo ≤ hi
  | .opt r, _ => r.isAtom && r.wfAux false
  | .plus r, _ => (match r with | .cls _ _ | .chr _ | .esc _ | .any => true | _ => false)

/-- capture numbers in textual order, starting from `n`; returns the next free number -/
def Rx.capsFrom : Rx → Nat → Option Nat
  | .seq a b, n | .alt a b, n => (a.capsFrom n).bind b.capsFrom
  | .grp r, n | .nla r, n | .rep r _ _, n | .opt r, n | .plus r, n => r.capsFrom n
  | .cap k r, n => if k = n then r.capsFrom (n+1) else none
  | _, n => some n

def Rx.wf (r : Rx) : Bool := r.wfAux true && (r.capsFrom 1).isSome

/-! ## Searching -/

/-- first (most preferred) match of `r` at the very start of `s`: the remaining input -/
def matchAt (r : Rx) (s : Str) : Option Str := ((r.run [] s).head?).map (·.2)

/-- leftmost match: (number of characters skipped, matched text, remaining input) -/
def search (r : Rx) : Str → Option (Nat × Str × Str)
  | [] => (matchAt r []).map fun rest => (0, [], rest)
  | c :: t => match matchAt r (c :: t) with
    | some rest => some (0, (c :: t).take ((c :: t).length - rest.length), rest)
    | none => (search r t).map fun (k, m, rest) => (k+1, m, rest)

/-- first match of `r` at the very start of `s` that consumes at least one character -/
def matchAtNonEmpty (r : Rx) (s : Str) : Option Str :=
  (((r.run [] s).find? fun x => x.2.length < s.length)).map (·.2)

/-- `finditer`: leftmost match, then restart at its end.  Directly after an *empty* match the
engine retries the same position but accepts only a non-empty match there (`forbid`). -/
def findAllAux (r : Rx) : Nat → Bool → Str → List Str
  | 0, _, _ => []
  | fuel+1, forbid, s =>
    if forbid then
      match matchAtNonEmpty r s with
      | some rest => s.take (s.length - rest.length) :: findAllAux r fuel false rest
      | none => match s with
        | [] => []
        | _ :: t => findAllAux r fuel false t
    else match search r s with
      | none => []
      | some (_, m, rest) => m :: findAllAux r fuel m.isEmpty rest

def findAll (r : Rx) (s : Str) : List Str := findAllAux r (2 * s.length + 2) false s

end Jasm

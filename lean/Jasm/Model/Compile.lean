import Jasm.Model.Yaml
/-!
# Model of the rule compiler (`jasm_regex/tree_generators/**`, `yaml2regex.py`)

Mirrors, one for one: `PatternNodeBuilderNoParents` (`build`), the three handler chains of
`ast_builder.py` (`typ`), the capture manager (threaded list of names) and every `get_regex()`
template (`comp`).  The result is an `Rx` whose `render` is the exact text the Python code builds
(tie T1 compares the two texts).
-/
namespace Jasm

structure Times where
  lo : Nat
  hi : Nat
  deriving Repr, DecidableEq, Inhabited

def Times.one : Times := ⟨1, 1⟩

/-- `PatternNodeTmpUntyped`: name (already as `str(name)`), times, children (`None` ≡ `[]`) -/
inductive Node where
  | mk (name : Str) (times : Times) (kids : List Node)
  deriving Repr, Inhabited

def Node.name : Node → Str | .mk n _ _ => n
def Node.times : Node → Times | .mk _ t _ => t
def Node.kids : Node → List Node | .mk _ _ k => k

def isInfix (p : Str) : Str → Bool
  | [] => p.isEmpty
  | c :: t => p.isPrefixOf (c :: t) || isInfix p t

/-! ## `PatternNodeBuilderNoParents` -/

def intBound (what : String) : Option Y → M Int
  | none => pure 1
  | some (.int n) => pure n
  | some (.bool _) => unsup s!"times {what} is a bool"
  | some (.float _) => unsup s!"times {what} is a float"
  | some _ => fail s!"times {what}: TypeError"

/-- `_get_times` (with the bounds validation) -/
def getTimes (d : List (Y × Y)) : M Times := do
  let obj : Option Y ←
    match d with
    | [] => fail "IndexError: empty dict"
    | (_, body) :: _ =>
      if dictHas d "times" then pure (dictGet d "times")
      else match body with
        | .dict bd =>
          if dictHas bd "times" then
            match dictGet bd "times" with
            | some (.int n) => pure (some (.int n))
            | some (.bool b) => pure (some (.bool b))
            | some (.dict t) => pure (some (.dict t))
            | _ => fail "assert isinstance(times, (int, dict))"
          else pure none
        | .list l => if l.any (· == .str "times".toList) then fail "assert isinstance(body, dict)" else pure none
        | .str s => if isInfix "times".toList s then fail "assert isinstance(body, dict)" else pure none
        | _ => fail "TypeError: argument of this type is not iterable"
  match obj with
  | some (.int n) =>
    if n < 0 then fail "times must not be negative" else pure ⟨n.toNat, n.toNat⟩
  | some (.bool _) => unsup "times is a bool"
  | some (.dict t) => do
    let lo ← intBound "min" (dictGet t "min")
    let hi ← intBound "max" (dictGet t "max")
    if lo < 0 || hi < lo then fail "Invalid times bounds" else pure ⟨lo.toNat, hi.toNat⟩
  | _ => pure Times.one

def nameOf (y : Y) : M Str :=
  match y.scalarStr with
  | some s => pure s
  | none => unsup "node name is not a scalar"

mutual
/-- `PatternNodeBuilderNoParents(command).build()` -/
def build : Y → M Node
  | .str s => pure (.mk s Times.one [])
  | .int n => pure (.mk (intStr n) Times.one [])
  | .bool b => pure (.mk (if b then "True".toList else "False".toList) Times.one [])
  | .dict d => do
    match d with
    | [] => fail "IndexError: empty dict"
    | (k, body) :: rest => do
      let name ← nameOf k
      let times ← getTimes ((k, body) :: rest)
      let kids ← match body with
        | .list l => buildList l
        | .dict bd => buildTuples bd
        | _ => fail "Command is not a list or a dict"
      pure (.mk name times kids)
  | _ => fail "Command is not a valid type"
/-- children from a list body (elements equal to the string `times` are skipped) -/
def buildList : List Y → M (List Node)
  | [] => pure []
  | y :: ys => do
    if y == .str "times".toList then buildList ys
    else do
      let n ← build y
      let ns ← buildList ys
      pure (n :: ns)
/-- children from a dict body: every item is handled as a `(key, value)` tuple -/
def buildTuples : List (Y × Y) → M (List Node)
  | [] => pure []
  | (k, v) :: rest => do
    let name ← nameOf k
    let kids ← match v with
      | .list l => buildAll l
      | v => do
        match v.scalarStr with
        | some s => pure [Node.mk s Times.one []]
        | none =>
          -- `times: {min, max}` inside a body: the child is named by the dict itself and is never
          -- looked at (a node called `times` compiles to the empty regex)
          if name = "times".toList then pure [Node.mk "<times-object>".toList Times.one []]
          else unsup "tuple value is neither a list nor a scalar"
    let ns ← buildTuples rest
    pure (.mk name Times.one kids :: ns)
/-- children of a tuple whose value is a list (no `times` filter here) -/
def buildAll : List Y → M (List Node)
  | [] => pure []
  | y :: ys => do
    let n ← build y
    let ns ← buildAll ys
    pure (n :: ns)
end

/-! ## Typed nodes -/

inductive Pat where
  | and (l : List Pat) (t : Times)
  | or (l : List Pat) (t : Times)
  | not (p : Pat) (opLevel : Bool) (t : Times)
  | anyOrder (l : List Pat) (t : Times)
  | mnem (name : Str) (ops : List Pat) (t : Times)
  | operand (name : Str) (hasKids : Bool)
  | timesMarker
  | deref (fields : List Pat) (t : Times)
  | derefField (name : Str) (kids : List Pat)
  | derefProp (name : Str) (nKids : Nat)
  | capInstDef (name : Str)
  | capInstRef (name : Str)
  | capOpDef (name : Str)
  | capOpRef (name : Str)
  | capDerefDef (name : Str)
  | capDerefRef (name : Str)
  | regDef (name : Str)
  | regRef (name : Str)
  deriving Repr, Inhabited

inductive Ctx where
  | none | mnemonic | deref
  deriving Repr, DecidableEq

inductive Chain where
  | general | operand | derefKids
  deriving Repr, DecidableEq

def splitOnChar (c : Char) : Str → List Str
  | [] => [[]]
  | x :: xs =>
    if x = c then [] :: splitOnChar c xs
    else match splitOnChar c xs with
      | [] => [[x]]
      | p :: ps => (x :: p) :: ps

def intercalateStr (sep : Str) : List Str → Str
  | [] => []
  | [a] => a
  | a :: as => a ++ sep ++ intercalateStr sep as

def regSuffixes : List Str := ["64", "32", "16", "8h", "8l"].map String.toList

/-- `remove_access_suffix` -/
def removeAccessSuffix (name : Str) : Str :=
  let parts := splitOnChar '.' name
  match parts.getLast? with
  | some last => if regSuffixes.contains last then intercalateStr ['.'] parts.dropLast else name
  | none => name

def specialPrefixes : List Str := ["&genreg", "&indreg", "&stackreg", "&basereg"].map String.toList

def isSpecialReg (name : Str) : Bool := specialPrefixes.any (·.isPrefixOf name)
def isCapture (name : Str) : Bool := "&".toList.isPrefixOf name

/-- generic capture builder: registered ⇒ call, otherwise register ⇒ reference -/
def captureBuild (key name : Str) (caps : List Str) (mkDef mkRef : Str → Pat) : Pat × List Str :=
  if caps.contains key then (mkRef name, caps) else (mkDef name, caps ++ [key])

mutual
/-- the three handler chains (first match wins) -/
def typ : Chain → Ctx → Node → List Str → M (Pat × List Str)
  | ch, cx, .mk name t kids, caps =>
    let nary (mk : List Pat → Times → Pat) : M (Pat × List Str) := do
      if kids.isEmpty then fail "Children list is empty"
      else do
        let (ps, caps) ← typList .general cx kids caps
        pure (mk ps t, caps)
    let notH : M (Pat × List Str) := do
      match kids with
      | [] => fail "Children list is empty"
      | [k] => do
        let (p, caps) ← typ .general cx k caps
        pure (.not p (cx != .none) t, caps)
      | _ => fail "Children list should have only one element"
    let derefH : M (Pat × List Str) := do
      let (fs, caps) ← typFields kids caps
      pure (.deref fs t, caps)
    let leaf : M (Pat × List Str) :=
      match cx with
      | .none => do
        let (ops, caps) ← typList .operand .mnemonic kids caps
        pure (.mnem name ops t, caps)
      | .mnemonic => pure (.operand name (!kids.isEmpty), caps)
      | .deref => pure (.derefProp name kids.length, caps)
    match ch with
    | .general =>
      if name = "$and".toList then nary .and
      else if name = "$or".toList then nary .or
      else if name = "$not".toList then notH
      else if name = "$and_any_order".toList then nary .anyOrder
      else if name = "$deref".toList then derefH
      else if name = "times".toList then pure (.timesMarker, caps)
      else if isCapture name then pure (captureBuild name name caps .capInstDef .capInstRef)
      else leaf
    | .operand =>
      if name = "$and".toList then nary .and
      else if name = "$or".toList then nary .or
      else if name = "$not".toList then notH
      else if name = "$and_any_order".toList then nary .anyOrder
      else if name = "times".toList then pure (.timesMarker, caps)
      else if name = "$deref".toList then derefH
      else if isSpecialReg name then
        pure (captureBuild (removeAccessSuffix name) name caps .regDef .regRef)
      else if isCapture name then pure (captureBuild name name caps .capOpDef .capOpRef)
      else pure (.operand name (!kids.isEmpty), caps)
    | .derefKids =>
      if isSpecialReg name then
        pure (captureBuild (removeAccessSuffix name) name caps .regDef .regRef)
      else if isCapture name then pure (captureBuild name name caps .capDerefDef .capDerefRef)
      else if name = "$and".toList then nary .and
      else if name = "$or".toList then nary .or
      else if name = "$not".toList then notH
      else if name = "$and_any_order".toList then nary .anyOrder
      else pure (.derefProp name kids.length, caps)
def typList : Chain → Ctx → List Node → List Str → M (List Pat × List Str)
  | _, _, [], caps => pure ([], caps)
  | ch, cx, k :: ks, caps => do
    let (p, caps) ← typ ch cx k caps
    let (ps, caps) ← typList ch cx ks caps
    pure (p :: ps, caps)
/-- `DerefHandler._handle_children`: every field must have children, typed by the deref chain -/
def typFields : List Node → List Str → M (List Pat × List Str)
  | [], caps => pure ([], caps)
  | .mk fname _ gkids :: rest, caps => do
    if gkids.isEmpty then fail "Children list is empty (deref field)"
    else do
      let (gs, caps) ← typList .derefKids .deref gkids caps
      let (fs, caps) ← typFields rest caps
      pure (.derefField fname gs :: fs, caps)
end

/-! ## Regex templates (`get_regex`) -/

structure Flags where
  mnemFull : Bool
  opsFull : Bool
  deriving Repr, DecidableEq, Inhabited

def clsNotCommaBar : Rx := .cls true [.ch ',', .ch '|']      -- `[^,|]`
def clsNotBar : Rx := .cls true [.ch '|']                     -- `[^|]`
def hexCls : Rx := .cls false [.digit, .ch 'a', .ch 'b', .ch 'c', .ch 'e', .ch 'd', .ch 'f']
/-- `IGNORE_INST_ADDR` = `[\dabcedf]+::` -/
def ignoreInstAddr : Rx := .seq (.plus hexCls) (.seq (.chr ':') (.chr ':'))
/-- `SKIP_TO_END_OF_PATTERN_NODE` = `[^|]{0,1000}\|` -/
def skipToEndOfPatternNode : Rx := .seq (.rep clsNotBar 0 1000) (.esc '|')
/-- `SKIP_TO_END_OF_OPERAND` = `[^,|]{0,1000},` -/
def skipToEndOfOperand : Rx := .seq (.rep clsNotCommaBar 0 1000) (.chr ',')
def ignoreNamePrefix : Rx := .rep clsNotCommaBar 0 1000
def ignoreNameSuffix : Rx := .seq (.rep clsNotCommaBar 0 1000) (.chr ',')
def optionalComma : Rx := .opt (.chr ',')
def optionalPercent : Rx := .opt (.chr '%')
/-- `OPTIONAL_HEX_CHAR` = `(?:0x)?` -/
def optionalHex : Rx := .opt (.grp (lit "0x".toList))

/-- `get_pattern_node_name` -/
def nameWindow (full : Bool) (name : Str) : Rx :=
  if full then .seq (lit name) (.chr ',')
  else .seq ignoreNamePrefix (.seq (lit name) ignoreNameSuffix)

/-- `TimesTypeBuilder.get_min_max_regex` applied to an already grouped regex -/
def withTimes (r : Rx) (t : Times) : Rx :=
  if t = Times.one then r else .rep r t.lo t.hi

def isHexDigit (c : Char) : Bool :=
  ('0' ≤ c && c ≤ '9') || ('a' ≤ c && c ≤ 'f') || ('A' ≤ c && c ≤ 'F')

/-- `_is_hex_operand`: `some true/false`, or `none` for the exotic spellings Python's
`int(_, 16)` also accepts (sign, `0x`, `_`, blanks), which the model does not cover -/
def isHexOperand (name : Str) : Option Bool :=
  match name.getLast? with
  | some 'h' =>
    let tmp := name.dropLast
    if tmp.isEmpty then some false
    else if tmp.all isHexDigit then some true
    else if tmp.any (fun c => c = '_' || c = '+' || c = '-' || c = ' ' || c = '\t' || c = '\n' || c = 'x' || c = 'X')
      then none
    else some false
  | _ => some false

/-- all permutations in `itertools.permutations` order -/
def permsAux {α} : Nat → List α → List (List α)
  | 0, _ => [[]]
  | n+1, l =>
    (List.range l.length).flatMap fun i =>
      match l[i]? with
      | some x => (permsAux n (l.eraseIdx i)).map (x :: ·)
      | none => []
def perms {α} (l : List α) : List (List α) := permsAux l.length l

def capIndex (caps : List Str) (name : Str) : M Nat :=
  match caps.idxOf? name with
  | some i => pure (i + 1)
  | none => fail "Capture group not found"

def endsWithStr (suffix : String) (s : Str) : Bool := suffix.toList.isSuffixOf s

/-- matching rule of a register-family call; `idx` is the text `\N,?` -/
def regCallRule (name : Str) (idx : Rx) : M Rx :=
  let r := Rx.chr 'r'; let e := Rx.chr 'e'
  let s (l : List Rx) : M Rx := pure (seqAll l)
  if "&genreg".toList.isPrefixOf name then
    if endsWithStr "64" name then s [r, idx, .chr 'x']
    else if endsWithStr "32" name then s [e, idx, .chr 'x']
    else if endsWithStr "16" name then s [idx, .chr 'x']
    else if endsWithStr "8h" name then s [idx, .chr 'h']
    else if endsWithStr "8l" name then s [idx, .chr 'l']
    else fail "NotImplementedError"
  else if "&indreg".toList.isPrefixOf name then
    if endsWithStr "64" name then s [r, idx, .chr 'i']
    else if endsWithStr "32" name then s [e, idx, .chr 'i']
    else if endsWithStr "16" name then s [idx, .chr 'i']
    else if endsWithStr "8l" name then s [idx, .chr 'i', .chr 'l']
    else fail "NotImplementedError"
  else if "&stackreg".toList.isPrefixOf name || "&basereg".toList.isPrefixOf name then
    if endsWithStr "64" name then s [r, idx]
    else if endsWithStr "32" name then s [e, idx]
    else if endsWithStr "16" name then s [idx]
    else if endsWithStr "8l" name then s [idx, .chr 'l']
    else fail "NotImplementedError"
  else fail "NotImplementedError"

/-- first-occurrence slice of a register family (capture number assigned later) -/
def regDefSlice (name : Str) (i : Nat) : M Rx :=
  if "&genreg".toList.isPrefixOf name then
    pure (.seq (.cap i .any) (.cls false [.ch 'x', .ch 'h', .ch 'l']))
  else if "&indreg".toList.isPrefixOf name then
    pure (seqAll [.cap i (.cls false [.ch 's', .ch 'd']), .chr 'i', .opt (.chr 'l')])
  else if "&stackreg".toList.isPrefixOf name then
    pure (seqAll [.cap i (lit "sp".toList), .opt (.chr 'l')])
  else if "&basereg".toList.isPrefixOf name then
    pure (seqAll [.cap i (lit "bp".toList), .opt (.chr 'l')])
  else fail "Register type not found"

def derefChildNames : List Str :=
  ["main_reg", "constant_offset", "register_multiplier", "constant_multiplier"].map String.toList

/-- `(?:c1)|(?:c2)|…` -/
def orJoin (rs : List Rx) : Rx := altAll (rs.map .grp)

mutual
def comp (fl : Flags) (caps : List Str) : Pat → M Rx
  | .and l t => do
    let cs ← compList fl caps l
    pure (withTimes (.grp (seqAll cs)) t)
  | .or l t => do
    let cs ← compList fl caps l
    pure (withTimes (.grp (orJoin cs)) t)
  | .not p opLevel t => do
    let c ← comp fl caps p
    let skip := if opLevel then skipToEndOfOperand else .seq ignoreInstAddr skipToEndOfPatternNode
    pure (withTimes (.grp (.seq (.nla c) skip)) t)
  | .anyOrder l t => do
    let cs ← compList fl caps l
    pure (withTimes (.grp (orJoin ((perms cs).map fun p => .grp (seqAll p)))) t)
  | .mnem name ops t => do
    let os ← compList fl caps ops
    let body := Rx.grp (seqAll [nameWindow fl.mnemFull name, seqAll os, skipToEndOfPatternNode])
    if t = Times.one then pure (.seq ignoreInstAddr body)
    else pure (.rep (.grp (.seq ignoreInstAddr body)) t.lo t.hi)
  | .operand name hasKids =>
    if hasKids then fail "Operand should not have children"
    else match isHexOperand name with
      | none => unsup "exotic hex operand spelling"
      | some true => pure (lit ("0x".toList ++ name.dropLast))
      | some false => pure (nameWindow fl.opsFull name)
  | .timesMarker => pure .eps
  | .deref fields t => do
    let fs ← compFields fl caps fields []
    let get (fname : String) : Option Rx := (fs.find? fun f => f.1 == fname.toList).map (·.2)
    let main ← match get "main_reg" with
      | some r => pure r
      | none => fail "main_reg is required for deref object"
    let co := get "constant_offset"
    let rm := get "register_multiplier"
    let cm := get "constant_multiplier"
    -- `x if x else None` on the child's regex *text*
    let truthy (o : Option Rx) : Option Rx := o.bind fun r => if r.render.isEmpty then none else some r
    let co := (truthy co).map fun r => Rx.seq optionalHex r
    let rm := (truthy rm).map fun r => Rx.seq optionalPercent r
    let cm := (truthy cm).map fun r => Rx.seq optionalHex r
    let mid : Rx := match rm, cm with
      | some b, some c => seqAll [.esc '+', b, .esc '*', c]
      | some b, none => seqAll [.esc '+', b]
      | none, some c => seqAll [.esc '+', c]
      | none, none => .eps
    let off : Rx := match co with
      | some k => seqAll [.esc '+', k]
      | none => .eps
    let d := seqAll [.esc '[', optionalPercent, main, mid, off, .esc ']']
    if t = Times.one then pure (.seq d (.chr ','))
    else pure (.rep (.grp (.seq d (.chr ','))) t.lo t.hi)
  | .derefField _ _ => fail "deref field outside $deref"
  | .derefProp name nKids =>
    if nKids = 0 then pure (lit name)
    else if nKids = 1 then fail "NotImplementedError: untyped child"
    else fail "Children list must contain exactly one element"
  | .capInstDef name => do
    -- the group is numbered by its registration index; for definitions on the spine this is also
    -- its textual position (checked on every compiled rule: `Rx.wf` after `renumber`)
    let i ← capIndex caps name
    pure (seqAll [ignoreInstAddr, .cap i (.plus clsNotBar), .chr ',', .esc '|'])
  | .capInstRef name => do
    let i ← capIndex caps name
    pure (seqAll [ignoreInstAddr, .bref i, .chr ',', .esc '|'])
  | .capOpDef name => do
    let i ← capIndex caps name
    pure (.seq (.cap i (.plus clsNotCommaBar)) (.chr ','))
  | .capOpRef name => do
    let i ← capIndex caps name
    pure (.seq (.bref i) (.chr ','))
  | .capDerefDef name => do
    let i ← capIndex caps name
    pure (.cap i (.plus clsNotCommaBar))
  | .capDerefRef name => do
    let i ← capIndex caps name
    pure (.seq (.bref i) optionalComma)
  | .regDef name => do
    let i ← capIndex caps (removeAccessSuffix name)
    let slice ← regDefSlice name i
    pure (seqAll [optionalPercent, .opt (.cls false [.ch 'r', .ch 'e']), slice, optionalComma])
  | .regRef name => do
    let i ← capIndex caps (removeAccessSuffix name)
    let rule ← regCallRule name (.seq (.bref i) optionalComma)
    pure (seqAll [optionalPercent, rule, optionalComma])
/-- regexes of the (first) fields carrying one of the four deref child names -/
def compFields (fl : Flags) (caps : List Str) : List Pat → List Str → M (List (Str × Rx))
  | [], _ => pure []
  | .derefField n kids :: rest, seen =>
    if derefChildNames.contains n && !seen.contains n then
      match kids with
      | [k] => do
        let r ← comp fl caps k
        let rs ← compFields fl caps rest (n :: seen)
        pure ((n, r) :: rs)
      | _ => fail "Children list must contain exactly one element"
    else compFields fl caps rest seen
  | _ :: rest, seen => compFields fl caps rest seen
def compList (fl : Flags) (caps : List Str) : List Pat → M (List Rx)
  | [] => pure []
  | p :: ps => do
    let r ← comp fl caps p
    let rs ← compList fl caps ps
    pure (r :: rs)
end

/-- number the capturing groups in textual order (what the engine does with the printed text) -/
def Rx.renumber : Rx → Nat → Rx × Nat
  | .seq a b, n => let (a', n) := a.renumber n; let (b', n) := b.renumber n; (.seq a' b', n)
  | .alt a b, n => let (a', n) := a.renumber n; let (b', n) := b.renumber n; (.alt a' b', n)
  | .grp r, n => let (r', n) := r.renumber n; (.grp r', n)
  | .rep r lo hi, n => let (r', n) := r.renumber n; (.rep r' lo hi, n)
  | .opt r, n => let (r', n) := r.renumber n; (.opt r', n)
  | .plus r, n => let (r', n) := r.renumber n; (.plus r', n)
  | .nla r, n => let (r', n) := r.renumber n; (.nla r', n)
  | .cap _ r, n => let (r', m) := r.renumber (n+1); (.cap n r', m)
  | r, n => (r, n)

/-- typed tree and capture table of a pattern tree (`_generate_rule_tree`) -/
def typeTree (tree : Y) : M (Pat × List Str) := do
  let node ← build tree
  typ .general .none node []

/-- the capture groups are numbered by the engine in textual order (`renumber`); `stableNumbering`
says that this coincides with the registration indices `comp` wrote into the `cap` nodes -/
def Rx.capNumbers : Rx → List Nat
  | .seq a b => a.capNumbers ++ b.capNumbers
  | .alt a b => a.capNumbers ++ b.capNumbers
  | .grp r => r.capNumbers
  | .rep r _ _ => r.capNumbers
  | .opt r => r.capNumbers
  | .plus r => r.capNumbers
  | .nla r => r.capNumbers
  | .cap n r => n :: r.capNumbers
  | _ => []

/-- `{"$and": patterns}` → regex -/
def compileTree (fl : Flags) (tree : Y) : M Rx := do
  let (p, caps) ← typeTree tree
  let r ← comp fl caps p
  pure (r.renumber 1).1

def topTree (pattern : Y) : Y := .dict [(.str "$and".toList, pattern)]

end Jasm

import Jasm.Model.Rx
import Jasm.Model.Yaml
import Jasm.Model.Compile
import Jasm.Model.Stream
import Jasm.Model.Parser
import Jasm.Model.Macro
import Jasm.Model.Pipeline
import Jasm.Spec.Den

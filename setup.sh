#!/bin/sh
# Build the Lean model, specifications, proofs and the driver from the files on disk (offline).
cd "$(dirname "$0")" || exit 2
/venv/bin/python harness/extract_consts.py >/dev/null || exit 2
cd lean && lake build Jasm jasmdriver Jasm.Proofs.ConstsTie

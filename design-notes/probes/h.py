import sys, os, tempfile, yaml, json
sys.path.insert(0, __import__('os').environ.get('JSRC','/repo/src'))
from jasm.global_definitions import *
from jasm.match import MasterOfPuppets
from jasm.jasm_regex.yaml2regex import Yaml2Regex

def wr(text, suffix):
    f = tempfile.NamedTemporaryFile('w', suffix=suffix, delete=False, dir='/tmp/scratch')
    f.write(text); f.close(); return f.name

def listing(insts):
    "insts: list of (addr, mnemonic, operand-string) in objdump format"
    lines = ["", "x.o:     file format elf64-x86-64", "", "", "Disassembly of section .text:", "", "0000000000000000 <f>:"]
    for a, m, ops in insts:
        if ops:
            lines.append(f"  {a}:\t90                   \t{m.ljust(6)} {ops}")
        else:
            lines.append(f"  {a}:\t90                   \t{m}")
    return "\n".join(lines) + "\n"

def run(rule, insts, mode='list', search='all', only_addr=False, macros=None, raw=None):
    if not isinstance(rule, str):
        rule = yaml.safe_dump(rule)
    p = wr(rule, '.yaml')
    s = wr(raw if raw is not None else listing(insts), '.s')
    rm = {'bool': MatchingReturnMode.bool, 'list': MatchingReturnMode.matched_addrs_list, 'str': MatchingReturnMode.all_instructions_string}[mode]
    sm = MatchingSearchMode.all_finds if search == 'all' else MatchingSearchMode.first_find
    try:
        mop = MasterOfPuppets(MatchConfig(pattern_pathstr=p, input_file=s, return_mode=rm, matching_mode=sm, return_only_address=only_addr, macros=macros))
        return mop.regex_rule, mop.perform_matching()
    finally:
        os.unlink(p); os.unlink(s)

import sys, random, itertools
from h import *
import logging
rnd = random.Random(int(sys.argv[1]) if len(sys.argv) > 1 else 1)
MN = ['a','b','ab']
OPS = ['rax','ax','1','%rax']
IOPS = ['%rax','%eax','$0x1','$1','%ax']

def rel(full, n, f): return (n == f) if full else (n in f)
def norm_fields(inst):
    # mirror of stream fields: we get them from the implementation stream itself (decode)
    raise NotImplementedError

def gen_pat(depth, level):
    r = rnd.random()
    if level == 'inst':
        if depth <= 0 or r < 0.45:
            nops = rnd.choice([0,0,1,1,2,3])
            ops = [gen_pat(depth-1,'op') if rnd.random()<0.25 and depth>0 else rnd.choice(OPS) for _ in range(nops)]
            t = gen_times()
            name = rnd.choice(MN)
            node = {name: ops} if ops else name
            if t is not None:
                if ops: node = {name: ops, 'times': t}
                else: node = {name: {'times': t}}
            return node
        op = rnd.choice(['$or','$and','$and_any_order','$not'])
        if op == '$not':
            node = {'$not':[gen_pat(depth-1,'inst')]}
        else:
            node = {op:[gen_pat(depth-1,'inst') for _ in range(rnd.choice([1,2,2,3]))]}
        t = gen_times()
        if t is not None: node['times'] = t
        return node
    else:
        if depth <= 0 or r < 0.5: return rnd.choice(OPS)
        op = rnd.choice(['$or','$and','$and_any_order'])
        return {op:[gen_pat(depth-1,'op') for _ in range(rnd.choice([1,2,2]))]}
def gen_times():
    r = rnd.random()
    if r < 0.7: return None
    if r < 0.85: return rnd.choice([0,1,2,3])
    lo = rnd.choice([0,1,2]); return {'min':lo,'max':lo+rnd.choice([0,1,2])}

def times_of(node):
    if isinstance(node, dict):
        name = list(node.keys())[0]
        t = None
        if 'times' in node: t = node['times']
        elif isinstance(node[name], dict) and 'times' in node[name]: t = node[name]['times']
        if isinstance(t, int): return (t,t)
        if isinstance(t, dict): return (t.get('min',1), t.get('max',1))
    return (1,1)

# denotation over decoded stream records: rec = (addr, [fields])
def den_op(p, fl, fields):
    if isinstance(p, (str,int)):
        return {1} if fields and rel(fl[1], str(p), fields[0]) else set()
    name = list(p.keys())[0]; ch = p[name]
    if name == '$or': return set().union(*[den_op(c, fl, fields) for c in ch])
    if name == '$and': return den_seq_op(ch, fl, fields)
    if name == '$and_any_order': return set().union(*[den_seq_op(list(q), fl, fields) for q in itertools.permutations(ch)])
    raise ValueError(name)
def den_seq_op(ps, fl, fields):
    cur = {0}
    for p in ps:
        nxt = set()
        for k in cur:
            for j in den_op(p, fl, fields[k:]): nxt.add(k+j)
        cur = nxt
    return cur
def den1(p, fl, recs):
    "one un-repeated occurrence"
    if isinstance(p, (str,int)): p = {str(p): []}
    name = list(p.keys())[0]; ch = p[name]
    if name == '$or': return set().union(*[den(c, fl, recs) for c in ch])
    if name == '$and': return den_seq(ch, fl, recs)
    if name == '$and_any_order': return set().union(*[den_seq(list(q), fl, recs) for q in itertools.permutations(ch)])
    if name == '$not': return {1} if recs and not den(ch[0], fl, recs) else set()
    ops = ch if isinstance(ch, list) else []
    if not recs: return set()
    f = recs[0][1]
    if not rel(fl[0], name, f[0]): return set()
    return {1} if den_seq_op(ops, fl, f[1:]) else set()
def den(p, fl, recs):
    lo, hi = times_of(p)
    res = set(); cur = {0}
    for r in range(0, hi+1):
        if r >= lo: res |= cur
        nxt = set()
        for k in cur:
            for j in den1(p, fl, recs[k:]): nxt.add(k+j)
        cur = nxt
        if not cur: break
    return res
def den_seq(ps, fl, recs):
    cur = {0}
    for p in ps:
        nxt = set()
        for k in cur:
            for j in den(p, fl, recs[k:]): nxt.add(k+j)
        cur = nxt
    return cur
def decode(stream):
    recs = []
    for r in stream.split('|')[:-1]:
        a, body = r.split('::',1)
        recs.append((a, body.split(',')[:-1]))
    return recs
def has_and_times(p):
    if isinstance(p, dict):
        name = list(p.keys())[0]
        if name == '$and' and times_of(p) != (1,1): return True
        ch = p[name]
        if isinstance(ch, list): return any(has_and_times(c) for c in ch)
    return False
def leading_not(p):
    # can a match start with a $not?
    if isinstance(p, dict):
        name = list(p.keys())[0]
        if name == '$not': return True
        if name in ('$or','$and_any_order'): return any(leading_not(c) for c in p[name])
        if name == '$and':
            for c in p[name]:
                if leading_not(c): return True
                if times_of(c)[0] > 0 and not can_empty(c): return False
            return False
    return False
def can_empty(p):
    return 0 in den(p, (False,False), [])
bad = 0; n = 0; skipped = 0; pos = 0
for it in range(int(sys.argv[2]) if len(sys.argv)>2 else 300):
    top = [gen_pat(2,'inst') for _ in range(rnd.choice([1,2,2,3]))]
    fl = (rnd.random()<0.3, rnd.random()<0.3)
    L = [(format(i+1,'x'), rnd.choice(MN), ','.join(rnd.choice(IOPS) for _ in range(rnd.choice([0,1,2,2,3])))) for i in range(rnd.choice([1,2,3,4,6]))]
    rule = {'config':{'mnemonics-full-match':fl[0],'operands-full-match':fl[1]}, 'pattern': top}
    whole = {'$and': top}
    if has_and_times(whole) or leading_not(whole) or can_empty(whole): skipped += 1; continue
    try:
        stream = run(rule, L, mode='str')[1]
        got = run(rule, L, mode='list', search='all', only_addr=True)[1]
    except Exception as e:
        print("EXC", type(e).__name__, e, rule); bad += 1; continue
    recs = decode(stream)
    # spec scan: leftmost, non-overlapping; end = ??? engine priority unknown -> only check first hit start & boolean
    starts = [i for i in range(len(recs)) if any(k>0 for k in den(whole, fl, recs[i:]))]
    exp_found = bool(starts)
    n += 1; pos += exp_found
    if exp_found != bool(got) or (got and got[0] != recs[starts[0]][0]):
        bad += 1
        print("MISMATCH rule=", rule, "\n  L=", L, "\n  stream=", stream, "\n  got=", got, "spec starts=", [recs[i][0] for i in starts])
        if bad > 8: break
print("cases", n, "positive", pos, "skipped", skipped, "bad", bad)

from h import *
def t(title, rule, L, show=False, **kw):
    try:
        r = run(rule, L, **kw)
        print(title, '=>', r[1]); 
        if show: print('   RX', r[0])
    except Exception as e:
        print(title, '=> EXC', type(e).__name__, e)
print("---- C05 instruction-level captures")
L = [("1","push","%rax"),("2","push","%rax"),("3","push","%rax,%rbx"),("4","push","%rax"),("5","ret","")]
t("[&a,&a]", {'pattern':['&a','&a']}, L, only_addr=True, show=True)
t("[&a,&b,&a]", {'pattern':['&a','&b','&a']}, L, only_addr=True, show=True)
t("[&a,&b,&b]", {'pattern':['&a','&b','&b']}, L, only_addr=True)
L2 = [("1","push","%rax"),("2","push","%rax,%rbx"),("3","ret","")]
t("prefix: [&a,&a] on push %rax ; push %rax,%rbx", {'pattern':['&a','&a']}, L2, only_addr=True)
L3 = [("1","push","%rax,%rbx"),("2","push","%rax"),("3","ret","")]
t("prefix2: [&a,&a] on push %rax,%rbx ; push %rax", {'pattern':['&a','&a']}, L3, only_addr=True)
print("---- operand-level captures")
L4 = [("1","mov","$0x1,%eax"),("2","mov","$0x10,%ebx"),("3","mov","$0x1,%ecx"),("4","add","%r8,%r8d")]
t("mov[&k,x] mov[&k,y]: 0x1 then 0x10 (prefix)", {'pattern':[{'mov':['&k','eax']},{'mov':['&k','ebx']}]}, L4, only_addr=True, show=True)
L5 = [("1","mov","$0x10,%eax"),("2","mov","$0x1,%ebx")]
t("mov[&k] mov[&k]: 0x10 then 0x1", {'pattern':[{'mov':['&k']},{'mov':['&k']}]}, L5, only_addr=True)
t("add[&r,&r]: %r8,%r8d", {'pattern':[{'add':['&r','&r']}]}, L4, only_addr=True, show=True)
L6 = [("4","add","%r8d,%r8")]
t("add[&r,&r]: %r8d,%r8", {'pattern':[{'add':['&r','&r']}]}, L6, only_addr=True)
t("add[&r,&s]: independent", {'pattern':[{'add':['&r','&s']}]}, L6, only_addr=True)
print("---- capture op 2nd operand only: mov[@any,&c]")
t("mnemonic-level ref inside operands and instr", {'pattern':[{'mov':['&k','eax']}, '&k']}, L4, only_addr=True, show=True)
print("---- register captures")
R = [("1","add","$1,%rsi"),("2","mov","%si,%esi"),("3","jmp","10")]
t("ex1", {'pattern':[{'add':[1,'&indreg-1']},{'mov':['&indreg-1.16','&indreg-1.32']},'jmp']}, R, only_addr=True, show=True)
R2 = [("1","mov","%eax,%rbx"),("2","mov","%rax,%rbx")]
t("genreg.64 first occurrence on %eax (should only match rax => addr 2)", {'pattern':[{'mov':['&genreg.64']}]}, R2, only_addr=True, show=True)
R3 = [("1","mov","$0x10,%rbx"),("2","mov","%rax,%rbx")]
t("genreg.64 first occurrence on 0x10", {'pattern':[{'mov':['&genreg.64']}]}, R3, only_addr=True)
R4 = [("1","mov","%rax,%ebx"),("2","mov","%rax,%eax")]
t("genreg.64, genreg.32 : rax,ebx vs rax,eax", {'pattern':[{'mov':['&genreg.64','&genreg.32']}]}, R4, only_addr=True, show=True)
R5 = [("1","mov","%rax,%eaxx")]
t("genreg.64, genreg.32 : trailing junk eaxx", {'pattern':[{'mov':['&genreg.64','&genreg.32']}]}, R5, only_addr=True)
R6 = [("1","mov","%rsp,%esp"),("2","mov","%rbp,%esp"),("3","mov","%rsi,%edi"),("4","mov","%rsi,%esi")]
t("stackreg.64, stackreg.32", {'pattern':[{'mov':['&stackreg.64','&stackreg.32']}]}, R6, only_addr=True, show=True)
t("basereg.64, stackreg.32 (independent names)", {'pattern':[{'mov':['&basereg.64','&stackreg.32']}]}, R6, only_addr=True, show=True)
t("indreg.64, indreg.32", {'pattern':[{'mov':['&indreg.64','&indreg.32']}]}, R6, only_addr=True, show=True)
t("genreg no suffix", {'pattern':[{'mov':['&genreg','&genreg']}]}, R4, only_addr=True, show=True)
t("genreg-1 / genreg-2 distinct names", {'pattern':[{'mov':['&genreg-1.64','&genreg-2.32']}]}, R4, only_addr=True, show=True)

from h import *
import subprocess
raw = subprocess.run(['objdump','-d','-M','att','--no-show-raw-insn','r.o'],capture_output=True,text=True).stdout
print(repr(run({'pattern':['push']}, None, mode='str', raw=raw)[1][:200]))
raw = subprocess.run(['objdump','-d','-M','att','r.o'],capture_output=True,text=True).stdout
print(repr(run({'pattern':['push']}, None, mode='str', raw=raw)[1][:200]))
raw2 = subprocess.run(['objdump','-d','-M','att','--insn-width=4','r.o'],capture_output=True,text=True).stdout
a=run({'pattern':['push']}, None, mode='str', raw=raw)[1]; b=run({'pattern':['push']}, None, mode='str', raw=raw2)[1]
print("insn-width=4 same stream:", a==b, len(a), len(b))
raw3 = subprocess.run(['objdump','-d','-M','att','-w','r.o'],capture_output=True,text=True).stdout
c=run({'pattern':['push']}, None, mode='str', raw=raw3)[1]
print("wide same stream:", a==c)

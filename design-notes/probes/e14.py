import sys, re, collections, glob
sys.path.insert(0,'/repo/src')
from jasm.stringify_asm.implementations.gnu_objdump.asm_manual_parser_w_regex import parse_line, Label, Section
from jasm.global_definitions import Instruction
kinds = collections.Counter(); examples = {}
for f in glob.glob('/repo/tests/assembly/*.s'):
    try: txt = open(f, encoding='utf-8').read()
    except Exception as e: print("skip", f, e); continue
    for line in txt.split("\n"):
        try: r = parse_line(line)
        except Exception as e: k = "EXC:"+type(e).__name__
        else:
            if isinstance(r, Instruction): k = "empty" if r.mnemonic=="empty" else ("inst0" if not r.operands else "inst")
            elif isinstance(r, Label): k = "label"
            elif isinstance(r, Section): k = "section"
            else:
                if line == "": k = "blank"
                elif "file format" in line: k = "title"
                elif line == "\t...": k = "dots"
                else: k = "other"
        kinds[k]+=1
        if k in ("other",) or k.startswith("EXC"):
            key = re.sub(r'[0-9a-f]', 'h', line)[:60]
            examples.setdefault((k,key), (f.split('/')[-1], line))
print(kinds)
for (k,key),(f,l) in list(examples.items())[:40]: print(k, f, repr(l[:120]))

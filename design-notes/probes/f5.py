import random
from h import *
rnd = random.Random(7)
JM = ["call","callq","jmp","jne","je","jg","jge","jl","jle","jz","jnz"]
bad=0
for it in range(400):
    lo = rnd.choice([0,1,0xff,0x1000,0x400000]); hi = lo + rnd.choice([0,1,0xf,0x1000])
    sp = lambda v: rnd.choice([hex(v), format(v,'x'), '0x'+format(v,'08x'), format(v,'X')])
    cfg = {'valid_addr_range':{'min':sp(lo),'max':sp(hi)}}
    L=[]; exp_tag=[]
    for i in range(12):
        mn = rnd.choice(JM+['mov','push','jb','loop','jmpq'])
        t = rnd.choice([lo-1,lo,lo+1,hi-1,hi,hi+1, rnd.randrange(0,0x500000)])
        if t<0: t=0
        kind = rnd.choice(['direct','direct','ind','indmem','imm'])
        if kind=='direct': op = format(t,'x')+' <f+0x1>'; first = format(t,'x')
        elif kind=='ind': op='*%rax'; first=op
        elif kind=='indmem': op='*0x10(%rip)        # 30 <x>'; first='*'
        else: op='$0x'+format(t,'x')+',%eax'; first='0x'+format(t,'x')
        L.append((format(i+1,'x'), mn, op))
        tagged = mn in JM and '*' not in first and kind in('direct','imm') and lo <= t <= hi
        # note: 'imm' kind on a jump mnemonic is unrealistic but exercises hex parse with 0x
        exp_tag.append(tagged)
    try:
        s = run({'config':cfg,'pattern':['mov']}, L, mode='str')[1]
    except Exception as e:
        print("EXC", type(e).__name__, e); bad+=1; continue
    recs = [r.split('::',1)[1].split(',')[:-1] for r in s.split('|')[:-1]]
    got = [r[1:]==['valid_addr'] for r in recs]
    if got != exp_tag or len(recs)!=len(L):
        bad+=1
        if bad<5: print("MISMATCH", cfg, [(l,g,e) for l,g,e in zip(L,got,exp_tag) if g!=e])
print("C18 cases 400 bad", bad)

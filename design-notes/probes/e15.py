from h import *
def t(title, rule, L, show=False, **kw):
    try:
        r = run(rule, L, **kw)
        print(title, '=>', r[1]); 
        if show: print('   RX', r[0])
    except BaseException as e:
        print(title, '=> EXC', type(e).__name__, str(e)[:150])
R = [("1","mov","%rax,%al"),("2","mov","%rax,%bl"),("3","mov","%rax,%ah")]
t("genreg.64, genreg.8L (documented upper-case)", {'pattern':[{'mov':['&genreg.64','&genreg.8L']}]}, R, only_addr=True, show=True)
t("genreg.64, genreg.8l (lower-case)", {'pattern':[{'mov':['&genreg.64','&genreg.8l']}]}, R, only_addr=True, show=True)
t("genreg.64, genreg.8h", {'pattern':[{'mov':['&genreg.64','&genreg.8h']}]}, R, only_addr=True, show=True)
t("genreg-1.64 then same w/o suffix", {'pattern':[{'mov':['&genreg-1.64','&genreg-1']}]}, R, only_addr=True, show=True)
# r8..r15?
t("genreg on r8", {'pattern':[{'mov':['&genreg.64']}]}, [("1","mov","%r8,%rax")], only_addr=True)

import sys, random, subprocess, os, re, collections
sys.path.insert(0,'/repo/src')
from jasm.stringify_asm.implementations.gnu_objdump.asm_manual_parser_w_regex import parse_line
from jasm.global_definitions import Instruction
random.seed(int(sys.argv[1]) if len(sys.argv)>1 else 1)
N = 200
exc = collections.Counter(); mism = []; total=0; sepviol=[]
for it in range(N):
    n = random.choice([50, 200, 1000])
    bs = bytes(random.randrange(256) for _ in range(n))
    open('r.s','w').write(".text\nf:\n" + "\n".join(".byte "+",".join(hex(b) for b in bs[i:i+16]) for i in range(0,len(bs),16)) + "\n")
    subprocess.run(['as','r.s','-o','r.o'],check=True)
    dis = subprocess.run(['objdump','-d','-M','att','r.o'],capture_output=True,text=True,check=True).stdout
    for line in dis.split("\n"):
        parts = line.split("\t")
        is_inst = len(parts) >= 3 and re.fullmatch(r" *[0-9a-f]+:", parts[0])
        try:
            r = parse_line(line)
        except BaseException as e:
            exc[(type(e).__name__, line)] += 1; continue
        got_inst = isinstance(r, Instruction) and r.mnemonic != "empty"
        if is_inst:
            total += 1
            text = "\t".join(parts[2:])
            exp_mn = text.split(" ")[0]
            exp_addr = parts[0].strip().rstrip(":")
            if not got_inst or r.addr != exp_addr or (r.mnemonic != exp_mn and not (exp_mn=="(bad)" and r.mnemonic=="bad") and 'data16' not in line):
                mism.append((line, r))
            if got_inst:
                for f in [r.mnemonic]+r.operands:
                    if ',' in f or '|' in f or '::' in f: sepviol.append((line, r))
        elif got_inst:
            mism.append((line, r))
print("instruction lines:", total, "exceptions:", len(exc), "mismatches:", len(mism), "separator violations:", len(sepviol))
for k,v in list(exc.items())[:15]: print("EXC", k, v)
for m in mism[:15]: print("MISM", m)
seen=set()
for m in sepviol:
    key = re.sub(r'[0-9a-f]','',m[0].split("\t")[-1])
    if key in seen: continue
    seen.add(key); print("SEP", repr(m[0]), m[1])
    if len(seen)>25: break

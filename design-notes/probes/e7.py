from h import *
import copy
from jasm.jasm_regex.macro_expander.macro_expander import MacroExpander
def ex(title, macros, pat):
    m0 = copy.deepcopy(macros)
    try:
        r = MacroExpander().resolve_all_macros(macros, {'$and': pat})
        print(title, '=>', r, '' if macros == m0 else '   !!! MACROS MUTATED: %r' % macros)
    except BaseException as e:
        print(title, '=> EXC', type(e).__name__, e)
A = {'name':'@any','pattern':'[^, ]{1,1000}'}
print("---- C13 / C19")
ex("item macro", [{'name':'@m','pattern':[{'$or':['a','b']}]}], ['@m','c'])
ex("str macro whole", [{'name':'@m','pattern':'xx'}], ['@m','c'])
ex("str macro substring", [{'name':'@m','pattern':'xx'}], ['pre@mpost','c'])
ex("str macro as operand", [A], [{'mov':['@any','rax']}])
ex("str macro with times body", [A], [{'@any':{'times':3}}])
ex("str macro as key with operands list", [A], [{'@any':['rax']}])
ex("str macro as dict value (deref)", [A], [{'mov':[{'$deref':{'main_reg':'%rip','constant_offset':'@any'}}]}])
ex("undefined", [A], ['@nope'])
ex("undefined operand", [A], [{'mov':['@nope']}])
ex("undefined dict value", [A], [{'mov':[{'$deref':{'main_reg':'@nope'}}]}])
ex("undefined dict key w/ body", [A], [{'@nope':['rax']}])
ex("undefined dict key w/ times", [A], [{'@nope':{'times':2}}])
ex("undefined substring", [A], ['x@nope'])
ex("name w/o @", [{'name':'m','pattern':'x'}], ['m'])
ex("macro body refers to later macro", [{'name':'@outer','pattern':[{'$and':['@inner','z']}]}, {'name':'@inner','pattern':'q'}], ['@outer'])
ex("macro body refers to EARLIER macro (wrong order)", [{'name':'@inner','pattern':'q'},{'name':'@outer','pattern':[{'$and':['@inner','z']}]}], ['@outer'])
ex("macro body refers to undefined", [{'name':'@outer','pattern':[{'$and':['@nope','z']}]}], ['@outer'])
ex("macro in last position body refers to undefined", [A, {'name':'@outer','pattern':[{'$and':['@nope','z']}]}], ['@outer'])
ex("undefined AND defined; defined is substring", [{'name':'@a','pattern':'x'}], ['@ab'])
ex("two undefined, one name discards other?", [{'name':'@a','pattern':'x'}], ['@a', '@b', {'@a': {'times': 2}}])
Z = {'name':'@zero','args':['reg'],'pattern':[{'$or':[{'xor':['reg','reg']},{'mov':['reg',0]}]}]}
ex("args", [Z], [{'@zero':None,'reg':'eax'}])
ex("args two uses diff args", [Z], [{'@zero':None,'reg':'eax'},{'@zero':None,'reg':'ebx'}])
ex("args missing", [Z], [{'@zero':None}])
Z2 = {'name':'@two','args':['r1','r2'],'pattern':[{'mov':['r1','r2']}]}
ex("2 args", [Z2], [{'@two':None,'r1':'eax','r2':'ebx'}])
ex("2 args swap hazard r1:=r2", [Z2], [{'@two':None,'r1':'r2','r2':'ebx'}])
ex("arg as key", [{'name':'@k','args':['mn'],'pattern':[{'mn':['rax']}]}], [{'@k':None,'mn':'mov'}])
ex("arg in nested value", [{'name':'@k','args':['rr'],'pattern':[{'mov':[{'$deref':{'main_reg':'rr'}}]}]}], [{'@k':None,'rr':'%rax'}])
ex("list-macro in operand position", [{'name':'@regs','pattern':[{'$or':['rax','rbx']}]}], [{'mov':['@regs','rcx']}])
ex("list macro key with times", [{'name':'@m','pattern':[{'$or':['a','b']}]}], [{'@m':{'times':2}}])
ex("str macro key sibling times", [A], [{'@any':None,'times':3}])

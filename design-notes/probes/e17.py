from h import *
import subprocess, glob
for b in sorted(glob.glob('/repo/tests/binary/*')):
    for secs in (None, ['.text'], ['.plt','.text']):
        rule = {'pattern':['call']} if secs is None else {'config':{'sections':secs},'pattern':['call']}
        p = wr(yaml.safe_dump(rule), '.yaml')
        try:
            m = MasterOfPuppets(MatchConfig(pattern_pathstr=p, input_file=b, input_file_type=InputFileType.binary, return_mode=MatchingReturnMode.all_instructions_string))
            sb = m.perform_matching()
        except Exception as e:
            sb = 'EXC:'+type(e).__name__
        args = ['objdump','-d','-M','att'] + sum([['-j',s] for s in (secs or [])], []) + [b]
        r = subprocess.run(args, capture_output=True, text=True)
        if r.returncode != 0: st = 'EXC:objdump'
        else:
            s = wr(r.stdout, '.s')
            m2 = MasterOfPuppets(MatchConfig(pattern_pathstr=p, input_file=s, return_mode=MatchingReturnMode.all_instructions_string))
            st = m2.perform_matching(); os.unlink(s)
        os.unlink(p)
        same = (sb == st) or (sb.startswith('EXC') and st.startswith('EXC'))
        print(b.split('/')[-1], secs, 'same' if same else 'DIFF', len(sb) if not sb.startswith('EXC') else sb, len(st) if not st.startswith('EXC') else st)

from h import *
def t(title, rule, L, show=False, **kw):
    try:
        r = run(rule, L, **kw)
        print(title, '=>', r[1]); 
        if show: print('   RX', r[0])
    except BaseException as e:
        print(title, '=> EXC', type(e).__name__, str(e)[:150])
print("---- C07 @any spanning")
M = [("1","mov","%rax,%rbx"),("2","push","%rcx"),("3","ret","")]
t("mov[@any x3] spans into next instr", {'pattern':[{'mov':['@any','@any','@any']}]}, M, macros=['/repo/tests/macros/jasm_macros.yaml'], show=True)
t("mov[@any x2]", {'pattern':[{'mov':['@any','@any']}]}, M, macros=['/repo/tests/macros/jasm_macros.yaml'])
t("@any as mnemonic x1", {'pattern':['@any']}, M, macros=['/repo/tests/macros/jasm_macros.yaml'], only_addr=True)
t("@any times 2 then ret", {'pattern':[{'@any':{'times':2}},'ret']}, M, macros=['/repo/tests/macros/jasm_macros.yaml'], only_addr=True)
t("push[@any,@any] (push has 1 operand) ", {'pattern':[{'push':['@any','@any']}]}, M, macros=['/repo/tests/macros/jasm_macros.yaml'])
print("---- upper-case / addresses")
t("addr w/ uppercase hex", {'pattern':['mov']}, [("1A","mov","%rax,%rbx")], only_addr=True)
print("---- C11")
C = [("1","call","10"),("2","call","10"),("3","call","10"),("4","ret",""),("5","call","10"),("6","call","10")]
t("call,call all", {'pattern':['call','call']}, C, only_addr=True)
t("call,call first", {'pattern':['call','call']}, C, only_addr=True, search='first')
t("call times{1,2} all", {'pattern':[{'call':{'times':{'min':1,'max':2}}}]}, C, only_addr=True)
t("or[ [call,call,call], call ] priority", {'pattern':[{'$or':['ret',{'$and':['call','call']}]}]}, C, only_addr=True)
t("call times 0..2 (can match empty!)", {'pattern':[{'call':{'times':{'min':0,'max':2}}}]}, C, only_addr=True)
print("---- C12 bool/list")
for mode in ('bool','list'):
  for s in ('first','all'):
    for oa in (False, True):
      t(f"{mode} {s} only_addr={oa}", {'pattern':['call','call']}, C, mode=mode, search=s, only_addr=oa)

import sys, random
from h import *
rnd = random.Random(3)
R64 = ['rax','rbx','rcx','rdx','rsi','rdi','rbp','rsp'] + ['r%d'%i for i in range(8,16)]
def reg():
    r = rnd.choice(R64); w = rnd.choice([64,32,16,8])
    if r.startswith('r') and r[1:].isdigit(): return '%'+r+{64:'',32:'d',16:'w',8:'b'}[w]
    base = r[1:]
    if w==64: return '%'+r
    if w==32: return '%e'+base
    if w==16: return '%'+base
    return '%'+({'ax':'al','bx':'bl','cx':'cl','dx':'dl','si':'sil','di':'dil','bp':'bpl','sp':'spl'}[base])
def num(): 
    v = rnd.choice([0,1,8,0x10,0x7f,0x80,0xffff,0x12345678]); return hex(v)
def disp():
    return rnd.choice(['','-'])+num()
def gen_op():
    k = rnd.choice(['imm','reg','m4','m3','m4nb','m1k','m1','tgt'])
    a, b, c = reg(), reg(), rnd.choice(['1','2','4','8'])
    if k=='imm': v = num(); return '$'+v, v
    if k=='reg': r = reg(); return r, r
    if k=='m4': d = disp(); return f'{d}({a},{b},{c})', f'[{a}+{b}*{c}+{d}]'
    if k=='m3': return f'({a},{b},{c})', f'[{a}+{b}*{c}]'
    if k=='m4nb': d = disp(); return f'{d}(,{b},{c})', f'[+{b}*{c}+{d}]'
    if k=='m1k': d = disp(); return f'{d}({a})', f'[{a}+{d}]'
    if k=='m1': return f'({a})', f'[{a}]'
    t = format(rnd.randrange(1<<24),'x'); return f'{t} <sym+0x{t}>', t
bad=0; n=0
L=[]; exp=[]
for i in range(3000):
    nops = rnd.choice([0,1,2,3])
    ops = [gen_op() for _ in range(nops)]
    # a target operand must be last & alone realistically; keep anyway only if single
    if any('<' in o[0] for o in ops) and nops>1: ops = [o for o in ops if '<' not in o[0]]
    L.append((format(i+1,'x'),'mov', ','.join(o[0] for o in ops)))
    exp.append([o[1] for o in ops])
s = run({'pattern':['mov']}, L, mode='str')[1]
recs = [r.split('::',1)[1].split(',')[1:-1] for r in s.split('|')[:-1]]
assert len(recs)==len(exp), (len(recs), len(exp))
for (l, r, e) in zip(L, recs, exp):
    e2 = e if e else ['']
    if r != e2:
        bad+=1
        if bad<10: print("MISMATCH", l, r, e2)
print("C09 cases", len(exp), "bad", bad)

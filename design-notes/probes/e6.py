from h import *
def t(title, rule, L, show=False, **kw):
    try:
        r = run(rule, L, **kw)
        print(title, '=>', r[1]); 
        if show: print('   RX', r[0])
    except BaseException as e:
        print(title, '=> EXC', type(e).__name__, e)
print("---- C03")
L = [("1","a",""),("2","b",""),("3","d",""),("4","a",""),("5","c",""),("6","d",""),("7","c",""),("8","b",""),("9","a","")]
t("a,$or[b,c],d", {'pattern':['a',{'$or':['b','c']},'d']}, L, only_addr=True, show=True)
t("any_order[a,b,c] ", {'pattern':[{'$and_any_order':['a','b','c']}]}, L, only_addr=True, show=True)
t("any_order[a,c,d] ", {'pattern':[{'$and_any_order':['d','a','c']}]}, L, only_addr=True)
t("any_order times 2", {'pattern':[{'$and_any_order':['a','b'], 'times':2}]}, [("1","a",""),("2","b",""),("3","b",""),("4","a",""),("5","x","")], only_addr=True, show=True)
t("or times {0,2} then d", {'pattern':['a', {'$or':['b','c'], 'times':{'min':0,'max':2}}, 'd']}, [("1","a",""),("2","d",""),("3","a",""),("4","b",""),("5","c",""),("6","d",""),("7","a",""),("8","b",""),("9","b",""),("a","b",""),("b","d","")], only_addr=True, show=True)
print("operand-level")
M = [("1","mov","%rax,%rbx"),("2","mov","%rbx,%rax"),("3","mov","%rcx,%rax"),("4","mov","%rax,%rax")]
t("mov[$or[rax,rcx], rax]", {'pattern':[{'mov':[{'$or':['rax','rcx']},'rax']}]}, M, only_addr=True, show=True)
t("mov[$and_any_order[rax,rbx]]", {'pattern':[{'mov':[{'$and_any_order':['rax','rbx']}]}]}, M, only_addr=True, show=True)
t("mov[$and[rax,rbx]]", {'pattern':[{'mov':[{'$and':['rax','rbx']}]}]}, M, only_addr=True, show=True)
t("mov[$and[rax,rbx] times 1 + rbx]", {'pattern':[{'mov':[{'$and':['rax']}, 'rbx']}]}, M, only_addr=True, show=True)
print("nested")
t("$or[ $and[a,b], $and[a,c] ], d", {'pattern':[{'$or':[{'$and':['a','b']},{'$and':['a','c']}]},'d']}, L, only_addr=True, show=True)
t("deref or", {'pattern':[{'mov':[{'$deref':{'main_reg':[{'$or':['rsp','rbp']}],'constant_offset':'0x8'}}]}]}, [("1","mov","0x8(%rbp),%eax"),("2","mov","0x8(%rsp),%eax"),("3","mov","0x8(%rax),%eax")], only_addr=True, show=True)
print("---- times on single")
C = [("1","call","10"),("2","call","10"),("3","call","10"),("4","ret","")]
for n in (0,1,2,3,4):
    t(f"call times {n}, ret", {'pattern':[{'call':{'times':n}}, 'ret']}, C, only_addr=True, show=(n in (0,2)))
t("call times {min:2,max:3} ret", {'pattern':[{'call':{'times':{'min':2,'max':3}}}, 'ret']}, C, only_addr=True)
t("call times {min:2} ret (max default 1 => inverted)", {'pattern':[{'call':{'times':{'min':2}}}, 'ret']}, C, only_addr=True)
t("call times -1", {'pattern':[{'call':{'times':-1}}, 'ret']}, C, only_addr=True, show=True)
t("call times {min:-1,max:2}", {'pattern':[{'call':{'times':{'min':-1,'max':2}}}, 'ret']}, C, only_addr=True, show=True)
t("sibling spelling: call [10] times 2, ret", {'pattern':[{'call':['10'],'times':2}, 'ret']}, C, only_addr=True, show=True)
t("not times 2", {'pattern':[{'$not':['ret'],'times':2}, 'ret']}, C, only_addr=True, show=True)

from h import *
def t(title, rule, L, show=False, **kw):
    try:
        r = run(rule, L, **kw)
        print(title, '=>', r[1]); 
        if show: print('   RX', r[0])
    except Exception as e:
        print(title, '=> EXC', type(e).__name__, e)

print("---- C01 full-match flags")
L = [("1","movl","$0xa1b2,%eax"),("2","mov","%rbx,%rcx"),("3","ret","")]
for mf in (False, True):
  for of in (False, True):
    cfg = {'mnemonics-full-match': mf, 'operands-full-match': of}
    t(f"mf={mf} of={of} mov", {'config':cfg,'pattern':['mov']}, L, only_addr=True)
    t(f"mf={mf} of={of} mov[rbx]", {'config':cfg,'pattern':[{'mov':['rbx']}]}, L, only_addr=True)
    t(f"mf={mf} of={of} mov[%rbx]", {'config':cfg,'pattern':[{'mov':['%rbx']}]}, L, only_addr=True, show=(mf and of))
    t(f"mf={mf} of={of} mov[%rbx,%rc]", {'config':cfg,'pattern':[{'mov':['%rbx','%rc']}]}, L, only_addr=True)
    t(f"mf={mf} of={of} movl[0xa1b2]", {'config':cfg,'pattern':[{'movl':['0xa1b2']}]}, L, only_addr=True)
    t(f"mf={mf} of={of} movl[a1b2h]", {'config':cfg,'pattern':[{'movl':['a1b2h']}]}, L, only_addr=True, show=True)
    t(f"mf={mf} of={of} mov[%rcx] (2nd operand as 1st)", {'config':cfg,'pattern':[{'mov':['%rcx']}]}, L, only_addr=True)
print("---- numeric names")
t("mov [0] int operand", {'pattern':[{'mov':[0,'eax']}]}, [("1","mov","$0,%eax")], only_addr=True, show=True)
t("ret no-operand: ret[ '' ]?", {'pattern':[{'ret':['x']}]}, L, only_addr=True)

from h import *
def t(title, rule, L, show=False, **kw):
    try:
        r = run(rule, L, **kw)
        print(title, '=>', r[1]); 
        if show: print('   RX', r[0])
    except BaseException as e:
        print(title, '=> EXC', type(e).__name__, str(e)[:150])
print("---- C18")
B = [("1","call","400000 <a>"),("2","call","3fffff <b>"),("3","jmp","500000 <c>"),("4","jmp","500001 <d>"),("5","call","*%rax"),("6","call","*0x10(%rip)        # 30 <x>"),("7","mov","$0x400000,%eax"),("8","je","400010 <e>"),("9","jmpq","400010 <e>"),("a","callq","400010 <e>"),("b","push","$0x400010"),("c","ret",""),("d","jb","400010 <f>"), ("e","call","0x400010"), ("f","loop","400010 <g>"),("10","jmp","400010 <h+0x10>"), ("11","push","400010"),("12","bnd jmp","400010 <h>"),("13","notrack jmp","*%rax")]
cfg = {'valid_addr_range':{'min':'0x400000','max':'500000'}}
t("stream with range", {'config':cfg,'pattern':['call']}, B, mode='str')
t("stream without", {'pattern':['call']}, B, mode='str')
t("call[valid_addr]", {'config':cfg,'pattern':[{'call':['valid_addr']}]}, B, only_addr=True)
t("jmp[valid_addr]", {'config':cfg,'pattern':[{'jmp':['valid_addr']}]}, B, only_addr=True)
t("min=max", {'config':{'valid_addr_range':{'min':'400000','max':'0x400000'}},'pattern':[{'call':['valid_addr']}]}, B, only_addr=True)
t("min>max", {'config':{'valid_addr_range':{'min':'500000','max':'0x400000'}},'pattern':[{'call':['valid_addr']}]}, B, only_addr=True)
t("int min/max yaml ints", {'config':{'valid_addr_range':{'min':0x400000,'max':0x500000}},'pattern':[{'call':['valid_addr']}]}, B, only_addr=True)
t("zero min", {'config':{'valid_addr_range':{'min':'0','max':'0'}},'pattern':[{'call':['valid_addr']}]}, [("1","call","0 <x>")], only_addr=True)
t("non-hex first operand on jump mnemonic (e.g. 'call foo')", {'config':cfg,'pattern':['call']}, [("1","call","foo")], mode='str')
t("call w/ segment operand", {'config':cfg,'pattern':['call']}, [("1","call","%cs:0x10")], mode='str')
t("jmp w/ deref no star (ljmp (%rax))", {'config':cfg,'pattern':['jmp']}, [("1","jmp","(%rax)")], mode='str')
t("jmp w/ label-only operand", {'config':cfg,'pattern':['jmp']}, [("1","jmp","<foo>")], mode='str')

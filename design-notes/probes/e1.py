from h import *
L = [("10","push","%rbp"),("11","mov","%rsp,%rbp"),("14","call","401000 <foo>"),("19","ret",""),("1a","nopw","0x0(%rax,%rax,1)"),("20","mov","-0x8(%rbp),%eax")]
print(run({'pattern':['ret']}, L, 'str')[1])
print(run({'pattern':['mov', 'call']}, L))
# $and with times
L2 = [("1","a",""),("2","b",""),("3","a",""),("4","b",""),("5","c","")]
print("and times2 on abab:", run({'pattern':[{'$and':['a','b'],'times':2}]}, L2))
L3 = [("1","a",""),("2","b",""),("3","x",""),("4","a",""),("5","b",""),("6","y","")]
print("and times2 on abxaby:", run({'pattern':[{'$and':['a','b'],'times':2}]}, L3))

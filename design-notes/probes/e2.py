from h import *
def t(title, rule, L, **kw):
    try:
        r = run(rule, L, **kw)
        print(title, '=>', r[1]); 
        if kw.get('show'): print('   RX', r[0])
    except Exception as e:
        print(title, '=> EXC', type(e).__name__, e)

# C04 operand-level $not
L = [("1","push","%rax"),("2","mov","%rbx,%rcx"),("3","ret","")]
t("mov [$not rbx, rcx] (rbx is 1st => should not match)", {'pattern':[{'mov':[{'$not':['rbx']},'rcx']}]}, L)
t("mov [$not rax, rcx] (should match at 2)", {'pattern':[{'mov':[{'$not':['rax']},'rcx']}]}, L)
t("mov [$not rax] ", {'pattern':[{'mov':[{'$not':['rax']}]}]}, L)
t("mov [$not rbx] (should be none)", {'pattern':[{'mov':[{'$not':['rbx']}]}]}, L)
t("[mov [$not rax], ret]", {'pattern':[{'mov':[{'$not':['rax']}]}, 'ret']}, L)
# instruction level not
t("[$not push, mov]", {'pattern':[{'$not':['push']}, 'mov']}, L)
t("[$not mov, mov]", {'pattern':[{'$not':['mov']}, 'mov']}, L)
t("[$not mov, ret]", {'pattern':[{'$not':['mov']}, 'ret']}, L)
t("[$not [push,mov] seq, mov]", {'pattern':[{'$not':[{'$and':['push','mov']}]}, 'mov']}, L)
t("[$not [push,ret] seq, mov]", {'pattern':[{'$not':[{'$and':['push','ret']}]}, 'mov']}, L)
t("leading $not ret only_addr", {'pattern':[{'$not':['ret']}]}, L, only_addr=True)
t("leading $not push only_addr", {'pattern':[{'$not':['push']}]}, L, only_addr=True, show=True)

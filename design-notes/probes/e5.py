from h import *
def t(title, rule, L, show=False, **kw):
    try:
        r = run(rule, L, **kw)
        print(title, '=>', r[1]); 
        if show: print('   RX', r[0])
    except Exception as e:
        print(title, '=> EXC', type(e).__name__, e)
print("---- C06 deref")
ops = ["0x10(%rax,%rbx,4),%ecx", "(%rax,%rbx,4),%ecx", "0x10(%rax),%ecx", "(%rax),%ecx", "0x10(,%rbx,4),%ecx", "-0x10(%rax,%rbx,4),%ecx", "0x10(%rax,%rbx,8),%ecx","0x10(%rbx,%rax,4),%ecx", "0x100(%rax,%rbx,4),%ecx", "%rax,%ecx", "$0x10,%ecx", "0x0(%rax,%rbx,4),%ecx", "0x10(%rax,%rbx,1),%ecx","0x10(%rax,%rbx,2),%ecx"]
L = [(format(i+1,'x'),"mov",o) for i,o in enumerate(ops)]
print(run({'pattern':['mov']}, L, 'str')[1])
def d(**kw): return {'pattern':[{'mov':[{'$deref':kw}]}]}
t("full a,b,c,k", d(main_reg='%rax',register_multiplier='%rbx',constant_multiplier=4,constant_offset='0x10'), L, only_addr=True, show=True)
t("full no-% no-0x", d(main_reg='rax',register_multiplier='rbx',constant_multiplier=4,constant_offset='10'), L, only_addr=True, show=True)
t("a,b,c", d(main_reg='%rax',register_multiplier='%rbx',constant_multiplier=4), L, only_addr=True, show=True)
t("a,k", d(main_reg='%rax',constant_offset='0x10'), L, only_addr=True, show=True)
t("a", d(main_reg='%rax'), L, only_addr=True, show=True)
t("a,b (no c)", d(main_reg='%rax',register_multiplier='%rbx'), L, only_addr=True, show=True)
t("a,c (no b)", d(main_reg='%rax',constant_multiplier=4), L, only_addr=True, show=True)
t("a,b,k (no c)", d(main_reg='%rax',register_multiplier='%rbx',constant_offset='0x10'), L, only_addr=True, show=True)
t("k=0 int zero", d(main_reg='%rax',register_multiplier='%rbx',constant_multiplier=4,constant_offset=0), L, only_addr=True, show=True)
t("k='0x0'", d(main_reg='%rax',register_multiplier='%rbx',constant_multiplier=4,constant_offset='0x0'), L, only_addr=True, show=True)
t("neg k", d(main_reg='%rax',register_multiplier='%rbx',constant_multiplier=4,constant_offset='-0x10'), L, only_addr=True, show=True)
t("c=1", d(main_reg='%rax',register_multiplier='%rbx',constant_multiplier=1,constant_offset='0x10'), L, only_addr=True)
t("no main_reg", d(register_multiplier='%rbx',constant_multiplier=4,constant_offset='0x10'), L, only_addr=True)
t("deref then 2nd operand", {'pattern':[{'mov':[{'$deref':{'main_reg':'%rax'}}, 'ecx']}]}, L, only_addr=True, show=True)
t("deref as 2nd operand", {'pattern':[{'mov':['ecx', {'$deref':{'main_reg':'%rax'}}]}]}, [("1","mov","%ecx,(%rax)")], only_addr=True, show=True)
t("k=10 vs 0x100 / 0x10", d(main_reg='%rax',register_multiplier='%rbx',constant_multiplier=4,constant_offset='0x1'), L, only_addr=True)
t("main_reg 'ax' (substring)", d(main_reg='ax'), L, only_addr=True)

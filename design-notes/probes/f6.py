"""C13/C19 oracle fuzz: resolve_all_macros vs recursive simultaneous inlining."""
import sys, os, copy, random, json
sys.path.insert(0, os.environ.get('JSRC','/repo/src'))
from jasm.jasm_regex.macro_expander.macro_expander import MacroExpander
rnd = random.Random(int(sys.argv[1]) if len(sys.argv)>1 else 1)
MN = ['mov','add','call','ret','xor']; OPS = ['rax','rbx','0','%rcx','1']

def gen_item(depth):
    r = rnd.random()
    if depth<=0 or r<0.5:
        n = rnd.choice([0,1,2]); m = rnd.choice(MN)
        if n==0:
            return m if rnd.random()<0.7 else {m:{'times':rnd.choice([2,3])}}
        return {m:[rnd.choice(OPS) if rnd.random()<0.8 else {'$deref':{'main_reg':rnd.choice(OPS[:2]),'constant_offset':'0x8'}} for _ in range(n)]}
    op = rnd.choice(['$or','$and','$not','$and_any_order'])
    ch = [gen_item(depth-1) for _ in range(1 if op=='$not' else rnd.choice([1,2,3]))]
    d = {op: ch}
    if rnd.random()<0.2: d['times'] = rnd.choice([2,{'min':0,'max':2}])
    return d

# ---------- spec: recursive simultaneous inlining ----------
def subst_formals(body, mapping):
    if isinstance(body, str): return copy.deepcopy(mapping[body]) if body in mapping else body
    if isinstance(body, list): return [subst_formals(b, mapping) for b in body]
    if isinstance(body, dict): return {k: subst_formals(v, mapping) for k,v in body.items()}
    return body
def inline(tree, macros):
    md = {m['name']: m for m in macros}
    def use(name, callnode):
        m = md[name]; pat = m['pattern']
        if 'args' in m:
            mapping = {a: callnode[a] for a in m['args'] if isinstance(callnode, dict) and a in callnode}
            pat = subst_formals(pat, mapping)
        return pat
    def go(t):
        if isinstance(t, str):
            if t in md:
                p = use(t, None); return go(p) if isinstance(p, str) else go(p[0])
            for name in md:
                if name in t and isinstance(md[name]['pattern'], str):
                    return go(t.replace(name, md[name]['pattern']))
            return t
        if isinstance(t, list): return [go(x) for x in t]
        if isinstance(t, dict):
            for name in md:
                if name in t:
                    p = use(name, t)
                    if isinstance(p, str): return go({p: t[name]})
                    return go(p[0])
            return {k: go(v) for k,v in t.items()}
        return t
    return go(tree)

# ---------- factor a macro-free rule into macros ----------
def factor(pattern):
    macros = []; counter = [0]
    def fresh():
        counter[0]+=1; return '@m%da' % counter[0]      # names not infixes of each other: '@m1a' vs '@m11a' ok? '@m1a' in '@m11a' -> no
    def go(t, allow=True):
        # returns rewritten tree
        if isinstance(t, str):
            r = rnd.random()
            if allow and r < 0.15:
                n = fresh(); macros.append({'name': n, 'pattern': t}); return n            # whole string macro
            if allow and r < 0.22 and len(t) > 2:
                n = fresh(); macros.append({'name': n, 'pattern': t[1:]}); return t[0] + n  # substring macro
            return t
        if isinstance(t, list): return [go(x, allow) for x in t]
        if isinstance(t, dict):
            keys = list(t.keys()); name = keys[0]
            r = rnd.random()
            if allow and r < 0.18:
                # whole-item macro (list pattern with one element); body may itself be factored (later macros)
                n = fresh(); idx = len(macros); macros.append(None)
                body = go(copy.deepcopy(t), allow)
                macros[idx] = {'name': n, 'pattern': [body]}
                return n
            if allow and r < 0.30 and not name.startswith('$') and isinstance(t[name], list) and t[name] and all(isinstance(o,str) for o in t[name]):
                # parameterised macro over first operand
                n = fresh(); formal = 'arg%d' % counter[0]
                val = t[name][0]
                body = {name: [formal] + t[name][1:]}
                if 'times' in t: body['times'] = t['times']
                macros.append({'name': n, 'args': [formal], 'pattern': [body]})
                return {n: None, formal: val}
            if allow and r < 0.36 and not name.startswith('$') and isinstance(t[name], dict) and list(t[name].keys())==['times']:
                n = fresh(); macros.append({'name': n, 'pattern': name}); return {n: t[name]}   # string macro with times body
            return {k: (go(v, allow) if k != 'times' else v) for k,v in t.items()}
        return t
    new = go(copy.deepcopy(pattern))
    return new, macros

bad = 0; n = 0; mutated = 0; used = 0
for it in range(int(sys.argv[2]) if len(sys.argv)>2 else 500):
    pattern = [gen_item(2) for _ in range(rnd.choice([1,2,3]))]
    new, macros = factor(pattern)
    if not macros: continue
    # order: a macro must be listed before the macros its body refers to. Whole-item macros were appended
    # before their bodies were factored (index reserved), so list order already satisfies that.
    # duplicate some uses
    if rnd.random() < 0.3 and isinstance(new, list): new = new + [copy.deepcopy(new[0])]; pattern = pattern + [copy.deepcopy(pattern[0])]
    m0 = copy.deepcopy(macros)
    try:
        got = MacroExpander().resolve_all_macros(macros, {'$and': new})
    except BaseException as e:
        bad += 1; print("EXC", type(e).__name__, str(e)[:100], json.dumps(new), json.dumps(m0)); continue
    n += 1; used += len(macros)
    exp_inline = inline({'$and': new}, m0)
    if got != {'$and': pattern} or exp_inline != {'$and': pattern}:
        bad += 1
        if bad < 6: print("MISMATCH\n rule:", json.dumps(new), "\n macros:", json.dumps(m0), "\n got:", json.dumps(got), "\n orig:", json.dumps({'$and':pattern}), "\n spec:", json.dumps(exp_inline))
    if macros != m0: mutated += 1
print("cases", n, "macros used", used, "bad", bad, "definitions mutated in", mutated)

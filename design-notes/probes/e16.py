import sys, random, subprocess, re, collections
sys.path.insert(0,'/repo/src')
from jasm.stringify_asm.implementations.gnu_objdump.asm_manual_parser_w_regex import parse_line
from jasm.global_definitions import Instruction
random.seed(99)
mn_chars=collections.Counter(); op_chars=collections.Counter(); maxrec=0; n=0; kinds=collections.Counter()
weird=[]; exc=0
for it in range(120):
    nbytes=3000
    # bias: sprinkle EVEX/VEX/prefix bytes
    bs = bytearray(random.randrange(256) for _ in range(nbytes))
    for j in range(0,nbytes,11):
        bs[j] = random.choice([0x62,0xc4,0xc5,0x66,0xf2,0xf3,0x0f,0x2e,0x3e,0xf0,0x67,bs[j]])
    open('r.s','w').write(".text\nf:\n" + "\n".join(".byte "+",".join(hex(b) for b in bs[i:i+16]) for i in range(0,len(bs),16)) + "\n")
    subprocess.run(['as','r.s','-o','r.o'],check=True)
    dis = subprocess.run(['objdump','-d','-M','att','r.o'],capture_output=True,text=True,check=True).stdout
    for line in dis.split("\n"):
        parts=line.split("\t")
        if len(parts)>=3:
            n+=1
            try: r=parse_line(line)
            except BaseException as e: exc+=1; weird.append(("EXC",line)); continue
            if isinstance(r, Instruction):
                mn_chars.update(r.mnemonic); 
                for o in r.operands: op_chars.update(o)
                rec = r.stringify()+",|"; maxrec=max(maxrec,len(rec))
                for f in [r.mnemonic]+r.operands:
                    if '|' in f or '::' in f: weird.append(("SEP",line))
                for o in r.operands:
                    if ',' in o or o=="" : weird.append(("OPCOMMA",line))
            text="\t".join(parts[2:])
            toks=text.split()
            kinds[len(toks)]+=1
        elif len(parts)==2:
            kinds['cont' if re.fullmatch(r" *[0-9a-f]+:",parts[0]) else 'other2']+=1
print("inst lines",n,"exc",exc,"max record len",maxrec)
print("mnemonic chars:", "".join(sorted(mn_chars)))
print("operand chars :", "".join(sorted(op_chars)))
print("token-count histogram:", dict(kinds))
seen=set()
for k,l in weird:
    key=(k,re.sub(r'[0-9a-f]','',l.split("\t")[-1])[:30])
    if key in seen: continue
    seen.add(key); print(k, repr(l))
    if len(seen)>25: break

from h import *
B = [("1","call","400000 <a>"),("2","movl","$0x1,%eax"),("3","ret","")]
def ops():
    return [
      ("range", {'config':{'valid_addr_range':{'min':'0x400000','max':'500000'}},'pattern':[{'call':['valid_addr']}]}),
      ("norange-call400", {'pattern':[{'call':['400000']}]}),
      ("fullmatch-mov", {'config':{'mnemonics-full-match':True},'pattern':['mov']}),
      ("partial-mov", {'pattern':['mov']}),
      ("cap", {'pattern':['&a','&b']}),
      ("cap2", {'pattern':['&b']}),
    ]
import itertools
base = {}
for name, rule in ops():
    base[name] = run(rule, B, only_addr=True)
print(base)
bad = 0
for perm in itertools.permutations(ops(), 3):
    for name, rule in perm:
        r = run(rule, B, only_addr=True)
        if r != base[name]: bad += 1; print("DIFF", [p[0] for p in perm], name, r, base[name])
print("bad", bad)
# interleaved construction
p1 = wr(yaml.safe_dump({'config':{'valid_addr_range':{'min':'0x400000','max':'500000'}},'pattern':[{'call':['valid_addr']}]}), '.yaml')
p2 = wr(yaml.safe_dump({'pattern':['ret']}), '.yaml')
s = wr(listing(B), '.s')
m1 = MasterOfPuppets(MatchConfig(pattern_pathstr=p1, input_file=s, return_mode=MatchingReturnMode.matched_addrs_list, return_only_address=True))
m2 = MasterOfPuppets(MatchConfig(pattern_pathstr=p2, input_file=s, return_mode=MatchingReturnMode.matched_addrs_list, return_only_address=True))
print("interleaved m1 after m2 constructed:", m1.perform_matching(), "(fresh would be ['1'])")
print("repeat m2 twice:", m2.perform_matching(), m2.perform_matching())

import sys, random
from h import *
rnd = random.Random(11)
REG = ['rax','rbx','rcx']; SC=['1','2','4','8']; K=['0x8','0x10','-0x8','0x0','0x100','0x1']
def mk_operand():
    shape = rnd.choice(['m4','m3','m1k','m1','reg','imm','m4nb'])
    a,b,c,k = rnd.choice(REG), rnd.choice(REG), rnd.choice(SC), rnd.choice(K)
    if shape=='m4': return f'{k}(%{a},%{b},{c})', ('m', a,b,c,k)
    if shape=='m3': return f'(%{a},%{b},{c})', ('m', a,b,c,None)
    if shape=='m1k': return f'{k}(%{a})', ('m', a,None,None,k)
    if shape=='m1': return f'(%{a})', ('m', a,None,None,None)
    if shape=='m4nb': return f'{k}(,%{b},{c})', ('m', None,b,c,k)
    if shape=='reg': return f'%{a}', ('r',)
    return f'${k.lstrip("-")}', ('i',)
def mk_deref():
    a,b,c,k = rnd.choice(REG), rnd.choice(REG), rnd.choice(SC), rnd.choice(K)
    present = rnd.choice([(1,1),(1,0),(0,1),(0,0)])  # (bc, k)
    d = {'main_reg': rnd.choice(['%'+a, a])}
    spec = ['m', a, None, None, None]
    if present[0]:
        d['register_multiplier'] = rnd.choice(['%'+b, b]); d['constant_multiplier'] = rnd.choice([c, int(c)])
        spec[2], spec[3] = b, c
    if present[1]:
        kk = k
        if rnd.random()<0.3 and k.startswith('0x'): kk = k[2:]   # without 0x
        if kk.isdigit() and rnd.random()<0.5: kk = int(kk)
        d['constant_offset'] = kk; spec[4] = k
    return d, tuple(spec)
bad=0; n=0; pos=0
for it in range(1500):
    d, dspec = mk_deref()
    L=[]; specs=[]
    for i in range(6):
        o, s = mk_operand(); L.append((format(i+1,'x'),'mov', o+',%eax')); specs.append(s)
    # make one matching candidate often
    if rnd.random()<0.7:
        _, a,b,c,k = dspec
        o = (k or '') + '(%' + a + (f',%{b},{c}' if b else '') + ')'
        L.append(('7','mov', o+',%eax')); specs.append(dspec)
    try:
        got = run({'pattern':[{'mov':[{'$deref':d}]}]}, L, only_addr=True)[1]
    except Exception as e:
        print("EXC", e, d); bad+=1; continue
    exp = [L[i][0] for i,s in enumerate(specs) if s == dspec]
    n+=1; pos += bool(exp)
    if got != exp:
        bad+=1
        if bad<8: print("MISMATCH", d, L, got, exp)
print("C06 cases", n, "pos", pos, "bad", bad)

"""Shared machinery of the checks: context, report, decision, evidence, replay files, known findings."""
import collections, hashlib, json, os, sys, time

HERE = os.path.dirname(os.path.abspath(__file__))
VERIF = os.path.abspath(os.path.join(HERE, ".."))
sys.path.insert(0, HERE)

import gen  # noqa: E402
import impl  # noqa: E402
import model  # noqa: E402

TRUSTED_BASE = [
    "Lean 4.33 kernel (thorough tier: re-checked by leanchecker)",
    "axioms of the property theorems: subset of {propext, Classical.choice, Quot.sound} (audited by #print axioms on every run)",
    "hand-written Lean model of /repo/src/jasm, tied to the code by the correspondence checks of this run (testing, not proof)",
    "Lean model of the third-party `regex` engine (operator subset emitted by JASM, ASCII, no timeouts), validated by comparing match results with the real engine on every case of this run",
    "PyYAML, argparse, logging, subprocess, the file system and GNU objdump 2.40 are environment: modelled as parameters or by a validated output grammar",
    "the Python harness (generators, JSON transport) transports inputs faithfully",
]


def digest(obj):
    return hashlib.sha1(json.dumps(obj, sort_keys=True, default=str).encode()).hexdigest()[:16]


Enough = impl.Enough


class Report:
    MAX_VIOLATIONS = 60
    MAX_DISAGREEMENTS = 600

    def __init__(self, prop, tier, seed):
        self.prop, self.tier, self.seed = prop, tier, seed
        self.evaluations = 0
        self.nontrivial = set()
        self.samples = []
        self.dist = collections.Counter()
        self.disagreements = []      # model vs implementation (correspondence)
        self.violations = []         # implementation vs property (specification)
        self.known = []              # violations covered by a known finding
        self.unsupported = 0
        self.rule = ""
        self.t_start = time.time()
        self.is_known = None
        self.n_known_violations = 0

    def has_new(self):
        """a violation not covered by a known finding has been recorded"""
        return len(self.violations) > self.n_known_violations

    def case(self, case, nontrivial, tags=()):
        self.evaluations += 1
        if len(self.violations) > self.n_known_violations and time.time() - self.t_start > (150 if self.tier == "quick" else 1800):
            raise Enough("a failing input is in hand and the run has become slow")
        for t in tags:
            self.dist[t] += 1
        if nontrivial:
            h = digest(case)
            if h not in self.nontrivial:
                self.nontrivial.add(h)
                if len(self.samples) < 4:
                    self.samples.append(case)

    def disagree(self, tie, case, impl_out, model_out):
        self.disagreements.append({"tie": tie, "case": case, "impl": impl_out, "model": model_out})
        if len(self.disagreements) >= self.MAX_DISAGREEMENTS and len(self.violations) > self.n_known_violations:
            raise Enough("%d correspondence disagreements and %d violations" % (len(self.disagreements), len(self.violations)))

    def violate(self, what, case, expected, observed, model_agrees_with_spec=None):
        self.violations.append({"what": what, "case": case, "expected": expected, "observed": observed,
                                "model_agrees_with_spec": model_agrees_with_spec})
        # violations covered by a known finding do not count towards the cut-off (they occur on the unchanged tree)
        if self.is_known is not None and self.is_known(self.violations[-1]):
            self.n_known_violations += 1
        if len(self.violations) - self.n_known_violations >= self.MAX_VIOLATIONS:
            raise Enough("%d violations" % (len(self.violations) - self.n_known_violations))


class Ctx:
    def __init__(self, prop, tier, seed):
        self.prop, self.tier, self.seed = prop, tier, seed
        self.g = gen.G((seed << 8) ^ int(prop[1:]))
        self.driver = model.Driver()
        self.scratch = impl.Scratch()
        self.report = Report(prop, tier, seed)
        self.deadline = None

    def budget(self, quick, thorough):
        return thorough if self.tier == "thorough" else quick

    def close(self):
        self.driver.close()
        self.scratch.close()


# ------------------------------------------------------------------------------ known findings

def load_findings(prop):
    path = os.path.join(VERIF, "known_findings.json")
    if not os.path.exists(path):
        return []
    return [f for f in json.load(open(path)) if f.get("property") == prop]


def write_replay(prop, kind, payload):
    d = os.path.join(VERIF, "replays")
    os.makedirs(d, exist_ok=True)
    path = os.path.join(d, "%s-%s-%s.json" % (prop, kind, digest(payload)))
    with open(path, "w") as f:
        json.dump(payload, f, indent=1, default=str)
    return os.path.relpath(path, VERIF)


def write_evidence(report, lean, extra_cov=None, assumptions=()):
    cov = {
        "obligations": len(lean["obligations"]),
        "discharged": len(lean["discharged"]),
        "checker_cmd": "cd /verif/lean && lake build Jasm Jasm.Proofs.ConstsTie && lake env lean .lake/audit_%s.lean  (#print axioms of every property theorem)%s"
                       % (report.prop, "; lake env leanchecker Jasm.Properties.%s" % report.prop if report.tier == "thorough" else ""),
        "trusted_base": TRUSTED_BASE,
        "theorems": lean["obligations"],
        "supporting_lemmas_audited": lean.get("supporting_lemmas", []),
        "axioms": lean["axioms"],
        "broken_obligations": lean["broken"],
        "t0_constants": lean["t0"].get("status", {}),
        "evaluations": report.evaluations,
        "distinct_nontrivial": len(report.nontrivial),
        "rule": report.rule,
        "samples": report.samples[:4] or ["(no correspondence cases in this run)"],
        "distribution": dict(report.dist),
        "unsupported_by_model": report.unsupported,
        "correspondence_disagreements": len(report.disagreements),
        "known_findings_reproduced": [k["id"] for k in report.known],
        "lean_stage_wall_s": lean.get("wall_s"),
    }
    if extra_cov:
        cov.update(extra_cov)
    ev = {
        "property_id": report.prop,
        "tier": report.tier,
        "seed": report.seed,
        "level": "proof",
        "coverage": cov,
        "assumptions": list(assumptions),
        "wall_s": round(time.time() - report.t_start, 2),
        "violations": len(report.violations),
    }
    d = os.path.join(VERIF, "evidence")
    os.makedirs(d, exist_ok=True)
    with open(os.path.join(d, report.prop + ".json"), "w") as f:
        json.dump(ev, f, indent=1, default=str)
    return ev

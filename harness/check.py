"""./check <Cxx> <quick|thorough> [--replay FILE]   (cwd = /verif)

Exit 0: the property held on everything explored (KNOWN-FINDING lines allowed)
Exit 1: a line "VIOLATION property=<id> replay=<path>[ no-failing-input-found]" was printed
Exit 2: harness error (build failure not attributable to /repo, driver crash, timeout)
"""
import importlib, json, os, re, signal, sys, time, traceback

HERE = os.path.dirname(os.path.abspath(__file__))
sys.path.insert(0, HERE)

import core  # noqa: E402
import leanstage  # noqa: E402
import impl  # noqa: E402


def finding_matches(f, v):
    """does a known finding cover this violation?  Predicates are narrow and syntactic."""
    pred = f.get("predicate") or {}
    blob = json.dumps(v.get("case"), default=str)
    for needle in pred.get("case_contains_all", []):
        if needle not in blob:
            return False
    anyof = pred.get("case_contains_any")
    if anyof and not any(n in blob for n in anyof):
        return False
    if pred.get("case_regex") and not re.search(pred["case_regex"], blob):
        return False
    if pred.get("what") and pred["what"] != v.get("what"):
        return False
    return bool(pred)


def main(argv):
    if len(argv) < 3:
        print(__doc__)
        return 2
    prop, tier = argv[1], argv[2]
    seed = int(os.environ.get("VERIF_SEED", "0") or 0)
    mod = importlib.import_module("props." + prop.lower())
    if "--replay" in argv:
        path = argv[argv.index("--replay") + 1]
        ctx = core.Ctx(prop, tier, seed)
        try:
            payload = json.load(open(path))
            if "case" not in payload and isinstance(payload.get("first_disagreement"), dict):
                # replay file of a broken correspondence: re-run the first disagreeing input
                payload = dict(payload, case=payload["first_disagreement"].get("case"))
            if payload.get("case") is None:
                print(json.dumps({"note": "this replay file names broken obligations only; rebuild them with: cd /verif/lean && lake build Jasm Jasm.Proofs.ConstsTie",
                                  "broken": payload.get("broken_proof_obligations")}, indent=1))
                return 0
            out = mod.replay(ctx, payload)
            print(json.dumps(out, indent=1, default=str))
        finally:
            ctx.close()
        return 0
    t0 = time.time()
    try:
        lean = leanstage.lean_stage(prop, thorough=(tier == "thorough"), consts_needed=getattr(mod, "CONSTS", ()))
    except leanstage.HarnessError as e:
        print("HARNESS-ERROR: " + str(e))
        return 2
    ctx = core.Ctx(prop, tier, seed)
    rep = ctx.report
    rep.t_start = t0
    findings = core.load_findings(prop)
    rep.is_known = lambda v: (v.get("model_agrees_with_spec") is not True and
                              any(f.get("kind") == "finding" and finding_matches(f, v) for f in findings))
    try:
        # known findings: replay each recorded witness
        for f in findings:
            try:
                still = mod.finding_reproduces(ctx, f)
            except Exception:  # noqa: BLE001
                traceback.print_exc()
                still = None
            if f.get("kind") == "fixed":
                # a repaired defect suppresses nothing: its witness belongs to the corpus and must pass
                rep.dist["corpus:fixed-defect-witness"] += 1
                if still:
                    rep.violate("repaired-defect-returned:" + f["id"], dict(f["witness"]), "the behaviour after " + f.get("commit", "the fix"),
                                f["what"], model_agrees_with_spec=True)
                continue
            if still:
                print("KNOWN-FINDING: property=%s %s" % (prop, f["what"]))
                rep.known.append(f)
            else:
                print("NOTE: known finding %s does not reproduce in the recorded way (%s)" % (f["id"], still))
        impl.HISTORY["every"] = getattr(mod, "HISTORY_EVERY", 7)
        # budget of the exploration: a change to /repo that makes the code blow up (ever-growing regexes, say) must end
        # the run with what was found so far, not hang it
        limit_s = int(os.environ.get("VERIF_TIME_LIMIT", "900" if tier == "quick" else "10800"))
        try:
            import resource
            resource.setrlimit(resource.RLIMIT_AS, (12 << 30, 12 << 30))
        except Exception:  # noqa: BLE001
            pass

        t_run = [time.time()]
        soft_s = 150 if tier == "quick" else 1800

        def on_alarm(signum, frame):
            el = time.time() - t_run[0]
            if el >= limit_s:
                raise core.Enough("time limit of %d s reached" % limit_s)
            if len(rep.violations) > rep.n_known_violations and el >= soft_s:
                raise core.Enough("a failing input is in hand and the run has become slow")
        signal.signal(signal.SIGALRM, on_alarm)
        signal.setitimer(signal.ITIMER_REAL, 10, 10)
        stopped = None
        try:
            mod.run(ctx, 1)
        except core.Enough as e:
            stopped = str(e)
        except MemoryError:
            stopped = "memory limit reached inside the implementation"
        signal.setitimer(signal.ITIMER_REAL, 0)
        if stopped:
            print("NOTE: exploration ended early: " + stopped)
            rep.dist["exploration-ended-early:" + stopped.split(" of ")[0][:60]] += 1
            if not (rep.violations or rep.disagreements):
                print("HARNESS-ERROR: budget used up before anything was found (%s)" % stopped)
                return 2
        import model as _model
        if _model.TIMEOUTS:
            rep.dist["model-driver-requests-abandoned-after-%ds(counted as unsupported)" % int(_model.TIMEOUT_S)] += len(_model.TIMEOUTS)
        for mm in impl.HISTORY["repeat_mismatches"][:3]:
            try:
                rep.violate("second-call-on-the-same-object-differs", {"rule": mm["rule"], "listing": mm["listing"]},
                            {"result": mm["first_call"], "mode": [mm["mode"], mm["address_only"], mm["return"]]},
                            {"result_of_second_perform_matching": mm["second_call_on_the_same_object"]}, model_agrees_with_spec=None)
            except core.Enough:
                break
        rep.dist["history:prelude-operations"] += impl.HISTORY["preludes"]
        rep.dist["history:operations-repeated-on-the-same-object"] += impl.HISTORY["repeats"]
        rep.dist["history:operations-with-the-logger-at-DEBUG"] += impl.HISTORY.get("debug_level_operations", 0)
        rep.dist["yaml-documents-written-with-anchors-and-aliases"] += impl.DUMPS[0] // 3
        # a broken obligation or tie: search harder for a concrete failing input
        if (lean["broken"] or rep.disagreements) and len(rep.violations) == rep.n_known_violations and not stopped:
            t_run[0] = time.time()
            signal.setitimer(signal.ITIMER_REAL, 10, 10)
            try:
                mod.run(ctx, getattr(mod, "SEARCH_FACTOR", 4))
            except core.Enough as e:
                print("NOTE: search ended early: " + str(e))
            except MemoryError:
                print("NOTE: search ended early: memory limit")
            signal.setitimer(signal.ITIMER_REAL, 0)
        new_violations = []
        for v in rep.violations:
            covering = [f for f in findings if f.get("kind") == "finding" and finding_matches(f, v)]
            if covering and v.get("model_agrees_with_spec") is not True:
                continue
            if covering and v.get("model_agrees_with_spec") is True:
                # the pinned model satisfied the property here: this is not the recorded defect
                pass
            new_violations.append(v)
        rc = 0
        if new_violations:
            v = new_violations[0]
            path = core.write_replay(prop, "violation", {
                "property": prop, "kind": "failing-input", "what": v["what"], "case": v["case"],
                "expected_by_property": v["expected"], "observed_on_implementation": v["observed"],
                "replay": "cd /verif && ./check %s %s --replay <this file>" % (prop, tier),
                "other_violations_in_this_run": len(new_violations) - 1})
            print("VIOLATION property=%s replay=%s" % (prop, path))
            rc = 1
        elif lean["broken"] or rep.disagreements:
            payload = {"property": prop, "kind": "no-failing-input-found",
                       "broken_proof_obligations": lean["broken"],
                       "broken_correspondence": [d["tie"] for d in rep.disagreements[:20]],
                       "first_disagreement": rep.disagreements[0] if rep.disagreements else None,
                       "searched_cases": rep.evaluations,
                       "note": "the property is no longer shown to hold: the model the theorems are about "
                               "does not describe this code any more; no input contradicting the property was found"}
            path = core.write_replay(prop, "unproved", payload)
            print("VIOLATION property=%s replay=%s no-failing-input-found" % (prop, path))
            rc = 1
        rep.violations = new_violations
        ev = core.write_evidence(rep, lean, extra_cov=getattr(mod, "extra_coverage", lambda c: None)(ctx),
                                 assumptions=getattr(mod, "ASSUMPTIONS", ()))
        print("%s %s seed=%d: %d obligations (%d discharged), %d cases (%d distinct non-trivial), "
              "%d correspondence disagreements, %d violations, %d known findings, %.1fs"
              % (prop, tier, seed, len(lean["obligations"]), len(lean["discharged"]), rep.evaluations,
                 len(rep.nontrivial), len(rep.disagreements), len(new_violations), len(rep.known), ev["wall_s"]))
        return rc
    except Exception:  # noqa: BLE001
        traceback.print_exc()
        print("HARNESS-ERROR: exception in the check itself")
        return 2
    finally:
        ctx.close()


if __name__ == "__main__":
    sys.exit(main(sys.argv))

"""Writes /verif/MANIFEST.json from the table below (kept in one place so it stays valid)."""
import json, os

HERE = os.path.dirname(os.path.abspath(__file__))
VERIF = os.path.abspath(os.path.join(HERE, ".."))

NOTE = ("Trusted: Lean 4.33 kernel; axioms of every property theorem audited on each run (subset of propext, "
        "Classical.choice, Quot.sound; no native_decide/bv_decide/sorry/own axioms); the hand-written Lean model of "
        "/repo/src/jasm is tied to the code by this check's correspondence run (differential testing on the same inputs, "
        "regenerated constants table T0); the `regex` engine, PyYAML, argparse, subprocess and objdump are modelled "
        "environment. ")

CLAIMS = {
    # id: (technique, text, design_ref, extra note)
}

def claim(pid, technique, text, ref, note=""):
    CLAIMS[pid] = (technique, text, ref, note)

NOT_APPLICABLE = {}


def main():
    import importlib.util
    spec = importlib.util.spec_from_file_location("claims", os.path.join(HERE, "claims.py"))
    m = importlib.util.module_from_spec(spec)
    spec.loader.exec_module(m)
    checks = []
    for pid in sorted(m.CLAIMS):
        technique, text, ref, note = m.CLAIMS[pid]
        checks.append({
            "property_id": pid,
            "quick_cmd": "./check %s quick" % pid,
            "thorough_cmd": "./check %s thorough" % pid,
            "evidence_file": "evidence/%s.json" % pid,
            "replay_cmd_template": "./check %s quick --replay {path}" % pid,
            "engine": "lean-model+correspondence",
            "level_claimed": {"category": "proof", "text": text, "design_ref": ref},
            "level_note": NOTE + note,
            "technique": technique,
        })
    manifest = {
        "version": 1,
        "setup_cmd": "./setup.sh",
        "hooks": {
            "guard": "JASM_VERIF",
            "enable": "no source hooks are needed: every observation point is a public entry point (MasterOfPuppets, Yaml2Regex, MacroExpander, the CLI); checks import /repo/src in-process",
            "baseline_off_cmd": "cd /repo && /venv/bin/python -m pytest -ra -q -p no:cacheprovider --timeout=900 --continue-on-collection-errors",
            "source_commits": [],
            "add_only": True,
        },
        "engines": [{
            "name": "lean-model+correspondence",
            "path": "lean/ (model, specifications, proofs, driver) + harness/ (ties, generators, evidence)",
            "serves_properties": sorted(m.CLAIMS),
            "kind_free_text": "machine-checked proof in Lean 4 about a hand-written executable model; model tied to the real code by differential correspondence checks and a regenerated constants table",
        }],
        "checks": checks,
        "not_applicable": [{"property_id": k, "reason": v} for k, v in sorted(m.NOT_APPLICABLE.items())],
        "notes": "fix: commits in /repo repair genuine defects found by these checks (see known_findings.json and DESIGN.md section 8); no hook commits.",
    }
    with open(os.path.join(VERIF, "MANIFEST.json"), "w") as f:
        json.dump(manifest, f, indent=1)
    print("MANIFEST.json: %d checks, %d not applicable" % (len(checks), len(manifest["not_applicable"])))


if __name__ == "__main__":
    main()

"""Adapters over the public entry points of the real code in /repo (called in-process)."""
import copy, os, sys, tempfile, shutil, logging

REPO = os.environ.get("JASM_REPO", "/repo")
sys.path.insert(0, os.path.join(REPO, "src"))

import yaml  # noqa: E402
from jasm.global_definitions import (  # noqa: E402
    MatchConfig, MatchingReturnMode, MatchingSearchMode, InputFileType,
)
from jasm.match import MasterOfPuppets  # noqa: E402
from jasm.jasm_regex.yaml2regex import Yaml2Regex  # noqa: E402
from jasm.jasm_regex.macro_expander.macro_expander import MacroExpander  # noqa: E402

logging.getLogger("jasm.logging_config").setLevel(logging.CRITICAL)
logging.getLogger("jasm.logging_config").addHandler(logging.NullHandler())
logging.getLogger("jasm.logging_config").propagate = False


class Scratch:
    """A private scratch directory outside /repo and /verif, removed at exit."""

    def __init__(self):
        self.dir = tempfile.mkdtemp(prefix="jasmverif-")
        self.n = 0

    def write(self, text, suffix, binary=False, stem="f"):
        self.n += 1
        path = os.path.join(self.dir, "%s%d%s" % (stem, self.n % 64, suffix))
        with open(path, "wb" if binary else "w") as f:
            f.write(text)
        return path

    def close(self):
        shutil.rmtree(self.dir, ignore_errors=True)


DUMPS = [0]


def _share(node, memo):
    """the same document with structurally equal mappings/sequences made ONE object, so that PyYAML writes the second and
    later occurrences as aliases (`&id001` / `*id001`) and the loader hands the code one shared dict/list for them"""
    if isinstance(node, dict):
        out = {k: _share(v, memo) for k, v in node.items()}
    elif isinstance(node, list):
        out = [_share(v, memo) for v in node]
    else:
        return node
    key = repr(out)
    if key in memo:
        return memo[key]
    memo[key] = out
    return out


def dump_yaml(doc):
    """YAML text of a document; every third document is written with anchors and aliases for its repeated sub-trees
    (the same YAML document: what it means must not depend on that)"""
    DUMPS[0] += 1
    if HISTORY["every"] and DUMPS[0] % 3 == 0:
        doc = _share(doc, {})
    return yaml.safe_dump(doc, sort_keys=False, default_flow_style=False, width=10000)


LAST_ERROR = [""]


class Enough(Exception):
    """raised to end the exploration early: enough failing inputs are in hand, or the run's time/memory budget is used up"""


def guarded(fn):
    """('ok', value) or ('err', ExceptionClassName); the message of the last error is kept in LAST_ERROR."""
    try:
        return ("ok", fn())
    except BaseException as exc:  # noqa: BLE001 - SystemExit etc. included on purpose
        if isinstance(exc, (KeyboardInterrupt, MemoryError, Enough)):
            raise
        LAST_ERROR[0] = str(exc)
        return ("err", type(exc).__name__)


def compile_rule(scratch, doc, macro_docs=()):
    """Regex text produced by Yaml2Regex for a rule document (and extra macro files)."""
    path = scratch.write(dump_yaml(doc), ".yaml")
    mpaths = macro_paths(scratch, macro_docs)
    if HISTORY["every"]:
        HISTORY["count"] += 1
        if HISTORY["count"] % HISTORY["every"] == 0:
            _prelude(scratch)
    return guarded(lambda: Yaml2Regex(path, macros_from_terminal=mpaths or None).produce_regex())


def macro_paths(scratch, macro_docs):
    """extra macro files, written so that the order of their PATHS is the reverse of the order in which they are given
    every other time (the order given is the one that counts)"""
    stems = ["f"] * len(macro_docs)
    if len(macro_docs) > 1 and scratch.n % 2:
        stems = ["zz%02d_" % (len(macro_docs) - i) for i in range(len(macro_docs))]
    return [scratch.write(dump_yaml(m), ".macros.yaml", stem=st) for m, st in zip(macro_docs, stems)]


RET = {"bool": MatchingReturnMode.bool, "list": MatchingReturnMode.matched_addrs_list,
       "stream": MatchingReturnMode.all_instructions_string}
MODE = {"first": MatchingSearchMode.first_find, "all": MatchingSearchMode.all_finds}


# ---------------------------------------------------------------------------------------- history and repetition
# Every property quantifies over operations performed in a process that may have done other work before (C14 says the
# result cannot depend on it).  With HISTORY["every"] = n, every n-th measured operation is preceded by one operation of
# a fixed pool that writes every piece of process state the code has (both full-match flags, a catch-all address range,
# sections, captures, any-order groups, macros, an operation that fails half-way through load_config), and every n-th
# measured operation is performed twice on the same MasterOfPuppets object: the two results must be equal.
HISTORY = {"every": 0, "count": 0, "preludes": 0, "repeats": 0, "repeat_mismatches": []}

_PRE_LISTING = """
a.out:     file format elf64-x86-64

Disassembly of section .text:

0000000000401000 <f>:
  401000:\t55                   \tpush   %rbp
  401001:\t5d                   \tpop    %rbp
  401002:\te8 09 00 00 00       \tcall   401010 <g>
  401007:\t48 89 c3             \tmov    %rax,(%rax)
  40100a:\t90                   \tnop
  40100b:\teb 03                \tjmp    401010 <g>
  40100d:\tc3                   \tret
"""
_PRE_OPS = [
    ({"config": {"mnemonics-full-match": True, "operands-full-match": True, "style": "att",
                 "valid_addr_range": {"min": "0", "max": "ffffffffffffffff"}, "sections": [".init", ".fini"]},
      "macros": [{"name": "@pre", "pattern": ["nop"]}],
      "pattern": [{"$and_any_order": ["push", "pop"]}, "&pre", {"mov": ["&r", {"$deref": {"main_reg": "&r"}}]}, "@pre"]},
     "all", True, "list"),
    ({"config": {"mnemonics-full-match": False, "operands-full-match": True,
                 "valid_addr_range": {"min": "0x401010", "max": "0x401010"}},
      "pattern": [{"call": ["valid_addr"]}, {"$and_any_order": ["mov", "nop"]}, {"$or": ["jmp", "ret"], "times": {"min": 1, "max": 2}}]},
     "first", False, "bool"),
    ({"config": {"mnemonics-full-match": True, "operands-full-match": "yes", "valid_addr_range": {"min": "1", "max": "2"}},
      "pattern": ["nop"]}, "first", False, "bool"),
    ({"config": {"mnemonics-full-match": True, "valid_addr_range": {"min": "zz", "max": "2"}, "sections": [".plt"]},
      "pattern": ["nop"]}, "all", True, "list"),
]


def _prelude(scratch):
    k = HISTORY["preludes"] % len(_PRE_OPS)
    HISTORY["preludes"] += 1
    doc, mode, ao, ret = _PRE_OPS[k]
    path = scratch.write(dump_yaml(doc), ".pre.yaml")
    inp = scratch.write(_PRE_LISTING, ".pre.s")
    try:
        m = MasterOfPuppets(MatchConfig(pattern_pathstr=path, input_file=inp, input_file_type=InputFileType.assembly,
                                        return_only_address=ao, return_mode=RET[ret], matching_mode=MODE[mode]))
        m.perform_matching()
        m.perform_matching()
    except BaseException as exc:  # noqa: BLE001
        if isinstance(exc, (KeyboardInterrupt, MemoryError, Enough)):
            raise


def run_op(scratch, doc, text, mode="first", addr_only=False, ret="bool", macro_docs=(), binary_path=None,
           rule_path=None, input_path=None):
    """One complete compile-and-match operation through MasterOfPuppets."""
    path = rule_path or scratch.write(dump_yaml(doc), ".yaml")
    mpaths = macro_paths(scratch, macro_docs)
    if binary_path is not None:
        inp, kind = binary_path, InputFileType.binary
    else:
        inp, kind = input_path or scratch.write(text, ".s"), InputFileType.assembly
    repeat = False
    if HISTORY["every"]:
        HISTORY["count"] += 1
        if HISTORY["count"] % HISTORY["every"] == 0:
            _prelude(scratch)
        repeat = HISTORY["count"] % HISTORY["every"] == 1 and binary_path is None

    # the log level is not an input: every fifth measured operation runs with the package's logger at DEBUG
    debug = bool(HISTORY["every"]) and HISTORY["count"] % 5 == 2
    jlog = logging.getLogger("jasm.logging_config")

    def go():
        cfg = MatchConfig(pattern_pathstr=path, input_file=inp, input_file_type=kind,
                          return_only_address=addr_only, return_mode=RET[ret], matching_mode=MODE[mode],
                          macros=mpaths or None)
        if debug:
            HISTORY["debug_level_operations"] = HISTORY.get("debug_level_operations", 0) + 1
            jlog.setLevel(logging.DEBUG)
        try:
            m = MasterOfPuppets(cfg)
            r1 = m.perform_matching()
        finally:
            if debug:
                jlog.setLevel(logging.CRITICAL)
        if repeat:
            r1 = copy.deepcopy(r1)
            HISTORY["repeats"] += 1
            r2 = m.perform_matching()
            if r2 != r1 and len(HISTORY["repeat_mismatches"]) < 20:
                HISTORY["repeat_mismatches"].append({"rule": doc, "listing": text if text is not None else inp,
                                                     "mode": mode, "address_only": addr_only, "return": ret,
                                                     "first_call": r1, "second_call_on_the_same_object": r2})
        return r1
    return guarded(go)


def run_ops_batch(scratch, doc, text, combos):
    """The same rule and input asked in several ways: ALL MasterOfPuppets objects are constructed first (same rule file,
    so the configuration singleton is written with the same values each time), then each is run.  combos: list of
    (ret, mode, addr_only); returns {"ret/mode/ao": outcome}."""
    path = scratch.write(dump_yaml(doc), ".yaml")
    inp = scratch.write(text, ".s")
    objs = []
    for ret, mode, ao in combos:
        objs.append(guarded(lambda: MasterOfPuppets(MatchConfig(
            pattern_pathstr=path, input_file=inp, input_file_type=InputFileType.assembly, return_only_address=ao,
            return_mode=RET[ret], matching_mode=MODE[mode]))))
    out = {}
    for (ret, mode, ao), o in zip(combos, objs):
        key = "%s/%s/%d" % (ret, mode, int(ao))
        out[key] = o if o[0] != "ok" else guarded(lambda: copy.deepcopy(o[1].perform_matching()))
    return out


def run_ops_shared_config(scratch, doc, text, combos):
    """The same rule and input asked in several ways through ONE configuration object handed on: the first MatchConfig
    is built by the constructor, every later one is `dataclasses.replace(previous, …)` of the one just used (a caller
    keeping one configuration and changing what it asks).  combos: list of (ret, mode, addr_only)."""
    import dataclasses
    path = scratch.write(dump_yaml(doc), ".yaml")
    inp = scratch.write(text, ".s")
    out, cfg, asked_mode = [], None, None
    for ret, mode, ao in combos:
        def go():
            nonlocal cfg, asked_mode
            if cfg is None:
                cfg = MatchConfig(pattern_pathstr=path, input_file=inp, input_file_type=InputFileType.assembly,
                                  return_only_address=ao, return_mode=RET[ret], matching_mode=MODE[mode])
            else:
                cfg = dataclasses.replace(cfg, return_only_address=ao, return_mode=RET[ret])
                if mode != asked_mode:          # the caller changes the search mode only when it asks for another one
                    cfg = dataclasses.replace(cfg, matching_mode=MODE[mode])
            asked_mode = mode
            return copy.deepcopy(MasterOfPuppets(cfg).perform_matching())
        out.append(guarded(go))
    return out


def run_op_logged(scratch, doc, text, mode="all", addr_only=True):
    """The operation asked for its yes/no answer (the default return mode, the one the command line uses): the matches
    are then REPORTED through the package's logger (`Matched address: …`).  Returns (outcome, reported list)."""
    path = scratch.write(dump_yaml(doc), ".yaml")
    inp = scratch.write(text, ".s")
    jlog = logging.getLogger("jasm.logging_config")
    seen = []

    class H(logging.Handler):
        def emit(self, record):
            if isinstance(record.msg, str) and record.msg.startswith("Matched address") and record.args:
                seen.append(record.args[0] if isinstance(record.args, tuple) else record.args)
    h = H()

    def go():
        cfg = MatchConfig(pattern_pathstr=path, input_file=inp, input_file_type=InputFileType.assembly,
                          return_only_address=addr_only, return_mode=RET["bool"], matching_mode=MODE[mode])
        jlog.addHandler(h)
        jlog.setLevel(logging.INFO)
        try:
            return MasterOfPuppets(cfg).perform_matching()
        finally:
            jlog.setLevel(logging.CRITICAL)
            jlog.removeHandler(h)
    r = guarded(go)
    return r, list(seen)


def expand_macros(macros, tree):
    return guarded(lambda: MacroExpander().resolve_all_macros(macros=macros, pattern_tree=tree))


def parser_instructions(text):
    """The instruction list the real parser hands to a consumer (recording consumer, public parser API)."""
    from jasm.stringify_asm.implementations.gnu_objdump.gnu_objdump_parser_manual import ObjdumpParserManual
    from jasm.stringify_asm.abstracts.abs_observer import IConsumer

    class Recorder(IConsumer):
        def __init__(self):
            self.insts = []

        def consume_instruction(self, inst):
            self.insts.append((inst.addr, inst.mnemonic, list(inst.operands)))

        def finalize(self):
            pass

    def go():
        r = Recorder()
        ObjdumpParserManual().parse(text, r)
        return r.insts
    return guarded(go)


def stream_of(scratch, text, config=None):
    doc = {"pattern": ["nop"]}
    if config:
        doc["config"] = config
    return run_op(scratch, doc, text, ret="stream")

"""Adapters over the public entry points of the real code in /repo (called in-process)."""
import os, sys, tempfile, shutil, logging

REPO = os.environ.get("JASM_REPO", "/repo")
sys.path.insert(0, os.path.join(REPO, "src"))

import yaml  # noqa: E402
from jasm.global_definitions import (  # noqa: E402
    MatchConfig, MatchingReturnMode, MatchingSearchMode, InputFileType,
)
from jasm.match import MasterOfPuppets  # noqa: E402
from jasm.jasm_regex.yaml2regex import Yaml2Regex  # noqa: E402
from jasm.jasm_regex.macro_expander.macro_expander import MacroExpander  # noqa: E402

logging.getLogger("jasm.logging_config").setLevel(logging.CRITICAL)


class Scratch:
    """A private scratch directory outside /repo and /verif, removed at exit."""

    def __init__(self):
        self.dir = tempfile.mkdtemp(prefix="jasmverif-")
        self.n = 0

    def write(self, text, suffix, binary=False):
        self.n += 1
        path = os.path.join(self.dir, "f%d%s" % (self.n % 64, suffix))
        with open(path, "wb" if binary else "w") as f:
            f.write(text)
        return path

    def close(self):
        shutil.rmtree(self.dir, ignore_errors=True)


def dump_yaml(doc):
    return yaml.safe_dump(doc, sort_keys=False, default_flow_style=False, width=10000)


LAST_ERROR = [""]


def guarded(fn):
    """('ok', value) or ('err', ExceptionClassName); the message of the last error is kept in LAST_ERROR."""
    try:
        return ("ok", fn())
    except BaseException as exc:  # noqa: BLE001 - SystemExit etc. included on purpose
        if isinstance(exc, (KeyboardInterrupt, MemoryError)):
            raise
        LAST_ERROR[0] = str(exc)
        return ("err", type(exc).__name__)


def compile_rule(scratch, doc, macro_docs=()):
    """Regex text produced by Yaml2Regex for a rule document (and extra macro files)."""
    path = scratch.write(dump_yaml(doc), ".yaml")
    mpaths = [scratch.write(dump_yaml(m), ".macros.yaml") for m in macro_docs]
    return guarded(lambda: Yaml2Regex(path, macros_from_terminal=mpaths or None).produce_regex())


RET = {"bool": MatchingReturnMode.bool, "list": MatchingReturnMode.matched_addrs_list,
       "stream": MatchingReturnMode.all_instructions_string}
MODE = {"first": MatchingSearchMode.first_find, "all": MatchingSearchMode.all_finds}


def run_op(scratch, doc, text, mode="first", addr_only=False, ret="bool", macro_docs=(), binary_path=None,
           rule_path=None, input_path=None):
    """One complete compile-and-match operation through MasterOfPuppets."""
    path = rule_path or scratch.write(dump_yaml(doc), ".yaml")
    mpaths = [scratch.write(dump_yaml(m), ".macros.yaml") for m in macro_docs]
    if binary_path is not None:
        inp, kind = binary_path, InputFileType.binary
    else:
        inp, kind = input_path or scratch.write(text, ".s"), InputFileType.assembly

    def go():
        cfg = MatchConfig(pattern_pathstr=path, input_file=inp, input_file_type=kind,
                          return_only_address=addr_only, return_mode=RET[ret], matching_mode=MODE[mode],
                          macros=mpaths or None)
        return MasterOfPuppets(cfg).perform_matching()
    return guarded(go)


def expand_macros(macros, tree):
    return guarded(lambda: MacroExpander().resolve_all_macros(macros=macros, pattern_tree=tree))


def parser_instructions(text):
    """The instruction list the real parser hands to a consumer (recording consumer, public parser API)."""
    from jasm.stringify_asm.implementations.gnu_objdump.gnu_objdump_parser_manual import ObjdumpParserManual
    from jasm.stringify_asm.abstracts.abs_observer import IConsumer

    class Recorder(IConsumer):
        def __init__(self):
            self.insts = []

        def consume_instruction(self, inst):
            self.insts.append((inst.addr, inst.mnemonic, list(inst.operands)))

        def finalize(self):
            pass

    def go():
        r = Recorder()
        ObjdumpParserManual().parse(text, r)
        return r.insts
    return guarded(go)


def stream_of(scratch, text, config=None):
    doc = {"pattern": ["nop"]}
    if config:
        doc["config"] = config
    return run_op(scratch, doc, text, ret="stream")

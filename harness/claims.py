"""What MANIFEST.json claims, per property.  A property appears in CLAIMS only once its check passes on the
unchanged tree; everything else is listed in NOT_APPLICABLE with the reason (kept current)."""

T = "Lean 4 theorem about the executable model + checked model-vs-code correspondence (differential) + spec-vs-code differential for replay"

CLAIMS = {}
NOT_APPLICABLE = {}

PENDING = "check not built yet in this session (planned: Lean model + theorem + correspondence, see DESIGN.md)"

for pid in ["C%02d" % i for i in range(1, 21)]:
    NOT_APPLICABLE[pid] = PENDING


def claim(pid, text, ref, note=""):
    CLAIMS[pid] = (T, text, ref, note)
    NOT_APPLICABLE.pop(pid, None)


claim("C01", "Correspondence (regex text, stream, match results, all on the real code) plus the window specification evaluated in Lean and independently in Python on every case; Lean theorems for the model are stated in lean/Jasm/Properties/C01.lean.", "DESIGN.md 7 C01")
claim("C02", "As C01 with repetitions in both spellings; denotational specification (iterDen) vs implementation verdict and matched texts; unrolling metamorphic check.", "DESIGN.md 7 C02")
claim("C03", "As C01 with nested $or/$and/$and_any_order at instruction, operand and deref level; or-split metamorphic check.", "DESIGN.md 7 C03")
claim("C04", "As C01 with $not in leading/inner/trailing/repeated/operand position.", "DESIGN.md 7 C04")
claim("C05", "As C01 with instruction- and operand-level captures on the spine; register families recorded as known findings.", "DESIGN.md 7 C05")
claim("C06", "As C01 for $deref over the 8 field combinations and near-miss operands through the real parser.", "DESIGN.md 7 C06")
claim("C07", "Alignment of every reported match and address checked on the implementation's outputs and against the specification's scan.", "DESIGN.md 7 C07")
claim("C11", "All-matches / first-match texts vs the specification's leftmost non-overlapping scan.", "DESIGN.md 7 C11")
claim("C12", "The property's equations checked on the implementation's outputs in all 8 mode combinations, and each output against the model.", "DESIGN.md 7 C12")

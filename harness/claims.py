"""What MANIFEST.json claims, per property.  A property appears in CLAIMS only once its check passes on the
unchanged tree; everything else is listed in NOT_APPLICABLE with the reason (kept current)."""

T = ("Lean 4 theorems (kernel-checked, no Mathlib) about a hand-written executable model of the code + "
     "model-vs-code correspondence on the same inputs + specification-vs-code differential producing the replay")

CLAIMS = {}
NOT_APPLICABLE = {}


def claim(pid, text, ref, note=""):
    CLAIMS[pid] = (T, text, ref, note)


COMMON = (" The check rebuilds the proofs, audits their axioms, regenerates the constants table from /repo (T0), then runs "
          "the real code and the model on generated inputs: a disagreement is a broken correspondence, a contradiction "
          "between the real code and the specification evaluated in Lean is a violation with the input as replay.")

claim("C01", "Theorem C01: for every non-empty list of literal items, all 4 flag settings and every well-formed listing, the "
      "engine model's search on the stream finds the compiled rule iff a window of consecutive instructions exists at which "
      "every item holds (master theorem + alignment); C01_locality; C01_end_to_end (from the listing text); C01_pipeline (the whole modelled operation runOp: config, YAML front end, typing, compilation, parsing, stream, search)." + COMMON, "DESIGN.md 0.2, 7 C01",
      "Hypotheses: literal names (no regex metacharacters, no , |), operand names not of the form [0-9a-f]+h (finding D11), "
      "records of at most 1000 characters, lower-case hex addresses, no :: inside a record body.")
claim("C02", "Theorems C02_rule_den / C02_pipeline (whole operation: the rule file with times n and the one with the item written n times give the same verdict); C02_bounds (times {lo,hi} = n-fold composition, lo <= n <= hi, each repetition consuming what one occurrence "
      "consumes), C02_unroll (times n = written n times, at regex level), C02_spellings, C02_nested_group / C02_nested_counts_den / C02_nested_exact_den / C02_counts_do_not_fold (Properties/C02Nested.lean: a counted group around a counted item is k rounds of a..b copies - totals a*k..b*k for one k in lo..hi, the multiples only for an exact inner count; the counts do not fold into one range), for every item/group of the capture-free "
      "literal fragment." + COMMON, "DESIGN.md 0.2, 7 C02", "Fragment: items and $and/$or/$not/$and_any_order groups nested arbitrarily; no captures inside (C05).")
claim("C03", "Theorems C03_or / C03_and / C03_anyOrder (some permutation q ~ l, each child once) at instruction and operand level, "
      "C03_no_merge, C03_perms; C03_verdict (engine search = executable specification foundSpec on the fragment) and C03_pipeline (whole operation runOp on the YAML text of any rule of the fragment = foundSpec)." + COMMON, "DESIGN.md 0.2, 7 C03", "$deref fields containing $or: correspondence only.")
claim("C04", "Theorems C04_verdict / C04_pipeline (whole operation: [$not X, Y] is found iff an instruction at which X fails is immediately followed by Y); C04_instruction, C04_operand (exactly one instruction/operand, iff the argument fails there), C04_seq." + COMMON,
      "DESIGN.md 0.2, 7 C04", "Capture-free literal fragment; the repairs D2+D3 are part of the tree.")
claim("C05", "Theorem C05_front_end (YAML front end: build + handler chains give definition at the first occurrence of a capture name in document order, reference afterwards), C05_compile / C05_pipeline (compileTree on the YAML of a capture-spine rule = comp of the typed rule, renumbering is the identity; run on the stream = the denotation); C05_spine: environment-threaded master theorem for the capture spine (engine groups by registration index mirror "
      "bindings by name; first occurrence binds the whole instruction body / whole non-empty operand, later occurrences match only "
      "identical text, names independent), C05_invariant, clause theorems, C05_twice; counter-example theorems for the register "
      "families (first occurrences: findings D5, D15; what they do right is C05_register_def_binds - on any name of a register of the family they bind the family text - and C05_register_pair in Properties/C05RegisterDef.lean: bound on the name of register g, the later occurrence with the suffix of width w fills a field iff the field is the name of the SAME register g at width w) and, for their LATER occurrences, C05_register_call / C05_register_call_field (Properties/C05Register.lean: the compiled occurrence fills an operand field exactly when the field is the name the x86 table regNameAt gives for the bound family text at the width the suffix selects)." + COMMON, "DESIGN.md 0.2, 7 C05",
      "References inside $or/$not/$and_any_order/times: correspondence only. Register-family captures (D5, D15) and captures under "
      "operand-level operators (D13) violate the property: known findings, proved about the model by decide +kernel and replayed on the code.")
claim("C06", "Theorems C06_rx (language of the compiled $deref = the specification's texts, all 8 field combinations, on any input), "
      "C06_field, C06_no_field, C06_end_to_end (through the parser's normal form, C09); C06_pipeline (literal $deref operands are inside the master theorem's "
      "and the YAML front end's fragments: whole operation on a rule file with $deref operands = the specification's verdict); C06_exact / C06_exact_end_to_end (Properties/C06Exact.lean: "
      "the normal form of a printed memory reference is accepted IFF it has exactly the components the pattern names, each equal up to the "
      "optional % / 0x - by unique reading of normal forms, body_unique); C06_scale_without_index_counterexample (finding D17 proved about "
      "the model)." + COMMON, "DESIGN.md 0.2, 7 C06",
      "Literal components free of + * ] ( ) ,; C06_exact needs index register and scale named together (otherwise D17); "
      "an independent component-agreement oracle written from the property text judges the one-operand cases of the differential.")
claim("C07", "Theorems C07_pipeline (whole operation: reported texts are runs of whole instructions of the listing, reported addresses those of their first instructions); C07_all / C07_first (every reported match is the text of whole consecutive records n..n+k-1 and the reported address "
      "is that of record n), C07_no_span_*, C07_plain_items / C07_plain_items_windows / C07_plain_items_reported (Properties/C07Items.lean: a rule of k plain items consumes exactly one instruction per item - every reported window is k consecutive records); C07_any_counterexample for the shipped @any." + COMMON, "DESIGN.md 0.2, 7 C07",
      "Capture-free literal fragment with any operator leading, compiled regex without empty match (syntactic class nonNull proved); @any: finding D6.")
claim("C08", "Theorems C08_inst, C08_line, C08_listing, C08_stream: parser o renderer over the objdump grammar yields exactly one stream "
      "instruction per instruction line (address, mnemonic token, normal-form operands), nothing for other lines, never fails." + COMMON,
      "DESIGN.md 0.2, 7 C08", "The grammar LineSpec is an assumption about GNU objdump 2.40, validated by classifying real objdump output (T5).")
claim("C09", "Theorem C09 (and C09_split, C09_normal_form): the operand text of an instruction with any number of operands of the AT&T "
      "forms is split into exactly its operands, each in normal form." + COMMON, "DESIGN.md 0.2, 7 C09", "Components free of ( ) ,.")
claim("C10", "Theorems C10_roundtrip (decode (encode L) = L), C10_injective, C10_bar_count, C10_parser_output_wf, C10_end_to_end (listing text -> parser -> stream -> decode = the listing's instructions); counter-examples showing the hypotheses are needed." + COMMON,
      "DESIGN.md 0.2, 7 C10", "Inst.WF is a hypothesis on parser output; objdump's branch-hint mnemonics violate it (finding D7).")
claim("C11", "Theorem C11: the all-matches result on the stream is the text of an instruction-level leftmost non-overlapping scan (ScanI); "
      "C11_nonNull, C11_first." + COMMON, "DESIGN.md 0.2, 7 C11", "Patterns that can match the empty sequence are outside the quantifier.")
claim("C12", "Theorems C12_bool_iff_list, C12_first_is_prefix_of_all, C12_address_only, C12_verdict_mode_independent for every regex and stream; "
      "the equations are also checked on the real outputs in all 8 mode combinations." + COMMON, "DESIGN.md 0.2, 7 C12")
claim("C13", "Theorems C13 / C13_passes (the expander's passes = sequential manual inlining, for item macros, string macros and parameterised macros: "
      "a use of a parameterised macro = the body with the call's arguments substituted simultaneously for the formals, C13_param_uses, C13_param_sequential), "
      "C13_uses_independent, C13_files, C13_rule; on the real code: "
      "regex of the macro rule = regex of the inlined rule for random factorings, definitions deep-compared before/after." + COMMON,
      "DESIGN.md 0.2, 7 C13", "Parameterised macros: hygienic calls (each formal bound once, no formal inside an argument or as a dict key of the body); Python object aliasing: correspondence only.")
claim("C14", "Theorems C14_step, C14 (any history), C14_idempotent on the modelled singleton; operation sequences in one interpreter vs a fresh "
      "interpreter each on the real code." + COMMON, "DESIGN.md 0.2, 7 C14", "Interpreter-level state outside JASMConfig: fresh-process comparison only.")
claim("C15", "Theorems C15_args, C15_route, C15_objdump_failure; binary route vs text route on objdump's own output for random multi-section "
      "objects, argv observed through a PATH shim." + COMMON, "DESIGN.md 0.2, 7 C15", "objdump is an uninterpreted parameter; process creation is runtime.")
claim("C16", "Theorem C16 (corollary of C08_stream), C16_presentation, C16_other_lines, C16_results, C16_pipeline (whole operation), C16_line_endings / C16_line_endings_binary "
      "(Python's text layer is inside the model: a listing stored with CRLF line ends gives the same outcome of the whole operation); paired listings with random presentation edits "
      "on the real code." + COMMON, "DESIGN.md 0.2, 7 C16", "Over the grammar; listings without the byte column: finding D12.")
claim("C17", "16 theorems C17_* (one per fault class: unreadable inputs, failing disassembler, wrongly-typed entries, empty group, $not arity, "
      "$deref without main_reg, negative/inverted times, undefined macro, error propagation); each fault injected into a found baseline on the real code." + COMMON,
      "DESIGN.md 0.2, 7 C17", "OS faults enter through World parameters; python -O is not used.")
claim("C18", "Theorems C18_tag (inclusive bounds), C18_indirect, C18_nonbranch, C18_shape, C18_count_order, C18_no_option, C18_listing (the observer chain = map of the "
      "property's rule tagSpec over the listing's instructions), C18_range_read / C18_range_loaded / C18_pipeline (whole operation: the range of the rule "
      "document's config, read as hexadecimal, is the one applied; without the entry nothing is rewritten); per-instruction oracle at the "
      "range boundaries on the real code." + COMMON, "DESIGN.md 0.2, 7 C18")
claim("C19", "Theorems C19 (no @ leaf, key or value survives a successful expansion), C19_reported, C19_named; every reference position x "
      "defined-before/after/undefined on the real code." + COMMON, "DESIGN.md 0.2, 7 C19")
claim("C20", "Theorems C20_args_debug / C20_info_irrelevant (the logging options change nothing that is computed); C20_args, C20_required, C20_log, C20_exit on the model of the argparse configuration and main(); python -m jasm.main vs the API "
      "for every option combination, model vs real argparse on random command lines." + COMMON, "DESIGN.md 0.2, 7 C20",
      "argparse internals, logging handlers and exit-status conventions are runtime.")

"""What MANIFEST.json claims, per property.  A property appears in CLAIMS only once its check passes on the
unchanged tree; everything else is listed in NOT_APPLICABLE with the reason (kept current)."""

T = "Lean 4 theorem about the executable model + checked model-vs-code correspondence (differential) + spec-vs-code differential for replay"

CLAIMS = {}
NOT_APPLICABLE = {}

PENDING = "check not built yet in this session (planned: Lean model + theorem + correspondence, see DESIGN.md)"

for pid in ["C%02d" % i for i in range(1, 21)]:
    NOT_APPLICABLE[pid] = PENDING


def claim(pid, text, ref, note=""):
    CLAIMS[pid] = (T, text, ref, note)
    NOT_APPLICABLE.pop(pid, None)


claim("C01", "Correspondence (regex text, stream, match results, all on the real code) plus the window specification evaluated in Lean and independently in Python on every case; Lean theorems for the model are stated in lean/Jasm/Properties/C01.lean.", "DESIGN.md 7 C01")
claim("C02", "As C01 with repetitions in both spellings; denotational specification (iterDen) vs implementation verdict and matched texts; unrolling metamorphic check.", "DESIGN.md 7 C02")
claim("C03", "As C01 with nested $or/$and/$and_any_order at instruction, operand and deref level; or-split metamorphic check.", "DESIGN.md 7 C03")
claim("C04", "As C01 with $not in leading/inner/trailing/repeated/operand position.", "DESIGN.md 7 C04")
claim("C05", "As C01 with instruction- and operand-level captures on the spine; register families recorded as known findings.", "DESIGN.md 7 C05")
claim("C06", "As C01 for $deref over the 8 field combinations and near-miss operands through the real parser.", "DESIGN.md 7 C06")
claim("C07", "Alignment of every reported match and address checked on the implementation's outputs and against the specification's scan.", "DESIGN.md 7 C07")
claim("C11", "All-matches / first-match texts vs the specification's leftmost non-overlapping scan.", "DESIGN.md 7 C11")
claim("C12", "The property's equations checked on the implementation's outputs in all 8 mode combinations, and each output against the model.", "DESIGN.md 7 C12")

claim("C08", "Stream of the real pipeline vs expected (address, mnemonic) per instruction line over the validated objdump grammar, vs the model stream on grammar / mutated / real objdump / test listings.", "DESIGN.md 7 C08")
claim("C09", "Operand normal forms of the Lean specification (cross-checked by an independent Python table) vs the decoded real stream for every AT&T operand form.", "DESIGN.md 7 C09")
claim("C10", "The real stream must decode to exactly the instruction list the real parser hands over; streams compared with the model's encoding; injectivity watched over all streams of the run.", "DESIGN.md 7 C10")
claim("C13", "Regex of the macro rule = regex of the inlined rule on the real code for random factorings in all supported use forms; definitions deep-compared before/after; expanded tree vs the model.", "DESIGN.md 7 C13")
claim("C14", "Random operation sequences in one interpreter vs each operation alone in a fresh interpreter and vs the model's state machine.", "DESIGN.md 7 C14")
claim("C15", "Binary route vs text route on objdump's own output for random multi-section objects; objdump argv logged through a PATH shim vs the model's objdumpArgs.", "DESIGN.md 7 C15")
claim("C16", "Pairs of listings with equal instruction sequences and random presentation edits: equal real streams and results; model stream compared.", "DESIGN.md 7 C16")
claim("C17", "Each listed fault injected alone into a found baseline, assembly and binary, bool and list modes: must raise; outcome class vs the model.", "DESIGN.md 7 C17")
claim("C18", "Per-instruction tagging oracle at the range boundaries, untouched instructions unchanged, `call: [valid_addr]` reports exactly the tagged calls; stream vs the model.", "DESIGN.md 7 C18")
claim("C19", "Every reference position x defined-before/after/undefined: compile fails naming the macro or the regex contains no @; outcome and regex vs the model.", "DESIGN.md 7 C19")
claim("C20", "python -m jasm.main in a scratch directory vs the API for every option combination; argument rules and non-zero exit on failure.", "DESIGN.md 7 C20")

"""Run complete operations in a FRESH interpreter: reads a JSON list of operations on stdin, runs only the
LAST one unless "all" is set, prints the JSON result(s).  Used by C14 (fresh-process reference)."""
import json, sys, os
sys.path.insert(0, os.path.dirname(os.path.abspath(__file__)))
import impl  # noqa: E402


def run_one(sc, op):
    return impl.run_op(sc, op["doc"], op.get("text"), mode=op["mode"], addr_only=op["addr_only"], ret=op["ret"],
                       macro_docs=op.get("macro_docs", ()), binary_path=op.get("binary_path"))


def main():
    spec = json.load(sys.stdin)
    sc = impl.Scratch()
    try:
        out = [run_one(sc, op) for op in spec["ops"]]
        print(json.dumps(out))
    finally:
        sc.close()


if __name__ == "__main__":
    main()

#!/usr/bin/env python3
"""mkseedprompt.py <round> <Cxx>...  -- writes /tmp/seedprompts/<Cxx>.txt and creates the scratch worktree /tmp/wt<round>-<cxx>.
The prompt holds ONLY the property text and, to avoid repeats, the inputs earlier seeds of the same property needed."""
import json, os, subprocess, sys, glob
rnd, props = sys.argv[1], sys.argv[2:]
P = {json.loads(l)["id"]: json.loads(l) for l in open("/verif/properties.jsonl")}
os.makedirs("/tmp/seedprompts", exist_ok=True)
for pid in props:
    p = P[pid]
    wt = "/tmp/wt%s-%s" % (rnd, pid.lower())
    if not os.path.isdir(wt):
        subprocess.run(["git", "-C", "/repo", "worktree", "add", "--detach", wt, "HEAD"], check=True, capture_output=True)
    tried = []
    for m in sorted(glob.glob("/verif/seeded/*/meta.json")):
        d = json.load(open(m))
        if d.get("breaks_property") == pid:
            tried.append(d.get("needs_to_manifest", ""))
    demo = "demo_%s.py" % pid.lower()
    t = f"""You are helping to evaluate a verification harness for the Python project JASM (a CLI that compiles a YAML pattern DSL into a regex and matches it against objdump assembly).

Your own scratch git worktree of the project is at {wt} (a checkout of the current commit). Work ONLY inside {wt}. Do not look at or touch /repo, /verif or any other worktree. Do not edit anything under tests/. Do not commit.

The project has this semantic property, which is supposed to hold for every input:

  {pid}: {p['title']}
  {p['statement']}
  Quantifier: {p['quantifier']['text']}
  Code it lives in: {', '.join(p['anchors']['files'])}

Your task: make ONE small, subtle, realistic change to the source under {wt}/src (the kind of change a maintainer might make by mistake during a refactoring or a 'harmless' clean-up) that BREAKS this property for some inputs. Prefer a change that needs something specific to manifest - a multi-step sequence of operations in one process, an unusual but legitimate input, a particular combination of options, or two cooperating sites that each look fine alone - rather than one that ordinary use would expose at once. The change must satisfy:
  * the package still imports, and
  * the existing test suite gives exactly the same result as before your change. Run it with:
      cd {wt} && PYTHONPATH={wt}/src /venv/bin/python -m pytest -q -p no:cacheprovider
    The unchanged tree gives "3 failed, 129 passed" (the 3 failures are known and must stay the same 3); after your change it must still be "3 failed, 129 passed".

Changes that were already tried for this property (each listed by the input it needs) - do something DIFFERENT from all of them, in a different function or mechanism, preferably in a part of the code path none of them touched:
""" + "".join("   - %s\n" % x for x in tried) + f"""
Across all properties, changes that introduce state shared between operations of one process (class attributes, mutable default arguments, values parked in the configuration singleton, caches keyed by path) and changes to the consumer's observer loop have already been tried many times: prefer a different kind of mechanism - one inside the logic the property is about.

IMPORTANT: run everything with PYTHONPATH={wt}/src so that your copy of the package is imported (check with: PYTHONPATH={wt}/src /venv/bin/python -c "import jasm; print(jasm.__file__)").

Then write a demonstration script {wt}/{demo} that uses only the public API (from jasm.match import MasterOfPuppets; from jasm.global_definitions import MatchConfig, InputFileType, MatchingReturnMode, MatchingSearchMode  -- read the source for the exact names -- or the `python -m jasm.main` command line), writes its rule and listing files into a tempfile.mkdtemp() directory, and exits with status 1 when the property is violated and 0 when it holds. It must exit 1 with your change and 0 on the unchanged code (verify both: `git stash` / `git stash pop`, or `git diff -- src > patch.diff; git checkout -- src; ...; git apply patch.diff`).

Leave the change applied (uncommitted) in the worktree, save `git diff -- src` as {wt}/patch.diff, and remove any temporary directories your demo created under /tmp. Report: the patch, why it breaks the property, what an input needs in order to show it, and the commands you ran with their results.
"""
    open("/tmp/seedprompts/%s.txt" % pid, "w").write(t)
    print(pid, wt, len(tried), "earlier seeds")

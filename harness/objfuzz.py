"""Real objdump output for random code bytes (environment validation T5, C08/C10/C15)."""
import os, re, subprocess

PREFIX_BYTES = [0x66, 0x67, 0xf0, 0xf2, 0xf3, 0x2e, 0x3e, 0x48, 0x49, 0x4c, 0x40, 0x41, 0x0f, 0xc4, 0xc5, 0x62, 0x70, 0x7f, 0xe8, 0xe9, 0xeb, 0xff]


def random_bytes(g, n):
    out = []
    for _ in range(n):
        out.append(g.pick(PREFIX_BYTES) if g.chance(0.3) else g.int(0, 255))
    return out


def assemble(scratch, sections, name="obj"):
    """sections: list of (name, [bytes]); returns path of an ELF object"""
    src = []
    for sec, byts in sections:
        src.append('.section %s,"ax",@progbits' % sec if sec != ".text" else ".text")
        for i in range(0, len(byts), 16):
            src.append(".byte " + ",".join(str(b) for b in byts[i:i + 16]))
    spath = os.path.join(scratch.dir, name + ".S")
    opath = os.path.join(scratch.dir, name + ".o")
    with open(spath, "w") as f:
        f.write("\n".join(src) + "\n")
    subprocess.run(["as", "-o", opath, spath], check=True, capture_output=True)
    return opath


def objdump(path, sections=()):
    args = ["objdump", "-d", "-M", "att"]
    for s in sections:
        args += ["-j", s]
    p = subprocess.run(args + [path], capture_output=True, text=True)
    return p.returncode, p.stdout, p.stderr


INST_LINE = re.compile(r"^ *([0-9a-f]+):\t((?:[0-9a-f]{2} )+) *\t(.*)$")
CONT_LINE = re.compile(r"^ *([0-9a-f]+):\t((?:[0-9a-f]{2} )+) *$")
LABEL_LINE = re.compile(r"^[0-9a-f]+ <.*>:$")


def classify(line):
    """independent reading of one objdump output line: ('inst', addr, first token) | other kinds"""
    m = INST_LINE.match(line)
    if m:
        rest = m.group(3).replace("data16 ", "")
        tok = rest.split(" ")[0] if rest else ""
        return ("inst", m.group(1), tok, rest)
    if CONT_LINE.match(line):
        return ("cont",)
    if LABEL_LINE.match(line):
        return ("label",)
    if line == "":
        return ("blank",)
    if "file format" in line:
        return ("header",)
    if line.startswith("Disassembly of section"):
        return ("section",)
    if line == "\t...":
        return ("dots",)
    return ("unknown", line)

"""Real objdump output for random code bytes (environment validation T5, C08/C10/C15)."""
import os, re, subprocess

PREFIX_BYTES = [0x66, 0x67, 0xf0, 0xf2, 0xf3, 0x2e, 0x3e, 0x48, 0x49, 0x4c, 0x40, 0x41, 0x0f, 0xc4, 0xc5, 0x62, 0x70, 0x7f, 0xe8, 0xe9, 0xeb, 0xff]


def _modrm_tail(g, force_sib=False):
    """ModRM (+ SIB + displacement) bytes of one memory or register operand"""
    mod = g.pick([0, 1, 2, 3, 0, 1])
    reg, rm = g.int(0, 7), (4 if force_sib or g.chance(0.5) else g.int(0, 7))
    if mod == 3 and force_sib:
        mod = g.pick([0, 1, 2])
    out = [(mod << 6) | (reg << 3) | rm]
    base = None
    if mod != 3 and rm == 4:
        sib = g.int(0, 255)
        base = sib & 7
        out.append(sib)
    if mod == 1:
        out.append(g.pick([0x08, 0xf8, 0x40, 0x80, g.int(0, 255)]))
    elif mod == 2 or (mod == 0 and (rm == 5 or base == 5)):
        out += [g.int(0, 255), g.int(0, 255), g.pick([0, 0, 0xff, g.int(0, 255)]), g.pick([0, 0xff])]
    return out


LEGACY_OPS = [[0x01], [0x03], [0x29], [0x2b], [0x31], [0x39], [0x3b], [0x63], [0x85], [0x87], [0x89], [0x8b], [0x8d],
              [0x0f, 0xaf], [0x0f, 0xb6], [0x0f, 0xbe], [0x0f, 0x10], [0x0f, 0x11], [0x0f, 0x28], [0x0f, 0x58], [0xff], [0xf7], [0xd9], [0xdd]]
VEC_OPS = [0x10, 0x11, 0x14, 0x28, 0x29, 0x51, 0x54, 0x58, 0x59, 0x5c, 0x5e, 0x6f, 0x7f, 0xc6, 0x92, 0x93, 0x18, 0x19]


def instruction_bytes(g):
    """bytes shaped like one x86-64 instruction: legacy, VEX or EVEX (masks, zeroing, broadcast) with ModRM/SIB"""
    k = g.int(0, 9)
    if k < 4:
        pre = [g.pick([0x48, 0x49, 0x4c, 0x4d, 0x41, 0x44, 0x66])] if g.chance(0.6) else []
        if g.chance(0.15):
            pre = [g.pick([0x64, 0x65, 0x2e, 0x26])] + pre          # segment override: %fs:(%rax,%rbx,1)
        return pre + list(g.pick(LEGACY_OPS)) + _modrm_tail(g)
    if k < 6:
        if g.chance(0.5):
            head = [0xc5, g.int(0, 255)]
        else:
            head = [0xc4, (g.int(0, 7) << 5) | g.pick([1, 2, 3]), g.int(0, 255)]
        return head + [g.pick(VEC_OPS)] + _modrm_tail(g)
    # EVEX: 62 P0 P1 P2 opcode modrm ...; P2 carries z, L'L, b and the mask register aaa
    p0 = (g.int(0, 15) << 4) | g.pick([1, 1, 1, 1, 2, 3])
    p1 = g.int(0, 255) | 0x04
    p2 = (g.int(0, 1) << 7) | (g.int(0, 3) << 5) | (g.int(0, 1) << 4) | (g.int(0, 1) << 3) | g.pick([0, 1, 2, 7, g.int(0, 7)])
    return [0x62, p0, p1, p2, g.pick(VEC_OPS)] + _modrm_tail(g, force_sib=g.chance(0.6))


def random_bytes(g, n):
    """code bytes: a mix of uniformly random bytes, common prefixes, instruction-shaped groups and zero runs"""
    out = []
    while len(out) < n:
        k = g.int(0, 99)
        if k < 30:
            out.append(g.pick(PREFIX_BYTES) if g.chance(0.3) else g.int(0, 255))
        elif k < 94:
            out += instruction_bytes(g)
        else:
            out += [0] * g.int(2, 12)
    return out[:n] if g.chance(0.5) else out


def assemble(scratch, sections, name="obj"):
    """sections: list of (name, [bytes]); returns path of an ELF object"""
    src = []
    for sec, byts in sections:
        src.append('.section "%s","ax",@progbits' % sec if sec != ".text" else ".text")
        for i in range(0, len(byts), 16):
            src.append(".byte " + ",".join(str(b) for b in byts[i:i + 16]))
    spath = os.path.join(scratch.dir, name + ".S")
    opath = os.path.join(scratch.dir, name + ".o")
    with open(spath, "w") as f:
        f.write("\n".join(src) + "\n")
    subprocess.run(["as", "-o", opath, spath], check=True, capture_output=True)
    return opath


def link(scratch, obj_path, text_addr, name="linked"):
    """link an object at a chosen .text address (executables at high addresses are printed flush-left by objdump)"""
    out = os.path.join(scratch.dir, name + ".elf")
    p = subprocess.run(["ld", "-o", out, "-Ttext=0x%x" % text_addr, "-e", "0", obj_path], capture_output=True, text=True)
    return out if p.returncode == 0 and os.path.exists(out) else None


def objdump(path, sections=()):
    args = ["objdump", "-d", "-M", "att"]
    for s in sections:
        args += ["-j", s]
    p = subprocess.run(args + [path], capture_output=True, text=True)
    return p.returncode, p.stdout, p.stderr


INST_LINE = re.compile(r"^ *([0-9a-f]+):\t((?:[0-9a-f]{2} )+) *\t(.*)$")
CONT_LINE = re.compile(r"^ *([0-9a-f]+):\t((?:[0-9a-f]{2} )+) *$")
LABEL_LINE = re.compile(r"^[0-9a-f]+ <.*>:$")


def classify(line):
    """independent reading of one objdump output line: ('inst', addr, first token) | other kinds"""
    m = INST_LINE.match(line)
    if m:
        rest = m.group(3).replace("data16 ", "")
        tok = rest.split(" ")[0] if rest else ""
        return ("inst", m.group(1), tok, rest)
    if CONT_LINE.match(line):
        return ("cont",)
    if LABEL_LINE.match(line):
        return ("label",)
    if line == "":
        return ("blank",)
    if "file format" in line:
        return ("header",)
    if line.startswith("Disassembly of section"):
        return ("section",)
    if line == "\t...":
        return ("dots",)
    return ("unknown", line)

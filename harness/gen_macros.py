"""Factoring macro-free rules into macros in the supported use forms (C13) and reference positions (C19)."""
import copy
import gen_rules


class Factor:
    def __init__(self, g):
        self.g = g
        self.macros = []
        self.n = 0
        self.forms = []

    def fresh(self):
        self.n += 1
        # names pairwise not contained in one another
        return "@m%d_" % self.n

    def add(self, name, pattern, args=None):
        m = {"name": name, "pattern": pattern}
        if args:
            m["args"] = args
        self.macros.append(m)

    def item(self, it, depth=0):
        """returns the item rewritten with macros (the original is what inlining must give back)"""
        g = self.g
        k = g.int(0, 99)
        if isinstance(it, str):
            if it.startswith("&") or it.startswith("$"):
                return it
            if k < 25:
                name = self.fresh()
                self.add(name, [it])                       # whole-item macro with a string body
                self.forms.append("whole-item(str)")
                return name
            if k < 45 and len(it) >= 2:
                name = self.fresh()
                cut = g.int(1, len(it) - 1)
                where = g.int(0, 2)
                if where == 0 or "@" in it:
                    self.add(name, it[:cut])                # string macro used inside a name: at its start,
                    self.forms.append("substring")
                    return name + it[cut:]
                if where == 1:
                    self.add(name, it[cut:])                # ... at its end (the use does not start with @),
                    self.forms.append("substring-suffix")
                    return it[:cut] + name
                a = g.int(0, cut)
                self.add(name, it[a:cut])                   # ... or in the middle
                if not it[a:cut]:
                    self.macros.pop()
                    return it
                if it.count(it[a:cut]) > 1:
                    # the factored text occurs several times in the name: every occurrence becomes a reference
                    self.forms.append("substring-repeated")
                    return it.replace(it[a:cut], name)
                self.forms.append("substring-middle")
                return it[:a] + name + it[cut:]
            if k < 55:
                name = self.fresh()
                self.add(name, it)                          # string macro, whole string
                self.forms.append("whole-string")
                return name
            return it
        if isinstance(it, dict):
            key = next(iter(it))
            body = it[key]
            if k < 20 and depth < 2:
                name = self.fresh()
                inner = self.item(copy.deepcopy(it), depth + 1) if g.chance(0.3) else copy.deepcopy(it)
                self.add(name, [inner])                     # whole-item macro with a subtree body (maybe nested macros)
                self.forms.append("whole-item(tree)")
                return name
            if k < 35 and isinstance(body, dict) and set(body.keys()) == {"times"} and not key.startswith("$"):
                name = self.fresh()
                self.add(name, key)                         # string macro in key position with a times body
                self.forms.append("key-with-times")
                return {name: body}
            if k < 55 and isinstance(body, list) and not key.startswith("$") and len(it) == 1:
                strs = [i for i, x in enumerate(body) if isinstance(x, (str, int)) and not str(x).startswith("&")]
                if strs:
                    name = self.fresh()
                    i = g.pick(strs)
                    formal = "macro-arg%d" % self.n
                    tmpl = copy.deepcopy(it)
                    val = tmpl[key][i]
                    tmpl[key] = [formal if x == val else x for x in tmpl[key]]
                    if all(x != formal for x in body):
                        self.add(name, [tmpl], args=[formal])   # parameterised macro
                        how = g.int(0, 2)
                        if how == 0:
                            self.forms.append("parameterised")
                            return {name: {formal: val}}         # argument nested under the macro key
                        if how == 1:
                            self.forms.append("parameterised-sibling")
                            return {name: None, formal: val}     # `- "@m":` / `  arg: v` (the spelling of the shipped rules)
                        self.forms.append("parameterised-sibling-arg-first")
                        return {formal: val, name: None}         # a mapping: the order of its keys must not matter
            if isinstance(body, list):
                d = dict(it)
                d[key] = [self.item(x, depth + 1) for x in body]
                return d
            if key == "$deref" and isinstance(body, dict):
                # string macros in dictionary-VALUE position (the fields of a $deref): whole value or part of the name
                d = {key: dict(body)}
                for fk, fv in body.items():
                    if isinstance(fv, str) and len(fv) >= 2 and "@" not in fv and not fv.startswith(("&", "$")) and g.chance(0.5):
                        name = self.fresh()
                        cut = g.int(1, len(fv) - 1)
                        how = g.int(0, 2)
                        if how == 0:
                            self.add(name, fv)
                            d[key][fk] = name
                            self.forms.append("dict-value-whole")
                        elif how == 1:
                            self.add(name, fv[cut:])
                            d[key][fk] = fv[:cut] + name
                            self.forms.append("dict-value-suffix")
                        else:
                            self.add(name, fv[:cut])
                            d[key][fk] = name + fv[cut:]
                            self.forms.append("dict-value-prefix")
                return d
        return it


def factor(g, doc):
    """(rule with macros, list of macro-file documents, forms used)"""
    f = Factor(g)
    pat = [f.item(copy.deepcopy(it)) for it in doc["pattern"]]
    macros = f.macros
    # a macro must be listed before the macros its body refers to: outer ones were created last
    macros = list(reversed(macros))
    files = []
    if macros and g.chance(0.4):
        cut = g.int(0, len(macros))
        files_macros, macros = macros[:cut], macros[cut:]
        if files_macros:
            if len(files_macros) > 1 and g.chance(0.5):
                h = len(files_macros) // 2
                files = [{"macros": files_macros[:h]}, {"macros": files_macros[h:]}]
            else:
                files = [{"macros": files_macros}]
    d = {k: v for k, v in doc.items() if k != "pattern"}
    if macros:
        d["macros"] = macros
    d["pattern"] = pat
    return d, files, f.forms

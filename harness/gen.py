"""Generators: instruction listings (objdump AT&T text) and rule documents, all from one PRNG."""
import random

REG64 = ["rax", "rbx", "rcx", "rdx", "rsi", "rdi", "rbp", "rsp", "r8", "r9", "r10", "r11", "r12", "r13", "r14", "r15"]
REG32 = ["eax", "ebx", "ecx", "edx", "esi", "edi", "ebp", "esp", "r8d", "r9d", "r10d", "r11d", "r12d", "r13d", "r14d", "r15d"]
REG16 = ["ax", "bx", "cx", "dx", "si", "di", "bp", "sp", "r8w", "r9w", "r10w", "r11w", "r12w", "r13w", "r14w", "r15w"]
REG8 = ["al", "bl", "cl", "dl", "sil", "dil", "bpl", "spl", "r8b", "r9b", "r10b", "r11b", "r12b", "r13b", "r14b", "r15b", "ah", "bh", "ch", "dh"]
ALLREGS = REG64 + REG32 + REG16 + REG8
MNEMS = ["mov", "movq", "movl", "add", "sub", "push", "pop", "call", "ret", "jmp", "lea", "xor", "nop", "cmp", "test",
         "and", "or", "shl", "inc", "leave", "cmov", "je", "jne", "imul", "syscall"]
NOOP_MNEMS = ["ret", "nop", "leave", "syscall", "cltq", "hlt"]
SMALL_MNEMS = ["mov", "add", "push", "ret", "call"]


class G:
    """All random choices of a run derive from this one PRNG."""

    def __init__(self, seed):
        self.r = random.Random(seed)

    def pick(self, xs):
        return xs[self.r.randrange(len(xs))]

    def chance(self, p):
        return self.r.random() < p

    def int(self, lo, hi):
        return self.r.randint(lo, hi)

    # ---------------------------------------------------------------- operands (AT&T print form)
    def reg(self, pool=None):
        return "%" + self.pick(pool or ALLREGS)

    def imm(self):
        return "$" + self.hexnum()

    def hexnum(self):
        # small values whose last hex digits are also letters/digits of register names (a-e, 8-15) are frequent in real
        # code (0x1b(%rbp), 0x18(%r8)) and are where text-level operand rewriting goes wrong
        v = self.pick([0, 1, 2, 8, 0x10, 0x18, 0x1c, 0xff, 0x100, 0x1000, self.int(0, 0xffff), self.int(0, 2**32),
                       self.int(0, 0xff), self.int(0, 0xff), 0x1b, 0x2a, 0xd, 0xc, 0x3e, 0x115])
        return hex(v)

    def disp(self):
        d = self.hexnum()
        return ("-" + d) if self.chance(0.3) else d

    def mem(self):
        form = self.int(0, 4)
        a, b = self.reg(REG64), self.reg(REG64)
        if self.chance(0.12):
            # index registers with long names: gather/scatter vector indexes, 32-bit addressing with extended registers
            b = "%" + self.pick(["ymm1", "xmm12", "zmm31", "r10d", "r15d", "ymm0"])
            if self.chance(0.4):
                a = "%" + self.pick(["r10d", "r13d", "eax"])
        c = str(self.pick([1, 2, 4, 8]))
        if form == 0:
            return "%s(%s,%s,%s)" % (self.disp(), a, b, c)
        if form == 1:
            return "(%s,%s,%s)" % (a, b, c)
        if form == 2:
            return "%s(,%s,%s)" % (self.disp(), b, c)
        if form == 3:
            return "%s(%s)" % (self.disp(), a)
        return "(%s)" % a

    def target(self):
        # targets whose hexadecimal spelling has letters only read like words (dead, face, add, bbd)
        t = "%x" % self.pick([0x10, 0x33, 0x401000, 0x401005, self.int(0, 0xfffff), 0xdead, 0xface, 0xadd, 0xbbd, 0xefcd, 0xab])
        if self.chance(0.8):
            t += " <%s%s>" % (self.pick(["main", "f", "AesExpandKey", "_start", ".L1"]), self.pick(["", "+0x10", "+0x33"]))
        return t

    def operand(self):
        k = self.int(0, 9)
        if k <= 3:
            return self.reg()
        if k <= 5:
            return self.imm()
        if k <= 8:
            return self.mem()
        return self.hexnum()

    def inst(self, addr, mnems=MNEMS):
        """(addr, mnemonic, [printed operands], comment-or-None)"""
        m = self.pick(mnems)
        if m in NOOP_MNEMS and self.chance(0.8):
            return (addr, m, [])
        if m in ("call", "jmp", "je", "jne"):
            if self.chance(0.75):
                return (addr, m, [self.target()])
            return (addr, m, ["*" + (self.reg(REG64) if self.chance(0.5) else self.mem())])
        n = self.pick([1, 2, 2, 2, 3])
        return (addr, m, [self.operand() for _ in range(n)])

    def listing(self, n, mnems=MNEMS, start=None):
        addr = start if start is not None else self.pick([0, 0x10, 0x401000, 0x7f00, self.int(0, 0xffffff)])
        out = []
        for _ in range(n):
            out.append(self.inst("%x" % addr, mnems))
            addr += self.int(1, 9)
        return out


# -------------------------------------------------------------------- rendering (objdump -d -M att)

def render_inst(inst, g=None, width=21, comment=None):
    addr, m, ops = inst[0], inst[1], inst[2]
    nbytes = g.int(1, 7) if g else 2
    byts = " ".join("%02x" % (g.int(0, 255) if g else 0x90) for _ in range(nbytes)) + " "
    head = "%s:\t%s\t" % (addr.rjust(8), byts.ljust(width))
    if ops:
        text = head + m.ljust(6) + " " + ",".join(ops)
    else:
        text = head + m
    if comment:
        text += "        # " + comment
    return text


def render_listing(insts, g=None, title="a.out:     file format elf64-x86-64", section=".text", label="f"):
    lines = ["", title, "", "", "Disassembly of section %s:" % section, ""]
    if insts:
        lines.append("%016x <%s>:" % (int(insts[0][0], 16), label))
    for i in insts:
        lines.append(render_inst(i, g))
    return "\n".join(lines) + "\n"


# -------------------------------------------------------------------- decoding the stream

def decode_stream(stream):
    """Inverse of the stream encoding (C10): list of (addr, mnemonic, [operands]) or None."""
    if stream == "":
        return []
    if not stream.endswith("|"):
        return None
    out = []
    for rec in stream[:-1].split("|"):
        if "::" not in rec:
            return None
        addr, body = rec.split("::", 1)
        if not body.endswith(","):
            return None
        fields = body[:-1].split(",")
        if len(fields) < 2:
            return None
        ops = fields[1:]
        if ops == [""]:
            ops = []
        out.append((addr, fields[0], ops))
    return out

#!/bin/sh
# sweep.sh <seed>...  -- every quick check on the tree as it is, once per seed; prints only lines that need attention
cd "$(dirname "$0")/.." || exit 2
for s in "$@"; do
  for p in C01 C02 C03 C04 C05 C06 C07 C08 C09 C10 C11 C12 C13 C14 C15 C16 C17 C18 C19 C20; do
    out=$(VERIF_SEED=$s ./check $p quick 2>&1); rc=$?
    [ $rc -ne 0 ] && { echo "seed=$s $p rc=$rc"; echo "$out" | grep -E "VIOLATION|HARNESS|NOTE" | cut -c1-200; }
  done
  echo "seed $s done"
done

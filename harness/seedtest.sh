#!/bin/sh
# seedtest.sh <seed-id> <worktree> <demo-file> <property> [more properties...]
# Confirms a seeded change (suite unchanged, demo fails with / passes without), stores it under
# /verif/seeded/<id>/ and runs the named checks against /repo with the change applied.
id=$1; wt=$2; demo=$3; shift 3
out=/verif/seeded/$id
mkdir -p $out
cd $wt || exit 2
git diff -- src > $out/patch.diff
cp $demo $out/ 2>/dev/null
export PYTHONPATH=$wt/src
suite=$(/venv/bin/python -m pytest -q -p no:cacheprovider 2>&1 | tail -1)
/venv/bin/python $demo >/dev/null 2>&1; with=$?
git stash -q
/venv/bin/python $demo >/dev/null 2>&1; without=$?
git stash pop -q
unset PYTHONPATH
echo "suite-with-change: $suite ; demo exit with change: $with ; without: $without"
cd /verif
git -C /repo apply $out/patch.diff || { echo "patch does not apply to /repo"; exit 2; }
res=""
for p in "$@"; do
  line=$(./check $p quick 2>&1 | grep -E 'VIOLATION|HARNESS|KNOWN|quick seed' | tr '\n' ' ')
  echo "$p: $line"
  res="$res$p: $line\n"
done
git -C /repo checkout -- .
git -C /repo status --short
{ echo "suite-with-change: $suite"; echo "demo exit with change: $with, without: $without"; printf "%b" "$res"; } > $out/run.txt

"""Rule-document generators (one per property domain) and a realiser that builds listings which a
pattern is likely to match (verdicts are always decided by the Lean specification, never here)."""
from gen import G, MNEMS, REG64, REG32, ALLREGS, NOOP_MNEMS

LIT_MNEMS = ["mov", "ov", "mo", "add", "sub", "push", "pop", "call", "ret", "jmp", "lea", "xor", "nop", "cmp",
             "j", "movq", "e", "test", "and", "or"]
LIT_OPS = ["rax", "%rax", "eax", "ax", "%rbx", "rbx", "rcx", "%ecx", "r8", "%r8", "%r8d", "0x10", "0x1", "10", "0",
           "rsp", "%rsp", "rbp", "rdi", "%rsi", "al", "0xff", "x", "%", 0, 1, 10, 8,
           # names that END in hex digits + h but are not of the form [0-9a-f]+h (the 8-bit high registers with their %):
           # ordinary names, not assembler-style hexadecimal literals
           "%bh", "%ah", "%ch", "%dh", "r8h", "xah"]


def times_obj(g, allow_zero=True):
    k = g.int(0, 5)
    if k <= 1:
        return g.pick([0, 1, 2, 3] if allow_zero else [1, 2, 3])
    lo = g.int(0 if allow_zero else 1, 2)
    hi = lo + g.int(0, 2)
    if k == 2:
        return {"min": lo, "max": hi}
    if k == 3:
        return {"max": max(hi, 1)}          # min defaults to 1
    if k == 4:
        return {"min": g.pick([0, 1])}      # max defaults to 1
    return {"min": lo, "max": hi}


def with_times(g, node, p=0.35):
    """Attach a repetition to an item/group in one of the two spellings."""
    if not g.chance(p):
        return node
    t = times_obj(g)
    if isinstance(node, str):
        return {node: {"times": t}}                 # times inside the body
    if isinstance(node, dict):
        key = next(iter(node))
        if isinstance(node[key], list):
            d = dict(node)
            d["times"] = t                          # times as sibling key
            return d
    return node


def operand_pat(g, depth, feats):
    k = g.int(0, 99)
    if depth > 0 and "ops_logic" in feats and k < 22:
        op = g.pick(["$or", "$or", "$and", "$and_any_order", "$not"] if "not" in feats else ["$or", "$or", "$and", "$and_any_order"])
        if op == "$not":
            return {"$not": [operand_pat(g, depth - 1, feats)]}
        n = g.int(1, 3) if op != "$and_any_order" else g.int(1, 3)
        node = {op: [operand_pat(g, depth - 1, feats) for _ in range(n)]}
        if "times" in feats and g.chance(0.15):
            node["times"] = times_obj(g)
        return node
    if "deref" in feats and k < 40:
        return deref_pat(g, feats)
    if "opcap" in feats and k < 60:
        return g.pick(["&a", "&b", "&c"])
    return g.pick(LIT_OPS)


def deref_pat(g, feats):
    d = {"main_reg": g.pick(["%rax", "rax", "%rsp", "rbp", "%rdi"])}
    if g.chance(0.5):
        d["register_multiplier"] = g.pick(["%rcx", "rcx", "%rax", "rdx"])
    if g.chance(0.5):
        d["constant_multiplier"] = g.pick([1, 2, 4, 8, "4", "8"])
    if g.chance(0.6):
        d["constant_offset"] = g.pick(["0x8", "8", "0x10", "-0x10", "0x1c", 0, "0x0", 16])
    if "deref_logic" in feats and g.chance(0.3):
        k = g.pick(list(d.keys()))
        d[k] = [{"$or": [d[k], g.pick(["%rbx", "rbx", "0x20", 2])]}]
    return {"$deref": d}


def item(g, depth, feats, mnems=LIT_MNEMS):
    m = g.pick(mnems)
    n = g.pick([0, 0, 1, 2, 2, 3]) if "ops" in feats else 0
    if n == 0:
        return m
    return {m: [operand_pat(g, depth, feats) for _ in range(n)]}


def inst_pat(g, depth, feats):
    k = g.int(0, 99)
    if depth > 0 and "logic" in feats and k < 30:
        ops = ["$or", "$or", "$and", "$and_any_order"]
        if "not" in feats:
            ops += ["$not", "$not"]
        op = g.pick(ops)
        if op == "$not":
            node = {"$not": [inst_pat(g, depth - 1, feats)]}
        else:
            node = {op: [inst_pat(g, depth - 1, feats) for _ in range(g.int(1, 3))]}
        if "times" in feats:
            node = with_times(g, node)
        return node
    if "instcap" in feats and k < 40:
        return g.pick(["&i", "&j"])
    it = item(g, depth, feats)
    if "times" in feats:
        it = with_times(g, it)
    return it


def rule(g, feats, nitems=None, depth=2):
    n = nitems if nitems is not None else g.int(1, 4)
    doc = {}
    cfg = {}
    if g.chance(0.5):
        cfg["mnemonics-full-match"] = g.chance(0.5)
    if g.chance(0.5):
        cfg["operands-full-match"] = g.chance(0.5)
    if cfg or g.chance(0.2):
        doc["config"] = cfg
    doc["pattern"] = [inst_pat(g, depth, feats) for _ in range(n)]
    return doc


# ------------------------------------------------------------------------------- realiser

class Realiser:
    """Builds an instruction list a pattern is likely to match; random where the pattern is silent."""

    def __init__(self, g: G, full_m=False, full_o=False):
        self.g = g
        self.full_m, self.full_o = full_m, full_o
        self.env = {}

    def mnem_for(self, name):
        name = str(name)
        if self.full_m or self.g.chance(0.4):
            return name
        cands = [m for m in MNEMS if name in m]
        return self.g.pick(cands) if cands else name + self.g.pick(["", "q", "l"])

    def op_for(self, name):
        name = str(name)
        if self.full_o or self.g.chance(0.4):
            return name
        cands = ["%" + r for r in ALLREGS if name in "%" + r] + ["$0x10", "$0x1", "$0xff", "$0x100"]
        cands = [c for c in cands if name in c.lstrip("$")]
        return self.g.pick(cands) if cands else name

    def operand(self, pat):
        """printed operand texts (a list: an operand-level group may cover several operands)"""
        g = self.g
        if isinstance(pat, (str, int)):
            s = str(pat)
            if s.startswith("&"):
                if s not in self.env:
                    self.env[s] = g.operand()
                return [self.env[s]]
            return [self.op_for(s)]
        key = next(iter(pat))
        body = pat[key]
        if key == "$or":
            return self.operand(g.pick(body))
        if key == "$and":
            return [o for p in body for o in self.operand(p)]
        if key == "$and_any_order":
            ps = list(body)
            g.r.shuffle(ps)
            return [o for p in ps for o in self.operand(p)]
        if key == "$not":
            return [g.operand()]
        if key == "$deref":
            def one(v):
                if isinstance(v, list):
                    v = g.pick(v[0]["$or"])
                return str(v)
            a = one(body["main_reg"])
            a = a if a.startswith("%") else "%" + a
            k = one(body["constant_offset"]) if "constant_offset" in body else ""
            if "register_multiplier" in body and "constant_multiplier" in body:
                b = one(body["register_multiplier"])
                b = b if b.startswith("%") else "%" + b
                return ["%s(%s,%s,%s)" % (k, a, b, one(body["constant_multiplier"]))]
            return ["%s(%s)" % (k, a)]
        return [g.operand()]

    def insts(self, pat):
        """list of (mnemonic, [printed operands])"""
        g = self.g
        if isinstance(pat, (str, int)):
            s = str(pat)
            if s.startswith("&"):
                if s not in self.env:
                    i = g.inst("0")
                    self.env[s] = (i[1], i[2])
                return [self.env[s]]
            extra = [g.operand() for _ in range(g.pick([0, 0, 1, 2, 4]))]
            return [(self.mnem_for(s), extra)]
        key = next(iter(pat))
        body = pat[key]
        t = pat.get("times") if len(pat) > 1 else None
        if isinstance(body, dict) and "times" in body:
            t, body = body["times"], []
        reps = 1
        if t is not None:
            if isinstance(t, int):
                reps = t
            else:
                lo, hi = t.get("min", 1), t.get("max", 1)
                reps = g.int(lo, max(lo, hi))
        out = []
        for _ in range(reps):
            if key == "$or":
                out += self.insts(g.pick(body))
            elif key == "$and":
                out += [i for p in body for i in self.insts(p)]
            elif key == "$and_any_order":
                ps = list(body)
                g.r.shuffle(ps)
                out += [i for p in ps for i in self.insts(p)]
            elif key == "$not":
                i = g.inst("0")
                out.append((i[1], i[2]))
            else:
                ops = [o for p in (body or []) for o in self.operand(p)]
                ops += [g.operand() for _ in range(g.pick([0, 0, 1, 1, 2, 3, 4]))]
                out.append((self.mnem_for(key), ops))
        return out


def realise(g, doc, pad=(0, 3)):
    cfg = doc.get("config") or {}
    r = Realiser(g, bool(cfg.get("mnemonics-full-match")), bool(cfg.get("operands-full-match")))
    body = []
    for p in doc["pattern"]:
        body += r.insts(p)
    pre = [(i[1], i[2]) for i in g.listing(g.int(*pad))]
    post = [(i[1], i[2]) for i in g.listing(g.int(*pad))]
    seq = pre + body + post
    addr = g.pick([0, 0x10, 0x401000, 0xabc0])
    out = []
    for m, ops in seq:
        out.append(("%x" % addr, m, ops))
        addr += g.int(1, 9)
    return out


def perturb(g, insts):
    """one near-miss edit of a listing"""
    if not insts:
        return insts
    insts = [list(i) for i in insts]
    k = g.int(0, 8)
    j = g.r.randrange(len(insts))
    if k == 8:
        # the mnemonic with one more letter (movl for mov): contained-in vs equal
        insts[j][1] = insts[j][1] + g.pick(["l", "q", "b", "x"]) if g.chance(0.7) else g.pick(["c", "v"]) + insts[j][1]
    elif k == 7 and insts[j][2]:
        # fewer operands than the item lists (down to none: the record then has one empty operand field)
        insts[j][2] = list(insts[j][2])[:g.int(0, len(insts[j][2]) - 1)]
    elif k == 0:
        del insts[j]
    elif k == 1:
        new = g.inst("0")
        insts.insert(j, [None, new[1], new[2]])
    elif k == 2 and len(insts[j][2]) >= 2:
        ops = list(insts[j][2])
        a = g.r.randrange(len(ops) - 1)
        ops[a], ops[a + 1] = ops[a + 1], ops[a]
        insts[j][2] = ops
    elif k == 3 and insts[j][2]:
        ops = list(insts[j][2])
        a = g.r.randrange(len(ops))
        ops[a] = g.operand()
        insts[j][2] = ops
    elif k == 4:
        insts[j][1] = g.pick(MNEMS)
    elif k == 5 and insts[j][2]:
        ops = list(insts[j][2])
        a = g.r.randrange(len(ops))
        ops[a] = ops[a] + g.pick(["0", "d", "1"]) if not ops[a].endswith(")") else ops[a]
        insts[j][2] = ops
    elif k == 6 and len(insts) >= 2:
        a = g.r.randrange(len(insts) - 1)
        insts[a], insts[a + 1] = insts[a + 1], insts[a]
    addr = int(insts[0][0], 16) if insts and insts[0][0] else 0x100
    out = []
    for i in insts:
        out.append(("%x" % addr, i[1], i[2]))
        addr += g.int(1, 9)
    return out

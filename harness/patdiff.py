"""Correspondence + specification differential for the pattern-language properties (C01–C07, C11, C12).

One case = (rule document, instruction listing).  For each case:
  implementation  : regex text, stream, results of the requested modes (real code, in-process)
  model           : the same through the Lean driver (`judge`), on the implementation's own decoded stream
  specification   : `foundSpec` / `scanSpec` computed from `den` in Lean (no regular expression involved)
Disagreement implementation-vs-model = broken correspondence; implementation-vs-specification inside the
property's domain = violation.
"""
import json
import gen, impl, model


def observe(ctx, doc, insts=None, text=None, macro_docs=(), modes=("bool", "all", "first"), spec_on="impl-stream"):
    """spec_on: 'impl-stream' evaluates model and specification on the implementation's own decoded stream
    (compiler/matcher properties, insensitive to the parser); 'listing' lets the model parse the listing
    (end-to-end properties: a parser deviation then shows up as a stream disagreement and in the verdict)"""
    sc, d = ctx.scratch, ctx.driver
    if text is None:
        text = gen.render_listing(insts, ctx.g)
    o = {"doc": doc, "text": text, "macro_docs": list(macro_docs)}
    rule_path = sc.write(impl.dump_yaml(doc), ".yaml")
    in_path = sc.write(text, ".s")
    kw = dict(macro_docs=macro_docs, rule_path=rule_path, input_path=in_path)
    o["impl_regex"] = impl.compile_rule(sc, doc, macro_docs)
    o["impl_stream"] = impl.run_op(sc, doc, text, ret="stream", **kw)
    if o["impl_stream"][0] != "ok":
        # the implementation raised somewhere (compiling, parsing, observing): so must the model
        rep = d.call({"op": "run", "doc": model.y2j(doc), "macroDocs": [model.y2j(m) for m in macro_docs],
                      "kind": "assembly", "text": text, "mode": "first", "addrOnly": False, "ret": "stream"})
        o["model"] = model.outcome(rep)
        return o
    dec = gen.decode_stream(o["impl_stream"][1])
    o["decoded"] = dec
    req = {"op": "judge", "doc": model.y2j(doc), "macroDocs": [model.y2j(m) for m in macro_docs]}
    if dec is not None and spec_on == "impl-stream":
        req["insts"] = [[a, m, ops] for a, m, ops in dec]
    else:
        req["text"] = text
    o["model"] = model.outcome(d.call(req))
    if "bool" in modes:
        o["impl_bool"] = impl.run_op(sc, doc, text, mode="first", ret="bool", **kw)
    if "all" in modes:
        o["impl_all"] = impl.run_op(sc, doc, text, mode="all", ret="list", **kw)
    if "first" in modes:
        o["impl_first"] = impl.run_op(sc, doc, text, mode="first", ret="list", **kw)
    if "alladdr" in modes:
        o["impl_alladdr"] = impl.run_op(sc, doc, text, mode="all", ret="list", addr_only=True, **kw)
    if "8" in modes:
        o["impl_modes"] = {}
        for ret in ("bool", "list"):
            for mode in ("first", "all"):
                for ao in (False, True):
                    o["impl_modes"]["%s/%s/%s" % (ret, mode, int(ao))] = impl.run_op(
                        sc, doc, text, mode=mode, ret=ret, addr_only=ao, **kw)
    return o


def case_of(o, extra=None):
    c = {"rule": o["doc"], "listing": o["text"]}
    if o.get("macro_docs"):
        c["macro_files"] = o["macro_docs"]
    if extra:
        c.update(extra)
    return c


def spec_texts(mr):
    """expected all-matches texts according to the specification's scan"""
    kept = mr["kept"]
    out = []
    for i, n in mr["spec"]["scan"]:
        recs = kept[i:i + n]
        out.append("".join("%s::%s,%s,|" % (a, m, ",".join(ops)) for a, m, ops in recs))
    return out


def correspondence(ctx, o, ties=("T1", "T4")):
    """model vs implementation; returns True when the case is usable for the spec comparison"""
    rep = ctx.report
    mo = o["model"]
    if mo[0] == "unsup":
        rep.unsupported += 1
        return False
    if o["impl_stream"][0] != "ok":
        # the implementation raised: the model must raise too (error class is not compared)
        if mo[0] == "ok":
            rep.disagree("T1-error", case_of(o), o["impl_stream"], "model compiles")
        return False
    if mo[0] == "err":
        rep.disagree("T1-error", case_of(o), "implementation compiles and runs", mo)
        return False
    mr = mo[1]
    ok = True
    if "T1" in ties and o["impl_regex"] != ("ok", mr["regex"]):
        rep.disagree("T1-regex-text", case_of(o), o["impl_regex"], mr["regex"])
        ok = False
    if not mr.get("wf", True):
        rep.disagree("model-wf", case_of(o), None, "compiled AST is not faithfully printable")
        ok = False
    if o.get("decoded") is None:
        rep.disagree("T3-stream-undecodable", case_of(o), o["impl_stream"][1][:300], mr["stream"][:300])
        return False
    if mr["stream"] != o["impl_stream"][1]:
        rep.disagree("T3-stream", case_of(o), o["impl_stream"][1][:300], mr["stream"][:300])
        ok = False
    if "T4" in ties:
        if "impl_all" in o and o["impl_all"] != ("ok", mr["all"]):
            rep.disagree("T4-all-matches", case_of(o), o["impl_all"], mr["all"])
            ok = False
        if "impl_first" in o and o["impl_first"] != ("ok", mr["first"]):
            rep.disagree("T4-first-match", case_of(o), o["impl_first"], mr["first"])
            ok = False
        if "impl_bool" in o and o["impl_bool"] != ("ok", bool(mr["first"])):
            rep.disagree("T4-bool", case_of(o), o["impl_bool"], bool(mr["first"]))
            ok = False
    return True


def spec_verdict(ctx, o, what="verdict"):
    """implementation's boolean vs the specification's `found`"""
    mr = o["model"][1]
    spec = mr["spec"]
    ib = o["impl_bool"]
    if ib != ("ok", spec["found"]):
        ctx.report.violate(what, case_of(o), {"found": spec["found"], "scan": spec["scan"]},
                           {"found": ib}, model_agrees_with_spec=(bool(mr["first"]) == spec["found"]))
        return False
    return True


def spec_scan(ctx, o, what="scan"):
    """implementation's all-matches texts vs the specification's scan (patterns that cannot match
    the empty sequence only)"""
    mr = o["model"][1]
    spec = mr["spec"]
    if any(n == 0 for _, n in spec["scan"]) or spec.get("nullable"):
        ctx.report.dist["nullable-pattern(excluded from scan comparison)"] += 1
        return True
    exp = spec_texts(mr)
    if o["impl_all"] != ("ok", exp):
        ctx.report.violate(what, case_of(o), {"matches": exp}, {"matches": o["impl_all"]},
                           model_agrees_with_spec=(mr["all"] == exp))
        return False
    if "impl_first" in o and o["impl_first"] != ("ok", exp[:1]):
        ctx.report.violate(what + "-first", case_of(o), {"matches": exp[:1]}, {"matches": o["impl_first"]},
                           model_agrees_with_spec=(mr["first"] == exp[:1]))
        return False
    return True

#!/bin/sh
# runall.sh [quick|thorough]  -- every check once on the tree as it is (sequentially: they share the Lean build lock and the cores)
tier=${1:-quick}
cd "$(dirname "$0")/.." || exit 2
git -C /repo status --short | grep -q . && echo "WARNING: /repo has uncommitted changes"
rc=0
for p in C01 C02 C03 C04 C05 C06 C07 C08 C09 C10 C11 C12 C13 C14 C15 C16 C17 C18 C19 C20; do
  ./check $p $tier 2>&1 | grep -E "VIOLATION|HARNESS|$tier seed" | cut -c1-200
done

"""LineSpec generators (the environment grammar of objdump -d -M att) and presentation edits."""
from gen import G, REG64, REG32, REG16, REG8, MNEMS, NOOP_MNEMS

GPR = REG64 + REG32 + REG16 + REG8


def operand(g, kinds=("imm", "reg", "mem", "target")):
    k = g.pick(kinds)
    if k == "imm":
        return {"k": "imm", "v": g.hexnum()}
    if k == "reg":
        return {"k": "reg", "r": g.pick(GPR)}
    if k == "target":
        return {"k": "target", "h": "%x" % g.pick([g.int(0, 0xffffff), g.int(0, 0xffffff), 0xdead, 0xface, 0xadd, 0xbbd, 0xefcd, 0xab, 0xb])}
    if k == "star":
        return {"k": "star", "r": g.pick(REG64)}
    form = g.int(0, 4)
    a, b, c = "%" + g.pick(REG64), "%" + g.pick(REG64), str(g.pick([1, 2, 4, 8]))
    if g.chance(0.12):
        b = "%" + g.pick(["ymm1", "xmm12", "zmm31", "r10d", "r15d", "ymm0"])
        if g.chance(0.4):
            a = "%" + g.pick(["r10d", "r13d", "eax"])
    disp = g.disp()
    o = {"k": "mem"}
    if form == 0:
        o.update(disp=disp, a=a, b=b, c=c)
    elif form == 1:
        o.update(a=a, b=b, c=c)
    elif form == 2:
        o.update(disp=disp, b=b, c=c)
    elif form == 3:
        o.update(disp=disp, a=a)
    else:
        o.update(a=a)
    return o


def hexbytes(g, nb):
    """raw-byte column; other disassemblers' and hand-edited listings write the digits in upper case (the line regexes accept both)"""
    fmt = "%02X" if g.chance(0.15) else "%02x"
    return "".join(fmt % g.pick([g.int(0, 255), g.int(0xa0, 0xff), 0xff, 0x0f]) for _ in range(nb))


# comment texts that look like OTHER kinds of listing lines (file-format header, section header, elision, label):
# an instruction line stays an instruction line whatever its comment says
LONG_TEXT = "std::__detail::_Map_base<" + "std::pair<int const, std::vector<long> >, " * 30 + "true>::operator[](int const&)+0x1f"     # > 1000 characters

LOOKALIKE_COMMENTS = ["4020 <msg>  (elf file format string)", "file format elf64-x86-64", "Disassembly of section .text:", "...",
                      "0000000000401000 <f>:", "see section .data"]


def inst_line(g, addr, mnems=MNEMS):
    m = g.pick(mnems)
    nb = g.int(1, 7) if g.chance(0.9) else g.int(8, 15)      # `--insn-width` listings carry more than 7 bytes per line
    byts = hexbytes(g, nb)
    line = {"k": "inst", "indent": g.pick([2, 2, 2, 0, 1, 4, 8]), "addr": "%x" % addr, "bytes": byts,
            "pad": g.pick([max(0, 21 - 3 * nb), 0, 1, 5]), "mnem": m, "gap": 1, "ops": [], "annot": None, "comment": None}
    if m in NOOP_MNEMS and g.chance(0.8):
        pass
    elif m in ("call", "jmp", "je", "jne") and g.chance(0.7):
        line["ops"] = [operand(g, ("target",))]
        if g.chance(0.8):
            line["annot"] = g.pick(["main", "f+0x10", "AesExpandKey+0x33", "_init", ".L2", "operator new(unsigned long)+0x10",
                                    "std::vector<int>::size() const+0x4", "foo#bar", "a,b", "x y"])
    else:
        line["ops"] = [operand(g) for _ in range(g.pick([1, 2, 2, 3]))]
    if line["ops"]:
        line["gap"] = max(1, 7 - len(m)) if g.chance(0.8) else g.int(1, 4)
    if g.chance(0.1):
        line["mnem"] = "(bad)"
        line["ops"] = []
        line["annot"] = None
    if g.chance(0.15):
        line["comment"] = g.pick(["0x404040 <x>", "comment", "4010 <y+0x8>"] + LOOKALIKE_COMMENTS)
        if g.chance(0.1):
            line["comment"] = "401000 <" + LONG_TEXT + ">"          # very long demangled names make very long lines
    if g.chance(0.15):
        # binutils <= 2.38 pads every mnemonic to a fixed column, operands or not: blanks at the end of the line
        line["trail"] = g.int(1, 6)
    return line, nb


def listing(g, n, decorate=True):
    lines = []
    if decorate:
        lines += [{"k": "blank"}, {"k": "header", "name": "a.out", "format": "elf64-x86-64"}, {"k": "blank"}, {"k": "blank"},
                  {"k": "sect", "name": ".text"}, {"k": "blank"}]
    addr = g.pick([0, 0x1000, 0x401000, g.int(0, 0xffffff), 0x7ffff7dd1000, 0xffffffff81000000, 9, 0xf])
    if decorate:
        lines.append({"k": "label", "addr": "%016x" % addr, "name": "f"})
    for _ in range(n):
        l, nb = inst_line(g, addr)
        lines.append(l)
        addr += nb
        if decorate and g.chance(0.12):
            # the bytes of a long instruction wrap onto one, two or three continuation lines (--insn-width, 15-byte instructions)
            for _k in range(g.pick([1, 1, 2, 2, 3])):
                lines.append({"k": "cont", "indent": 2, "addr": "%x" % addr, "bytes": "".join("%02x" % g.int(0, 255) for _ in range(g.int(1, 3)))})
                addr += 1
        if decorate and g.chance(0.07):
            lines += [{"k": "blank"}, {"k": "label", "addr": "%016x" % addr, "name": g.pick(["g", "h", "k.part.0", "operator+(a const&)", "_ZN3FooC1Ev", "x y", "f@plt"])}]
        if decorate and g.chance(0.03):
            lines.append({"k": "dots"})
    # listings of relocatable objects restart their addresses per section: exactly repeated lines occur
    insts = [l for l in lines if l["k"] == "inst"]
    if insts and g.chance(0.3):
        if decorate:
            lines += [{"k": "blank"}, {"k": "sect", "name": ".text.startup"}, {"k": "blank"},
                      {"k": "label", "addr": "%016x" % int(insts[0]["addr"], 16), "name": "g"}]
        k = g.int(1, len(insts))
        lines += [dict(l) for l in insts[:k]]
    return lines


def presentation_edit(g, lines):
    """the same instruction sequence, presented differently (C16)"""
    out = []
    for l in lines:
        if l["k"] != "inst":
            if g.chance(0.5):
                continue                        # drop labels, blanks, headers, continuations
            out.append(l)
            continue
        l = dict(l)
        if g.chance(0.5):
            l["indent"] = g.int(0, 9)
        if g.chance(0.5):
            nb = g.int(1, 9)
            l["bytes"] = hexbytes(g, nb)
        if g.chance(0.5):
            l["pad"] = g.int(0, 30)
        if g.chance(0.4) and l["ops"]:
            l["annot"] = g.pick([None, "sym", "other+0x4", "ns::f(int, char*)+0x8", "t<a>::g()", "h # not a comment", LONG_TEXT])
        if g.chance(0.4):
            l["comment"] = g.pick([None, "a comment", "0x1234 <z>", "401000 <k+0x10>, x", "# nested # hashes", LONG_TEXT] + LOOKALIKE_COMMENTS)
        if g.chance(0.3):
            l["trail"] = g.int(0, 7)
        if g.chance(0.15):
            out.append({"k": "label", "addr": "%016x" % int(l["addr"], 16), "name": "lbl"})
        if g.chance(0.1):
            out.append({"k": "blank"})
        out.append(l)
        if g.chance(0.12):
            for _k in range(g.pick([1, 2, 3])):
                out.append({"k": "cont", "indent": l["indent"], "addr": "%x" % (int(l["addr"], 16) + 1 + _k), "bytes": "00"})
    if g.chance(0.5):
        out = [{"k": "header", "name": "b.o", "format": "elf32-i386"}, {"k": "sect", "name": ".init"}] + out
    return out

"""Engine tie (T2): the Lean model of the regex engine (Rx.run / search / findAll) against the real `regex`
module on random ASTs over the operator set JASM emits, including nested nullable loops, captures and
back-references.  The AST is sent to the driver, which renders it; the real engine runs the rendered text.

The generated class follows two invariants of compiled rules: capture groups never match the empty text, and
one-member negated classes occur only under a bounded quantifier.  Outside them the third-party engine is known to
deviate from plain backtracking semantics (capture-sensitive loop guards when back-references are present; a
set-alternation optimisation bug), which no edit to JASM can reach.

A disagreement here says that the *model of the third-party engine* is wrong on some regex; it cannot be caused by
an edit to /repo, so it is a harness error (exit 2), never a violation."""
import regex

ALPHA = "ab0|,:"


class EngineModelError(Exception):
    pass


def gen_atom(g, depth, st):
    k = g.int(0, 99)
    if depth <= 0 or k < 30:
        c = g.pick(ALPHA)
        return {"t": "esc", "c": c} if c == "|" else {"t": "chr", "c": c}
    if k < 38:
        return {"t": "any"}
    if k < 50:
        items = g.r.sample(["a", "b", "0", "|", ",", ":", "\\d"], g.int(1, 3))
        neg = g.chance(0.5)
        c = {"t": "cls", "neg": neg, "items": items}
        if neg and len(items) == 1:
            # JASM emits one-member negated classes only under a bounded quantifier (`[^|]{0,1000}`); a bare
            # alternation of such classes hits an optimisation bug of the third-party engine
            # (regex 2.5.140: `[^0]|[^a]` does not match `a`), which is outside the emitted class
            lo = g.int(0, 2)
            return {"t": "rep", "r": c, "lo": lo, "hi": lo + g.int(1, 2)}
        return c
    if k < 85:
        return {"t": "grp", "r": gen_top(g, depth - 1, st)}
    if k < 93:
        # capture groups of compiled rules never match the empty text (`([^,|]+),`, a whole instruction body, one
        # register letter): the group starts with something that consumes a character
        st["caps"] += 1
        n = st["caps"]
        c = g.pick(ALPHA)
        head = {"t": "esc", "c": c} if c == "|" else {"t": "chr", "c": c}
        if g.chance(0.5):
            head = {"t": "plus", "r": {"t": "cls", "neg": True, "items": [",", "|"]}}
        return {"t": "cap", "n": n, "r": {"t": "seq", "a": head, "b": gen_seq(g, depth - 1, st)}}
    if st["caps"] > 0:
        return {"t": "bref", "n": g.int(1, st["caps"])}
    return {"t": "chr", "c": g.pick(ALPHA.replace("|", "a"))}


def gen_piece(g, depth, st):
    a = gen_atom(g, depth, st)
    k = g.int(0, 99)
    if k < 55:
        return a
    if k < 80:
        lo = g.int(0, 2)
        hi = lo + g.int(0, 2)
        if hi == 0:
            hi = 1
        return {"t": "rep", "r": a, "lo": lo, "hi": hi}
    if k < 90:
        return {"t": "opt", "r": a}
    if a["t"] in ("chr", "esc", "any", "cls"):
        return {"t": "plus", "r": a}
    return a


def gen_seq(g, depth, st):
    n = g.pick([1, 1, 2, 2, 3])
    parts = [gen_piece(g, depth, st) for _ in range(n)]
    if g.chance(0.08):
        parts.insert(g.int(0, len(parts) - 1), {"t": "nla", "r": gen_top(g, depth - 1, st)})
    r = parts[-1]
    for p in reversed(parts[:-1]):
        r = {"t": "seq", "a": p, "b": r}
    return r


def gen_top(g, depth, st):
    n = g.pick([1, 1, 1, 2, 2, 3])
    alts = [gen_seq(g, depth, st) for _ in range(n)]
    r = alts[-1]
    for a in reversed(alts[:-1]):
        r = {"t": "alt", "a": a, "b": r}
    return r


def gen_case(g):
    st = {"caps": 0}
    rx = gen_top(g, g.int(1, 4), st)
    text = "".join(g.pick(ALPHA) for _ in range(g.int(0, 9)))
    return rx, text


def run(ctx, n, tie="T2-engine"):
    """n random cases; disagreements are recorded on ctx.report; returns the number of usable cases"""
    g, rep = ctx.g, ctx.report
    usable = 0
    for _ in range(n):
        rx, text = gen_case(g)
        m = ctx.driver.call({"op": "engine", "rx": rx, "text": text})
        if "ok" not in m:
            rep.unsupported += 1
            continue
        m = m["ok"]
        if not m["wf"]:
            rep.dist["engine:ast-not-wf"] += 1
            continue
        try:
            c = regex.compile(m["render"])
        except regex.error:
            rep.dist["engine:regex-rejected"] += 1
            continue
        real_all = [x.group() for x in c.finditer(text)]
        s = c.search(text)
        real_first = [s.start(), s.group()] if s else None
        usable += 1
        rep.dist["engine:cases"] += 1
        if any(real_all):
            rep.dist["engine:nonempty-match"] += 1
        if real_all != m["all"] or real_first != m["first"]:
            raise EngineModelError("engine model differs from the regex module on %r / %r: real %r, model %r"
                                   % (m["render"], text, (real_all, real_first), (m["all"], m["first"])))
    return usable

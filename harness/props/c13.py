"""C13 Macro expansion is equivalent to manual inlining."""
import copy, json
import gen_rules, gen_macros, impl, model

CONSTS = ()
ASSUMPTIONS = ["macro names start with @ and are pairwise not contained in one another; a macro is listed before the "
               "macros its body refers to; argument values contain neither formals nor macro names",
               "object aliasing between uses cannot be exhibited by the functional model: covered by this tie only"]


def run(ctx, factor):
    g, rep = ctx.g, ctx.report
    rep.rule = ("random macro-free rules factored at random into macros (whole-item with string or subtree body, nested "
                "bodies, whole-string, substring of a name, key with a times body, parameterised with one formal used "
                "once or several times), several uses per macro, definitions split between the rule file and 0-2 extra "
                "macro files; compiled regex of the macro rule must equal that of the original (inlined) rule on the "
                "real code; the macro definitions are deep-compared before/after expansion; expanded tree vs the model's")
    REGEXY = [r"%r[abcd]x\b", r"0x\d+", r"a\\b", r"\w+q", r"%[re]?[abcd][xl]", r"\$0x[0-9a-f]{2}", r"x\.y", r"r\d\d?d", "%r[0-9][0-9]", "[a-f][a-f]x", "0x0x0", "aaaa", "%xmm1%xmm1"]
    for it in range(ctx.budget(900, 8000) * factor):
        doc = gen_rules.rule(g, {"ops", "logic", "times", "ops_logic", "not", "deref"}, depth=2)
        if it % 9 == 0:
            # names are regular-expression fragments: a macro body may hold backslash escapes, and must be inserted verbatim
            doc = {"pattern": [{g.pick(["mov", "add", r"j\w+"]): [g.pick(REGEXY) for _ in range(g.int(1, 3))]} for _ in range(g.int(1, 2))]}
        mdoc, files, forms = gen_macros.factor(g, doc)
        if it % 9 == 4:
            # one string macro referenced several times inside ONE name (`%r@d@d`), next to a single reference
            part = g.pick(["[0-9]", "a", "xmm", r"\d", "0x"])
            n = g.pick([2, 2, 3])
            pre, post = g.pick(["%r", "", "0x"]), g.pick(["", "d", "q"])
            mn = g.pick(["mov", "add"])
            doc = {"pattern": [{mn: [pre + part * n + post, pre + part + post]}]}
            mdoc = {"macros": [{"name": "@d", "pattern": part}], "pattern": [{mn: [pre + "@d" * n + post, pre + "@d" + post]}]}
            files, forms = [], ["substring-repeated-in-one-name"]
            if g.chance(0.4):
                files, mdoc = [{"macros": mdoc.pop("macros")}], mdoc
        if it % 9 == 7:
            # a parameterised macro call as the ARGUMENT of another parameterised macro call, the two definitions in either
            # order and in the rule file or an extra file: each expansion must be stored back where the call stood
            base, off = g.pick(["%rbp", "%rsp", "rbx"]), g.pick(["0x10", "8", "0x20"])
            m1, m2 = g.r.sample(["movl", "andl", "orl", "cmpl"], 2)
            slot = {"name": "@slot", "args": ["base"], "pattern": [{"$deref": {"main_reg": "base", "constant_offset": off}}]}
            body = g.pick([{"$or": [{m1: ["0x0", "dst"]}, {m2: ["0x0", "dst"]}]}, {m1: ["0x0", "dst"]}, {m1: ["dst", "%eax"]}])
            clear = {"name": "@clear", "args": ["dst"], "pattern": [body]}
            call = g.pick([{"@clear": {"dst": {"@slot": {"base": base}}}}, {"@clear": None, "dst": {"@slot": None, "base": base}}])
            inl_slot = {"$deref": {"main_reg": base, "constant_offset": off}}
            inl = json.loads(json.dumps(body).replace('"dst"', json.dumps(inl_slot)))
            doc = {"pattern": [inl, "ret"]}
            order = g.pick([[clear, slot], [slot, clear]])
            place = g.int(0, 3)
            if place == 0:
                mdoc, files = {"macros": order, "pattern": [call, "ret"]}, []
            elif place == 1:
                mdoc, files = {"macros": [order[1]], "pattern": [call, "ret"]}, [{"macros": [order[0]]}]
            elif place == 2:
                mdoc, files = {"pattern": [call, "ret"]}, [{"macros": [order[0]]}, {"macros": [order[1]]}]
            else:
                mdoc, files = {"pattern": [call, "ret"]}, [{"macros": order}]
            forms = ["parameterised-call-as-argument-of-a-call"]
        if it % 9 == 2:
            # a macro LIBRARY: definitions that the rule does not use (and whose bodies refer to other unused definitions) play
            # no part; and a string macro whose body refers to a later string macro, used inside a longer name
            sh, ro, n = g.pick(["shl", "sar", "shr"]), g.pick(["rol", "ror"]), g.pick(["ax", "bx", "cx"])
            lib = [{"name": "@shift_or_rot", "pattern": [{"$or": ["@any_shift", "@any_rot"]}]},
                   {"name": "@any_shift", "pattern": sh}, {"name": "@any_rot", "pattern": ro},
                   {"name": "@wide", "pattern": "r@n"}, {"name": "@n", "pattern": n}]
            kind = g.int(0, 2)
            if kind == 0:
                use, inl = ["@any_shift", {"mov": ["%@wide", "rbx"]}], [sh, {"mov": ["%r" + n, "rbx"]}]
            elif kind == 1:
                use, inl = ["@any_shift", "ret"], [sh, "ret"]
            else:
                use, inl = [{"add": ["%@wide"]}, "@any_rot"], [{"add": ["%r" + n]}, ro]
            doc = {"pattern": inl}
            if g.chance(0.5):
                mdoc, files = {"pattern": use}, [{"macros": lib}]
            else:
                mdoc, files = {"macros": lib, "pattern": use}, []
            forms = ["macro-library-with-unused-definitions"]
        if not forms:
            continue
        # a second use of one of the macros, same arguments (uses must not influence each other)
        if g.chance(0.4):
            mdoc["pattern"] = mdoc["pattern"] + copy.deepcopy(mdoc["pattern"][:1])
            doc = dict(doc)
            doc["pattern"] = doc["pattern"] + copy.deepcopy(doc["pattern"][:1])
        # a further use of a parameterised macro with a DIFFERENT argument (uses must not share state)
        allm = [m for f in files for m in f["macros"]] + mdoc.get("macros", [])
        pm = [m for m in allm if m.get("args") and isinstance(m.get("pattern"), list)]
        if pm and g.chance(0.5):
            m = g.pick(pm)
            formal = m["args"][0]
            val2 = g.pick(["r9", "%r10", "0x77", "rsi", 5])
            tmpl = copy.deepcopy(m["pattern"][0])
            if isinstance(tmpl, dict) and len(tmpl) == 1:
                key = next(iter(tmpl))
                if isinstance(tmpl[key], list) and formal in tmpl[key]:
                    inl = {key: [val2 if x == formal else x for x in tmpl[key]]}
                    if "@" not in json.dumps(inl):
                        use2 = g.pick([{m["name"]: {formal: val2}}, {m["name"]: None, formal: val2}, {formal: val2, m["name"]: None}])
                        mdoc["pattern"] = mdoc["pattern"] + [use2]
                        doc = dict(doc)
                        doc["pattern"] = doc["pattern"] + [inl]
                        forms = forms + ["parameterised-second-use-other-argument"]
        a = impl.compile_rule(ctx.scratch, doc)
        b = impl.compile_rule(ctx.scratch, mdoc, files)
        case = {"rule_with_macros": mdoc, "macro_files": files, "inlined_rule": doc}
        if a[0] == "ok" and b != a:
            rep.violate("macro-rule-differs-from-inlined-rule", case, {"regex": a}, {"regex": b}, model_agrees_with_spec=None)
        # definitions not altered + tree tie
        macros = [m for f in files for m in f["macros"]] + mdoc.get("macros", [])
        before = copy.deepcopy(macros)
        top = {"$and": copy.deepcopy(mdoc["pattern"])}
        t = impl.expand_macros(macros, top)
        if macros != before:
            rep.violate("macro-definitions-altered-by-use", case, {"macros": before}, {"macros": macros})
        mt = model.outcome(ctx.driver.call({"op": "expand", "macros": model.y2j(before), "tree": model.y2j({"$and": mdoc["pattern"]})}))
        if mt[0] == "unsup":
            rep.unsupported += 1
        elif mt[0] != t[0] or (t[0] == "ok" and model.j2y(mt[1]) != t[1]):
            rep.disagree("T-macro-tree", case, t, mt)
        mr = model.outcome(ctx.driver.call({"op": "rule", "doc": model.y2j(mdoc), "macroDocs": [model.y2j(f) for f in files]}))
        if mr[0] != "unsup" and (mr[0] != b[0] or (b[0] == "ok" and mr[1] != b[1])):
            rep.disagree("T1-regex-text(macro rule)", case, b, mr)
        rep.case(case, a[0] == "ok", tags=["form:" + f for f in set(forms)] + ["files=%d" % len(files)])
        if rep.has_new() and factor > 1:
            return


def finding_reproduces(ctx, f):
    w = f["witness"]
    macros = copy.deepcopy(w["macros"])
    impl.expand_macros(macros, copy.deepcopy(w["tree"]))
    return macros != w["macros"]


def replay(ctx, payload):
    c = payload["case"]
    return {"inlined": impl.compile_rule(ctx.scratch, c["inlined_rule"]),
            "with_macros": impl.compile_rule(ctx.scratch, c["rule_with_macros"], c["macro_files"])}

"""Shared runner for the pattern-language properties."""
import gen, gen_rules, patdiff


def run_cases(ctx, factor, feats, quick, thorough, scan=True, rule_fn=None, tagger=None, depth=2,
              modes=("bool", "all", "first"), extra_check=None):
    g, rep = ctx.g, ctx.report
    n = ctx.budget(quick, thorough) * factor
    for _ in range(n):
        doc = rule_fn(g) if rule_fn else gen_rules.rule(g, feats, depth=depth)
        insts = gen_rules.realise(g, doc)
        pert = g.chance(0.5)
        if pert:
            insts = gen_rules.perturb(g, insts)
        o = patdiff.observe(ctx, doc, insts, modes=modes)
        usable = patdiff.correspondence(ctx, o)
        tags = ["perturbed" if pert else "realised"]
        if usable:
            mr = o["model"][1]
            tags.append("spec-found" if mr["spec"]["found"] else "spec-not-found")
            patdiff.spec_verdict(ctx, o)
            if scan:
                patdiff.spec_scan(ctx, o)
            if extra_check:
                extra_check(ctx, o)
        elif o["impl_stream"][0] != "ok":
            tags.append("impl-error")
        if tagger:
            tags += tagger(doc)
        rep.case(patdiff.case_of(o), usable, tags=tags)
        if rep.has_new() and factor > 1:
            return


def blob_tagger(keys):
    import json

    def f(doc):
        b = json.dumps(doc)
        return ["has:" + k for k in keys if k in b]
    return f


def finding_reproduces(ctx, f):
    w = f["witness"]
    o = patdiff.observe(ctx, w["rule"], text=w["listing"], macro_docs=w.get("macro_files", ()), modes=("bool", "all"))
    if "observed_found" in w:
        return o.get("impl_bool") == ("ok", w["observed_found"]) and w["observed_found"] != w["expected_found"]
    if "observed_matches" in w:
        if w["observed_matches"] is None:
            return o.get("impl_all") != ("ok", w["expected_matches"])
        return o.get("impl_all") == ("ok", w["observed_matches"]) and w["observed_matches"] != w["expected_matches"]
    return None


def replay(ctx, payload):
    c = payload["case"]
    o = patdiff.observe(ctx, c["rule"], text=c["listing"], macro_docs=c.get("macro_files", ()),
                        modes=("bool", "all", "first"))
    return {"implementation": {k: o.get(k) for k in ("impl_regex", "impl_stream", "impl_bool", "impl_all", "impl_first")},
            "model_and_specification": o["model"]}

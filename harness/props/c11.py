"""C11 All-matches mode is a complete leftmost non-overlapping scan."""
import gen, gen_rules, impl, patdiff
from props.common_pat import blob_tagger, finding_reproduces, replay  # noqa: F401

import enginetie
from props import c05

CONSTS = ("IGNORE_INST_ADDR", "SKIP_TO_END_OF_PATTERN_NODE")
ASSUMPTIONS = ["patterns that can match the empty sequence are outside the quantifier"]
FEATS = {"ops", "logic", "times", "not"}


def run(ctx, factor):
    # engine tie T2: the model of the regex engine alone against the real engine (random ASTs of the emitted operator set)
    enginetie.run(ctx, ctx.budget(500, 20000))
    g, rep = ctx.g, ctx.report
    rep.rule = ("rules of 1-3 items (with groups and repetitions) on listings that contain 1-4 realisations of the rule, "
                "adjacent, separated by 0-2 instructions, or overlapping (second realisation starts inside the first); "
                "all-matches and first-match texts vs the specification's leftmost non-overlapping scan")
    # thousands of occurrences: the scan is complete however long the list gets (compared with a direct count of the lines)
    for _ in range(ctx.budget(1, 6) * factor):
        m = g.pick(["call", "mov", "xor"])
        k = g.pick([1100, 1600, 2300])
        body, occ, addr = [], [], 0x401000
        for _i in range(k):
            if g.chance(0.5):
                body.append(("%x" % addr, g.pick(["nop", "ret", "push"]), []))
                addr += g.int(1, 3)
            body.append(("%x" % addr, m, ["%rax"] if m != "call" else ["401000 <f>"]))
            occ.append("%x" % addr)
            addr += g.int(2, 7)
        import gen
        text = gen.render_listing(body, g)
        doc = {"pattern": [m]}
        got = impl.run_op(ctx.scratch, doc, text, mode="all", ret="list", addr_only=True)
        first = impl.run_op(ctx.scratch, doc, text, mode="first", ret="list", addr_only=True)
        case = {"rule": doc, "listing": text[:1500] + "... (%d occurrences of %s)" % (k, m)}
        rep.case(case, got[0] == "ok", tags=["thousands-of-occurrences"])
        if got != ("ok", occ):
            rep.violate("scan-incomplete-on-a-long-list", case, {"number_of_matches": len(occ), "last": occ[-3:]},
                        {"outcome": got[0], "number_of_matches": len(got[1]) if got[0] == "ok" else None,
                         "last": got[1][-3:] if got[0] == "ok" else None}, model_agrees_with_spec=None)
        if first != ("ok", occ[:1]):
            rep.violate("first-match-is-not-the-head-of-the-list", case, occ[:1], first, model_agrees_with_spec=None)
    # the yes/no way of asking reports its matches too (log lines `Matched address`, what the command line shows): in
    # all-matches mode they are the same complete scan, in first-match mode its head
    for _ in range(ctx.budget(12, 400) * factor):
        doc = gen_rules.rule(g, {"ops"}, nitems=g.int(1, 2), depth=1)
        r = [(m, o) for _, m, o in gen_rules.realise(g, doc, pad=(0, 0))]
        seq = []
        for _k in range(g.int(2, 4)):
            seq += r + [(m, o) for _, m, o in g.listing(g.int(0, 2))]
        insts, addr = [], 0x2000
        for m, o in seq:
            insts.append(("%x" % addr, m, o))
            addr += g.int(1, 6)
        import gen
        text = gen.render_listing(insts, g)
        ao = g.chance(0.6)
        lst = impl.run_op(ctx.scratch, doc, text, mode="all", ret="list", addr_only=ao)
        (b, rep_all), (b1, rep_first) = impl.run_op_logged(ctx.scratch, doc, text, "all", ao), impl.run_op_logged(ctx.scratch, doc, text, "first", ao)
        case = {"rule": doc, "listing": text, "asked": "yes/no (matches reported through the logger)", "address_only": ao}
        rep.case(case, lst[0] == "ok" and len(lst[1]) > 1, tags=["reported-through-the-logger"])
        if lst[0] == "ok" and b[0] == "ok" and (rep_all != lst[1] or rep_first != lst[1][:1]):
            rep.violate("reported-matches-differ-from-the-scan", case, {"all": lst[1], "first": lst[1][:1]},
                        {"reported_in_all_matches_mode": rep_all, "reported_in_first_match_mode": rep_first}, model_agrees_with_spec=None)
    n = ctx.budget(300, 8000) * factor
    for _ in range(n):
        doc = gen_rules.rule(g, FEATS, nitems=g.int(1, 3), depth=1)
        if g.chance(0.15):
            doc = c05.spine_rule(g)         # rules with capture groups: the reported text is still the whole match
        seq = []
        k = g.int(1, 4)
        for _ in range(k):
            r = [(m, o) for _, m, o in gen_rules.realise(g, doc, pad=(0, 0))]
            if seq and r and g.chance(0.3):
                cut = g.int(1, max(1, len(r) - 1))
                seq = seq[:-min(len(seq), cut)] + r        # overlapping candidate
            else:
                seq += r
            seq += [(m, o) for _, m, o in g.listing(g.int(0, 2))]
        shape = g.int(0, 59)
        if shape == 0:
            seq = seq * g.int(30, 120)              # a long listing: dozens to hundreds of matches, none may be dropped
        addr = 0x1000
        insts = []
        for m, o in seq:
            insts.append(("%x" % addr, m, o))
            addr += g.int(1, 8)
        if 1 <= shape <= 6 and insts:
            insts = insts + insts                   # sections restarting at the same addresses: identical matched texts
        with_addr = g.chance(0.35)
        o = patdiff.observe(ctx, doc, insts, modes=("bool", "all", "first") + (("alladdr",) if with_addr else ()))
        usable = patdiff.correspondence(ctx, o)
        tags = ["realisations=%d" % k] + (["long-listing"] if shape == 0 else ["repeated-section"] if 1 <= shape <= 6 else [])
        if usable:
            nm = len(o["model"][1]["spec"]["scan"])
            tags.append("spec-matches=%d" % min(nm, 5))
            patdiff.spec_verdict(ctx, o)
            patdiff.spec_scan(ctx, o)
            spec = o["model"][1]["spec"]
            if with_addr and not (any(n == 0 for _, n in spec["scan"]) or spec.get("nullable")):
                # the same scan reported as addresses only: the address of the FIRST instruction of every match, in scan order
                kept = o["model"][1]["kept"]
                exp = [kept[i][0] for i, _ in spec["scan"]]
                if o["impl_alladdr"] != ("ok", exp):
                    rep.violate("scan-addresses", patdiff.case_of(o), {"addresses": exp}, {"addresses": o["impl_alladdr"]},
                                model_agrees_with_spec=(o["model"][1]["allAddr"] == exp))
                tags.append("address-only")
        rep.case(patdiff.case_of(o), usable, tags=tags)
        if rep.has_new() and factor > 1:
            return

"""C10 The matcher's text stream is an unambiguous encoding of the instruction list."""
import gen, gen_lines, impl, model, objfuzz

CONSTS = ()
ASSUMPTIONS = ["instruction fields contain neither , nor | nor :: (true of the grammar; real objdump violates it for "
               "branch-hint mnemonics such as jb,pn: known finding D7)"]


def check_text(ctx, text, tag, seen):
    rep = ctx.report
    insts = impl.parser_instructions(text)
    s = impl.stream_of(ctx.scratch, text)
    case = {"listing": text if len(text) < 3000 else text[:3000] + "...", "kind": tag}
    if insts[0] != "ok" or s[0] != "ok":
        # the real parser raised: so must the model's (whether a line may make the parser fail is C08's question)
        m = model.outcome(ctx.driver.call({"op": "stream", "text": text}))
        if m[0] == "ok":
            rep.disagree("T3-parser-error", case, s if s[0] != "ok" else insts, m[1][:400])
        rep.case(case, False, tags=(tag, "impl-error"))
        return
    kept = [i for i in insts[1] if i[1] != "empty"]
    m = model.outcome(ctx.driver.call({"op": "stream", "insts": [[a, mn, ops] for a, mn, ops in insts[1]]}))
    if m[0] == "ok" and m[1] != s[1]:
        rep.disagree("T3-encoding", case, s[1][:400], m[1][:400])
    dec = gen.decode_stream(s[1])
    exp = [(a, mn, list(ops)) for a, mn, ops in kept]
    if dec != exp:
        bad = next((i for i, (x, y) in enumerate(zip(dec or [], exp)) if x != y), None)
        rep.violate("stream-does-not-decode-to-the-instruction-list", dict(case, first_bad_instruction=exp[bad] if bad is not None else None),
                    {"instructions": exp[:20]}, {"decoded": (dec or [])[:20]}, model_agrees_with_spec=None)
    # the separators occur only in their separator roles: one `::` and one `|` per record, one `,` per field
    want = (len(exp), len(exp), sum(1 + max(1, len(ops)) for _, _, ops in exp))
    got = (s[1].count("::"), s[1].count("|"), s[1].count(","))
    if dec == exp and got != want:
        rep.violate("separator-outside-its-role", case, {"count of :: | ,": want}, {"count of :: | ,": got, "stream": s[1][:400]},
                    model_agrees_with_spec=None)
    # injectivity: a stream seen before must come from the same list
    key = s[1]
    if key in seen and seen[key] != exp:
        rep.violate("two-instruction-lists-one-stream", case, {"other_list": seen[key][:10]}, {"this_list": exp[:10]})
    seen[key] = exp
    rep.case(case, bool(exp), tags=(tag,))


VREGS = ["%xmm0", "%xmm13", "%ymm6", "%ymm29", "%zmm1", "%zmm28"]
DECOR = ["", "", "{%k1}", "{%k2}{z}", "{%k7}"]


def decorated_listing(g, with_oracle=False):
    """lines in objdump's AT&T syntax for EVEX instructions: `vaddpd (%rdx,%r14,2){1to4},%xmm14,%xmm5{%k2}{z}`"""
    lines, addr, oracle = [], g.pick([0, 0x1000, 0x401000]), []
    for _ in range(g.int(1, 6)):
        ops = []
        for _ in range(g.pick([2, 3, 3])):
            if g.chance(0.45):
                base, idx, sc = "%" + g.pick(gen_lines.REG64), "%" + g.pick(gen_lines.REG64), g.pick(["1", "2", "4", "8"])
                disp = g.pick(["", "0x40", "-0x8", "0x200"])
                inner = g.pick(["(%s,%s,%s)" % (base, idx, sc), "(%s)" % base, "(,%s,%s)" % (idx, sc)])
                seg = g.pick(["", "", "", "%fs:", "%gs:", "%es:", "%cs:"])      # segment override: `%fs:(%rax,%rbx,1)`
                ops.append(seg + disp + inner + g.pick(["", "", "{1to4}", "{1to16}", "{1to8}", "{%k1}", "{%k3}{z}"]))
            elif g.chance(0.05):
                ops.append("(bad)" + g.pick(["", "{%k3}", "{%k1}{z}"]))
            elif g.chance(0.1):
                ops.append(g.pick(["%fs:0x28", "%gs:0x10", "%st(1)", "%st", "%es:(%rdi)", "%ds:(%rsi)"]))
            elif g.chance(0.1):
                ops.append(g.pick(["{rn-sae}", "{sae}", "{rz-sae}"]))
            else:
                ops.append(g.pick(VREGS) + g.pick(DECOR))
        nb = g.int(6, 8)
        byts = " ".join("%02x" % g.int(0, 255) for _ in range(min(nb, 7))) + " "
        mn = g.pick(["vaddpd", "vmovups", "vmulps", "vsqrtsd", "vmovdqa64", "mov", "movsb", "fadd", "vpshufbitqmb", "vbroadcastss"])
        lines.append("%8x:\t%s\t%s %s" % (addr, byts, mn, ",".join(ops)))
        oracle.append(("%x" % addr, mn))
        addr += nb
    text = "\n".join(lines) + "\n"
    return (text, oracle) if with_oracle else text


def prefixed_listing(g):
    """lines on which objdump prints a prefix it could not attach as a word of its own in front of the mnemonic
    (`ss ucomiss %xmm1,%xmm0`, `cs nopw 0x0(%rax,%rax,1)`, `addr32 call 401000 <f>`, `rex.W push %rax`): a single blank
    separates mnemonic and operands there, and several mnemonics END in a prefix word (ucomiss, movss, xsaves, lods)"""
    lines, addr = ["", "a.out:     file format elf64-x86-64", "", "Disassembly of section .text:", ""], g.pick([0, 0x1000, 0x401000])
    for _ in range(g.int(1, 6)):
        pre = g.pick(["ss", "cs", "ds", "es", "fs", "gs", "addr32", "data16", "rex.W", "rex.WRXB", "lock", "rep", "repz", "bnd", "notrack"])
        mn = g.pick(["ucomiss", "sqrtss", "movss", "vaddss", "xsaves", "cvtsi2ss", "nopw", "call", "lods", "stos", "cmpxchg", "movs", "ret"])
        ops = g.pick(["%xmm1,%xmm0", "(%rcx),%xmm0", "0x0(%rax,%rax,1)", "401000 <f>", "%ds:(%rsi),%al", "%rax,(%rdx)", ""])
        nb = g.int(2, 7)
        byts = " ".join("%02x" % g.int(0, 255) for _ in range(nb)) + " "
        text = pre + " " + mn + ((" " + ops) if ops else "")
        if g.chance(0.3):
            text = mn.ljust(6) + " " + (ops or "%rax")          # the same mnemonic without a prefix word
        lines.append("%s:\t%s\t%s" % (("%x" % addr).rjust(8), byts.ljust(21), text))
        addr += nb
    return "\n".join(lines) + "\n"


def run(ctx, factor):
    g, rep = ctx.g, ctx.report
    for _ in range(ctx.budget(60, 2000) * factor):
        check_text(ctx, prefixed_listing(g), "prefix-word-lines", {})
        if rep.has_new() and factor > 1:
            return
    rep.rule = ("for every listing (grammar-generated, real objdump on random bytes) the instruction list handed over by the "
                "real parser (recording consumer) is compared with the decoding of the real stream (split on |, first ::, "
                "commas): must be identical; streams are also compared with the model's encoding and remembered to detect "
                "two lists with one stream")
    seen = {}
    for _ in range(ctx.budget(900, 15000) * factor):
        lines = gen_lines.listing(g, g.int(0, 8), decorate=g.chance(0.5))
        r = ctx.driver.call({"op": "linespec", "lines": lines})["ok"]
        check_text(ctx, r["text"], "grammar", seen)
        if rep.has_new() and factor > 1:
            return
    # operand decorations objdump prints for AVX-512 code (masks, zeroing, broadcast, rounding): outside the C09 forms,
    # inside this property's quantifier ("every instruction list the parser can produce from objdump output")
    for _ in range(ctx.budget(300, 5000) * factor):
        check_text(ctx, decorated_listing(g), "avx512-decorated-operands", seen)
        if rep.has_new() and factor > 1:
            return
    for _ in range(ctx.budget(10, 400) * factor):
        path = objfuzz.assemble(ctx.scratch, [(".text", objfuzz.random_bytes(g, g.int(40, 600)))])
        rc, out, err = objfuzz.objdump(path)
        # branch-hint mnemonics are the recorded finding D7: look at them separately
        lines = out.split("\n")
        hinted = [l for l in lines if objfuzz.classify(l)[0] == "inst" and "," in objfuzz.classify(l)[2]]
        clean = "\n".join(l for l in lines if l not in hinted)
        rep.dist["real-objdump-lines-with-comma-in-mnemonic"] += len(hinted)
        check_text(ctx, clean, "real-objdump-random-bytes", seen)


def finding_reproduces(ctx, f):
    w = f["witness"]
    insts = impl.parser_instructions(w["listing"])
    s = impl.stream_of(ctx.scratch, w["listing"])
    if insts[0] != "ok" or s[0] != "ok":
        return False
    dec = gen.decode_stream(s[1])
    return dec != [(a, m, list(o)) for a, m, o in insts[1]]


def replay(ctx, payload):
    text = payload["case"]["listing"]
    s = impl.stream_of(ctx.scratch, text)
    return {"parser_instructions": impl.parser_instructions(text), "stream": s,
            "decoded": gen.decode_stream(s[1]) if s[0] == "ok" else None}

"""C20 The `jasm` command reports what the library computes."""
import os, re, subprocess
import gen, gen_rules, impl, model, objfuzz

CONSTS = ()
ASSUMPTIONS = ["argparse, the logging handlers and the interpreter's exit-status convention are runtime behaviour: covered by this tie only",
               "paths do not start with '-'"]

MATCHED = re.compile(r" - INFO - Matched address: (.*)$")


def cli(ctx, args, cwd):
    env = dict(os.environ, PYTHONPATH=os.path.join(impl.REPO, "src"))
    p = subprocess.run(["/venv/bin/python", "-m", "jasm.main"] + args, cwd=cwd, env=env, capture_output=True, text=True, timeout=120)
    out = p.stdout + "\n" + p.stderr
    addrs = [m.group(1) for line in out.split("\n") for m in [MATCHED.search(line)] if m]
    return {"rc": p.returncode, "addresses": addrs, "found": "RESULT: Pattern found" in out, "notfound": "RESULT: Pattern not found" in out,
            "tail": out[-400:]}


def impl_parse(args):
    """what main() would hand to MasterOfPuppets for this argv (real argparse configuration, in-process)"""
    import sys
    from jasm import main as jmain
    old = sys.argv
    sys.argv = ["jasm"] + list(args)
    import io, contextlib
    try:
        with contextlib.redirect_stderr(io.StringIO()):
            try:
                a = jmain.parse_args_from_console()
            except SystemExit:
                return ("err", "usage")
        try:
            kind = jmain.decide_assembly_or_binary(a)
        except ValueError:
            return ("err", "ValueError")
        binary = kind == impl.InputFileType.binary
        return ("ok", {"pattern": a.pattern, "input": a.binary if binary else a.assembly, "kind": "binary" if binary else "assembly",
                       "mode": "all" if a.all_matches else "first", "addrOnly": bool(a.return_only_address), "macros": a.macros or []})
    finally:
        sys.argv = old


def tie_args(ctx, args, case):
    m = model.outcome(ctx.driver.call({"op": "cli", "argv": list(args)}))
    i = impl_parse(args)
    if m[0] == "unsup":
        ctx.report.unsupported += 1
    elif m[0] != i[0] or (m[0] == "ok" and m[1] != i[1]):
        ctx.report.disagree("T6-argument-parsing", case, i, m)


def run(ctx, factor):
    g, rep = ctx.g, ctx.report
    rep.rule = ("random rule/input pairs x every combination of -s/-b, --all-matches, --return_only_address, --macros (0-2 files), with and without the logging options (--debug, --info, ...): "
                "`python -m jasm.main` run in a scratch directory, its `Matched address:` lines (in order) and RESULT line compared "
                "with the API's list / boolean for the same files and options; failing operations (undefined macro, missing "
                "input, non-object binary) must exit non-zero; the required-argument rules (-p; exactly one of -s/-b) checked")
    sc = ctx.scratch
    cwd = os.path.join(sc.dir, "cli")
    os.makedirs(cwd, exist_ok=True)
    obj = objfuzz.assemble(sc, [(".text", [0x55, 0x48, 0x89, 0xe5, 0xe8, 0, 0, 0, 0, 0x50, 0x58, 0x5d, 0xc3])], name="c20")
    for it in range(ctx.budget(24, 200) * factor):
        # every fourth case: one-item rule on a listing that repeats the same records, all matches requested
        # (consecutive identical `Matched address` lines must all be logged)
        repeated = it % 4 == 0
        doc = gen_rules.rule(g, {"ops", "logic", "times"}, nitems=1 if repeated else g.int(1, 2), depth=1)
        files = []
        two_files = it % 4 == 1       # every fourth case: two macro files defining the same name, in descending path order
        if two_files or g.chance(0.5):
            doc["pattern"].insert(0, "@x")
            files.append({"macros": [{"name": "@x", "pattern": g.pick(["push", "mov", "p"])}]})
            if two_files:
                files.append({"macros": [{"name": "@x", "pattern": "sub"}]})
            elif g.chance(0.6):
                # a second file; it may define the same name differently (the first definition met wins, so the
                # order of the --macros files matters and must reach the library unchanged)
                files.append({"macros": [{"name": g.pick(["@y", "@x", "@x"]), "pattern": g.pick(["nop", "sub", "q"])}]})
        binary = g.chance(0.35) and not repeated
        insts = gen_rules.realise(g, doc if not files else dict(doc, pattern=doc["pattern"][1:]))
        if files:
            # the listing realises the rule as the FIRST file's definition of @x expands it
            first_body = files[0]["macros"][0]["pattern"]
            insts = [("%x" % 0xff0, first_body if len(first_body) > 1 else "pop", ["%rbp"])] + [(a, m, o) for a, m, o in insts]
        body = insts + gen_rules.realise(g, dict(doc, pattern=doc["pattern"][-1:]))
        if repeated or g.chance(0.4):
            # listings of relocatable objects restart addresses per section: the same records (and so the same
            # matched texts and addresses) occur several times
            body = body * g.int(2, 3)
        text = gen.render_listing(body, g)
        rule_path = sc.write(impl.dump_yaml(doc), ".yaml")
        in_path = obj if binary else sc.write(text, ".s")
        if not binary and it % 3 == 2:
            # the input path is a NAME the operating system resolves (symbolic links first, then `..`): both routes must
            # open the file the OS opens for that string - here `<link-to-a-directory>/../x.s`, next to a decoy of the
            # same name that a purely textual normalisation of the path would pick
            real = os.path.join(sc.dir, "real_%d" % it)
            os.makedirs(os.path.join(real, "sub"), exist_ok=True)
            lnk = os.path.join(sc.dir, "lnk_%d" % it)
            if not os.path.islink(lnk):
                os.symlink(os.path.join(real, "sub"), lnk)
            name = "in_%d.s" % it
            with open(os.path.join(real, name), "w") as fh:
                fh.write(text)
            with open(os.path.join(sc.dir, name), "w") as fh:
                fh.write(gen.render_listing([("1", "hlt", [])], g))
            in_path = os.path.join(lnk, "..", name)
        # file names in ascending or descending path order, whatever the order on the command line
        stems = ["a_first", "z_second"] if (g.chance(0.5) and not two_files) else ["z_first", "a_second"]
        mpaths = []
        for f, stem in zip(files, stems):
            # file names may contain characters a shell or glob() would treat specially: they are names, nothing else
            mp = os.path.join(sc.dir, "%s_%d%s.macros.yaml" % (stem, it, g.pick(["", "", "[att]", "[x86]", "*", "?"])))
            with open(mp, "w") as fh:
                fh.write(impl.dump_yaml(f))
            mpaths.append(mp)
        allm, ao = repeated or g.chance(0.5), g.chance(0.5)
        args = ["-p", rule_path, "-b" if binary else "-s", in_path]
        if allm:
            args.append("--all-matches")
        if ao:
            args.append("--return_only_address")
        if mpaths:
            args += ["--macros"] + mpaths
        # the logging options do not change what is computed, nor what the terminal reports about it
        for opt, pr in (("--debug", 0.35), ("--info", 0.15), ("--enable_logging_to_terminal", 0.1), ("--enable_logging_to_file", 0.1)):
            if g.chance(pr):
                args.insert(0 if g.chance(0.5) else len(args), opt)
        c = cli(ctx, args, cwd)
        tie_args(ctx, args, {"argv": args})

        def api(ret):
            def go():
                cfg = impl.MatchConfig(pattern_pathstr=rule_path, input_file=in_path,
                                       input_file_type=impl.InputFileType.binary if binary else impl.InputFileType.assembly,
                                       return_only_address=ao, return_mode=impl.RET[ret],
                                       matching_mode=impl.MODE["all" if allm else "first"], macros=mpaths or None)
                return impl.MasterOfPuppets(cfg).perform_matching()
            return impl.guarded(go)
        lst, b = api("list"), api("bool")
        case = {"argv": args, "rule": doc, "macro_files": files, "input": "binary" if binary else text}
        if lst[0] == "ok":
            if c["rc"] != 0 or c["addresses"] != lst[1] or c["found"] != b[1] or c["notfound"] == b[1]:
                rep.violate("cli-differs-from-api", case, {"list": lst, "bool": b}, c, model_agrees_with_spec=None)
        elif c["rc"] == 0:
            rep.violate("failing-operation-exits-zero", case, {"api": lst}, c)
        rep.case(case, lst[0] == "ok", tags=["binary" if binary else "assembly", "all" if allm else "first", "addr-only" if ao else "full",
                                              "macros=%d" % len(mpaths), "api:" + ("found" if lst[0] == "ok" and lst[1] else lst[0] if lst[0] != "ok" else "not-found")])
        if rep.has_new() and factor > 1:
            return
    # argument rules and failing operations
    rule_path = sc.write(impl.dump_yaml({"pattern": ["mov"]}), ".yaml")
    in_path = sc.write(gen.render_listing([("1", "mov", ["%rax", "%rbx"])]), ".s")
    bad_rule = sc.write(impl.dump_yaml({"pattern": ["@undefined"], "macros": [{"name": "@m", "pattern": "x"}]}), ".yaml")
    notobj = sc.write("not an object", ".bin")
    for name, args in [
        ("missing -p", ["-s", in_path]),
        ("neither -s nor -b", ["-p", rule_path]),
        ("both -s and -b", ["-p", rule_path, "-s", in_path, "-b", obj]),
        ("undefined macro", ["-p", bad_rule, "-s", in_path]),
        ("missing input", ["-p", rule_path, "-s", os.path.join(sc.dir, "nope.s")]),
        ("missing rule", ["-p", os.path.join(sc.dir, "nope.yaml"), "-s", in_path]),
        ("non-object binary", ["-p", rule_path, "-b", notobj]),
        ("missing macro file", ["-p", rule_path, "-s", in_path, "--macros", os.path.join(sc.dir, "no_such_macros.yaml")]),
        ("missing macro file among two", ["-p", rule_path, "-s", in_path, "--macros", os.path.join(sc.dir, "nope[1].yaml"), os.path.join(sc.dir, "nope2.yaml")]),
    ]:
        c = cli(ctx, args, cwd)
        tie_args(ctx, args, {"argv": args})
        case = {"argv": args, "expectation": name + " must exit non-zero"}
        if c["rc"] == 0:
            rep.violate("failing-invocation-exits-zero", case, "non-zero exit status", c)
        rep.case(case, True, tags=["reject:" + name])
    # argument parsing alone, many random command lines (no process spawned)
    toks = ["-p", "--pattern", "-s", "--assembly", "-b", "--binary", "--all-matches", "--return_only_address", "--macros",
            "--debug", "--info", "r.yaml", "a.s", "a.out", "m1.yaml", "m2.yaml", "x", "--dissasemble-program"]
    for _ in range(ctx.budget(300, 5000)):
        args = [g.pick(toks) for _ in range(g.int(0, 8))]
        if g.chance(0.5):
            args = ["-p", "r.yaml", g.pick(["-s", "-b"]), "in"] + args
        tie_args(ctx, args, {"argv": args})
        rep.case({"argv": args}, False, tags=["argv-only"])
    c = cli(ctx, ["-p", rule_path, "-s", in_path], cwd)
    if c["rc"] != 0 or not c["found"]:
        rep.violate("valid-invocation-fails", {"argv": ["-p", rule_path, "-s", in_path]}, "exit 0 and RESULT: Pattern found", c)


def finding_reproduces(ctx, f):
    return None


def replay(ctx, payload):
    return {"case": payload.get("case"), "note": "re-run the argv in a scratch directory with PYTHONPATH=/repo/src /venv/bin/python -m jasm.main"}

"""C08 Every disassembled instruction line yields exactly one stream instruction."""
import glob, os
import gen, gen_lines, impl, model, objfuzz, patdiff

CONSTS = ()
ASSUMPTIONS = [
    "objdump's output is described by the environment grammar LineSpec (lean/Jasm/Spec/Objdump.lean), validated "
    "against real objdump 2.40 output in this run (T5); 'mnemonic' = first blank-delimited token after the byte "
    "column after the code's data16 stripping; (bad) is carried as bad",
]


def mutate(g, line):
    if not line:
        return line
    k = g.int(0, 3)
    i = g.r.randrange(len(line))
    if k == 0:
        return line[:i] + line[i + 1:]
    if k == 1:
        return line[:i] + g.pick([" ", "\t", ",", "(", ")", "#", "0", "a", ":", "<", "$", "%", "*"]) + line[i:]
    if k == 2:
        return line[:i] + g.pick([" ", "\t", ",", "(", ")", "x"]) + line[i + 1:]
    return line[:i]


def compare_text(ctx, text, tag, expected=None, oracle=None):
    """stream of the real pipeline vs the model's; optionally vs the expected instruction list"""
    rep = ctx.report
    s = impl.stream_of(ctx.scratch, text)
    m = model.outcome(ctx.driver.call({"op": "stream", "text": text}))
    case = {"listing": text if len(text) < 4000 else text[:4000] + "...", "kind": tag}
    nontrivial = False
    if m[0] == "unsup":
        rep.unsupported += 1
    elif s[0] != m[0] or (s[0] == "ok" and s[1] != m[1]):
        rep.disagree("T3-stream", case, s if s[0] != "ok" else s[1][:400], m if m[0] != "ok" else m[1][:400])
    else:
        nontrivial = s[0] == "ok"
    if expected is not None:
        dec = gen.decode_stream(s[1]) if s[0] == "ok" else None
        exp = [(a, mn, ops) for a, mn, ops in expected]
        if s[0] != "ok":
            rep.violate("parser-fails-on-grammar-line", case, {"instructions": exp}, {"outcome": s},
                        model_agrees_with_spec=(m[0] == "ok"))
        elif dec is None or [(a, mn) for a, mn, _ in dec] != [(a, mn) for a, mn, _ in exp]:
            rep.violate("one-instruction-per-instruction-line", case, {"addr_mnemonic": [(a, mn) for a, mn, _ in exp]},
                        {"stream": s[1][:600]}, model_agrees_with_spec=(m == ("ok", "".join(
                            "%s::%s,%s,|" % (a, mn, ",".join(ops)) for a, mn, ops in exp))))
    if expected is not None and s[0] == "ok" and ctx.g.chance(0.5):
        # the same listing under a rule that installs the address-range observer too (a range no target falls into):
        # still exactly one record per instruction line, `empty` pseudo instructions still removed
        cfg = {"valid_addr_range": {"min": "0xfffffffffff0", "max": "0xffffffffffff"}}
        s2 = impl.stream_of(ctx.scratch, text, config=cfg)
        m2 = model.outcome(ctx.driver.call({"op": "stream", "text": text, "range": [0xfffffffffff0, 0xffffffffffff]}))
        if m2[0] != "unsup" and (s2[0] != m2[0] or (s2[0] == "ok" and s2[1] != m2[1])):
            rep.disagree("T3-stream-with-range", dict(case, config=cfg), s2 if s2[0] != "ok" else s2[1][:400],
                         m2 if m2[0] != "ok" else m2[1][:400])
        dec2 = gen.decode_stream(s2[1]) if s2[0] == "ok" else None
        exp2 = [(a, mn) for a, mn, _ in expected]
        hexish = any(mn in ("call", "callq", "jmp", "jne", "je", "jg", "jge", "jl", "jle", "jz", "jnz") for _, mn in exp2)
        if s2[0] == "ok" and (dec2 is None or [(a, mn) for a, mn, _ in dec2] != exp2):
            rep.violate("one-instruction-per-instruction-line(with valid_addr_range)", dict(case, config=cfg),
                        {"addr_mnemonic": exp2}, {"stream": s2[1][:600]}, model_agrees_with_spec=None)
        elif s2[0] != "ok" and not hexish:
            rep.violate("parser-fails-on-grammar-line(with valid_addr_range)", dict(case, config=cfg), {"addr_mnemonic": exp2},
                        {"outcome": s2}, model_agrees_with_spec=(m2[0] == "ok"))
        rep.dist["with-valid_addr_range"] += 1
    if expected is not None and s[0] == "ok" and ctx.g.chance(0.15):
        # the same listing stored with \r\n line ends: still one record per instruction line, same mnemonics
        crlf = text.replace("\n", "\r\n")
        s3 = impl.stream_of(ctx.scratch, crlf)
        m3 = model.outcome(ctx.driver.call({"op": "stream", "text": crlf}))
        rep.dist["with-crlf-line-ends"] += 1
        if m3[0] != "unsup" and (s3[0] != m3[0] or (s3[0] == "ok" and s3[1] != m3[1])):
            rep.disagree("T3-stream(crlf)", dict(case, line_ends="crlf"), s3 if s3[0] != "ok" else s3[1][:400], m3 if m3[0] != "ok" else m3[1][:400])
        dec3 = gen.decode_stream(s3[1]) if s3[0] == "ok" else None
        exp3 = [(a, mn) for a, mn, _ in expected]
        if s3[0] != "ok" or dec3 is None or [(a, mn) for a, mn, _ in dec3] != exp3:
            rep.violate("one-instruction-per-instruction-line(crlf line ends)", dict(case, line_ends="crlf"), {"addr_mnemonic": exp3},
                        {"outcome": s3 if s3[0] != "ok" else s3[1][:600]}, model_agrees_with_spec=None)
    if oracle is not None and s[0] != "ok":
        rep.violate("parser-fails-on-objdump-line", case, {"addr_mnemonic": oracle[:50]}, {"outcome": s},
                    model_agrees_with_spec=(m[0] == "ok"))
    if oracle is not None and s[0] == "ok":
        dec = gen.decode_stream(s[1])
        got = [(a, mn) for a, mn, _ in dec] if dec is not None else None
        if got != oracle:
            # commas inside the mnemonic token (branch hints) make the stream ambiguous: C10's finding, not C08's
            joined = None
            if dec is not None:
                joined = [(a, ",".join([mn] + ops)) for a, mn, ops in dec]
            ok_modulo_commas = joined is not None and len(joined) == len(oracle) and all(
                a == b and (t == tok or t.startswith(tok + ",") or t == tok + ",") for (a, t), (b, tok) in zip(joined, oracle))
            if not ok_modulo_commas:
                rep.violate("one-instruction-per-instruction-line(real objdump)", case, {"addr_mnemonic": oracle[:50]},
                            {"addr_mnemonic": (got or [])[:50]}, model_agrees_with_spec=None)
    rep.case(case if len(text) < 1500 else {"kind": tag, "listing_head": text[:600]}, nontrivial, tags=(tag,))
    return s, m


def objdump_case(ctx, nbytes, tag="real-objdump-random-bytes"):
    g = ctx.g
    byts = objfuzz.random_bytes(g, nbytes)
    secs = [(".text", byts)]
    if g.chance(0.5):
        secs.append((".text.startup", list(byts[: g.int(1, len(byts))])))   # addresses restart: repeated lines
    path = objfuzz.assemble(ctx.scratch, secs)
    rc, out, err = objfuzz.objdump(path)
    kinds = [objfuzz.classify(l) for l in out.split("\n")]
    for k in kinds:
        ctx.report.dist["T5-line-" + k[0]] += 1
    oracle = [(k[1], "bad" if (k[2] == "(bad)" and k[3].strip() == "(bad)") else k[2]) for k in kinds if k[0] == "inst"]
    compare_text(ctx, out, tag, oracle=oracle)
    return out


def long_text(n, label_every, ops_kind):
    """a deterministic objdump-style listing with n instruction lines (labels and blank lines every `label_every`)"""
    mnems = ["push", "mov", "add", "sub", "lea", "call", "ret", "nop", "xor", "leave"]
    tails = {"push": "%rbp", "mov": "%rsp,%rbp", "add": "$0x10,%rsp", "sub": "$0x8,%rsp", "lea": "0x8(%rax,%rbx,4),%rcx",
             "call": "401000 <f0>", "ret": "", "nop": "", "xor": "%eax,%eax", "leave": ""}
    out = ["", "a.out:     file format elf64-x86-64", "", "", "Disassembly of section .text:"]
    oracle, addr = [], 0x401000
    for i in range(n):
        if i % label_every == 0:
            out += ["", "%016x <f%d>:" % (addr, i // label_every)]
        m = mnems[(i * 7 + i // 13) % len(mnems)]
        t = tails[m] if ops_kind else ""
        out.append("  %x:\t%s\t%s%s" % (addr, "90 " * (1 + i % 3) + " " * 12, m, ("    " + t) if t else ""))
        oracle.append(("%x" % addr, m))
        addr += 1 + i % 3
    return "\n".join(out) + "\n", oracle


def long_listing(ctx, n, label_every, ops_kind):
    """listings of ANY length: one record per instruction line also when the listing has hundreds of thousands of lines
    (nothing in the parser may depend on a block size, a recursion depth or a buffer length)"""
    rep = ctx.report
    text, oracle = long_text(n, label_every, ops_kind)
    s = impl.stream_of(ctx.scratch, text)
    case = {"kind": "long-listing", "instruction_lines": n, "label_every": label_every, "with_operands": ops_kind,
            "regenerate": "props/c08.py long_text(n, label_every, with_operands)"}
    if s[0] != "ok":
        rep.violate("parser-fails-on-long-listing", case, {"instructions": n}, {"outcome": s}, model_agrees_with_spec=None)
    else:
        dec = gen.decode_stream(s[1])
        got = [(a, mn) for a, mn, _ in dec] if dec is not None else None
        if got != oracle:
            miss = None
            if got is not None:
                k = next((i for i, (x, y) in enumerate(zip(got, oracle)) if x != y), min(len(got), len(oracle)))
                miss = {"first_difference_at_instruction": k, "expected": oracle[k] if k < len(oracle) else None,
                        "stream_has": got[k] if k < len(got) else None, "stream_instructions": len(got)}
            rep.violate("one-instruction-per-instruction-line(long listing)", case, {"instructions": n}, miss,
                        model_agrees_with_spec=None)
    rep.case(case, s[0] == "ok", tags=("long-listing",))


def run(ctx, factor):
    g, rep = ctx.g, ctx.report
    for k in range(ctx.budget(1, 6) * min(factor, 2)):
        long_listing(ctx, g.int(140000, 200000) if k == 0 else g.int(70000, 1200000), g.pick([50, 1000, 7]), g.chance(0.5))
    rep.rule = ("(i) listings rendered from random LineSpecs (instruction lines with 0-3 operands of every AT&T form, "
                "(bad), comments, annotations, continuation lines, labels, blanks, headers, sections, '...'): decoded "
                "implementation stream must carry exactly the expected (address, mnemonic) per instruction line, and "
                "equal the model's stream; (ii) the same lines with one character mutated: model vs implementation only; "
                "(iii) real `objdump -d -M att` output for random code bytes: model vs implementation and an independent "
                "line classifier as oracle; (iv) the listings under /repo/tests/assembly; non-trivial = both sides "
                "produced a stream")
    n = ctx.budget(600, 12000) * factor
    for _ in range(n):
        lines = gen_lines.listing(g, g.int(1, 12))
        r = ctx.driver.call({"op": "linespec", "lines": lines})["ok"]
        compare_text(ctx, r["text"], "grammar", expected=r["expected"])
        if g.chance(0.6):
            ls = list(r["lines"])
            j = g.r.randrange(len(ls))
            ls[j] = mutate(g, ls[j])
            compare_text(ctx, "\n".join(ls), "near-grammar(one character mutated)")
        if rep.has_new() and factor > 1:
            return
    # `data16` prefixes: objdump prints them in front of padding (`data16 cs nopw 0x0(%rax,%rax,1)`) and alone (`data16`,
    # `data16 data16`) when 0x66 bytes precede an undecodable opcode or end a section; one record per line in all cases
    for _ in range(ctx.budget(10, 300) * factor):
        lines, oracle, addr = ["", "Disassembly of section .text:", "", "0000000000401000 <f>:"], [], 0x401000
        for _ in range(g.int(1, 6)):
            body = g.pick(["data16", "data16 data16", "data16 cs nopw 0x0(%rax,%rax,1)", "data16 data16 cs nopw 0x0(%rax,%rax,1)",
                           "push   %rbp", "ret", "xchg   %ax,%ax", "data16 lea 0x0(%rip),%rdi",
                           "data16 lea 0x2f5c(%rip),%rdi        # 3fd8 <tls_var@@Base+0x3fd8>", "data16 call 401020 <__tls_get_addr@plt>"])
            nb = g.int(1, 7)
            lines.append("  %x:\t%s\t%s" % (addr, ("66 " * nb).ljust(21), body))
            rest = body.replace("data16 ", "")
            oracle.append(("%x" % addr, rest.split(" ")[0]))
            addr += nb
        compare_text(ctx, "\n".join(lines) + "\n", "data16-lines", oracle=oracle)
    # AVX-512 operand decorations (`0x40(%rdi){1to16}`, `%zmm1{%k1}{z}`, `(bad){%k3}`, `{rn-sae}`), segment overrides, x87
    # stack registers: outside the LineSpec grammar, printed by objdump all the same - one record per line, never a failure
    from props import c10
    for _ in range(ctx.budget(120, 2000) * factor):
        text, oracle = c10.decorated_listing(g, with_oracle=True)
        compare_text(ctx, text, "avx512-decorated-operands", oracle=oracle)
    for _ in range(ctx.budget(6, 400) * factor):
        objdump_case(ctx, g.int(40, 400))
    files = sorted(glob.glob(os.path.join(impl.REPO, "tests", "assembly", "*.s")))
    for f in files:
        if os.path.getsize(f) > (300000 if ctx.tier == "quick" else 3000000) or os.path.getsize(f) == 0:
            continue
        text = open(f, errors="replace").read()
        compare_text(ctx, text, "tests/assembly/" + os.path.basename(f))


def finding_reproduces(ctx, f):
    return None


def replay(ctx, payload):
    c = payload["case"]
    if c.get("kind") == "long-listing":
        text, oracle = long_text(c["instruction_lines"], c["label_every"], c["with_operands"])
        s = impl.stream_of(ctx.scratch, text)
        dec = gen.decode_stream(s[1]) if s[0] == "ok" else None
        return {"implementation_instructions": len(dec) if dec is not None else s, "expected": len(oracle)}
    text = payload["case"]["listing"]
    return {"implementation": impl.stream_of(ctx.scratch, text),
            "model": model.outcome(ctx.driver.call({"op": "stream", "text": text}))}

"""C16 Only the instruction sequence matters, not how the listing is presented."""
import gen, gen_lines, gen_rules, impl, model

CONSTS = ()
ASSUMPTIONS = ["every instruction line keeps a raw-byte column of at least one byte (listings without it, "
               "objdump --no-show-raw-insn, lose every instruction: known finding D12)"]


def run(ctx, factor):
    g, rep = ctx.g, ctx.report
    rep.rule = ("pairs of grammar listings with the same instruction sequence and random presentation edits (labels, "
                "<symbol+off> annotations, # comments, blank lines, section / file-format headers, indentation, width and "
                "content of the raw-byte column, continuation lines, \\r\\n line ends) at random positions: the real streams must be equal, "
                "and so must the results of a random rule in list mode; model stream compared as well")
    for _ in range(ctx.budget(700, 16000) * factor):
        l1 = gen_lines.listing(g, g.int(1, 10))
        l2 = gen_lines.presentation_edit(g, l1)
        r1 = ctx.driver.call({"op": "linespec", "lines": l1})["ok"]
        r2 = ctx.driver.call({"op": "linespec", "lines": l2})["ok"]
        if r1["expected"] != r2["expected"]:
            raise RuntimeError("presentation edit changed the instruction sequence")
        s1 = impl.stream_of(ctx.scratch, r1["text"])
        s2 = impl.stream_of(ctx.scratch, r2["text"])
        case = {"listing_1": r1["text"], "listing_2": r2["text"]}
        for s, r in ((s1, r1), (s2, r2)):
            m = model.outcome(ctx.driver.call({"op": "stream", "text": r["text"]}))
            if m[0] != "unsup" and (s[0] != m[0] or (s[0] == "ok" and s[1] != m[1])):
                rep.disagree("T3-stream", {"listing": r["text"]}, s, m)
        if s1 != s2:
            rep.violate("presentation-changes-the-stream", case, "equal streams", {"stream_1": s1, "stream_2": s2})
        elif g.chance(0.3):
            doc = gen_rules.rule(g, {"ops", "logic"}, depth=1)
            a = impl.run_op(ctx.scratch, doc, r1["text"], mode="all", ret="list")
            b = impl.run_op(ctx.scratch, doc, r2["text"], mode="all", ret="list")
            rep.dist["result-pairs"] += 1
            if a != b:
                rep.violate("presentation-changes-the-result", dict(case, rule=doc), "equal results", {"result_1": a, "result_2": b})
        if g.chance(0.3):
            # the same pair under a rule that installs the address-range observer as well (a second observer in the
            # consumer's chain): presentation still must not matter, for the stream and for the results
            cfg = {"valid_addr_range": g.pick([{"min": "0xfffffffffff0", "max": "0xffffffffffff"}, {"min": "0", "max": "ffffffff"}])}
            t1 = impl.stream_of(ctx.scratch, r1["text"], config=cfg)
            t2 = impl.stream_of(ctx.scratch, r2["text"], config=cfg)
            rep.dist["pairs-under-valid_addr_range"] += 1
            if t1 != t2 and t1[0] == "ok" and t2[0] == "ok":
                rep.violate("presentation-changes-the-stream(with valid_addr_range)", dict(case, config=cfg), "equal streams",
                            {"stream_1": t1, "stream_2": t2})
            elif t1 == t2 and t1[0] == "ok":
                doc = gen_rules.rule(g, {"ops", "logic"}, depth=1)
                doc["config"] = dict(doc.get("config") or {}, **cfg)
                a = impl.run_op(ctx.scratch, doc, r1["text"], mode="all", ret="list")
                b = impl.run_op(ctx.scratch, doc, r2["text"], mode="all", ret="list")
                if a != b:
                    rep.violate("presentation-changes-the-result(with valid_addr_range)", dict(case, rule=doc), "equal results",
                                {"result_1": a, "result_2": b})
        if g.chance(0.25):
            # line ends: the same listing file saved with \r\n (objdump on a text-mode stdout, a Windows editor)
            crlf = r1["text"].replace("\n", "\r\n")
            s3 = impl.stream_of(ctx.scratch, crlf)
            m3 = model.outcome(ctx.driver.call({"op": "stream", "text": crlf}))
            rep.dist["crlf-pairs"] += 1
            if m3[0] != "unsup" and (s3[0] != m3[0] or (s3[0] == "ok" and s3[1] != m3[1])):
                rep.disagree("T3-stream(crlf)", {"listing": crlf}, s3, m3)
            if s3 != s1:
                rep.violate("line-ends-change-the-stream", {"listing_1": r1["text"], "listing_2": crlf}, "equal streams",
                            {"stream_1": s1, "stream_2": s3})
        rep.case(case, s1[0] == "ok" and bool(r1["expected"]), tags=["edit-pair"])
        if rep.has_new() and factor > 1:
            return


def finding_reproduces(ctx, f):
    w = f["witness"]
    s1 = impl.stream_of(ctx.scratch, w["listing_1"])
    s2 = impl.stream_of(ctx.scratch, w["listing_2"])
    return s1 != s2


def replay(ctx, payload):
    c = payload["case"]
    return {"stream_1": impl.stream_of(ctx.scratch, c["listing_1"]), "stream_2": impl.stream_of(ctx.scratch, c["listing_2"])}

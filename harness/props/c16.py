"""C16 Only the instruction sequence matters, not how the listing is presented."""
import gen, gen_lines, gen_rules, impl, model

CONSTS = ()
ASSUMPTIONS = ["every instruction line keeps a raw-byte column of at least one byte (listings without it, "
               "objdump --no-show-raw-insn, lose every instruction: known finding D12)"]


def prefixed_pairs(ctx, n):
    """lines objdump prints with a prefix word in front of the mnemonic (`data16 lea …`, `lock cmpxchg …`, `rep stos …`,
    `notrack jmp …`, `bnd jmp …`): the same line with and without its `<symbol+off>` annotation / `# comment`, with a
    different comment, with another raw-byte column - the instruction stream must be the same"""
    g, rep = ctx.g, ctx.report
    bodies = [("data16 lea", "0x2f5c(%rip),%rdi"), ("data16 rex.W call", "1030"), ("data16 cs nopw", "0x0(%rax,%rax,1)"),
              ("lock cmpxchg", "%rcx,0x8(%rdx)"), ("rep stos", "%al,%es:(%rdi)"), ("notrack jmp", "*%rax"), ("bnd jmp", "401000"),
              ("data16 xchg", "%ax,%ax"), ("data16 call", "401020"), ("repz cmpsb", "%es:(%rdi),%ds:(%rsi)"), ("data16", "")]
    for _ in range(n):
        rows = [g.pick(bodies) for _ in range(g.int(1, 4))]

        def render(variant):
            out, addr = ["", "0000000000001130 <f>:"], 0x1130
            for i, (pre, ops) in enumerate(rows):
                nb = 3 + i
                bytes_col = " ".join(["66"] * nb) if variant != 2 else " ".join(["0f"] * nb)
                tail = ""
                if variant in (1, 3) and ops:
                    hexish = ops.replace("*", "")
                    direct = all(c in "0123456789abcdef" for c in hexish) and not ops.startswith("*")
                    tail = (" <%s>" % g.pick(["sym+0x10", "__tls_get_addr@plt", "f"])) if direct else \
                           ("        # %x <%s>" % (0x3fd8 + i, g.pick(["tls_var@@Base+0x3fd8", "g+0x4", "x"])))
                    if variant == 3:
                        tail = tail.replace("<", "<other_")
                out.append("    %x:\t%s \t%s%s%s" % (addr, bytes_col.ljust(20), pre, ("    " + ops) if ops else "", tail))
                addr += nb
            return "\n".join(out) + "\n"
        texts = [render(v) for v in (0, 1, 2, 3)]
        streams = [impl.stream_of(ctx.scratch, t) for t in texts]
        case = {"listing_plain": texts[0], "listing_annotated": texts[1]}
        for k in (1, 2, 3):
            if streams[k] != streams[0]:
                rep.violate("presentation-changes-the-stream(prefixed lines)",
                            {"listing_1": texts[0], "listing_2": texts[k], "edit": ["", "annotations/comments added", "raw-byte column changed", "annotations/comments changed"][k]},
                            "equal streams", {"stream_1": streams[0], "stream_2": streams[k]}, model_agrees_with_spec=None)
                break
        rep.case(case, streams[0][0] == "ok", tags=["prefixed-line-pairs"])
        if rep.has_new() and ctx.tier == "thorough":
            return


def run(ctx, factor):
    g, rep = ctx.g, ctx.report
    prefixed_pairs(ctx, ctx.budget(40, 600) * factor)
    rep.rule = ("pairs of grammar listings with the same instruction sequence and random presentation edits (labels, "
                "<symbol+off> annotations, # comments, blank lines, section / file-format headers, indentation, width and "
                "content of the raw-byte column, continuation lines, \\r\\n line ends) at random positions: the real streams must be equal, "
                "and so must the results of a random rule in list mode; model stream compared as well")
    for _ in range(ctx.budget(700, 16000) * factor):
        l1 = gen_lines.listing(g, g.int(1, 10))
        l2 = gen_lines.presentation_edit(g, l1)
        r1 = ctx.driver.call({"op": "linespec", "lines": l1})["ok"]
        r2 = ctx.driver.call({"op": "linespec", "lines": l2})["ok"]
        if r1["expected"] != r2["expected"]:
            raise RuntimeError("presentation edit changed the instruction sequence")
        s1 = impl.stream_of(ctx.scratch, r1["text"])
        s2 = impl.stream_of(ctx.scratch, r2["text"])
        case = {"listing_1": r1["text"], "listing_2": r2["text"]}
        for s, r in ((s1, r1), (s2, r2)):
            m = model.outcome(ctx.driver.call({"op": "stream", "text": r["text"]}))
            if m[0] != "unsup" and (s[0] != m[0] or (s[0] == "ok" and s[1] != m[1])):
                rep.disagree("T3-stream", {"listing": r["text"]}, s, m)
        if s1 != s2:
            rep.violate("presentation-changes-the-stream", case, "equal streams", {"stream_1": s1, "stream_2": s2})
        elif g.chance(0.3):
            doc = gen_rules.rule(g, {"ops", "logic"}, depth=1)
            a = impl.run_op(ctx.scratch, doc, r1["text"], mode="all", ret="list")
            b = impl.run_op(ctx.scratch, doc, r2["text"], mode="all", ret="list")
            rep.dist["result-pairs"] += 1
            if a != b:
                rep.violate("presentation-changes-the-result", dict(case, rule=doc), "equal results", {"result_1": a, "result_2": b})
        if g.chance(0.3):
            # the same pair under a rule that installs the address-range observer as well (a second observer in the
            # consumer's chain): presentation still must not matter, for the stream and for the results
            cfg = {"valid_addr_range": g.pick([{"min": "0xfffffffffff0", "max": "0xffffffffffff"}, {"min": "0", "max": "ffffffff"}])}
            t1 = impl.stream_of(ctx.scratch, r1["text"], config=cfg)
            t2 = impl.stream_of(ctx.scratch, r2["text"], config=cfg)
            rep.dist["pairs-under-valid_addr_range"] += 1
            if t1 != t2 and t1[0] == "ok" and t2[0] == "ok":
                rep.violate("presentation-changes-the-stream(with valid_addr_range)", dict(case, config=cfg), "equal streams",
                            {"stream_1": t1, "stream_2": t2})
            elif t1 == t2 and t1[0] == "ok":
                doc = gen_rules.rule(g, {"ops", "logic"}, depth=1)
                doc["config"] = dict(doc.get("config") or {}, **cfg)
                a = impl.run_op(ctx.scratch, doc, r1["text"], mode="all", ret="list")
                b = impl.run_op(ctx.scratch, doc, r2["text"], mode="all", ret="list")
                if a != b:
                    rep.violate("presentation-changes-the-result(with valid_addr_range)", dict(case, rule=doc), "equal results",
                                {"result_1": a, "result_2": b})
        if g.chance(0.25):
            # line ends: the same listing file saved with \r\n (objdump on a text-mode stdout, a Windows editor)
            crlf = r1["text"].replace("\n", "\r\n")
            s3 = impl.stream_of(ctx.scratch, crlf)
            m3 = model.outcome(ctx.driver.call({"op": "stream", "text": crlf}))
            rep.dist["crlf-pairs"] += 1
            if m3[0] != "unsup" and (s3[0] != m3[0] or (s3[0] == "ok" and s3[1] != m3[1])):
                rep.disagree("T3-stream(crlf)", {"listing": crlf}, s3, m3)
            if s3 != s1:
                rep.violate("line-ends-change-the-stream", {"listing_1": r1["text"], "listing_2": crlf}, "equal streams",
                            {"stream_1": s1, "stream_2": s3})
        rep.case(case, s1[0] == "ok" and bool(r1["expected"]), tags=["edit-pair"])
        if rep.has_new() and factor > 1:
            return


def finding_reproduces(ctx, f):
    w = f["witness"]
    s1 = impl.stream_of(ctx.scratch, w["listing_1"])
    s2 = impl.stream_of(ctx.scratch, w["listing_2"])
    return s1 != s2


def replay(ctx, payload):
    c = payload["case"]
    return {"stream_1": impl.stream_of(ctx.scratch, c["listing_1"]), "stream_2": impl.stream_of(ctx.scratch, c["listing_2"])}

"""C09 Operands reach patterns in a fixed normal form."""
import gen, gen_lines, impl, model

CONSTS = ()
ASSUMPTIONS = ["operand components are free of ( ) , # and blanks (AT&T forms of the property)"]


def py_normal(o):
    """independent Python reading of the table in the property"""
    k = o["k"]
    if k == "imm":
        return o["v"]
    if k == "reg":
        return "%" + o["r"]
    if k == "target":
        return o["h"]
    if k == "star":
        return "*%" + o["r"]
    inner = o.get("a") or ""
    if o.get("b") is not None:
        inner += "+%s*%s" % (o["b"], o["c"])
    return "[" + inner + (("+" + o["disp"]) if o.get("disp") else "") + "]"


def run(ctx, factor):
    g, rep = ctx.g, ctx.report
    rep.rule = ("instruction lines with 0-5 operands in any mix of the AT&T forms ($imm, %reg over all GPRs and widths, "
                "k(a,b,c), (a,b,c), k(,b,c), k(a), (a) with scales 1/2/4/8 and displacements of either sign, direct "
                "targets with <symbol> annotation), printed by the grammar; the decoded implementation stream must carry "
                "the normal forms of the Lean specification (cross-checked with an independent Python table), in number "
                "and order; model stream compared as well")
    n = ctx.budget(2000, 40000) * factor
    for _ in range(n):
        line, _ = gen_lines.inst_line(g, g.int(0, 0xfffff))
        if line["mnem"] == "(bad)":
            continue
        nops = g.pick([0, 1, 2, 3, 3, 4, 5])          # XOP/FMA4 instructions have four and five operands
        line["ops"] = [gen_lines.operand(g) for _ in range(nops)]
        line["gap"] = g.int(1, 5)
        line["annot"] = g.pick([None, "sym+0x4", "Matrix<double>::rows() const", "Foo::operator->()", "void swap<int>(int&, int&)",
                                "<T as Trait>::f+0x8", "operator>>(S&, int)", "a<b<c> >::d"]) if nops and line["ops"][-1]["k"] == "target" else None
        r = ctx.driver.call({"op": "linespec", "lines": [line]})["ok"]
        exp = r["expected"][0]
        pyexp = [py_normal(o) for o in line["ops"]]
        if exp[2] != pyexp:
            raise RuntimeError("Lean normalForm and the Python table disagree: %r %r %r" % (line, exp, pyexp))
        s = impl.stream_of(ctx.scratch, r["text"])
        m = model.outcome(ctx.driver.call({"op": "stream", "text": r["text"]}))
        case = {"line": r["text"], "operands": line["ops"]}
        if m[0] == "unsup":
            rep.unsupported += 1
        elif s[0] != m[0] or (s[0] == "ok" and s[1] != m[1]):
            rep.disagree("T3-stream", case, s, m)
        dec = gen.decode_stream(s[1]) if s[0] == "ok" else None
        got = dec[0][2] if dec else None
        if got != exp[2]:
            rep.violate("operand-normal-form", case, {"operands": exp[2]}, {"outcome": s[0], "operands": got},
                        model_agrees_with_spec=(m[0] == "ok" and gen.decode_stream(m[1]) and gen.decode_stream(m[1])[0][2] == exp[2]))
        rep.case(case, s[0] == "ok", tags=["operands=%d" % nops] + ["form:" + o["k"] + ("/" + "".join(sorted(k for k in o if k in "abc" or k == "disp")) if o["k"] == "mem" else "") for o in line["ops"]])
        if rep.has_new() and factor > 1:
            return


def finding_reproduces(ctx, f):
    return None


def replay(ctx, payload):
    text = payload["case"]["line"]
    return {"implementation": impl.stream_of(ctx.scratch, text),
            "model": model.outcome(ctx.driver.call({"op": "stream", "text": text}))}

"""C06 `$deref` matches exactly the memory operand objdump prints as k(a,b,c)."""
import gen_rules, patdiff
from props.common_pat import run_cases, blob_tagger, finding_reproduces, replay  # noqa: F401

CONSTS = ("OPTIONAL_PERCENTAGE_CHAR", "OPTIONAL_HEX_CHAR", "DEREF_CHILD_NAMES", "IGNORE_INST_ADDR",
          "SKIP_TO_END_OF_PATTERN_NODE")
ASSUMPTIONS = ["deref components are literal register names / constants (free of regex metacharacters)"]

REGS = ["rax", "rbx", "rcx", "rdx", "rsi", "rdi", "rbp", "rsp", "r8", "r9", "r10", "r11", "r12", "r13", "r14", "r15"]


def deref_rule(g):
    a, b = g.pick(REGS), g.pick(REGS)
    c = g.pick([1, 2, 4, 8])
    # displacements whose last digits are letters that also occur in register names (a, b, c, d, e): a normaliser that
    # trims characters instead of a substring would eat them
    k = g.pick(["0x8", "0x10", "0x0", "0x1c", "-0x8", "-0x10", "0x100", "8", "0x1a", "0x2b", "0xdc", "-0xa", "0x3d", "0xbad"])
    d = {"main_reg": ("%" + a) if g.chance(0.5) else a}
    shape = g.int(0, 7)
    if shape & 1:
        d["register_multiplier"] = ("%" + b) if g.chance(0.5) else b
    if shape & 2:
        d["constant_multiplier"] = c if g.chance(0.5) else str(c)
    if shape & 4:
        d["constant_offset"] = k[2:] if (k.startswith("0x") and g.chance(0.3)) else k
    m = g.pick(["mov", "lea", "add"])
    ops = [{"$deref": d}]
    if g.chance(0.5):
        ops.insert(g.int(0, 1), g.pick(["rax", "%rbx", "0x10", "ecx"]))
    doc = {"pattern": [{m: ops}]}
    if g.chance(0.3):
        doc["config"] = {"operands-full-match": g.chance(0.5)}
    return doc, (a, b, c, k, shape)


def near_operands(g, a, b, c, k, shape):
    """the operand the rule describes and near misses (one component changed, extra/missing component, other shapes);
    each as (printed text, components) with components = (displacement or None, base, (index, scale) or None) - None for
    operands that are no memory reference"""
    def mem(a, b, c, k, shape):
        inner = "%" + a
        idx = None
        if shape & 1 and shape & 2:
            inner += ",%%%s,%s" % (b, c)
            idx = (b, str(c))
        elif shape & 1:
            inner += ",%%%s,1" % b         # objdump always prints the scale
            idx = (b, "1")
        elif shape & 2:
            inner += ",,%s" % c            # never printed by objdump; the parser's reaction is compared with the model only
            return (k if shape & 4 else "") + "(" + inner + ")", "unprintable"
        return (k if shape & 4 else "") + "(" + inner + ")", ((k if shape & 4 else None), a, idx)
    out = [mem(a, b, c, k, shape if (shape & 3) in (0, 1, 3) else (shape | 3))]
    out.append(mem(g.pick(REGS), b, c, k, shape | 3))
    out.append(mem(a, g.pick(REGS), c, k, shape | 3))
    out.append(mem(a, b, g.pick([1, 2, 4, 8]), k, shape | 3))
    out.append(mem(a, b, c, g.pick(["0x8", "0x18", "-0x8", "0x80"]), shape | 7))
    out.append(mem(a, b, c, k, (shape | 3) ^ 4))
    out.append(mem(a, b, c, k, shape & 4))
    out.append(("%" + a, None))
    out.append(("$" + (k if not k.startswith("-") else "0x8"), None))
    out.append(mem(a, b, c, k + "0", shape | 4))
    # the same displacement with the opposite sign (a pattern written `8` or `0x8` must not accept `-0x8` and vice versa)
    kk = k if k.startswith(("0x", "-")) else "0x" + k
    neg = kk[1:] if kk.startswith("-") else "-" + kk
    out.append(mem(a, b, c, neg, shape | 4))
    out.append(mem(a, b, c, neg, 4))
    # a displacement that reads like the scale: `8(%a)` must not pass for a reference with scale 8 and vice versa
    out.append(mem(a, b, c, g.pick(["0x%s" % c, str(c)]), 4))
    return out


def expected_by_property(shape, a, b, c, k, comps):
    """Independent oracle, straight from the property text: the `$deref` with the present fields (shape bits: 1 index
    register, 2 scale, 4 displacement) matches a memory reference iff it has the SAME present components, each equal
    up to the optional `0x` of constants (registers are printed with `%`, which the pattern may omit)."""
    if comps is None:
        return False            # register, immediate: no memory reference
    k2, a2, idx = comps

    def const_eq(pat, got):
        return got in (str(pat), "0x" + str(pat))
    if a2 != a:
        return False
    if bool(shape & 1) != bool(shape & 2):
        return False            # objdump prints index and scale together or not at all
    if bool(shape & 1) != (idx is not None):
        return False
    if idx is not None and not (idx[0] == b and const_eq(c, idx[1])):
        return False
    if bool(shape & 4) != (k2 is not None):
        return False
    if k2 is not None and not const_eq(k, k2):
        return False
    return True


def run(ctx, factor):
    g, rep = ctx.g, ctx.report
    rep.rule = ("one $deref operand per rule over the 8 present/absent field combinations x %/0x spellings; for each rule "
                "13 operands: the described one and near misses (incl. the displacement with the opposite sign) (other base/index/scale/displacement, extra or missing "
                "component, register, immediate, displacement with one more digit), printed in AT&T form and sent "
                "through the real parser; verdict vs the specification's set of accepted normal forms and, for one-operand rules, vs an independent component-agreement oracle written from the property text")
    n = ctx.budget(40, 900) * factor
    for _ in range(n):
        doc, (a, b, c, k, shape) = deref_rule(g)
        m = next(iter(doc["pattern"][0]))
        nops = len(doc["pattern"][0][m])
        pat_k = doc["pattern"][0][m][[i for i, x in enumerate(doc["pattern"][0][m]) if isinstance(x, dict)][0]]["$deref"].get("constant_offset")
        for cand, comps in near_operands(g, a, b, c, k, shape):
            ops = [cand]
            if nops == 2:
                pos = [i for i, x in enumerate(doc["pattern"][0][m]) if isinstance(x, dict)][0]
                other = g.pick(["%rax", "%rbx", "$0x10", "%ecx"])
                ops = [cand, other] if pos == 0 else [other, cand]
            insts = [("401000", "nop", []), ("401001", m, ops), ("401008", "ret", [])]
            o = patdiff.observe(ctx, doc, insts, modes=("bool", "all"), spec_on="listing")
            usable = patdiff.correspondence(ctx, o)
            tags = ["shape=%d" % shape]
            if usable:
                tags.append("spec-found" if o["model"][1]["spec"]["found"] else "spec-not-found")
                patdiff.spec_verdict(ctx, o)
                if nops == 1 and comps != "unprintable":
                    # the independent oracle (component agreement as the property words it)
                    exp = expected_by_property(shape, a, b, c, pat_k, comps)
                    if o["impl_bool"] != ("ok", exp):
                        rep.violate("component-agreement", patdiff.case_of(o), {"found": exp}, {"found": o["impl_bool"]},
                                    model_agrees_with_spec=(o["model"][1]["spec"]["found"] == exp))
                    tags.append("oracle-found" if exp else "oracle-not-found")
            rep.case(patdiff.case_of(o), usable, tags=tags)
        if rep.has_new() and factor > 1:
            return
    # deref inside random rules as well
    run_cases(ctx, factor, {"ops", "deref", "deref_logic", "ops_logic"}, 100, 3000, scan=True, tagger=blob_tagger(["$deref"]))

"""C06 `$deref` matches exactly the memory operand objdump prints as k(a,b,c)."""
import gen_rules, patdiff
from props.common_pat import run_cases, blob_tagger, finding_reproduces, replay  # noqa: F401

CONSTS = ("OPTIONAL_PERCENTAGE_CHAR", "OPTIONAL_HEX_CHAR", "DEREF_CHILD_NAMES", "IGNORE_INST_ADDR",
          "SKIP_TO_END_OF_PATTERN_NODE")
ASSUMPTIONS = ["deref components are literal register names / constants (free of regex metacharacters)"]

REGS = ["rax", "rbx", "rcx", "rdx", "rsi", "rdi", "rbp", "rsp", "r8", "r9", "r10", "r11", "r12", "r13", "r14", "r15"]


def deref_rule(g):
    a, b = g.pick(REGS), g.pick(REGS)
    c = g.pick([1, 2, 4, 8])
    # displacements whose last digits are letters that also occur in register names (a, b, c, d, e): a normaliser that
    # trims characters instead of a substring would eat them
    k = g.pick(["0x8", "0x10", "0x0", "0x1c", "-0x8", "-0x10", "0x100", "8", "0x1a", "0x2b", "0xdc", "-0xa", "0x3d", "0xbad"])
    d = {"main_reg": ("%" + a) if g.chance(0.5) else a}
    shape = g.int(0, 7)
    if shape & 1:
        d["register_multiplier"] = ("%" + b) if g.chance(0.5) else b
    if shape & 2:
        d["constant_multiplier"] = c if g.chance(0.5) else str(c)
    if shape & 4:
        d["constant_offset"] = k[2:] if (k.startswith("0x") and g.chance(0.3)) else k
    m = g.pick(["mov", "lea", "add"])
    ops = [{"$deref": d}]
    if g.chance(0.5):
        ops.insert(g.int(0, 1), g.pick(["rax", "%rbx", "0x10", "ecx"]))
    doc = {"pattern": [{m: ops}]}
    if g.chance(0.3):
        doc["config"] = {"operands-full-match": g.chance(0.5)}
    return doc, (a, b, c, k, shape)


def near_operands(g, a, b, c, k, shape):
    """the operand the rule describes and near misses (one component changed, extra/missing component, other shapes)"""
    def mem(a, b, c, k, shape):
        inner = "%" + a
        if shape & 1 and shape & 2:
            inner += ",%%%s,%s" % (b, c)
        elif shape & 1:
            inner += ",%%%s,1" % b         # objdump always prints the scale
        elif shape & 2:
            inner += ",,%s" % c
        return (k if shape & 4 else "") + "(" + inner + ")"
    out = [mem(a, b, c, k, shape if (shape & 3) in (0, 1, 3) else (shape | 3))]
    out.append(mem(g.pick(REGS), b, c, k, shape | 3))
    out.append(mem(a, g.pick(REGS), c, k, shape | 3))
    out.append(mem(a, b, g.pick([1, 2, 4, 8]), k, shape | 3))
    out.append(mem(a, b, c, g.pick(["0x8", "0x18", "-0x8", "0x80"]), shape | 7))
    out.append(mem(a, b, c, k, (shape | 3) ^ 4))
    out.append(mem(a, b, c, k, shape & 4))
    out.append("%" + a)
    out.append("$" + (k if not k.startswith("-") else "0x8"))
    out.append(mem(a, b, c, k + "0", shape | 4))
    # the same displacement with the opposite sign (a pattern written `8` or `0x8` must not accept `-0x8` and vice versa)
    kk = k if k.startswith(("0x", "-")) else "0x" + k
    neg = kk[1:] if kk.startswith("-") else "-" + kk
    out.append(mem(a, b, c, neg, shape | 4))
    out.append(mem(a, b, c, neg, 4))
    return out


def run(ctx, factor):
    g, rep = ctx.g, ctx.report
    rep.rule = ("one $deref operand per rule over the 8 present/absent field combinations x %/0x spellings; for each rule "
                "12 operands: the described one and near misses (incl. the displacement with the opposite sign) (other base/index/scale/displacement, extra or missing "
                "component, register, immediate, displacement with one more digit), printed in AT&T form and sent "
                "through the real parser; verdict vs the specification's set of accepted normal forms")
    n = ctx.budget(40, 900) * factor
    for _ in range(n):
        doc, (a, b, c, k, shape) = deref_rule(g)
        m = next(iter(doc["pattern"][0]))
        nops = len(doc["pattern"][0][m])
        for cand in near_operands(g, a, b, c, k, shape):
            ops = [cand]
            if nops == 2:
                pos = [i for i, x in enumerate(doc["pattern"][0][m]) if isinstance(x, dict)][0]
                other = g.pick(["%rax", "%rbx", "$0x10", "%ecx"])
                ops = [cand, other] if pos == 0 else [other, cand]
            insts = [("401000", "nop", []), ("401001", m, ops), ("401008", "ret", [])]
            o = patdiff.observe(ctx, doc, insts, modes=("bool", "all"), spec_on="listing")
            usable = patdiff.correspondence(ctx, o)
            tags = ["shape=%d" % shape]
            if usable:
                tags.append("spec-found" if o["model"][1]["spec"]["found"] else "spec-not-found")
                patdiff.spec_verdict(ctx, o)
            rep.case(patdiff.case_of(o), usable, tags=tags)
        if rep.violations and factor > 1:
            return
    # deref inside random rules as well
    run_cases(ctx, factor, {"ops", "deref", "deref_logic", "ops_logic"}, 100, 3000, scan=True, tagger=blob_tagger(["$deref"]))

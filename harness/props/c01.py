"""C01 Instruction-sequence patterns match exactly the listings that contain them."""
import itertools
import gen, gen_rules, patdiff, impl, model

import enginetie

CONSTS = ("IGNORE_INST_ADDR", "IGNORE_NAME_PREFIX", "IGNORE_NAME_SUFFIX", "SKIP_TO_END_OF_PATTERN_NODE")
ASSUMPTIONS = [
    "names are literal: free of regex metacharacters and of , | :, not starting with $ & @, not 'times', "
    "operand names not of the form [0-9a-fA-F]+h (known finding D11)",
    "every stream record is at most 1000 characters long (the code's own {0,1000} limit)",
]


def rel(full, name, text):
    return name == text if full else name in text


def window_oracle(doc, insts):
    """independent Python reading of the property's right-hand side"""
    cfg = doc.get("config") or {}
    mf, of = bool(cfg.get("mnemonics-full-match", False)), bool(cfg.get("operands-full-match", False))
    items = []
    for it in doc["pattern"]:
        if isinstance(it, dict):
            k = next(iter(it))
            items.append((str(k), [str(x) for x in it[k]]))
        else:
            items.append((str(it), []))
    n = len(items)
    for i in range(len(insts) - n + 1):
        ok = True
        for j, (m, ops) in enumerate(items):
            a, im, iops = insts[i + j]
            fields = iops if iops else [""]
            if not rel(mf, m, im) or any(k >= len(fields) or not rel(of, name, fields[k]) for k, name in enumerate(ops)):
                ok = False
                break
        if ok:
            return True
    return False


def one(ctx, doc, insts, tag):
    rep = ctx.report
    o = patdiff.observe(ctx, doc, insts, modes=("bool", "all", "first"))
    usable = patdiff.correspondence(ctx, o)
    nontrivial = False
    if usable:
        mr = o["model"][1]
        found = mr["spec"]["found"]
        nontrivial = True
        rep.dist["spec-found" if found else "spec-not-found"] += 1
        patdiff.spec_verdict(ctx, o, "verdict-vs-window")
        w = window_oracle(doc, o["decoded"])
        if w != found:
            raise RuntimeError("Lean specification and Python window oracle disagree: %r" % (patdiff.case_of(o),))
        # whole-operation tie (theorem C01_pipeline is about `runOp`): rule file + listing file -> Boolean
        whole = model.outcome(ctx.driver.call({"op": "run", "doc": model.y2j(doc), "macroDocs": [], "kind": "assembly",
                                                 "text": o["text"], "mode": "first", "addrOnly": False, "ret": "bool"}))
        if whole[0] != "unsup" and (whole[0] != "ok" or ("ok", whole[1]) != o["impl_bool"]):
            rep.disagree("T6-whole-operation", patdiff.case_of(o), o["impl_bool"], whole)
    rep.case(patdiff.case_of(o), nontrivial, tags=(tag, "items=%d" % len(doc["pattern"])))


def run(ctx, factor):
    # engine tie T2: the model of the regex engine alone against the real engine (random ASTs of the emitted operator set)
    enginetie.run(ctx, ctx.budget(500, 20000))
    g, rep = ctx.g, ctx.report
    rep.rule = ("rules = lists of 1-4 literal items (mnemonic + 0-3 positional operand names) x 4 flag settings; "
                "small-scope exhaustive part (items<=2, operands<=2, distinguishable names) then random; listings "
                "realised from the rule and perturbed by one near-miss edit; non-trivial = the case reached the "
                "specification comparison (both sides compiled and ran); distinct = by digest of (rule, listing)")
    # small-scope exhaustive: shapes x flags, one realised + one perturbed listing each
    if factor == 1:
        shapes = [s for n in (1, 2) for s in itertools.product(range(3), repeat=n)]
        names = ["mov", "add", "push"]
        opn = [["rax", "rbx"], ["rcx", "0x10"], ["rdx", "8"]]
        for shape in shapes:
            for mf in (False, True):
                for of in (False, True):
                    pat = []
                    for j, nops in enumerate(shape):
                        pat.append(names[j] if nops == 0 else {names[j]: opn[j][:nops]})
                    doc = {"config": {"mnemonics-full-match": mf, "operands-full-match": of}, "pattern": pat}
                    insts = gen_rules.realise(g, doc)
                    one(ctx, doc, insts, "exhaustive-shape")
                    one(ctx, doc, gen_rules.perturb(g, insts), "exhaustive-shape-perturbed")
    n = ctx.budget(250, 6000) * factor
    for _ in range(n):
        doc = gen_rules.rule(g, {"ops"}, depth=0)
        insts = gen_rules.realise(g, doc)
        if g.chance(0.55):
            insts = gen_rules.perturb(g, insts)
            tag = "random-perturbed"
        else:
            tag = "random-realised"
        one(ctx, doc, insts, tag)
        # systematic near misses for the full-match flags: one mnemonic / one operand of the realised window made longer
        # (contained-in still holds, equal does not), for items with and without operands
        cfg = doc.get("config") or {}
        base = gen_rules.realise(g, doc)
        if base and (cfg.get("mnemonics-full-match") or cfg.get("operands-full-match")) and g.chance(0.6):
            j = g.r.randrange(len(base))
            a, m, ops = base[j]
            if cfg.get("mnemonics-full-match") and (not ops or g.chance(0.5) or not cfg.get("operands-full-match")):
                base[j] = (a, m + g.pick(["l", "q", "x"]) if g.chance(0.7) else "c" + m, ops)
            elif ops:
                k = g.r.randrange(len(ops))
                ops = list(ops)
                ops[k] = ops[k] + g.pick(["d", "0", "x"]) if not ops[k].endswith(")") else "%" + ops[k]
                base[j] = (a, m, ops)
            one(ctx, doc, base, "full-match-near-miss")
        # a name differing from the listing only in letter case does not occur in it (matching is case-sensitive)
        if g.chance(0.2):
            import copy
            d2 = copy.deepcopy(doc)
            j = g.r.randrange(len(d2["pattern"]))
            it = d2["pattern"][j]
            if isinstance(it, str):
                d2["pattern"][j] = it.upper()
            elif isinstance(it, dict):
                k = next(iter(it))
                if isinstance(it[k], list) and it[k] and g.chance(0.5):
                    a = g.r.randrange(len(it[k]))
                    if isinstance(it[k][a], str):
                        it[k][a] = it[k][a].upper()
                else:
                    d2["pattern"][j] = {k.upper(): it[k]}
            if d2 != doc:
                one(ctx, d2, gen_rules.realise(g, doc), "letter-case-near-miss")
        # a name is a literal text: `%ax` occurs in `%ax` but not in `%rax` / `%eax` (its letters do, the text does not)
        if g.chance(0.15):
            short, wide = g.pick([("%ax", ["%rax", "%eax", "%ax"]), ("%cx", ["%rcx", "%ecx", "%cx"]), ("%bp", ["%rbp", "%ebp", "%bp"]),
                                  ("%si", ["%rsi", "%esi", "%si"]), ("%dx", ["%rdx", "%edx", "%dx"])])       # names free of regex metacharacters
            mn = g.pick(["mov", "add", "cmp"])
            second = g.chance(0.5)
            d3 = {"pattern": [{mn: ["%rsp", short] if second else [short]}]}
            if g.chance(0.3):
                d3["config"] = {"mnemonics-full-match": g.chance(0.5), "operands-full-match": False}
            reg = g.pick(wide)
            ins = [("1000", "push", ["%rbx"]), ("1002", mn, ["%rsp", reg] if second else [reg, "%rdx"]), ("1005", "ret", [])]
            one(ctx, d3, ins, "literal-name-near-miss")
        if rep.has_new() and factor > 1:
            return


def finding_reproduces(ctx, f):
    w = f["witness"]
    o = patdiff.observe(ctx, w["rule"], text=w["listing"], modes=("bool",))
    return o["impl_bool"] == ("ok", w["observed_found"]) and w["observed_found"] != w["expected_found"]


def replay(ctx, payload):
    c = payload["case"]
    o = patdiff.observe(ctx, c["rule"], text=c["listing"], modes=("bool", "all", "first"))
    return {"implementation": {k: o.get(k) for k in ("impl_regex", "impl_stream", "impl_bool", "impl_all")},
            "model_and_specification": o["model"]}

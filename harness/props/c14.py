"""C14 Results depend only on the current inputs, never on earlier runs in the process."""
import json, os, subprocess, sys
import gen, gen_rules, gen_lines, impl, model, objfuzz

CONSTS = ()
ASSUMPTIONS = ["operations are complete compile-and-match operations performed one after the other",
               "interpreter-level state outside the modelled JASMConfig singleton (module globals, class attributes, "
               "mutable defaults, logger handlers) is covered by the fresh-process comparison only"]
HERE = os.path.dirname(os.path.abspath(__file__))


def fresh(ops, hashseed=None):
    """each op alone in a fresh interpreter (optionally with a fixed string-hash seed)"""
    out = []
    env = dict(os.environ)
    if hashseed is not None:
        env["PYTHONHASHSEED"] = str(hashseed)
    for op in ops:
        p = subprocess.run(["/venv/bin/python", os.path.join(HERE, "..", "oneop.py")], input=json.dumps({"ops": [op]}),
                           capture_output=True, text=True, timeout=120, env=env)
        if p.returncode != 0:
            raise RuntimeError("fresh interpreter failed: " + p.stderr[-500:])
        r = json.loads(p.stdout.strip().split("\n")[-1])[0]
        out.append(tuple(r) if isinstance(r, list) else r)
    return out


def norm(r):
    return json.loads(json.dumps(r))


def pool(ctx):
    """operations differing in flags, sections, ranges, captures, macros, input kinds, modes; some failing"""
    g = ctx.g
    text = gen.render_listing([("401000", "push", ["%rbp"]), ("401001", "mov", ["%rsp", "%rbp"]), ("401004", "call", ["401020 <f>"]),
                               ("401009", "movq", ["%rax", "%rbx"]), ("40100c", "call", ["401100 <g>"]), ("401011", "add", ["$0x10", "%rax"]),
                               ("401015", "pop", ["%rbp"]), ("401016", "ret", [])], g)
    obj = objfuzz.assemble(ctx.scratch, [(".text", [0x55, 0x48, 0x89, 0xe5, 0xe8, 0, 0, 0, 0, 0x5d, 0xc3]),
                                         (".text2", [0x50, 0x58, 0xc3])], name="c14")
    # a second listing: operations on different inputs, so that a history re-using one input PATH rewrites it with
    # different content (something remembered per path would show as a dependence on the history)
    text2 = gen.render_listing([("402000", "xor", ["%eax", "%eax"]), ("402002", "mov", ["%rdi", "%rax"]), ("402005", "call", ["401030 <h>"]),
                                ("40200a", "pop", ["%rbx"]), ("40200b", "nop", []), ("40200c", "ret", [])], g)
    ops = []

    def op(doc, **kw):
        o = {"doc": doc, "text": text, "mode": "all", "addr_only": False, "ret": "list", "macro_docs": []}
        o.update(kw)
        ops.append(o)
    op({"pattern": ["mov"]})
    op({"pattern": ["mov"]}, text=text2)
    op({"pattern": ["pop", {"$or": ["nop", "ret"]}]}, text=text2, ret="stream")
    op({"config": {"valid_addr_range": {"min": "401000", "max": "401050"}}, "pattern": [{"call": ["valid_addr"]}]}, text=text2, addr_only=True)
    op({"config": {"mnemonics-full-match": True}, "pattern": ["mov"]})
    op({"config": {"operands-full-match": True, "mnemonics-full-match": True}, "pattern": [{"mov": ["rax"]}]})
    op({"pattern": [{"mov": ["rax"]}]}, ret="bool", mode="first")
    op({"config": {"valid_addr_range": {"min": "401000", "max": "401050"}}, "pattern": [{"call": ["valid_addr"]}]}, addr_only=True)
    op({"pattern": [{"call": ["valid_addr"]}]}, addr_only=True)
    op({"config": {"valid_addr_range": {"min": "0x401100", "max": "0x401100"}}, "pattern": [{"call": ["valid_addr"]}]})
    op({"pattern": ["&i", "mov", {"call": ["&t"]}]})
    op({"pattern": [{"mov": ["&a", "&b"]}, "call", {"movq": ["&c", "&a"]}]})
    op({"macros": [{"name": "@m", "pattern": [{"$or": ["mov", "add"]}]}], "pattern": ["@m", "call"]})
    op({"pattern": ["@x", "ret"]}, macro_docs=[{"macros": [{"name": "@x", "pattern": "pop"}]}])
    # the same macro name defined differently by another run's macro file, by the rule file itself, and not at all
    op({"pattern": ["@x", "mov"]}, macro_docs=[{"macros": [{"name": "@x", "pattern": "push"}]}])
    op({"macros": [{"name": "@x", "pattern": "add"}], "pattern": ["@x", "pop"]})
    op({"macros": [{"name": "@y", "pattern": "add"}], "pattern": ["@x", "ret"]})
    op({"config": {"sections": [".text2"]}, "pattern": ["pop"]}, text=None, binary_path=obj)
    op({"config": {"sections": [".text", ".text2"]}, "pattern": ["push"]}, text=None, binary_path=obj, addr_only=True)
    op({"pattern": ["ret"]}, text=None, binary_path=obj, ret="stream")
    op({"config": {"style": "att"}, "pattern": ["call"]}, ret="stream")
    # failing operations (they may leave the singleton half-written)
    op({"config": {"mnemonics-full-match": "yes"}, "pattern": ["mov"]})
    op({"config": {"operands-full-match": True, "sections": "text"}, "pattern": ["mov"]})
    op({"config": {"mnemonics-full-match": True, "valid_addr_range": {"min": "zz", "max": "10"}}, "pattern": ["mov"]})
    op({"config": {"sections": [".nosuch"]}, "pattern": ["ret"]}, text=None, binary_path=obj)
    op({"pattern": [{"$or": []}]})
    # a `config:` key that is present but null / empty (every entry commented out): whatever the code makes of it, it makes
    # the same of it after any history
    # groups whose alternatives can match at one place with different lengths: which one wins must not depend on anything
    # but the rule (the interpreter's string-hash seed is not an input)
    op({"pattern": [{"$and_any_order": ["push", {"mov": {"times": {"min": 0, "max": 1}}}]}]})
    op({"pattern": [{"$and_any_order": [{"$or": ["mov", "call"], "times": {"min": 1, "max": 2}}, "mov", "push"]}]})
    op({"config": None, "pattern": [{"$or": ["mov", {"call": ["401020"]}]}]})
    op({"config": {}, "pattern": [{"$or": ["mov", {"call": ["401020"]}]}]})
    op({"config": None, "pattern": [{"call": ["valid_addr"]}]}, addr_only=True)
    return ops


def model_run(ctx, op, obj_texts):
    req = {"op": "run", "doc": model.y2j(op["doc"]), "macroDocs": [model.y2j(m) for m in op.get("macro_docs", [])],
           "kind": "binary" if op.get("binary_path") else "assembly", "mode": op["mode"], "addrOnly": op["addr_only"], "ret": op["ret"]}
    if op.get("binary_path"):
        secs = tuple((op["doc"].get("config") or {}).get("sections", []) or [])
        t = obj_texts.get(secs)
        if t is not None:
            req["text"] = t
    else:
        req["text"] = op["text"]
    return model.outcome(ctx.driver.call(req))


def run(ctx, factor):
    g, rep = ctx.g, ctx.report
    rep.rule = ("a pool of 31 complete operations on two different listings and one object file (differing in full-match flags, sections, address ranges, instruction/"
                "operand captures, in-file and extra-file macros, assembly/binary input, modes; five of them failing, some "
                "after having written part of the config) ; random sequences of 2-6 (thorough: up to 10) operations run in "
                "ONE interpreter, every result compared with the same operation run alone in a FRESH interpreter, and with "
                "the model run in sequence from its own state; non-trivial = sequence contains two operations with "
                "different configs")
    ops = pool(ctx)
    ref = [norm(r) for r in fresh(ops)]
    # fresh interpreters differ in one thing the user does not control: the seed of Python's string hashing
    anyorder = [i for i, o in enumerate(ops) if "$and_any_order" in json.dumps(o["doc"])]
    # one configuration object handed on from operation to operation (`dataclasses.replace` of the one just used, only the
    # way of asking changed): the answers must be those of fresh configurations
    for i, o in enumerate(ops):
        if o.get("text") is None or o.get("macro_docs") or ref[i][0] != "ok" or o["mode"] != "all" or o["ret"] != "list":
            continue
        asks = [("bool", "all", o["addr_only"]), ("list", "all", o["addr_only"]), ("list", "all", not o["addr_only"]),
                ("list", "first", o["addr_only"]), ("list", "all", o["addr_only"])]
        got = [norm(r) for r in impl.run_ops_shared_config(ctx.scratch, o["doc"], o["text"], asks)]
        rep.case({"operation": o, "asked_through_one_configuration_object": asks}, True, tags=["shared-config-object"])
        for k in (1, 4):
            if got[k] != ref[i]:
                rep.violate("result-depends-on-earlier-use-of-the-configuration-object",
                            {"operation": o, "asked_before_through_the_same_configuration": asks[:k]},
                            {"fresh_process_result": ref[i]}, {"result": got[k]}, model_agrees_with_spec=None)
                break
    for seed in (ctx.g.int(1, 50), ctx.g.int(51, 100)) + ((ctx.g.int(101, 1000),) if ctx.tier == "thorough" else ()):
        other = [norm(r) for r in fresh([ops[i] for i in anyorder], hashseed=seed)]
        for i, r in zip(anyorder, other):
            rep.case({"operation": ops[i], "PYTHONHASHSEED": seed}, True, tags=["hash-seed"])
            if r != ref[i]:
                rep.violate("result-depends-on-the-hash-seed", {"operation": ops[i], "PYTHONHASHSEED": seed},
                            {"result_in_another_fresh_process": ref[i]}, {"result": r}, model_agrees_with_spec=None)
    obj = next(o["binary_path"] for o in ops if o.get("binary_path"))
    obj_texts = {}
    for secs in {tuple((o["doc"].get("config") or {}).get("sections", []) or []) for o in ops if o.get("binary_path")}:
        rc, out, err = objfuzz.objdump(obj, secs)
        obj_texts[secs] = out if rc == 0 else None
    # model: each op alone from the initial state
    for i, o in enumerate(ops):
        ctx.driver.call({"op": "reset"})
        m = model_run(ctx, o, obj_texts)
        if m[0] != "unsup" and (m[0] != ref[i][0] or (m[0] == "ok" and m[1] != ref[i][1])):
            rep.disagree("T6-single-op", {"op": o}, ref[i], m)
    maxlen = 6 if ctx.tier == "quick" else 10
    for _ in range(ctx.budget(40, 1500) * factor):
        seq = [g.r.randrange(len(ops)) for _ in range(g.int(2, maxlen))]
        if g.chance(0.4):
            # an operation, then one that FAILS (possibly after having written part of its configuration), then the first
            # one again - or another one with the same configuration: a rejected rule must leave nothing behind
            failing = [j for j, r in enumerate(ref) if r[0] != "ok"]
            i0 = g.r.randrange(len(ops))
            same_cfg = [j for j, o in enumerate(ops) if json.dumps(o["doc"].get("config")) == json.dumps(ops[i0]["doc"].get("config"))]
            seq = seq[:g.int(0, 2)] + [i0, g.pick(failing), g.pick(same_cfg)]
        ctx.driver.call({"op": "reset"})
        # in half of the histories every operation reads its rule (and listing) from the SAME path, rewritten each time:
        # a result remembered per path would then show up as a dependence on the history
        same_paths = g.chance(0.5)
        for pos, i in enumerate(seq):
            o = ops[i]
            kw = {}
            if same_paths:
                import os
                rp = os.path.join(ctx.scratch.dir, "same_rule.yaml")
                with open(rp, "w") as fh:
                    fh.write(impl.dump_yaml(o["doc"]))
                kw["rule_path"] = rp
                if o.get("text") is not None:
                    ip = os.path.join(ctx.scratch.dir, "same_input.s")
                    with open(ip, "w") as fh:
                        fh.write(o["text"])
                    kw["input_path"] = ip
            got = norm(impl.run_op(ctx.scratch, o["doc"], o.get("text"), mode=o["mode"], addr_only=o["addr_only"], ret=o["ret"],
                                   macro_docs=o.get("macro_docs", ()), binary_path=o.get("binary_path"), **kw))
            m = model_run(ctx, o, obj_texts)
            case = {"history": [ops[j] for j in seq[:pos]], "operation": o}
            if got != ref[i]:
                rep.violate("result-depends-on-history", case, {"fresh_process_result": ref[i]}, {"result_after_history": got},
                            model_agrees_with_spec=(m[0] == ref[i][0] and (m[0] != "ok" or m[1] == ref[i][1])))
                break
            if m[0] != "unsup" and (m[0] != got[0] or (m[0] == "ok" and m[1] != got[1])):
                rep.disagree("T6-sequence", case, got, m)
        rep.case({"sequence_of_pool_indices": seq, "last_operation": ops[seq[-1]]["doc"]}, len({json.dumps(ops[j]["doc"].get("config")) for j in seq}) > 1,
                 tags=["len=%d" % len(seq)])
        if rep.has_new() and factor > 1:
            return


def finding_reproduces(ctx, f):
    return None


def replay(ctx, payload):
    c = payload["case"]
    out = []
    for o in c["history"] + [c["operation"]]:
        out.append(impl.run_op(ctx.scratch, o["doc"], o.get("text"), mode=o["mode"], addr_only=o["addr_only"], ret=o["ret"],
                               macro_docs=o.get("macro_docs", ()), binary_path=o.get("binary_path")))
    return {"results_in_sequence": out, "last_alone_in_fresh_interpreter": fresh([c["operation"]])}

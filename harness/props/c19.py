"""C19 Every `@macro` reference is expanded or reported, never silently kept."""
import copy
import gen_rules, impl, model

CONSTS = ()
ASSUMPTIONS = ["a reference is an @name at the start of a string (leaf, dict key, dict value) or embedded in a longer name (string macros)"]


def run(ctx, factor):
    g, rep = ctx.g, ctx.report
    rep.rule = ("rules with 1-3 macro definitions and one extra @reference placed as list item / operand / dict value "
                "(deref field) / dict key with a body (operands or times) / inside a macro body, the referenced macro being "
                "defined before its user, after it, or not at all; also a macro whose own name lacks the @. Compiling on the "
                "real code must either fail (error names the undefined macro) or yield a regex without any @; outcome and "
                "regex compared with the model")
    for _ in range(ctx.budget(1200, 20000) * factor):
        doc = gen_rules.rule(g, {"ops", "logic"}, depth=1)
        defs = [{"name": "@d1", "pattern": [g.pick(["mov", {"add": ["rax"]}])]},
                {"name": "@d2", "pattern": g.pick(["rbx", "push"])}]
        status = g.pick(["defined-before", "defined-after", "undefined", "defined"])
        # the referenced name: also names that extend the documented wildcard `@any` and other shipped macro names
        # (an undefined `@any_shift` is as undefined as `@ref`)
        ref = g.pick(["@ref", "@ref", "@any_shift", "@anyreg", "@any", "@reg_gp", "@imm_8", "@any_rot",
                      "@8bit_reg", "@64", "@-x", "@.r", "@R", "@_"])        # anything after the @ makes a reference
        refdef = {"name": ref, "pattern": [g.pick(["pop", {"sub": ["rcx"]}])] if g.chance(0.5) else "xor"}
        pos = g.pick(["list-item", "operand", "dict-value", "key-with-operands", "key-with-times", "in-macro-body",
                      "embedded-in-operand", "embedded-in-mnemonic", "embedded-in-dict-value", "in-macro-argument",
                      "inside-string-macro-text"])
        if pos.startswith("embedded") or pos == "inside-string-macro-text":
            refdef = {"name": ref, "pattern": g.pick(["ax", "orq", "r8"])}      # only string macros can sit inside a name
        macros = [copy.deepcopy(d) for d in defs[: g.int(1, 2)]]
        pat = doc["pattern"]
        if pos == "list-item":
            pat.insert(g.int(0, len(pat)), ref)
        elif pos == "operand":
            pat.insert(g.int(0, len(pat)), {"mov": ["rax", ref]})
        elif pos == "dict-value":
            pat.insert(g.int(0, len(pat)), {"mov": [{"$deref": {"main_reg": ref}}]})
        elif pos == "embedded-in-operand":
            pat.insert(g.int(0, len(pat)), {"mov": [g.pick(["%", "r", "e"]) + ref, "rbx"]})
        elif pos == "embedded-in-mnemonic":
            pat.insert(g.int(0, len(pat)), g.pick(["x", "mov"]) + ref)
        elif pos == "embedded-in-dict-value":
            pat.insert(g.int(0, len(pat)), {"mov": [{"$deref": {"main_reg": "%" + ref}}]})
        elif pos == "in-macro-argument":
            # the reference is the ARGUMENT of a parameterised macro call: it lands in the tree when that macro is expanded
            macros.insert(g.int(0, len(macros)), {"name": "@pm", "args": ["macro-arg"], "pattern": [{"mov": ["macro-arg", "rbx"]}]})
            pat.insert(g.int(0, len(pat)), g.pick([{"@pm": {"macro-arg": ref}}, {"@pm": None, "macro-arg": ref}]))
            refdef = {"name": ref, "pattern": g.pick(["rcx", "r9"])}
        elif pos == "inside-string-macro-text":
            # the reference sits inside the TEXT of a string macro that the rule uses as a whole item / operand / key:
            # after the expansion the leftover string is exactly that macro's text - still an unresolved reference
            text = g.pick(["%r", "r", "x", "%e"]) + ref
            use = g.pick(["operand", "item", "key-with-times", "dict-value"])
            macros.append({"name": "@w", "pattern": text})
            pat.insert(g.int(0, len(pat)), {"mov": ["@w", "rbx"]} if use == "operand" else "@w" if use == "item" else
                       {"@w": {"times": 2}} if use == "key-with-times" else {"mov": [{"$deref": {"main_reg": "@w"}}]})
        elif pos == "key-with-operands":
            pat.insert(g.int(0, len(pat)), {ref: ["rax"]})
        elif pos == "key-with-times":
            pat.insert(g.int(0, len(pat)), {ref: {"times": 2}})
        else:
            user = {"name": "@user", "pattern": [{"$and": [ref, "nop"]}]}
            pat.insert(g.int(0, len(pat)), "@user")
            macros.insert(g.int(0, len(macros)), user)
        if status != "undefined":
            if pos in ("in-macro-body", "inside-string-macro-text"):
                ui = next(i for i, m in enumerate(macros) if m["name"] in ("@user", "@w"))
                if status == "defined-before":
                    macros.insert(ui, refdef)         # listed earlier than its user: no later pass rescans the body
                else:
                    macros.insert(ui + 1, refdef)
            else:
                macros.insert(g.int(0, len(macros)), refdef)
        if g.chance(0.1):
            # a macro whose own name does not START with @ (no @ at all, or an @ further inside) must be rejected
            bad = g.pick(["noat", "any@reg", "reg@", "%@tmp", "x@"])
            macros.append({"name": bad, "pattern": "x"})
            if g.chance(0.5) and "@" in bad:
                pat.append(bad)
        files = []
        d = dict(doc)
        if g.chance(0.3):
            files = [{"macros": macros}]
        else:
            d["macros"] = macros
        d["pattern"] = pat
        r = impl.compile_rule(ctx.scratch, d, files)
        msg = impl.LAST_ERROR[0]
        case = {"rule": d, "macro_files": files, "position": pos, "status": status}
        mr = model.outcome(ctx.driver.call({"op": "rule", "doc": model.y2j(d), "macroDocs": [model.y2j(f) for f in files]}))
        if mr[0] == "unsup":
            rep.unsupported += 1
        elif mr[0] != r[0] or (r[0] == "ok" and mr[1] != r[1]):
            rep.disagree("T1-regex-text(macro rule)", case, r, mr)
        if r[0] == "ok" and "@" in r[1]:
            rep.violate("reference-survives-into-the-matcher", case, "error or a regex without @", {"regex": r[1]},
                        model_agrees_with_spec=(mr[0] == "err"))
        if status == "undefined" and r[0] == "ok":
            # no definition of the referenced name is in play: the only acceptable outcome is an error
            rep.violate("undefined-reference-not-reported", case, "an error naming " + ref, {"regex": r[1]},
                        model_agrees_with_spec=(mr[0] == "err"))
        if any(not m["name"].startswith("@") for m in macros) and r[0] == "ok":
            rep.violate("macro-name-without-@-accepted", case, "error", {"regex": r[1]})
        if r[0] == "err" and status == "undefined" and all(m["name"].startswith("@") for m in macros) and r[1] == "ValueError" and ref not in msg:
            rep.violate("error-does-not-name-the-macro", case, "message naming " + ref, {"message": msg})
        rep.case(case, True, tags=["pos:" + pos, "status:" + status, "outcome:" + r[0]])
        if rep.has_new() and factor > 1:
            return


def finding_reproduces(ctx, f):
    for rule in f["witness"]["rules"]:
        r = impl.compile_rule(ctx.scratch, rule)
        if r[0] == "ok" and "@" in r[1]:
            return True
    return False


def replay(ctx, payload):
    c = payload["case"]
    return {"implementation": impl.compile_rule(ctx.scratch, c["rule"], c["macro_files"]), "message": impl.LAST_ERROR[0]}

"""C18 `valid_addr_range` tags exactly direct calls/jumps that land in the range."""
import gen, gen_lines, impl, model, patdiff

CONSTS = ("JUMP_MNEMONICS",)
ASSUMPTIONS = ["no original operand contains the text valid_addr; bounds are given as strings (YAML integers raise)"]
JUMPS = ["call", "callq", "jmp", "jne", "je", "jg", "jge", "jl", "jle", "jz", "jnz"]


def run(ctx, factor):
    g, rep = ctx.g, ctx.report
    rep.rule = ("ranges (min = max, different digit counts, with/without 0x, upper/lower case) x listings mixing direct calls/"
                "jumps with targets at min-1, min, max, max+1 and elsewhere, indirect branches (*%reg, *disp(%rip)), conditional "
                "jumps and non-branches carrying the same numbers; per instruction: tagged iff the property says so (Python "
                "oracle), untagged instructions unchanged, count/order/addresses unchanged; stream vs model; the rule "
                "`call: [valid_addr]` must report exactly the tagged calls; and without the option nothing is rewritten")
    for _ in range(ctx.budget(800, 16000) * factor):
        lo = g.pick([0, 0x10, 0x400, 0x401000, g.int(0, 0xffff)])          # 0: relocatable objects, blobs mapped at 0
        hi = lo + g.pick([0, 1, 0x10, 0x1000, g.int(0, 0xffff)])

        def spell(v):
            s = "%x" % v
            if g.chance(0.3):
                s = s.upper()
            if g.chance(0.3):
                s = "0" * g.int(1, 3) + s
            return ("0x" + s) if g.chance(0.5) else s
        cfg = {"valid_addr_range": {"min": spell(lo), "max": spell(hi)}}
        lines, meta = [], []
        addr = 0x1000
        for _ in range(g.int(1, 10)):
            k = g.int(0, 9)
            l, nb = gen_lines.inst_line(g, addr)
            l["mnem"] = g.pick(["mov", "add", "push", "lea"]) if l["mnem"] in JUMPS + ["(bad)"] else l["mnem"]
            t = g.pick([lo - 1, lo, hi, hi + 1, lo + (hi - lo) // 2, g.int(0, 0xfffff)])
            t = max(t, 0)
            if k < 5:
                l["mnem"] = g.pick(["call", "jmp", "call", "callq"]) if k < 4 else g.pick(["jne", "je", "jz", "jg"])
                l["ops"] = [{"k": "target", "h": "%x" % t}]
                l["annot"] = g.pick([None, "f+0x1"])
                meta.append(("direct", l["mnem"], t))
            elif k == 5:
                l["mnem"] = g.pick(["call", "jmp"])
                l["ops"] = g.pick([[{"k": "star", "r": "rax"}], [{"k": "mem", "disp": "*0x%x" % t, "a": "%rip"}],
                                   [{"k": "target", "h": "*0x%x" % t}], [{"k": "target", "h": "*%x" % t}]])   # `call *0x401000`: indirect through memory, no register
                l["annot"] = None
                meta.append(("indirect", l["mnem"], None))
            elif k == 6:
                l["mnem"] = g.pick(["mov", "push", "cmp", "jmpq", "loop"])
                l["ops"] = [{"k": "target", "h": "%x" % t}] + ([gen_lines.operand(g, ("reg",))] if g.chance(0.5) else [])
                l["annot"] = None
                meta.append(("nonbranch", l["mnem"], t))
            else:
                if l["ops"] and l["ops"][0]["k"] == "target":
                    l["ops"][0] = gen_lines.operand(g, ("reg", "imm"))
                meta.append(("other", l["mnem"], None))
            l["gap"] = max(l["gap"], 1)
            lines.append(l)
            addr += nb
            if g.chance(0.2):
                # byte-continuation lines, labels, blanks: contribute nothing, with the option as without it
                lines.append(g.pick([{"k": "cont", "indent": 2, "addr": "%x" % addr, "bytes": "0102"},
                                     {"k": "label", "addr": "%016x" % addr, "name": "lbl"}, {"k": "blank"}]))
        r = ctx.driver.call({"op": "linespec", "lines": lines})["ok"]
        text = r["text"]
        plain = r["expected"]
        s = impl.stream_of(ctx.scratch, text, config=cfg)
        s0 = impl.stream_of(ctx.scratch, text)
        m = model.outcome(ctx.driver.call({"op": "stream", "text": text, "range": [lo, hi]}))
        case = {"config": cfg, "listing": text}
        if m[0] != "unsup" and (s[0] != m[0] or (s[0] == "ok" and s[1] != m[1])):
            rep.disagree("T3-stream-with-range", case, s, m)
        dec = gen.decode_stream(s[1]) if s[0] == "ok" else None
        dec0 = gen.decode_stream(s0[1]) if s0[0] == "ok" else None
        if dec0 != [tuple(x) if False else (x[0], x[1], x[2]) for x in plain]:
            rep.violate("operands-rewritten-without-the-option", case, {"instructions": plain}, {"decoded": dec0})
        if dec is None or len(dec) != len(plain):
            rep.violate("number-of-instructions-changed", case, {"count": len(plain)}, {"outcome": s})
        else:
            ntag = 0
            for (kind, mn, t), got, orig in zip(meta, dec, plain):
                inr = t is not None and lo <= t <= hi
                tagged = got[2] == ["valid_addr"]
                ntag += tagged
                bad = None
                if got[0] != orig[0] or got[1] != orig[1]:
                    bad = "address or mnemonic changed"
                elif not tagged and got[2] != orig[2]:
                    bad = "operands of an untagged instruction changed"
                elif kind == "direct" and mn in ("call", "jmp", "callq") and tagged != inr:
                    bad = "direct call/jmp with target %s range is %s" % ("in" if inr else "outside", "tagged" if tagged else "not tagged")
                elif kind == "direct" and tagged and not inr:
                    bad = "branch with target outside the range is tagged"
                elif kind in ("indirect", "nonbranch", "other") and tagged:
                    bad = "%s instruction is tagged" % kind
                if bad:
                    rep.violate("tagging", dict(case, instruction=orig, range=[hex(lo), hex(hi)]), bad, {"got": got},
                                model_agrees_with_spec=None)
                    break
            rep.dist["tagged=%d" % min(ntag, 4)] += 1
            # the rule `call: [valid_addr]` reports exactly the tagged calls
            doc = {"config": dict(cfg, **{"mnemonics-full-match": True, "operands-full-match": True}), "pattern": [{"call": ["valid_addr"]}]}
            a = impl.run_op(ctx.scratch, doc, text, mode="all", ret="list", addr_only=True)
            exp = [d[0] for d in dec if d[1] == "call" and d[2] == ["valid_addr"]]
            if a != ("ok", exp):
                rep.violate("valid_addr-rule", dict(case, rule=doc), {"addresses": exp}, {"addresses": a})
        rep.case(case, s[0] == "ok", tags=["range-width=%s" % ("0" if lo == hi else "1" if hi == lo + 1 else "n")])
        if rep.has_new() and factor > 1:
            return


def finding_reproduces(ctx, f):
    return None


def replay(ctx, payload):
    c = payload["case"]
    return {"implementation": impl.stream_of(ctx.scratch, c["listing"], config=c["config"])}
